import Proofs.C07.Laws
import Proofs.C07.Versions
import Proofs.C07.DerPath
import Proofs.C07.Bip85
import Proofs.C07.Serial
import Proofs.E2E.C07
import Proofs.E2E.C07Raw
import Proofs.E2E.CofactorOne
/-!
# C07 — BIP32 derivation obeys the BIP's equations and its algebraic laws

Property theorems only.  `E : Env α` bundles the group operations (`Btc.GroupOps α`), the MAC, HASH160 and
the version table; the drivers run the same definitions with `Btc.Bip32.secpEnv` (secp256k1 through the
shared transcription of btclib's arithmetic, HMAC-SHA512, the tables regenerated from `network.py`).
Group laws enter only as `L : Btc.Lawful E.o G`; sizes as `B : Bounds E` (`0 < n ≤ 2^256`, `p ≤ 2^256`), which
`secp_bounds` discharges for the executable instance.  NOTE: `Lawful (Btc.EC.ops C)` is uninhabited (off-curve pairs
have no x in range); what C01 proves is `Lawful (opsSub K)` (the same operations on reduced valid pairs of the
n-torsion).  So the `L`-theorems below are instantiated at `subEnv K D` in the "End to end" section at the bottom,
and carried to the EXECUTED `ecEnv C D` there (`…_ec_cofactor_one`: any curve, under the cofactor-one hypothesis `hcof`)
and to the driver's `secpEnv mac` with NO curve-level hypothesis left (`…_secp256k1`: cofactor one of secp256k1 is the
theorem `Btc.E2E.secpCofactorOne`).  Theorems without `L` (T1/T2 for private keys, T2 for the fold, T4, T5, T6, T7)
apply to `secpEnv` as they stand.

* `deriveFold` is the BIP's definition: the plain fold of single child derivations, every step setting all
  six fields.  `deriveB` is btclib's `_derive`: depth set up front, `indexes[:-1]` walked on a mutable
  working record, parent fingerprint taken one step short of the end, the public key of the last parent
  handed to the last step, the public tweak chain holding the point.
-/
namespace Props.C07
open Btc Btc.Bip32

variable {α : Type} {E : Env α}

/-! ## T1 — btclib's last-step-special walk is the fold of BIP steps, on every field -/

/-- T1 (private keys; no group law needed): for every path length, 0 and 1 included, `_derive` on a
    private key returns exactly what folding CKDpriv returns — key, chain code, depth, index, parent
    fingerprint, version — and refuses exactly when the fold refuses, with the same error. -/
theorem deriveB_private_eq_fold (B : Bounds E) (x : XKey) (p : List Nat) (hprv : x.isPrivate = true)
    (hd : x.depth + p.length ≤ MAX_DEPTH) : deriveB E x p none = deriveFold E x p := by
  rw [deriveFold_eq' E x p hd]; exact deriveB_private B x p hprv hd

/-- T1 (all keys): the same for public keys along unhardened paths, where the code's tweak chain holds a
    point across the steps and the fold re-parses the 33 octets at each step. -/
theorem deriveB_eq_fold {G : Type} [AddCommGroup G] (L : Lawful E.o G) (B : Bounds E) (x : XKey) (p : List Nat)
    (hk : x.isPrivate = true ∨ ∀ i ∈ p, i < HARDENED) (hd : x.depth + p.length ≤ MAX_DEPTH) :
    deriveB E x p none = deriveFold E x p := by
  rw [deriveFold_eq' E x p hd]
  cases hx : x.isPrivate with
  | true => exact deriveB_private B x p hx hd
  | false =>
    rcases hk with h | h
    · rw [hx] at h; cases h
    · exact deriveB_public L B x p hx h hd

/-- T1/T4 (depth): past depth 255 both descriptions refuse; the code says so before walking anything. -/
theorem derive_too_deep (x : XKey) (p : List Nat) (f : Option Bytes) (hx : x.depth ≤ MAX_DEPTH)
    (hd : x.depth + p.length > MAX_DEPTH) :
    deriveB E x p f = .error .depth ∧ ∃ e, deriveFold E x p = .error e :=
  ⟨deriveB_too_deep x p f hd, deriveFold_too_deep E x p hx hd⟩

/-- T1 (fields): whatever `_derive` answers sits at the requested index and at depth + path length, with the
    parent's version — an invalid child is never replaced by the next index. -/
theorem deriveB_fields {G : Type} [AddCommGroup G] (L : Lawful E.o G) (B : Bounds E) (x y : XKey) (p : List Nat)
    (hk : x.isPrivate = true ∨ ∀ i ∈ p, i < HARDENED) (h : deriveB E x p none = .ok y) :
    y.depth = x.depth + p.length ∧ y.version = x.version ∧ y.isPrivate = x.isPrivate ∧
    ∀ i, p.getLast? = some i → y.index = i := by
  have hd : x.depth + p.length ≤ MAX_DEPTH := by
    by_contra hc
    rw [deriveB_too_deep x p none (by omega)] at h
    cases h
  rw [deriveB_eq_fold L B x p hk hd, deriveFold_eq' E x p hd] at h
  exact deriveFold'_fields E x y p h

/-- T1 (fields, private keys): no group law needed — applies to the executed `secpEnv` as it stands. -/
theorem deriveB_fields_private (B : Bounds E) (x y : XKey) (p : List Nat) (hprv : x.isPrivate = true)
    (h : deriveB E x p none = .ok y) :
    y.depth = x.depth + p.length ∧ y.version = x.version ∧ y.isPrivate = x.isPrivate ∧
    ∀ i, p.getLast? = some i → y.index = i :=
  Btc.Bip32.deriveB_fields_private B x y p hprv h

/-- T1 (forced version): forcing a version is re-labelling the key first; the derivation never reads it. -/
theorem deriveB_forced_version (x : XKey) (p : List Nat) (f : Bytes) (hf : f ≠ [])
    (hd : x.depth + p.length ≤ MAX_DEPTH) :
    deriveB E x p (some f) =
      (forceVersion E x.version f).bind fun v => deriveB E { x with version := v } p none :=
  deriveB_forced x p f hf hd

/-! ## T2 — composition over every split of a path -/

/-- T2 (the BIP's fold): deriving along `p ++ q` is deriving along `p`, then along `q` — as an equation
    between results, refusals included. -/
theorem deriveFold_compose (x : XKey) (p q : List Nat) :
    deriveFold E x (p ++ q) = (deriveFold E x p).bind fun y => deriveFold E y q :=
  deriveFold_append E x p q

/-- T2 (btclib's `_derive`): whenever the first leg is defined, one call along the whole path equals two
    calls along any split of it — on every field. -/
theorem deriveB_compose {G : Type} [AddCommGroup G] (L : Lawful E.o G) (B : Bounds E) (x y : XKey) (p q : List Nat)
    (hk : x.isPrivate = true ∨ ∀ i ∈ p ++ q, i < HARDENED)
    (hd : x.depth + (p ++ q).length ≤ MAX_DEPTH) (h : deriveB E x p none = .ok y) :
    deriveB E y q none = deriveB E x (p ++ q) none := by
  have hkp : x.isPrivate = true ∨ ∀ i ∈ p, i < HARDENED :=
    hk.imp id fun h i hi => h i (List.mem_append_left _ hi)
  have hf := deriveB_fields L B x y p hkp h
  have hdp : x.depth + p.length ≤ MAX_DEPTH := by simp at hd; omega
  have hdq : y.depth + q.length ≤ MAX_DEPTH := by simp at hd; omega
  have hkq : y.isPrivate = true ∨ ∀ i ∈ q, i < HARDENED := by
    rcases hk with h | h
    · left; rw [hf.2.2.1]; exact h
    · right; exact fun i hi => h i (List.mem_append_right _ hi)
  rw [deriveB_eq_fold L B x p hkp hdp] at h
  rw [deriveB_eq_fold L B y q hkq hdq, deriveB_eq_fold L B x (p ++ q) hk hd, deriveFold_append, h]
  rfl

/-- T2 (btclib's `_derive`, private keys): no group law needed — applies to the executed `secpEnv` as it stands. -/
theorem deriveB_compose_private (B : Bounds E) (x y : XKey) (p q : List Nat) (hprv : x.isPrivate = true)
    (hd : x.depth + (p ++ q).length ≤ MAX_DEPTH) (h : deriveB E x p none = .ok y) :
    deriveB E y q none = deriveB E x (p ++ q) none :=
  Btc.Bip32.deriveB_compose_private B x y p q hprv hd h

/-! ## T3 — neutering commutes with unhardened derivation, definedness included -/

/-- T3 (the BIP's fold): for a valid xprv and an unhardened path, derive-then-neuter equals
    neuter-then-derive as an equation between results: the left half out of range is refused at the same
    index on both sides, and a zero private child is refused exactly where the public child is at infinity
    (`Err.toPub` renames that one refusal). -/
theorem neuter_derive {G : Type} [AddCommGroup G] (L : Lawful E.o G) (B : Bounds E) (x : XKey) (v : Bytes)
    (p : List Nat) (hv : ValidPrv E x) (hver : E.pubVersion x.version = some v) (hp : ∀ i ∈ p, i < HARDENED) :
    ((deriveFold E x p).mapError Err.toPub).bind (neuter E) =
      (neuter E x).bind fun x' => deriveFold E x' p :=
  neuter_deriveFold L B p x hv hver hp

/-- T3 (btclib's shape): the same for `_derive` and `_xpub_from_xprv`, within the depth bound. -/
theorem neuter_deriveB {G : Type} [AddCommGroup G] (L : Lawful E.o G) (B : Bounds E) (x : XKey) (v : Bytes)
    (p : List Nat) (hv : ValidPrv E x) (hver : E.pubVersion x.version = some v) (hp : ∀ i ∈ p, i < HARDENED)
    (hd : x.depth + p.length ≤ MAX_DEPTH) :
    ((deriveB E x p none).mapError Err.toPub).bind (neuter E) =
      (neuter E x).bind fun x' => deriveB E x' p none := by
  rw [deriveB_eq_fold L B x p (Or.inr hp) hd, neuter_deriveFold L B p x hv hver hp, neuter_ok hv hver]
  simp only [Except.bind]
  exact (deriveB_eq_fold L B { x with version := v, key := pubOfPrv E x.prvInt } p (Or.inr hp) hd).symm

/-! ## T4 — refusals -/

/-- T4: a hardened child of a public key is refused. -/
theorem hardened_from_public_refused (x : XKey) (i : Nat) (hi : i ≥ HARDENED) :
    ckdPub E x i = .error .hardenedPub :=
  ckdPub_hardened x i hi

/-- T4: `_derive` refuses a public key along any path holding a hardened index (before walking it), and the
    BIP fold refuses that path too. -/
theorem hardened_path_from_public_refused (x : XKey) (p : List Nat) (hpub : x.isPrivate = false)
    (hd : x.depth + p.length ≤ MAX_DEPTH) (hh : ∃ i ∈ p, i ≥ HARDENED) :
    deriveB E x p none = .error .hardenedPub ∧ ∃ e, deriveFold E x p = .error e := by
  refine ⟨deriveB_public_hardened x p hpub hd hh, ?_⟩
  rw [deriveFold_eq' E x p hd]
  exact deriveFold'_public_hardened p x hpub hh

/-- T4: `pub_key_derivation_tweaks` (the index-taking entry that does not go through `derive`) refuses a path
    holding any index at or above 2^31 — 2^31 itself included — before walking a step.  (This restates the three guards
    of the model's `pubTweaks` in order — length, range, hardened; its content is that the hardened test is `≥ 2^31` and
    precedes any walking; that the CODE has these guards is what the `bip32.tweaks` streams and the boundary oracle tie.) -/
theorem tweaks_hardened_refused (key chain : Bytes) (idx : List Nat) (hk : key.length = 33) (hc : chain.length = 32)
    (hi : ∀ i ∈ idx, i ≤ Gen.Bip32.PATH_MAX_INDEX) (hh : ∃ i ∈ idx, i ≥ HARDENED) :
    pubTweaks E key chain idx = .error .hardenedPub := by
  unfold pubTweaks
  have h1 : idx.any (· > Gen.Bip32.PATH_MAX_INDEX) = false := by
    rw [List.any_eq_false]; intro j hj; have := hi j hj; simp; omega
  have h2 : idx.any (· ≥ HARDENED) = true := by
    rw [List.any_eq_true]; obtain ⟨j, hj, hjh⟩ := hh; exact ⟨j, hj, by simpa using hjh⟩
  simp [hk, hc, h1, h2]

/-- T4: a left half that is no scalar, and a zero child, are refused with the index that was asked for. -/
theorem invalid_private_child_refused (x : XKey) (i : Nat) (pub : Bytes) (h : Bytes × Bytes) :
    (nN E ≤ ofBE h.1 → ckdPrivWith E x i pub h = .error (.childIL i)) ∧
    (ofBE h.1 < nN E → (x.prvInt + ofBE h.1) % nN E = 0 → ckdPrivWith E x i pub h = .error (.childZero i)) := by
  unfold ckdPrivWith
  constructor
  · intro h1; simp [h1]
  · intro h1 h2; simp [Nat.not_le.mpr h1, h2]

/-- T4: likewise the public child at infinity. -/
theorem invalid_public_child_refused (x : XKey) (i : Nat) (P : α) (h : Bytes × Bytes) :
    (nN E ≤ ofBE h.1 → ckdPubWith E x i P h = .error (.childIL i)) ∧
    (ofBE h.1 < nN E → E.o.isZero (E.o.add P (E.o.mul ((ofBE h.1 : Nat) : Int) E.o.gen)) = true →
      ckdPubWith E x i P h = .error (.childInf i)) := by
  unfold ckdPubWith
  constructor
  · intro h1; simp [h1]
  · intro h1 h2; simp [Nat.not_le.mpr h1, h2]

/-- T4: a step that answers, answers the child at the index asked and one level down. -/
theorem ckd_answers_requested_index (x y : XKey) (i : Nat) (h : ckd E x i = .ok y) :
    y.index = i ∧ y.depth = x.depth + 1 ∧ y.depth ≤ MAX_DEPTH := by
  unfold ckd at h
  split at h
  · cases h
  · have := ckd'_fields E h
    exact ⟨this.2.1, this.1, by omega⟩

/-! ## T5 — the parent private key is recoverable from the parent xpub and an unhardened child xprv -/

/-- T5: `crack (neuter parent) (CKDpriv parent i) = parent` for every unhardened `i` (the arithmetic of
    `crack_prv_key_var` after its validity guards). -/
theorem crack_recovers_parent (B : Bounds E) (x y : XKey) (v : Bytes) (i : Nat) (hv : ValidPrv E x)
    (hi : i < HARDENED) (hc : ckdPriv E x i = .ok y) :
    crackCore E { x with version := v, key := pubOfPrv E x.prvInt } y = .ok x :=
  crackCore_ckdPriv B hv v i hi hc

/-- T5: the same spelled with `neuter`. -/
theorem crack_neuter_ckdPriv (B : Bounds E) (x x' y : XKey) (i : Nat) (hv : ValidPrv E x) (hi : i < HARDENED)
    (hn : neuter E x = .ok x') (hc : ckdPriv E x i = .ok y) : crackCore E x' y = .ok x := by
  cases hver : E.pubVersion x.version with
  | none => simp [neuter, hver] at hn; split at hn <;> cases hn
  | some v =>
    rw [neuter_ok hv hver] at hn
    cases hn
    exact crackCore_ckdPriv B hv v i hi hc

/-- T5: a hardened child is refused. -/
theorem crack_hardened_refused (p c : XKey) (h1 : c.depth = p.depth + 1) (h2 : c.parentFp = fpOf E p.key)
    (h3 : c.index ≥ HARDENED) : crackCore E p c = .error .hardenedChild := by
  unfold crackCore; simp [h1, h2, h3]

/-! ## T6 — path spellings -/

/-- T6: reading back the text written for a list of indexes gives the list, for either written symbol. -/
theorem path_text_roundtrip (idx : List Nat) (hsym : Char) (hh : hsym = 'h' ∨ hsym = '\'')
    (hi : ∀ i ∈ idx, i < 2 ^ 32) (hl : idx.length ≤ 255) :
    ∃ s, DerPath.strFromIndexes idx [hsym] = .ok s ∧ DerPath.indexesFromStr s = .ok idx :=
  DerPath.str_roundtrip idx hsym hh hi hl

/-- T6: the three hardening markers `h`, `'`, `H` are read alike: digits followed by any of them is the
    hardened index; without a marker it is the plain one. -/
theorem hardening_markers (n : Nat) (hn : n < 2 ^ 31) (c : Char) (hc : c ∈ Gen.Bip32.HARDENINGS) :
    DerPath.indexOfStep Gen.Bip32.HARDENINGS false (Nat.toDigits 10 n ++ [c]) = .ok (n + 2 ^ 31) ∧
    DerPath.indexOfStep Gen.Bip32.HARDENINGS false (Nat.toDigits 10 n) = .ok n :=
  DerPath.step_markers n hn c hc

/-- T6 (boundary): `2^31 - 1` is the last plain number; `2^31` and above must be spelled with a marker. -/
theorem hardened_boundary (n : Nat) (hn : 2 ^ 31 ≤ n) :
    DerPath.indexOfStep Gen.Bip32.HARDENINGS false (Nat.toDigits 10 n) = .error .index ∧
    DerPath.indexOfStep Gen.Bip32.HARDENINGS false (Nat.toDigits 10 (2 ^ 31 - 1)) = .ok (2 ^ 31 - 1) :=
  DerPath.step_boundary n hn

/-- T6 (bytes form): the 4-byte little-endian concatenation reads back to the list. -/
theorem path_bytes_roundtrip (idx : List Nat) (hi : ∀ i ∈ idx, i < 2 ^ 32) :
    ∃ b, DerPath.bytesFromIndexes idx = .ok b ∧ DerPath.indexesFromBytes b = .ok idx :=
  DerPath.bytes_roundtrip idx hi

/-! ## T7 — version pairing (about the tables regenerated from `btclib/network.py` each run) -/

/-- T7: `xpubversion_from_xprvversion` is a bijection from the xprv versions onto the xpub versions, defined
    exactly on the xprv versions; no version is both. -/
theorem version_pairing_bijective :
    (∀ v, (Gen.Bip32.pubVersion v).isSome ↔ v ∈ Gen.Bip32.XPRV_VERSIONS_ALL) ∧
    (∀ v ∈ Gen.Bip32.XPRV_VERSIONS_ALL, ∃ w ∈ Gen.Bip32.XPUB_VERSIONS_ALL, Gen.Bip32.pubVersion v = some w) ∧
    (∀ w ∈ Gen.Bip32.XPUB_VERSIONS_ALL, ∃ v ∈ Gen.Bip32.XPRV_VERSIONS_ALL, Gen.Bip32.pubVersion v = some w) ∧
    (∀ v ∈ Gen.Bip32.XPRV_VERSIONS_ALL, ∀ v' ∈ Gen.Bip32.XPRV_VERSIONS_ALL,
      Gen.Bip32.pubVersion v = Gen.Bip32.pubVersion v' → v = v') ∧
    (∀ v ∈ Gen.Bip32.XPRV_VERSIONS_ALL, v ∉ Gen.Bip32.XPUB_VERSIONS_ALL) :=
  ⟨pubVersion_isSome_iff, prv_all_paired, pub_all_paired, pub_injective, prv_pub_disjoint⟩

/-- T7: the pairing preserves the network and the kind (xprv↔xpub, yprv↔ypub, …, position by position in
    every network), every catalogued version belongs to a network, and no version is shared between a
    mainnet and a test network. -/
theorem version_pairing_network_preserving :
    (∀ net ∈ Gen.Bip32.NETWORK_VERSIONS,
      net.xprv.map Gen.Bip32.pubVersion = net.xpub.map some ∧ net.xprv.length = 5) ∧
    (∀ a ∈ Gen.Bip32.NETWORK_VERSIONS, ∀ b ∈ Gen.Bip32.NETWORK_VERSIONS, a.isMain ≠ b.isMain →
      ∀ v ∈ a.xprv ++ a.xpub, v ∉ b.xprv ++ b.xpub) ∧
    (∀ v ∈ Gen.Bip32.XPRV_VERSIONS_ALL, ∃ net ∈ Gen.Bip32.NETWORK_VERSIONS, v ∈ net.xprv) ∧
    (∀ v ∈ Gen.Bip32.XPUB_VERSIONS_ALL, ∃ net ∈ Gen.Bip32.NETWORK_VERSIONS, v ∈ net.xpub) :=
  ⟨network_pairing, network_type_separated, network_versions_catalogued.2.1, network_versions_catalogued.2.2⟩

/-- the constants the theorems are stated over are the ones the source has now, and the executable
    instance meets the size hypotheses (`Bounds`) with `n` equal to `bip32._N_BYTES`. -/
theorem instance_meets_bounds (mac : Bytes → Bytes → Bytes) :
    Bounds (secpEnv mac) ∧ nN (secpEnv mac) = Gen.Bip32.N ∧ HARDENED = 2 ^ 31 ∧ MAX_DEPTH = 255 :=
  ⟨secp_bounds mac, secp_n_eq mac, constants.1, constants.2.1⟩

/-! ## T8 — the BIP85 applications that derive from a BIP32 path (`bip85.py`)

The DRNG stream (`shake_256(entropy).digest(n)`) and BIP85's HMAC are parameters; the driver runs the same definitions
with the Lean SHAKE256 (validated against hashlib each run). -/

/-- T8 (paths): the derivation path each application writes — regenerated from the f-strings of `bip85.py` each run —
    is the one BIP85 prints: purpose 83696968', the application number, its arguments in the BIP's order (for DICE the
    sides BEFORE the rolls), the index last; RSA's optional sub-key level. -/
theorem bip85_paths_are_the_BIPs :
    Gen.Bip32.BIP85_PURPOSE = 83696968 ∧
    Gen.Bip32.BIP85_PATHS = [
      ("mnemonic_from_root_key", [("_PURPOSE", 0), ("", 39), ("_LANGUAGE_INDEXES[lang]", 0), ("words", 0), ("index", 0)], []),
      ("wif_from_root_key", [("_PURPOSE", 0), ("", 2), ("index", 0)], []),
      ("xprv_from_root_key", [("_PURPOSE", 0), ("", 32), ("index", 0)], []),
      ("bytes_entropy_from_root_key", [("_PURPOSE", 0), ("", 128169), ("num_bytes", 0), ("index", 0)], []),
      ("base64_password_from_root_key", [("_PURPOSE", 0), ("", 707764), ("pwd_len", 0), ("index", 0)], []),
      ("base85_password_from_root_key", [("_PURPOSE", 0), ("", 707785), ("pwd_len", 0), ("index", 0)], []),
      ("rolls_from_root_key", [("_PURPOSE", 0), ("", 89101), ("sides", 0), ("rolls", 0), ("index", 0)], []),
      ("rsa_drng_from_root_key", [("_PURPOSE", 0), ("", 828365), ("key_bits", 0), ("key_index", 0)], [("sub_key", 0)])] := by
  decide

/-- T8 (constants): the bounds, tables and the dice reader's byte order read from the source are BIP85's. -/
theorem bip85_constants_are_the_BIPs :
    Gen.Bip32.BIP85_ROLLS_BYTEORDER = "big" ∧
    -- "bip-entropy-from-k"
    Gen.Bip32.BIP85_KEY = [98, 105, 112, 45, 101, 110, 116, 114, 111, 112, 121, 45, 102, 114, 111, 109, 45, 107] ∧
    (Gen.Bip32.BIP85_MIN_BYTES, Gen.Bip32.BIP85_MAX_BYTES) = (16, 64) ∧
    (Gen.Bip32.BIP85_MIN_B64_LEN, Gen.Bip32.BIP85_MAX_B64_LEN) = (20, 86) ∧
    (Gen.Bip32.BIP85_MIN_B85_LEN, Gen.Bip32.BIP85_MAX_B85_LEN) = (10, 80) ∧
    Gen.Bip32.BIP85_DRNG_SEED_SIZE = 64 ∧ Gen.Bip32.BIP85_MIN_SIDES = 2 ∧ Gen.Bip32.BIP85_MIN_ROLLS = 1 ∧
    Gen.Bip32.BIP85_ENTROPY_BYTES = [(12, 16), (15, 20), (18, 24), (21, 28), (24, 32)] ∧
    Gen.Bip32.BIP85_LANGUAGES.map (·.2) = [0, 1, 2, 3, 4, 5, 6, 7, 8, 9] := by
  decide

/-- T8 (paths are hardened): whatever path an application derives along is hardened at every level and as long as
    its template, so `_assert_valid_der_path`'s third rule never fires on an application's own path; a level that
    cannot be written hardened (≥ 2^31 — a die of 2^32 - 1 sides included) is refused, never reduced. -/
theorem bip85_paths_hardened (lv idx : List Nat) :
    (Bip85.hardenAll lv = .ok idx → idx.length = lv.length ∧ (∀ i ∈ idx, i ≥ HARDENED) ∧ ∀ l ∈ lv, l < HARDENED) ∧
    ((∃ l ∈ lv, l ≥ HARDENED) → Bip85.hardenAll lv = .error (.bip32 .badField)) := by
  unfold Bip85.hardenAll
  constructor
  · intro h
    split at h
    · cases h
    · rename_i hn
      cases h
      refine ⟨by simp, ?_, ?_⟩
      · intro i hi; simp at hi; obtain ⟨a, _, rfl⟩ := hi; omega
      · intro l hl
        rw [Bool.not_eq_true, List.any_eq_false] at hn
        simpa using hn l hl
  · rintro ⟨l, hl, hge⟩
    have : lv.any (· ≥ HARDENED) = true := List.any_eq_true.2 ⟨l, hl, by simpa using hge⟩
    simp [this]

/-- T8 (DICE, width): `bits_per_roll` is `ceil(log2 sides)` — the least width holding every face —, the bytes read per
    trial are `ceil(bits / 8)`, and a trial read from that many bytes is below `2^bits < 2 * sides`: every trial is
    accepted with probability above one half, and no face is out of a trial's reach. -/
theorem bip85_trial_width (sides : Nat) (hs : 2 ≤ sides) (c : Bytes) (hc : c.length = Bip85.bytesPerRoll sides) :
    2 ^ (Bip85.bitsPerRoll sides - 1) < sides ∧ sides ≤ 2 ^ Bip85.bitsPerRoll sides ∧
    8 * Bip85.bytesPerRoll sides = Bip85.bitsPerRoll sides + Bip85.excessBits sides ∧ Bip85.excessBits sides < 8 ∧
    Bip85.trialOf sides c < 2 ^ Bip85.bitsPerRoll sides ∧ 2 ^ Bip85.bitsPerRoll sides < 2 * sides := by
  obtain ⟨h1, h2, h3⟩ := Bip85.bitsPerRoll_spec sides hs
  refine ⟨h2, h3, Bip85.width_split sides, ?_, Bip85.trialOf_lt sides c hc, ?_⟩
  · unfold Bip85.excessBits Bip85.bytesPerRoll; omega
  · have : 2 ^ Bip85.bitsPerRoll sides = 2 * 2 ^ (Bip85.bitsPerRoll sides - 1) := by
      rw [← Nat.pow_succ']; congr 1; omega
    omega
where
  /-- dice of more than 256 sides read multi-byte trials -/
  _multi_byte : Bip85.bytesPerRoll 257 = 2 ∧ Bip85.bytesPerRoll 65537 = 3 ∧ Bip85.bytesPerRoll (2 ^ 31 - 1) = 4 := by decide

/-- T8 (DICE, byte order): a trial is its bytes read BIG-endian — each further byte read is LESS significant — with the
    low `excess_bits` shifted out: the most significant bits are the roll. -/
theorem bip85_trial_big_endian (sides : Nat) (c : Bytes) (d : UInt8) :
    Bip85.trialOf sides (c ++ [d]) = (ofBE c * 256 + d.toNat) / 2 ^ Bip85.excessBits sides := by
  unfold Bip85.trialOf
  rw [Bip85.ofBE_snoc, Nat.shiftRight_eq_div_pow]

/-- T8 (DICE, rejection sampling): the rolls read off a stream are EXACTLY the first `rolls` trials that are below
    `sides`, in stream order — a trial at or beyond `sides` is dropped, never reduced or folded —, there are exactly
    `rolls` of them, each a face `0..sides-1`; and the model gives up (`none`) only when the stream prefix holds fewer
    accepted trials than asked. -/
theorem bip85_rolls_are_accepted_trials (sides rolls : Nat) (s : Bytes) :
    let trials := (Bip85.chunksOf (Bip85.bytesPerRoll sides) s.length s).map (Bip85.trialOf sides)
    (∀ h, Bip85.rollsOfStream sides rolls s = some h →
      h = (trials.filter (· < sides)).take rolls ∧ h.length = rolls ∧ ∀ r ∈ h, r < sides) ∧
    (Bip85.rollsOfStream sides rolls s = none ↔ (trials.filter (· < sides)).length < rolls) := by
  intro trials
  constructor
  · intro h hh
    obtain ⟨h1, h2⟩ := (Bip85.collect_spec sides trials rolls h).1 hh
    refine ⟨h2, by rw [h2, List.length_take]; omega, ?_⟩
    intro r hr
    rw [h2] at hr
    have := List.mem_of_mem_take hr
    simpa using (List.mem_filter.1 this).2
  · constructor
    · intro hn
      by_contra hc
      have := (Bip85.collect_spec sides trials rolls _).2 ⟨by omega, rfl⟩
      unfold Bip85.rollsOfStream at hn
      rw [hn] at this; cases this
    · intro hlt
      cases hr : Bip85.rollsOfStream sides rolls s with
      | none => rfl
      | some h => have := ((Bip85.collect_spec sides trials rolls h).1 hr).1; omega

/-- T8 (DICE, sessions): a shorter session off the same stream is the beginning of a longer one. -/
theorem bip85_rolls_prefix (sides m n : Nat) (s : Bytes) (h1 h2 : List Nat) (hmn : m ≤ n)
    (hm : Bip85.collect sides ((Bip85.chunksOf (Bip85.bytesPerRoll sides) s.length s).map (Bip85.trialOf sides)) m = some h1)
    (hn : Bip85.collect sides ((Bip85.chunksOf (Bip85.bytesPerRoll sides) s.length s).map (Bip85.trialOf sides)) n = some h2) :
    h1 = h2.take m := by
  rw [((Bip85.collect_spec _ _ _ _).1 hm).2, ((Bip85.collect_spec _ _ _ _).1 hn).2, List.take_take, Nat.min_eq_left hmn]

/-- T8 (XPRV): application 32' answers a ROOT key — depth, index, parent fingerprint zero — whose chain code is the
    FIRST half of the 64 bytes and whose key is the SECOND (BIP85's order, the reverse of BIP32's master key), valid
    under `assert_valid`, with the network's own xprv version. -/
theorem bip85_xprv_fields (forced : Option Bytes) (x y : XKey) (index : Nat)
    (h : Bip85.xprvApp E forced x index = .ok y) :
    y.depth = 0 ∧ y.index = 0 ∧ y.parentFp = [0, 0, 0, 0] ∧ assertValid E y = .ok () ∧
    (∃ e, Bip85.appEntropy E forced x "xprv_from_root_key" [("index", index)] = .ok e ∧
      y.chain = e.take 32 ∧ y.key = 0 :: e.drop 32) ∧
    ∃ w, Gen.Bip32.BIP85_NET_OF_VERSION.lookup x.version = some (w, y.version) := by
  unfold Bip85.xprvApp at h
  cases he : Bip85.appEntropy E forced x "xprv_from_root_key" [("index", index)] with
  | error e => rw [he] at h; cases h
  | ok e =>
    rw [he] at h
    simp only [Except.bind] at h
    split at h
    · cases h
    · rename_i w ver hl
      cases hv : assertValid E { version := ver, depth := 0, parentFp := [0, 0, 0, 0], index := 0, chain := e.take 32,
                                 key := 0 :: e.drop 32 } with
      | error e' => rw [hv] at h; cases h
      | ok u =>
        rw [hv] at h
        cases h
        exact ⟨rfl, rfl, rfl, hv, ⟨e, rfl, rfl, rfl⟩, ⟨w, hl⟩⟩

/-- T8 (truncations): HEX, the BIP39 child entropy and the WIF scalar are PREFIXES of the application's 64 bytes
    (the leading `n` / `_ENTROPY_BYTES[words]` / 32 bytes), never another slice. -/
theorem bip85_truncations (forced : Option Bytes) (x : XKey) (n words lang index : Nat) (b : Bytes) :
    (Bip85.hexApp E forced x n index = .ok b →
      16 ≤ n ∧ n ≤ 64 ∧ ∃ e, Bip85.appEntropy E forced x "bytes_entropy_from_root_key" [("num_bytes", n), ("index", index)] = .ok e ∧
        b = e.take n) ∧
    (Bip85.bip39Entropy E forced x words lang index = .ok b →
      ∃ k e, Gen.Bip32.BIP85_ENTROPY_BYTES.lookup words = some k ∧
        Bip85.appEntropy E forced x "mnemonic_from_root_key"
          [("_LANGUAGE_INDEXES[lang]", lang), ("words", words), ("index", index)] = .ok e ∧ b = e.take k) := by
  constructor
  · intro h
    unfold Bip85.hexApp at h
    split at h
    · cases h
    · rename_i hb
      have hb' : 16 ≤ n ∧ n ≤ 64 := by simpa [Gen.Bip32.BIP85_MIN_BYTES, Gen.Bip32.BIP85_MAX_BYTES] using hb
      cases he : Bip85.appEntropy E forced x "bytes_entropy_from_root_key" [("num_bytes", n), ("index", index)] with
      | error e => rw [he] at h; cases h
      | ok e => rw [he] at h; cases h; exact ⟨hb'.1, hb'.2, e, rfl, rfl⟩
  · intro h
    unfold Bip85.bip39Entropy at h
    split at h
    · cases h
    · rename_i k hk
      split at h
      · cases h
      · cases he : Bip85.appEntropy E forced x "mnemonic_from_root_key"
            [("_LANGUAGE_INDEXES[lang]", lang), ("words", words), ("index", index)] with
        | error e => rw [he] at h; cases h
        | ok e => rw [he] at h; cases h; exact ⟨k, e, hk, rfl, rfl⟩

-- non-vacuity: the BIP's own die (6 sides: one byte, five bits shifted out), a 1000-sided one (two bytes read
-- big-endian, six bits shifted out; 0x03E7 >> 6 = 15; 0xFFFF >> 6 = 1023 is dropped), a rejected trial in between
example : Bip85.rollsOfStream 6 3 [0x20, 0xE0, 0x5F, 0xA0] = some [1, 2, 5] := by decide
example : Bip85.rollsOfStream 1000 2 [0x03, 0xE7, 0xFF, 0xFF, 0xF9, 0xC0] = some [15, 999] := by decide
example : Bip85.rollsOfStream 1000 3 [0x03, 0xE7, 0xFF, 0xFF, 0xF9, 0xC0] = none := by decide
example : Bip85.hardenAll [83696968, 89101, 6, 10, 0] = .ok [2231180616, 2147572749, 2147483654, 2147483658, 2147483648] := by decide
example : Bip85.hardenAll [83696968, 89101, 2 ^ 32 - 1, 10, 0] = .error (.bip32 .badField) := by decide
example : Bip85.levelsOf "rolls_from_root_key" [("sides", 6), ("rolls", 10), ("index", 0)] false =
    some [83696968, 89101, 6, 10, 0] := by decide

/-! ## T9 — field equations of the last step, index range, master key from seed -/

/-- T9 (fields of the last step): the key derived along `p ++ [i]` is the single BIP step `i` of the key derived
    along `p`: one level deeper, at index `i`, with the PARENT's fingerprint — the first four octets of HASH160 of the
    parent's public key (computed from the scalar for a private parent) — and the parent's version. -/
theorem deriveFold_last_step (x y : XKey) (p : List Nat) (i : Nat) (h : deriveFold E x (p ++ [i]) = .ok y) :
    ∃ par, deriveFold E x p = .ok par ∧ ckd E par i = .ok y ∧ par.depth < MAX_DEPTH ∧
      y.depth = par.depth + 1 ∧ y.index = i ∧ y.version = par.version ∧
      y.parentFp = fpOf E (if par.isPrivate then pubOfPrv E par.prvInt else par.key) := by
  rw [deriveFold_append] at h
  cases hp : deriveFold E x p with
  | error e => rw [hp] at h; cases h
  | ok par =>
    rw [hp] at h
    have hc : ckd E par i = .ok y := by
      simp only [Except.bind, deriveFold] at h
      cases hck : ckd E par i with
      | error e => rw [hck] at h; cases h
      | ok z => rw [hck] at h; simpa using h
    refine ⟨par, rfl, hc, ?_⟩
    unfold ckd at hc
    split at hc
    · cases hc
    · rename_i hd
      have hf := ckd'_fields E hc
      refine ⟨by omega, hf.1, hf.2.1, hf.2.2.1, ?_⟩
      unfold ckd' at hc
      split at hc
      · rename_i hprv
        simp only [hprv, if_true]
        unfold ckdPriv ckdPrivWith at hc
        by_cases h1 : ofBE (Btc.Bip32.split E par.chain ((if i ≥ HARDENED then par.key else pubOfPrv E par.prvInt) ++ beBytes 4 i)).1 ≥ nN E
        · simp [h1] at hc
        · by_cases h2 : (par.prvInt + ofBE (Btc.Bip32.split E par.chain ((if i ≥ HARDENED then par.key else pubOfPrv E par.prvInt) ++ beBytes 4 i)).1) % nN E = 0
          · simp [h1, h2] at hc
          · simp [h1, h2] at hc; rw [← hc]
      · rename_i hprv
        simp only [hprv]
        unfold ckdPub at hc
        split at hc
        · cases hc
        · split at hc
          · cases hc
          · rename_i P hP
            unfold ckdPubWith at hc
            by_cases h1 : ofBE (Btc.Bip32.split E par.chain (par.key ++ beBytes 4 i)).1 ≥ nN E
            · simp [h1] at hc
            · by_cases h2 : E.o.isZero (E.o.add P (E.o.mul ((ofBE (Btc.Bip32.split E par.chain (par.key ++ beBytes 4 i)).1 : Nat) : Int) E.o.gen)) = true
              · simp [h1, h2] at hc
              · simp [h1, h2] at hc; rw [← hc]; simp

/-- T9 (index range): `derive_` refuses a path holding an index of 2^32 or more (it is no BIP32 index), whatever the
    key — never reduced modulo 2^32. -/
theorem derive_index_out_of_range_refused (x : XKey) (idx : List Nat) (f : Option Bytes)
    (hv : assertValid E x = .ok ()) (hi : ∃ i ∈ idx, i ≥ 2 ^ 32) : derive E x idx f = .error .badField := by
  unfold derive
  have : idx.any (· > Gen.Bip32.PATH_MAX_INDEX) = true := by
    obtain ⟨i, hi, hge⟩ := hi
    exact List.any_eq_true.2 ⟨i, hi, by simp [Gen.Bip32.PATH_MAX_INDEX]; omega⟩
  simp [hv, Except.bind, this]

/-- T9 (master key): what `rootxprv_from_seed` answers for a seed is the BIP's master key — seed of 128..512 bits,
    `I = HMAC-SHA512("Bitcoin seed", seed)`, key `00 ‖ I_L`, chain code `I_R`, depth 0, index 0, zero parent
    fingerprint, the version asked — and it is valid (`0 < I_L < n`); a seed outside 128..512 bits is refused. -/
theorem root_from_seed_spec (seed version : Bytes) :
    (∀ x, rootFromSeed E seed version = .ok x →
      128 ≤ seed.length * 8 ∧ seed.length * 8 ≤ 512 ∧
      x.version = version ∧ x.depth = 0 ∧ x.index = 0 ∧ x.parentFp = [0, 0, 0, 0] ∧
      x.key = 0 :: (E.mac Gen.Bip32.SEED_KEY seed).take 32 ∧ x.chain = (E.mac Gen.Bip32.SEED_KEY seed).drop 32 ∧
      assertValid E x = .ok ()) ∧
    (seed.length * 8 < 128 ∨ 512 < seed.length * 8 → rootFromSeed E seed version = .error .seedLen) ∧
    -- "Bitcoin seed"
    Gen.Bip32.SEED_KEY = [66, 105, 116, 99, 111, 105, 110, 32, 115, 101, 101, 100] := by
  refine ⟨?_, ?_, by decide⟩
  · intro x h
    unfold rootFromSeed at h
    simp only [Gen.Bip32.SEED_MIN_BITS, Gen.Bip32.SEED_MAX_BITS] at h
    split at h
    · cases h
    · rename_i hb
      split at h
      · cases h
      · simp only [Except.map] at h
        split at h
        · cases h
        · rename_i u hv
          cases h
          exact ⟨by omega, by omega, rfl, rfl, rfl, rfl, rfl, rfl, hv⟩
  · intro hb
    unfold rootFromSeed
    simp only [Gen.Bip32.SEED_MIN_BITS, Gen.Bip32.SEED_MAX_BITS]
    rw [if_pos (by omega)]

/-- T9 (master key, refusal): a left half that is zero or not below `n` gives NO master key (the seed is invalid; it is
    never replaced by another key), whatever the right half. -/
theorem root_from_seed_invalid_left_half_refused (seed version : Bytes) (x : XKey)
    (hz : ofBE ((E.mac Gen.Bip32.SEED_KEY seed).take 32) = 0 ∨ nN E ≤ ofBE ((E.mac Gen.Bip32.SEED_KEY seed).take 32)) :
    rootFromSeed E seed version ≠ .ok x := by
  intro h
  obtain ⟨_, _, _, _, _, _, hk, _, hv⟩ := (root_from_seed_spec (E := E) seed version).1 x h
  unfold assertValid at hv
  have hpi : x.prvInt = ofBE ((E.mac Gen.Bip32.SEED_KEY seed).take 32) := by simp [XKey.prvInt, hk]
  have hh : x.key.head? = some 0 := by simp [hk]
  have hnp : parsePoint E x.key = none := by
    rw [hk]; unfold parsePoint; simp
  split at hv
  · cases hv
  · split at hv
    · cases hv
    · split at hv
      · cases hv
      · split at hv
        · cases hv
        · split at hv
          · split at hv
            · cases hv
            · split at hv
              · rename_i hr; omega
              · cases hv
          · split at hv
            · rw [hnp] at hv; simp at hv
            · cases hv

/-! ## T10 — the 78 bytes of an extended key (`BIP32KeyData.serialize` / `parse`; Base58Check around them is C06's) -/

/-- T10: every valid extended key is written on exactly 78 bytes — version ‖ depth ‖ parent fingerprint ‖ index
    (big-endian) ‖ chain code ‖ key — and `parse` of those bytes gives the key back, on all six fields. -/
theorem parse_serialize (x : XKey) (hv : assertValid E x = .ok ()) :
    ∃ b, serialize E x = .ok b ∧ b.length = 78 ∧ parse E b = .ok x ∧
      b = x.version ++ [UInt8.ofNat x.depth] ++ x.parentFp ++ beBytes 4 x.index ++ x.chain ++ x.key := by
  refine ⟨serialBytes x, by simp [serialize, hv, Except.map], serialBytes_length E hv, ?_, by simp [serialBytes]⟩
  have := parse_serialize' E hv
  simpa [serialize, hv, Except.map, Except.bind] using this

/-- T10: what `parse` answers was read off exactly 78 bytes at BIP32's offsets and passed `assert_valid`: sizes, depth
    at most 255, index below 2^32, depth 0 ⇒ zero parent fingerprint and zero index, a private version ⇒ key prefix 00
    and scalar in `1..n-1`, otherwise a public version and 33 octets that are a point. -/
theorem parse_enforces (b : Bytes) (x : XKey) (h : parse E b = .ok x) :
    b.length = 78 ∧ x = fieldsOf b ∧ assertValid E x = .ok () ∧
    x.version.length = 4 ∧ x.parentFp.length = 4 ∧ x.chain.length = 32 ∧ x.key.length = 33 ∧
    x.index < 2 ^ 32 ∧ x.depth ≤ 255 ∧ (x.depth = 0 → x.parentFp = [0, 0, 0, 0] ∧ x.index = 0) ∧
    (E.isPrvVersion x.version = true → x.key.head? = some 0 ∧ 0 < x.prvInt ∧ x.prvInt < nN E) ∧
    (E.isPrvVersion x.version ≠ true → E.isPubVersion x.version = true ∧ (parsePoint E x.key).isSome = true) := by
  obtain ⟨h1, h2, h3⟩ := parse_ok E h
  obtain ⟨a, b', c, d, e, f, g⟩ := assertValid_sizes E h3
  exact ⟨h1, h2, h3, a, b', c, d, e, f, g, (assertValid_key E h3).1, (assertValid_key E h3).2⟩

-- non-vacuity: the fields read off 78 bytes (a depth-0 key: version 0488ade4, zeros, chain code 07…, key 00 ‖ 1)
example : (fieldsOf ([4, 136, 173, 228] ++ [0] ++ [0, 0, 0, 0] ++ [0, 0, 0, 0] ++ List.replicate 32 7 ++ (0 :: beBytes 32 1))).key
    = 0 :: beBytes 32 1 := by decide

/-! ## non-vacuity -/

-- a concrete valid private key (k = 1) under the executable instance
example : ValidPrv (secpEnv) (XKey.mk [4, 136, 173, 228] 0 [0, 0, 0, 0] 0 (List.replicate 32 7) (0 :: beBytes 32 1)) := by
  refine ⟨by decide, ?_, by decide⟩
  rw [secp_n_eq]; decide
example : Gen.Bip32.pubVersion [4, 136, 173, 228] = some [4, 136, 178, 30] := by decide
example : (∀ i ∈ [0, 1, 2 ^ 31 - 1], i < HARDENED) ∧ (2 ^ 31 : Nat) ≥ HARDENED := by decide
example : DerPath.indexesFromStr "m/44h/0'/1H/0".toList = .ok [2147483692, 2147483648, 2147483649, 0] := by decide
example : DerPath.strFromIndexes [2147483692, 0] ['h'] = .ok "m/44h/0".toList := by decide

end Props.C07

/-! ## End to end: the same theorems about `Btc.EC.ops C`, no `Lawful` hypothesis

`L : Lawful E.o G` above is discharged by C01's capstone `Btc.C01.lawful_ec`, for every curve with `CurveOk p C` and
`p ≡ 3 (mod 4)` (proofs: Proofs/E2E/C07.lean).  `ecEnv C D` is the environment the driver runs (`secpEnv mac =
ecEnv secp256k1 (secpData mac)` by `rfl`); `subEnv K D` is the same with `opsSub K` for `Btc.EC.ops C` (the same
operations on the underlying pairs, `lift_x` answering inside the `n`-torsion).  Private derivation and neutering over
`subEnv K D` ARE their runs over `ecEnv C D`; what a public derivation answers over `subEnv K D` it answers over
`ecEnv C D`.  T3 is given as the full equation over `subEnv K D` and, in its success case, about `Btc.EC.ops C` alone.
(T2 `deriveFold_compose` and T5 `crack_recovers_parent` never had a `Lawful` hypothesis: they already apply to
`secpEnv`; so do the private-key forms `deriveB_private_eq_fold`, `deriveB_fields_private`, `deriveB_compose_private`.)
`Lawful (EC.ops C)` itself is NOT what C01 proves (it is uninhabited: off-curve pairs); C01 proves
`Lawful (opsSub K)`.  The theorems named `…_cofactor_one` below are about the EXECUTED `ecEnv C D` / `secpEnv mac`, refusals
included, under the explicit hypothesis that `lift_x` of `opsSub K` and of `Btc.EC.ops C` agree (`LiftAgree K`), which
follows from cofactor one (`hcof : ∀ g, n • g = 0`) and `Δ ≠ 0` (`liftAgree_of_cofactor_one`).  For secp256k1, `Δ ≠ 0` is
proved, primality of `p`, `n` is proved (Pratt certificates), and cofactor one is PROVED
(`Btc.E2E.secpCofactorOne`, Proofs/E2E/CofactorOne.lean): the `…_secp256k1` theorems at the end carry no curve-level
hypothesis.  `hcof` stays a genuine hypothesis of the generic `…_ec_cofactor_one` forms (it is false with a cofactor). -/
namespace Props.C07
open Btc Btc.EC Btc.C01 Btc.E2E Btc.Bip32

/-- T3 over `subEnv K D`, any curve: the full equation, refusals included -/
theorem neuter_derive_ec {p : ℕ} [Fact p.Prime] {C : Curve} (K : CurveOk p C) (D : EnvData) (h34 : p % 4 = 3)
    (B : Bounds (ecEnv C D)) (x : XKey) (v : Bytes) (path : List ℕ)
    (hv : ValidPrv (ecEnv C D) x) (hver : D.pubVersion x.version = some v) (hp : ∀ i ∈ path, i < HARDENED) :
    ((deriveFold (subEnv K D) x path).mapError Err.toPub).bind (neuter (subEnv K D)) =
      (neuter (subEnv K D) x).bind fun x' => deriveFold (subEnv K D) x' path :=
  Btc.E2E.neuter_derive_ec K D h34 B x v path hv hver hp

/-- T3 on btclib's arithmetic, any curve (success case): if deriving privately along an unhardened path and neutering
    the result answers `y'`, then neutering the parent answers and its public derivation over `Btc.EC.ops C` is `y'` -/
theorem neuter_derive_raw_ec {p : ℕ} [Fact p.Prime] {C : Curve} (K : CurveOk p C) (D : EnvData) (h34 : p % 4 = 3)
    (B : Bounds (ecEnv C D)) (x : XKey) (v : Bytes) (path : List ℕ)
    (hv : ValidPrv (ecEnv C D) x) (hver : D.pubVersion x.version = some v) (hp : ∀ i ∈ path, i < HARDENED)
    (y' : XKey) (hy : (deriveFold (ecEnv C D) x path).bind (neuter (ecEnv C D)) = .ok y') :
    neuter (ecEnv C D) x = .ok { x with version := v, key := pubOfPrv (ecEnv C D) x.prvInt } ∧
    deriveFold (ecEnv C D) { x with version := v, key := pubOfPrv (ecEnv C D) x.prvInt } path = .ok y' :=
  Btc.E2E.neuter_derive_raw_ec K D h34 B x v path hv hver hp y' hy

/-- T1 over `subEnv K D`, any curve: `_derive` is the fold of BIP steps, public keys included -/
theorem deriveB_eq_fold_ec {p : ℕ} [Fact p.Prime] {C : Curve} (K : CurveOk p C) (D : EnvData) (h34 : p % 4 = 3)
    (B : Bounds (ecEnv C D)) (x : XKey) (path : List ℕ)
    (hk : x.isPrivate = true ∨ ∀ i ∈ path, i < HARDENED) (hd : x.depth + path.length ≤ MAX_DEPTH) :
    deriveB (subEnv K D) x path none = deriveFold (subEnv K D) x path :=
  Btc.E2E.deriveB_eq_fold_ec K D h34 B x path hk hd

/-- private derivation over `subEnv K D` IS private derivation over `ecEnv C D`; what any derivation answers over
    `subEnv K D` it answers over `ecEnv C D` -/
theorem deriveFold_sub_ec {p : ℕ} [Fact p.Prime] {C : Curve} (K : CurveOk p C) (D : EnvData) (x : XKey)
    (path : List ℕ) :
    (x.isPrivate = true → deriveFold (subEnv K D) x path = deriveFold (ecEnv C D) x path) ∧
    (∀ y, deriveFold (subEnv K D) x path = .ok y → deriveFold (ecEnv C D) x path = .ok y) :=
  ⟨fun h => deriveFold_sub_private K D path h, fun _ h => deriveFold_sub_ok K D path h⟩

/-- T5 on btclib's arithmetic, any curve (no group law needed) -/
theorem crack_recovers_parent_ec (C : Curve) (D : EnvData) (B : Bounds (ecEnv C D)) (x y : XKey) (v : Bytes)
    (i : ℕ) (hv : ValidPrv (ecEnv C D) x) (hi : i < HARDENED) (hc : ckdPriv (ecEnv C D) x i = .ok y) :
    crackCore (ecEnv C D) { x with version := v, key := pubOfPrv (ecEnv C D) x.prvInt } y = .ok x :=
  Btc.E2E.crack_recovers_parent_ec C D B x y v i hv hi hc

/-- T3 on secp256k1 (the driver's `secpEnv mac`), full equation over `secpSubEnv`: no curve hypothesis -/
theorem neuter_derive_secp256k1_sub
    (mac : Bytes → Bytes → Bytes) (x : XKey) (v : Bytes) (path : List ℕ)
    (hv : ValidPrv (secpEnv mac) x) (hver : Gen.Bip32.pubVersion x.version = some v)
    (hpath : ∀ i ∈ path, i < HARDENED) :
    ((deriveFold (secpSubEnv mac) x path).mapError Err.toPub).bind (neuter (secpSubEnv mac)) =
      (neuter (secpSubEnv mac) x).bind fun x' => deriveFold (secpSubEnv mac) x' path :=
  Btc.E2E.neuter_derive_secp256k1 mac x v path hv hver hpath

/-- T3 on secp256k1, success case, about the driver's `secpEnv mac` itself -/
theorem neuter_derive_raw_secp256k1
    (mac : Bytes → Bytes → Bytes) (x : XKey) (v : Bytes) (path : List ℕ)
    (hv : ValidPrv (secpEnv mac) x) (hver : Gen.Bip32.pubVersion x.version = some v)
    (hpath : ∀ i ∈ path, i < HARDENED)
    (y' : XKey) (hy : (deriveFold (secpEnv mac) x path).bind (neuter (secpEnv mac)) = .ok y') :
    neuter (secpEnv mac) x = .ok { x with version := v, key := pubOfPrv (secpEnv mac) x.prvInt } ∧
    deriveFold (secpEnv mac) { x with version := v, key := pubOfPrv (secpEnv mac) x.prvInt } path = .ok y' :=
  Btc.E2E.neuter_derive_raw_secp256k1 mac x v path hv hver hpath y' hy

/-- T1 on secp256k1, over `secpSubEnv` -/
theorem deriveB_eq_fold_secp256k1_sub
    (mac : Bytes → Bytes → Bytes) (x : XKey) (path : List ℕ)
    (hk : x.isPrivate = true ∨ ∀ i ∈ path, i < HARDENED) (hd : x.depth + path.length ≤ MAX_DEPTH) :
    deriveB (secpSubEnv mac) x path none = deriveFold (secpSubEnv mac) x path :=
  Btc.E2E.deriveB_eq_fold_secp256k1 mac x path hk hd

/-! ### about the executed environment (`Btc.EC.ops C`), refusals included, under cofactor one -/

/-- the missing transfer, no assumption: what `_derive` answers over `subEnv K D` it answers over `ecEnv C D` -/
theorem deriveB_sub_ok {p : ℕ} [Fact p.Prime] {C : Curve} (K : CurveOk p C) (D : EnvData) {x y : XKey}
    {path : List ℕ} {f : Option Bytes} (h : deriveB (subEnv K D) x path f = .ok y) :
    deriveB (ecEnv C D) x path f = .ok y :=
  Btc.E2E.deriveB_sub_ok K D h

/-- under cofactor one and `Δ ≠ 0`, the BIP fold and `_derive` over `subEnv K D` ARE their runs over `ecEnv C D` -/
theorem sub_runs_are_ec_runs_cofactor_one {p : ℕ} [Fact p.Prime] {C : Curve} (K : CurveOk p C) (D : EnvData) (h34 : p % 4 = 3)
    (hcof : ∀ g : Pt p C.toCurveGroup, C.n • g = 0)
    (hΔ : (curveOf p C.toCurveGroup).toAffine.Δ ≠ 0) (x : XKey) (path : List ℕ) (f : Option Bytes) :
    deriveFold (subEnv K D) x path = deriveFold (ecEnv C D) x path ∧
    deriveB (subEnv K D) x path f = deriveB (ecEnv C D) x path f :=
  ⟨deriveFold_sub_eq K D (liftAgree_of_cofactor_one K h34 hcof hΔ) path x,
   deriveB_sub_eq K D (liftAgree_of_cofactor_one K h34 hcof hΔ) x path f⟩

/-- T1 on `Btc.EC.ops C`, any curve of cofactor one: `_derive` = the BIP fold on every field, refusals included -/
theorem deriveB_eq_fold_ec_cofactor_one {p : ℕ} [Fact p.Prime] {C : Curve} (K : CurveOk p C) (D : EnvData) (h34 : p % 4 = 3)
    (hcof : ∀ g : Pt p C.toCurveGroup, C.n • g = 0)
    (hΔ : (curveOf p C.toCurveGroup).toAffine.Δ ≠ 0) (B : Bounds (ecEnv C D)) (x : XKey) (path : List ℕ)
    (hk : x.isPrivate = true ∨ ∀ i ∈ path, i < HARDENED) (hd : x.depth + path.length ≤ MAX_DEPTH) :
    deriveB (ecEnv C D) x path none = deriveFold (ecEnv C D) x path :=
  deriveB_eq_fold_raw K D (liftAgree_of_cofactor_one K h34 hcof hΔ) h34 B x path hk hd

/-- T3 on `Btc.EC.ops C`, any curve of cofactor one: the FULL equation, refusals included (fold and `_derive`) -/
theorem neuter_derive_ec_cofactor_one {p : ℕ} [Fact p.Prime] {C : Curve} (K : CurveOk p C) (D : EnvData) (h34 : p % 4 = 3)
    (hcof : ∀ g : Pt p C.toCurveGroup, C.n • g = 0)
    (hΔ : (curveOf p C.toCurveGroup).toAffine.Δ ≠ 0) (B : Bounds (ecEnv C D)) (x : XKey) (v : Bytes) (path : List ℕ)
    (hv : ValidPrv (ecEnv C D) x) (hver : D.pubVersion x.version = some v) (hp : ∀ i ∈ path, i < HARDENED) :
    (((deriveFold (ecEnv C D) x path).mapError Err.toPub).bind (neuter (ecEnv C D)) =
      (neuter (ecEnv C D) x).bind fun x' => deriveFold (ecEnv C D) x' path) ∧
    (x.depth + path.length ≤ MAX_DEPTH →
      ((deriveB (ecEnv C D) x path none).mapError Err.toPub).bind (neuter (ecEnv C D)) =
        (neuter (ecEnv C D) x).bind fun x' => deriveB (ecEnv C D) x' path none) :=
  ⟨neuter_derive_raw_full K D (liftAgree_of_cofactor_one K h34 hcof hΔ) h34 B x v path hv hver hp,
   neuter_deriveB_raw K D (liftAgree_of_cofactor_one K h34 hcof hΔ) h34 B x v path hv hver hp⟩

/-- T1 on the driver's `secpEnv mac`: NO curve-level hypothesis (cofactor one, `Δ ≠ 0`, primality: all proved) -/
theorem deriveB_eq_fold_secp256k1 (mac : Bytes → Bytes → Bytes) (x : XKey) (path : List ℕ)
    (hk : x.isPrivate = true ∨ ∀ i ∈ path, i < HARDENED) (hd : x.depth + path.length ≤ MAX_DEPTH) :
    deriveB (secpEnv mac) x path none = deriveFold (secpEnv mac) x path :=
  Btc.E2E.deriveB_eq_fold_secp256k1_cofactor_one Btc.E2E.secpCofactorOne mac x path hk hd

/-- T1 (fields) on `secpEnv mac`: never another index than the one asked -/
theorem deriveB_fields_secp256k1 (mac : Bytes → Bytes → Bytes) (x y : XKey) (path : List ℕ)
    (hk : x.isPrivate = true ∨ ∀ i ∈ path, i < HARDENED) (h : deriveB (secpEnv mac) x path none = .ok y) :
    y.depth = x.depth + path.length ∧ y.version = x.version ∧ y.isPrivate = x.isPrivate ∧
    ∀ i, path.getLast? = some i → y.index = i :=
  Btc.E2E.deriveB_fields_secp256k1_cofactor_one Btc.E2E.secpCofactorOne mac x y path hk h

/-- T2 on `secpEnv mac` in btclib's shape: every split of a path -/
theorem deriveB_compose_secp256k1 (mac : Bytes → Bytes → Bytes) (x y : XKey)
    (q r : List ℕ) (hk : x.isPrivate = true ∨ ∀ i ∈ q ++ r, i < HARDENED)
    (hd : x.depth + (q ++ r).length ≤ MAX_DEPTH) (h : deriveB (secpEnv mac) x q none = .ok y) :
    deriveB (secpEnv mac) y r none = deriveB (secpEnv mac) x (q ++ r) none :=
  Btc.E2E.deriveB_compose_secp256k1_cofactor_one Btc.E2E.secpCofactorOne mac x y q r hk hd h

/-- T3 on `secpEnv mac`, the full equation for the BIP fold: refused at the same index on both sides -/
theorem neuter_derive_secp256k1 (mac : Bytes → Bytes → Bytes) (x : XKey) (v : Bytes)
    (path : List ℕ) (hv : ValidPrv (secpEnv mac) x) (hver : Gen.Bip32.pubVersion x.version = some v)
    (hp : ∀ i ∈ path, i < HARDENED) :
    ((deriveFold (secpEnv mac) x path).mapError Err.toPub).bind (neuter (secpEnv mac)) =
      (neuter (secpEnv mac) x).bind fun x' => deriveFold (secpEnv mac) x' path :=
  Btc.E2E.neuter_derive_secp256k1_cofactor_one Btc.E2E.secpCofactorOne mac x v path hv hver hp

/-- T3 on `secpEnv mac` in btclib's shape (`_derive`, `_xpub_from_xprv`) -/
theorem neuter_deriveB_secp256k1 (mac : Bytes → Bytes → Bytes) (x : XKey) (v : Bytes)
    (path : List ℕ) (hv : ValidPrv (secpEnv mac) x) (hver : Gen.Bip32.pubVersion x.version = some v)
    (hp : ∀ i ∈ path, i < HARDENED) (hd : x.depth + path.length ≤ MAX_DEPTH) :
    ((deriveB (secpEnv mac) x path none).mapError Err.toPub).bind (neuter (secpEnv mac)) =
      (neuter (secpEnv mac) x).bind fun x' => deriveB (secpEnv mac) x' path none :=
  Btc.E2E.neuter_deriveB_secp256k1_cofactor_one Btc.E2E.secpCofactorOne mac x v path hv hver hp hd

/-- no assumption at all, secp256k1: `_derive`'s answers over `secpSubEnv` are its answers on `secpEnv`; with
    `deriveB_eq_fold_secp256k1_sub` this ties btclib's shape to the fold in the success case (superseded by
    `deriveB_eq_fold_secp256k1`, kept because it needs no point count) -/
theorem deriveB_sub_ok_secp256k1 (mac : Bytes → Bytes → Bytes) {x y : XKey} {path : List ℕ} {f : Option Bytes}
    (h : deriveB (secpSubEnv mac) x path f = .ok y) : deriveB (secpEnv mac) x path f = .ok y :=
  Btc.E2E.deriveB_sub_ok_secp256k1 mac h

/-- the discriminant half of the cofactor-one route is proved for secp256k1 -/
theorem secp256k1_disc_ne_zero : (curveOf secp256k1_p secp256k1.toCurveGroup).toAffine.Δ ≠ 0 :=
  Btc.E2E.secp256k1_disc_ne_zero

-- non-vacuity on `y² = x³ + 7` over `F₄₃` (`CurveOk` PROVED, nothing assumed): an actual private derivation along
-- `0/7` followed by neutering, and what T3 then says of the public derivation of the neutered parent
example : (deriveFold (ecEnv toyC toyData) toyX [0, 7]).bind (neuter (ecEnv toyC toyData)) = .ok toyY' :=
  toy_derive_neuter
example : deriveFold (ecEnv toyC toyData)
    { toyX with version := [5, 137, 174, 229], key := pubOfPrv (ecEnv toyC toyData) toyX.prvInt } [0, 7] = .ok toyY' :=
  (neuter_derive_raw_ec toyOk toyData (by decide) toy_bounds toyX [5, 137, 174, 229] [0, 7] toy_validPrv
    (by decide) (by decide) toyY' toy_derive_neuter).2

end Props.C07
