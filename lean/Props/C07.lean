/-!
# C07 — property theorems only (see DESIGN.md §3 C07).
-/
namespace Props.C07

end Props.C07
