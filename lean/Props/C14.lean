import Proofs.C14.Descsum
import Proofs.C14.Scan
import Proofs.C14.Roundtrip
import Proofs.C14.Multipath
import Proofs.C14.Derive
import Proofs.C15.Text
import Proofs.C14.Musig
import Proofs.C14.Wallet
import Proofs.C14.Tr
import Proofs.C14.Toy
import Proofs.C14.CoreImport
import Proofs.C14.Assemble
import Proofs.C14.Normalize
/-!
# C14 — descriptors and wallets derive what they describe and recognise only their own

Property theorems only (DESIGN.md §3 C14).  The checksum model is `Model/C14/Descsum.lean` over the
generated tables and loop constants (`Generated/Descsum.lean`, regenerated from
`btclib/descriptors/descriptors.py` on every run): a changed character of `INPUT_CHARSET`, a changed
generator word or a changed shift breaks an obligation here.
-/
namespace Props.C14
open Btc Btc.Descsum Gen.Descsum

/-! ## T1 — BIP380 checksum -/

/-- the three tables and the loop constants in the current source are BIP380's. -/
theorem tables_are_bip380 :
    INPUT_CHARSET = Ref.INPUT_CHARSET ∧ CHECKSUM_CHARSET = Ref.CHECKSUM_CHARSET ∧ GENERATOR = Ref.GENERATOR ∧
    INPUT_INDEX.map (·.1) = INPUT_CHARSET ∧
    POLY_INIT = 1 ∧ POLY_TOP = 35 ∧ POLY_MASK = 0x7ffffffff ∧ POLY_SHIFT = 5 ∧
    SYM_MASK = 31 ∧ GROUP_SHIFT = 5 ∧ GROUP_W0 = 9 ∧ GROUP_W1 = 3 ∧ TAIL_W = 3 ∧
    CHK_LEN = 8 ∧ CHK_FINAL = 1 ∧ CHK_BITS = 5 ∧ CHK_MASK = 31 :=
  ⟨input_charset_eq_ref, checksum_charset_eq_ref, generator_eq_ref, index_keys, by decide⟩

/-- T1a: btclib's `__descsum_polymod` is the reference `descsum_polymod`, on every symbol list. -/
theorem polymod_eq_reference (symbols : List Nat) : polymod symbols = Ref.descsumPolymod symbols :=
  polymod_eq_ref symbols

/-- T1a: btclib's `__descsum_expand` is the reference `descsum_expand`, on EVERY string: the same
    symbols, and failure on exactly the same strings (the dictionary `_INPUT_INDEX` answers like
    `INPUT_CHARSET.find` because no character of the charset is repeated). -/
theorem expand_eq_reference (s : List Char) : expand s = Ref.descsumExpand s := expand_eq_ref s

/-- T1a: `body + "#" + checksum(body)` is the reference `descsum_create(body)`, on every string. -/
theorem checksum_eq_reference (body : List Char) :
    (checksum body).map (fun c => body ++ '#' :: c) = Ref.descsumCreate body :=
  checksum_eq_ref body

example : checksum "raw(deadbeef)".toList = some "89f8spxm".toList := by decide +kernel
example : Ref.descsumCreate "raw(deadbeef)".toList = some "raw(deadbeef)#89f8spxm".toList := by decide +kernel

/-- T1b: the polymod is XOR-linear: on two equally long symbol sequences (symbols and states below
    2^40, which is what every reachable value is) the polymod of the symbol-wise XOR, started from
    the XOR of the states, is the XOR of the polymods. -/
theorem polymod_xor_linear (xs ys : List Nat) (a b : Nat) (ha : a < 2 ^ 40) (hb : b < 2 ^ 40)
    (hl : xs.length = ys.length) (hx : ∀ v ∈ xs, v < 2 ^ 40) (hy : ∀ v ∈ ys, v < 2 ^ 40) :
    polymodFrom (a ^^^ b) (List.zipWith (· ^^^ ·) xs ys) = polymodFrom a xs ^^^ polymodFrom b ys :=
  polymodFrom_zipXor xs ys a b ha hb hl hx hy

example : polymodFrom (1 ^^^ 6) (List.zipWith (· ^^^ ·) [3, 7, 30] [9, 0, 25])
    = polymodFrom 1 [3, 7, 30] ^^^ polymodFrom 6 [9, 0, 25] := by decide

/-- T1c: two bodies over the charset that differ in exactly one character have different checksums.
    NO bound on the body length: one character changes its own symbol and the group symbol at most
    three places later, the error word `x^k·d₁ + d₂` (k ≤ 3, d₁,d₂ < 32) is non-zero below 2^20, and
    multiplication by x is injective on the 40-bit state (residue table by `decide +kernel`). -/
theorem single_substitution_changes_checksum (pre post : List Char) (c c' : Char) (cs cs' : List Char)
    (hne : c ≠ c') (h : checksum (pre ++ c :: post) = some cs) (h' : checksum (pre ++ c' :: post) = some cs') :
    cs ≠ cs' :=
  checksum_subst_ne pre post c c' cs cs' hne h h'

example : checksum "pk(0a)".toList ≠ checksum "pk(0b)".toList := by decide +kernel

/-- `strip_checksum` accepts a body with its own checksum and returns the body; a body alone is
    returned unchanged; `add_checksum` appends exactly `checksum(body)`. -/
theorem checksummed_accepted (body cs : List Char) (hb : '#' ∉ body) (h : checksum body = some cs) :
    stripChecksum (body ++ '#' :: cs) = .ok body ∧ stripChecksum body = .ok body ∧
      addChecksum body = .ok (body ++ '#' :: cs) ∧ addChecksum (body ++ '#' :: cs) = .ok (body ++ '#' :: cs) := by
  have hc : '#' ∉ cs := fun e => (checksum_chars h '#' e).1 rfl
  have s1 : stripChecksum (body ++ '#' :: cs) = .ok body := by
    simp [stripChecksum, partition_append body cs hb, hc, h]
  have s2 : stripChecksum body = .ok body := by
    simp [stripChecksum, partition_none body hb, h]
  exact ⟨s1, s2, by simp [addChecksum, s2, h], by simp [addChecksum, s1, h]⟩

/-- T1c at the entry point: take a checksummed descriptor `body#checksum(body)` and change ONE
    character of the body into another character of the charset: `strip_checksum` (hence `parse`)
    refuses it.  Every body length.  (A changed checksum character is refused because the eight
    characters are compared as text; a changed `#` leaves a string that no longer ends in `)`, which
    is the parser's refusal and is checked on the real code by the harness.) -/
theorem single_substitution_refused (pre post : List Char) (c c' : Char) (cs : List Char)
    (hb : '#' ∉ pre ++ c :: post) (h : checksum (pre ++ c :: post) = some cs)
    (hne : c' ≠ c) (hc' : c' ∈ INPUT_CHARSET) :
    ∃ e, stripChecksum (pre ++ c' :: post ++ '#' :: cs) = .error e := by
  have hpre : '#' ∉ pre := fun e => hb (List.mem_append_left _ e)
  have hpost : '#' ∉ post := fun e => hb (List.mem_append_right _ (List.mem_cons_of_mem _ e))
  by_cases hh : c' = '#'
  · subst hh
    refine ⟨.twoSeparators, ?_⟩
    have : pre ++ '#' :: post ++ '#' :: cs = pre ++ '#' :: (post ++ '#' :: cs) := by simp
    simp [stripChecksum, this, partition_append pre _ hpre]
  · have hb' : '#' ∉ pre ++ c' :: post := by
      intro e
      rcases List.mem_append.mp e with e | e
      · exact hpre e
      · rcases List.mem_cons.mp e with e | e
        · exact hh e.symm
        · exact hpost e
    have hvalid : ∀ x ∈ pre ++ c' :: post, x ∈ INPUT_CHARSET := by
      have hv := (checksum_isSome_iff _).mp ⟨cs, h⟩
      intro x hx
      rcases List.mem_append.mp hx with hx | hx
      · exact hv x (List.mem_append_left _ hx)
      · rcases List.mem_cons.mp hx with hx | hx
        · rw [hx]; exact hc'
        · exact hv x (List.mem_append_right _ (List.mem_cons_of_mem _ hx))
    obtain ⟨cs', h'⟩ := (checksum_isSome_iff _).mpr hvalid
    have hne' := checksum_subst_ne pre post c c' cs cs' (Ne.symm hne) h h'
    have hc : '#' ∉ cs := fun e => (checksum_chars h '#' e).1 rfl
    have hp := partition_append (pre ++ c' :: post) cs hb'
    simp only [List.append_assoc, List.cons_append] at hp
    refine ⟨.mismatch, ?_⟩
    simp [stripChecksum, hp, hc, h', hne']

example : ∃ e, stripChecksum "raw(deadbeee)#89f8spxm".toList = .error e := ⟨.mismatch, by decide +kernel⟩

/-- T1c, the checksum half: ANY change of the eight characters after the `#` (one character or more, any
    characters) is refused — they are compared as text with `checksum(body)`. -/
theorem checksum_corruption_refused (body cs cs' : List Char) (hb : '#' ∉ body) (h : checksum body = some cs)
    (hne : cs' ≠ cs) : ∃ e, stripChecksum (body ++ '#' :: cs') = .error e := by
  by_cases hc : '#' ∈ cs'
  · exact ⟨.twoSeparators, by simp [stripChecksum, partition_append body cs' hb, hc]⟩
  · exact ⟨.mismatch, by simp [stripChecksum, partition_append body cs' hb, hc, h, hne]⟩

example : ∃ e, stripChecksum "raw(deadbeef)#89f8spxn".toList = .error e := ⟨.mismatch, by decide +kernel⟩

/-- T1d: a descriptor string holding any character outside `INPUT_CHARSET` — in the body or after the
    `#` — is refused, with or without a checksum. -/
theorem outside_charset_refused (d : List Char) (x : Char) (hx : x ∈ d) (hbad : x ∉ INPUT_CHARSET) :
    ∃ e, stripChecksum d = .error e := by
  unfold stripChecksum
  simp only
  split
  · exact ⟨_, rfl⟩
  · rename_i hcon
    cases hcs : checksum (partition '#' d).1 with
    | none => exact ⟨_, rfl⟩
    | some expected =>
      rcases partition_mem d x hx with hm | hm | ⟨hm, hsep⟩
      · exact absurd ((checksum_isSome_iff _).mp ⟨_, hcs⟩ x hm) hbad
      · exact absurd (hm ▸ hash_mem) hbad
      · have : (partition '#' d).2.2 ≠ expected := by
          intro e
          exact hbad ((checksum_chars hcs x (e ▸ hm)).2)
        simp [hsep, this]

example : ∃ e, stripChecksum "raw(deadébeef)".toList = .error e := ⟨.badChar, by decide +kernel⟩


/-! ## T5 — "is this output mine" is a find-first scan

`spk`/`spks` is the derivation function (abstract: any function of branch and index); the scan is
the loop of `Descriptor.index_of` / `RangedWallet.position_of` / `DescriptorWallet.position_of`. -/
section T5
open Btc.Scan
variable {β σ : Type} [DecidableEq σ]

/-- `Descriptor.index_of` answers `i` iff `i` is the FIRST index in `0 … last` (index 0 only when the
    descriptor is not ranged) at which the descriptor describes the script. -/
theorem index_of_find_first (spks : Nat → List σ) (ranged : Bool) (s : σ) (last i : Nat) :
    indexOf spks ranged s last = some i ↔
      i ≤ (if ranged then last else 0) ∧ s ∈ spks i ∧ ∀ j, j < i → s ∉ spks j := by
  unfold indexOf
  rw [findFirst_some_iff]
  simp

/-- … and answers `None` iff no index in the searched range describes it. -/
theorem index_of_none_iff (spks : Nat → List σ) (ranged : Bool) (s : σ) (last : Nat) :
    indexOf spks ranged s last = none ↔ ∀ j, j ≤ (if ranged then last else 0) → s ∉ spks j := by
  unfold indexOf
  rw [findFirst_none_iff]
  simp

example : indexOf (fun i => [i / 2, 100 + i]) true 3 9 = some 6 := by decide

/-- `RangedWallet.position_of` answers `(b, i)` iff it is the lexicographically first position of
    `branches × [0 … last]` (branches in `branches` order) whose script is the query. -/
theorem position_of_find_first (spk : β → Nat → σ) (s : σ) (last : Nat) (branches : List β) (b : β) (i : Nat) :
    positionOf spk s last branches = some (b, i) ↔
      ∃ pre post, branches = pre ++ b :: post ∧ (∀ b' ∈ pre, ∀ j, j ≤ last → spk b' j ≠ s) ∧
        i ≤ last ∧ spk b i = s ∧ ∀ j, j < i → spk b j ≠ s :=
  positionOf_some_iff spk s last branches b i

/-- … and answers "not mine" iff no position in the searched range derives the script. -/
theorem position_of_none_iff (spk : β → Nat → σ) (s : σ) (last : Nat) (branches : List β) :
    positionOf spk s last branches = none ↔ ∀ b ∈ branches, ∀ j, j ≤ last → spk b j ≠ s :=
  positionOf_none_iff spk s last branches

/-- hence: whatever position is answered derives the script and lies in the searched range. -/
theorem position_of_derives (spk : β → Nat → σ) (s : σ) (last : Nat) (branches : List β) (b : β) (i : Nat)
    (h : positionOf spk s last branches = some (b, i)) : b ∈ branches ∧ i ≤ last ∧ spk b i = s := by
  obtain ⟨pre, post, e, _, h1, h2, _⟩ := (positionOf_some_iff spk s last branches b i).mp h
  exact ⟨by rw [e]; simp, h1, h2⟩

/-- a script the wallet derived in range is always recognised, at a position that derives it. -/
theorem position_of_own (spk : β → Nat → σ) (last : Nat) (branches : List β) (b₀ : β) (i₀ : Nat)
    (hb : b₀ ∈ branches) (hi : i₀ ≤ last) :
    ∃ b i, positionOf spk (spk b₀ i₀) last branches = some (b, i) ∧ spk b i = spk b₀ i₀ := by
  cases h : positionOf spk (spk b₀ i₀) last branches with
  | none => exact absurd rfl ((positionOf_none_iff _ _ _ _).mp h b₀ hb i₀ hi)
  | some p =>
    obtain ⟨b, i⟩ := p
    exact ⟨b, i, rfl, (position_of_derives spk _ last branches b i h).2.2⟩

/-- "returns that position": when the scripts in the searched range are pairwise distinct (the
    hypothesis under which the sentence is true at all — two positions paying to one script is what
    `assert_derives` refuses), the position asked about is the position answered. -/
theorem position_of_own_exact (spk : β → Nat → σ) (last : Nat) (branches : List β) (b₀ : β) (i₀ : Nat)
    (hb : b₀ ∈ branches) (hi : i₀ ≤ last)
    (hd : ∀ b ∈ branches, ∀ b' ∈ branches, ∀ i j, i ≤ last → j ≤ last → spk b i = spk b' j → b = b' ∧ i = j) :
    positionOf spk (spk b₀ i₀) last branches = some (b₀, i₀) := by
  obtain ⟨b, i, h, he⟩ := position_of_own spk last branches b₀ i₀ hb hi
  obtain ⟨hb', hi', _⟩ := position_of_derives spk _ last branches b i h
  obtain ⟨rfl, rfl⟩ := hd b hb' b₀ hb i i₀ hi' hi he
  exact h

example : positionOf (fun (b i : Nat) => 10 * i + b) 31 9 [0, 1] = some (1, 3) := by decide
example : positionOf (fun (b i : Nat) => 10 * i + b) 32 9 [0, 1] = none := by decide

/-- `DescriptorWallet.position_of` (one `index_of` per chain): an answer derives the script, within
    the range searched for that chain. -/
theorem descriptor_wallet_position_derives (spks : β → Nat → List σ) (ranged : β → Bool) (s : σ) (last : Nat)
    (branches : List β) (b : β) (i : Nat) (h : positionOfDesc spks ranged s last branches = some (b, i)) :
    b ∈ branches ∧ i ≤ (if ranged b then last else 0) ∧ s ∈ spks b i := by
  induction branches with
  | nil => simp [positionOfDesc] at h
  | cons x xs ih =>
    simp only [positionOfDesc] at h
    cases hf : indexOf (spks x) (ranged x) s last with
    | some k =>
      rw [hf] at h
      simp only [Option.some.injEq, Prod.mk.injEq] at h
      obtain ⟨rfl, rfl⟩ := h
      have := (index_of_find_first (spks x) (ranged x) s last k).mp hf
      exact ⟨List.mem_cons_self .., this.1, this.2.1⟩
    | none =>
      rw [hf] at h
      have := ih h
      exact ⟨List.mem_cons_of_mem _ this.1, this.2⟩

/-- … and "not mine" means no chain describes the script anywhere in its searched range. -/
theorem descriptor_wallet_position_none_iff (spks : β → Nat → List σ) (ranged : β → Bool) (s : σ) (last : Nat)
    (branches : List β) :
    positionOfDesc spks ranged s last branches = none ↔
      ∀ b ∈ branches, ∀ j, j ≤ (if ranged b then last else 0) → s ∉ spks b j := by
  induction branches with
  | nil => simp [positionOfDesc]
  | cons x xs ih =>
    simp only [positionOfDesc]
    cases hf : indexOf (spks x) (ranged x) s last with
    | some k =>
      have := (index_of_find_first (spks x) (ranged x) s last k).mp hf
      constructor
      · intro h; cases h
      · intro h; exact absurd this.2.1 (h x (List.mem_cons_self ..) k this.1)
    | none =>
      have hn := (index_of_none_iff (spks x) (ranged x) s last).mp hf
      simp only [ih]
      constructor
      · intro h b hb j hj
        rcases List.mem_cons.mp hb with e | e
        · rw [e] at hj ⊢; exact hn j hj
        · exact h b e j hj
      · intro h b hb j hj; exact h b (List.mem_cons_of_mem _ hb) j hj

end T5


/-! ## T2 — the text written back parses to an equal descriptor

`Model/C14/Descriptor.lean` mirrors the reader (`parse`, `_parse_expression`, `_parse_tree`,
`_parse_multi*`, `_parse_key`, `_origin_and_rest`, `_key_origin`, `_split_wildcard`, `_fixed_pub_key`,
`_split_arguments`, `_split_function`, BIP380 path steps) and the writer (`__str__` of every fragment,
`KeyExpression.__str__`, `_tree_expression`).  What a key ATOM is (extended key / curve point / WIF /
address) is a `KeyOracle` parameter: the theorems hold for every oracle.  `musig()` and miniscript
bodies are outside this model (round-trip oracle on the real code only). -/
section T2
open Btc.Desc Gen.Descriptor

/-- the tables the reader model was written from are the ones in the current source: function names
    and position rules of `_PARSERS`, the tree functions, where a miniscript may be written, the
    `_parse_key` flags of every reader, the bounds and the spellings. -/
theorem parser_tables_as_modelled :
    (∀ fn ∈ Fn.all, ∀ ctx ∈ [Ctx.top, Ctx.sh, Ctx.wsh, Ctx.tr],
      ((PARSERS.lookup (String.ofList fn.chars)).map fun l => l.contains ctx.name) = some (fn.allowed ctx)) ∧
    PARSERS.map (·.1) = Fn.all.map (fun fn => String.ofList fn.chars) ∧
    TREE_FUNCTIONS = [String.ofList nMultiA, String.ofList nSortedmultiA] ∧
    MINISCRIPT_CONTEXTS = ["wsh", "tr"] ∧
    KEY_FLAGS = [("_parse_pk", "context == _P2TR", "_no_uncompressed(context)", "False"),
      ("_parse_pkh", "False", "_no_uncompressed(context)", "False"),
      ("_parse_wpkh", "False", "True", "False"), ("_parse_combo", "False", "False", "False"),
      ("_parse_multi", "False", "_no_uncompressed(context)", "False"), ("_parse_tr", "True", "True", "True"),
      ("_parse_rawtr", "True", "True", "True"), ("_parse_multi_a", "True", "True", "True"),
      ("_parse_tree", "True", "True", "True")] ∧
    THRESHOLD_MAX_DIGITS = 10 ∧ INT_MAX_STR_DIGITS = 4300 ∧ MAX_TREE_DEPTH = 128 ∧ HARDENED_OFFSET = 2 ^ 31 ∧ MAX_PATH_STEPS = 255 ∧ INDEX_BOUND = 2 ^ 31 ∧
    BIP380_HARDENINGS = ['\'', 'h'] ∧ HARDENING = 'h' ∧ WILDCARDS = ["*", "*'", "*h"] := by
  refine ⟨by decide, by decide, by decide, by decide, by decide, by decide, by decide, by decide, by decide,
    by decide, by decide, by decide, by decide, by decide⟩

/-- T2 (miniscript bodies, C15's AST inside this grammar): a sane, satisfiable P2WSH miniscript over
    raw compressed keys that are points, whose text does not begin with a descriptor function name, is
    read back by `_parse_expression` inside `wsh()` as the `MiniscriptDescriptor` of the same expression.
    Hypothesis `hn : Miniscript.numsOK n` (C15's): every number of the expression — lock times, `multi` / `thresh`
    thresholds — is written with at most ten decimal digits (`Miniscript.digitsOK`: what btclib's `_NUMBER` reads
    back); true of every lock time and of every threshold below 10^10.
    (The reading of the miniscript text itself is C15's theorem `parseSyntax_toText`.)  `musig()` keys and
    miniscripts over extended keys stay outside the model. -/
theorem parse_miniscript_of_text (o : KeyOracle) (fuel : Nat) (n : Miniscript.Ms)
    (hs : Miniscript.shaped .p2wsh n = true) (hn : Miniscript.numsOK n = true)
    (ht : Miniscript.allTyped .p2wsh n = true) (hB : (Miniscript.typeOf .p2wsh n).B = true)
    (hsane : (Miniscript.isSane .p2wsh n && (Miniscript.maxStackItems .p2wsh n).isSome) = true)
    (hk : ∀ k ∈ Miniscript.keysOf n, k.length = 33 ∧ (k.head? = some 2 ∨ k.head? = some 3) ∧ o.validPub k = true)
    (hname : fnOf ((Miniscript.toText n).takeWhile (· != '(')) = none ∧
      ((Miniscript.toText n).takeWhile (· != '(') == nMusig) = false ∧
      isTreeFn ((Miniscript.toText n).takeWhile (· != '(')) = false) :
    parseExpr o (fuel + 1) .wsh (strD (.ms n)) = .ok (.ms n) := by
  have hp : Miniscript.parse .p2wsh (Miniscript.toText n) = some n := by
    simp [Miniscript.parse, Miniscript.parseSyntax_toText .p2wsh n hs hn, hs, ht, hB]
  have hall : ((Miniscript.keysOf n).all fun k =>
      k.length == 33 && (k.head? == some 2 || k.head? == some 3) && o.validPub k) = true := by
    rw [List.all_eq_true]
    intro k hkm
    obtain ⟨h1, h2, h3⟩ := hk k hkm
    rcases h2 with h2 | h2 <;> simp [h1, h2, h3]
  simp only [strD, parseExpr, hname.1, hname.2.1, hname.2.2, Bool.false_eq_true, if_false, Bool.false_and,
    beq_self_eq_true, if_true, parseMs, hp, hall, Bool.not_true, hsane, Except.map]

/-- T2 (`musig()` key expressions, BIP390): `_parse_musig(str(key)) == key` — participants that are
    compressed or extended keys (each with its own origin, path, wildcard), an unhardened path and `/*` on
    the aggregate when every participant is extended and none ranged.  (Aggregation is C16's.) -/
theorem parse_musig_of_str (o : KeyOracle) (m : Musig) (h : MusigOk o m) : parseMusig o (strMusig m) = .ok m :=
  parseMusig_strMusig o m h

/-- a small oracle for the examples: texts starting with `x` are extended public keys, every point is
    on the curve. -/
def exampleOracle : KeyOracle where
  xkey t := if t.head? = some 'x' then some t else none
  validPub _ := true
  wif _ := none
  validAddr _ := false

/-- T2 (keys): `_parse_key(str(key)) == key` for every well-formed key expression — origin with any
    path, fixed key (compressed, uncompressed, x-only) or extended key with any path and either
    wildcard, either hardening symbol — at every position whose flags admit the key. -/
theorem parse_key_of_str (o : KeyOracle) (xOnly compressed musigAllowed : Bool) (k : Key)
    (h : KeyOk o xOnly compressed k) : parseKey o xOnly compressed musigAllowed (strKey k) = .ok k :=
  parseKey_strKey o xOnly compressed musigAllowed k h

/-- whatever `_parse_key` reads in an x-only spelling (32 hex bytes, or a WIF where only x-only keys are
    written) it holds in the even-y SEC form `02‖x`, whatever the parity of the WIF's own point: the
    form `str` writes and reads back (regression of finding `roundtrip.xonly_wif_odd_y`). -/
theorem x_only_keys_read_in_even_form (o : KeyOracle) (xOnly compressed musigAllowed : Bool) (e : List Char)
    (k : Key) (sec : Bytes) (h : parseKey o xOnly compressed musigAllowed e = .ok k)
    (ha : k.atom = .pub sec true) (hl : sec.length = 33) : sec.head? = some 2 :=
  parseKey_xonly_even o xOnly compressed musigAllowed e k sec h ha hl

/-- a tr() leaf that opens a bracket and is not closed by `)` — e.g. `pk(KEY}`, which
    `_split_arguments` counts as balanced — is refused (regression of finding
    `parse.tr_leaf_closing_bracket_kind`). -/
theorem tr_leaf_must_close (o : KeyOracle) (fuel depth : Nat) (e : List Char) (h1 : e.head? ≠ some '{')
    (h2 : '(' ∈ e) (h3 : e.getLast? ≠ some ')') : parseTree o fuel depth e = .error .value :=
  parseTree_unclosed o fuel depth e h1 h2 h3

example : parseTree exampleOracle 9 0 "pk(xA}".toList = .error .value := by decide +kernel

/-- a threshold of more than `THRESHOLD_MAX_DIGITS` (ten) digits is refused by every `multi*` reader (so no
    digit run reaches `int()`'s own 4300-digit limit); T2 below is stated for thresholds below 10^10. -/
theorem long_threshold_refused (o : KeyOracle) (x c m : Bool) (t k : List Char) (ks : List (List Char))
    (h : t.length > THRESHOLD_MAX_DIGITS) : parseMultiArgs o x c m (t :: k :: ks) = .error .value := by
  simp [parseMultiArgs, parseThreshold, h]

/-- T2 (trees): `_parse_tree(_tree_expression(t)) == t` for every tree of `pk()`, `multi_a()`,
    `sortedmulti_a()` leaves no deeper than `MAX_TREE_DEPTH`. -/
theorem parse_tree_of_str (o : KeyOracle) (t : Tree) (h : TreeOk o t) (hd : t.height ≤ MAX_TREE_DEPTH) :
    parseTree o (t.height + 1) 0 (strTree t) = .ok t :=
  parseTree_strTree o t _ 0 h (by omega) (by omega)

/-- T2: `parse(str(d)) == d`, and `parse(add_checksum(str(d))) == d`, for EVERY descriptor of the
    grammar model (covered constructors: pk, pkh, wpkh, combo, sh, wsh, multi, sortedmulti, tr with
    and without a tree of pk / multi_a / sortedmulti_a leaves, rawtr, addr, raw; all nestings the
    position rules allow) whose text is over the input charset.  By structural induction. -/
theorem parse_of_str (o : KeyOracle) (d : D) (h : DOk o .top d)
    (hcs : ∀ c ∈ strD d, c ∈ INPUT_CHARSET ∧ c ≠ '#') :
    Desc.parse o (strD d) = .ok d ∧
    ∀ cs, checksum (strD d) = some cs → Desc.parse o (strD d ++ '#' :: cs) = .ok d := by
  have hb : '#' ∉ strD d := fun e => (hcs '#' e).2 rfl
  obtain ⟨cs, hc⟩ := (checksum_isSome_iff (strD d)).mpr fun c hc => (hcs c hc).1
  have hacc := checksummed_accepted (strD d) cs hb hc
  have hp := parseExpr_strD o .top d h ((strD d).length + 1) (by have := size_le_length o .top d h; omega)
  refine ⟨by simp only [Desc.parse, hacc.2.1, hp], ?_⟩
  intro cs' hc'
  rw [hc] at hc'
  cases hc'
  simp only [Desc.parse, hacc.1, hp]

/-- `sh(wsh(sortedmulti(2,[c0ffee00/84'/0']xA/0/*',02aa…aa)))`: non-trivial, well-formed, read back. -/
example :
    let k1 : Key := { origin := some { fp := [0xc0, 0xff, 0xee, 0x00], path := [2 ^ 31 + 84, 2 ^ 31] },
                      atom := .xkey ['x', 'A'], path := [0], wildcard := some true, hard := .apos }
    let k2 : Key := { origin := none, atom := .pub (2 :: List.replicate 32 0xaa) false, path := [],
                      wildcard := none, hard := .h }
    let d : D := .sh (.wsh (.multi 2 [k1, k2] true))
    (strD d).take 44 = "sh(wsh(sortedmulti(2,[c0ffee00/84'/0']xA/0/*".toList ∧
      Desc.parse exampleOracle (strD d) = .ok d := by
  decide +kernel

/-- a `tr()` with a tree: an x-only internal key, a `pk()` leaf and a `multi_a()` leaf. -/
example :
    let x : Key := { origin := none, atom := .pub (2 :: List.replicate 32 0x11) true, path := [],
                     wildcard := none, hard := .h }
    let e : Key := { origin := none, atom := .xkey ['x', 'B'], path := [1, 2 ^ 31 + 2], wildcard := some false,
                     hard := .h }
    let d : D := .tr x (some (.branch (.pk e) (.multiA 1 [x, e] false)))
    Desc.parse exampleOracle (strD d) = .ok d := by
  decide +kernel

/-- `wsh(and_v(v:pk(02aa…aa),older(144)))`: the miniscript is read by C15's reader inside this one. -/
example :
    let k : Bytes := 2 :: List.replicate 32 0xaa
    let n : Miniscript.Ms := .bin .and_v (.wrap .v (.wrap .c (.pk_k k))) (.older 144)
    let d : D := .wsh (.ms n)
    (strD d).take 18 = "wsh(and_v(v:pk(02a".toList ∧ Desc.parse exampleOracle (strD d) = .ok d := by
  decide +kernel

/-- `musig(xA/1,[c0ffee00/2h]xB)/0/*` -/
example :
    let a : Key := { origin := none, atom := .xkey ['x', 'A'], path := [1], wildcard := none, hard := .h }
    let b : Key := { origin := some { fp := [0xc0, 0xff, 0xee, 0x00], path := [2 ^ 31 + 2] }, atom := .xkey ['x', 'B'],
                     path := [], wildcard := none, hard := .h }
    let m : Musig := { participants := [a, b], path := [0], wildcard := true }
    strMusig m = "musig(xA/1,[c0ffee00/2h]xB)/0/*".toList ∧ parseMusig exampleOracle (strMusig m) = .ok m := by
  decide +kernel

end T2


/-! ## T4 — multipath expansion chooses the j-th alternative everywhere

`expandText` is the textual expansion inside `multipath_descriptors` (the regex split and the
per-index join); `multipath` wraps it between `strip_checksum` and `add_checksum`.  A template is
the text before the first `<…>` step and, per step, its alternatives and the text after it. -/
section T4
open Btc.Desc

/-- T4: for every well-formed template whose steps all have the same number `n ≥ 2` of alternatives,
    the expansion of its multipath text is exactly the `n` single-path texts obtained by choosing the
    `j`-th alternative at EVERY step, for j = 0 … n-1 in that order. -/
theorem multipath_expansion (t : Tmpl) (h : TmplOk t) (n : Nat) (hn : 2 ≤ n) (hne : t.2 ≠ [])
    (hl : ∀ s ∈ t.2, s.1.length = n) :
    expandText (printT t) = some ((List.range n).map (chooseAlt t.1 t.2)) :=
  expandText_printT t h n hn hne hl

/-- a descriptor with no multipath step is one descriptor, unchanged. -/
theorem single_path_unchanged (body : List Char) (h : ∀ c ∈ body, c ≠ '<') : expandText body = some [body] :=
  expandText_single body h

example :
    let t : Tmpl := ("wsh(multi(1,xA/".toList, [([['0'], ['1']], "/*,xB/7/".toList), ([['2'], ['3']], "/*))".toList)])
    printT t = "wsh(multi(1,xA/<0;1>/*,xB/7/<2;3>/*))".toList ∧
      expandText (printT t) = some ["wsh(multi(1,xA/0/*,xB/7/2/*))".toList, "wsh(multi(1,xA/1/*,xB/7/3/*))".toList] := by
  decide +kernel

/-- steps of different lengths, or a single alternative, are refused. -/
example : expandText "pk(x/<0;1>/<0;1;2>)".toList = none ∧ expandText "pk(x/<0>)".toList = none := by
  decide +kernel

end T4


/-! ## T3 — derivation: keys by BIP32 (C07's model), scripts assembled, `tr()` by C12's tweak

`Model/C14/Derive.lean` is `Descriptor.script_pub_keys` over the SAME definitions C07 and C12 prove their
theorems about (`Btc.Bip32.derive`, `Btc.Taproot.outputPubkey`), generic over the group and the hashes;
`Model/C14/Wallet.lean` puts the wallet kinds on top.  The executable instance (secp256k1, HMAC-SHA512,
HASH160, SHA-256) is compared with btclib's `script_pub_keys` / `address` / `position_of` on every run. -/
section T3
open Btc.Desc Gen.Descriptor
variable {α : Type} (E : DEnv α)

/-- `sortedmulti()`: the keys are sorted bytewise AFTER derivation, so at every index the script is the
    same whatever order the key expressions are written in (and refusals coincide). -/
theorem sortedmulti_order_independent (net : String) (prv : PrvKeys) (i thr : Nat) {ks ks' : List Key}
    (h : ks.Perm ks') :
    scripts E net prv i (.multi thr ks true) = scripts E net prv i (.multi thr ks' true) :=
  sortedmulti_perm E net prv i thr h

/-- `at_index` commutes with derivation: the descriptor `at_index(d, i)` describes at index 0 exactly
    what `d` describes at `i` (same scripts, same refusals). -/
theorem at_index_commutes (net : String) (prv : PrvKeys) (d d' : D) (i : Nat) (h : atIndex d i = some d') :
    scriptPubKeys E net prv d' 0 = scriptPubKeys E net prv d i := by
  unfold atIndex at h
  split at h
  · cases h
  · split at h
    · cases h
    · rename_i h1 h2
      simp only [Option.some.injEq] at h
      subst h
      have hb : ¬ 0 ≥ INDEX_BOUND := by decide
      unfold scriptPubKeys
      simp only [hb, h1, h2, if_false, ne_eq, not_true_eq_false, false_and, scripts_atIndex]

/-- T3 at full strength, EVERY descriptor form of the grammar model (pk, pkh, wpkh, combo, sh(…), wsh(…), multi /
    sortedmulti at top level or inside sh / wsh / sh(wsh), tr with a key only or with a tree of pk / multi_a /
    sortedmulti_a / miniscript leaves, rawtr, addr, raw, miniscript): what the descriptor describes at index `i` is —
    when every one of its key expressions derives at `i`, and refused otherwise — the STANDARD SCRIPT ASSEMBLED BY HAND
    (`Btc.Desc.assemble`: opcodes and pushes only, no BIP32, no index, no `prv_keys`) from the public keys BIP32 derives
    at `i` (`Key.derived`: the literal key `KeyExpression.sec` answers; `D.mapKeys` / `D.keys` are btclib's
    `_mapped_keys` / `key_expressions`). -/
theorem scripts_are_assembled_from_bip32_keys (net : String) (prv : PrvKeys) (i : Nat) (d : D) :
    scripts E net prv i d =
      if allDerive E net prv i d.keys then assemble E (d.mapKeys (Key.derived E net prv i)) else none :=
  scripts_eq_assemble E net prv i d

/-- … where the key of a key expression at `i` is: the fixed key itself, or C07's `Bip32.derive` of the extended key
    (the private one `prv_keys` holds for it, when it does) along the written path followed by the wildcard step
    (`i`, or `2^31 + i` for `*h`), then its public key, provided its version is the network's. -/
theorem key_expression_is_bip32_derivation (net : String) (prv : PrvKeys) (i : Nat) (k : Key) :
    Key.sec E net prv k i =
      match k.atom with
      | .pub sec _ => some sec
      | .xkey t =>
        match decodeXkey E ((prv.lookup t).getD t), networkOf net with
        | some x, some n =>
          match Bip32.derive E.bip x (k.path ++ (match k.wildcard with
              | none => [] | some hd => [(if hd then HARDENED_OFFSET else 0) + i])) none with
          | .error _ => none
          | .ok y =>
            if y.isPrivate then
              (if n.xprv.contains (versionNats y.version) then some (Bip32.pubOfPrv E.bip y.prvInt) else none)
            else (if n.xpub.contains (versionNats y.version) then some y.key else none)
        | _, _ => none :=
  key_sec_is_bip32 E net prv i k

/-- a hardened step — in the written path, or the `*h` wildcard — cannot be walked from an extended PUBLIC key: the
    key expression (hence, by the theorem above, every descriptor holding it) is refused at every index, unless
    `prv_keys` holds the private key under that spelling. -/
theorem hardened_step_from_xpub_refused (net : String) (prv : PrvKeys) (i : Nat) (k : Key) (t : List Char)
    (x : Bip32.XKey) (hk : k.atom = .xkey t) (hx : decodeXkey E ((prv.lookup t).getD t) = some x)
    (hpub : x.isPrivate = false) (hh : ∃ s ∈ k.fullPath i, s ≥ Bip32.HARDENED) :
    Key.sec E net prv k i = none ∧
    ∀ d : D, k ∈ d.keys → scripts E net prv i d = none := by
  have h := hardened_from_xpub_refused E net prv i k t x hk hx hpub hh
  refine ⟨h, fun d hd => ?_⟩
  rw [scripts_eq_assemble]
  have : allDerive E net prv i d.keys = false := by
    unfold allDerive
    rw [List.all_eq_false]
    exact ⟨k, hd, by simp [h]⟩
  simp [this]

/-- the hand assembly written out on literal keys, on the toy environment (HASH160 = 20 octets of the key):
    `wsh(sortedmulti(1, 03…, 02…))` sorts the keys bytewise and wraps `1 <02…> <03…> 2 CHECKMULTISIG`;
    `pkh` is `DUP HASH160 <20> EQUALVERIFY CHECKSIG`; a descriptor one of whose keys does not derive is refused. -/
example :
    let a : Bytes := 3 :: List.replicate 32 7
    let b : Bytes := 2 :: List.replicate 32 9
    assemble toyE (.pkh (Key.fixed a)) = some [[0x76, 0xa9, 0x14] ++ toyE.bip.h160 a ++ [0x88, 0xac]] ∧
    assemble toyE (.multi 1 [Key.fixed a, Key.fixed b] true) =
      some [[0x51, 0x21] ++ b ++ [0x21] ++ a ++ [0x52, 0xae]] ∧
    scripts toyE "mainnet" [] 5 (.sh (.multi 1 [Key.fixed a, Key.fixed b] true)) =
      assemble toyE (.sh (.multi 1 [Key.fixed a, Key.fixed b] true)) ∧
    scripts toyE "mainnet" [] 0 (.pkh { (Key.fixed a) with atom := .xkey ['x'] }) = none := by
  decide +kernel

/-- `tr(KEY, TREE)` and C12, in the group (`L : Lawful E.bip.o G`, C01's statement about the arithmetic; `hp`: the
    field fits 32 bytes; `h32`: tagged hashes are 32 bytes; `hQ`: the tweaked point is not the point at infinity):
    when the internal key derived at `i` is the SEC form of the point `P`, the derived tree has depth ≤ 128 and the
    TapTweak `t` of (x(P), merkle root of the derived tree) is in range, the descriptor describes at `i` exactly ONE
    script, `OP_1 0x20 q`, where `q` is the 32-byte x-coordinate of `P + t·G` — C12's `outputPubkey` of
    (internal key, tree) — and EVERY leaf of the derived tree has a control block (`input_script_sig`) that C12's
    `check_output_pubkey` accepts against that very `q`.  (The one-step unfolding `scripts (.tr …) = OP_1 ‖ push
    (tweakedPubkey …)` is `Btc.Desc.tr_scripts_unfold`, a lemma.) -/
theorem tr_output_commits_to_key_and_tree {G : Type} [AddCommGroup G] (L : Lawful E.bip.o G)
    (hp : E.bip.o.p ≤ 2 ^ 256) (h32 : Taproot.Len32 E.tag)
    (net : String) (prv : PrvKeys) (i : Nat) (k : Key) (t : Tree) (sec : Bytes) (tt : Taproot.Tree) (P : α) (tw : Int)
    (hk : Key.sec E net prv k i = some sec) (ht : tapTree E net prv i t = some tt)
    (hdepth : tt.depth ≤ 128)
    (hP : Taproot.pointFromOctets E.bip.o sec = .ok P)
    (htw : Taproot.tapTweak E.bip.o E.tag (Taproot.xOnly sec) (Taproot.root E.tag tt) = .ok tw)
    (hQ : L.abs (Taproot.tweakPoint E.bip.o P tw) ≠ 0) :
    let q := (Taproot.outKey E.bip.o (Taproot.tweakPoint E.bip.o P tw)).1
    scripts E net prv i (.tr k (some t)) = some [Taproot.p2trScript q] ∧ q.length = 32 ∧
    ((ofBE q : Nat) : Int) = E.bip.o.x (Taproot.tweakPoint E.bip.o P tw) ∧
    ∀ j : Nat, j < (Taproot.leaves E.tag tt).length →
      ∃ s c, Taproot.inputScriptSig E.bip.o E.tag (some sec) tt j = .ok (s, c) ∧
        Taproot.checkOutputPubkey E.bip.o E.tag q s c = .ok true :=
  tr_tree_link E L hp h32 net prv i k t sec tt P tw hk ht hdepth hP htw hQ

/-- `tr(KEY)`: the one script is `OP_1 0x20 q`, `q` the x-coordinate of `P + t·G` with `t` the TapTweak of x(P) alone
    (BIP86 / BIP341 key-path-only output). -/
theorem tr_key_only_output {G : Type} [AddCommGroup G] (L : Lawful E.bip.o G) (hp : E.bip.o.p ≤ 2 ^ 256)
    (net : String) (prv : PrvKeys) (i : Nat) (k : Key) (sec : Bytes) (P : α) (tw : Int)
    (hk : Key.sec E net prv k i = some sec)
    (hP : Taproot.pointFromOctets E.bip.o sec = .ok P)
    (htw : Taproot.tapTweak E.bip.o E.tag (Taproot.xOnly sec) [] = .ok tw)
    (hQ : L.abs (Taproot.tweakPoint E.bip.o P tw) ≠ 0) :
    let q := (Taproot.outKey E.bip.o (Taproot.tweakPoint E.bip.o P tw)).1
    scripts E net prv i (.tr k none) = some [Taproot.p2trScript q] ∧ q.length = 32 ∧
    ((ofBE q : Nat) : Int) = E.bip.o.x (Taproot.tweakPoint E.bip.o P tw) :=
  tr_key_link E L hp net prv i k sec P tw hk hP htw hQ

/-! ### `position_of` with the raise mirrored

`walletPositionOf` / `descWalletPositionOf` are `Scan.scanE` over the wallet's own derivation: outer `none`
is the BTClibValueError btclib raises when the scan reaches a position it cannot derive (index past 65535
of an account wallet, a hardened step without the private key) BEFORE any match. -/

/-- find-first, all three wallet scans: the answer is `(b, i)` iff `(b, i)` is the lexicographically first
    match in `branches × [0 … lastOf b]` AND every position scanned before it derives (and is no match). -/
theorem scan_find_first_iff {β : Type} (hit : β → Nat → Option Bool) (lastOf : β → Nat) (branches : List β)
    (b : β) (i : Nat) :
    Scan.scanE hit lastOf branches = some (some (b, i)) ↔
      ∃ pre post, branches = pre ++ b :: post ∧ Scan.AllMiss hit lastOf pre ∧
        i ≤ lastOf b ∧ hit b i = some true ∧ ∀ j, j < i → hit b j = some false :=
  Scan.scanE_hit_iff hit lastOf branches b i

/-- "not mine" iff every searched position derives and none matches. -/
theorem scan_not_mine_iff {β : Type} (hit : β → Nat → Option Bool) (lastOf : β → Nat) (branches : List β) :
    Scan.scanE hit lastOf branches = some none ↔ Scan.AllMiss hit lastOf branches :=
  Scan.scanE_none_iff hit lastOf branches

/-- the scan raises iff the first position that is not a derivable miss cannot be derived. -/
theorem scan_raises_iff {β : Type} (hit : β → Nat → Option Bool) (lastOf : β → Nat) (branches : List β) :
    Scan.scanE hit lastOf branches = none ↔
      ∃ pre b post i, branches = pre ++ b :: post ∧ Scan.AllMiss hit lastOf pre ∧
        i ≤ lastOf b ∧ hit b i = none ∧ ∀ j, j < i → hit b j = some false :=
  Scan.scanE_raise_iff hit lastOf branches

/-- `RangedWallet.position_of` (BIP32 key wallet, script-template wallet): a script the wallet derives at
    `(b, i)` is answered `(b, i)` when every position scanned before it derives a DIFFERENT script.  Nothing is
    asked of positions after `(b, i)`: they may be underivable (`last_index` past 65535). -/
theorem wallet_position_of_own (spk : Nat → Nat → Option Bytes) (pre post : List Nat) (last b i : Nat) (s : Bytes)
    (hi : i ≤ last) (hs : spk b i = some s)
    (hpre : ∀ b' ∈ pre, ∀ j, j ≤ last → ∃ t, spk b' j = some t ∧ t ≠ s)
    (hbefore : ∀ j, j < i → ∃ t, spk b j = some t ∧ t ≠ s) :
    walletPositionOf spk (pre ++ b :: post) s last = some (some (b, i)) := by
  unfold walletPositionOf
  rw [Scan.scanE_hit_iff]
  refine ⟨pre, post, rfl, ?_, hi, by simp [hs], ?_⟩
  · intro b' hb' j hj
    obtain ⟨t, ht, hne⟩ := hpre b' hb' j hj
    simp [ht, hne]
  · intro j hj
    obtain ⟨t, ht, hne⟩ := hbefore j hj
    simp [ht, hne]

/-- the same under "scripts in range are pairwise distinct" (asked only of positions that derive, so it is
    satisfiable whatever `last` is): every position before `(b, i)` derives, no branch is listed twice before
    `b`, and two derivable positions in range never share a script. -/
theorem wallet_position_of_own_distinct (spk : Nat → Nat → Option Bytes) (pre post : List Nat) (last b i : Nat)
    (s : Bytes) (hi : i ≤ last) (hs : spk b i = some s) (hb : b ∉ pre)
    (hder : (∀ b' ∈ pre, ∀ j, j ≤ last → (spk b' j).isSome = true) ∧ ∀ j, j < i → (spk b j).isSome = true)
    (hd : ∀ b₁ ∈ pre ++ b :: post, ∀ b₂ ∈ pre ++ b :: post, ∀ i₁ i₂ t, i₁ ≤ last → i₂ ≤ last →
      spk b₁ i₁ = some t → spk b₂ i₂ = some t → b₁ = b₂ ∧ i₁ = i₂) :
    walletPositionOf spk (pre ++ b :: post) s last = some (some (b, i)) := by
  have hbm : b ∈ pre ++ b :: post := by simp
  apply wallet_position_of_own spk pre post last b i s hi hs
  · intro b' hb' j hj
    have := hder.1 b' hb' j hj
    cases ht : spk b' j with
    | none => rw [ht] at this; cases this
    | some t =>
      refine ⟨t, rfl, ?_⟩
      rintro rfl
      have := hd b' (List.mem_append_left _ hb') b hbm j i t hj hi ht hs
      exact hb (this.1 ▸ hb')
  · intro j hj
    have := hder.2 j hj
    cases ht : spk b j with
    | none => rw [ht] at this; cases this
    | some t =>
      refine ⟨t, rfl, ?_⟩
      rintro rfl
      have := hd b hbm b hbm j i t (by omega) hi ht hs
      omega

/-- the hypotheses are satisfiable with `last` far past what the wallet can derive, and the raise is what
    btclib does (`BIP32KeyWallet.position_of(script_pub_key(1, 0), last_index=0x10000)`): a wallet that derives
    three indexes per branch, searched to 100. -/
example :
    let spk : Nat → Nat → Option Bytes := fun b i => if i < 3 then some [UInt8.ofNat b, UInt8.ofNat i] else none
    walletPositionOf spk [0, 1] [0, 1] 100 = some (some (0, 1)) ∧       -- found before the scan leaves the range
    walletPositionOf spk [0, 1] [1, 0] 100 = none ∧                     -- branch 0 runs into index 3 first: raise
    walletPositionOf spk [0, 1] [1, 0] 2 = some (some (1, 0)) ∧
    walletPositionOf spk [0, 1] [7, 7] 2 = some none := by
  decide

/-- instances: the BIP32 key wallet and the script-template wallet (branches 0 and 1). -/
theorem bip32_wallet_position_of_own (t : KeyScriptType) (acct : Bip32.XKey) (last b i : Nat) (s : Bytes)
    (pre post : List Nat) (hbr : [0, 1] = pre ++ b :: post) (hi : i ≤ last)
    (hs : bip32WalletSpk E t acct b i = some s)
    (hpre : ∀ b' ∈ pre, ∀ j, j ≤ last → ∃ u, bip32WalletSpk E t acct b' j = some u ∧ u ≠ s)
    (hbefore : ∀ j, j < i → ∃ u, bip32WalletSpk E t acct b j = some u ∧ u ≠ s) :
    walletPositionOf (bip32WalletSpk E t acct) [0, 1] s last = some (some (b, i)) := by
  rw [hbr]; exact wallet_position_of_own _ pre post last b i s hi hs hpre hbefore

theorem script_wallet_position_of_own (t : EmbedType) (order : KeyOrder) (tmpl : List Cmd) (last b i : Nat)
    (s : Bytes) (pre post : List Nat) (hbr : [0, 1] = pre ++ b :: post) (hi : i ≤ last)
    (hs : scriptWalletSpk E t order tmpl b i = some s)
    (hpre : ∀ b' ∈ pre, ∀ j, j ≤ last → ∃ u, scriptWalletSpk E t order tmpl b' j = some u ∧ u ≠ s)
    (hbefore : ∀ j, j < i → ∃ u, scriptWalletSpk E t order tmpl b j = some u ∧ u ≠ s) :
    walletPositionOf (scriptWalletSpk E t order tmpl) [0, 1] s last = some (some (b, i)) := by
  rw [hbr]; exact wallet_position_of_own _ pre post last b i s hi hs hpre hbefore

/-- the hypotheses of `bip32_wallet_position_of_own` inhabited by `bip32WalletSpk E` ITSELF (not a hand-written
    table): the BIP32 key wallet of `Proofs/C14/Toy.lean` — btclib's curve arithmetic on the 31-point curve over F₄₃,
    account key `m/0h` — derives eight distinct p2pkh scripts at `{0,1} × {0..3}` (kernel-evaluated), and the script of
    position (1, 1) is answered (1, 1). -/
example : walletPositionOf (bip32WalletSpk toyE .p2pkh toyAcct) [0, 1] (toyScript 3 37) 3 = some (some (1, 1)) :=
  bip32_wallet_position_of_own toyE .p2pkh toyAcct 3 1 1 (toyScript 3 37) [0] [] rfl (by decide) toy_at
    (fun b' hb' j hj => any_ne (toy_pre b' hb' j hj)) (fun j hj => any_ne (toy_before j hj))

/-! ### `DescriptorWallet`: chains under arbitrary labels

`DescriptorWallet(Mapping[int, Descriptor])` keeps `dict(sorted(by_branch.items()))`; `walletChains` is that dict,
`descWalletNew` the constructor with its refusals, `chainsPositionOf` the scan, which answers the LABEL. -/

/-- the wallet's chains are in ascending label order whatever order the mapping was written in, and the chain under
    a label is the last one the items wrote under it (`dict(items)`); a sequence is labelled `0 … n-1` in order. -/
theorem descriptor_wallet_branches (items : List (Nat × D)) (l : List D) :
    (walletChains items).Pairwise (fun a b => a.1 < b.1) ∧
    (∀ b, (walletChains items).lookup b = items.reverse.lookup b) ∧
    walletChains (enumerateFrom 0 l) = enumerateFrom 0 l ∧
    ∀ k : Nat, (enumerateFrom 0 l)[k]? = (l[k]?).map fun d => (k, d) :=
  ⟨walletChains_ascending items, fun b => lookup_walletChains b items, walletChains_enumerate l,
    fun k => by simpa using enumerateFrom_getElem? l 0 k⟩

example : (walletChains [(7, .raw [1]), (2, .raw [2]), (7, .raw [3]), (0, .raw [4])]).map (·.1) = [0, 2, 7] ∧
    (walletChains [(7, .raw [1]), (2, .raw [2]), (7, .raw [3]), (0, .raw [4])]).lookup 7 = some (.raw [3]) := by
  decide

/-- what `DescriptorWallet.__init__` accepts: at least one item, no negative label, no `combo()`, one network, and a
    first chain (smallest label) that describes exactly one script at index 0; the wallet then holds
    `walletChains` of the items under the network of its descriptors. -/
theorem descriptor_wallet_new_iff (prv : PrvKeys) (items : List (Int × String × D)) (net : String)
    (chains : List (Nat × D)) :
    descWalletNew E prv items = some (net, chains) ↔
      ∃ b0 n0 d0 rest, items = (b0, n0, d0) :: rest ∧
        (∀ x ∈ items, 0 ≤ x.1 ∧ x.2.2.isCombo = false) ∧
        (∀ x ∈ items, descNetwork E x.2.1 x.2.2 = descNetwork E n0 d0) ∧
        net = descNetwork E n0 d0 ∧
        chains = walletChains (items.map fun x => (x.1.toNat, x.2.2)) ∧
        ∃ b d tl s, chains = (b, d) :: tl ∧ scriptPubKey E net prv d 0 = some s := by
  unfold descWalletNew
  cases items with
  | nil => simp
  | cons it rest =>
    obtain ⟨b0, n0, d0⟩ := it
    simp only
    by_cases h1 : (((b0, n0, d0) :: rest).any fun x => decide (x.1 < 0) || x.2.2.isCombo) = true
    · rw [if_pos h1]
      simp only [reduceCtorEq, false_iff, not_exists, not_and]
      rintro b0' n0' d0' rest' e hall
      obtain ⟨x, hx, hbad⟩ := List.any_eq_true.mp h1
      have := hall x hx
      rcases Bool.or_eq_true _ _ |>.mp hbad with hb | hb
      · have : x.1 < 0 := by simpa using hb
        omega
      · rw [this.2] at hb; cases hb
    · rw [if_neg h1]
      have hall : ∀ x ∈ (b0, n0, d0) :: rest, 0 ≤ x.1 ∧ x.2.2.isCombo = false := by
        intro x hx
        have := (List.any_eq_true.not.mp h1)
        have hx' : ¬ ((decide (x.1 < 0) || x.2.2.isCombo) = true) := fun hb => this ⟨x, hx, hb⟩
        simp only [Bool.or_eq_true, decide_eq_true_eq, not_or, Bool.not_eq_true] at hx'
        exact ⟨by omega, hx'.2⟩
      by_cases h2 : (((b0, n0, d0) :: rest).any fun x => descNetwork E x.2.1 x.2.2 != descNetwork E n0 d0) = true
      · rw [if_pos h2]
        simp only [reduceCtorEq, false_iff, not_exists, not_and]
        rintro b0' n0' d0' rest' e _ hnet
        simp only [List.cons.injEq, Prod.mk.injEq] at e
        obtain ⟨⟨-, rfl, rfl⟩, -⟩ := e
        obtain ⟨x, hx, hbad⟩ := List.any_eq_true.mp h2
        have := hnet x hx
        rw [this] at hbad
        exact absurd hbad (by rw [bne_self_eq_false]; decide)
      · rw [if_neg h2]
        have hnet : ∀ x ∈ (b0, n0, d0) :: rest, descNetwork E x.2.1 x.2.2 = descNetwork E n0 d0 := by
          intro x hx
          have hx' : ¬ ((descNetwork E x.2.1 x.2.2 != descNetwork E n0 d0) = true) :=
            fun hb => (List.any_eq_true.not.mp h2) ⟨x, hx, hb⟩
          simpa using hx'
        constructor
        · intro h
          cases hc : walletChains (((b0, n0, d0) :: rest).map fun x => (x.1.toNat, x.2.2)) with
          | nil => rw [hc] at h; cases h
          | cons c tl =>
            obtain ⟨b, d⟩ := c
            rw [hc] at h
            cases hs : scriptPubKey E (descNetwork E n0 d0) prv d 0 with
            | none => simp [hs] at h
            | some s =>
              simp only [hs, Option.map_some, Option.some.injEq, Prod.mk.injEq] at h
              obtain ⟨rfl, rfl⟩ := h
              exact ⟨b0, n0, d0, rest, rfl, hall, hnet, rfl, rfl, b, d, tl, s, rfl, hs⟩
        · rintro ⟨b0', n0', d0', rest', e, _, _, hn, hch, b, d, tl, s, hcons, hs⟩
          simp only [List.cons.injEq, Prod.mk.injEq] at e
          obtain ⟨⟨rfl, rfl, rfl⟩, rfl⟩ := e
          subst hn
          rw [← hch, hcons]
          simp only [hs, Option.map_some]

/-- `DescriptorWallet.position_of`, find-first iff, chains under ANY labels: the answer is `(b, i)` iff the wallet
    holds a chain `d` under label `b` that describes the script at `i` within its own searched range (index 0 only
    when not ranged), does not at any smaller index, every chain under a SMALLER label derives throughout its range
    without describing it — and nothing scanned before raised.  (`chainHit` = does the chain describe the script at
    this index, `none` when the derivation raises; `chainLast` = `last_index` or 0.) -/
theorem descriptor_wallet_position_of_iff (net : String) (prv : PrvKeys) (chains : List (Nat × D)) (s : Bytes)
    (last b i : Nat) :
    chainsPositionOf E net prv chains s last = some (some (b, i)) ↔
      ∃ pre d post, chains = pre ++ (b, d) :: post ∧
        Scan.AllMiss (chainHit E net prv s) (chainLast last) pre ∧
        i ≤ (if d.isRanged then last else 0) ∧
        (∃ l, scriptPubKeys E net prv d i = some l ∧ s ∈ l) ∧
        ∀ j, j < i → ∃ l, scriptPubKeys E net prv d j = some l ∧ s ∉ l :=
  chainsPositionOf_hit_iff E net prv chains s last b i

/-- … "not mine" iff every chain derives throughout its searched range and none describes the script. -/
theorem descriptor_wallet_not_mine_iff (net : String) (prv : PrvKeys) (chains : List (Nat × D)) (s : Bytes)
    (last : Nat) :
    chainsPositionOf E net prv chains s last = some none ↔
      Scan.AllMiss (chainHit E net prv s) (chainLast last) chains :=
  chainsPositionOf_none_iff E net prv chains s last

/-- "returns that position", with labels: the script `DescriptorWallet.script_pub_key(b, i)` answers for a label `b`
    of the wallet (`chains` ascending, as `walletChains` always is) is answered `(b, i)` by `position_of` when `i` is
    in the chain's searched range, every chain under a smaller label derives throughout without describing it, and
    the chain itself derives a different script at every smaller index.  Nothing is asked of larger labels/indexes. -/
theorem descriptor_wallet_position_of_own (net : String) (prv : PrvKeys) (pre post : List (Nat × D)) (d : D)
    (s : Bytes) (last b i : Nat) (hasc : (pre ++ (b, d) :: post).Pairwise (fun a c => a.1 < c.1))
    (hi : i ≤ (if d.isRanged then last else 0))
    (hpre : Scan.AllMiss (chainHit E net prv s) (chainLast last) pre)
    (hbefore : ∀ j, j < i → ∃ l, scriptPubKeys E net prv d j = some l ∧ s ∉ l)
    (hs : chainsScriptPubKey E net prv (pre ++ (b, d) :: post) b i = some s) :
    chainsPositionOf E net prv (pre ++ (b, d) :: post) s last = some (some (b, i)) := by
  rw [chainsPositionOf_hit_iff]
  refine ⟨pre, d, post, rfl, hpre, hi, ?_, hbefore⟩
  have hl := lookup_of_split _ pre post b d hasc rfl
  simp only [chainsScriptPubKey, hl, scriptPubKey] at hs
  cases hsp : scriptPubKeys E net prv d i with
  | none => simp [hsp] at hs
  | some l =>
    rw [hsp] at hs
    match l, hs with
    | [x], hs => exact ⟨[x], rfl, by simp at hs; simp [hs]⟩

/-- a wallet under labels 5 and 2, written in that order: searched 2 first, the LABEL is answered; a label the
    wallet does not hold has no script. -/
example :
    let chains := walletChains [(5, .raw [0xaa]), (2, .raw [0xbb])]
    chainsPositionOf toyE "mainnet" [] chains [0xaa] 9 = some (some (5, 0)) ∧
    chainsPositionOf toyE "mainnet" [] chains [0xbb] 9 = some (some (2, 0)) ∧
    chainsPositionOf toyE "mainnet" [] chains [0xcc] 9 = some none ∧
    chainsScriptPubKey toyE "mainnet" [] chains 5 0 = some [0xaa] ∧
    chainsScriptPubKey toyE "mainnet" [] chains 0 0 = none ∧
    descWalletNew toyE [] [(5, "mainnet", .raw [0xaa]), (-1, "mainnet", .raw [0xbb])] = none ∧
    (descWalletNew toyE [] [(5, "mainnet", .raw [0xaa]), (2, "mainnet", .raw [0xbb])]).map (·.2.map (·.1)) =
      some [2, 5] := by
  decide +kernel

/-! ### `normalized()` (Core's `ToNormalizedString`): re-rooting at the last hardened step

`Model/C14/Normalize.lean` mirrors `normalized` / `_normalized_key` / `_mapped_keys` on C07's `deriveB`, `neuter`,
`serialize`, `fingerprint` and C06's Base58Check; the stream `desc.norm` compares it with btclib, the re-rooting
branch included (real xprvs, secp256k1). -/

/-- `normalized` is idempotent: what it answers is answered unchanged by a second pass, whatever private keys that
    pass is handed (none are needed: after re-rooting no hardened step is left in any path). -/
theorem normalized_idempotent (prv prv' : PrvKeys) (d d' : D) (h : normalized E prv d = some d') :
    normalized E prv' d' = some d' :=
  normalized_idem E prv prv' d d' h

/-- what `_normalized_key` answers for a key: the symbol is the generated `_HARDENING` = `h`; the wildcard is the one
    written; the whole written derivation (origin path followed by the key's path) is the same list of steps, the
    hardened prefix having moved into the origin; and no hardened step is left to re-root at. -/
theorem normalized_key_keeps_written_derivation (prv : PrvKeys) (k k' : Key)
    (h : Key.normalize E prv k = some k') :
    NORMAL_HARD = Hard.h ∧ k'.hard = NORMAL_HARD ∧ k'.wildcard = k.wildcard ∧
    (k'.origin.map (·.path)).getD [] ++ k'.path = (k.origin.map (·.path)).getD [] ++ k.path ∧
    k'.rerooted = false :=
  ⟨by decide, (normalize_result_not_rerooted E prv k k' h).2, (normalize_keeps_derivation E prv k k' h).1,
   (normalize_keeps_derivation E prv k k' h).2, (normalize_result_not_rerooted E prv k k' h).1⟩

/- FULL statement (not proved): for every descriptor, `normalized E prv d = some d'` implies
   `∀ i, scripts E net [] i d' = scripts E net prv i d` (under C01's `Lawful`, C07's bounds and C06's Base58Check
   round trip: CKDpub of the neutered key = neutered CKDpriv along the unhardened rest, C07's `neuter_deriveB`).
   Proved below for the descriptors none of whose keys is re-rooted (fixed keys, extended keys whose path hardens
   nothing, `/*h` wildcards): there `normalized` cannot refuse, changes the symbol only, and the scripts at every
   index, under every `prv_keys`, are the same.  MISSING: the re-rooted keys (the link decodeXkey ∘ encodeXkey and
   `neuter_deriveB` through `Key.sec`); on those the equality is checked on the real code (oracle `normalized`) and
   the normalized TEXT against the model (stream `desc.norm`). -/
theorem normalized_same_scripts_partial (net : String) (prv prv' : PrvKeys) (d : D)
    (h : ∀ k ∈ d.keys, k.rerooted = false) :
    normalized E prv d = some (d.mapKeys (Key.withHard NORMAL_HARD)) ∧
    ∀ i, scripts E net prv' i (d.mapKeys (Key.withHard NORMAL_HARD)) = scripts E net prv' i d :=
  normalized_not_rerooted E net prv prv' d h

/-- `sh(multi(1, x/1/*', 02…))` written with `'`: normalized with no private key at hand, answered with `h`, and
    answered unchanged the second time; a key with a hardened step and no private key is refused. -/
example :
    let k : Key := { origin := none, atom := .xkey ['x'], path := [1], wildcard := some true, hard := .apos }
    let f : Key := { (Key.fixed (2 :: List.replicate 32 9)) with hard := .apos }
    normalized toyE [] (.sh (.multi 1 [k, f] false)) =
      some (.sh (.multi 1 [{ k with hard := .h }, { f with hard := .h }] false)) ∧
    normalized toyE [] (.sh (.multi 1 [{ k with hard := .h }, { f with hard := .h }] false)) =
      some (.sh (.multi 1 [{ k with hard := .h }, { f with hard := .h }] false)) ∧
    (∀ k' ∈ (D.sh (.multi 1 [k, f] false)).keys, k'.rerooted = false) ∧
    normalized toyE [] (.pk { k with path := [HARDENED_OFFSET + 1, 7], wildcard := some false }) = none ∧
    Key.rerooted { k with path := [HARDENED_OFFSET + 1, 7], wildcard := some false } = true := by
  decide +kernel

end T3


/-! ## `core_import`: the ranges handed to and read back from Bitcoin Core

`Model/C14/CoreImport.lean` mirrors `_assert_key_range`, `_range_fields`, the guards of `import_request`, `_comparable`,
`widened_range`, and — over decoded JSON values `J`, through the guards `fields_from_json_object` /
`list_from_json_array` / `int_from_json_number` — `watched_range` and `assert_imported`.  DEFAULT_RANGE,
_MAX_RANGE_SPAN and the shift of `end >> 31` are regenerated from `btclib/core_import.py` each run. -/
section CoreImport
open Btc.CoreImport Gen.Descriptor

/-- `_assert_key_range` accepts exactly Core's `ParseDescriptorRange` ranges, with the constants of the current source:
    `0 ≤ start ≤ end < 2^31`, fewer than a million indexes between the ends; DEFAULT_RANGE is one. -/
theorem core_key_range_iff (r : Range) :
    (keyRangeOk r = true ↔ 0 ≤ r.1 ∧ r.1 ≤ r.2 ∧ r.2 < 2 ^ 31 ∧ r.2 - r.1 < 1000000) ∧
    CORE_DEFAULT_RANGE = (0, 999) ∧ keyRangeOk CORE_DEFAULT_RANGE = true := by
  refine ⟨?_, by decide, by decide⟩
  have h1 : (2 : Int) ^ CORE_END_SHIFT = 2 ^ 31 := by decide
  have h2 : CORE_MAX_RANGE_SPAN = 1000000 := by decide
  simp only [keyRangeOk, Bool.and_eq_true, decide_eq_true_eq, h1, h2]
  constructor
  · rintro ⟨⟨⟨a, b⟩, c⟩, d⟩; exact ⟨a, b, c, d⟩
  · rintro ⟨a, b, c, d⟩; exact ⟨⟨⟨a, b⟩, c⟩, d⟩

/-- `widened_range` never narrows: what it answers contains the range wanted AND the range watched (DEFAULT_RANGE for a
    descriptor the wallet does not hold), and asking again with the answer as the watched range changes nothing — the
    second import of a descriptor is idempotent. -/
theorem core_widened_range_never_narrows (wanted : Range) (watched : Option Range) (r : Range)
    (h : widenedRange wanted watched = some r) :
    r.1 ≤ wanted.1 ∧ wanted.2 ≤ r.2 ∧
      r.1 ≤ (watched.getD CORE_DEFAULT_RANGE).1 ∧ (watched.getD CORE_DEFAULT_RANGE).2 ≤ r.2 ∧
      widenedRange wanted (some r) = some r :=
  have hc := widenedRange_covers wanted watched r h
  ⟨hc.1, hc.2.1, hc.2.2.1, hc.2.2.2, widenedRange_idem wanted watched r h⟩

example : widenedRange (5, 2000) (some (0, 999)) = some (0, 2000) ∧ widenedRange (5, 20) none = some (0, 999) ∧
    widenedRange (20, 5) none = none ∧ widenedRange (0, 1000000) none = none := by decide

/-- `watched_range` on a reply shaped as `listdescriptors` documents it (one object per descriptor with its `desc` and,
    when ranged, its `range`): nothing is refused and the answer is the union of the ranges of the entries holding the
    same expression (checksum and hardening spelling aside) — the smallest range containing each, both ends attained —
    and `None` exactly when no ranged entry holds it. -/
theorem core_watched_range_is_union (d : List Char) (es : List Entry) :
    watchedRangeJ d (replyOf es) = .ok (watchedRange d es) ∧
    (∀ r, watchedRange d es = some r →
      (∀ x ∈ matching d es, r.1 ≤ x.1 ∧ x.2 ≤ r.2) ∧ (∃ x ∈ matching d es, x.1 = r.1) ∧ (∃ x ∈ matching d es, x.2 = r.2)) ∧
    (watchedRange d es = none ↔ matching d es = []) :=
  ⟨watchedRangeJ_replyOf d es, fun r h => unionOf_spec _ r (by rw [← watchedRange_eq_unionOf]; exact h),
    watchedRange_none_iff d es⟩

/-- `watched_range` on ANY decoded reply (hostile ones included): it answers only when the reply is an object whose
    `descriptors` is an array every entry of which reads through the guards, and then with the union of the collected
    ranges; every other reply is a BTClibTypeError / BTClibValueError (the model has no other outcome — that the REAL
    function has none either is the `core.watched` stream and the `core.hostile` oracle). -/
theorem core_watched_range_on_any_reply (d : List Char) (reply : J) (o : Option Range)
    (h : watchedRangeJ d reply = .ok o) :
    ∃ kv ds l rs, reply = .obj kv ∧ kv.lookup "descriptors".toList = some ds ∧ ds = .arr l ∧
      collectRanges (comparable d) l = .ok rs ∧ o = unionOf rs ∧
      ∀ r, o = some r → (∀ x ∈ rs, r.1 ≤ x.1 ∧ x.2 ≤ r.2) ∧ (∃ x ∈ rs, x.1 = r.1) ∧ (∃ x ∈ rs, x.2 = r.2) := by
  obtain ⟨kv, ds, l, rs, h1, h2, h3, h4, h5⟩ := watchedRangeJ_ok d reply o h
  exact ⟨kv, ds, l, rs, h1, h2, h3, h4, h5, fun r hr => unionOf_spec rs r (by rw [← h5, hr])⟩

/-- hostile replies of the audit: a 5000-digit bound, a one-element range, an entry without `desc`, a reply that is
    not an object — each refused with the library's own exception class. -/
example :
    let big : J := .str (List.replicate 5000 '9')
    let entry (r : J) : J := .obj [("desc".toList, .str "pk(x)".toList), ("range".toList, r)]
    let reply (e : J) : J := .obj [("descriptors".toList, .arr [e])]
    watchedRangeJ "pk(x)".toList (reply (entry (.arr [big, .str ['5']]))) = .error .value ∧
    watchedRangeJ "pk(x)".toList (reply (entry (.arr [.int 1]))) = .error .value ∧
    watchedRangeJ "pk(x)".toList (reply (.obj [])) = .error .value ∧
    watchedRangeJ "pk(x)".toList (.arr []) = .error .type ∧
    watchedRangeJ "pk(x)".toList (reply (entry (.arr [.bool true, .int 3]))) = .error .type ∧
    watchedRangeJ "pk(x)".toList (reply (entry (.arr [.float none, .int 3]))) = .error .value ∧
    watchedRangeJ "pk(x)#abc".toList (reply (entry (.arr [.str ['7'], .float (some 9)]))) = .ok (some (7, 9)) ∧
    watchedRangeJ "pk(y)".toList (reply (entry (.arr [.int 1]))) = .ok none := by
  decide +kernel

/-- `assert_imported` passes exactly when both arguments are arrays of the same length, every request and every answer
    is an object, and every answer's `success` is truthy; a length mismatch or an answer not honoured is a
    BTClibRuntimeError, a wrong shape a BTClibTypeError. -/
theorem core_assert_imported_iff (requests answers : J) :
    assertImportedJ requests answers = .ok () ↔
      ∃ rq an, requests = .arr rq ∧ answers = .arr an ∧ rq.length = an.length ∧ ∀ p ∈ rq.zip an, Honoured p := by
  unfold assertImportedJ
  cases requests with
  | arr rq =>
    cases answers with
    | arr an =>
      simp only [J.list, bind, Except.bind]
      by_cases hl : rq.length = an.length
      · simp only [hl, ne_eq, not_true_eq_false, if_false, importedLoop_ok_iff]
        constructor
        · intro h; exact ⟨rq, an, rfl, rfl, hl, h⟩
        · rintro ⟨rq', an', e1, e2, _, h⟩; cases e1; cases e2; exact h
      · simp only [ne_eq, hl, not_false_eq_true, if_true, reduceCtorEq, false_iff, not_exists, not_and]
        rintro rq' an' e1 e2 hl'; cases e1; cases e2; exact absurd hl' hl
    | _ => simp [J.list, bind, Except.bind]
  | _ => simp [J.list, bind, Except.bind]

example : assertImportedJ (.arr [.obj []]) (.arr [.obj [("success".toList, .bool true)]]) = .ok () ∧
    assertImportedJ (.arr [.obj []]) (.arr [.obj [("success".toList, .bool false)]]) = .error .runtime ∧
    assertImportedJ (.arr [.obj []]) (.arr []) = .error .runtime ∧
    assertImportedJ (.arr [.obj []]) (.arr [.int 1]) = .error .type := by decide +kernel

end CoreImport

end Props.C14
