/-!
# C14 — property theorems only (see DESIGN.md §3 C14).
-/
namespace Props.C14

end Props.C14
