/-!
# C04 — property theorems only (see DESIGN.md §3 C04).
-/
namespace Props.C04

end Props.C04
