import Model.C04.Domain
import Model.C04.Verdict
import Model.C04.Verdict2
import Model.C04.Derived
import Model.C04.Refusal
import Proofs.C04.Switch
import Model.C04.Switch
/-!
# C04 — the libsecp256k1 and pure-Python backends are observationally identical (DESIGN.md §3 C04)

"A ≡ B on all inputs" is decided as "A ≡ M and B ≡ M" for the backend-free model M of the other properties; the two
arms are tied to M and to each other by the dual-arm streams of harness/c04.py.  What Lean adds for C04:

* **T1** every delegation site found in the source (Generated/BackendSites.lean, regenerated each run): the generated
  guard, with the facts its preceding validating statements establish, gives the bindings' documented domain, or the
  call stands inside a handler that translates the bindings' refusal.  Widening a guard, dropping a `% ec.n` /
  `require_on_curve` / `scalar_from_prv_key`, or removing a handler breaks the obligation.
* **T2** verdict tables.  HONEST STATUS: for most APIs `py` and `bind` are two HAND-WRITTEN tables (Model/C04/Verdict*.lean)
  and `*_agrees` is the bookkeeping of a per-class differential test: the content is that the `verdict.*` streams run one
  representative input of every class on each arm of the real code and find the table's entry; the Lean equality then
  only records that no class was found on which the arms differ (for silent-payment scanning: that exactly one was).
  Deductive content exists for THREE curve-level entry points (`mult`, `bytes_from_prv_key_int`, `diffie_hellman`):
  their bindings-arm outcome is COMPUTED from the generated guards, the generated established facts and the C entry
  point's documented contract (Model/C04/Derived.lean) and proved equal to the Python arm's table
  (`*_bind_derived_agrees`): a widened guard or a dropped fact breaks the equality.  `_tweak_add_var` is derived the
  same way but its agreement holds for ANY guard (`tweak_add_any_guard_agrees`): the handler, not the guard, carries it.
* **T4** the dispatch inventory and exception classes.  `consulting` (generated) lists every function of the installed
  package whose body consults the dispatch; `inventory_modelled` / `inventory_sites_are_the_table` say each is a site of
  the generated table, the inside of a delegation or the dispatch core.  `refusal_class_agrees`: per site and per way of
  being outside the C entry point's domain, the class the bindings arm answers — computed by unwinding the GENERATED
  handlers (`SiteId.handlers`) — equals the class the Python arm answers (hand-written column, tied by `refusal.class`).
* **T3** the switch writes the flag and nothing else: the code fact is `set_serving_writes_only_the_flag` (names read off
  the AST); lemmas about the hand-written state-machine model are in Proofs/C04/Switch.lean and are not counted here.
-/
namespace Props.C04
open Gen.Backend Gen.BackendSites Btc.C04

/-! ## T1 — generated guards imply the bindings' domain -/

/-- the translated dispatch predicate is `flag ∧ ec = secp256k1 ∧ hf ∈ {None, sha256}` -/
theorem serves_spec (flag ecNot hfOk : Bool) :
    libsecp256k1_serves flag ecNot hfOk = (flag && !ecNot && hfOk) := by
  cases flag <;> cases ecNot <;> cases hfOk <;> rfl

/-- every delegation site: established facts ∧ generated guard → bindings' domain, or the refusal is handled.
(At the sites whose call stands inside a handler this is true by the handler alone; what the guard itself gives is
`domain_from_guard_alone`, and where the handler is really needed `handler_sites_need_their_handler`.) -/
theorem guard_implies_domain (s : SiteId) (x : Atoms) : siteOK s x = true := by
  cases s <;> simp only [siteOK, pre, served, scalar1, scalar2, point1, point2] <;> unfold_sites <;> grind

/-- sites with NO handler around the call: the guard alone (with the established facts) gives the domain -/
theorem unhandled_sites_strict (s : SiteId) (x : Atoms) (h : s.catches = false) : siteStrict s x = true := by
  revert h
  cases s <;> simp only [siteStrict, pre, served, scalar1, scalar2, point1, point2] <;> unfold_sites <;> grind

/-- coverage, sharper than `unhandled_sites_strict`: outside the thirteen listed sites the domain follows from the guard
and the established facts alone, handler or not -/
theorem domain_from_guard_alone (s : SiteId) (x : Atoms) (h : s ∉ handlerNeeded) : siteStrict s x = true := by
  cases s <;> first
    | exact absurd (by decide) h
    | (simp only [siteStrict, pre, served, scalar1, scalar2, point1, point2]; unfold_sites; grind)

/-- and at each of the thirteen (`dsa.sign_` among them: its `pub_key=` goes over as unproven octets) the handler is really what carries it: the call stands inside one, and an input outside
the domain passes the guard -/
theorem handler_sites_need_their_handler :
    ∀ s ∈ handlerNeeded, s.catches = true ∧ outsideDomain.any (fun x => !siteStrict s x) = true := by decide

/-- with the switch off, no site that ASKS THE PREDICATE delegates.  What still delegates: the three held-object sites
(`_TweakChain.point`, `dsa.Signer.sign_`, `ssa.Signer.sign_` dispatch on an object built while the bindings served —
the arm is captured at construction, so a Signer built before `set_libsecp256k1_serving(serving=False)` keeps calling
libsecp256k1), and the two calls inside a delegation already decided.  That the held objects' ANSWERS equal the other
arm's all the same is not a theorem: it is checked on the real code by the oracle `held_object`. -/
theorem switched_off_only_held_objects_delegate (s : SiteId) (x : Atoms) (hoff : x.flag = false) (hg : s.guard x = true) :
    s ∈ heldObjectSites ++ insideSites := by
  revert hg
  cases s <;> unfold_sites <;> simp [hoff, heldObjectSites, insideSites]

/-- every site that is asked about the caller's curve (`SiteId.takesEc`, emitted by the translator from the argument
of `_libsecp256k1_serves`) declines another curve -/
theorem other_curve_no_delegation (s : SiteId) (x : Atoms) (ht : s.takesEc = true) (hec : x.ec_is_secp256k1 = false) :
    s.guard x = false := by
  revert ht
  cases s <;> simp only [SiteId.takesEc] <;> unfold_sites <;> simp [hec]

/-- "scalar in 1..n-1": a residue `m % n` that is not zero is in the bindings' scalar domain -/
theorem reduced_nonzero_in_range (m n : Int) (hn : 0 < n) (h : m % n ≠ 0) : 1 ≤ m % n ∧ m % n ≤ n - 1 := by
  have h0 := Int.emod_nonneg m (Int.ne_of_gt hn)
  have h1 := Int.emod_lt_of_pos m hn
  omega

example : siteStrict .double_mult__libsecp256k1_multi_mult
    { (Atoms.ofBits (List.replicate 40 true)) with s1_nonzero := true } = true := by decide
example : (SiteId.mult_checked__libsecp256k1_multi_mult).guard (Atoms.ofBits (List.replicate 40 true)) = false := by decide
example : (SiteId.dh__pubkey_tweak_mul).guard { (Atoms.ofBits (List.replicate 40 true)) with p1_is_generator := false } = true := by
  decide

/-! ## T2 — verdict tables -/

/-- `mult` / `PreparedPoint.mult`: agreement on every class.  The class `xOutOfRange` (x = x₀ + k·p) is kept in the
lattice: until fix d8821600 it was the one class on which the arms differed (bindings arm: foreign `OverflowError`) -/
theorem mult_agrees (m : Scalar) (q : Point) : Mult.py m q = Mult.bind m q := by
  cases m <;> cases q <;> rfl
/-- why that fix is the right one: the arms agree on `xOutOfRange` BECAUSE `require_on_curve` refuses it first — the
bindings arm itself still has no answer for it -/
theorem mult_x_out_of_range_refused_before_dispatch (m : Scalar) :
    Point.requireOnCurve .xOutOfRange = some .errValue ∧ Mult.bind m .xOutOfRange = .errValue := by
  cases m <;> decide

/-- deductive: the bindings-arm outcome computed from the two GENERATED guards of `_mult_checked`, the facts its callers
establish and the C contract equals the Python arm on every class -/
theorem mult_bind_derived_agrees (m : Scalar) (q : Point) : Mult.bindDerived m q = Mult.py m q := by
  cases m <;> cases q <;> decide
/-- … and the hand-written table says the same (the `verdict.mult` stream compares the real code with `bindDerived`) -/
theorem mult_bind_table_is_derived (m : Scalar) (q : Point) : Mult.bind m q = Mult.bindDerived m q := by
  cases m <;> cases q <;> decide
theorem pubkey_bind_derived_agrees (q : Scalar) : PubKey.bindDerived q = PubKey.py q ∧ PubKey.bind q = PubKey.bindDerived q := by
  cases q <;> decide
theorem dh_bind_derived_agrees (d : Scalar) (q : Point) : Dh.bindDerived d q = Dh.py d q ∧ Dh.bind d q = Dh.bindDerived d q := by
  cases d <;> cases q <;> decide
/-- NOT an obligation on the guard: `_tweak_add_var`'s call stands inside `suppress(ValueError)`, so the bindings arm
agrees with the Python arm for EVERY dispatch guard — widening it changes speed, not answers (the former
`tweak_add_bind_derived_agrees` was the instance `g :=` the generated guard of this statement and is no longer counted:
THREE tables are derived from the guards, not four).  What the statement does depend on is the established
`require_on_curve` (`factsOf` reads it off the generated `.established`: if `_tweak_add_var` stops calling it the atom is
false and the valid-point classes answer `errForeign`).  A WIDENED `_tweak_add_var` guard is caught elsewhere: the site is
not in `handlerNeeded`, so `domain_from_guard_alone` demands the domain of its guard and established facts alone. -/
theorem tweak_add_any_guard_agrees (g : Atoms → Bool) (t : Tweak) (p : Point) :
    TweakAdd.bindWith g t p = TweakAdd.py t p := by
  cases t <;> cases p <;>
    simp only [TweakAdd.bindWith, TweakAdd.py, Point.requireOnCurve] <;> (try rfl) <;>
    (split <;> first | rfl | (simp only [atomsScalarPoint, factsOf] <;> decide))

theorem tweak_add_agrees (t : Tweak) (p : Point) : TweakAdd.py t p = TweakAdd.bind t p := by
  cases t <;> cases p <;> rfl

theorem pubkey_agrees (q : Scalar) : PubKey.py q = PubKey.bind q := by cases q <;> rfl

/-- `diffie_hellman` (fix 89eda414: the guard reads `QV[1]`): agreement on every class, infinity included -/
theorem dh_agrees (d : Scalar) (q : Point) : Dh.py d q = Dh.bind d q := by
  cases d <;> cases q <;> rfl
theorem dh_infinity_is_runtime_error (d : Scalar) : Dh.bind d .infinity = .errRuntime := by
  cases d <;> decide

theorem point_from_octets_agrees (hyb : Bool) (k : Sec) : PointFromOctets.py hyb k = PointFromOctets.bind hyb k := by
  cases hyb <;> cases k <;> rfl

/-- `dsa.assert_as_valid_`: agreement on every class; a hybrid-prefixed key is refused by both arms (fix 8f6c8cd5: before
it the octets reached `ec_pubkey_parse` unproven and the bindings arm accepted them) -/
theorem dsa_assert_agrees (m : MsgLen) (k : Key) (s : DsaSig) : DsaAssert.py m k s = DsaAssert.bind m k s := by
  cases m <;> cases k <;> cases s <;> rfl
theorem dsa_assert_hybrid_refused (m : MsgLen) (s : DsaSig) : DsaAssert.bind m .hybrid s = .errValue := by
  cases m <;> cases s <;> rfl

/-- the engine's exported wrapper: agreement on every class, the high-s form included (fix 6426fb77) -/
theorem engine_dsa_agrees (m : MsgLen) (k : EngineDsa.EKey) (s : DsaSig) : EngineDsa.py m k s = EngineDsa.bind m k s := by
  cases m <;> cases k <;> cases s <;> rfl

theorem dsa_sign_agrees (q : Scalar) (m : MsgLen) (k : PubArg) : DsaSign.py q m k = DsaSign.bind q m k := by
  cases q <;> cases m <;> cases k <;> rfl

theorem ssa_sign_agrees (q : Scalar) (aux : MsgLen) : SsaSign.py q aux = SsaSign.bind q aux := by
  cases q <;> cases aux <;> rfl

theorem recover_agrees (kid : KeyId) (m : MsgLen) (s : DsaSig) : Recover.py kid m s = Recover.bind kid m s := by
  cases kid <;> cases m <;> cases s <;> rfl

theorem ssa_assert_agrees (k : XKey) (s : SsaSig) : SsaAssert.py k s = SsaAssert.bind k s := by
  cases k <;> cases s <;> rfl

/-! ### second batch (Model/C04/Verdict2.lean) -/

theorem tap_outroot_agrees (k : XKey) : TapOutRoot.py k = TapOutRoot.bind k := by cases k <;> rfl
theorem tap_outpub_agrees (k : Sec) : TapOutPub.py k = TapOutPub.bind k := by cases k <;> rfl
theorem tap_prv_agrees (q : Scalar) : TapPrv.py q = TapPrv.bind q := by cases q <;> rfl
theorem tap_check_agrees (q : QKey) (c : Control) : TapCheck.py q c = TapCheck.bind q c := by
  cases q <;> cases c <;> rfl

theorem bip32_step_agrees (ch : Chain) (i : ChildIndex) (il : IL) : Bip32.py ch i il = Bip32.bind ch i il := by
  cases ch <;> cases i <;> cases il <;> rfl

theorem musig_partial_verify_agrees (m : MsgLen) (s : PSig) (r : PubNonce) (k : SignerKey) :
    Musig.py s r k = Musig.bind m s r k := by
  cases m <;> cases s <;> cases r <;> cases k <;> rfl

theorem ellswift_agrees (q : Scalar) (a b : EllLen) (p : Party) (k : Sec) :
    Ell.createPy q = Ell.createBind q ∧ Ell.decodePy a = Ell.decodeBind a ∧ Ell.xdhPy a b p q = Ell.xdhBind a b p q
      ∧ Ell.encodePy k = Ell.encodeBind k := by
  refine ⟨?_, ?_, ?_, ?_⟩
  · cases q <;> rfl
  · cases a <;> rfl
  · cases a <;> cases b <;> cases p <;> cases q <;> rfl
  · cases k <;> rfl

theorem commit_nonce_agrees (k : Scalar) (c : Bool) : Commit.py k c = Commit.bind k c := by
  cases k <;> cases c <;> rfl

theorem sp_output_keys_agrees (k : KeySum) (a : Addresses) : SpOut.py k a = SpOut.bind k a := by
  cases k <;> cases a <;> rfl

theorem engine_ssa_agrees (k : XKey) (s : SsaSig) : EngineSsa.py k s = EngineSsa.bind k s := by
  cases k <;> cases s <;> rfl

theorem tx_verdict_agrees (v : TxVector) : TxVerdict.py v = TxVerdict.bind v := by cases v <;> rfl

/- a zero-padded spelling of the output key is ACCEPTED on both arms (integer comparison; pinned by btclib's tests) -/
example : TapCheck.py .zeroPadded .valid = .true_ ∧ TapCheck.bind .zeroPadded .valid = .true_
    ∧ TapCheck.bind .otherValue .valid = .false_ := by decide
example : TapCheck.bind .len32 .parityFlipped = .false_ ∧ Bip32.py .prv .hardened .cancels = .errValue := by decide
example : Musig.bind .len32 .valid .valid .foreign = .errValue ∧ Commit.bind .inRange true = .errRuntime := by decide

/-- silent-payment scanning: the negation of agreement, with its witness class (finding
`sp.scan.offcurve_backend_divergence`), and agreement everywhere else — the empty list included (fix 9a0d5101) -/
theorem sp_scan_diverges : ∃ c, SpScan.py c ≠ SpScan.bind c := ⟨.notX, by decide⟩
theorem sp_scan_diverges_exactly (c : SpOutput) : SpScan.py c ≠ SpScan.bind c ↔ c = .notX := by
  cases c <;> decide
theorem sp_scan_empty_agrees : SpScan.py .none_ = SpScan.bind .none_ := rfl

example : Mult.py .inRange .valid = .value ∧ Mult.bind .negative .offCurve = .errValue := by decide
example : DsaAssert.py .len32 .valid .highS = .value ∧ DsaAssert.bind .len32 .valid .wrong = .errRuntime := by decide
example : SpScan.py .notX = .value ∧ SpScan.bind .notX = .errValue := by decide

/-! ## T4 — the inventory of dispatch-consulting functions, and exception-class equality per site -/

/-- every function of the installed package whose body consults the dispatch (the predicate, the flag, a name imported
from `btclib._libsecp256k1`, a private delegate, an attribute holding a bindings object — enumerated by AST over EVERY
module, tools/specs/backend.py `consulting_functions`) is modelled: a delegation site of the generated table, the inside
of a delegation, or the dispatch core.  (The translator also refuses to generate when one is not; this is the same fact
as an obligation over what it generated.) -/
theorem inventory_modelled :
    consulting.all (fun f => f.2 == "site" || f.2 == "inside" || f.2 == "core") = true := by decide +kernel

/-- the functions marked `site` are exactly the functions the generated guards were read from -/
theorem inventory_sites_are_the_table :
    (∀ s ∈ SiteId.all, consulting.contains (s.source.1, "site") = true) ∧
    (∀ f ∈ consulting, f.2 = "site" → SiteId.all.any (fun s => s.source.1 == f.1) = true) := by decide +kernel

/-- exception-class equality per site: at every site, for every way its input can be outside the C entry point's domain
while passing the generated guard (and for every refusal of a RESULT: zero / infinity / no point), what the bindings arm
answers — computed from the GENERATED handlers by unwinding them — is the class the Python arm answers on that class of
input.  One exception, the recorded finding `sp.scan.offcurve_backend_divergence`. -/
theorem refusal_class_agrees :
    ∀ e ∈ refusalTable, e.isSpScanNotX = false → refusalOutcome e.site e.py = e.py := by decide +kernel
/-- … and on that one the handlers give `BTClibValueError` where the Python arm answers a value -/
theorem refusal_sp_scan_diverges :
    ∀ e ∈ refusalTable, e.isSpScanNotX = true → refusalOutcome e.site e.py = .errValue ∧ e.py = .value := by decide +kernel
/-- the table misses nothing T1 knows of: every (handler-needed site, out-of-domain vector the guard lets through) has a row -/
theorem refusal_table_complete :
    ∀ s ∈ handlerNeeded, ∀ i ∈ List.range outsideNames.length,
      siteStrict s (outsideDomain.getD i (allTrueBut [])) = false →
      refusalTable.any (fun e => e.site == s && e.atom == outsideNames.getD i "") = true := by decide +kernel
/-- a site whose refusal is NOT handled answers with a foreign exception: that is why T1 demands the domain of its guard -/
theorem unhandled_refusal_is_foreign (s : SiteId) (pyc : Outcome) (h : s.catches = false) :
    refusalOutcome s pyc = .errForeign := by
  revert h
  cases s <;> simp [refusalOutcome, SiteId.handlers, SiteId.catches, escape] <;> unfold_sites <;> simp

/- non-vacuity: a handler-needed site with an out-of-domain vector its guard lets through (hypothesis of
`refusal_table_complete`), a non-divergent and the divergent row (hypotheses of the two refusal theorems), a site with no
handler (hypothesis of `unhandled_refusal_is_foreign`), a `site` row of the inventory -/
example : .dsa_assert_as_valid__verify ∈ handlerNeeded
    ∧ siteStrict .dsa_assert_as_valid__verify (outsideDomain.getD 0 (allTrueBut [])) = false := by decide
example : (refusalTable.getD 4 ⟨.x_octets__return, "", "", .value⟩).isSpScanNotX = false
    ∧ (refusalTable.getD 17 ⟨.x_octets__return, "", "", .value⟩).isSpScanNotX = true := by decide
example : SiteId.catches .dh__pubkey_tweak_mul = false ∧ refusalOutcome .dh__pubkey_tweak_mul .value = .errForeign := by decide
example : consulting.contains ("btclib.curves.curve._jac_double_mult", "site") = true := by decide +kernel
example : refusalOutcome .dsa_recover_pub_keys__libsecp256k1_recover_point .value = .value
    ∧ refusalOutcome .commit_nonce__prvkey_tweak_add .errRuntime = .errRuntime
    ∧ refusalOutcome .engine_dsa_verify__libsecp256k1_dsa_verify .false_ = .false_ := by decide

/-! ## T3 — the switch writes the flag and nothing else -/

/-- read off the source: the only name declared `global` and the only assignment target is the flag -/
theorem set_serving_writes_only_the_flag :
    setServingGlobals = ["_libsecp256k1_available"] ∧ setServingAssigned = ["_libsecp256k1_available"] := by
  decide

example : isServing (runHistory true (⟨false, ()⟩ : PkgState Unit) [true, false, true]) = true := by decide

end Props.C04
