import Model.C04.Domain
import Model.C04.Verdict
import Model.C04.Verdict2
import Model.C04.Switch
/-!
# C04 — the libsecp256k1 and pure-Python backends are observationally identical (DESIGN.md §3 C04)

"A ≡ B on all inputs" is decided as "A ≡ M and B ≡ M" for the backend-free model M of the other properties; the two
arms are tied to M and to each other by the dual-arm streams of harness/c04.py.  What Lean adds for C04:

* **T1** every delegation site found in the source (Generated/BackendSites.lean, regenerated each run): the generated
  guard, with the facts its preceding validating statements establish, gives the bindings' documented domain, or the
  call stands inside a handler that translates the bindings' refusal.  Widening a guard, dropping a `% ec.n` /
  `require_on_curve` / `scalar_from_prv_key`, or removing a handler breaks the obligation.
* **T2** verdict tables: per dual-path API, `py c = bind c` for every class `c` of the finite lattice — or, where the
  divergence is real (silent-payment scanning of an output that is no x-coordinate), the exact set of classes on which
  the arms differ, replayed on the real code by the harness under its finding key.  Four more divergences found while
  building (x outside 0..p-1, hybrid keys, the engine wrapper's high s, ECDH at infinity) were repaired in /repo; their
  classes stay in the lattice and the theorems now state agreement on them.
* **T3** the switch writes the flag and nothing else.
-/
namespace Props.C04
open Gen.Backend Gen.BackendSites Btc.C04

/-! ## T1 — generated guards imply the bindings' domain -/

/-- the translated dispatch predicate is `flag ∧ ec = secp256k1 ∧ hf ∈ {None, sha256}` -/
theorem serves_spec (flag ecNot hfOk : Bool) :
    libsecp256k1_serves flag ecNot hfOk = (flag && !ecNot && hfOk) := by
  cases flag <;> cases ecNot <;> cases hfOk <;> rfl

/-- every delegation site: established facts ∧ generated guard → bindings' domain, or the refusal is handled -/
theorem guard_implies_domain (s : SiteId) (x : Atoms) : siteOK s x = true := by
  cases s <;> simp only [siteOK, pre, served, scalar1, scalar2, point1, point2] <;> unfold_sites <;> grind

/-- sites with NO handler around the call: the guard alone (with the established facts) gives the domain -/
theorem unhandled_sites_strict (s : SiteId) (x : Atoms) (h : s.catches = false) : siteStrict s x = true := by
  revert h
  cases s <;> simp only [siteStrict, pre, served, scalar1, scalar2, point1, point2] <;> unfold_sites <;> grind

/-- coverage, sharper than `unhandled_sites_strict`: outside the twelve listed sites the domain follows from the guard
and the established facts alone, handler or not -/
theorem domain_from_guard_alone (s : SiteId) (x : Atoms) (h : s ∉ handlerNeeded) : siteStrict s x = true := by
  cases s <;> first
    | exact absurd (by decide) h
    | (simp only [siteStrict, pre, served, scalar1, scalar2, point1, point2]; unfold_sites; grind)

/-- and at each of the twelve the handler is really what carries it: the call stands inside one, and an input outside
the domain passes the guard -/
theorem handler_sites_need_their_handler :
    ∀ s ∈ handlerNeeded, s.catches = true ∧ outsideDomain.any (fun x => !siteStrict s x) = true := by decide

/-- with the switch off no dispatch site delegates; the three exceptions are the INSIDE of a delegation already made
(an object built, or a helper entered, while the bindings served) -/
theorem switched_off_no_delegation (s : SiteId) (x : Atoms) (hoff : x.flag = false) (hg : s.guard x = true) :
    s = .tweak_chain_point__tweak_add ∨ s = .sp_delegated_scan_outputs__prevouts_summary
      ∨ s = .sp_delegated_scan_outputs__scan_outputs := by
  revert hg
  cases s <;> unfold_sites <;> simp [hoff]

/-- another curve is never delegated -/
theorem other_curve_no_delegation (s : SiteId) (x : Atoms) (hec : x.ec_is_secp256k1 = false) (hg : s.guard x = true) :
    s.source.1 ∉ ["btclib.curves.curve._x_octets", "btclib.curves.curve._is_x_coordinate_var",
      "btclib.curves.curve._y_even_var", "btclib.curves.curve._multi_mult_x_only_var", "btclib.curves.curve._mult_checked",
      "btclib.curves.curve.double_mult_var", "btclib.curves.curve._sum_var", "btclib.curves.curve._tweak_add_var",
      "btclib.curves.curve._TweakChain.__init__", "btclib.curves.curve.multi_mult_var",
      "btclib.curves.sec_point.bytes_from_prv_key_int", "btclib.curves.sec_point._mult_sec_var",
      "btclib.curves.sec_point._sec_from_octets", "btclib.ecc.dsa.sign_", "btclib.ecc.dsa.sign_recoverable_",
      "btclib.ecc.dsa.assert_as_valid_", "btclib.ecc.dsa.recover_pub_keys_", "btclib.ecc.dsa.recover_pub_key_",
      "btclib.ecc.ssa.sign_", "btclib.ecc.ssa.assert_as_valid_", "btclib.ecc.dh.diffie_hellman",
      "btclib.ecc.commit_nonce.commit_nonce_", "btclib.ecc.ellswift.create_var", "btclib.ecc.ellswift.encode_var",
      "btclib.ecc.ellswift.decode_var", "btclib.ecc.ellswift.xdh"] := by
  revert hg
  cases s <;> unfold_sites <;> simp [hec, SiteId.source]

/-- "scalar in 1..n-1": a residue `m % n` that is not zero is in the bindings' scalar domain -/
theorem reduced_nonzero_in_range (m n : Int) (hn : 0 < n) (h : m % n ≠ 0) : 1 ≤ m % n ∧ m % n ≤ n - 1 := by
  have h0 := Int.emod_nonneg m (Int.ne_of_gt hn)
  have h1 := Int.emod_lt_of_pos m hn
  omega

example : siteStrict .double_mult__libsecp256k1_multi_mult
    { (Atoms.ofBits (List.replicate 40 true)) with s1_nonzero := true } = true := by decide
example : (SiteId.mult_checked__libsecp256k1_multi_mult).guard (Atoms.ofBits (List.replicate 40 true)) = false := by decide
example : (SiteId.dh__pubkey_tweak_mul).guard { (Atoms.ofBits (List.replicate 40 true)) with p1_is_generator := false } = true := by
  decide

/-! ## T2 — verdict tables -/

/-- `mult` / `PreparedPoint.mult`: agreement on every class.  The class `xOutOfRange` (x = x₀ + k·p) is kept in the
lattice: until fix d8821600 it was the one class on which the arms differed (bindings arm: foreign `OverflowError`) -/
theorem mult_agrees (m : Scalar) (q : Point) : Mult.py m q = Mult.bind m q := by
  cases m <;> cases q <;> rfl
/-- why that fix is the right one: the arms agree on `xOutOfRange` BECAUSE `require_on_curve` refuses it first — the
bindings arm itself still has no answer for it -/
theorem mult_x_out_of_range_refused_before_dispatch (m : Scalar) :
    Point.requireOnCurve .xOutOfRange = some .errValue ∧ Mult.bind m .xOutOfRange = .errValue := by
  cases m <;> decide

theorem tweak_add_agrees (t : Tweak) (p : Point) : TweakAdd.py t p = TweakAdd.bind t p := by
  cases t <;> cases p <;> rfl

theorem pubkey_agrees (q : Scalar) : PubKey.py q = PubKey.bind q := by cases q <;> rfl

/-- `diffie_hellman` (fix 89eda414: the guard reads `QV[1]`): agreement on every class, infinity included -/
theorem dh_agrees (d : Scalar) (q : Point) : Dh.py d q = Dh.bind d q := by
  cases d <;> cases q <;> rfl
theorem dh_infinity_is_runtime_error (d : Scalar) : Dh.bind d .infinity = .errRuntime := by
  cases d <;> decide

theorem point_from_octets_agrees (hyb : Bool) (k : Sec) : PointFromOctets.py hyb k = PointFromOctets.bind hyb k := by
  cases hyb <;> cases k <;> rfl

/-- `dsa.assert_as_valid_`: agreement on every class; a hybrid-prefixed key is refused by both arms (fix 8f6c8cd5: before
it the octets reached `ec_pubkey_parse` unproven and the bindings arm accepted them) -/
theorem dsa_assert_agrees (m : MsgLen) (k : Key) (s : DsaSig) : DsaAssert.py m k s = DsaAssert.bind m k s := by
  cases m <;> cases k <;> cases s <;> rfl
theorem dsa_assert_hybrid_refused (m : MsgLen) (s : DsaSig) : DsaAssert.bind m .hybrid s = .errValue := by
  cases m <;> cases s <;> rfl

/-- the engine's exported wrapper: agreement on every class, the high-s form included (fix 6426fb77) -/
theorem engine_dsa_agrees (m : MsgLen) (k : EngineDsa.EKey) (s : DsaSig) : EngineDsa.py m k s = EngineDsa.bind m k s := by
  cases m <;> cases k <;> cases s <;> rfl

theorem dsa_sign_agrees (q : Scalar) (m : MsgLen) (k : PubArg) : DsaSign.py q m k = DsaSign.bind q m k := by
  cases q <;> cases m <;> cases k <;> rfl
/-- a signature is only ever produced for a private key in 1..n-1, a 32-byte digest and no key or the signer's own -/
theorem dsa_sign_value_iff (q : Scalar) (m : MsgLen) (k : PubArg) :
    DsaSign.bind q m k = .value ↔ (q = .inRange ∧ m = .len32 ∧ (k = .none_ ∨ k = .own)) := by
  cases q <;> cases m <;> cases k <;> decide

theorem ssa_sign_agrees (q : Scalar) (aux : MsgLen) : SsaSign.py q aux = SsaSign.bind q aux := by
  cases q <;> cases aux <;> rfl

theorem recover_agrees (kid : KeyId) (m : MsgLen) (s : DsaSig) : Recover.py kid m s = Recover.bind kid m s := by
  cases kid <;> cases m <;> cases s <;> rfl

theorem ssa_assert_agrees (k : XKey) (s : SsaSig) : SsaAssert.py k s = SsaAssert.bind k s := by
  cases k <;> cases s <;> rfl

/-! ### second batch (Model/C04/Verdict2.lean) -/

theorem tap_outroot_agrees (k : XKey) : TapOutRoot.py k = TapOutRoot.bind k := by cases k <;> rfl
theorem tap_outpub_agrees (k : Sec) : TapOutPub.py k = TapOutPub.bind k := by cases k <;> rfl
theorem tap_prv_agrees (q : Scalar) : TapPrv.py q = TapPrv.bind q := by cases q <;> rfl
theorem tap_check_agrees (q : QKey) (c : Control) : TapCheck.py q c = TapCheck.bind q c := by
  cases q <;> cases c <;> rfl
/-- the commitment check accepts exactly a 32-byte key under a control block that proves it -/
theorem tap_check_true_iff (q : QKey) (c : Control) : TapCheck.bind q c = .true_ ↔ (q = .len32 ∧ c = .valid) := by
  cases q <;> cases c <;> decide

theorem bip32_step_agrees (ch : Chain) (i : ChildIndex) (il : IL) : Bip32.py ch i il = Bip32.bind ch i il := by
  cases ch <;> cases i <;> cases il <;> rfl
/-- a child is answered only for IL < n that does not cancel the parent, and never hardened from a public key -/
theorem bip32_step_value_iff (ch : Chain) (i : ChildIndex) (il : IL) :
    Bip32.bind ch i il = .value ↔ (il = .ok ∧ ¬ (ch = .pub ∧ i = .hardened)) := by
  cases ch <;> cases i <;> cases il <;> decide

theorem musig_partial_verify_agrees (m : MsgLen) (s : PSig) (r : PubNonce) (k : SignerKey) :
    Musig.py s r k = Musig.bind m s r k := by
  cases m <;> cases s <;> cases r <;> cases k <;> rfl
theorem musig_partial_verify_true_iff (m : MsgLen) (s : PSig) (r : PubNonce) (k : SignerKey) :
    Musig.bind m s r k = .true_ ↔ (s = .valid ∧ r = .valid ∧ k = .member) := by
  cases m <;> cases s <;> cases r <;> cases k <;> decide

theorem ellswift_agrees (q : Scalar) (a b : EllLen) (p : Party) (k : Sec) :
    Ell.createPy q = Ell.createBind q ∧ Ell.decodePy a = Ell.decodeBind a ∧ Ell.xdhPy a b p q = Ell.xdhBind a b p q
      ∧ Ell.encodePy k = Ell.encodeBind k := by
  refine ⟨?_, ?_, ?_, ?_⟩
  · cases q <;> rfl
  · cases a <;> rfl
  · cases a <;> cases b <;> cases p <;> cases q <;> rfl
  · cases k <;> rfl

theorem commit_nonce_agrees (k : Scalar) (c : Bool) : Commit.py k c = Commit.bind k c := by
  cases k <;> cases c <;> rfl

theorem sp_output_keys_agrees (k : KeySum) (a : Addresses) : SpOut.py k a = SpOut.bind k a := by
  cases k <;> cases a <;> rfl

theorem engine_ssa_agrees (k : XKey) (s : SsaSig) : EngineSsa.py k s = EngineSsa.bind k s := by
  cases k <;> cases s <;> rfl

theorem tx_verdict_agrees (v : TxVector) : TxVerdict.py v = TxVerdict.bind v := by cases v <;> rfl

example : TapCheck.bind .len32 .parityFlipped = .false_ ∧ Bip32.py .prv .hardened .cancels = .errValue := by decide
example : Musig.bind .len32 .valid .valid .foreign = .errValue ∧ Commit.bind .inRange true = .errRuntime := by decide

/-- silent-payment scanning: the negation of agreement, with its witness class (finding
`sp.scan.offcurve_backend_divergence`), and agreement everywhere else — the empty list included (fix 9a0d5101) -/
theorem sp_scan_diverges : ∃ c, SpScan.py c ≠ SpScan.bind c := ⟨.notX, by decide⟩
theorem sp_scan_diverges_exactly (c : SpOutput) : SpScan.py c ≠ SpScan.bind c ↔ c = .notX := by
  cases c <;> decide
theorem sp_scan_empty_agrees : SpScan.py .none_ = SpScan.bind .none_ := rfl

example : Mult.py .inRange .valid = .value ∧ Mult.bind .negative .offCurve = .errValue := by decide
example : DsaAssert.py .len32 .valid .highS = .value ∧ DsaAssert.bind .len32 .valid .wrong = .errRuntime := by decide
example : SpScan.py .notX = .value ∧ SpScan.bind .notX = .errValue := by decide

/-! ## T3 — the switch writes the flag and nothing else -/

/-- read off the source: the only name declared `global` and the only assignment target is the flag -/
theorem set_serving_writes_only_the_flag :
    setServingGlobals = ["_libsecp256k1_available"] ∧ setServingAssigned = ["_libsecp256k1_available"] := by
  decide

theorem set_serving_preserves_rest {ρ : Type} (inst b : Bool) (st st' : PkgState ρ)
    (h : setServing inst b st = .ok st') : st'.rest = st.rest ∧ isServing st' = b := by
  unfold setServing at h
  split at h
  · cases h
  · cases h; exact ⟨rfl, rfl⟩

theorem set_serving_refusal_is_value_error {ρ : Type} (inst b : Bool) (st : PkgState ρ) :
    setServing inst b st = .error .value ↔ (b = true ∧ inst = false) := by
  cases inst <;> cases b <;> simp [setServing]

/-- any history of requests leaves everything but the flag as it was -/
theorem history_preserves_rest {ρ : Type} (inst : Bool) (st : PkgState ρ) (hist : List Bool) :
    (runHistory inst st hist).rest = st.rest := by
  induction hist generalizing st with
  | nil => rfl
  | cons b bs ih =>
    simp only [runHistory]
    cases hs : setServing inst b st with
    | error e => exact ih st
    | ok st' =>
      rw [ih st']
      exact (set_serving_preserves_rest inst b st st' hs).1

/-- with the bindings installed the flag after a history is the last request: the dispatch does not depend on
anything earlier -/
theorem history_last_wins {ρ : Type} (st : PkgState ρ) (hist : List Bool) (b : Bool) :
    isServing (runHistory true st (hist ++ [b])) = b := by
  induction hist generalizing st with
  | nil => simp [runHistory, setServing, isServing]
  | cons c cs ih => simp [runHistory, setServing, ih]

/-- two package states with the same flag dispatch identically -/
theorem serves_reads_flag_only {ρ : Type} (s1 s2 : PkgState ρ) (h : s1.available = s2.available) (e hf : Bool) :
    serves s1 e hf = serves s2 e hf := by
  simp [serves, h]

example : isServing (runHistory true (⟨false, ()⟩ : PkgState Unit) [true, false, true]) = true := by decide

end Props.C04
