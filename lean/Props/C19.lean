import Proofs.C19.Fuel
import Proofs.C19.Wire
import Proofs.C19.P2p
import Proofs.C19.Desc
import Proofs.C19.MsText
import Proofs.C19.TapTree
/-!
# C19 — hostile input: parsers are total, read exactly what they return, and build nothing the
input did not pay for

Property theorems only (DESIGN §3 C19).  What a proof can say about "never a hang, never an unbounded
recursion, never more read than needed, never a list bigger than the limits" is said here, on the
parser MODELS (owned by C05 / C08, tied to the code by their correspondence streams and by this
property's `pos.*` streams) and on the generic models of `Model/C19/Fuel.lean`; the limits are
`Gen.Limits`, regenerated from /repo on every run.  Every model parser is a total Lean function:
Lean's termination checker is the proof that the MODEL cannot hang; the fuel-sufficiency theorems
remove a modelling artefact (the fuel), they are not a statement about the Python interpreter.  NOT
PROVED, observed by `harness/c19.py` only: the Python exception CLASS, the interpreter's recursion limit,
CPU / wall-clock time, that the boolean verifiers answer instead of raising, and every consumer other
than sizes / weight / re-parse (sighash, script engine, ids, PSBT roles are driven on accepted objects
by the harness, not modelled here).
-/
namespace Props.C19
open Btc Btc.Wire Btc.Fuel

/-! ## T1 — exact consumption; the rest is a proper suffix; fuel = input length suffices -/

/-- for each modelled wire parser of btclib: the bytes it reads are exactly the serialization of what it
    returns, what it leaves is exactly the rest (a caller's stream stands on the byte after the object:
    nothing more was read), and the bytes read are as many as the reported size. -/
theorem wire_parsers_read_exactly (H : Bytes → Bytes) :
    (∀ m, ReadsExactly (varInt m)) ∧ ReadsExactly varBytes ∧ ReadsExactly outPoint ∧ ReadsExactly witness ∧
    ReadsExactly txIn ∧ ReadsExactly txOut ∧ ReadsExactly tx ∧ ReadsExactly blockHeader ∧ ReadsExactly block ∧
    ReadsExactly xkey ∧ ReadsExactly Psbt.record ∧ ReadsExactly (msg H) ∧ ReadsExactly msgHead ∧
    ReadsExactly netAddr ∧ ReadsExactly timedAddr ∧ ReadsExactly addr ∧ ReadsExactly inventory ∧ ReadsExactly inv ∧
    ReadsExactly locator ∧ ReadsExactly headers ∧ ReadsExactly versionBody :=
  ⟨fun m => readsExactly_of (lawful_varInt m), readsExactly_of lawful_varBytes, readsExactly_of lawful_outPoint,
   readsExactly_of lawful_witness, readsExactly_of lawful_txIn, readsExactly_of lawful_txOut, readsExactly_of lawful_tx,
   readsExactly_of lawful_blockHeader, readsExactly_of lawful_block, readsExactly_of lawful_xkey,
   readsExactly_of Psbt.lawful_record, readsExactly_of (lawful_msg H), readsExactly_of lawful_msgHead,
   readsExactly_of lawful_netAddr, readsExactly_of lawful_timedAddr, readsExactly_of lawful_addr,
   readsExactly_of lawful_inventory, readsExactly_of lawful_inv, readsExactly_of lawful_locator,
   readsExactly_of lawful_headers, readsExactly_of lawful_versionBody⟩

/-- the same for the further codecs C05 models (the fixed-size p2p payloads Ping / Pong / FeeFilter / SendCmpct,
    the BIP157 payloads GetCFilters / GetCFHeaders / CFilter / CFHeaders / GetCFCheckpt / CFCheckpt, and the fixed-size
    signature forms `ssa.Sig` / `bms.Sig`): the bytes read are exactly the serialization of what is returned.  The parse entry
    points of btclib that take a caller's stream and have NO codec in either theorem are listed by `harness/c19_stream.py`
    (evidence note "stream entry points without a Lean codec") and are held to the trailing-bytes oracle only. -/
theorem more_wire_parsers_read_exactly :
    ReadsExactly nonce8 ∧ ReadsExactly feeFilter ∧ ReadsExactly sendCmpct ∧ ReadsExactly filterRange ∧
    ReadsExactly cfilter ∧ ReadsExactly cfheaders ∧ ReadsExactly getcfcheckpt ∧ ReadsExactly cfcheckpt ∧
    ReadsExactly ssaSig ∧ ReadsExactly bmsSig :=
  ⟨readsExactly_of (lawful_uintLE 8), readsExactly_of (lawful_intLE 8), readsExactly_of lawful_sendCmpct,
   readsExactly_of lawful_filterRange, readsExactly_of lawful_cfilter, readsExactly_of lawful_cfheaders,
   readsExactly_of lawful_getcfcheckpt, readsExactly_of lawful_cfcheckpt, readsExactly_of lawful_ssaSig,
   readsExactly_of lawful_bmsSig⟩

example : cfilter.parse ([0] ++ List.replicate 32 7 ++ [2, 5, 6] ++ [9, 9])
    = .ok ((0, List.replicate 32 7, [5, 6]), [9, 9]) := by decide

/-- each wire parser reads at least one byte whenever it answers: parsing object after object off a
    finite stream terminates (the rest is a PROPER suffix). -/
theorem wire_parsers_make_progress :
    (∀ m, Consuming (varInt m)) ∧ Consuming varBytes ∧ Consuming outPoint ∧ Consuming witness ∧
    Consuming txIn ∧ Consuming txOut ∧ Consuming tx ∧ Consuming blockHeader ∧ Consuming block ∧
    Consuming xkey ∧ Consuming Psbt.record :=
  ⟨fun m => consuming_of (lawful_varInt m) (nonEmpty_varInt m),
   consuming_of lawful_varBytes nonEmpty_varBytes, consuming_of lawful_outPoint nonEmpty_outPoint,
   consuming_of lawful_witness nonEmpty_witness, consuming_of lawful_txIn nonEmpty_txIn,
   consuming_of lawful_txOut nonEmpty_txOut, consuming_of lawful_tx nonEmpty_tx,
   consuming_of lawful_blockHeader nonEmpty_blockHeader, consuming_of lawful_block nonEmpty_block,
   consuming_of lawful_xkey nonEmpty_xkey, Psbt.consuming_record⟩

def exTx : Tx := ⟨2, 9, [⟨⟨List.replicate 32 7, 1⟩, [0x51], 0xFFFFFFFE, [[1, 2], []]⟩], [⟨-1, []⟩]⟩
example : tx.parse (Tx.ser true exTx ++ [9, 9]) = .ok (exTx, [9, 9]) := by decide

/-- the generic loop `while stream: item = parse(stream)`: when the item parser makes progress, any
    fuel ≥ the length of the input gives the same answer (fuel is never the reason the loop stops),
    the loop stops exactly where the item parser refuses, and it returns no more items than bytes. -/
theorem iterated_parsing_is_total {σ α : Type} (p : Step σ α) (hc : Fuel.Consuming p) (s : List σ)
    (fuel : Nat) (h : s.length ≤ fuel) :
    many p fuel s = manyAll p s ∧ p (manyAll p s).2 = none ∧
      (manyAll p s).1.length + (manyAll p s).2.length ≤ s.length :=
  ⟨many_fuel p hc s fuel h, many_stops p hc s.length s (Nat.le_refl _), many_length p hc s.length s⟩

/-- script decode (C08's model of `op_code_spans` / Core's `GetOp` walk): the fuel `len(script)` always
    suffices; the instructions read are exactly the bytes before the rest, and the walk stops only
    where no instruction can be read (end of script, or a push running past it). -/
theorem script_walk_is_total_and_exact (s : Bytes) (fuel : Nat) (h : s.length ≤ fuel) :
    Script.parseOps fuel s = Script.parse s ∧
      s = Script.serializeOps (Script.parse s).1 ++ (Script.parse s).2 ∧
      Script.getOp (Script.parse s).2 = none ∧ (Script.parse s).1.length ≤ s.length := by
  have e : ∀ f, Script.parseOps f s = many Script.getOp f s := fun f => Script.parseOps_eq_many f s
  have hf := many_fuel _ Script.getOp_consuming s fuel h
  have hs := many_stops _ Script.getOp_consuming s.length s (Nat.le_refl _)
  have hl := many_length _ Script.getOp_consuming s.length s
  refine ⟨?_, Script.parseOps_exact _ s, ?_, ?_⟩
  · rw [Script.parse, e, e, hf]; rfl
  · rw [Script.parse, e]; exact hs
  · rw [Script.parse, e]; omega

example : (Script.parse [0x51, 2, 7, 8, 0x4c, 5, 1]).1.length = 2 ∧
    (Script.parse [0x51, 2, 7, 8, 0x4c, 5, 1]).2 = [0x4c, 5, 1] := by decide

/-- PSBT map layer (`deserialize_map`): the record loop's fuel `len(bytes) + 1` always suffices. -/
theorem psbt_map_fuel_suffices (b : Bytes) (seen : List Bytes) (fuel : Nat) (h : b.length + 1 ≤ fuel) :
    Psbt.parseRecs fuel b seen = Psbt.parseRecs (b.length + 1) b seen := by
  obtain ⟨k, rfl⟩ := Nat.exists_eq_add_of_le h
  exact Psbt.parseRecs_add b seen k

/-- … and what it accepts is exactly its records and the closing `00`: the rest is a proper suffix,
    and there are fewer records than bytes read. -/
theorem psbt_map_reads_exactly (b : Bytes) (recs : List Psbt.Rec) (rest : Bytes)
    (hp : Psbt.parseMap b = .ok (recs, rest)) :
    b = Psbt.serMap recs ++ rest ∧ recs.length + rest.length < b.length := by
  obtain ⟨_, hb⟩ := Psbt.serMap_parseMap b recs rest hp
  refine ⟨hb, ?_⟩
  have := Psbt.serList_length_ge recs
  have hl := congrArg List.length hb
  simp only [Psbt.serMap, List.length_append, List.length_cons, List.length_nil] at hl
  omega

/-- the nested grammar (`descriptors._parse_tree`: a leaf, or `{TREE,TREE}`), for any leaf parser that
    makes progress: the fuel `len(text) + 1` always suffices — more fuel never changes the answer. -/
theorem tree_fuel_suffices {σ α : Type} [DecidableEq σ] (d : Delims σ) (m : Nat) (leaf : Step σ α)
    (hc : Fuel.Consuming leaf) (depth : Nat) (s : List σ) (fuel : Nat) (h : s.length + 1 ≤ fuel) :
    parseTree d m leaf fuel depth s = parseTree d m leaf (s.length + 1) depth s := by
  obtain ⟨k, rfl⟩ := Nat.exists_eq_add_of_le h
  exact parseTree_add d m leaf hc depth s k

/-- … what it accepts is exactly the written form of the tree it returns followed by the rest, … -/
theorem tree_reads_exactly {σ α : Type} [DecidableEq σ] (d : Delims σ) (m : Nat) (leaf : Step σ α)
    (pl : α → List σ) (hl : ∀ s x rest, leaf s = some (x, rest) → s = pl x ++ rest)
    (hc : Fuel.Consuming leaf) (fuel depth : Nat) (s : List σ) (t : Tree α) (rest : List σ)
    (hp : parseTree d m leaf fuel depth s = some (t, rest)) :
    s = printTree d pl t ++ rest ∧ rest.length < s.length :=
  ⟨parseTree_print d m leaf pl hl fuel depth s t rest hp, parseTree_consumes d m leaf hc fuel depth s t rest hp⟩

/-- … and in the generic skeleton (one-letter leaves; the model the `tree` stream runs against
    `descriptors.parse("tr(K,…)")`) the nesting of an accepted tree is within the GENERATED depth limit.
    The same statement on C14's model of `_parse_tree` itself is `descriptor_tree_depth_bounded` below. -/
theorem tree_depth_bounded (s : List Char) (t : Tree Char) (h : parseLetters s = some t) :
    t.depth ≤ Gen.Limits.MAX_TREE_DEPTH := by
  unfold parseLetters parseTreeAll at h
  split at h
  · rename_i t' hp
    cases h
    have := parseTree_depth braces Gen.Limits.MAX_TREE_DEPTH letterLeaf _ 0 s _ _ hp
    omega
  · cases h

example : parseLetters "{a,{b,c}}".toList = some (.node (.leaf 'a') (.node (.leaf 'b') (.leaf 'c'))) := by
  decide
example : parseLetters "{a,{b,c}".toList = none ∧ parseLetters "{a,b}c".toList = none
    ∧ parseLetters "{a}".toList = none ∧ parseLetters "".toList = none := by decide
/-- the depth guard itself: with the bound at 2, three levels of braces are refused. -/
example : parseTreeAll braces 2 letterLeaf "{a,{b,c}}".toList = some (.node (.leaf 'a') (.node (.leaf 'b') (.leaf 'c')))
    ∧ parseTreeAll braces 2 letterLeaf "{a,{b,{c,d}}}".toList = none := by decide

/-! ## T2 — consumers are total on what the parsers accept -/

/-- any transaction `Tx.parse` accepts can be handed to every model consumer: both sizes are the
    lengths of both serializations, weight and vsize are the formula, the stripped serialization (what
    `id` hashes) is itself a well-formed transaction, and the serialization parses back to it. -/
theorem accepted_tx_is_consumable (b : Bytes) (t : Tx) (rest : Bytes) (hp : Tx.parse b = .ok (t, rest)) :
    (∀ w, Tx.size w t = (Tx.ser w t).length) ∧
    Tx.weight t = 3 * (Tx.ser false t).length + (Tx.ser true t).length ∧
    Tx.parse (Tx.ser false t) = .ok (t.strip, []) ∧ Tx.parse (Tx.ser true t) = .ok (t, []) := by
  obtain ⟨hv, _⟩ := tx_ser_parse b t rest hp
  refine ⟨fun w => tx_size_eq w t hv.struct, ?_, ?_, ?_⟩
  · simp only [Tx.weight, tx_size_eq _ t hv.struct]
  · simpa using tx_parse_ser_stripped t [] hv
  · simpa using tx_parse_ser t [] hv

/-- any block `Block.parse` accepts holds only transactions that are consumable in the same sense,
    and a header of exactly the generated header length. -/
theorem accepted_block_is_consumable (b : Bytes) (bl : Block) (rest : Bytes)
    (hp : block.parse b = .ok (bl, rest)) :
    (∀ t ∈ bl.txs, Tx.Valid t) ∧ (blockHeader.ser bl.header).length = Gen.Wire.HEADER_LENGTH
      ∧ bl.txs.length ≤ Gen.Wire.MAX_BLOCK_TX_COUNT := by
  obtain ⟨hv, _⟩ := lawful_block.ser_parse b bl rest hp
  simp only [block, Codec.map, pair] at hv
  obtain ⟨⟨hh, hl⟩, _⟩ := hv
  rw [listOf_valid] at hl
  exact ⟨hl.2, blockHeader_length _ hh, hl.1.1⟩

/-! ## T3 — bounded allocation -/

/-- every CompactSize read that carries a cap of its own (found by walking the whole package) is
    bounded by the default cap `var_int.MAX_SIZE`; the transaction caps are the largest counts whose
    smallest items still fit in a block; and the caps at the call sites of the modelled parsers are
    those limits. -/
theorem generated_limits_are_consistent :
    (∀ r ∈ Gen.Limits.countCaps, r.2.2 ≤ Gen.Limits.MAX_SIZE) ∧
    Gen.Limits.MAX_TX_IN_COUNT * (Gen.Limits.MIN_TX_IN_SIZE * Gen.Limits.WITNESS_SCALE_FACTOR)
      ≤ Gen.Limits.MAX_BLOCK_WEIGHT ∧
    Gen.Limits.MAX_BLOCK_WEIGHT
      < (Gen.Limits.MAX_TX_IN_COUNT + 1) * (Gen.Limits.MIN_TX_IN_SIZE * Gen.Limits.WITNESS_SCALE_FACTOR) ∧
    Gen.Limits.MAX_TX_OUT_COUNT * (Gen.Limits.MIN_TX_OUT_SIZE * Gen.Limits.WITNESS_SCALE_FACTOR)
      ≤ Gen.Limits.MAX_BLOCK_WEIGHT ∧
    Gen.Limits.MAX_BLOCK_WEIGHT
      < (Gen.Limits.MAX_TX_OUT_COUNT + 1) * (Gen.Limits.MIN_TX_OUT_SIZE * Gen.Limits.WITNESS_SCALE_FACTOR) ∧
    Gen.Wire.MAX_TX_IN_COUNT = Gen.Limits.MAX_TX_IN_COUNT ∧
    Gen.Wire.MAX_TX_OUT_COUNT = Gen.Limits.MAX_TX_OUT_COUNT ∧
    Gen.Wire.MAX_WITNESS_STACK_ITEMS = Gen.Limits.MAX_WITNESS_STACK_ITEMS ∧
    Gen.Wire.MAX_BLOCK_TX_COUNT * Gen.Limits.MIN_SERIALIZABLE_TRANSACTION_WEIGHT ≤ Gen.Limits.MAX_BLOCK_WEIGHT ∧
    Gen.VarInt.MAX_SIZE = Gen.Limits.MAX_SIZE ∧ Gen.Limits.MAX_TREE_DEPTH < 1000 := by
  decide

/-- a count above the cap of its call site is refused as "too big" BEFORE any item is read: the
    answer does not depend on the item parser at all. -/
theorem count_above_cap_is_refused_before_items {α : Type} (m : Nat) (c : Codec α) (b : Bytes)
    (M n : Nat) (rest : Bytes) (h : VarInt.parse b M = .ok (n, rest)) (hn : n > m) :
    (listOf m c).parse b = .error .toobig :=
  listOf_rejects_above_cap m c b M n rest h hn

/-- `fd 47 5f` is 24391 = MAX_TX_IN_COUNT + 1: refused as an input count, whatever follows. -/
example : vinC.parse ([0xfd, 0x47, 0x5f] ++ List.replicate 50 0) = .error .toobig := by decide

/-- a count-prefixed list that is accepted holds at most `cap` items and FEWER ITEMS THAN BYTES were
    given: a parser never builds more than its input pays for. -/
theorem accepted_list_is_bounded {α : Type} (m : Nat) (c : Codec α) (hl : Lawful c) (hn : NonEmpty c)
    (b : Bytes) (l : List α) (rest : Bytes) (hp : (listOf m c).parse b = .ok (l, rest)) :
    l.length ≤ m ∧ l.length + rest.length < b.length :=
  listOf_bounds m hl hn b l rest hp

/-- for transactions: input, output and witness item counts are within the generated limits, and the
    whole object is as large as the bytes read (so every list in it is shorter than the input). -/
theorem accepted_tx_is_bounded (b : Bytes) (t : Tx) (rest : Bytes) (hp : Tx.parse b = .ok (t, rest)) :
    t.vin.length ≤ Gen.Limits.MAX_TX_IN_COUNT ∧ t.vout.length ≤ Gen.Limits.MAX_TX_OUT_COUNT ∧
    (∀ i ∈ t.vin, i.witness.length ≤ Gen.Limits.MAX_WITNESS_STACK_ITEMS) ∧
    Tx.size true t + rest.length = b.length := by
  obtain ⟨hv, hb, hs⟩ := lawful_tx.consumed b t rest hp
  obtain ⟨_, _, hvin, hvout, hw, _⟩ := hv
  rw [vinC, listOf_valid] at hvin
  rw [voutC, listOf_valid] at hvout
  refine ⟨(by simpa using hvin.1.1 : t.vin.length ≤ Gen.Wire.MAX_TX_IN_COUNT), hvout.1.1, ?_, hs⟩
  intro i hi
  have := hw i hi
  rw [witness, listOf_valid] at this
  exact this.1.1

/-- the generic count-prefixed model (`Btc.Fuel.counted`), for any item parser: above the cap nothing
    is read; what is accepted has at most `cap` items and no more items than bytes. -/
theorem counted_model_is_bounded {α : Type} (cap : Nat) (item : Step UInt8 α) (hc : Fuel.Consuming item)
    (b : Bytes) :
    (∀ n rest, VarInt.parse b Gen.Limits.MAX_SIZE = .ok (n, rest) → n > cap →
      counted cap item b = .error .tooMany) ∧
    (∀ xs r, counted cap item b = .ok (xs, r) → xs.length ≤ cap ∧ xs.length + r.length ≤ b.length) :=
  ⟨fun n rest h hn => counted_tooMany cap item b rest n h hn, fun xs r h => counted_bounds cap item hc b xs r h⟩

example : counted 2 (fun s => match s with | x :: r => some (x, r) | [] => none) [3, 7, 8, 9]
    = .error .tooMany := by decide
example : counted 3 (fun s => match s with | x :: r => some (x, r) | [] => none) [3, 7, 8, 9, 1]
    = .ok ([7, 8, 9], [1]) := by decide

/-! ## the models that landed later: p2p envelope and payloads (C05), Base58Check / bech32 (C06),
descriptors (C14), miniscript text (C15) -/

/-- T1 for the p2p layer: the envelope and every modelled payload item read at least one byte. -/
theorem p2p_parsers_make_progress (H : Bytes → Bytes) :
    Consuming (msg H) ∧ Consuming msgHead ∧ Consuming netAddr ∧ Consuming timedAddr ∧ Consuming inventory ∧
    Consuming locator ∧ Consuming addr ∧ Consuming inv ∧ Consuming headers :=
  ⟨consuming_of (lawful_msg H) (nonEmpty_msg H), consuming_of lawful_msgHead nonEmpty_msgHead,
   consuming_of lawful_netAddr nonEmpty_netAddr, consuming_of lawful_timedAddr nonEmpty_timedAddr,
   consuming_of lawful_inventory nonEmpty_inventory, consuming_of lawful_locator nonEmpty_locator,
   consuming_of lawful_addr (nonEmpty_listUpTo _ _), consuming_of lawful_inv (nonEmpty_listUpTo _ _),
   consuming_of lawful_headers (nonEmpty_listUpTo _ _)⟩

/-- T3 for the p2p payloads (`count = var_int.parse(stream); if count > CAP: raise`): above the cap the
    refusal comes before any item is read, whatever the item is; an accepted payload holds at most CAP
    items and fewer items than bytes; and the caps are the generated limits. -/
theorem p2p_counts_are_bounded {α : Type} (m : Nat) (c : Codec α) (hl : Lawful c) (hn : NonEmpty c) (b : Bytes) :
    (∀ n rest, VarInt.parse b Gen.VarInt.MAX_SIZE = .ok (n, rest) → n > m →
      (listUpTo m c).parse b = .error .badCount) ∧
    (∀ l rest, (listUpTo m c).parse b = .ok (l, rest) → l.length ≤ m ∧ l.length + rest.length < b.length) :=
  ⟨fun n rest h hn' => listUpTo_rejects_above_cap m c b n rest h hn',
   fun l rest h => listUpTo_bounds m hl hn b l rest h⟩

theorem p2p_caps_are_the_limits :
    Gen.Wire.MAX_ADDR_TO_SEND = Gen.Limits.MAX_ADDR_TO_SEND ∧ Gen.Wire.MAX_INV_SZ = Gen.Limits.MAX_INV_SZ ∧
    Gen.Wire.MAX_LOCATOR_SZ = Gen.Limits.MAX_LOCATOR_SZ ∧ Gen.Wire.MAX_HEADERS_RESULTS = Gen.Limits.MAX_HEADERS_RESULTS ∧
    Gen.Wire.MAX_PROTOCOL_MESSAGE_LENGTH = Gen.Limits.MAX_PROTOCOL_MESSAGE_LENGTH := by decide

/-- the envelope never announces more than the generated message limit: an accepted message's payload
    is within `MAX_PROTOCOL_MESSAGE_LENGTH`, and is exactly the bytes that followed the header. -/
theorem accepted_message_is_bounded (H : Bytes → Bytes) (hH : ∀ x, 4 ≤ (H x).length) (b : Bytes) (m : Msg)
    (rest : Bytes) (hp : (msg H).parse b = .ok (m, rest)) :
    m.payload.length ≤ Gen.Limits.MAX_PROTOCOL_MESSAGE_LENGTH ∧ m.payload.length + rest.length < b.length := by
  obtain ⟨hv, hb, hs⟩ := (lawful_msg H).consumed b m rest hp
  have hvv := (msg_valid H hH m).1 hv
  refine ⟨hvv.2.2, ?_⟩
  have hl := congrArg List.length hb
  have hser : ((msg H).ser m).length = (msgHead.ser (Msg.head H m)).length + m.payload.length := by
    simp [msg, prefixedBy, Codec.map, Codec.refine, bytesN]
  have hne := nonEmpty_msgHead (Msg.head H m) hv.1
  simp only [List.length_append] at hl
  omega

/-- Base58Check, in C06's model of `decode`: a text above `MAX_LENGTH` is refused by the model's first test —
    before any digit is looked up, any big integer is built or anything is hashed (the same answer for every
    hash function).  In btclib one step precedes it, `v.encode("ascii")` of a `str` argument (linear, refused
    with BTClibValueError); that the length test comes before the alphabet walk is read off the source by the
    model's author and tied by C06's streams, not proved here. -/
theorem base58_length_is_checked_before_work (H : Bytes → Bytes) (v : List Nat) (o : Option Nat)
    (h : v.length > Gen.Base58.MAX_LENGTH) : Base58.decode H v o = .error .tooLong :=
  Base58.decode_too_long H v o h

/-- bech32: what `decode` returns was paid for by the text, character for character. -/
theorem bech32_decode_is_paid_for (text : List Nat) (m : Option Nat) (hrp data : List Nat)
    (h : Bech32.decode text m = .ok (hrp, data)) : hrp.length + data.length + 7 = text.length :=
  Bech32.decode_length text m hrp data h

/-- descriptors (C14's model of `_parse_tree` / `_parse_expression`, any key oracle): any fuel above
    the length of the text gives the same answer — the fuel is never the reason of a refusal. -/
theorem descriptor_fuel_suffices (o : Desc.KeyOracle) (e : List Char) (fuel : Nat) (h : e.length + 1 ≤ fuel) :
    (∀ depth, Desc.parseTree o fuel depth e = Desc.parseTree o (e.length + 1) depth e) ∧
    (∀ ctx, Desc.parseExpr o fuel ctx e = Desc.parseExpr o (e.length + 1) ctx e) := by
  obtain ⟨k, rfl⟩ := Nat.exists_eq_add_of_le h
  exact ⟨fun depth => Desc.parseTree_add o depth e k, fun ctx => Desc.parseExpr_add o ctx e k⟩

/-- C14's model of `descriptors._parse_tree` (any key oracle, real leaves): a tree accepted at `depth`
    enclosing braces nests at most `MAX_TREE_DEPTH - depth` further, on the LEFT AND ON THE RIGHT; so the
    model's descent is never deeper than `MAX_TREE_DEPTH + 1` frames, whatever the text.  (That btclib's own
    recursion passes `depth + 1` to both subtrees is tied by the `tree` stream and the nesting oracle, not
    proved.) -/
theorem descriptor_tree_depth_bounded (o : Desc.KeyOracle) (fuel depth : Nat) (e : List Char) (t : Desc.Tree)
    (h : Desc.parseTree o fuel depth e = .ok t) : depth + Desc.treeHeight t ≤ Gen.Descriptor.MAX_TREE_DEPTH :=
  Desc.parseTree_depth o fuel depth e t h

/-- miniscript text (C15's recursive-descent model of `miniscript.parse`): every reader returns a rest no
    longer than its input, and any fuel above the length of the text gives the same answer. -/
theorem miniscript_text_fuel_suffices (ctx : Miniscript.Ctx) (s : List Char) (fuel : Nat) (h : s.length + 1 ≤ fuel) :
    Miniscript.pExpr ctx fuel s = Miniscript.pExpr ctx (s.length + 1) s ∧
    (∀ x r, Miniscript.pExpr ctx fuel s = some (x, r) → r.length ≤ s.length) := by
  obtain ⟨k, rfl⟩ := Nat.exists_eq_add_of_le h
  exact ⟨Miniscript.pExpr_add ctx s k, fun x r hp => Miniscript.pExpr_shrinks ctx _ s x r hp⟩

theorem miniscript_parse_fuel_suffices (ctx : Miniscript.Ctx) (s : List Char) (k : Nat) :
    Miniscript.pWrappedWith (Miniscript.pExpr ctx (s.length.succ + k)) s
      = Miniscript.pWrappedWith (Miniscript.pExpr ctx s.length.succ) s :=
  Miniscript.parseSyntax_fuel ctx s k

example : Base58.decode (fun _ => []) (List.replicate 113 49) none = .error .tooLong := by decide

/-! ## depth of the recursive readers -/

/-- `script.taproot.tree_helper` (model `Btc.TapTree.subtree` of `_subtree_helper`, any Python value): a node met below more
    than `maxDepth` branches is refused BEFORE it is looked at (whatever it is); a tree that is accepted at `depth` nests at
    most `maxDepth - depth` further on either side, so the descent never holds more than `maxDepth + 1` frames; and the
    bound is not otherwise a reason of refusal: a larger bound gives the same tree.  The model is structurally recursive in
    the value (no fuel); that btclib passes `depth + 1` to both subtrees and compares with the GENERATED
    `MAX_TREE_DEPTH` is tied by the `treehelper` stream and by `recursive_functions_are_enumerated`. -/
theorem taproot_tree_helper_depth_bounded (M : Nat) (v : TapTree.PyVal) (d : Nat) :
    (d > M → TapTree.subtree M d v = .error .deep) ∧
    (∀ t, TapTree.subtree M d v = .ok t → d + t.depth ≤ M) ∧
    (∀ t M', M ≤ M' → TapTree.subtree M d v = .ok t → TapTree.subtree M' d v = .ok t) :=
  ⟨TapTree.subtree_deep M d v, TapTree.subtree_depth M v d, fun t M' h => TapTree.subtree_mono M M' h v d t⟩

/-- the public entry point with the generated bound: an accepted script tree nests at most `MAX_TREE_DEPTH`. -/
theorem taproot_tree_helper_accepts_within_limit (v : TapTree.PyVal) (t : Tree Nat)
    (h : TapTree.treeHelper v = .ok t) : t.depth ≤ Gen.Limits.MAX_TREE_DEPTH := by
  have := TapTree.subtree_depth _ v 0 t h
  omega

example : TapTree.subtree 1 0 (.two true (.one true (.two false (.int 0xC1) (.script true)))
      (.two true (.one true (.two false (.int 0xC0) (.script true))) (.one true (.two false (.int 0xC0) (.script true)))))
    = .error .deep := by decide
example : TapTree.subtree 2 0 (.two true (.one true (.two false (.int 0xC1) (.script true)))
      (.two true (.one true (.two false (.int 0xC0) (.script true))) (.one true (.two false (.int 0xC0) (.script true)))))
    = .ok (.node (.leaf 0xC0) (.node (.leaf 0xC0) (.leaf 0xC0))) := by decide

/-- the recursive functions of the package, read off the source on every run (the cyclic components of every module's
    call graph, `tools/specs/limits.py`): there are exactly 22; NONE of them is named like a reader (parse, from_dict,
    from_json, decode, deserialize, deserialize_map, b58decode/b64decode, from_script, op_code_spans): script decode,
    `Witness.parse`, every `from_dict` and the miniscript text and script readers are LOOPS, whose Python stack does not grow
    with the input (nesting to 10^4 is driven at them by the `deep` group); exactly two recursions carry a depth guard,
    `descriptors._parse_tree` and the one under `taproot.tree_helper`, and both guards are the generated `MAX_TREE_DEPTH`.
    A new recursive function, a recursive reader, or a dropped guard changes the table and breaks this obligation.
    (The unguarded ones walk objects a guarded parser built, unwrap one layer, or recurse on a scalar's bits; they are
    held to the RecursionError oracle, not proved bounded here.) -/
theorem recursive_functions_are_enumerated :
    Gen.Limits.recursiveFunctions.length = 22 ∧
    (∀ r ∈ Gen.Limits.recursiveFunctions, r.2.1 = 0) ∧
    (Gen.Limits.recursiveFunctions.filter (fun r => r.2.2 != 0)).length = 2 ∧
    Gen.Limits.recursiveGuarded = 2 ∧
    Gen.Limits.treeHelperIsRecursive = true ∧
    Gen.Limits.treeHelperGuard = Gen.Limits.MAX_TREE_DEPTH ∧
    Gen.Limits.parseTreeGuard = Gen.Limits.MAX_TREE_DEPTH ∧
    Gen.Limits.MAX_TREE_DEPTH = Gen.Descriptor.MAX_TREE_DEPTH := by
  decide

end Props.C19
