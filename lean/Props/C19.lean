/-!
# C19 — property theorems only (see DESIGN.md §3 C19).
-/
namespace Props.C19

end Props.C19
