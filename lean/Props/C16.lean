import Proofs.C16.Musig2Agg
import Proofs.C16.SilentPayments
import Proofs.C16.Pedersen
import Proofs.C16.SilentPaymentsComplete
import Proofs.E2E.C16
import Proofs.C16.Ecies
import Proofs.C16.EllSwift
import Proofs.C16.EllSwiftToy
import Proofs.C16.Borromean
import Proofs.C16.ToyExamples
import Proofs.E2E.C16Raw
import Proofs.C16.LG
import Proofs.C16.SilentPaymentsE2E
import Proofs.C16.SilentPaymentsGroups
import Proofs.C16.SilentPaymentsGroupsConv
import Proofs.C16.Reductions
import Proofs.C16.EciesExample
import Proofs.E2E.C16Uncond
import Proofs.C16.XOnlyDh
/-!
# C16 — property theorems only (see DESIGN.md §3 C16).

Every scheme is the SAME definition the driver executes (`Model/C16/*.lean`, instantiated there
with `Btc.EC.ops secp256k1` and the SHA-256 tagged hash) — here for ANY `o : GroupOps α` that is
`Lawful` (the operations of a group of prime order with x / parity / lift_x maps: property C01's
business for the concrete curve) and ANY hash `H`.  `hp`, `hn` say that coordinates and scalars fit
the 32-byte fields MuSig2/BIP340 serialise them in (true of secp256k1: `example` below).
-/
namespace Props.C16
open Btc Btc.Py Btc.C16

variable {α G : Type} [AddCommGroup G] {o : GroupOps α}

/-! ## MuSig2 (BIP327) -/

/-- **T1 (tweak invariant).** After `key_agg` and any list of plain / x-only tweaks, the context
satisfies `Q = gacc•Q₀ + tacc•G` with `Q₀` the untweaked aggregate, and `Q ≠ ∞`. -/
theorem musig2_tweak_invariant (L : Lawful o G) (H : Bytes → Bytes → Bytes)
    (pks : List Bytes) (tweaks : List (Bytes × Bool)) (c : KeyAggCtx α)
    (h : keyAggAndTweak o H pks tweaks = .ok c) :
    ∃ c0, keyAgg o H pks = .ok c0 ∧ o.isZero c.Q = false ∧
      L.abs c.Q = c.gacc • L.abs c0.Q + c.tacc • L.abs o.gen :=
  keyAggAndTweak_invariant L H h

/-- T1, one step: `apply_tweak` preserves the invariant relative to any reference point. -/
theorem musig2_apply_tweak_invariant (L : Lawful o G) (c c' : KeyAggCtx α) (tweak : Bytes) (x : Bool)
    (P0 : α) (h : applyTweak o c tweak x = .ok c')
    (h0 : L.abs c.Q = c.gacc • L.abs P0 + c.tacc • L.abs o.gen) :
    L.abs c'.Q = c'.gacc • L.abs P0 + c'.tacc • L.abs o.gen :=
  applyTweak_invariant L P0 h h0

/-- **T2 (honest partial signatures verify).** For ANY session context — any key list (any length,
order, duplicates) containing the signer's key, any tweak list, any message, any aggregate nonce,
with or without adaptor — and any secret key / secret nonces: whenever `sign` answers, its answer
passes `partial_sig_verify_` against the signer's public nonce and public key. -/
theorem musig2_partial_sig_verifies (L : Lawful o G) (H : Bytes → Bytes → Bytes)
    (hp : o.p ≤ 256 ^ 32) (hn : o.n ≤ 256 ^ 32) (s : SessionCtx) (d k1 k2 σ : Int)
    (hs : sign o H k1 k2 (individualPubKey o d) d s = .ok σ) :
    partialSigVerify o H (sBytes σ) (cbytes o (o.mul k1 o.gen) ++ cbytes o (o.mul k2 o.gen))
      (individualPubKey o d) s = .ok true :=
  partial_sig_verifies L H hp hn hs

/-- `sign` answers exactly when the session assembles, the scalars are in range and the signer's
key is in the list (so T2 is not vacuous: these are the preconditions of an honest signer). -/
theorem musig2_sign_defined (H : Bytes → Bytes → Bytes) (s : SessionCtx) (d k1 k2 : Int)
    (v : SessionValues α) (hv : sessionValues o H s = .ok v)
    (hk1 : 0 < k1 ∧ k1 < o.n) (hk2 : 0 < k2 ∧ k2 < o.n) (hd : 0 < d ∧ d < o.n)
    (hmem : individualPubKey o d ∈ s.pubKeys) :
    ∃ σ, sign o H k1 k2 (individualPubKey o d) d s = .ok σ := by
  have h1 : scalarOk o k1 = true := (scalarOk_iff k1).mpr hk1
  have h2 : scalarOk o k2 = true := (scalarOk_iff k2).mpr hk2
  have h3 : scalarOk o d = true := (scalarOk_iff d).mpr hd
  unfold sign
  rw [hv]
  simp [h1, h2, h3, hmem]

/-- **T3 (the aggregate is a BIP340 signature).** Honest signers `l` (any number, any order,
duplicates allowed), any tweak list and message; the aggregate nonce is `nonce_agg` of their public
nonces; each partial signature is what `sign` answers. Unless the final nonce is the point at infinity
(`Σk₁ + b·Σk₂ ≡ 0`, where BIP327 deliberately lets the session complete with an invalid signature),
`partial_sig_agg` answers `(r, s)` and it satisfies BIP340 verification for the aggregate x-only key
`x(Q)` — all parities of `R`, `Q` and of every x-only tweak. -/
theorem musig2_aggregate_verifies (L : Lawful o G) (H : Bytes → Bytes → Bytes)
    (hp : o.p ≤ 256 ^ 32) (hn : o.n ≤ 256 ^ 32) (l : List Signer) (hl : ∀ t ∈ l, t.ok o)
    (tweaks : List (Bytes × Bool)) (msg an : Bytes)
    (han : nonceAgg o (l.map (Signer.pubNonce o)) = .ok an)
    (v : SessionValues α) (hv : sessionValues o H (honestCtx o l an tweaks msg none) = .ok v)
    (hR : ((l.map Signer.k1).sum + v.b * (l.map Signer.k2).sum) % o.n ≠ 0)
    (sigs : List Int)
    (hs : List.Forall₂ (fun t σ => sign o H t.k1 t.k2 (t.pk o) t.d (honestCtx o l an tweaks msg none) = .ok σ)
      l sigs) :
    ∃ r sg, partialSigAgg o H (sigs.map sBytes) (honestCtx o l an tweaks msg none) = .ok (r, sg) ∧
      bip340Verify o H (o.x v.Q) msg r sg = true :=
  aggregate_verifies L H hp hn l hl tweaks msg an han hv hR sigs hs

/-- honest `nonce_agg` always answers (the hypothesis `han` of T3/T4 is satisfiable for every list) -/
theorem musig2_nonce_agg_defined (L : Lawful o G) (hp : o.p ≤ 256 ^ 32) (l : List Signer)
    (hl : ∀ t ∈ l, t.ok o) : ∃ an, nonceAgg o (l.map (Signer.pubNonce o)) = .ok an := by
  obtain ⟨S1, S2, h, -, -⟩ := nonceAgg_honest L hp l hl
  exact ⟨_, h⟩

/-- **BIP327's infinity special case, `nonce_agg`.** Honest nonces that CANCEL (a half whose secret nonces sum to
`0 mod n`, e.g. two signers using `k` and `n − k`): `nonce_agg` does not fail, it writes that half as the 33 zero
bytes (`infBytes`), and `cpoint_ext` — what the session parses aggregate nonces with — reads each half back as the
point it encodes (streams `nonce_agg:cancel`, `aggnonce:infinity` run this on the real code). -/
theorem musig2_nonce_agg_infinity (L : Lawful o G) (hp : o.p ≤ 256 ^ 32) (l : List Signer) (hl : ∀ t ∈ l, t.ok o) :
    ∃ S1 S2, nonceAgg o (l.map (Signer.pubNonce o)) = .ok (cbytesExt o S1 ++ cbytesExt o S2) ∧
      ((l.map Signer.k1).sum % o.n = 0 → cbytesExt o S1 = infBytes) ∧
      ((l.map Signer.k2).sum % o.n = 0 → cbytesExt o S2 = infBytes) ∧
      (∃ Q1, cpointExt o (cbytesExt o S1) = .ok Q1 ∧ L.abs Q1 = ((l.map Signer.k1).sum) • L.abs o.gen) ∧
      (∃ Q2, cpointExt o (cbytesExt o S2) = .ok Q2 ∧ L.abs Q2 = ((l.map Signer.k2).sum) • L.abs o.gen) :=
  nonceAgg_cancelling L hp l hl

/-- **BIP327's infinity special case, the final nonce.** In ANY session that assembles: if `R₁ + b·R₂` is the identity,
`session_values` goes on with the generator in its place (`R = G`, challenge on `x(G)`); otherwise `R = R₁ + b·R₂`.
T2 has no hypothesis on the nonce, so every honest partial signature still verifies in the first case; T3's hypothesis
`hR` excludes exactly it (the aggregate is then deliberately invalid). -/
theorem musig2_final_nonce_infinity (H : Bytes → Bytes → Bytes) (s : SessionCtx) (v : SessionValues α)
    (hv : sessionValues o H s = .ok v) :
    ∃ kc R1 R2, sessionPoints o H s = .ok (kc, R1, R2) ∧
      (o.isZero (o.add R1 (o.mul v.b R2)) = true → v.R = o.gen ∧ v.e = challenge o H (o.x o.gen) (o.x v.Q) s.msg) ∧
      (o.isZero (o.add R1 (o.mul v.b R2)) = false → v.R = o.add R1 (o.mul v.b R2)) :=
  sessionValues_final_nonce_infinity H hv

/-- non-vacuity: on ℤ/3 the two signers of `ToyEx.l0` use `k₁ = k₂ = 1` twice — sums `2`; with a third the first halves
cancel (`1 + 1 + 1 ≡ 0`): `nonce_agg` answers the infinity placeholder in both halves -/
example : nonceAgg ToyEx.T ((⟨1, 1, 1⟩ :: ToyEx.l0).map (Signer.pubNonce ToyEx.T)) = .ok (infBytes ++ infBytes) := by
  decide +kernel

/-- **T4 (adaptor).** The same honest session carrying the adaptor point `T = t•G`:
`partial_sig_agg_adaptor` answers a pre-signature, `adapt` with the secret `t` completes it into a
signature that satisfies BIP340 verification for the aggregate key, and `extract_adaptor` of the two
returns `t` — both parities of the final nonce. -/
theorem musig2_adaptor_completes (L : Lawful o G) (H : Bytes → Bytes → Bytes)
    (hp : o.p ≤ 256 ^ 32) (hn : o.n ≤ 256 ^ 32) (l : List Signer) (hl : ∀ t ∈ l, t.ok o)
    (tweaks : List (Bytes × Bool)) (msg an : Bytes) (t : Int) (ht0 : 0 < t) (ht1 : t < o.n)
    (han : nonceAgg o (l.map (Signer.pubNonce o)) = .ok an)
    (v : SessionValues α)
    (hv : sessionValues o H (honestCtx o l an tweaks msg (some (cbytes o (o.mul t o.gen)))) = .ok v)
    (hR : (((l.map Signer.k1).sum + t) + v.b * (l.map Signer.k2).sum) % o.n ≠ 0)
    (sigs : List Int)
    (hs : List.Forall₂ (fun u σ => sign o H u.k1 u.k2 (u.pk o) u.d
      (honestCtx o l an tweaks msg (some (cbytes o (o.mul t o.gen)))) = .ok σ) l sigs) :
    ∃ pre sig,
      partialSigAggAdaptor o H (sigs.map sBytes) (honestCtx o l an tweaks msg (some (cbytes o (o.mul t o.gen))))
        = .ok pre ∧
      adapt o H pre t (honestCtx o l an tweaks msg (some (cbytes o (o.mul t o.gen)))) = .ok sig ∧
      bip340Verify o H (o.x v.Q) msg sig.1 sig.2 = true ∧
      extractAdaptor o H sig pre (honestCtx o l an tweaks msg (some (cbytes o (o.mul t o.gen)))) = .ok t :=
  adaptor_completes L H hp hn l hl tweaks msg an t ht0 ht1 han hv hR sigs hs

/-- honest-signer hypotheses are satisfiable on secp256k1 (three signers, one key used twice) -/
example : ∀ t ∈ [(⟨5, 7, 11⟩ : Signer), ⟨5, 13, 17⟩, ⟨9, 2, 3⟩], t.ok (EC.ops EC.secp256k1) := by
  intro t ht
  simp only [List.mem_cons, List.not_mem_nil, or_false] at ht
  rcases ht with rfl | rfl | rfl <;> (unfold Signer.ok; decide)

/-- the size hypotheses hold for secp256k1, and the generated sizes/placeholders are the ones the
proofs used (a changed `_PK_SIZE`, `_SCALAR_SIZE`, `_NONCE_SIZE` or `_INF_BYTES` breaks this) -/
example : (EC.ops EC.secp256k1).p ≤ 256 ^ 32 ∧ (EC.ops EC.secp256k1).n ≤ 256 ^ 32 := by decide
example : pkSize = 33 ∧ scalarSize = 32 ∧ nonceSize = 66 ∧ infBytes = List.replicate 33 0 := by decide

/-! ### non-vacuity: T2, T3, T4 instantiated with NO hypothesis left, on a lawful group
(`Proofs/C16/ToyExamples.lean`: ℤ/3 with `Lawful` proved in `Proofs/C12/Toy.lean`; two signers sharing ONE key, an
x-only tweak that negates an odd-y aggregate then a plain tweak; every hypothesis evaluated by the kernel) -/

example : partialSigVerify ToyEx.T ToyEx.Ht (sBytes 1)
    (cbytes ToyEx.T (ToyEx.T.mul 1 ToyEx.T.gen) ++ cbytes ToyEx.T (ToyEx.T.mul 1 ToyEx.T.gen))
    (individualPubKey ToyEx.T 1) (honestCtx ToyEx.T ToyEx.l0 ToyEx.an0 ToyEx.tw0 [7] none) = .ok true :=
  musig2_partial_sig_verifies Btc.Taproot.Toy.lawful ToyEx.Ht ToyEx.hp.1 ToyEx.hp.2 _ 1 1 1 1
    (by decide +kernel)

example : ∃ r sg, partialSigAgg ToyEx.T ToyEx.Ht ([1, 1].map sBytes)
      (honestCtx ToyEx.T ToyEx.l0 ToyEx.an0 ToyEx.tw0 [7] none) = .ok (r, sg) ∧
    bip340Verify ToyEx.T ToyEx.Ht (ToyEx.T.x ToyEx.v0.Q) [7] r sg = true :=
  musig2_aggregate_verifies Btc.Taproot.Toy.lawful ToyEx.Ht ToyEx.hp.1 ToyEx.hp.2 ToyEx.l0 ToyEx.hl0 ToyEx.tw0 [7]
    ToyEx.an0 ToyEx.han0 ToyEx.v0 ToyEx.hv0 ToyEx.hR0 [1, 1] ToyEx.hs0

example : ∃ pre sig,
    partialSigAggAdaptor ToyEx.T ToyEx.Ht ([0, 0].map sBytes)
      (honestCtx ToyEx.T ToyEx.l0 ToyEx.an0 ToyEx.tw0 [7] ToyEx.adaptor) = .ok pre ∧
    adapt ToyEx.T ToyEx.Ht pre 1 (honestCtx ToyEx.T ToyEx.l0 ToyEx.an0 ToyEx.tw0 [7] ToyEx.adaptor) = .ok sig ∧
    bip340Verify ToyEx.T ToyEx.Ht (ToyEx.T.x ToyEx.vA.Q) [7] sig.1 sig.2 = true ∧
    extractAdaptor ToyEx.T ToyEx.Ht sig pre (honestCtx ToyEx.T ToyEx.l0 ToyEx.an0 ToyEx.tw0 [7] ToyEx.adaptor) = .ok 1 :=
  musig2_adaptor_completes Btc.Taproot.Toy.lawful ToyEx.Ht ToyEx.hp.1 ToyEx.hp.2 ToyEx.l0 ToyEx.hl0 ToyEx.tw0 [7]
    ToyEx.an0 1 (by decide) (by decide) ToyEx.han0 ToyEx.vA ToyEx.hvA ToyEx.hRA [0, 0] ToyEx.hsA

/-! ## ECDH (SEC 1 §6.1, `dh.diffie_hellman`) -/

/-- **T5.** Both sides of an ECDH exchange derive the same keying data — for ANY key-derivation
function of the shared x-coordinate (ANSI-X9.63, HKDF, …), any two private scalars; when the shared
point is ∞ both sides fail alike. -/
theorem ecdh_symmetric (L : LawfulGroup o G) (kdf : Bytes → R Bytes) (a b : Int) :
    diffieHellman o kdf a (o.mul b o.gen) = diffieHellman o kdf b (o.mul a o.gen) :=
  LG.dh_symmetric L kdf a b

/-- T5 on an arbitrary base point. (This is the group-level symmetry only: `ellswift.xdh`, `encode_var` and
`decode_var` have NO model here — their agreement is the `ellswift.roundtrip` oracle's, on the real code.) -/
theorem ecdh_symmetric_base (L : LawfulGroup o G) (kdf : Bytes → R Bytes) (a b : Int) (P : α) :
    diffieHellman o kdf a (o.mul b P) = diffieHellman o kdf b (o.mul a P) :=
  LG.dh_symmetric_base L kdf a b P

/-- **T5 (x-only ECDH: the multiplication inside `ellswift.xdh`).** `xOnlyDh q x` = `mult(q, (x, y_even(x)))[0]`, the group
step of BIP324's `xdh` (a SPECIFICATION-side definition, `Proofs/C16/XOnlyDh.lean`: no driver op runs it; `ellswift.xdh`
itself is compared between the two arms and checked by the `ellswift.*` oracles on the real code).  For secrets
`a, b ∈ 1..n-1`, party A lifting `x(b•G)` and party B lifting `x(a•G)` compute the same x-coordinate `x(ab•G)`, and
neither fails — both parities of both public keys.  With `decode(encode Q).x = Q.x` (ElligatorSwift round trip: below,
partial) both parties hash the same preimage `ell_a ‖ ell_b ‖ x`. -/
theorem ecdh_xonly_symmetric (L : Lawful o G) (a b : Int) (ha : 0 < a ∧ a < o.n) (hb : 0 < b ∧ b < o.n) :
    xOnlyDh o a (o.x (o.mul b o.gen)) = xOnlyDh o b (o.x (o.mul a o.gen)) ∧
    xOnlyDh o a (o.x (o.mul b o.gen)) = some (o.x (o.mul a (o.mul b o.gen))) :=
  xOnlyDh_symmetric L a b ha hb

/-- on ℤ/3 (`Proofs/C12/Toy.lean`, `Lawful` proved): secrets 1 and 2 -/
example : xOnlyDh ToyEx.T 1 (ToyEx.T.x (ToyEx.T.mul 2 ToyEx.T.gen)) = some 5 ∧
    xOnlyDh ToyEx.T 2 (ToyEx.T.x (ToyEx.T.mul 1 ToyEx.T.gen)) = some 5 := by decide +kernel

/-! ## DLEQ (BIP374) -/

/-- **T8 (verification equation, in the group).** `assert_proof_as_valid` accepts `(e, s)` exactly when the message and
proof have the right sizes, `s < n`, the commitments `R₁ = s•G' − e•A` and `R₂ = s•B − e•C` are not the identity, and `e`
is the challenge hash of `(A, B, C, G', R₁, R₂, m)` — for ANY representatives of `R₁`, `R₂` (the hash reads their
compressed encodings, which are functions of the group element).  (The plain unfolding of `dleqVerify` into its five
guards is `dleqVerify_iff` in `Proofs/C16/Dleq.lean`; it is a lemma, not counted here.) -/
theorem dleq_verify_iff (L : LawfulGroup o G) (H : Bytes → Bytes → Bytes) (A B C Gp : α) (proof : Bytes)
    (msg : Option Bytes) :
    dleqVerify o H A B C proof Gp msg = .ok () ↔
      ∃ m, dleqMsg msg = .ok m ∧ proof.length = 64 ∧ fromBytesBE (proof.drop 32) < o.n ∧
        fromBytesBE (proof.drop 32) • L.abs Gp - fromBytesBE (proof.take 32) • L.abs A ≠ 0 ∧
        fromBytesBE (proof.drop 32) • L.abs B - fromBytesBE (proof.take 32) • L.abs C ≠ 0 ∧
        ∀ R1 R2 : α,
          L.abs R1 = fromBytesBE (proof.drop 32) • L.abs Gp - fromBytesBE (proof.take 32) • L.abs A →
          L.abs R2 = fromBytesBE (proof.drop 32) • L.abs B - fromBytesBE (proof.take 32) • L.abs C →
          fromBytesBE (proof.take 32) = dleqChallenge o H A B C R1 R2 Gp m :=
  dleq_verify_group_iff H L A B C Gp proof msg

/-- **T8 (for no altered statement), as a reduction with explicit witnesses.** Take the honest proof `(e, s)` made with
secret `a` and nonce `k` for the statement `(A = a•G', B, C = a•B)`, generator `G'`, message `m`.  If
`assert_proof_as_valid` accepts it for ANY statement `(A', B', C')`, generator `G''`, message `m'` whose encoding
differs from the original's in at least one of the five places (an altered point, generator or message), then the two
challenge preimages — both written out as terms: the prover's `A‖B‖C‖G'‖k•G'‖k•B‖m` and the verifier's
`A'‖B'‖C'‖G''‖(s•G''−e•A')‖(s•B'−e•C')‖m'` — are DIFFERENT octet strings with the SAME tagged hash: a collision of the
challenge hash, exhibited (not the pigeonhole existential).  No group law is used: any `GroupOps`, any hash with 32-byte
digests.  Together with `dleq_special_sound` (a false statement is accepted for one challenge value per commitment pair
at most) this is the soundness reduction; unconditional soundness is not claimed. -/
theorem dleq_altered_statement_collides (H : Bytes → Bytes → Bytes) (hn : 0 < o.n ∧ o.n ≤ 256 ^ 32)
    (hH : ∀ t m, (H t m).length = 32)
    (a k : Int) (B Gp : α) (m : Bytes) (A' B' C' Gp' : α) (msg' : Option Bytes) (m' : Bytes)
    (hm' : dleqMsg msg' = .ok m')
    (halt : ¬ (cbytes o (o.mul a Gp) = cbytes o A' ∧ cbytes o B = cbytes o B' ∧ cbytes o (o.mul a B) = cbytes o C'
      ∧ cbytes o Gp = cbytes o Gp' ∧ m = m'))
    (hacc : dleqVerify o H A' B' C' (dleqProofOf o H a k B Gp m) Gp' msg' = .ok ()) :
    let e := dleqChallenge o H (o.mul a Gp) B (o.mul a B) (o.mul k Gp) (o.mul k B) Gp m
    let s := (k + e * a) % o.n
    let t := dleqPreimage o (o.mul a Gp) B (o.mul a B) (o.mul k Gp) (o.mul k B) Gp m
    let t' := dleqPreimage o A' B' C' (o.dmul s Gp' (-e) A') (o.dmul s B' (-e) C') Gp' m'
    t ≠ t' ∧ H Gen.Interactive.DLEQ_CHALLENGE_TAG t = H Gen.Interactive.DLEQ_CHALLENGE_TAG t' :=
  Btc.C16.dleq_altered_statement_collides H hn hH a k B Gp m A' B' C' Gp' msg' m' hm' halt hacc

/-- `dleqPreimage` is what `_challenge` hashes: the challenge is the big-endian integer of its tagged hash -/
example (H : Bytes → Bytes → Bytes) (A B C R1 R2 Gp : α) (m : Bytes) :
    dleqChallenge o H A B C R1 R2 Gp m
      = fromBytesBE (H Gen.Interactive.DLEQ_CHALLENGE_TAG (dleqPreimage o A B C R1 R2 Gp m)) := rfl

/-- **T8 (completeness).** For any secret `a`, any nonce `k ∈ 1..n-1`, any generator `G' ≠ ∞`, any
`B ≠ ∞` and any message, the proof `(e, k + e·a)` verifies for the statement `(a•G', B, a•B)` it was
made for (`H` any hash with 32-byte digests). -/
theorem dleq_complete (L : LawfulGroup o G) (H : Bytes → Bytes → Bytes) (hn : o.n ≤ 256 ^ 32)
    (hH : ∀ t m, (H t m).length = 32) (a k : Int) (hk0 : 0 < k) (hk1 : k < o.n) (B Gp : α)
    (hB : L.abs B ≠ 0) (hG : L.abs Gp ≠ 0) (msg : Option Bytes) (m : Bytes) (hm : dleqMsg msg = .ok m) :
    dleqVerify o H (o.mul a Gp) B (o.mul a B) (dleqProofOf o H a k B Gp m) Gp msg = .ok () :=
  LG.dleq_complete_nonce L H hn hH a k hk0 hk1 B Gp hB hG msg m hm

/-- T8: `generate_proof` answers (its built-in self-check never fires) for every in-range secret,
32-byte aux and admissible message, unless the derived nonce is zero; and what it answers verifies. -/
theorem dleq_generate_ok (L : LawfulGroup o G) (H : Bytes → Bytes → Bytes) (hn : o.n ≤ 256 ^ 32)
    (hH : ∀ t m, (H t m).length = 32) (a : Int) (ha : 0 < a ∧ a < o.n) (B Gp : α)
    (hB : L.abs B ≠ 0) (hG : L.abs Gp ≠ 0) (aux : Bytes) (haux : aux.length = 32) (msg : Option Bytes)
    (m : Bytes) (hm : dleqMsg msg = .ok m)
    (hk : dleqNonce o H a (o.mul a Gp) (o.mul a B) aux m ≠ 0) :
    ∃ π, dleqGenerate o H a B aux Gp msg = .ok π ∧
      dleqVerify o H (o.mul a Gp) B (o.mul a B) π Gp msg = .ok () := by
  obtain ⟨π, h⟩ := LG.dleq_generate_defined L H hn hH a ha B Gp hB hG aux haux msg m hm hk
  exact ⟨π, h, dleq_generate_verifies H a B Gp aux msg π h⟩

/-- **T8 (special soundness).** Two accepting transcripts with the same commitments and challenges
that differ modulo `n` yield a witness `w` with `A = w•G'` and `C = w•B`: a statement with no common
discrete logarithm is accepted for at most one challenge value (mod n) per commitment pair, i.e.
only if the hash hits it. -/
theorem dleq_special_sound (L : LawfulGroup o G) (A B C Gp : α) (e s e' s' : Int)
    (h1 : L.abs (o.dmul s Gp (-e) A) = L.abs (o.dmul s' Gp (-e') A))
    (h2 : L.abs (o.dmul s B (-e) C) = L.abs (o.dmul s' B (-e') C))
    (hne : (e - e') % o.n ≠ 0) :
    ∃ w : Int, L.abs A = w • L.abs Gp ∧ L.abs C = w • L.abs B :=
  LG.dleq_special_soundness L A B C Gp e s e' s' h1 h2 hne

/-! ## Silent payments (BIP352) -/

/-- **T9 (inputs).** The scanner's sum of input public keys — taproot inputs given as the even-y
point of their x-only key — is the sender's `prv_key_sum` times `G` (so `pub_key_sum` answers, with a
non-zero point), whatever the mix of taproot / non-taproot inputs and their parities. -/
theorem sp_input_sums_agree (L : LawfulGroup o G) (keys : List (Int × Bool)) (a : Int)
    (h : prvKeySum o keys = .ok a) :
    0 < a ∧ a < o.n ∧
    ∃ A, pubKeySum o (keys.map fun k => spInputPoint o k.1 k.2) = .ok A ∧ L.abs A = a • L.abs o.gen
      ∧ L.abs A ≠ 0 :=
  LG.pubKeySum_of_prvKeySum L keys a h

/-- **T9 (agreement).** Sender and scanner derive the same input hash and, for the recipient with
scan key `b_scan`, the same shared secret, hence the same tweak `t_k` for every counter `k`
(repeated recipients / labels only change which `k` and which `B_m` the tweak is added to). -/
theorem sp_sender_scanner_agree (L : LawfulGroup o G) (H : Bytes → Bytes → Bytes)
    (keys : List (Int × Bool)) (a : Int) (h : prvKeySum o keys = .ok a)
    (A : α) (hA : pubKeySum o (keys.map fun k => spInputPoint o k.1 k.2) = .ok A)
    (lowest : Bytes) (hh : Int) (hih : inputHash o H lowest (o.mul a o.gen) = .ok hh)
    (bScan : Int) (hb : 0 < bScan ∧ bScan < o.n) :
    inputHash o H lowest A = .ok hh ∧
    ∀ k, outputTweak o H (o.mul (hh * a % o.n) (o.mul bScan o.gen)) k
        = outputTweak o H (o.mul bScan (o.mul hh A)) k :=
  LG.sp_agreement L H keys a h A hA lowest hh hih bScan hb

/-- **T9 (BIP375 shares).** For ANY list of eligible input keys — two or three inputs locked to the
SAME key included: their equal per-input shares all count — the sum of the per-input ECDH shares
`aᵢ•B_scan` is `prv_key_sum•B_scan` (so `pub_key_sum` of the shares answers), and the secret the PSBT
roles derive from it gives the sender's tweaks `t_k` for every `k`. (The statement is the sum and the equality
of tweaks; that the two routes then write the same output KEYS — `psbtOutputKeys` vs `outputKeys` — is tied by
the `psbt.sp_output_keys` stream and the `psbt.sp_roles` oracle, not by a theorem.) -/
theorem sp_psbt_shares_sum (L : Lawful o G) (H : Bytes → Bytes → Bytes) (keys : List (Int × Bool))
    (a : Int) (h : prvKeySum o keys = .ok a) (Bscan : α) (hB : L.abs Bscan ≠ 0)
    (hh : Int) (hh0 : 0 < hh) (hh1 : hh < o.n) :
    ∃ S, pubKeySum o (inputShares o keys Bscan) = .ok S ∧ L.abs S = a • L.abs Bscan ∧
      ∀ k, outputTweak o H (o.mul hh S) k = outputTweak o H (o.mul (hh * a % o.n) Bscan) k :=
  sp_share_sum L H keys a h Bscan hB hh hh0 hh1

/-- **T9 (what a scan reports opens).** For ANY transaction outputs, tweak data and label map built
as `label_lookup` builds it: every `(key, tweak)` that `scan_outputs` reports is one of the outputs
given, and `(b_spend + tweak)•G` is a non-zero point with that x-coordinate — direct and labelled
matches, both parities, every `k`.
(Partial with respect to DESIGN's T9: that the scan does not stop before the sender's last output —
completeness of the `k` walk when several outputs could match one step — is not proved here; it is
covered by the `sp.*` correspondence streams and the `sp.sender_scanner` oracle.) -/
theorem sp_scan_reports_spendable_partial (L : Lawful o G) (H : Bytes → Bytes → Bytes)
    (hp : o.p ≤ 256 ^ 32) (labels : List (Bytes × Int)) (hlab : LabelsOk o L labels)
    (bScan bSpend : Int) (Bspend T : α) (hB : L.abs Bspend = bSpend • L.abs o.gen)
    (outputs : List Bytes) (res : List (Bytes × Int))
    (h : scanOutputs o H bScan Bspend T outputs labels = .ok res) :
    ∀ e ∈ res, e.1 ∈ outputs ∧ ∃ P : α, L.abs P = (bSpend + e.2) • L.abs o.gen ∧ L.abs P ≠ 0
      ∧ sBytes (o.x P) = e.1 :=
  scanOutputs_sound L H hp labels hlab bScan bSpend Bspend T hB outputs res h

/-- **T9 (completeness of the `k` walk, unlabelled wallet).** If the transaction's outputs contain
(as a sub-multiset: decoys, other recipients' outputs, any order) the chain
`x(B_spend + t_k•G), x(B_spend + t_{k+1}•G), …` the sender created for this recipient — repeated
payments to the same address advance `k` — then a scan without labels reports exactly these keys,
in order, each with its tweak `t_k`, before anything else. With T9 (agreement) the `t_k` are the
sender's, and with `sp_scan_reports_spendable_partial` each is opened by `b_spend + t_k`.
(For a wallet WITH labels this walk-completeness is not proved: see the partial theorem above.) -/
theorem sp_scan_complete_unlabelled (H : Bytes → Bytes → Bytes) (secret Bspend : α)
    (exp : List (Bytes × Int)) (k fuel : Nat) (hch : SpChain o H secret Bspend k exp)
    (hfuel : exp.length ≤ fuel) (rem : List Bytes) (hsub : (exp.map Prod.fst).Subperm rem)
    (res : List (Bytes × Int)) (h : scanLoop o H secret Bspend [] fuel k rem = .ok res) :
    exp <+: res :=
  scanLoop_complete_unlabelled H secret Bspend exp k fuel hch hfuel rem hsub res h

/-- **T9 (the sender's counter `k`).** `output_keys`' derivation for one group — `j` payments to the SAME
address under the group's secret, `k` counting from `k₀` (`groupOutputs`) — answers exactly a chain
`x(B_spend + t_k•G)`, `k = k₀ … k₀+j−1`: the counter advances once per repeated recipient. Composed with
`sp_scan_complete_unlabelled` (same secret: T9 agreement): every one of the `j` outputs is found.
(Several DIFFERENT addresses in one group, several groups and `positionsOf`/`groupOffset`'s re-ordering into address
order: `sp_output_keys_is_walk` and `sp_end_to_end` below.) -/
theorem sp_sender_group_is_chain (H : Bytes → Bytes → Bytes) (secret Bspend : α) (j k : Nat) (xs : List Bytes)
    (h : groupOutputs o H secret (List.replicate j Bspend) k = .ok xs) :
    ∃ exp, exp.map Prod.fst = xs ∧ exp.length = j ∧ SpChain o H secret Bspend k exp :=
  groupOutputs_chain H secret Bspend j k xs h

/-- **T9 (`output_keys` is the walk in address order).** btclib's `output_keys` groups the addresses by scan key
(`groups.setdefault`), derives the keys group by group with `k` counting inside a group, and then puts them back in
the order of the addresses (`positions`, `first`): model `outputKeys`, mirrored line by line.  It answers a key list
EXACTLY WHEN the one-walk specification `outputKeysWalk` does, and the same one — the scan points the addresses carry
being points of the curve, never infinity (`hnz`: `keys_from_address` decodes them with `point_from_octets`) —:
recipient `i` gets `x(B_m_i + t_k•G)` under its scan key's secret with `k` = the number of EARLIER recipients with that
scan key, at position `i`.  So the re-ordering (`positionsOf`, `groupOffset`) puts every key where its address was, and
the `K_MAX` refusal is the same, for any interleaving of scan keys, repeated and labelled addresses.  (Agreement of the
two forms on REFUSED inputs — which error — is not stated; all model errors of the two are `err value`.) -/
theorem sp_output_keys_is_walk (L : LawfulGroup o G) (H : Bytes → Bytes → Bytes) (keys : List (Int × Bool))
    (outpoints : List Bytes) (recips : List (α × α)) (hnz : ∀ r ∈ recips, L.abs r.1 ≠ 0) (outs : List Bytes) :
    outputKeys o H keys outpoints recips = .ok outs ↔ outputKeysWalk o H keys outpoints recips = .ok outs :=
  ⟨outputKeys_is_walk L H keys outpoints recips hnz outs, walk_is_outputKeys L H keys outpoints recips hnz outs⟩

/-- **T9 (end to end: what the sender creates for an address, that address's scanner finds).** The sender pays ANY list
of addresses — several scan keys, repeated addresses, any order — with `output_keys` AS BTCLIB COMPUTES IT (`outputKeys`:
group by scan key, derive group by group, re-order into address order; `sp_output_keys_is_walk` reduces it to the walk)
from ANY input set (taproot keys negated to even y).  The recipient `(b_scan, B_spend)`, all of whose payments go to
its unlabelled address, runs `scan_transaction_outputs` on outputs containing the sender's keys (decoys allowed, any
order), with the input public keys it sees (even-y points for taproot inputs) and no labels.  Then the scan's answer
STARTS with exactly this recipient's outputs (`mine`: the sender's keys at the positions of this recipient's
addresses), in address order, each with the tweak `t_k` the sender used: every one is found; with
`sp_scan_reports_spendable_partial`, `b_spend + t_k` opens it.  Sender's and scanner's secrets are different
computations (`(h·a)•B_scan` vs `b_scan•(h•A)`): `sp_agreement` + the congruence `SpChain.congr` join them.
No `lift_x` is involved (`LawfulGroup`: for `Btc.EC.ops`' carrier no `p ≡ 3 mod 4`, no cofactor hypothesis); the
statement is over a lawful instance — its raw `EC.ops` form (an `OpsHom` transfer of `scanLoop`/`outputKeys`) is
not written out.  Labelled addresses of the SCANNING recipient: not covered (see `sp_scan_reports_spendable_partial`);
other recipients may be labelled at will. -/
theorem sp_end_to_end (L : LawfulGroup o G) (H : Bytes → Bytes → Bytes) (keys : List (Int × Bool))
    (outpoints : List Bytes) (recips : List (α × α)) (hnz : ∀ r ∈ recips, L.abs r.1 ≠ 0) (outs : List Bytes)
    (hsend : outputKeys o H keys outpoints recips = .ok outs)
    (bScan : Int) (hb : 0 < bScan ∧ bScan < o.n) (Bspend : α)
    (hrec : ∀ r ∈ recips, o.eq r.1 (o.mul bScan o.gen) = true → r = (o.mul bScan o.gen, Bspend))
    (txOuts : List Bytes) (hsub : outs.Subperm txOuts) (res : List (Bytes × Int))
    (hscan : scanTransactionOutputs o H bScan Bspend outpoints (keys.map fun k => spInputPoint o k.1 k.2) txOuts []
      = .ok res) :
    ∃ exp, exp <+: res ∧ exp.map Prod.fst = mine o (o.mul bScan o.gen) outs recips :=
  sp_end_to_end_output_keys L H keys outpoints recips hnz outs hsend bScan hb Bspend hrec txOuts hsub res hscan

/-- non-vacuity of `sp_end_to_end`, every hypothesis discharged by evaluation, on the lawful group ℤ/3
(`Proofs/C12/Toy.lean`): three addresses with INTERLEAVED scan keys (`1•G`, `2•G`, `1•G`), a decoy output in front -/
example : ∃ exp : List (Bytes × Int), exp <+: [(sBytes 5, 1), (sBytes 5, 1), (sBytes 5, 1)] ∧ exp.length = 2 := by
  obtain ⟨exp, h1, h2⟩ := sp_end_to_end Btc.Taproot.Toy.lawful.toLawfulGroup ToyEx.Ht [(1, false)] [[0]]
    [((1 : ZMod 3), (1 : ZMod 3)), (2, 1), (1, 1)] (by decide) [sBytes 5, sBytes 5, sBytes 5] (by decide +kernel)
    1 (by decide) 1 (by decide) (sBytes 9 :: [sBytes 5, sBytes 5, sBytes 5]) (List.sublist_cons_self _ _).subperm
    [(sBytes 5, 1), (sBytes 5, 1), (sBytes 5, 1)] (by decide +kernel)
  refine ⟨exp, h1, ?_⟩
  have := congrArg List.length h2
  rw [List.length_map] at this
  rw [this]; decide +kernel

/-- the chain hypothesis is satisfiable: the empty chain at any `k` -/
example (H : Bytes → Bytes → Bytes) (secret Bspend : α) : SpChain o H secret Bspend 0 [] := .nil 0

/-- the generated BIP374 / BIP352 sizes are the ones the proofs used -/
example : Gen.Interactive.DLEQ_SCALAR_SIZE = 32 ∧ Gen.Interactive.DLEQ_PROOF_SIZE = 64
    ∧ Gen.Interactive.SP_LABEL_SIZE = 4 ∧ Gen.Interactive.SP_K_MAX = 2323 := by decide
/-- `LabelsOk` is satisfiable non-trivially: the empty map, and hypotheses of T9 hold for it -/
example (L : Lawful o G) : LabelsOk o L [] := fun _ h => by cases h

/-! ## Pedersen commitments -/

/-- **T10 (Pedersen).** Whatever `commit(r, v)` answers, `verify(r, v, ·)` accepts; and `verify`
accepts a point exactly when it is `r•G + v•H ≠ ∞` (`H` the second generator, any point). -/
theorem pedersen_commit_verifies (L : LawfulGroup o G) (Hp : α) (r v : Int) (C : α)
    (h : pedersenCommit o Hp r v = .ok C) : pedersenVerify o Hp r v C = true :=
  LG.pedersen_verify_commit L Hp r v C h

theorem pedersen_verify_characterised (L : LawfulGroup o G) (Hp : α) (r v : Int) (C : α) :
    pedersenVerify o Hp r v C = true ↔ L.abs C = r • L.abs o.gen + v • L.abs Hp ∧ L.abs C ≠ 0 :=
  LG.pedersen_verify_iff L Hp r v C

/-! ## ECIES (BIE1, `ecc/ecies.py`) -/

/-- **T7 (round trip).** For the recipient key pair `(d, P = d•G)`: whatever envelope `encrypt` answers
(any ephemeral key, message, magic), `decrypt` with `d` parses it, accepts its MAC and returns the
message — for ANY cipher with `D(k, iv, E(k, iv, m)) = m` and ANY MAC, sha512 a parameter too. -/
theorem ecies_decrypt_encrypt (L : Lawful o G) (h512 : Bytes → Bytes) (mac : Bytes → Bytes → Bytes)
    (hp : o.p ≤ 256 ^ 32) (encF decF : Bytes → Bytes → Bytes → R Bytes)
    (hD : ∀ k iv m c, encF k iv m = .ok c → decF k iv c = .ok m)
    (d : Int) (hd : 0 < d ∧ d < o.n) (P : α) (hP : L.abs P = d • L.abs o.gen)
    (q : Int) (msg magic env : Bytes)
    (h : eciesEncrypt o h512 mac encF msg P q magic = .ok env) :
    eciesDecrypt o h512 mac decF env d magic = .ok msg :=
  ecies_roundtrip L h512 mac hp encF decF hD d hd P hP q msg magic env h

/-- **T7 (MAC-then-decrypt).** Any accepted envelope, under any key `d'`, carries as its tag the MAC of
its framing under the MAC key derived from `d'•E` (`E` the ephemeral point): nothing is decrypted
otherwise. -/
theorem ecies_accepts_only_its_mac (h512 : Bytes → Bytes) (mac : Bytes → Bytes → Bytes)
    (decF : Bytes → Bytes → Bytes → R Bytes) (data : Bytes) (d' : Int) (magic m : Bytes)
    (h : eciesDecrypt o h512 mac decF data d' magic = .ok m) :
    ∃ E : α, cpoint o ((data.drop 4).take 33) = .ok E ∧
      ((data.drop 4).drop 33).drop (((data.drop 4).drop 33).length - 32)
        = mac (eciesKeys o h512 d' E).2.2
            (data.take 4 ++ ((data.drop 4).take 33
              ++ ((data.drop 4).drop 33).take (((data.drop 4).drop 33).length - 32))) :=
  ecies_accept_inv h512 mac decF data d' magic m h

/-- **T7 (wrong key ⇒ different MAC key input).** A key `d' ≢ d (mod n)` derives its keys from a
compressed shared point DIFFERENT from the sender's: with the previous theorem, an envelope made for
`P = d•G` is accepted under `d'` only if sha512's last 32 bytes collide on these two explicit inputs
or the MAC collides under two keys (the reduction; no cryptographic assumption is proved). -/
theorem ecies_wrong_key_different_kdf_input (L : Lawful o G) (hp : o.p ≤ 256 ^ 32) (d d' q : Int)
    (hq : 0 < q ∧ q < o.n) (hdd : (d' - d) % o.n ≠ 0) (P E : α)
    (hP : L.abs P = d • L.abs o.gen) (hE : L.abs E = q • L.abs o.gen)
    (h1 : L.abs (o.mul d' E) ≠ 0) (h2 : L.abs (o.mul q P) ≠ 0) :
    cbytes o (o.mul d' E) ≠ cbytes o (o.mul q P) :=
  ecies_wrong_key_kdf_input L hp d d' q hq hdd P E hP hE h1 h2

/-- **T7 (for no other key), as a reduction with explicit witnesses.** `env` is what `encrypt` answered for the public
key `P = d•G` with ephemeral key `q`.  If `decrypt` with a key `d' ≢ d (mod n)` ACCEPTS `env` (returns any plaintext at
all), then the two KDF inputs — the compressed shared points `d'•(q•G)` the other key computes and `q•P` the sender used —
are DIFFERENT 33-byte strings whose derived MAC keys (bytes 32.. of `sha512`) give the SAME tag on the envelope's
framing `magic ‖ eph ‖ ciphertext` (= `env` without its last 32 bytes): a MAC forgery under an unrelated key or a
collision of `sha512`'s tail, exhibited as terms.  Any cipher, MAC and `sha512` (parameters); secrecy is not claimed. -/
theorem ecies_wrong_key_forges (L : Lawful o G) (h512 : Bytes → Bytes) (mac : Bytes → Bytes → Bytes)
    (hp : o.p ≤ 256 ^ 32) (encF decF : Bytes → Bytes → Bytes → R Bytes)
    (d : Int) (hd : 0 < d ∧ d < o.n) (P : α) (hP : L.abs P = d • L.abs o.gen)
    (q : Int) (msg magic env : Bytes) (henc : eciesEncrypt o h512 mac encF msg P q magic = .ok env)
    (d' : Int) (hdd : (d' - d) % o.n ≠ 0) (m' : Bytes)
    (hdec : eciesDecrypt o h512 mac decF env d' magic = .ok m') :
    cbytes o (o.mul d' (o.mul q o.gen)) ≠ cbytes o (o.mul q P) ∧
    mac ((h512 (cbytes o (o.mul d' (o.mul q o.gen)))).drop 32) (env.take (env.length - 32))
      = mac ((h512 (cbytes o (o.mul q P))).drop 32) (env.take (env.length - 32)) :=
  Btc.C16.ecies_wrong_key_forges L h512 mac hp encF decF d hd P hP q msg magic env henc d' hdd m' hdec

/-! ### non-vacuity of T7: an envelope `encrypt` actually ANSWERS (`.ok env`), on the lawful group ℤ/3, with a cipher
that appends one byte (a 15-byte message gives one 16-byte block; `D(E(m)) = m` proved below), a "sha512" and a "MAC"
that depend on their inputs (`Proofs/C16/EciesExample.lean`); `decrypt` with the recipient's key returns the message BY THE THEOREM, and evaluation
agrees; the other key of the group (`1` instead of `2`) is refused at the MAC (`err runtime`) -/

example : eciesDecrypt ToyEx.T EciesEx.h512 EciesEx.mac EciesEx.dec EciesEx.env 2 EciesEx.magic = .ok EciesEx.msg :=
  ecies_decrypt_encrypt Btc.Taproot.Toy.lawful EciesEx.h512 EciesEx.mac ToyEx.hp.1 EciesEx.enc EciesEx.dec EciesEx.hD
    2 (by decide) (ToyEx.T.mul 2 ToyEx.T.gen) (Btc.Taproot.Toy.lawful.abs_mul 2 _) 1 EciesEx.msg EciesEx.magic
    EciesEx.env EciesEx.henc
example : eciesDecrypt ToyEx.T EciesEx.h512 EciesEx.mac EciesEx.dec EciesEx.env 1 EciesEx.magic = .error .runtime := by
  decide +kernel

/-- the hypotheses of T7 are jointly satisfiable: a cipher that pads (one byte appended; `encrypt` refuses a
cipher that does not lengthen the message) with `D(E(m)) = m`, and the generated BIE1 sizes are the ones the
proofs used -/
example : ∀ k iv m c, (fun (_ _ : Bytes) (m : Bytes) => (Except.ok (m ++ [0]) : R Bytes)) k iv m = .ok c →
    (fun (_ _ : Bytes) (c : Bytes) => (Except.ok c.dropLast : R Bytes)) k iv c = .ok m := by
  intro k iv m c h; cases h; simp
example : eMagicSize = 4 ∧ eEphSize = 33 ∧ eMacSize = 32 ∧ eBlockSize = 16
    ∧ Gen.Interactive.ECIES_MAGIC = [66, 73, 69, 49] := by decide

/-! ### the `lift_x`-free theorems above (ECDH, DLEQ, Pedersen, BIP352 input sums / agreement / end to end) are stated
over `LawfulGroup` — every law of `Lawful` except the two about `lift_x`, which C01 proves for the carrier with NO
`p ≡ 3 (mod 4)`.  Their `Lawful` forms are one-line weakenings through `Lawful.toLawfulGroup` and are NOT counted as
obligations: they live in `Proofs/C16/LG.lean` (`…_lawful`). -/

end Props.C16

/-! ## End to end: the same theorems about `Btc.EC.ops C`, no `Lawful` hypothesis

`L : Lawful o G` above is discharged by C01's capstone `Btc.C01.lawful_ec`, for every curve with `CurveOk p C` and
`p ≡ 3 (mod 4)` (proofs: Proofs/E2E/C16.lean).  ECDH (T5) and the silent-payment agreement (T9) never call `lift_x`:
they are about `Btc.EC.ops C` ITSELF, raw integer pairs.  MuSig2 (T2, T3) parses every key and nonce with `lift_x`
throughout the session: stated over `opsSub K` (`Btc.EC.ops C` on the underlying pairs, `lift_x` answering inside the
`n`-torsion; `Btc.C01.opsSub_val`).  For secp256k1 nothing is assumed about the curve (primality of `p`, `n`: Pratt
certificates, `Btc.E2E.secp256k1_p_prime`, `secp256k1_n_prime`). -/
namespace Props.C16
open Btc Btc.EC Btc.C01 Btc.E2E Btc.Py Btc.C16

/-- T5 on btclib's arithmetic, any curve -/
theorem ecdh_symmetric_ec {p : ℕ} [Fact p.Prime] {C : Curve} (K : CurveOk p C)
    (kdf : Bytes → R Bytes) (a b : ℤ) :
    diffieHellman (EC.ops C) kdf a ((EC.ops C).mul b C.G) = diffieHellman (EC.ops C) kdf b ((EC.ops C).mul a C.G) :=
  Btc.E2E.ecdh_symmetric_ec K kdf a b

/-- T9 (agreement) on btclib's arithmetic, any curve -/
theorem sp_sender_scanner_agree_ec {p : ℕ} [Fact p.Prime] {C : Curve} (K : CurveOk p C)
    (H : Bytes → Bytes → Bytes) (keys : List (ℤ × Bool)) (a : ℤ) (h : prvKeySum (EC.ops C) keys = .ok a)
    (A : Point) (hA : pubKeySum (EC.ops C) (keys.map fun k => spInputPoint (EC.ops C) k.1 k.2) = .ok A)
    (lowest : Bytes) (hh : ℤ) (hih : inputHash (EC.ops C) H lowest ((EC.ops C).mul a C.G) = .ok hh)
    (bScan : ℤ) (hb : 0 < bScan ∧ bScan < C.n) :
    inputHash (EC.ops C) H lowest A = .ok hh ∧
    ∀ k, outputTweak (EC.ops C) H ((EC.ops C).mul (hh * a % C.n) ((EC.ops C).mul bScan C.G)) k
        = outputTweak (EC.ops C) H ((EC.ops C).mul bScan ((EC.ops C).mul hh A)) k :=
  Btc.E2E.sp_sender_scanner_agree_ec K H keys a h A hA lowest hh hih bScan hb

/-- T9 (inputs) on btclib's arithmetic, any curve: the scanner's key sum answers and is `==` to `mult a G` -/
theorem sp_input_sums_agree_ec {p : ℕ} [Fact p.Prime] {C : Curve} (K : CurveOk p C)
    (keys : List (ℤ × Bool)) (a : ℤ) (h : prvKeySum (EC.ops C) keys = .ok a) :
    0 < a ∧ a < C.n ∧
    ∃ A, pubKeySum (EC.ops C) (keys.map fun k => spInputPoint (EC.ops C) k.1 k.2) = .ok A ∧
      (EC.ops C).eq A ((EC.ops C).mul a C.G) = true :=
  Btc.E2E.sp_input_sums_agree_ec K keys a h

/-- T2 over `opsSub K`, any curve -/
theorem musig2_partial_sig_verifies_ec {p : ℕ} [Fact p.Prime] {C : Curve} (K : CurveOk p C) (h34 : p % 4 = 3)
    (H : Bytes → Bytes → Bytes) (hp : C.p ≤ 256 ^ 32) (hn : C.n ≤ 256 ^ 32) (s : SessionCtx) (d k1 k2 σ : ℤ)
    (hs : sign (opsSub K) H k1 k2 (individualPubKey (EC.ops C) d) d s = .ok σ) :
    partialSigVerify (opsSub K) H (sBytes σ)
      (cbytes (EC.ops C) ((EC.ops C).mul k1 C.G) ++ cbytes (EC.ops C) ((EC.ops C).mul k2 C.G))
      (individualPubKey (EC.ops C) d) s = .ok true :=
  Btc.E2E.musig2_partial_sig_verifies_ec K h34 H hp hn s d k1 k2 σ hs

/-- T3 over `opsSub K`, any curve -/
theorem musig2_aggregate_verifies_ec {p : ℕ} [Fact p.Prime] {C : Curve} (K : CurveOk p C) (h34 : p % 4 = 3)
    (H : Bytes → Bytes → Bytes) (hp : C.p ≤ 256 ^ 32) (hn : C.n ≤ 256 ^ 32) (l : List Signer)
    (hl : ∀ t ∈ l, t.ok (EC.ops C)) (tweaks : List (Bytes × Bool)) (msg an : Bytes)
    (han : nonceAgg (opsSub K) (l.map (Signer.pubNonce (opsSub K))) = .ok an)
    (v : SessionValues (SubPt p C))
    (hv : sessionValues (opsSub K) H (honestCtx (opsSub K) l an tweaks msg none) = .ok v)
    (hR : ((l.map Signer.k1).sum + v.b * (l.map Signer.k2).sum) % C.n ≠ 0)
    (sigs : List ℤ)
    (hs : List.Forall₂ (fun t σ => sign (opsSub K) H t.k1 t.k2 (t.pk (opsSub K)) t.d
      (honestCtx (opsSub K) l an tweaks msg none) = .ok σ) l sigs) :
    ∃ r sg, partialSigAgg (opsSub K) H (sigs.map sBytes) (honestCtx (opsSub K) l an tweaks msg none) = .ok (r, sg) ∧
      bip340Verify (opsSub K) H ((EC.ops C).x v.Q.1) msg r sg = true :=
  Btc.E2E.musig2_aggregate_verifies_ec K h34 H hp hn l hl tweaks msg an han v hv hR sigs hs

/-- T5 on secp256k1, unconditional (primality of `p`, `n` proved: Pratt certificates) -/
theorem ecdh_symmetric_secp256k1
    (kdf : Bytes → R Bytes) (a b : ℤ) :
    diffieHellman (EC.ops secp256k1) kdf a ((EC.ops secp256k1).mul b secp256k1.G) =
      diffieHellman (EC.ops secp256k1) kdf b ((EC.ops secp256k1).mul a secp256k1.G) :=
  Btc.E2E.ecdh_symmetric_secp256k1 kdf a b

/-- T9 (agreement) on secp256k1 -/
theorem sp_sender_scanner_agree_secp256k1
    (H : Bytes → Bytes → Bytes) (keys : List (ℤ × Bool)) (a : ℤ) (h : prvKeySum (EC.ops secp256k1) keys = .ok a)
    (A : Point)
    (hA : pubKeySum (EC.ops secp256k1) (keys.map fun k => spInputPoint (EC.ops secp256k1) k.1 k.2) = .ok A)
    (lowest : Bytes) (hh : ℤ)
    (hih : inputHash (EC.ops secp256k1) H lowest ((EC.ops secp256k1).mul a secp256k1.G) = .ok hh)
    (bScan : ℤ) (hb : 0 < bScan ∧ bScan < secp256k1.n) :
    inputHash (EC.ops secp256k1) H lowest A = .ok hh ∧
    ∀ k, outputTweak (EC.ops secp256k1) H
          ((EC.ops secp256k1).mul (hh * a % secp256k1.n) ((EC.ops secp256k1).mul bScan secp256k1.G)) k
        = outputTweak (EC.ops secp256k1) H ((EC.ops secp256k1).mul bScan ((EC.ops secp256k1).mul hh A)) k :=
  Btc.E2E.sp_sender_scanner_agree_secp256k1 H keys a h A hA lowest hh hih bScan hb

/-- T2 on secp256k1 (`secpOps` = `opsSub` of secp256k1) -/
theorem musig2_partial_sig_verifies_secp256k1
    (H : Bytes → Bytes → Bytes) (s : SessionCtx) (d k1 k2 σ : ℤ)
    (hs : sign secpOps H k1 k2 (individualPubKey (EC.ops secp256k1) d) d s = .ok σ) :
    partialSigVerify secpOps H (sBytes σ)
      (cbytes (EC.ops secp256k1) ((EC.ops secp256k1).mul k1 secp256k1.G) ++
        cbytes (EC.ops secp256k1) ((EC.ops secp256k1).mul k2 secp256k1.G))
      (individualPubKey (EC.ops secp256k1) d) s = .ok true :=
  Btc.E2E.musig2_partial_sig_verifies_secp256k1 H s d k1 k2 σ hs

/-- T3 on secp256k1 -/
theorem musig2_aggregate_verifies_secp256k1
    (H : Bytes → Bytes → Bytes) (l : List Signer) (hl : ∀ t ∈ l, t.ok (EC.ops secp256k1))
    (tweaks : List (Bytes × Bool)) (msg an : Bytes)
    (han : nonceAgg secpOps (l.map (Signer.pubNonce secpOps)) = .ok an)
    (v : SessionValues SecpPt)
    (hv : sessionValues secpOps H (honestCtx secpOps l an tweaks msg none) = .ok v)
    (hR : ((l.map Signer.k1).sum + v.b * (l.map Signer.k2).sum) % secp256k1.n ≠ 0)
    (sigs : List ℤ)
    (hs : List.Forall₂ (fun t σ => sign secpOps H t.k1 t.k2 (t.pk secpOps) t.d
      (honestCtx secpOps l an tweaks msg none) = .ok σ) l sigs) :
    ∃ r sg, partialSigAgg secpOps H (sigs.map sBytes) (honestCtx secpOps l an tweaks msg none)
        = .ok (r, sg) ∧
      bip340Verify secpOps H ((EC.ops secp256k1).x v.Q.1) msg r sg = true :=
  Btc.E2E.musig2_aggregate_verifies_secp256k1 H l hl tweaks msg an han v hv hR sigs hs

-- non-vacuity on `y² = x³ + 7` over `F₄₃` (`CurveOk` PROVED, nothing assumed): an ECDH run and what T5 says of the
-- other side; a two-input silent payment (one taproot input with odd y) with every hypothesis of T9 computed
example : diffieHellman (EC.ops toyC) (fun b => .ok b) 3 ((EC.ops toyC).mul 5 toyC.G) = .ok [38] := toy_ecdh
example : diffieHellman (EC.ops toyC) (fun b => .ok b) 5 ((EC.ops toyC).mul 3 toyC.G) = .ok [38] := toy_ecdh_other
example : inputHash (EC.ops toyC) toyH [1] (32, 40) = .ok 21 ∧
    ∀ k, outputTweak (EC.ops toyC) toyH ((EC.ops toyC).mul (21 * 8 % 31) ((EC.ops toyC).mul 7 toyC.G)) k
      = outputTweak (EC.ops toyC) toyH ((EC.ops toyC).mul 7 ((EC.ops toyC).mul 21 (32, 40))) k := toy_sp_agree

/-! ## ElligatorSwift (BIP324, `ecc/ellswift.py`) -/

/-- **T6 (field identities — algebra only: the relation `hs` and the shape of `t` are HYPOTHESES here; that the
integer model establishes them is checked exhaustively on two small curves below and by correspondence).**
In any field with `c² = −3` (characteristic ≠ 2, `c ≠ 0`): if `(v, w)` satisfy
the relation both branches of `_xswiftec_inv_var` establish, `w²·(u² + uv + v²) = −(u³ + b)`, and
`t = w·(u(1 − c)/2 + v)` is what the inverse answers (cases with `1 − √−3`; the sign of `w` is free), then
the forward map's `X = (u³+b−t²)/(2t)`, `Y = (X+t)/(c·u)` give `Y = −w/2`, first candidate
`u + 4Y² = u + w²` and third candidate `(X/Y − u)/2 = v`. -/
theorem ellswift_candidates_minus_algebra_partial {F : Type} [Field F] (u v w c b t X Y : F) (hc : c ^ 2 = -3)
    (h2 : (2 : F) ≠ 0) (hc0 : c ≠ 0) (hu : u ≠ 0)
    (hs : w ^ 2 * (u ^ 2 + u * v + v ^ 2) = -(u ^ 3 + b))
    (ht : 2 * t = w * (u * (1 - c) + 2 * v)) (ht0 : t ≠ 0)
    (hX : X = (u ^ 3 + b - t ^ 2) / (2 * t)) (hY : Y = (X + t) / (c * u)) :
    Y = -w / 2 ∧ u + 4 * Y * Y = u + w ^ 2 ∧ (Y ≠ 0 → (X / Y - u) / 2 = v) :=
  Swift.candidates_minus u v w c b t X Y hc h2 hc0 hu hs ht ht0 hX hY

/-- T6, the cases with `1 + √−3`: `Y = w/2`, first candidate `u + w²`, second candidate `(−X/Y − u)/2 = v`. -/
theorem ellswift_candidates_plus_algebra_partial {F : Type} [Field F] (u v w c b t X Y : F) (hc : c ^ 2 = -3)
    (h2 : (2 : F) ≠ 0) (hc0 : c ≠ 0) (hu : u ≠ 0)
    (hs : w ^ 2 * (u ^ 2 + u * v + v ^ 2) = -(u ^ 3 + b))
    (ht : 2 * t = w * (u * (1 + c) + 2 * v)) (ht0 : t ≠ 0)
    (hX : X = (u ^ 3 + b - t ^ 2) / (2 * t)) (hY : Y = (X + t) / (c * u)) :
    Y = w / 2 ∧ u + 4 * Y * Y = u + w ^ 2 ∧ (Y ≠ 0 → (-X / Y - u) / 2 = v) :=
  Swift.candidates_plus u v w c b t X Y hc h2 hc0 hu hs ht ht0 hX hY

/-- T6: the second branch of the inverse (`s = x − u`, `r² = −s(4(u³+b) + 3su²)`, `2v = −u + r/s`) lands
on the same relation, so with `w² = s` the first candidate `u + w²` is `x`. -/
theorem ellswift_branch2_relation_algebra_partial {F : Type} [Field F] (u v s r b : F) (h2 : (2 : F) ≠ 0) (hs0 : s ≠ 0)
    (hr : r ^ 2 = -s * (4 * (u ^ 3 + b) + 3 * s * u * u)) (hv : 2 * v = -u + r / s) :
    s * (u ^ 2 + u * v + v ^ 2) = -(u ^ 3 + b) :=
  Swift.branch2_relation u v s r b h2 hs0 hr hv

/-- **T6 (the executable model, exhaustively on small curves).** On `y² = x³ + 2` over `F₁₉` and on
`y² = x³ + 7` over `F₄₃` (`p ≡ 3 mod 4`, no point of order 2) — and on a third curve WITH one, see below: for EVERY x-coordinate `x`, every `u ≠ 0`
and every case `c ∈ 0..7`, whenever `xswiftec_inv x u c` is defined, `xswiftec (u, ·)` of it is `x` —
candidate selection included (300 defined triples on the first curve).
PARTIAL with respect to "for all p ≡ 3 mod 4": the bridge from the integer model modulo `p` to the field
identities above (and the guards that make `x` the FIRST valid candidate) is proved only by this
exhaustive evaluation; for secp256k1 it rests on the `ell.*` correspondence streams and the
`ellswift.roundtrip` oracle. The third curve, `y² = x³ + 8` over `F₁₉`, HAS a point of order 2 (`−b` is a cube) and
btclib's `_constants` accepts such a caller-defined curve: there the inverse used to answer `t = 0`, which the forward
map reads as 1 (90 of 408 preimages did not map back — found by the independent audit (AUDIT.md), reproduced by oracle
`ellswift.small_curve_roundtrip`); repaired in /repo c67c7290 (`return t or None`), mirrored in the model
(`tOrNone`), and the round trip now holds on it as well (318 defined triples). -/
theorem ellswift_roundtrip_small_curves_partial :
    Swift.allOk (Swift.toy 19 2) 19 = true ∧ Swift.allOk (Swift.toy 43 7) 43 = true
      ∧ Swift.defined (Swift.toy 19 2) 19 = 300
      ∧ Swift.allOk (Swift.toy 19 8) 19 = true ∧ Swift.defined (Swift.toy 19 8) 19 = 318 :=
  ⟨Swift.roundtrip_p19_b2, Swift.roundtrip_p43_b7, Swift.defined_p19_b2, Swift.roundtrip_p19_b8, Swift.defined_p19_b8⟩

/-- the field hypotheses are satisfiable: `ZMod`-free witness in ℚ(√−3) is not needed — in `ZMod 7`,
`c = 2` has `c² = 4 = −3` -/
example : ((2 : ZMod 7) ^ 2 = -3) ∧ ((2 : ZMod 7) ≠ 0) := by decide

/-! ## Borromean ring signatures -/

/-- **T10 (Borromean, ring-closing step — partial).** At the signer's index `sign` answers
`s = (k + q·e) mod n`; the verifier's recomputed commitment `double_mult_var(−e, q•G, s, G)` is `k•G` and has
the same compressed encoding, for any `q`, `e` and nonce `k ∈ 1..n-1`: so the verifier's hash chain
re-enters the signer's and closes on `e0`. PARTIAL: the chain over rings/positions itself has no Lean
model (property oracle `borromean.sign_verify` on the real code: random ring counts/sizes/indices). -/
theorem borromean_closing_step_partial {α G : Type} [AddCommGroup G] {o : GroupOps α} (L : Lawful o G)
    (q k e : Int) (hk : 0 < k ∧ k < o.n) :
    L.abs (o.dmul (-e) (o.mul q o.gen) ((k + q * e) % o.n) o.gen) = L.abs (o.mul k o.gen) ∧
    cbytes o (o.dmul (-e) (o.mul q o.gen) ((k + q * e) % o.n) o.gen) = cbytes o (o.mul k o.gen) :=
  borromean_closing_step L q k e hk

/-! ## MuSig2 end to end over the RAW arithmetic the driver executes (`Btc.EC.ops secp256k1`): NO curve-level hypothesis

`Proofs/E2E/C16Raw.lean`, `Proofs/E2E/C16Uncond.lean`: every MuSig2 model function commutes with an `OpsHom` (C01's
`opsSub_hom`: the lawful carrier `opsSub` and `Btc.EC.ops C` run alike under cofactor one), so T1–T4 hold for `key_agg`,
`apply_tweak`, `sign`, `partial_sig_verify_`, `nonce_agg`, `session_values`, `partial_sig_agg(_adaptor)`, `adapt`,
`extract_adaptor` and BIP340 verification computed by `Btc.EC.ops secp256k1` ITSELF.  Cofactor one of secp256k1
(`∀ g, n • g = 0` on Mathlib's point group, i.e. `#E(F_p) = n`) is PROVED (`Btc.E2E.secpCofactorOne`,
Proofs/E2E/CofactorOne.lean), as are primality of `p` and `n` (Pratt certificates), `CurveOk`, `p ≡ 3 mod 4` and
`Δ ≠ 0`: the four theorems below carry no hypothesis about the curve.  (The generic forms, for any `CurveOk p C` with
`p ≡ 3 mod 4`, `Δ ≠ 0` and the NAMED hypothesis `hcof`, are `Btc.C16.Raw.musig2_*_raw` in those two files.) -/

/-- **T1 on the executed arithmetic.** After `key_agg` and any plain / x-only tweaks computed by `Btc.EC.ops secp256k1`:
`Q ≠ ∞` and `Q == gacc·Q₀ + tacc·G` with the executed `mult`, `add` and point equality. -/
theorem musig2_tweak_invariant_secp256k1_raw (H : Bytes → Bytes → Bytes) (pks : List Bytes)
    (tweaks : List (Bytes × Bool)) (c : KeyAggCtx EC.Point)
    (hc : keyAggAndTweak (EC.ops EC.secp256k1) H pks tweaks = .ok c) :
    ∃ c0, keyAgg (EC.ops EC.secp256k1) H pks = .ok c0 ∧ (EC.ops EC.secp256k1).isZero c.Q = false ∧
      (EC.ops EC.secp256k1).eq c.Q ((EC.ops EC.secp256k1).add ((EC.ops EC.secp256k1).mul c.gacc c0.Q)
        ((EC.ops EC.secp256k1).mul c.tacc (EC.ops EC.secp256k1).gen)) = true :=
  Btc.C16.Raw.musig2_tweak_invariant_secp256k1 H pks tweaks c hc

theorem musig2_partial_sig_verifies_secp256k1_raw
    (H : Bytes → Bytes → Bytes) (s : SessionCtx) (d k1 k2 σ : ℤ)
    (hs : sign (EC.ops EC.secp256k1) H k1 k2 (individualPubKey (EC.ops EC.secp256k1) d) d s = .ok σ) :
    partialSigVerify (EC.ops EC.secp256k1) H (sBytes σ)
      (cbytes (EC.ops EC.secp256k1) ((EC.ops EC.secp256k1).mul k1 (EC.ops EC.secp256k1).gen) ++
        cbytes (EC.ops EC.secp256k1) ((EC.ops EC.secp256k1).mul k2 (EC.ops EC.secp256k1).gen))
      (individualPubKey (EC.ops EC.secp256k1) d) s = .ok true :=
  Btc.C16.Raw.musig2_partial_sig_verifies_secp256k1_uncond H s d k1 k2 σ hs

theorem musig2_aggregate_verifies_secp256k1_raw
    (H : Bytes → Bytes → Bytes) (l : List Signer) (hl : ∀ t ∈ l, t.ok (EC.ops EC.secp256k1))
    (tweaks : List (Bytes × Bool)) (msg an : Bytes)
    (han : nonceAgg (EC.ops EC.secp256k1) (l.map (Signer.pubNonce (EC.ops EC.secp256k1))) = .ok an)
    (v : SessionValues EC.Point)
    (hv : sessionValues (EC.ops EC.secp256k1) H (honestCtx (EC.ops EC.secp256k1) l an tweaks msg none) = .ok v)
    (hR : ((l.map Signer.k1).sum + v.b * (l.map Signer.k2).sum) % EC.secp256k1.n ≠ 0)
    (sigs : List ℤ)
    (hs : List.Forall₂ (fun t σ => sign (EC.ops EC.secp256k1) H t.k1 t.k2 (t.pk (EC.ops EC.secp256k1)) t.d
      (honestCtx (EC.ops EC.secp256k1) l an tweaks msg none) = .ok σ) l sigs) :
    ∃ r sg, partialSigAgg (EC.ops EC.secp256k1) H (sigs.map sBytes)
        (honestCtx (EC.ops EC.secp256k1) l an tweaks msg none) = .ok (r, sg) ∧
      bip340Verify (EC.ops EC.secp256k1) H ((EC.ops EC.secp256k1).x v.Q) msg r sg = true :=
  Btc.C16.Raw.musig2_aggregate_verifies_secp256k1_uncond H l hl tweaks msg an han v hv hR sigs hs

/-- **T4 on the executed arithmetic.** The adaptor session computed by `Btc.EC.ops secp256k1`: `partial_sig_agg_adaptor`
answers a pre-signature, `adapt` with the secret `t` completes it into a BIP340-valid signature for the aggregate key,
and `extract_adaptor` of the two reveals `t` — both parities of the final nonce. -/
theorem musig2_adaptor_completes_secp256k1_raw (H : Bytes → Bytes → Bytes)
    (l : List Signer) (hl : ∀ t ∈ l, t.ok (EC.ops EC.secp256k1)) (tweaks : List (Bytes × Bool)) (msg an : Bytes)
    (t : ℤ) (ht0 : 0 < t) (ht1 : t < EC.secp256k1.n)
    (han : nonceAgg (EC.ops EC.secp256k1) (l.map (Signer.pubNonce (EC.ops EC.secp256k1))) = .ok an)
    (v : SessionValues EC.Point)
    (hv : sessionValues (EC.ops EC.secp256k1) H (honestCtx (EC.ops EC.secp256k1) l an tweaks msg
      (some (cbytes (EC.ops EC.secp256k1) ((EC.ops EC.secp256k1).mul t (EC.ops EC.secp256k1).gen)))) = .ok v)
    (hR : (((l.map Signer.k1).sum + t) + v.b * (l.map Signer.k2).sum) % EC.secp256k1.n ≠ 0)
    (sigs : List ℤ)
    (hs : List.Forall₂ (fun u σ => sign (EC.ops EC.secp256k1) H u.k1 u.k2 (u.pk (EC.ops EC.secp256k1)) u.d
      (honestCtx (EC.ops EC.secp256k1) l an tweaks msg
        (some (cbytes (EC.ops EC.secp256k1) ((EC.ops EC.secp256k1).mul t (EC.ops EC.secp256k1).gen)))) = .ok σ) l sigs) :
    ∃ pre sig,
      partialSigAggAdaptor (EC.ops EC.secp256k1) H (sigs.map sBytes) (honestCtx (EC.ops EC.secp256k1) l an tweaks msg
        (some (cbytes (EC.ops EC.secp256k1) ((EC.ops EC.secp256k1).mul t (EC.ops EC.secp256k1).gen)))) = .ok pre ∧
      adapt (EC.ops EC.secp256k1) H pre t (honestCtx (EC.ops EC.secp256k1) l an tweaks msg
        (some (cbytes (EC.ops EC.secp256k1) ((EC.ops EC.secp256k1).mul t (EC.ops EC.secp256k1).gen)))) = .ok sig ∧
      bip340Verify (EC.ops EC.secp256k1) H ((EC.ops EC.secp256k1).x v.Q) msg sig.1 sig.2 = true ∧
      extractAdaptor (EC.ops EC.secp256k1) H sig pre (honestCtx (EC.ops EC.secp256k1) l an tweaks msg
        (some (cbytes (EC.ops EC.secp256k1) ((EC.ops EC.secp256k1).mul t (EC.ops EC.secp256k1).gen)))) = .ok t :=
  Btc.C16.Raw.musig2_adaptor_completes_secp256k1 H l hl tweaks msg an t ht0 ht1 han v hv hR sigs hs

end Props.C16
