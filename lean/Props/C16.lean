import Proofs.C16.Musig2Agg
/-!
# C16 — property theorems only (see DESIGN.md §3 C16).

Every scheme is the SAME definition the driver executes (`Model/C16/*.lean`, instantiated there
with `Btc.EC.ops secp256k1` and the SHA-256 tagged hash) — here for ANY `o : GroupOps α` that is
`Lawful` (the operations of a group of prime order with x / parity / lift_x maps: property C01's
business for the concrete curve) and ANY hash `H`.  `hp`, `hn` say that coordinates and scalars fit
the 32-byte fields MuSig2/BIP340 serialise them in (true of secp256k1: `example` below).
-/
namespace Props.C16
open Btc Btc.Py Btc.C16

variable {α G : Type} [AddCommGroup G] {o : GroupOps α}

/-! ## MuSig2 (BIP327) -/

/-- **T1 (tweak invariant).** After `key_agg` and any list of plain / x-only tweaks, the context
satisfies `Q = gacc•Q₀ + tacc•G` with `Q₀` the untweaked aggregate, and `Q ≠ ∞`. -/
theorem musig2_tweak_invariant (L : Lawful o G) (H : Bytes → Bytes → Bytes)
    (pks : List Bytes) (tweaks : List (Bytes × Bool)) (c : KeyAggCtx α)
    (h : keyAggAndTweak o H pks tweaks = .ok c) :
    ∃ c0, keyAgg o H pks = .ok c0 ∧ o.isZero c.Q = false ∧
      L.abs c.Q = c.gacc • L.abs c0.Q + c.tacc • L.abs o.gen :=
  keyAggAndTweak_invariant L H h

/-- T1, one step: `apply_tweak` preserves the invariant relative to any reference point. -/
theorem musig2_apply_tweak_invariant (L : Lawful o G) (c c' : KeyAggCtx α) (tweak : Bytes) (x : Bool)
    (P0 : α) (h : applyTweak o c tweak x = .ok c')
    (h0 : L.abs c.Q = c.gacc • L.abs P0 + c.tacc • L.abs o.gen) :
    L.abs c'.Q = c'.gacc • L.abs P0 + c'.tacc • L.abs o.gen :=
  applyTweak_invariant L P0 h h0

/-- **T2 (honest partial signatures verify).** For ANY session context — any key list (any length,
order, duplicates) containing the signer's key, any tweak list, any message, any aggregate nonce,
with or without adaptor — and any secret key / secret nonces: whenever `sign` answers, its answer
passes `partial_sig_verify_` against the signer's public nonce and public key. -/
theorem musig2_partial_sig_verifies (L : Lawful o G) (H : Bytes → Bytes → Bytes)
    (hp : o.p ≤ 256 ^ 32) (hn : o.n ≤ 256 ^ 32) (s : SessionCtx) (d k1 k2 σ : Int)
    (hs : sign o H k1 k2 (individualPubKey o d) d s = .ok σ) :
    partialSigVerify o H (sBytes σ) (cbytes o (o.mul k1 o.gen) ++ cbytes o (o.mul k2 o.gen))
      (individualPubKey o d) s = .ok true :=
  partial_sig_verifies L H hp hn hs

/-- `sign` answers exactly when the session assembles, the scalars are in range and the signer's
key is in the list (so T2 is not vacuous: these are the preconditions of an honest signer). -/
theorem musig2_sign_defined (H : Bytes → Bytes → Bytes) (s : SessionCtx) (d k1 k2 : Int)
    (v : SessionValues α) (hv : sessionValues o H s = .ok v)
    (hk1 : 0 < k1 ∧ k1 < o.n) (hk2 : 0 < k2 ∧ k2 < o.n) (hd : 0 < d ∧ d < o.n)
    (hmem : individualPubKey o d ∈ s.pubKeys) :
    ∃ σ, sign o H k1 k2 (individualPubKey o d) d s = .ok σ := by
  have h1 : scalarOk o k1 = true := (scalarOk_iff k1).mpr hk1
  have h2 : scalarOk o k2 = true := (scalarOk_iff k2).mpr hk2
  have h3 : scalarOk o d = true := (scalarOk_iff d).mpr hd
  unfold sign
  rw [hv]
  simp [h1, h2, h3, hmem]

/-- **T3 (the aggregate is a BIP340 signature).** Honest signers `l` (any number, any order,
duplicates allowed), any tweak list and message; the aggregate nonce is `nonce_agg` of their public
nonces; each partial signature is what `sign` answers. Unless the final nonce is the point at infinity
(`Σk₁ + b·Σk₂ ≡ 0`, where BIP327 deliberately lets the session complete with an invalid signature),
`partial_sig_agg` answers `(r, s)` and it satisfies BIP340 verification for the aggregate x-only key
`x(Q)` — all parities of `R`, `Q` and of every x-only tweak. -/
theorem musig2_aggregate_verifies (L : Lawful o G) (H : Bytes → Bytes → Bytes)
    (hp : o.p ≤ 256 ^ 32) (hn : o.n ≤ 256 ^ 32) (l : List Signer) (hl : ∀ t ∈ l, t.ok o)
    (tweaks : List (Bytes × Bool)) (msg an : Bytes)
    (han : nonceAgg o (l.map (Signer.pubNonce o)) = .ok an)
    (v : SessionValues α) (hv : sessionValues o H (honestCtx o l an tweaks msg none) = .ok v)
    (hR : ((l.map Signer.k1).sum + v.b * (l.map Signer.k2).sum) % o.n ≠ 0)
    (sigs : List Int)
    (hs : List.Forall₂ (fun t σ => sign o H t.k1 t.k2 (t.pk o) t.d (honestCtx o l an tweaks msg none) = .ok σ)
      l sigs) :
    ∃ r sg, partialSigAgg o H (sigs.map sBytes) (honestCtx o l an tweaks msg none) = .ok (r, sg) ∧
      bip340Verify o H (o.x v.Q) msg r sg = true :=
  aggregate_verifies L H hp hn l hl tweaks msg an han hv hR sigs hs

/-- honest `nonce_agg` always answers (the hypothesis `han` of T3/T4 is satisfiable for every list) -/
theorem musig2_nonce_agg_defined (L : Lawful o G) (hp : o.p ≤ 256 ^ 32) (l : List Signer)
    (hl : ∀ t ∈ l, t.ok o) : ∃ an, nonceAgg o (l.map (Signer.pubNonce o)) = .ok an := by
  obtain ⟨S1, S2, h, -, -⟩ := nonceAgg_honest L hp l hl
  exact ⟨_, h⟩

/-- **T4 (adaptor).** The same honest session carrying the adaptor point `T = t•G`:
`partial_sig_agg_adaptor` answers a pre-signature, `adapt` with the secret `t` completes it into a
signature that satisfies BIP340 verification for the aggregate key, and `extract_adaptor` of the two
returns `t` — both parities of the final nonce. -/
theorem musig2_adaptor_completes (L : Lawful o G) (H : Bytes → Bytes → Bytes)
    (hp : o.p ≤ 256 ^ 32) (hn : o.n ≤ 256 ^ 32) (l : List Signer) (hl : ∀ t ∈ l, t.ok o)
    (tweaks : List (Bytes × Bool)) (msg an : Bytes) (t : Int) (ht0 : 0 < t) (ht1 : t < o.n)
    (han : nonceAgg o (l.map (Signer.pubNonce o)) = .ok an)
    (v : SessionValues α)
    (hv : sessionValues o H (honestCtx o l an tweaks msg (some (cbytes o (o.mul t o.gen)))) = .ok v)
    (hR : (((l.map Signer.k1).sum + t) + v.b * (l.map Signer.k2).sum) % o.n ≠ 0)
    (sigs : List Int)
    (hs : List.Forall₂ (fun u σ => sign o H u.k1 u.k2 (u.pk o) u.d
      (honestCtx o l an tweaks msg (some (cbytes o (o.mul t o.gen)))) = .ok σ) l sigs) :
    ∃ pre sig,
      partialSigAggAdaptor o H (sigs.map sBytes) (honestCtx o l an tweaks msg (some (cbytes o (o.mul t o.gen))))
        = .ok pre ∧
      adapt o H pre t (honestCtx o l an tweaks msg (some (cbytes o (o.mul t o.gen)))) = .ok sig ∧
      bip340Verify o H (o.x v.Q) msg sig.1 sig.2 = true ∧
      extractAdaptor o H sig pre (honestCtx o l an tweaks msg (some (cbytes o (o.mul t o.gen)))) = .ok t :=
  adaptor_completes L H hp hn l hl tweaks msg an t ht0 ht1 han hv hR sigs hs

/-- the size hypotheses hold for secp256k1, and the generated sizes/placeholders are the ones the
proofs used (a changed `_PK_SIZE`, `_SCALAR_SIZE`, `_NONCE_SIZE` or `_INF_BYTES` breaks this) -/
example : (EC.ops EC.secp256k1).p ≤ 256 ^ 32 ∧ (EC.ops EC.secp256k1).n ≤ 256 ^ 32 := by decide
example : pkSize = 33 ∧ scalarSize = 32 ∧ nonceSize = 66 ∧ infBytes = List.replicate 33 0 := by decide

end Props.C16
