/-!
# C16 — property theorems only (see DESIGN.md §3 C16).
-/
namespace Props.C16

end Props.C16
