import Proofs.C09.Legacy
import Proofs.C09.Bip341
import Proofs.C09.Impl
import Proofs.C09.Spec
import Proofs.C09.Examples
import Proofs.C09.Refusals
import Proofs.C09.FindAndDelete
import Proofs.C09.FromTx
/-!
# C09 — signature hashes equal the legacy, BIP143 and BIP341 definitions

Property theorems only (DESIGN §3 C09).  Two layers:

* the SPECIFICATION `Btc.Sighash.{legacyPreimage, bip143Preimage, bip341Preimage}` (`Model/C09/Sighash.lean`),
  written from Core's `CTransactionSignatureSerializer`, BIP143 and BIP341/342 over hash PARAMETERS and the
  constants regenerated from btclib's source (`Gen.SigHash.*`); T2 and T4 are about it;
* the btclib-shaped functions `Btc.Sighash.Impl.*` (`Model/C09/Impl.lean`), tied to `btclib/script/sig_hash.py`
  by the correspondence streams; T1 and T3 are about them.  That the two layers compute the same digest is a
  theorem for all three (`legacy_is_core_signature_hash`, `segwit_v0_is_bip143`, `taproot_is_bip341`) and is
  also checked by the driver on every accepted line of every stream (`specdiff`).

`Collides H a b` is an explicit collision: `a ≠ b ∧ H a = H b`.
-/
namespace Props.C09
open Btc Btc.Sighash

/-! ## T1 — precomputed = direct (any SHA256 parameter `S`) -/

/-- T1 (BIP143): `segwit_v0` with the `PrecomputedTxData` of this very transaction answers what it answers
    without, for every script code, index, hash type and amount -- digests and refusals alike. -/
theorem segwit_v0_precomputed_eq_direct (S : Bytes → Bytes) (tx : Tx) (prevouts : List TxOut)
    (p : Impl.Precomputed) (hp : Impl.precompute S tx prevouts = .ok p) (sc : Bytes) (i ht amount : Int) :
    Impl.segwitV0 S sc tx i ht amount (some p) = Impl.segwitV0 S sc tx i ht amount none :=
  Impl.segwitV0_precomputed hp sc i ht amount

/-- T1 (BIP341): the same for `taproot`, for every index, hash type, extension flag, annex and extension. -/
theorem taproot_precomputed_eq_direct (S : Bytes → Bytes) (tx : Tx) (prevouts : List TxOut)
    (p : Impl.Precomputed) (hp : Impl.precompute S tx prevouts = .ok p) (i ht extFlag : Int) (annex msgExt : Bytes) :
    Impl.taproot S tx i prevouts ht extFlag annex msgExt (some p) =
      Impl.taproot S tx i prevouts ht extFlag annex msgExt none :=
  Impl.taproot_precomputed hp i ht extFlag annex msgExt

/-! ## Layer tie — the btclib-shaped functions compute the specification's digests -/

/-- Layer tie (legacy): whenever the btclib-shaped `legacy` -- transaction copy, blanked scriptSigs, OP_CODESEPARATOR
    elision, NONE / SINGLE edits, ANYONECANPAY, SINGLE out-of-range early return, either spelling of the 32-bit
    hash type -- answers with a digest, it is the specification's: the constant under the SIGHASH_SINGLE bug, else
    hash256 = S∘S of what Core's `CTransactionSignatureSerializer` writes followed by the four type bytes. -/
theorem legacy_is_core_signature_hash (S : Bytes → Bytes) (sc : Bytes) (tx : Tx) (i ht : Int) (d : Bytes)
    (h : Impl.legacy S sc tx i ht = .ok d) :
    d = legacyDigest (Impl.hash256 S) sc tx i.toNat (Impl.word ht) :=
  Impl.legacy_eq_spec h

/-- the heart of it: btclib's copy-and-edit of the transaction IS the transaction Core's serializer virtually
    writes, for every hash type and every input index inside the transaction. -/
theorem legacy_copy_is_core_serializer (sc : Bytes) (tx : Tx) (i w : Nat) (hi : i < tx.vin.length) :
    Impl.legacyEdited sc tx i w = legacyTx sc tx i w :=
  Impl.legacyEdited_eq sc tx i w hi

/-- Layer tie (BIP143): whenever the btclib-shaped `segwit_v0` -- direct, or with the `PrecomputedTxData` of this
    very transaction -- answers with a digest, it is the specification's BIP143 digest with hash256 = S∘S, for
    either spelling (`-2^31 ≤ ht < 2^32`) of the hash type. -/
theorem segwit_v0_is_bip143 (S : Bytes → Bytes) (sc : Bytes) (tx : Tx) (prevouts : List TxOut)
    (i ht amount : Int) (d : Bytes) :
    (Impl.segwitV0 S sc tx i ht amount none = .ok d →
      d = bip143Digest (Impl.hash256 S) sc tx i.toNat (Impl.word ht) amount) ∧
    (∀ p, Impl.precompute S tx prevouts = .ok p → Impl.segwitV0 S sc tx i ht amount (some p) = .ok d →
      d = bip143Digest (Impl.hash256 S) sc tx i.toNat (Impl.word ht) amount) := by
  refine ⟨Impl.segwitV0_eq_spec, fun p hp h => ?_⟩
  rw [Impl.segwitV0_precomputed hp] at h
  exact Impl.segwitV0_eq_spec h

/-- Layer tie (BIP341/342): whenever the btclib-shaped `taproot` -- direct or precomputed -- answers with a digest
    it is the specification's tagged BIP341 digest: for every accepted hash type (the seven), annex present iff
    non-empty, key path (`ext = none`: extension flag 0, empty message extension) or script path (`ext = some e`:
    flag 1, extension = tapleaf hash ‖ key version ‖ codeseparator position). -/
theorem taproot_is_bip341 (S : Bytes → Bytes) (tx : Tx) (i : Int) (prevouts : List TxOut) (ht : Int)
    (annex : Bytes) (ext : Option TapExt) (d : Bytes) :
    (Impl.taproot S tx i prevouts ht (if ext.isSome then 1 else 0) annex (tapExtBytes ext) none = .ok d →
      d = bip341Digest S tx i.toNat prevouts ht.toNat (Impl.annexOpt annex) ext) ∧
    (∀ p, Impl.precompute S tx prevouts = .ok p →
      Impl.taproot S tx i prevouts ht (if ext.isSome then 1 else 0) annex (tapExtBytes ext) (some p) = .ok d →
      d = bip341Digest S tx i.toNat prevouts ht.toNat (Impl.annexOpt annex) ext) := by
  refine ⟨Impl.taproot_eq_spec ext, fun p hp h => ?_⟩
  rw [Impl.taproot_precomputed hp] at h
  exact Impl.taproot_eq_spec ext h

/-- the four hash-type bytes are the two's complement word for either spelling, and nothing wider is taken
    (about the TRANSLATED `_serialized_hash_type`). -/
theorem hash_type_bytes (ht : Int) (b : Bytes) (h : Gen.SigHash.serialized_hash_type ht = .ok b) :
    b = le4 (Impl.word ht) ∧ -2147483648 ≤ ht ∧ ht < 4294967296 :=
  Impl.serialized_hash_type_ok h

/-! ## T2 — commitment: equal preimages ⇒ equal committed fields (or an explicit collision) -/

/-- T2 (legacy): for the same input index, equal legacy preimages of well-formed arguments mean the same hash
    type, version, lock time, the same outpoint and sequence of the signed input and the same script code less its
    OP_CODESEPARATORs; every outpoint unless ANYONECANPAY; every sequence under ALL-like types without
    ANYONECANPAY; every output unless NONE/SINGLE; the matching output under SINGLE.  No hash is involved: the
    legacy preimage contains the fields themselves.  (The SIGHASH_SINGLE out-of-range constant is the stated
    exception: `legacy_single_bug_commits_nothing`.) -/
theorem legacy_commits (sc sc' : Bytes) (tx tx' : Tx) (nIn ht ht' : Nat)
    (wf : tx.WF) (wf' : tx'.WF) (hsc : Sized sc) (hsc' : Sized sc')
    (hin : nIn < tx.vin.length) (hin' : nIn < tx'.vin.length) (hno : nIn < 18446744073709551615)
    (hht : ht < 4294967296) (hht' : ht' < 4294967296)
    (h : legacyPreimage sc tx nIn ht = legacyPreimage sc' tx' nIn ht') :
    ht = ht' ∧ tx.version = tx'.version ∧ tx.lockTime = tx'.lockTime ∧
    (tx.vin.getD nIn dfltIn).prev = (tx'.vin.getD nIn dfltIn).prev ∧
    (tx.vin.getD nIn dfltIn).sequence = (tx'.vin.getD nIn dfltIn).sequence ∧
    withoutCodeSeparators sc = withoutCodeSeparators sc' ∧
    (anyoneCanPay ht = false → tx.vin.map (·.prev) = tx'.vin.map (·.prev)) ∧
    (anyoneCanPay ht = false → isSingle ht = false → isNone ht = false →
      tx.vin.map (·.sequence) = tx'.vin.map (·.sequence)) ∧
    (isSingle ht = false → isNone ht = false → tx.vout = tx'.vout) ∧
    (isSingle ht = true → tx.vout.getD nIn blankOut = tx'.vout.getD nIn blankOut) := by
  obtain ⟨ht_eq, e⟩ := legacyPreimage_inj (legacyTx_wf wf hsc hin hno) (legacyTx_wf wf' hsc' hin' hno) hht hht' h
  subst e
  obtain ⟨v, l⟩ := legacyTx_version ht_eq
  obtain ⟨o1, o2, o3⟩ := legacyTx_own ht_eq hin
  exact ⟨rfl, v, l, o1, o2, o3, fun a => (legacyTx_prevouts ht_eq a).2, legacyTx_sequences ht_eq,
    legacyTx_outputs ht_eq, legacyTx_single ht_eq⟩

/-- T2 (legacy), digest level: equal digests (outside the SINGLE bug) mean equal preimages -- hence
    `legacy_commits` -- or the two preimages are an explicit collision of `H` (hash256). -/
theorem legacy_digest_commits (H : Bytes → Bytes) (sc sc' : Bytes) (tx tx' : Tx) (nIn ht ht' : Nat)
    (hb : legacySingleBug tx nIn ht = false) (hb' : legacySingleBug tx' nIn ht' = false)
    (h : legacyDigest H sc tx nIn ht = legacyDigest H sc' tx' nIn ht') :
    legacyPreimage sc tx nIn ht = legacyPreimage sc' tx' nIn ht' ∨
      Collides H (legacyPreimage sc tx nIn ht) (legacyPreimage sc' tx' nIn ht') := by
  simp only [legacyDigest, hb, hb', Bool.false_eq_true, ↓reduceIte] at h
  exact open_hash h

/-- the stated exception: under the SIGHASH_SINGLE bug the digest is the constant, whatever the transaction,
    the script code and the rest of the hash type are -- it commits to nothing. -/
theorem legacy_single_bug_commits_nothing (H : Bytes → Bytes) (sc : Bytes) (tx : Tx) (nIn ht : Nat)
    (hb : legacySingleBug tx nIn ht = true) : legacyDigest H sc tx nIn ht = Gen.SigHash.SINGLE_BUG_DIGEST := by
  simp [legacyDigest, hb]

/-- T2 (BIP143): equal BIP143 preimages (hash parameter `H` with 32-byte output) mean the same hash type,
    version, lock time, outpoint and sequence of the signed input, script code (whole) and amount; and, through
    the three inner hashes, every outpoint unless ANYONECANPAY, every sequence for ALL-like types, every output
    unless NONE/SINGLE, the matching output under SINGLE -- each OR an explicit `H`-collision between the two
    serializations named. -/
theorem bip143_commits (H : Bytes → Bytes) (hH : ∀ x, (H x).length = 32) (sc sc' : Bytes) (tx tx' : Tx)
    (nIn ht ht' : Nat) (amount amount' : Int)
    (wf : tx.WF) (wf' : tx'.WF) (hin : nIn < tx.vin.length) (hin' : nIn < tx'.vin.length)
    (hsc : Sized sc) (hsc' : Sized sc') (ha : I64 amount) (ha' : I64 amount')
    (hht : ht < 4294967296) (hht' : ht' < 4294967296)
    (h : bip143Preimage H sc tx nIn ht amount = bip143Preimage H sc' tx' nIn ht' amount') :
    ht = ht' ∧ tx.version = tx'.version ∧ tx.lockTime = tx'.lockTime ∧
    (tx.vin.getD nIn dfltIn).prev = (tx'.vin.getD nIn dfltIn).prev ∧
    (tx.vin.getD nIn dfltIn).sequence = (tx'.vin.getD nIn dfltIn).sequence ∧
    sc = sc' ∧ amount = amount' ∧
    (anyoneCanPay ht = false →
      tx.vin.map (·.prev) = tx'.vin.map (·.prev) ∨ Collides H (serPrevouts tx) (serPrevouts tx')) ∧
    (anyoneCanPay ht = false → isSingle ht = false → isNone ht = false →
      tx.vin.map (·.sequence) = tx'.vin.map (·.sequence) ∨ Collides H (serSequences tx) (serSequences tx')) ∧
    (isSingle ht = false → isNone ht = false →
      tx.vout = tx'.vout ∨ Collides H (serOutputs tx) (serOutputs tx')) ∧
    (isSingle ht = true → nIn < tx.vout.length → nIn < tx'.vout.length →
      tx.vout.getD nIn blankOut = tx'.vout.getD nIn blankOut ∨
        Collides H (serTxOut (tx.vout.getD nIn blankOut)) (serTxOut (tx'.vout.getD nIn blankOut))) := by
  obtain ⟨e1, e2, e3, e4, e5, e6, e7, e8, e9, e10⟩ := bip143Preimage_inj hH wf.version wf'.version wf.lockTime
    wf'.lockTime (getD_wf_in wf.vin hin) (getD_wf_in wf'.vin hin') hsc hsc' ha ha' hht hht' h
  subst e10
  refine ⟨rfl, e1, e9, e4, e7, e5, e6, ?_, ?_, ?_, ?_⟩
  · intro hacp
    simp only [bip143HashPrevouts, hacp, Bool.not_false, ↓reduceIte] at e2
    exact (open_hash e2).imp (serPrevouts_inj wf.vin wf'.vin) id
  · intro hacp hs hn
    simp only [bip143HashSequence, hacp, hs, hn, Bool.not_false, and_self, ↓reduceIte] at e3
    exact (open_hash e3).imp (serSequences_inj wf.vin wf'.vin) id
  · intro hs hn
    simp only [bip143HashOutputs, hs, hn, Bool.not_false, and_self, ↓reduceIte] at e8
    exact (open_hash e8).imp (serOutputs_inj wf.vout wf'.vout) id
  · intro hs ho ho'
    simp only [bip143HashOutputs, hs, ho, ho', Bool.not_true, Bool.false_eq_true, false_and, and_self,
      ↓reduceIte] at e8
    exact (open_hash e8).imp
      (fun e => serTxOut_prefixInj.inj (getD_wf_out wf.vout nIn) (getD_wf_out wf'.vout nIn) e) id

/-- T2 (BIP143), SINGLE with the committed output DROPPED on one side: if the signed input has its matching
    output in one transaction and none in the other (`nIn ≥ tx'.vout.length`, where BIP143 writes 32 zero bytes),
    equal preimages exhibit an explicit preimage of `0^32` under `H`: the serialization of the dropped output.
    (With both in range `bip143_commits` applies; with neither, hashOutputs is zero on both sides and SINGLE
    commits to no output at all -- BIP143's rule, the analogue of the legacy bug.) -/
theorem bip143_single_dropped_output (H : Bytes → Bytes) (hH : ∀ x, (H x).length = 32) (sc sc' : Bytes) (tx tx' : Tx)
    (nIn ht ht' : Nat) (amount amount' : Int)
    (wf : tx.WF) (wf' : tx'.WF) (hin : nIn < tx.vin.length) (hin' : nIn < tx'.vin.length)
    (hsc : Sized sc) (hsc' : Sized sc') (ha : I64 amount) (ha' : I64 amount')
    (hht : ht < 4294967296) (hht' : ht' < 4294967296) (hs : isSingle ht = true)
    (ho : nIn < tx.vout.length) (ho' : ¬ nIn < tx'.vout.length)
    (h : bip143Preimage H sc tx nIn ht amount = bip143Preimage H sc' tx' nIn ht' amount') :
    H (serTxOut (tx.vout.getD nIn blankOut)) = zero32 := by
  obtain ⟨_, _, _, _, _, _, _, e8, _, e10⟩ := bip143Preimage_inj hH wf.version wf'.version wf.lockTime
    wf'.lockTime (getD_wf_in wf.vin hin) (getD_wf_in wf'.vin hin') hsc hsc' ha ha' hht hht' h
  subst e10
  simpa [bip143HashOutputs, hs, ho, ho'] using e8

/-- T2 (BIP341/342): equal `SigMsg` preimages (SHA256 parameter `S` with 32-byte output, hash types below 256)
    mean the same hash type, version, lock time, spend type (annex present / extension present) and the same
    BIP342 extension (tapleaf hash, key version, codeseparator position); without ANYONECANPAY the same input
    index and -- each OR an explicit `S`-collision -- every outpoint, every spent amount, every spent
    scriptPubKey, every sequence; with ANYONECANPAY the outpoint, spent amount, spent scriptPubKey and sequence
    of the signed input themselves; every output unless NONE/SINGLE, the matching output under SINGLE, and
    the annex, each OR an explicit collision. -/
theorem bip341_commits (S : Bytes → Bytes) (hS : ∀ x, (S x).length = 32) (tx tx' : Tx) (nIn nIn' : Nat)
    (spent spent' : List TxOut) (ht ht' : Nat) (annex annex' : Option Bytes) (ext ext' : Option TapExt)
    (wf : tx.WF) (wf' : tx'.WF) (ws : ∀ o ∈ spent, o.WF) (ws' : ∀ o ∈ spent', o.WF)
    (hin : nIn < tx.vin.length) (hin' : nIn' < tx'.vin.length)
    (hn : nIn < 4294967296) (hn' : nIn' < 4294967296) (hht : ht < 256) (hht' : ht' < 256)
    (we : ∀ e, ext = some e → e.WF) (we' : ∀ e, ext' = some e → e.WF)
    (h : bip341Preimage S tx nIn spent ht annex ext = bip341Preimage S tx' nIn' spent' ht' annex' ext') :
    ht = ht' ∧ tx.version = tx'.version ∧ tx.lockTime = tx'.lockTime ∧
    ext = ext' ∧ annex.isSome = annex'.isSome ∧
    (tapAcp ht = false → nIn = nIn' ∧
      (tx.vin.map (·.prev) = tx'.vin.map (·.prev) ∨ Collides S (serPrevouts tx) (serPrevouts tx')) ∧
      (spent.map (·.value) = spent'.map (·.value) ∨ Collides S (serAmounts spent) (serAmounts spent')) ∧
      (spent.map (·.spk) = spent'.map (·.spk) ∨ Collides S (serScriptPubKeys spent) (serScriptPubKeys spent')) ∧
      (tx.vin.map (·.sequence) = tx'.vin.map (·.sequence) ∨ Collides S (serSequences tx) (serSequences tx'))) ∧
    (tapAcp ht = true →
      (tx.vin.getD nIn dfltIn).prev = (tx'.vin.getD nIn' dfltIn).prev ∧
      (tx.vin.getD nIn dfltIn).sequence = (tx'.vin.getD nIn' dfltIn).sequence ∧
      spent.getD nIn blankOut = spent'.getD nIn' blankOut) ∧
    (tapNone ht = false → tapSingle ht = false →
      tx.vout = tx'.vout ∨ Collides S (serOutputs tx) (serOutputs tx')) ∧
    (tapSingle ht = true →
      tx.vout.getD nIn blankOut = tx'.vout.getD nIn' blankOut ∨
        Collides S (serTxOut (tx.vout.getD nIn blankOut)) (serTxOut (tx'.vout.getD nIn' blankOut))) ∧
    (∀ a a', annex = some a → annex' = some a' → Sized a → Sized a' →
      a = a' ∨ Collides S (varBytes a) (varBytes a')) := by
  obtain ⟨e0, e1, e2, e3, e4, e5, e6, e7, e8, e9, e10⟩ := bip341Preimage_inj hS hht hht' wf.version wf'.version
    wf.lockTime wf'.lockTime (fun _ => ⟨getD_wf_in wf.vin hin, getD_wf_out ws nIn⟩)
    (fun _ => ⟨getD_wf_in wf'.vin hin', getD_wf_out ws' nIn'⟩) hn hn' we we' h
  subst e0
  refine ⟨rfl, e1, e2, e10, e6, ?_, ?_, ?_, ?_, ?_⟩
  · intro hacp
    simp only [tapTxHashes, hacp, Bool.not_false, ↓reduceIte] at e3
    simp only [tapInputData, hacp, Bool.false_eq_true, ↓reduceIte] at e7
    obtain ⟨a1, e3⟩ := List.append_inj e3 (by rw [hS, hS])
    obtain ⟨a2, e3⟩ := List.append_inj e3 (by rw [hS, hS])
    obtain ⟨a3, a4⟩ := List.append_inj e3 (by rw [hS, hS])
    have := le4_inj (a := (nIn : Int)) (b := (nIn' : Int)) (by unfold U32; omega) (by unfold U32; omega) e7
    exact ⟨by omega, (open_hash a1).imp (serPrevouts_inj wf.vin wf'.vin) id,
      (open_hash a2).imp (serAmounts_inj ws ws') id, (open_hash a3).imp (serScriptPubKeys_inj ws ws') id,
      (open_hash a4).imp (serSequences_inj wf.vin wf'.vin) id⟩
  · intro hacp
    simp only [tapInputData, hacp, ↓reduceIte] at e7
    have w1 := getD_wf_in wf.vin hin
    have w1' := getD_wf_in wf'.vin hin'
    have w2 := getD_wf_out ws nIn
    have w2' := getD_wf_out ws' nIn'
    obtain ⟨a1, e7⟩ := serOutPoint_prefixInj _ _ _ _ w1.prev w1'.prev e7
    obtain ⟨a2, e7⟩ := le8s_prefixInj _ _ _ _ w2.value w2'.value e7
    obtain ⟨a3, e7⟩ := varBytes_prefixInj _ _ _ _ w2.spk w2'.spk e7
    have a4 := le4_inj w1.sequence w1'.sequence e7
    refine ⟨a1, a4, ?_⟩
    cases hx : spent.getD nIn blankOut; cases hy : spent'.getD nIn' blankOut
    simp_all
  · intro hn hs
    simp only [tapOutputsHash, hn, hs, Bool.not_false, and_self, ↓reduceIte] at e4
    exact (open_hash e4).imp (serOutputs_inj wf.vout wf'.vout) id
  · intro hs
    simp only [tapSingleHash, hs, ↓reduceIte] at e9
    exact (open_hash e9).imp
      (fun e => serTxOut_prefixInj.inj (getD_wf_out wf.vout nIn) (getD_wf_out wf'.vout nIn') e) id
  · intro a a' ha ha' sa sa'
    subst ha ha'
    simp only [tapAnnexHash] at e8
    exact (open_hash e8).imp (fun e => varBytes_prefixInj.inj sa sa' e) id

/-- T2 (BIP341), digest level, with the colliding pair named: equal tagged digests mean equal messages or the two
    tagged inputs `S(tag) ‖ S(tag) ‖ message` are an explicit collision of `S`. -/
theorem bip341_digest_commits_explicit (S : Bytes → Bytes) (tx tx' : Tx) (nIn nIn' : Nat) (spent spent' : List TxOut)
    (ht ht' : Nat) (annex annex' : Option Bytes) (ext ext' : Option TapExt)
    (h : bip341Digest S tx nIn spent ht annex ext = bip341Digest S tx' nIn' spent' ht' annex' ext') :
    bip341Preimage S tx nIn spent ht annex ext = bip341Preimage S tx' nIn' spent' ht' annex' ext' ∨
      Collides S
        (S Gen.SigHash.TAG_SIGHASH ++ (S Gen.SigHash.TAG_SIGHASH ++ bip341Preimage S tx nIn spent ht annex ext))
        (S Gen.SigHash.TAG_SIGHASH ++ (S Gen.SigHash.TAG_SIGHASH ++ bip341Preimage S tx' nIn' spent' ht' annex' ext')) := by
  unfold bip341Digest taggedWith at h
  rcases open_hash h with e | c
  · exact Or.inl (List.append_cancel_left (List.append_cancel_left e))
  · exact Or.inr c

/-- T2 (BIP341), digest level, existential form (what C10 composes with): equal messages or SOME collision of `S`
    -- the pair is the one `bip341_digest_commits_explicit` names. -/
theorem bip341_digest_commits (S : Bytes → Bytes) (tx tx' : Tx) (nIn nIn' : Nat) (spent spent' : List TxOut)
    (ht ht' : Nat) (annex annex' : Option Bytes) (ext ext' : Option TapExt)
    (h : bip341Digest S tx nIn spent ht annex ext = bip341Digest S tx' nIn' spent' ht' annex' ext') :
    bip341Preimage S tx nIn spent ht annex ext = bip341Preimage S tx' nIn' spent' ht' annex' ext' ∨
      ∃ a b, Collides S a b :=
  (bip341_digest_commits_explicit S tx tx' nIn nIn' spent spent' ht ht' annex annex' ext ext' h).imp id
    (fun c => ⟨_, _, c⟩)

/-- T2 (BIP143), digest level. -/
theorem bip143_digest_commits (H : Bytes → Bytes) (sc sc' : Bytes) (tx tx' : Tx) (nIn ht ht' : Nat)
    (amount amount' : Int) (h : bip143Digest H sc tx nIn ht amount = bip143Digest H sc' tx' nIn ht' amount') :
    bip143Preimage H sc tx nIn ht amount = bip143Preimage H sc' tx' nIn ht' amount' ∨
      Collides H (bip143Preimage H sc tx nIn ht amount) (bip143Preimage H sc' tx' nIn ht' amount') :=
  open_hash h

/-! ## T3 — the declared errors are refused -/

/-- T3 (BIP341): whenever `taproot` answers with a digest the input index names an input, there is one spent
    output per input, the hash type is one of the seven of `SIG_HASH_TYPES` (regenerated from the source), and
    SIGHASH_SINGLE has its output -- i.e. an index out of range, a prevouts list of the wrong length (on every
    path, ANYONECANPAY included), an undefined type and SINGLE without a matching output are all refused. -/
theorem taproot_refuses_declared_errors (S : Bytes → Bytes) (tx : Tx) (i : Int) (prevouts : List TxOut)
    (ht extFlag : Int) (annex msgExt : Bytes) (pre : Option Impl.Precomputed) (d : Bytes)
    (h : Impl.taproot S tx i prevouts ht extFlag annex msgExt pre = .ok d) :
    0 ≤ i ∧ i < tx.vin.length ∧ prevouts.length = tx.vin.length ∧
      Impl.intMem ht Gen.SigHash.SIG_HASH_TYPES = true ∧
      ¬ (tapSingle ht.toNat = true ∧ i.toNat ≥ tx.vout.length) :=
  Impl.taproot_ok_defined h

/-- the seven: exactly BIP341's (0x80 alone, ANYONECANPAY with DEFAULT, is not among them) -/
theorem taproot_seven_types (ht : Int) :
    Impl.intMem ht Gen.SigHash.SIG_HASH_TYPES = true ↔
      ht = 0 ∨ ht = 1 ∨ ht = 2 ∨ ht = 3 ∨ ht = 0x81 ∨ ht = 0x82 ∨ ht = 0x83 := by
  simp only [Impl.intMem, Gen.SigHash.SIG_HASH_TYPES, List.any_cons, List.any_nil, Bool.or_false, Bool.or_eq_true,
    beq_iff_eq]
  omega

/-- T3 (legacy, BIP143): an input index outside the transaction is refused. -/
theorem legacy_segwit_refuse_bad_index (S : Bytes → Bytes) (sc : Bytes) (tx : Tx) (i ht amount : Int)
    (pre : Option Impl.Precomputed) (d : Bytes) :
    (Impl.legacy S sc tx i ht = .ok d → 0 ≤ i ∧ i < tx.vin.length) ∧
    (Impl.segwitV0 S sc tx i ht amount pre = .ok d → 0 ≤ i ∧ i < tx.vin.length) :=
  ⟨Impl.legacy_ok_index, Impl.segwitV0_ok_index⟩

/-- the SIGHASH_SINGLE bug is kept: index in range, a hash type that fits its four bytes, base type SINGLE and no
    matching output ⇒ the constant `01 00…00`, not an error. -/
theorem legacy_single_out_of_range (S : Bytes → Bytes) (sc : Bytes) (tx : Tx) (i ht : Int) (sht : Bytes)
    (hht : Gen.SigHash.serialized_hash_type ht = .ok sht) (h0 : 0 ≤ i) (h1 : i < tx.vin.length)
    (hs : baseType (Impl.word ht) = Gen.SigHash.SINGLE) (ho : i.toNat ≥ tx.vout.length) :
    Impl.legacy S sc tx i ht = .ok Gen.SigHash.SINGLE_BUG_DIGEST :=
  Impl.legacy_single_bug hht h0 h1 hs ho

/-! ## T1b — the cache object: which precomputed hashes each hash type reads -/

/-- T1b (BIP143): `segwit_v0` reads of a `PrecomputedTxData` -- ANY object, not only this transaction's -- exactly the
    hashes its hash type commits to: `sha_prevouts` only without ANYONECANPAY, `sha_sequences` only for ALL-like
    types without ANYONECANPAY, `sha_outputs` only when the type is neither NONE nor SINGLE.  Two caches that
    agree on those give the same answer; in particular under ANYONECANPAY|NONE / |SINGLE nothing cached is used
    (the all-inputs / all-outputs values are not picked up). -/
theorem segwit_v0_reads_only_committed_cache_fields (S : Bytes → Bytes) (sc : Bytes) (tx : Tx) (i ht amount : Int)
    (p p' : Impl.Precomputed)
    (h1 : anyoneCanPay (Impl.word ht) = false → p.shaPrevouts = p'.shaPrevouts)
    (h2 : anyoneCanPay (Impl.word ht) = false → baseType (Impl.word ht) ≠ Gen.SigHash.SINGLE →
      baseType (Impl.word ht) ≠ Gen.SigHash.NONE → p.shaSequences = p'.shaSequences)
    (h3 : baseType (Impl.word ht) ≠ Gen.SigHash.SINGLE → baseType (Impl.word ht) ≠ Gen.SigHash.NONE →
      p.shaOutputs = p'.shaOutputs) :
    Impl.segwitV0 S sc tx i ht amount (some p) = Impl.segwitV0 S sc tx i ht amount (some p') :=
  Impl.segwitV0_cache_reads S sc tx i ht amount p p' h1 h2 h3

/-- T1b (BIP341): the same for `taproot`: the four input-side hashes only without ANYONECANPAY, `sha_outputs`
    only when the type is neither NONE nor SINGLE. -/
theorem taproot_reads_only_committed_cache_fields (S : Bytes → Bytes) (tx : Tx) (i : Int) (prevouts : List TxOut)
    (ht extFlag : Int) (annex msgExt : Bytes) (p p' : Impl.Precomputed)
    (h1 : tapAcp ht.toNat = false → p.shaPrevouts = p'.shaPrevouts ∧ p.shaAmounts = p'.shaAmounts ∧
      p.shaScriptPubKeys = p'.shaScriptPubKeys ∧ p.shaSequences = p'.shaSequences)
    (h2 : tapNone ht.toNat = false → tapSingle ht.toNat = false → p.shaOutputs = p'.shaOutputs) :
    Impl.taproot S tx i prevouts ht extFlag annex msgExt (some p) =
      Impl.taproot S tx i prevouts ht extFlag annex msgExt (some p') :=
  Impl.taproot_cache_reads S tx i prevouts ht extFlag annex msgExt p p' h1 h2

/-- T1b: ANYONECANPAY|NONE and ANYONECANPAY|SINGLE read no cache at all: whatever object is handed over (even
    another transaction's) the answer is the direct one. -/
theorem taproot_acp_none_single_ignore_the_cache (S : Bytes → Bytes) (tx : Tx) (i : Int) (prevouts : List TxOut)
    (ht extFlag : Int) (annex msgExt : Bytes) (p : Impl.Precomputed)
    (ha : tapAcp ht.toNat = true) (hb : tapNone ht.toNat = true ∨ tapSingle ht.toNat = true) :
    Impl.taproot S tx i prevouts ht extFlag annex msgExt (some p) =
      Impl.taproot S tx i prevouts ht extFlag annex msgExt none :=
  Impl.taproot_acp_none_single_ignores_cache S tx i prevouts ht extFlag annex msgExt p ha hb

/-! ## T5 — the PSBT route -/

/-- T5 (utxo lookup, `_prev_out`): the witness utxo when the map has one, else output `output_index or 0` of the
    non-witness utxo when it has that many, else nothing; and when a map carries both and they agree (what
    `Psbt.assert_valid` asks), either field alone gives the same spent output. -/
theorem psbt_utxo_lookup (p : Impl.PsbtInput) :
    (∀ o, p.witnessUtxo = some o → Impl.prevOutOf p = some o) ∧
    (p.witnessUtxo = none → ∀ outs, p.nonWitnessUtxo = some outs →
      Impl.prevOutOf p = outs[p.outputIndex.getD 0]?) ∧
    (p.witnessUtxo = none → p.nonWitnessUtxo = none → Impl.prevOutOf p = none) ∧
    (∀ o outs, p.witnessUtxo = some o → p.nonWitnessUtxo = some outs → outs[p.outputIndex.getD 0]? = some o →
      Impl.prevOutOf { p with witnessUtxo := none } = Impl.prevOutOf p ∧
      Impl.prevOutOf { p with nonWitnessUtxo := none } = Impl.prevOutOf p) := by
  refine ⟨fun o h => by simp [Impl.prevOutOf, h], fun h outs ho => by simp [Impl.prevOutOf, h, ho],
    fun h h' => by simp [Impl.prevOutOf, h, h'], fun o outs h ho hi => ?_⟩
  simp [Impl.prevOutOf, h, ho, hi]

/-- T5 (ECDSA): whenever `psbt.ecdsa_sig_hash` / `PsbtView.ecdsa_sig_hash` answers, the index names an input map,
    that map's utxo lookup found an output `po`, the effective hash type (the argument, else the map's
    PSBT_IN_SIGHASH_TYPE, else ALL) is one of the six ECDSA types, and the answer is the SPECIFICATION's digest:
    BIP143 over the p2pkh script of the program (p2wpkh, bare or as redeem script), BIP143 over the witness script
    (p2wsh, bare or wrapped), each with `po.value` as the amount, or the legacy digest over the spent script
    (a non-witness utxo being present). -/
theorem psbt_ecdsa_is_direct_and_spec (S : Bytes → Bytes) (inputs : List Impl.PsbtInput) (tx : Tx) (i : Int)
    (ht : Option Int) (d : Bytes) (h : Impl.psbtEcdsaSigHash S inputs tx i ht = .ok d) :
    0 ≤ i ∧ i < inputs.length ∧
    ∃ po, Impl.prevOutOf (inputs.getD i.toNat Impl.PsbtInput.empty) = some po ∧
      let p := (inputs.getD i.toNat Impl.PsbtInput.empty).view
      let t := Impl.ecdsaType p ht
      let script := Impl.spentScript p po
      Impl.intMem t Gen.SigHash.SIG_HASH_TYPES = true ∧ t ≠ (Gen.SigHash.DEFAULT : Int) ∧
      Impl.isP2tr script = false ∧
      d = (if Impl.isP2wpkh script then
            bip143Digest (Impl.hash256 S) (Impl.p2pkhScript (script.drop 2)) tx i.toNat (Impl.word t) po.value
          else if Impl.isP2wsh script then
            bip143Digest (Impl.hash256 S) p.witnessScript tx i.toNat (Impl.word t) po.value
          else legacyDigest (Impl.hash256 S) script tx i.toNat (Impl.word t)) := by
  unfold Impl.psbtEcdsaSigHash at h
  obtain ⟨n, hn, h⟩ := Impl.bind_ok h
  obtain ⟨h0, h1, rfl⟩ := Impl.assertInputIndex_ok hn
  obtain ⟨po, hpo, hm, hd, htr, hr⟩ := Impl.ecdsaSigHash_ok h
  refine ⟨h0, h1, po, hpo, hm, hd, htr, ?_⟩
  split at hr
  · next hc => rw [if_pos hc]; exact Impl.segwitV0_eq_spec hr
  · next hc =>
    rw [if_neg hc]
    split at hr
    · next hw =>
      rw [if_pos hw]
      split at hr
      · cases hr
      · exact Impl.segwitV0_eq_spec hr
    · next hw =>
      rw [if_neg hw]
      split at hr
      · cases hr
      · split at hr
        · cases hr
        · exact Impl.legacy_eq_spec hr

/-- T5 (taproot): whenever `psbt.taproot_sig_hash` answers, the index names an input map, every map's utxo lookup
    found its output (`spent`), and the answer is the SPECIFICATION's BIP341 digest over the transaction and those
    outputs: empty annex, key path without a leaf hash, else BIP342's extension (leaf hash, key version 0, no
    codeseparator), under the argument's type, else the map's, else DEFAULT. -/
theorem psbt_taproot_is_direct_and_spec (S : Bytes → Bytes) (inputs : List Impl.PsbtInput) (tx : Tx) (i : Int)
    (leaf : Bytes) (hleaf : leaf = [] ∨ leaf.length = 32) (ht : Option Int) (d : Bytes)
    (h : Impl.psbtTaprootSigHash S inputs tx i leaf ht = .ok d) :
    0 ≤ i ∧ i < inputs.length ∧
    ∃ spent, inputs.map Impl.prevOutOf = spent.map some ∧
      let t := Impl.taprootType (inputs.getD i.toNat Impl.PsbtInput.empty).sigHashType ht
      d = bip341Digest S tx i.toNat spent t.toNat none
        (if leaf.isEmpty then none else some ⟨leaf, 0, 4294967295⟩) := by
  unfold Impl.psbtTaprootSigHash at h
  obtain ⟨n, hn, h⟩ := Impl.bind_ok h
  obtain ⟨h0, h1, rfl⟩ := Impl.assertInputIndex_ok hn
  obtain ⟨spent, hs, h⟩ := Impl.bind_ok h
  refine ⟨h0, h1, spent, Impl.spentOutputs_ok hs, ?_⟩
  unfold Impl.taprootSigHash at h
  simp only at h ⊢
  generalize Impl.taprootType (inputs.getD i.toNat Impl.PsbtInput.empty).sigHashType ht = t at h ⊢
  rcases hleaf with rfl | hl
  · simp only [List.isEmpty_nil, ↓reduceIte] at h ⊢
    have e := Impl.taproot_eq_spec (S := S) (tx := tx) (i := i) (prevouts := spent) (ht := t) (annex := []) (d := d) none
    simp only [Option.isSome_none, Bool.false_eq_true, ↓reduceIte, tapExtBytes, Impl.annexOpt, List.isEmpty_nil] at e
    exact e h
  · have hne : leaf.isEmpty = false := by
      cases leaf with
      | nil => simp at hl
      | cons x xs => rfl
    have he : leaf ++ Gen.SigHash.EXT_SUFFIX = tapExtBytes (some ⟨leaf, 0, 4294967295⟩) := by
      simp only [tapExtBytes, TapExt.ser, Gen.SigHash.EXT_SUFFIX]
      congr 1
    have hx : (leaf ++ Gen.SigHash.EXT_SUFFIX).isEmpty = false := by
      cases leaf with
      | nil => simp at hl
      | cons x xs => rfl
    simp only [hne, hx, Bool.false_eq_true, ↓reduceIte] at h ⊢
    have e := Impl.taproot_eq_spec (S := S) (tx := tx) (i := i) (prevouts := spent) (ht := t) (annex := []) (d := d)
      (some ⟨leaf, 0, 4294967295⟩)
    simp only [Option.isSome_some, ↓reduceIte, Impl.annexOpt, List.isEmpty_nil, ← he] at e
    exact e h

/-- T5 (streamed view): `PsbtView.taproot_sig_hash` -- spent outputs read once, `PrecomputedTxData` built once and
    handed over -- answers what `psbt.taproot_sig_hash` answers whenever that object can be built (always for a
    transaction and amounts whose fields have their widths); and whatever the view answers the whole psbt answers. -/
theorem psbt_view_taproot_eq_whole (S : Bytes → Bytes) (inputs : List Impl.PsbtInput) (tx : Tx) (i : Int)
    (leaf : Bytes) (ht : Option Int) :
    (∀ d, Impl.viewTaprootSigHash S inputs tx i leaf ht = .ok d →
      Impl.psbtTaprootSigHash S inputs tx i leaf ht = .ok d) ∧
    ((∀ spent, Impl.spentOutputs inputs = .ok spent → ∃ p, Impl.precompute S tx spent = .ok p) →
      Impl.viewTaprootSigHash S inputs tx i leaf ht = Impl.psbtTaprootSigHash S inputs tx i leaf ht) := by
  constructor
  · intro d h
    unfold Impl.viewTaprootSigHash at h
    unfold Impl.psbtTaprootSigHash
    obtain ⟨n, hn, h⟩ := Impl.bind_ok h
    obtain ⟨spent, hs, h⟩ := Impl.bind_ok h
    obtain ⟨p, hp, h⟩ := Impl.bind_ok h
    simp only [hn, hs, bind, Except.bind]
    unfold Impl.taprootSigHash at h ⊢
    rw [← Impl.taproot_precomputed hp]
    exact h
  · intro hall
    unfold Impl.viewTaprootSigHash Impl.psbtTaprootSigHash
    cases hn : Impl.assertInputIndex inputs.length i with
    | error e => rfl
    | ok n =>
      cases hs : Impl.spentOutputs inputs with
      | error e => rfl
      | ok spent =>
        obtain ⟨p, hp⟩ := hall spent hs
        simp only [bind, Except.bind, hp]
        unfold Impl.taprootSigHash
        exact Impl.taproot_precomputed hp _ _ _ _ _

/-! ## T3b — the refusal table, refusing direction (a declared error ⇒ BTClibValueError) -/

/-- T3b (BIP341): `taproot` REFUSES, with the library's value error, an input index outside the transaction, a
    number of spent outputs that is not the number of inputs, a hash type outside the seven and SIGHASH_SINGLE
    without a matching output -- direct or with any precomputed object, whatever the other arguments are
    (with `taproot_refuses_declared_errors`: it answers only when none of these holds). -/
theorem refusal_table_bip341 (S : Bytes → Bytes) (tx : Tx) (i : Int) (prevouts : List TxOut) (ht extFlag : Int)
    (annex msgExt : Bytes) (pre : Option Impl.Precomputed)
    (h : i < 0 ∨ (tx.vin.length : Int) ≤ i ∨ prevouts.length ≠ tx.vin.length ∨
      Impl.intMem ht Gen.SigHash.SIG_HASH_TYPES = false ∨ (tapSingle ht.toNat = true ∧ i.toNat ≥ tx.vout.length)) :
    Impl.taproot S tx i prevouts ht extFlag annex msgExt pre = .error .value :=
  Impl.taproot_refuses h

/-- T3b (legacy, BIP143): a hash type wider than its four bytes or an index outside the transaction (`legacy`); an
    amount outside the CAmount field or an index outside the transaction (`segwit_v0`) are refused with the
    library's value error.  (SIGHASH_SINGLE without a matching output is NOT an error in either: the constant
    `legacy_single_out_of_range`, BIP143's zero hashOutputs.) -/
theorem refusal_table_legacy_bip143 (S : Bytes → Bytes) (sc : Bytes) (tx : Tx) (i ht amount : Int)
    (pre : Option Impl.Precomputed) :
    (ht < -2147483648 ∨ 4294967296 ≤ ht ∨ i < 0 ∨ (tx.vin.length : Int) ≤ i →
      Impl.legacy S sc tx i ht = .error .value) ∧
    (amount < -9223372036854775808 ∨ 9223372036854775808 ≤ amount ∨ i < 0 ∨ (tx.vin.length : Int) ≤ i →
      Impl.segwitV0 S sc tx i ht amount pre = .error .value) :=
  ⟨Impl.legacy_refuses, Impl.segwitV0_refuses⟩

/-- T3b (`from_tx`): an index naming no input or a prevouts list that is not one per input is refused before any
    dispatch. -/
theorem from_tx_refuses_bad_index_or_prevouts (S H160 : Bytes → Bytes) (prevouts : List TxOut) (tx : Tx)
    (wits : List (List Bytes)) (i ht : Int) (pre : Option Impl.Precomputed) (codesep : Int)
    (h : i < 0 ∨ (tx.vin.length : Int) ≤ i ∨ prevouts.length ≠ tx.vin.length) :
    Impl.fromTx S H160 prevouts tx wits i ht pre codesep = .error .value :=
  Impl.fromTx_refuses h

/-- T3b (annex): whatever `taproot_annex_and_ext` hands on as the annex is empty or is the LAST element of a stack
    of at least two and begins with 0x50 -- an element without the tag is never taken for an annex -- and an empty
    stack is refused.  (`sig_hash.taproot` itself takes the annex as given: see the manifest.) -/
theorem annex_is_tagged_last_element (S : Bytes → Bytes) (stack : List Bytes) (a e : Bytes)
    (h : Impl.annexAndExt S stack = .ok (a, e)) :
    stack ≠ [] ∧ (a = [] ∨ (a.head? = some 0x50 ∧ stack.getLast? = some a ∧ stack.length ≥ 2)) :=
  Impl.annexAndExt_annex_tagged h

/-- T3b (PSBT): an input index outside the input maps is refused by all three entry points (the repair of
    `psbt.sig_hash.vin_i_out_of_range`: a negative index no longer counts from the end), and a taproot digest is
    refused when any input map carries no utxo. -/
theorem psbt_refuses_bad_index_and_missing_utxo (S : Bytes → Bytes) (inputs : List Impl.PsbtInput) (tx : Tx) (i : Int)
    (leaf : Bytes) (ht : Option Int) :
    (i < 0 ∨ (inputs.length : Int) ≤ i →
      Impl.psbtEcdsaSigHash S inputs tx i ht = .error .value ∧
      Impl.psbtTaprootSigHash S inputs tx i leaf ht = .error .value ∧
      Impl.viewTaprootSigHash S inputs tx i leaf ht = .error .value) ∧
    ((∃ p ∈ inputs, Impl.prevOutOf p = none) →
      Impl.psbtTaprootSigHash S inputs tx i leaf ht = .error .value ∧
      Impl.viewTaprootSigHash S inputs tx i leaf ht = .error .value) := by
  constructor
  · intro h
    unfold Impl.psbtEcdsaSigHash Impl.psbtTaprootSigHash Impl.viewTaprootSigHash
    rw [Impl.assertInputIndex_bad h]
    exact ⟨rfl, rfl, rfl⟩
  · intro h
    unfold Impl.psbtTaprootSigHash Impl.viewTaprootSigHash
    rw [Impl.spentOutputs_missing h]
    by_cases hi : i < 0 ∨ (inputs.length : Int) ≤ i
    · rw [Impl.assertInputIndex_bad hi]
      exact ⟨rfl, rfl⟩
    · have hv : Impl.assertInputIndex inputs.length i = .ok i.toNat := by
        unfold Impl.assertInputIndex
        rw [if_pos (by omega)]
        rfl
      rw [hv]
      exact ⟨rfl, rfl⟩

/-! ## T6 — `from_tx`: the dispatch -/

/-- T6: whatever `from_tx` answers is the answer of the ONE single-algorithm function its dispatch names, on the
    arguments it derives: the index names an input, there is one spent output per input, and
    * a p2tr previous output: no codeseparator index, and `taproot` with the annex and extension
      `taproot_annex_and_ext` reads off the input's witness stack (extension flag 1 iff the extension is not empty);
    * else, with `script` the previous output's script or -- for p2sh -- the redeem script `redeem_script` checked
      against its hash: p2wpkh ⇒ no codeseparator index and `segwit_v0` over the p2pkh script of the program with the
      spent amount; p2wsh ⇒ `segwit_v0` over the last witness element from the codesep-th separator on, with the
      spent amount; otherwise not taproot (p2sh-wrapped taproot is refused) and `legacy` over the script from the
      codesep-th separator on.
    With the layer ties (`taproot_is_bip341`, `segwit_v0_is_bip143`, `legacy_is_core_signature_hash`) and
    `annex_is_tagged_last_element` each branch is the specification's digest. -/
theorem from_tx_is_the_dispatched_algorithm (S H160 : Bytes → Bytes) (prevouts : List TxOut) (tx : Tx)
    (wits : List (List Bytes)) (i ht : Int) (pre : Option Impl.Precomputed) (codesep : Int) (d : Bytes)
    (h : Impl.fromTx S H160 prevouts tx wits i ht pre codesep = .ok d) :
    0 ≤ i ∧ i < tx.vin.length ∧ prevouts.length = tx.vin.length ∧
    (if Impl.isP2tr (prevouts.getD i.toNat blankOut).spk then
      codesep = 0 ∧ ∃ annex ext, Impl.annexAndExt S (wits.getD i.toNat []) = .ok (annex, ext) ∧
        Impl.taproot S tx i prevouts ht (if ext.isEmpty then 0 else 1) annex ext pre = .ok d
    else ∃ script,
      (if Impl.isP2sh (prevouts.getD i.toNat blankOut).spk then
          Impl.redeemScript H160 (tx.vin.getD i.toNat dfltIn).scriptSig (prevouts.getD i.toNat blankOut).spk = .ok script
        else script = (prevouts.getD i.toNat blankOut).spk) ∧
      (if Impl.isP2wpkh script then
        codesep = 0 ∧
          Impl.segwitV0 S (Impl.p2pkhScript (script.drop 2)) tx i ht (prevouts.getD i.toNat blankOut).value pre = .ok d
      else if Impl.isP2wsh script then
        ∃ ws sc, (wits.getD i.toNat []).getLast? = some ws ∧ scriptCodeFrom ws codesep = some sc ∧
          Impl.segwitV0 S sc tx i ht (prevouts.getD i.toNat blankOut).value pre = .ok d
      else Impl.isP2tr script = false ∧
        ∃ sc, scriptCodeFrom script codesep = some sc ∧ Impl.legacy S sc tx i ht = .ok d)) :=
  Impl.fromTx_ok h

/-! ## T4 — OP_CODESEPARATOR removal -/

/-- T4: reading the stripped script operation by operation (Core's `GetOp`) gives exactly the operations of
    the original that are not OP_CODESEPARATOR, in order and byte for byte, and the same unreadable tail: the
    OP_CODESEPARATOR *op codes* are removed and nothing else -- a 0xAB inside a push is part of that push's
    chunk and stays, and bytes after an unreadable push are kept verbatim. -/
theorem codesep_removes_exactly_the_opcodes (s : Bytes) :
    walk (withoutCodeSeparators s) = ((walk s).1.filter (fun c => !chunkIsSep c), (walk s).2) :=
  walk_withoutCodeSeparators s

/-- T4: idempotent. -/
theorem codesep_removal_idempotent (s : Bytes) :
    withoutCodeSeparators (withoutCodeSeparators s) = withoutCodeSeparators s :=
  withoutCodeSeparators_idem s

/-- T4: the walk loses nothing (chunks and tail are the script), so a script without OP_CODESEPARATOR op codes
    is left as it is. -/
theorem codesep_none_is_identity (s : Bytes) (h : ∀ c ∈ (walk s).1, chunkIsSep c = false) :
    withoutCodeSeparators s = s := by
  unfold withoutCodeSeparators
  have : (walk s).1.filter (fun c => !chunkIsSep c) = (walk s).1 :=
    List.filter_eq_self.mpr (fun c hc => by simp [h c hc])
  simp only [this]
  exact walk_reconstructs s

/-- T4 (`_script_code_from`): for `k ≥ 1` the answer is the script's own bytes after the k-th OP_CODESEPARATOR
    *operation* of Core's `GetOp` walk (`pre` holds exactly k-1 separator operations and `c` is the k-th; a 0xAB
    inside a push is inside a chunk and is never counted), and the library refuses exactly when the script has
    fewer than k separator operations; `k = 0` is the whole script, `k < 0` is refused. -/
theorem script_code_from_is_suffix_after_kth_separator (s : Bytes) (k : Int) :
    (k < 0 → scriptCodeFrom s k = none) ∧ (k = 0 → scriptCodeFrom s k = some s) ∧
    (1 ≤ k →
      (∀ r, scriptCodeFrom s k = some r →
        ∃ pre c post, (walk s).1 = pre ++ c :: post ∧ chunkIsSep c = true ∧
          pre.countP chunkIsSep + 1 = k.toNat ∧ r = post.flatten ++ (walk s).2 ∧ s = (pre.flatten ++ c) ++ r) ∧
      (scriptCodeFrom s k = none ↔ (walk s).1.countP chunkIsSep < k.toNat)) := by
  refine ⟨fun h => by simp [scriptCodeFrom, h], fun h => by simp [scriptCodeFrom, h], fun hk => ?_⟩
  exact ⟨fun r h => scriptCodeFrom_some hk h, scriptCodeFrom_none hk⟩

/-! ## T4c — FindAndDelete (what hands `legacy` its script code in a signature check) -/

/-- T4c: btclib's `find_and_delete` -- offsets `pc2`, `pc` walking the script, `kept` slices joined at the end --
    IS Core's `FindAndDelete` (skip the copies of the target standing at an operation boundary, keep ONE whole
    operation, go on; the unreadable tail verbatim; an empty target and a script with no match are returned as they
    are): same bytes, same count, for every script and every target. -/
theorem find_and_delete_is_core (s t : Bytes) : Impl.findAndDeleteImpl s t = findAndDelete s t :=
  Impl.findAndDeleteImpl_eq s t

/-- T4c: `calculate_script_code` for a pre-segwit check answers Core's script code -- the script from the last
    executed OP_CODESEPARATOR on with the push of every signature under check removed by FindAndDelete, one after
    the other -- whenever it answers, and without CONST_SCRIPTCODE it always answers. -/
theorem calculate_script_code_is_core (script : Bytes) (offset : Nat) (sigs : List Bytes) (cs : Bool) (sc : Bytes) :
    (Impl.calculateScriptCode script offset sigs cs false = .ok sc → sc = legacyScriptCode script offset sigs) ∧
    Impl.calculateScriptCode script offset sigs false false = .ok (legacyScriptCode script offset sigs) :=
  ⟨Impl.calculateScriptCode_ok, Impl.calculateScriptCode_lax script offset sigs⟩

/-- T4c, composed: the digest a pre-segwit OP_CHECKSIG checks -- `calculate_script_code` then `sig_hash.legacy` --
    is Core's `SignatureHash` of the FindAndDelete'd script code: FindAndDelete first, on the script code with its
    separators still in, the elision of OP_CODESEPARATORs after it, in the serializer. -/
theorem legacy_checksig_digest_is_core (S : Bytes → Bytes) (script : Bytes) (offset : Nat) (sigs : List Bytes)
    (cs : Bool) (tx : Tx) (i ht : Int) (sc d : Bytes)
    (h1 : Impl.calculateScriptCode script offset sigs cs false = .ok sc) (h2 : Impl.legacy S sc tx i ht = .ok d) :
    d = legacyDigest (Impl.hash256 S) (legacyScriptCode script offset sigs) tx i.toNat (Impl.word ht) := by
  rw [← Impl.calculateScriptCode_ok h1]
  exact Impl.legacy_eq_spec h2

/-- the CompactSize writer of the specification is the translated `var_int.serialize`. -/
theorem compactSize_is_var_int_serialize (n : Nat) (hn : n < 18446744073709551616) :
    Gen.VarInt.serialize (n : Int) = .ok (compactSize n) :=
  compactSize_eq_gen n hn

/-! ## non-vacuity -/

-- a separator inside a push stays, the op code goes, the truncated push's bytes stay
example : withoutCodeSeparators [0x01, 0xAB, 0xAB, 0x51, 0x02, 0xAB] = [0x01, 0xAB, 0x51, 0x02, 0xAB] := by decide
example : (walk [0x01, 0xAB, 0xAB, 0x51, 0x02, 0xAB]) = ([[0x01, 0xAB], [0xAB], [0x51]], [0x02, 0xAB]) := by decide
-- the masks read off the source
example : baseType 0x83 = Gen.SigHash.SINGLE ∧ anyoneCanPay 0x83 = true ∧ isNone 0xFFFFFF02 = true := by decide
example : tapSingle 0x83 = true ∧ tapAcp 0x83 = true ∧ tapAcp 3 = false := by decide
-- a concrete well-formed transaction and its legacy preimage length
example : (legacyPreimage [0xAB, 0x51] exTx 0 1).length = 4 + 1 + (36 + 2 + 4) + 1 + (8 + 2) + 4 + 4 := by decide
-- the second separator of `ab 01ab ab 51`: the 0xAB inside the push is not counted
example : scriptCodeFrom [0xAB, 0x01, 0xAB, 0xAB, 0x51] 2 = some [0x51] ∧
    scriptCodeFrom [0xAB, 0x01, 0xAB, 0xAB, 0x51] 3 = none := by decide
-- a negative hash type and its word
example : Gen.SigHash.serialized_hash_type (-1) = .ok [255, 255, 255, 255] ∧ Impl.word (-1) = 4294967295 := by decide
-- the layer-tie hypotheses are met (identity in place of SHA256; all three answer a digest on `exTx`)
example : (Impl.legacy id [0xAB, 0x51] exTx 0 (-127)).toOption.isSome = true := by decide
example : (Impl.segwitV0 id [0x51] exTx 0 0x83 1000 none).toOption.isSome = true := by decide
example : (Impl.taproot id exTx 0 [⟨1000, [0x51]⟩] 0x83 1 [0x50] (tapExtBytes (some ⟨List.replicate 32 9, 0, 4294967295⟩))
    none).toOption.isSome = true := by decide
-- the hypothesis bundles of the three `*_commits` theorems are inhabited: a well-formed transaction, spent
-- output, extension, a 32-byte hash parameter -- and the theorems fire on them
example : (1 : Nat) = 1 ∧ exTx.version = exTx.version :=
  let r := legacy_commits [0xAB, 0x51] [0xAB, 0x51] exTx exTx 0 1 1 exTx_wf exTx_wf (by unfold Sized; decide)
    (by unfold Sized; decide) (by decide) (by decide) (by decide) (by decide) (by decide) rfl
  ⟨r.1, r.2.1⟩
example : (0x83 : Nat) = 0x83 ∧ (1000 : Int) = 1000 :=
  let r := bip143_commits exH exH_len [0x51] [0x51] exTx exTx 0 0x83 0x83 1000 1000 exTx_wf exTx_wf (by decide)
    (by decide) (by unfold Sized; decide) (by unfold Sized; decide) (by decide) (by decide) (by decide) (by decide) rfl
  ⟨r.1, r.2.2.2.2.2.2.1⟩
example : (0x83 : Nat) = 0x83 ∧ some exExt = some exExt :=
  let ws : ∀ o ∈ [(⟨1000, [0x51]⟩ : TxOut)], o.WF := by
    intro o ho
    simp only [List.mem_singleton] at ho
    subst ho
    exact ⟨by decide, by unfold Sized; decide⟩
  let r := bip341_commits exH exH_len exTx exTx 0 0 [⟨1000, [0x51]⟩] [⟨1000, [0x51]⟩] 0x83 0x83 (some [0x50])
    (some [0x50]) (some exExt) (some exExt) exTx_wf exTx_wf ws ws (by decide) (by decide) (by decide) (by decide)
    (by decide) (by decide) (fun e he => by cases he; exact exExt_wf) (fun e he => by cases he; exact exExt_wf) rfl
  ⟨r.1, r.2.2.2.1⟩
example : legacySingleBug exTx 0 3 = false ∧ legacySingleBug { exTx with vout := [] } 0 3 = true := by decide

-- the cache theorems are not vacuous: a cache of ANOTHER transaction changes an ALL digest, not an ANYONECANPAY|NONE one
example : Impl.taproot id exTx 0 [⟨1000, [0x51]⟩] 0x82 0 [] [] (some ⟨[1], [2], [3], [4], [5]⟩) =
      Impl.taproot id exTx 0 [⟨1000, [0x51]⟩] 0x82 0 [] [] none ∧
    Impl.taproot id exTx 0 [⟨1000, [0x51]⟩] 1 0 [] [] (some ⟨[1], [2], [3], [4], [5]⟩) ≠
      Impl.taproot id exTx 0 [⟨1000, [0x51]⟩] 1 0 [] [] none := by decide
-- the PSBT route answers: a p2wpkh input described by a witness utxo, a legacy one by a non-witness utxo (output 1 of
-- the previous transaction), a taproot one; and refuses an index outside the maps (-1 no longer counts from the end)
def exWpkh : Impl.PsbtInput := ⟨some ⟨1000, 0 :: 0x14 :: List.replicate 20 7⟩, none, none, [], [], none⟩
def exLegacy : Impl.PsbtInput := ⟨none, some [⟨1, [0x51]⟩, ⟨1000, [0x76, 0xAC]⟩], some 1, [], [], some 0x83⟩
def exTr : Impl.PsbtInput := ⟨some ⟨1000, 0x51 :: 0x20 :: List.replicate 32 7⟩, none, none, [], [], none⟩
example : (Impl.psbtEcdsaSigHash id [exWpkh] exTx 0 none).toOption.isSome = true ∧
    (Impl.psbtEcdsaSigHash id [exLegacy] exTx 0 none).toOption.isSome = true ∧
    Impl.prevOutOf exLegacy = some ⟨1000, [0x76, 0xAC]⟩ ∧
    (Impl.psbtTaprootSigHash id [exTr] exTx 0 (List.replicate 32 9) none).toOption.isSome = true ∧
    Impl.viewTaprootSigHash id [exTr] exTx 0 (List.replicate 32 9) none =
      Impl.psbtTaprootSigHash id [exTr] exTx 0 (List.replicate 32 9) none ∧
    Impl.psbtEcdsaSigHash id [exWpkh] exTx (-1) none = .error .value ∧
    Impl.psbtTaprootSigHash id [exTr] exTx 1 [] none = .error .value ∧
    Impl.psbtTaprootSigHash id [exTr, Impl.PsbtInput.empty] exTx 0 [] none = .error .value := by decide +kernel
-- the refusal table fires: each declared error on an otherwise answering call
example : (Impl.taproot id exTx 0 [⟨1000, [0x51]⟩] 3 0 [] [] none).toOption.isSome = true ∧
    Impl.taproot id exTx 1 [⟨1000, [0x51]⟩] 3 0 [] [] none = .error .value ∧
    Impl.taproot id exTx 0 [] 3 0 [] [] none = .error .value ∧
    Impl.taproot id exTx 0 [⟨1000, [0x51]⟩] 0x80 0 [] [] none = .error .value ∧
    Impl.taproot id { exTx with vout := [] } 0 [⟨1000, [0x51]⟩] 3 0 [] [] none = .error .value ∧
    Impl.legacy id [0x51] exTx 0 4294967296 = .error .value ∧
    Impl.segwitV0 id [0x51] exTx 0 1 9223372036854775808 none = .error .value := by decide
-- an annex is the tagged last element of at least two; the same bytes alone on the stack are the signature
example : (Impl.annexAndExt id [[1, 2], [0x50, 9]]).toOption.map (·.1) = some [0x50, 9] ∧
    (Impl.annexAndExt id [[0x50, 9]]).toOption.map (·.1) = some [] ∧
    (Impl.annexAndExt id [[1, 2], [0x51, 9]]).toOption.map (·.1) = some [] ∧
    (Impl.annexAndExt id []).toOption = none := by decide

-- FindAndDelete: adjacent copies go in one pass; a copy inside a push's data is never looked at; what a deletion joins
-- is not deleted again; a separator in the script code survives FindAndDelete and goes in the serializer
example : findAndDelete [1, 1, 1, 1] [1, 1] = ([], 2) ∧
    findAndDelete [0x03, 0x01, 0xAA, 0x00, 0x01, 0xAA] [0x01, 0xAA] = ([0x03, 0x01, 0xAA, 0x00], 1) ∧
    findAndDelete [0x01, 0x01, 0xAA, 0xAA] [0x01, 0xAA] = ([0x01, 0x01, 0xAA, 0xAA], 0) ∧
    findAndDelete [0x51, 0x02] [0x51] = ([0x02], 1) ∧
    Impl.findAndDeleteImpl [0x51, 0x02] [0x51] = ([0x02], 1) ∧
    legacyScriptCode [0x00, 0xAB, 0x01, 0x07, 0xAB, 0x51] 2 [[0x07]] = [0xAB, 0x51] ∧
    Impl.calculateScriptCode [0x00, 0xAB, 0x01, 0x07, 0xAB, 0x51] 2 [[0x07]] true false = .error .value := by decide

-- from_tx answers on a key path spend with an annex ([signature, 0x50-tagged annex]) and the annex is handed on
example : (Impl.fromTx id id [⟨1000, 0x51 :: 0x20 :: List.replicate 32 7⟩] exTx [[[1, 2], [0x50, 9]]] 0 0 none 0).toOption.isSome
      = true ∧
    Impl.fromTx id id [⟨1000, 0x51 :: 0x20 :: List.replicate 32 7⟩] exTx [[[1, 2], [0x50, 9]]] 0 0 none 0 =
      Impl.taproot id exTx 0 [⟨1000, 0x51 :: 0x20 :: List.replicate 32 7⟩] 0 0 [0x50, 9] [] none := by decide +kernel

end Props.C09
