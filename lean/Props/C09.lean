import Proofs.C09.Legacy
import Proofs.C09.Bip341
import Proofs.C09.Impl
import Proofs.C09.Spec
import Proofs.C09.Examples
/-!
# C09 — signature hashes equal the legacy, BIP143 and BIP341 definitions

Property theorems only (DESIGN §3 C09).  Two layers:

* the SPECIFICATION `Btc.Sighash.{legacyPreimage, bip143Preimage, bip341Preimage}` (`Model/C09/Sighash.lean`),
  written from Core's `CTransactionSignatureSerializer`, BIP143 and BIP341/342 over hash PARAMETERS and the
  constants regenerated from btclib's source (`Gen.SigHash.*`); T2 and T4 are about it;
* the btclib-shaped functions `Btc.Sighash.Impl.*` (`Model/C09/Impl.lean`), tied to `btclib/script/sig_hash.py`
  by the correspondence streams; T1 and T3 are about them.  That the two layers compute the same digest is a
  theorem for all three (`legacy_is_core_signature_hash`, `segwit_v0_is_bip143`, `taproot_is_bip341`) and is
  also checked by the driver on every accepted line of every stream (`specdiff`).

`Collides H a b` is an explicit collision: `a ≠ b ∧ H a = H b`.
-/
namespace Props.C09
open Btc Btc.Sighash

/-! ## T1 — precomputed = direct (any SHA256 parameter `S`) -/

/-- T1 (BIP143): `segwit_v0` with the `PrecomputedTxData` of this very transaction answers what it answers
    without, for every script code, index, hash type and amount -- digests and refusals alike. -/
theorem segwit_v0_precomputed_eq_direct (S : Bytes → Bytes) (tx : Tx) (prevouts : List TxOut)
    (p : Impl.Precomputed) (hp : Impl.precompute S tx prevouts = .ok p) (sc : Bytes) (i ht amount : Int) :
    Impl.segwitV0 S sc tx i ht amount (some p) = Impl.segwitV0 S sc tx i ht amount none :=
  Impl.segwitV0_precomputed hp sc i ht amount

/-- T1 (BIP341): the same for `taproot`, for every index, hash type, extension flag, annex and extension. -/
theorem taproot_precomputed_eq_direct (S : Bytes → Bytes) (tx : Tx) (prevouts : List TxOut)
    (p : Impl.Precomputed) (hp : Impl.precompute S tx prevouts = .ok p) (i ht extFlag : Int) (annex msgExt : Bytes) :
    Impl.taproot S tx i prevouts ht extFlag annex msgExt (some p) =
      Impl.taproot S tx i prevouts ht extFlag annex msgExt none :=
  Impl.taproot_precomputed hp i ht extFlag annex msgExt

/-! ## Layer tie — the btclib-shaped functions compute the specification's digests -/

/-- Layer tie (legacy): whenever the btclib-shaped `legacy` -- transaction copy, blanked scriptSigs, OP_CODESEPARATOR
    elision, NONE / SINGLE edits, ANYONECANPAY, SINGLE out-of-range early return, either spelling of the 32-bit
    hash type -- answers with a digest, it is the specification's: the constant under the SIGHASH_SINGLE bug, else
    hash256 = S∘S of what Core's `CTransactionSignatureSerializer` writes followed by the four type bytes. -/
theorem legacy_is_core_signature_hash (S : Bytes → Bytes) (sc : Bytes) (tx : Tx) (i ht : Int) (d : Bytes)
    (h : Impl.legacy S sc tx i ht = .ok d) :
    d = legacyDigest (Impl.hash256 S) sc tx i.toNat (Impl.word ht) :=
  Impl.legacy_eq_spec h

/-- the heart of it: btclib's copy-and-edit of the transaction IS the transaction Core's serializer virtually
    writes, for every hash type and every input index inside the transaction. -/
theorem legacy_copy_is_core_serializer (sc : Bytes) (tx : Tx) (i w : Nat) (hi : i < tx.vin.length) :
    Impl.legacyEdited sc tx i w = legacyTx sc tx i w :=
  Impl.legacyEdited_eq sc tx i w hi

/-- Layer tie (BIP143): whenever the btclib-shaped `segwit_v0` -- direct, or with the `PrecomputedTxData` of this
    very transaction -- answers with a digest, it is the specification's BIP143 digest with hash256 = S∘S, for
    either spelling (`-2^31 ≤ ht < 2^32`) of the hash type. -/
theorem segwit_v0_is_bip143 (S : Bytes → Bytes) (sc : Bytes) (tx : Tx) (prevouts : List TxOut)
    (i ht amount : Int) (d : Bytes) :
    (Impl.segwitV0 S sc tx i ht amount none = .ok d →
      d = bip143Digest (Impl.hash256 S) sc tx i.toNat (Impl.word ht) amount) ∧
    (∀ p, Impl.precompute S tx prevouts = .ok p → Impl.segwitV0 S sc tx i ht amount (some p) = .ok d →
      d = bip143Digest (Impl.hash256 S) sc tx i.toNat (Impl.word ht) amount) := by
  refine ⟨Impl.segwitV0_eq_spec, fun p hp h => ?_⟩
  rw [Impl.segwitV0_precomputed hp] at h
  exact Impl.segwitV0_eq_spec h

/-- Layer tie (BIP341/342): whenever the btclib-shaped `taproot` -- direct or precomputed -- answers with a digest
    it is the specification's tagged BIP341 digest: for every accepted hash type (the seven), annex present iff
    non-empty, key path (`ext = none`: extension flag 0, empty message extension) or script path (`ext = some e`:
    flag 1, extension = tapleaf hash ‖ key version ‖ codeseparator position). -/
theorem taproot_is_bip341 (S : Bytes → Bytes) (tx : Tx) (i : Int) (prevouts : List TxOut) (ht : Int)
    (annex : Bytes) (ext : Option TapExt) (d : Bytes) :
    (Impl.taproot S tx i prevouts ht (if ext.isSome then 1 else 0) annex (tapExtBytes ext) none = .ok d →
      d = bip341Digest S tx i.toNat prevouts ht.toNat (Impl.annexOpt annex) ext) ∧
    (∀ p, Impl.precompute S tx prevouts = .ok p →
      Impl.taproot S tx i prevouts ht (if ext.isSome then 1 else 0) annex (tapExtBytes ext) (some p) = .ok d →
      d = bip341Digest S tx i.toNat prevouts ht.toNat (Impl.annexOpt annex) ext) := by
  refine ⟨Impl.taproot_eq_spec ext, fun p hp h => ?_⟩
  rw [Impl.taproot_precomputed hp] at h
  exact Impl.taproot_eq_spec ext h

/-- the four hash-type bytes are the two's complement word for either spelling, and nothing wider is taken
    (about the TRANSLATED `_serialized_hash_type`). -/
theorem hash_type_bytes (ht : Int) (b : Bytes) (h : Gen.SigHash.serialized_hash_type ht = .ok b) :
    b = le4 (Impl.word ht) ∧ -2147483648 ≤ ht ∧ ht < 4294967296 :=
  Impl.serialized_hash_type_ok h

/-! ## T2 — commitment: equal preimages ⇒ equal committed fields (or an explicit collision) -/

/-- T2 (legacy): for the same input index, equal legacy preimages of well-formed arguments mean the same hash
    type, version, lock time, the same outpoint and sequence of the signed input and the same script code less its
    OP_CODESEPARATORs; every outpoint unless ANYONECANPAY; every sequence under ALL-like types without
    ANYONECANPAY; every output unless NONE/SINGLE; the matching output under SINGLE.  No hash is involved: the
    legacy preimage contains the fields themselves.  (The SIGHASH_SINGLE out-of-range constant is the stated
    exception: `legacy_single_bug_commits_nothing`.) -/
theorem legacy_commits (sc sc' : Bytes) (tx tx' : Tx) (nIn ht ht' : Nat)
    (wf : tx.WF) (wf' : tx'.WF) (hsc : Sized sc) (hsc' : Sized sc')
    (hin : nIn < tx.vin.length) (hin' : nIn < tx'.vin.length) (hno : nIn < 18446744073709551615)
    (hht : ht < 4294967296) (hht' : ht' < 4294967296)
    (h : legacyPreimage sc tx nIn ht = legacyPreimage sc' tx' nIn ht') :
    ht = ht' ∧ tx.version = tx'.version ∧ tx.lockTime = tx'.lockTime ∧
    (tx.vin.getD nIn dfltIn).prev = (tx'.vin.getD nIn dfltIn).prev ∧
    (tx.vin.getD nIn dfltIn).sequence = (tx'.vin.getD nIn dfltIn).sequence ∧
    withoutCodeSeparators sc = withoutCodeSeparators sc' ∧
    (anyoneCanPay ht = false → tx.vin.map (·.prev) = tx'.vin.map (·.prev)) ∧
    (anyoneCanPay ht = false → isSingle ht = false → isNone ht = false →
      tx.vin.map (·.sequence) = tx'.vin.map (·.sequence)) ∧
    (isSingle ht = false → isNone ht = false → tx.vout = tx'.vout) ∧
    (isSingle ht = true → tx.vout.getD nIn blankOut = tx'.vout.getD nIn blankOut) := by
  obtain ⟨ht_eq, e⟩ := legacyPreimage_inj (legacyTx_wf wf hsc hin hno) (legacyTx_wf wf' hsc' hin' hno) hht hht' h
  subst e
  obtain ⟨v, l⟩ := legacyTx_version ht_eq
  obtain ⟨o1, o2, o3⟩ := legacyTx_own ht_eq hin
  exact ⟨rfl, v, l, o1, o2, o3, fun a => (legacyTx_prevouts ht_eq a).2, legacyTx_sequences ht_eq,
    legacyTx_outputs ht_eq, legacyTx_single ht_eq⟩

/-- T2 (legacy), digest level: equal digests (outside the SINGLE bug) mean equal preimages -- hence
    `legacy_commits` -- or the two preimages are an explicit collision of `H` (hash256). -/
theorem legacy_digest_commits (H : Bytes → Bytes) (sc sc' : Bytes) (tx tx' : Tx) (nIn ht ht' : Nat)
    (hb : legacySingleBug tx nIn ht = false) (hb' : legacySingleBug tx' nIn ht' = false)
    (h : legacyDigest H sc tx nIn ht = legacyDigest H sc' tx' nIn ht') :
    legacyPreimage sc tx nIn ht = legacyPreimage sc' tx' nIn ht' ∨
      Collides H (legacyPreimage sc tx nIn ht) (legacyPreimage sc' tx' nIn ht') := by
  simp only [legacyDigest, hb, hb', Bool.false_eq_true, ↓reduceIte] at h
  exact open_hash h

/-- the stated exception: under the SIGHASH_SINGLE bug the digest is the constant, whatever the transaction,
    the script code and the rest of the hash type are -- it commits to nothing. -/
theorem legacy_single_bug_commits_nothing (H : Bytes → Bytes) (sc : Bytes) (tx : Tx) (nIn ht : Nat)
    (hb : legacySingleBug tx nIn ht = true) : legacyDigest H sc tx nIn ht = Gen.SigHash.SINGLE_BUG_DIGEST := by
  simp [legacyDigest, hb]

/-- T2 (BIP143): equal BIP143 preimages (hash parameter `H` with 32-byte output) mean the same hash type,
    version, lock time, outpoint and sequence of the signed input, script code (whole) and amount; and, through
    the three inner hashes, every outpoint unless ANYONECANPAY, every sequence for ALL-like types, every output
    unless NONE/SINGLE, the matching output under SINGLE -- each OR an explicit `H`-collision between the two
    serializations named. -/
theorem bip143_commits (H : Bytes → Bytes) (hH : ∀ x, (H x).length = 32) (sc sc' : Bytes) (tx tx' : Tx)
    (nIn ht ht' : Nat) (amount amount' : Int)
    (wf : tx.WF) (wf' : tx'.WF) (hin : nIn < tx.vin.length) (hin' : nIn < tx'.vin.length)
    (hsc : Sized sc) (hsc' : Sized sc') (ha : I64 amount) (ha' : I64 amount')
    (hht : ht < 4294967296) (hht' : ht' < 4294967296)
    (h : bip143Preimage H sc tx nIn ht amount = bip143Preimage H sc' tx' nIn ht' amount') :
    ht = ht' ∧ tx.version = tx'.version ∧ tx.lockTime = tx'.lockTime ∧
    (tx.vin.getD nIn dfltIn).prev = (tx'.vin.getD nIn dfltIn).prev ∧
    (tx.vin.getD nIn dfltIn).sequence = (tx'.vin.getD nIn dfltIn).sequence ∧
    sc = sc' ∧ amount = amount' ∧
    (anyoneCanPay ht = false →
      tx.vin.map (·.prev) = tx'.vin.map (·.prev) ∨ Collides H (serPrevouts tx) (serPrevouts tx')) ∧
    (anyoneCanPay ht = false → isSingle ht = false → isNone ht = false →
      tx.vin.map (·.sequence) = tx'.vin.map (·.sequence) ∨ Collides H (serSequences tx) (serSequences tx')) ∧
    (isSingle ht = false → isNone ht = false →
      tx.vout = tx'.vout ∨ Collides H (serOutputs tx) (serOutputs tx')) ∧
    (isSingle ht = true → nIn < tx.vout.length → nIn < tx'.vout.length →
      tx.vout.getD nIn blankOut = tx'.vout.getD nIn blankOut ∨
        Collides H (serTxOut (tx.vout.getD nIn blankOut)) (serTxOut (tx'.vout.getD nIn blankOut))) := by
  obtain ⟨e1, e2, e3, e4, e5, e6, e7, e8, e9, e10⟩ := bip143Preimage_inj hH wf.version wf'.version wf.lockTime
    wf'.lockTime (getD_wf_in wf.vin hin) (getD_wf_in wf'.vin hin') hsc hsc' ha ha' hht hht' h
  subst e10
  refine ⟨rfl, e1, e9, e4, e7, e5, e6, ?_, ?_, ?_, ?_⟩
  · intro hacp
    simp only [bip143HashPrevouts, hacp, Bool.not_false, ↓reduceIte] at e2
    exact (open_hash e2).imp (serPrevouts_inj wf.vin wf'.vin) id
  · intro hacp hs hn
    simp only [bip143HashSequence, hacp, hs, hn, Bool.not_false, and_self, ↓reduceIte] at e3
    exact (open_hash e3).imp (serSequences_inj wf.vin wf'.vin) id
  · intro hs hn
    simp only [bip143HashOutputs, hs, hn, Bool.not_false, and_self, ↓reduceIte] at e8
    exact (open_hash e8).imp (serOutputs_inj wf.vout wf'.vout) id
  · intro hs ho ho'
    simp only [bip143HashOutputs, hs, ho, ho', Bool.not_true, Bool.false_eq_true, false_and, and_self,
      ↓reduceIte] at e8
    exact (open_hash e8).imp
      (fun e => serTxOut_prefixInj.inj (getD_wf_out wf.vout nIn) (getD_wf_out wf'.vout nIn) e) id

/-- T2 (BIP143), SINGLE with the committed output DROPPED on one side: if the signed input has its matching
    output in one transaction and none in the other (`nIn ≥ tx'.vout.length`, where BIP143 writes 32 zero bytes),
    equal preimages exhibit an explicit preimage of `0^32` under `H`: the serialization of the dropped output.
    (With both in range `bip143_commits` applies; with neither, hashOutputs is zero on both sides and SINGLE
    commits to no output at all -- BIP143's rule, the analogue of the legacy bug.) -/
theorem bip143_single_dropped_output (H : Bytes → Bytes) (hH : ∀ x, (H x).length = 32) (sc sc' : Bytes) (tx tx' : Tx)
    (nIn ht ht' : Nat) (amount amount' : Int)
    (wf : tx.WF) (wf' : tx'.WF) (hin : nIn < tx.vin.length) (hin' : nIn < tx'.vin.length)
    (hsc : Sized sc) (hsc' : Sized sc') (ha : I64 amount) (ha' : I64 amount')
    (hht : ht < 4294967296) (hht' : ht' < 4294967296) (hs : isSingle ht = true)
    (ho : nIn < tx.vout.length) (ho' : ¬ nIn < tx'.vout.length)
    (h : bip143Preimage H sc tx nIn ht amount = bip143Preimage H sc' tx' nIn ht' amount') :
    H (serTxOut (tx.vout.getD nIn blankOut)) = zero32 := by
  obtain ⟨_, _, _, _, _, _, _, e8, _, e10⟩ := bip143Preimage_inj hH wf.version wf'.version wf.lockTime
    wf'.lockTime (getD_wf_in wf.vin hin) (getD_wf_in wf'.vin hin') hsc hsc' ha ha' hht hht' h
  subst e10
  simpa [bip143HashOutputs, hs, ho, ho'] using e8

/-- T2 (BIP341/342): equal `SigMsg` preimages (SHA256 parameter `S` with 32-byte output, hash types below 256)
    mean the same hash type, version, lock time, spend type (annex present / extension present) and the same
    BIP342 extension (tapleaf hash, key version, codeseparator position); without ANYONECANPAY the same input
    index and -- each OR an explicit `S`-collision -- every outpoint, every spent amount, every spent
    scriptPubKey, every sequence; with ANYONECANPAY the outpoint, spent amount, spent scriptPubKey and sequence
    of the signed input themselves; every output unless NONE/SINGLE, the matching output under SINGLE, and
    the annex, each OR an explicit collision. -/
theorem bip341_commits (S : Bytes → Bytes) (hS : ∀ x, (S x).length = 32) (tx tx' : Tx) (nIn nIn' : Nat)
    (spent spent' : List TxOut) (ht ht' : Nat) (annex annex' : Option Bytes) (ext ext' : Option TapExt)
    (wf : tx.WF) (wf' : tx'.WF) (ws : ∀ o ∈ spent, o.WF) (ws' : ∀ o ∈ spent', o.WF)
    (hin : nIn < tx.vin.length) (hin' : nIn' < tx'.vin.length)
    (hn : nIn < 4294967296) (hn' : nIn' < 4294967296) (hht : ht < 256) (hht' : ht' < 256)
    (we : ∀ e, ext = some e → e.WF) (we' : ∀ e, ext' = some e → e.WF)
    (h : bip341Preimage S tx nIn spent ht annex ext = bip341Preimage S tx' nIn' spent' ht' annex' ext') :
    ht = ht' ∧ tx.version = tx'.version ∧ tx.lockTime = tx'.lockTime ∧
    ext = ext' ∧ annex.isSome = annex'.isSome ∧
    (tapAcp ht = false → nIn = nIn' ∧
      (tx.vin.map (·.prev) = tx'.vin.map (·.prev) ∨ Collides S (serPrevouts tx) (serPrevouts tx')) ∧
      (spent.map (·.value) = spent'.map (·.value) ∨ Collides S (serAmounts spent) (serAmounts spent')) ∧
      (spent.map (·.spk) = spent'.map (·.spk) ∨ Collides S (serScriptPubKeys spent) (serScriptPubKeys spent')) ∧
      (tx.vin.map (·.sequence) = tx'.vin.map (·.sequence) ∨ Collides S (serSequences tx) (serSequences tx'))) ∧
    (tapAcp ht = true →
      (tx.vin.getD nIn dfltIn).prev = (tx'.vin.getD nIn' dfltIn).prev ∧
      (tx.vin.getD nIn dfltIn).sequence = (tx'.vin.getD nIn' dfltIn).sequence ∧
      spent.getD nIn blankOut = spent'.getD nIn' blankOut) ∧
    (tapNone ht = false → tapSingle ht = false →
      tx.vout = tx'.vout ∨ Collides S (serOutputs tx) (serOutputs tx')) ∧
    (tapSingle ht = true →
      tx.vout.getD nIn blankOut = tx'.vout.getD nIn' blankOut ∨
        Collides S (serTxOut (tx.vout.getD nIn blankOut)) (serTxOut (tx'.vout.getD nIn' blankOut))) ∧
    (∀ a a', annex = some a → annex' = some a' → Sized a → Sized a' →
      a = a' ∨ Collides S (varBytes a) (varBytes a')) := by
  obtain ⟨e0, e1, e2, e3, e4, e5, e6, e7, e8, e9, e10⟩ := bip341Preimage_inj hS hht hht' wf.version wf'.version
    wf.lockTime wf'.lockTime (fun _ => ⟨getD_wf_in wf.vin hin, getD_wf_out ws nIn⟩)
    (fun _ => ⟨getD_wf_in wf'.vin hin', getD_wf_out ws' nIn'⟩) hn hn' we we' h
  subst e0
  refine ⟨rfl, e1, e2, e10, e6, ?_, ?_, ?_, ?_, ?_⟩
  · intro hacp
    simp only [tapTxHashes, hacp, Bool.not_false, ↓reduceIte] at e3
    simp only [tapInputData, hacp, Bool.false_eq_true, ↓reduceIte] at e7
    obtain ⟨a1, e3⟩ := List.append_inj e3 (by rw [hS, hS])
    obtain ⟨a2, e3⟩ := List.append_inj e3 (by rw [hS, hS])
    obtain ⟨a3, a4⟩ := List.append_inj e3 (by rw [hS, hS])
    have := le4_inj (a := (nIn : Int)) (b := (nIn' : Int)) (by unfold U32; omega) (by unfold U32; omega) e7
    exact ⟨by omega, (open_hash a1).imp (serPrevouts_inj wf.vin wf'.vin) id,
      (open_hash a2).imp (serAmounts_inj ws ws') id, (open_hash a3).imp (serScriptPubKeys_inj ws ws') id,
      (open_hash a4).imp (serSequences_inj wf.vin wf'.vin) id⟩
  · intro hacp
    simp only [tapInputData, hacp, ↓reduceIte] at e7
    have w1 := getD_wf_in wf.vin hin
    have w1' := getD_wf_in wf'.vin hin'
    have w2 := getD_wf_out ws nIn
    have w2' := getD_wf_out ws' nIn'
    obtain ⟨a1, e7⟩ := serOutPoint_prefixInj _ _ _ _ w1.prev w1'.prev e7
    obtain ⟨a2, e7⟩ := le8s_prefixInj _ _ _ _ w2.value w2'.value e7
    obtain ⟨a3, e7⟩ := varBytes_prefixInj _ _ _ _ w2.spk w2'.spk e7
    have a4 := le4_inj w1.sequence w1'.sequence e7
    refine ⟨a1, a4, ?_⟩
    cases hx : spent.getD nIn blankOut; cases hy : spent'.getD nIn' blankOut
    simp_all
  · intro hn hs
    simp only [tapOutputsHash, hn, hs, Bool.not_false, and_self, ↓reduceIte] at e4
    exact (open_hash e4).imp (serOutputs_inj wf.vout wf'.vout) id
  · intro hs
    simp only [tapSingleHash, hs, ↓reduceIte] at e9
    exact (open_hash e9).imp
      (fun e => serTxOut_prefixInj.inj (getD_wf_out wf.vout nIn) (getD_wf_out wf'.vout nIn') e) id
  · intro a a' ha ha' sa sa'
    subst ha ha'
    simp only [tapAnnexHash] at e8
    exact (open_hash e8).imp (fun e => varBytes_prefixInj.inj sa sa' e) id

/-- T2 (BIP341), digest level, with the colliding pair named: equal tagged digests mean equal messages or the two
    tagged inputs `S(tag) ‖ S(tag) ‖ message` are an explicit collision of `S`. -/
theorem bip341_digest_commits_explicit (S : Bytes → Bytes) (tx tx' : Tx) (nIn nIn' : Nat) (spent spent' : List TxOut)
    (ht ht' : Nat) (annex annex' : Option Bytes) (ext ext' : Option TapExt)
    (h : bip341Digest S tx nIn spent ht annex ext = bip341Digest S tx' nIn' spent' ht' annex' ext') :
    bip341Preimage S tx nIn spent ht annex ext = bip341Preimage S tx' nIn' spent' ht' annex' ext' ∨
      Collides S
        (S Gen.SigHash.TAG_SIGHASH ++ (S Gen.SigHash.TAG_SIGHASH ++ bip341Preimage S tx nIn spent ht annex ext))
        (S Gen.SigHash.TAG_SIGHASH ++ (S Gen.SigHash.TAG_SIGHASH ++ bip341Preimage S tx' nIn' spent' ht' annex' ext')) := by
  unfold bip341Digest taggedWith at h
  rcases open_hash h with e | c
  · exact Or.inl (List.append_cancel_left (List.append_cancel_left e))
  · exact Or.inr c

/-- T2 (BIP341), digest level, existential form (what C10 composes with): equal messages or SOME collision of `S`
    -- the pair is the one `bip341_digest_commits_explicit` names. -/
theorem bip341_digest_commits (S : Bytes → Bytes) (tx tx' : Tx) (nIn nIn' : Nat) (spent spent' : List TxOut)
    (ht ht' : Nat) (annex annex' : Option Bytes) (ext ext' : Option TapExt)
    (h : bip341Digest S tx nIn spent ht annex ext = bip341Digest S tx' nIn' spent' ht' annex' ext') :
    bip341Preimage S tx nIn spent ht annex ext = bip341Preimage S tx' nIn' spent' ht' annex' ext' ∨
      ∃ a b, Collides S a b :=
  (bip341_digest_commits_explicit S tx tx' nIn nIn' spent spent' ht ht' annex annex' ext ext' h).imp id
    (fun c => ⟨_, _, c⟩)

/-- T2 (BIP143), digest level. -/
theorem bip143_digest_commits (H : Bytes → Bytes) (sc sc' : Bytes) (tx tx' : Tx) (nIn ht ht' : Nat)
    (amount amount' : Int) (h : bip143Digest H sc tx nIn ht amount = bip143Digest H sc' tx' nIn ht' amount') :
    bip143Preimage H sc tx nIn ht amount = bip143Preimage H sc' tx' nIn ht' amount' ∨
      Collides H (bip143Preimage H sc tx nIn ht amount) (bip143Preimage H sc' tx' nIn ht' amount') :=
  open_hash h

/-! ## T3 — the declared errors are refused -/

/-- T3 (BIP341): whenever `taproot` answers with a digest the input index names an input, there is one spent
    output per input, the hash type is one of the seven of `SIG_HASH_TYPES` (regenerated from the source), and
    SIGHASH_SINGLE has its output -- i.e. an index out of range, a prevouts list of the wrong length (on every
    path, ANYONECANPAY included), an undefined type and SINGLE without a matching output are all refused. -/
theorem taproot_refuses_declared_errors (S : Bytes → Bytes) (tx : Tx) (i : Int) (prevouts : List TxOut)
    (ht extFlag : Int) (annex msgExt : Bytes) (pre : Option Impl.Precomputed) (d : Bytes)
    (h : Impl.taproot S tx i prevouts ht extFlag annex msgExt pre = .ok d) :
    0 ≤ i ∧ i < tx.vin.length ∧ prevouts.length = tx.vin.length ∧
      Impl.intMem ht Gen.SigHash.SIG_HASH_TYPES = true ∧
      ¬ (tapSingle ht.toNat = true ∧ i.toNat ≥ tx.vout.length) :=
  Impl.taproot_ok_defined h

/-- the seven: exactly BIP341's (0x80 alone, ANYONECANPAY with DEFAULT, is not among them) -/
theorem taproot_seven_types (ht : Int) :
    Impl.intMem ht Gen.SigHash.SIG_HASH_TYPES = true ↔
      ht = 0 ∨ ht = 1 ∨ ht = 2 ∨ ht = 3 ∨ ht = 0x81 ∨ ht = 0x82 ∨ ht = 0x83 := by
  simp only [Impl.intMem, Gen.SigHash.SIG_HASH_TYPES, List.any_cons, List.any_nil, Bool.or_false, Bool.or_eq_true,
    beq_iff_eq]
  omega

/-- T3 (legacy, BIP143): an input index outside the transaction is refused. -/
theorem legacy_segwit_refuse_bad_index (S : Bytes → Bytes) (sc : Bytes) (tx : Tx) (i ht amount : Int)
    (pre : Option Impl.Precomputed) (d : Bytes) :
    (Impl.legacy S sc tx i ht = .ok d → 0 ≤ i ∧ i < tx.vin.length) ∧
    (Impl.segwitV0 S sc tx i ht amount pre = .ok d → 0 ≤ i ∧ i < tx.vin.length) :=
  ⟨Impl.legacy_ok_index, Impl.segwitV0_ok_index⟩

/-- the SIGHASH_SINGLE bug is kept: index in range, a hash type that fits its four bytes, base type SINGLE and no
    matching output ⇒ the constant `01 00…00`, not an error. -/
theorem legacy_single_out_of_range (S : Bytes → Bytes) (sc : Bytes) (tx : Tx) (i ht : Int) (sht : Bytes)
    (hht : Gen.SigHash.serialized_hash_type ht = .ok sht) (h0 : 0 ≤ i) (h1 : i < tx.vin.length)
    (hs : baseType (Impl.word ht) = Gen.SigHash.SINGLE) (ho : i.toNat ≥ tx.vout.length) :
    Impl.legacy S sc tx i ht = .ok Gen.SigHash.SINGLE_BUG_DIGEST :=
  Impl.legacy_single_bug hht h0 h1 hs ho

/-! ## T4 — OP_CODESEPARATOR removal -/

/-- T4: reading the stripped script operation by operation (Core's `GetOp`) gives exactly the operations of
    the original that are not OP_CODESEPARATOR, in order and byte for byte, and the same unreadable tail: the
    OP_CODESEPARATOR *op codes* are removed and nothing else -- a 0xAB inside a push is part of that push's
    chunk and stays, and bytes after an unreadable push are kept verbatim. -/
theorem codesep_removes_exactly_the_opcodes (s : Bytes) :
    walk (withoutCodeSeparators s) = ((walk s).1.filter (fun c => !chunkIsSep c), (walk s).2) :=
  walk_withoutCodeSeparators s

/-- T4: idempotent. -/
theorem codesep_removal_idempotent (s : Bytes) :
    withoutCodeSeparators (withoutCodeSeparators s) = withoutCodeSeparators s :=
  withoutCodeSeparators_idem s

/-- T4: the walk loses nothing (chunks and tail are the script), so a script without OP_CODESEPARATOR op codes
    is left as it is. -/
theorem codesep_none_is_identity (s : Bytes) (h : ∀ c ∈ (walk s).1, chunkIsSep c = false) :
    withoutCodeSeparators s = s := by
  unfold withoutCodeSeparators
  have : (walk s).1.filter (fun c => !chunkIsSep c) = (walk s).1 :=
    List.filter_eq_self.mpr (fun c hc => by simp [h c hc])
  simp only [this]
  exact walk_reconstructs s

/-- T4 (`_script_code_from`): for `k ≥ 1` the answer is the script's own bytes after the k-th OP_CODESEPARATOR
    *operation* of Core's `GetOp` walk (`pre` holds exactly k-1 separator operations and `c` is the k-th; a 0xAB
    inside a push is inside a chunk and is never counted), and the library refuses exactly when the script has
    fewer than k separator operations; `k = 0` is the whole script, `k < 0` is refused. -/
theorem script_code_from_is_suffix_after_kth_separator (s : Bytes) (k : Int) :
    (k < 0 → scriptCodeFrom s k = none) ∧ (k = 0 → scriptCodeFrom s k = some s) ∧
    (1 ≤ k →
      (∀ r, scriptCodeFrom s k = some r →
        ∃ pre c post, (walk s).1 = pre ++ c :: post ∧ chunkIsSep c = true ∧
          pre.countP chunkIsSep + 1 = k.toNat ∧ r = post.flatten ++ (walk s).2 ∧ s = (pre.flatten ++ c) ++ r) ∧
      (scriptCodeFrom s k = none ↔ (walk s).1.countP chunkIsSep < k.toNat)) := by
  refine ⟨fun h => by simp [scriptCodeFrom, h], fun h => by simp [scriptCodeFrom, h], fun hk => ?_⟩
  exact ⟨fun r h => scriptCodeFrom_some hk h, scriptCodeFrom_none hk⟩

/-- the CompactSize writer of the specification is the translated `var_int.serialize`. -/
theorem compactSize_is_var_int_serialize (n : Nat) (hn : n < 18446744073709551616) :
    Gen.VarInt.serialize (n : Int) = .ok (compactSize n) :=
  compactSize_eq_gen n hn

/-! ## non-vacuity -/

-- a separator inside a push stays, the op code goes, the truncated push's bytes stay
example : withoutCodeSeparators [0x01, 0xAB, 0xAB, 0x51, 0x02, 0xAB] = [0x01, 0xAB, 0x51, 0x02, 0xAB] := by decide
example : (walk [0x01, 0xAB, 0xAB, 0x51, 0x02, 0xAB]) = ([[0x01, 0xAB], [0xAB], [0x51]], [0x02, 0xAB]) := by decide
-- the masks read off the source
example : baseType 0x83 = Gen.SigHash.SINGLE ∧ anyoneCanPay 0x83 = true ∧ isNone 0xFFFFFF02 = true := by decide
example : tapSingle 0x83 = true ∧ tapAcp 0x83 = true ∧ tapAcp 3 = false := by decide
-- a concrete well-formed transaction and its legacy preimage length
example : (legacyPreimage [0xAB, 0x51] exTx 0 1).length = 4 + 1 + (36 + 2 + 4) + 1 + (8 + 2) + 4 + 4 := by decide
-- the second separator of `ab 01ab ab 51`: the 0xAB inside the push is not counted
example : scriptCodeFrom [0xAB, 0x01, 0xAB, 0xAB, 0x51] 2 = some [0x51] ∧
    scriptCodeFrom [0xAB, 0x01, 0xAB, 0xAB, 0x51] 3 = none := by decide
-- a negative hash type and its word
example : Gen.SigHash.serialized_hash_type (-1) = .ok [255, 255, 255, 255] ∧ Impl.word (-1) = 4294967295 := by decide
-- the layer-tie hypotheses are met (identity in place of SHA256; all three answer a digest on `exTx`)
example : (Impl.legacy id [0xAB, 0x51] exTx 0 (-127)).toOption.isSome = true := by decide
example : (Impl.segwitV0 id [0x51] exTx 0 0x83 1000 none).toOption.isSome = true := by decide
example : (Impl.taproot id exTx 0 [⟨1000, [0x51]⟩] 0x83 1 [0x50] (tapExtBytes (some ⟨List.replicate 32 9, 0, 4294967295⟩))
    none).toOption.isSome = true := by decide
-- the hypothesis bundles of the three `*_commits` theorems are inhabited: a well-formed transaction, spent
-- output, extension, a 32-byte hash parameter -- and the theorems fire on them
example : (1 : Nat) = 1 ∧ exTx.version = exTx.version :=
  let r := legacy_commits [0xAB, 0x51] [0xAB, 0x51] exTx exTx 0 1 1 exTx_wf exTx_wf (by unfold Sized; decide)
    (by unfold Sized; decide) (by decide) (by decide) (by decide) (by decide) (by decide) rfl
  ⟨r.1, r.2.1⟩
example : (0x83 : Nat) = 0x83 ∧ (1000 : Int) = 1000 :=
  let r := bip143_commits exH exH_len [0x51] [0x51] exTx exTx 0 0x83 0x83 1000 1000 exTx_wf exTx_wf (by decide)
    (by decide) (by unfold Sized; decide) (by unfold Sized; decide) (by decide) (by decide) (by decide) (by decide) rfl
  ⟨r.1, r.2.2.2.2.2.2.1⟩
example : (0x83 : Nat) = 0x83 ∧ some exExt = some exExt :=
  let ws : ∀ o ∈ [(⟨1000, [0x51]⟩ : TxOut)], o.WF := by
    intro o ho
    simp only [List.mem_singleton] at ho
    subst ho
    exact ⟨by decide, by unfold Sized; decide⟩
  let r := bip341_commits exH exH_len exTx exTx 0 0 [⟨1000, [0x51]⟩] [⟨1000, [0x51]⟩] 0x83 0x83 (some [0x50])
    (some [0x50]) (some exExt) (some exExt) exTx_wf exTx_wf ws ws (by decide) (by decide) (by decide) (by decide)
    (by decide) (by decide) (fun e he => by cases he; exact exExt_wf) (fun e he => by cases he; exact exExt_wf) rfl
  ⟨r.1, r.2.2.2.1⟩
example : legacySingleBug exTx 0 3 = false ∧ legacySingleBug { exTx with vout := [] } 0 3 = true := by decide

end Props.C09
