/-!
# C09 — property theorems only (see DESIGN.md §3 C09).
-/
namespace Props.C09

end Props.C09
