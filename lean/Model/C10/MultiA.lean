import Model.C10.Spend
/-
C10 — BIP387 `multi_a(k, keys…)` leaves: `descriptors.py: MultiA._script` (the tapscript) and `MultiA._stack` (the
satisfaction: one element per key, in REVERSE key order on the wire, `k` signatures and empty vectors for the rest).
Core Lean only.
-/
namespace Btc.Spend

open Btc Btc.Script

/-- the threshold push: `OP_1 … OP_16` where an op code means it, the number itself above that -/
def multiAThreshold (k : Nat) : Bytes :=
  if k ≤ 16 then [UInt8.ofNat (Gen.Spend.MS_OP_BASE + k)] else pushData (Core.numBytes (k : Int))

/-- `MultiA._script`: `<x1> CHECKSIG <x2> CHECKSIGADD … <xn> CHECKSIGADD <k> NUMEQUAL` (x-only keys) -/
def multiAScript (k : Nat) : List Bytes → Bytes
  | [] => []
  | x :: xs => pushData x ++ (0xac :: (xs.flatMap (fun y => pushData y ++ [0xba]) ++ (multiAThreshold k ++ [0x9c])))

/-- the loop of `MultiA._stack`: per key in key order, the offered signature while fewer than `k` were taken, else `b""` -/
def multiAFill (k : Nat) : Nat → List (Option Bytes) → List Bytes
  | _, [] => []
  | signed, none :: r => [] :: multiAFill k signed r
  | signed, some s :: r => if signed = k then [] :: multiAFill k signed r else s :: multiAFill k (signed + 1) r

/-- `MultiA._stack(signatures)`: `none` where fewer than `k` keys have signed; else the elements in WIRE order (reverse
    key order: the first key's element is the top of the stack) -/
def multiAStack (k : Nat) (offered : List (Option Bytes)) : Option (List Bytes) :=
  if (offered.filter Option.isSome).length < k then none else some (multiAFill k 0 offered).reverse

end Btc.Spend
