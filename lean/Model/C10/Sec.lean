import Model.C10.Engine
/-
C10 — the key octets the library writes into the scripts and PSBT maps it builds: `bytes_from_point(Q, compressed=True)`
on secp256k1 (`btclib/ecc/sec_point.py`): `02 | 03` by the parity of `y`, then `x` on 32 big-endian bytes.  For a finite
point of the curve (the function refuses everything else; `Proofs/C10/Built.lean` proves this IS C01's model
`C01.bytesFromPoint` on every `q·G`, `0 < q < n`).
-/
namespace Btc.Spend
open Btc

def secpCompressedKey (Q : EC.Point) : Bytes :=
  (if Q.2 % 2 = 1 then (3 : UInt8) else 2) :: beBytes 32 Q.1.toNat

end Btc.Spend
