import Model.C10.Spend
import Model.C02.Der
import Model.C02.Rfc6979
import Model.C03.Schnorr
import Model.C12.Taproot
import Model.Common.Sha256
import Model.Common.Sha1
import Model.Common.Ripemd160
/-
C10 — the composition: Core's `GenericTransactionSignatureChecker` assembled from the models that exist.

  signature check (ECDSA)   = C09 digest (legacy / BIP143 by sigversion) → C02 lax DER → C02 `Ecdsa.verify`
  signature check (Schnorr) = C09 BIP341 digest (key path / tapscript extension) → C03 `Schnorr.verify`
  taproot commitment        = C12 merkle fold + tweak check
  script evaluation         = C08 `Core.verifyScript`

everything over `o : GroupOps α`, hash parameters and a public-key reader: executed by the driver with
`EC.ops secp256k1`, SHA-256 / RIPEMD-160; reasoned about in `Proofs/C10` under `Lawful o G`.
-/
namespace Btc.Spend

open Btc Btc.Script Btc.Sighash
open Btc.Script.Core (getB SigVersion ScriptError Checker VerifyEnv Hashes R)

/-- the hash functions and key readers the checker is built from -/
structure Crypto (α : Type) where
  o : GroupOps α
  /-- SHA-256 -/
  S : Bytes → Bytes
  ripemd160 : Bytes → Bytes
  sha1 : Bytes → Bytes
  /-- `CPubKey` → point: SEC octets (33 / 65 bytes; hybrid forms are the caller's policy) -/
  parsePub : Bytes → Option α
  /-- BIP340 parameters (sizes and the tagged hash) -/
  prm : Schnorr.Params

namespace Crypto
variable {α : Type} (C : Crypto α)
def hash256 (b : Bytes) : Bytes := C.S (C.S b)
def tagged (tag msg : Bytes) : Bytes := taggedWith C.S tag msg
end Crypto

/-- what the signature checker of input `nIn` knows -/
structure TxCtx where
  tx : Tx
  nIn : Nat
  /-- the outputs spent by every input, in input order -/
  spent : List TxOut
  /-- the annex of this input's witness, if any -/
  annex : Option Bytes := none
  /-- the tapleaf hash of this input's script-path spend (empty on every other path) -/
  leafHash : Bytes := []

def TxCtx.amount (cx : TxCtx) : Int := (cx.spent.getD cx.nIn blankOut).value

variable {α : Type} (C : Crypto α)

/-- the digest `CheckECDSASignature` recomputes: `SignatureHash(scriptCode, tx, nIn, nHashType, amount, sigversion)` -/
def engineEcdsaDigest (cx : TxCtx) (scriptCode : Bytes) (sv : SigVersion) (ht : Nat) : Bytes :=
  match sv with
  | .BASE => legacyDigest C.hash256 scriptCode cx.tx cx.nIn ht
  | _ => bip143Digest C.hash256 scriptCode cx.tx cx.nIn ht cx.amount

/-- `GenericTransactionSignatureChecker::CheckECDSASignature`: the key must parse, the last byte is the hash
    type, the rest is read with the lax DER parser, then `secp256k1_ecdsa_verify` after s-normalisation
    (`Ecdsa.verify` accepts both spellings of s) -/
def checkECDSA (cx : TxCtx) (sig pubkey scriptCode : Bytes) (sv : SigVersion) : R Bool :=
  match C.parsePub pubkey with
  | none => .ok false
  | some Q =>
    if sig.isEmpty then .ok false
    else
      let ht := (Btc.Script.lastByte sig).toNat
      match Der.parseLax sig.dropLast with
      | none => .ok false
      | some (r, s) =>
        let d := engineEcdsaDigest C cx scriptCode sv ht
        let s' : Int := if (s : Int) > C.o.n / 2 then C.o.n - s else s
        .ok (Ecdsa.verify C.o (Rfc6979.challenge C.o.n d) Q r s')

/-- the BIP341 / BIP342 message `CheckSchnorrSignature` recomputes -/
def engineTapDigest (cx : TxCtx) (sv : SigVersion) (ht codesepPos : Nat) : Bytes :=
  let ext : Option TapExt :=
    if sv == .TAPSCRIPT then some ⟨cx.leafHash, 0, codesepPos⟩ else none
  bip341Digest C.S cx.tx cx.nIn cx.spent ht cx.annex ext

/-- `GenericTransactionSignatureChecker::CheckSchnorrSignature` -/
def checkSchnorr (cx : TxCtx) (sig pubkey : Bytes) (sv : SigVersion) (codesepPos : Nat) : Option ScriptError :=
  if sig.length ≠ 64 ∧ sig.length ≠ 65 then some .SCHNORR_SIG_SIZE
  else
    let ht := if sig.length = 65 then getB sig 64 else 0
    if sig.length = 65 ∧ ht = 0 then some .SCHNORR_SIG_HASHTYPE
    else if !bip341Defined cx.tx cx.nIn cx.spent ht then some .SCHNORR_SIG_HASHTYPE
    else
      let msg := engineTapDigest C cx sv ht codesepPos
      let sg : Schnorr.Sig := ⟨(ofBE (sig.take 32) : Nat), (ofBE ((sig.drop 32).take 32) : Nat)⟩
      if Schnorr.verify C.o C.prm msg (ofBE pubkey : Nat) sg then none else some .SCHNORR_SIG

/-- `VerifyTaprootCommitment(control, program, tapleaf_hash)`: C12's fold and tweak test, started from the
    leaf hash the engine computed -/
def commitment (control program leafHash : Bytes) : R Bool :=
  let m := (control.length - 33) / 32
  let k := Taproot.foldPath C.prm.TH leafHash (control.drop 33) m
  let xb := (control.drop 1).take 32
  match Taproot.tapTweak C.o C.prm.TH xb k with
  | .error _ => .ok false
  | .ok t =>
    match C.o.liftX (ofBE xb : Nat) with
    | none => .ok false
    | some P =>
      let Q := C.o.add P (C.o.mul t C.o.gen)
      .ok (!C.o.isZero Q && C.o.x Q == (ofBE program : Nat) && getB control 0 % 2 == (C.o.y Q % 2).toNat)

def checkerOf (cx : TxCtx) : Checker where
  checkECDSA := checkECDSA C cx
  checkSchnorr := checkSchnorr C cx

/-- the tapleaf hash and annex `VerifyWitnessProgram` derives from a v1 witness (wire order, bottom first) -/
def tapData (witnessWire : List Bytes) : Option Bytes × Bytes :=
  let w := witnessWire.reverse
  let (annex, stack) : Option Bytes × List Bytes :=
    match w with
    | top :: rest => if w.length ≥ 2 ∧ getB top 0 = 0x50 ∧ !top.isEmpty then (some top, rest) else (none, w)
    | [] => (none, w)
  match stack with
  | control :: script :: _ =>
    (annex, C.prm.TH "TapLeaf".toUTF8.toList
      (UInt8.ofNat (getB control 0 / 2 * 2) :: (Core.compactSize script.length ++ script)))
  | _ => (annex, [])

def envOf (flags : Nat) (cx : TxCtx) : VerifyEnv :=
  let inp := cx.tx.vin.getD cx.nIn dfltIn
  { flags := flags
    hashes := ⟨C.S, C.ripemd160, C.sha1⟩
    checker := checkerOf C cx
    taggedHash := C.prm.TH
    commitment := commitment C
    txLockTime := cx.tx.lockTime.toNat
    txSequence := inp.sequence.toNat
    txVersion := cx.tx.version.toNat }

/-- `verify_input(prevouts, tx, i, flags)` as Bitcoin Core decides it: `VerifyScript` of input `i`'s
    scriptSig / witness against the output it spends, with the transaction's own signature checker -/
def verifyInput (flags : Nat) (tx : Tx) (spent : List TxOut) (i : Nat) (witnessWire : List Bytes) : R Unit :=
  let inp := tx.vin.getD i dfltIn
  let spk := (spent.getD i blankOut).spk
  let (annex, lh) := tapData C witnessWire
  let cx : TxCtx := { tx := tx, nIn := i, spent := spent, annex := annex, leafHash := lh }
  Core.verifyScript (envOf C flags cx) inp.scriptSig spk witnessWire

/-! ## the instance the driver runs: secp256k1, SHA-256 / RIPEMD-160 / SHA-1, BIP340's tagged hash -/

def secp : GroupOps EC.Point := EC.ops EC.secp256k1

/-- `pub_keyinfo_from_key` / `point_from_octets(key)`: the 33 / 65-byte SEC forms 02 03 04 (C12's `point_from_octets`;
    hybrid forms refused) -- what classifies a script as p2ms -/
def secpParsePubStrict (k : Bytes) : Option EC.Point :=
  match Taproot.pointFromOctets secp k with
  | .ok P => some P
  | .error _ => none

/-- `CPubKey` → point on secp256k1 as the SIGNATURE CHECKER reads it (`engine/script.py: point_from_octets(pub_key,
    hybrid=True)`, Core's `secp256k1_ec_pubkey_parse`): the strict forms, and the hybrid 65-byte forms 06 / 07, which carry
    both coordinates like 04 and must repeat the parity of y in the prefix (06 even, 07 odd).  Refusing them is
    STRICTENC's business (`checkPubKeyEncoding`), not the parser's. -/
def secpParsePub (k : Bytes) : Option EC.Point :=
  match k with
  | pre :: rest =>
    if pre = 6 ∨ pre = 7 then
      match secpParsePubStrict (4 :: rest) with
      | some P => if (secp.y P % 2).toNat = pre.toNat - 6 then some P else none
      | none => none
    else secpParsePubStrict k
  | [] => none

def bip340Params : Schnorr.Params :=
  { pSize := 32, nSize := 32, nlen := 256, hfLen := 32, TH := taggedHash }

def secpCrypto : Crypto EC.Point :=
  { o := secp, S := sha256, ripemd160 := ripemd160, sha1 := sha1, parsePub := secpParsePub, prm := bip340Params }

end Btc.Spend
