import Model.C08.Verify
import Model.C09.Sighash
import Generated.Spend
/-
C10 — what the library builds and signs (DESIGN §3 C10).  Core Lean only.

Per standard template: the scriptPubKey (`script_pub_key.py` constructors; bytes regenerated into
`Gen.Spend`), the SIGNER's digest choice (`psbt.py: _sig_hash_from_psbt_in, _witness_v0_script_code,
_taproot_sig_hash`) expressed with the C09 specification digests, and the FINALIZER's scriptSig /
witness layout (`psbt.py: _prev_out/_spent_script, _single_key, _satisfied_script, _bip147_dummy,
_pushed_sigs, _finalized_input, single_leaf_key, _assert_taproot_sig_hash_type,
_finalized_taproot_input`), mirrored function by function.

`validKey` stands for `pub_keyinfo_from_key` accepting the octets (a point of secp256k1 in SEC form):
it only decides whether bytes classify as p2ms.
-/
namespace Btc.Spend

open Btc Btc.Script Btc.Sighash
open Btc.Script.Core (getB SigVersion)

/-! ## script templates -/

def p2pk (key : Bytes) : Bytes := pushData key ++ Gen.Spend.P2PK_SUFFIX
def p2pkh (h : Bytes) : Bytes := Gen.Spend.P2PKH_PREFIX ++ (h ++ Gen.Spend.P2PKH_SUFFIX)
def p2sh (h : Bytes) : Bytes := Gen.Spend.P2SH_PREFIX ++ (h ++ Gen.Spend.P2SH_SUFFIX)
def p2wpkh (h : Bytes) : Bytes := Gen.Spend.P2WPKH_PREFIX ++ h
def p2wsh (h : Bytes) : Bytes := Gen.Spend.P2WSH_PREFIX ++ h
def p2tr (x : Bytes) : Bytes := Gen.Spend.P2TR_PREFIX ++ x
/-- `m <key>… n OP_CHECKMULTISIG` -/
def multisig (m : Nat) (keys : List Bytes) : Bytes :=
  UInt8.ofNat (Gen.Spend.MS_OP_BASE + m) :: (keys.flatMap pushData ++
    [UInt8.ofNat (Gen.Spend.MS_OP_BASE + keys.length), UInt8.ofNat Gen.Spend.MS_LAST])
/-- `<32-byte key> OP_CHECKSIG`, the one leaf `_finalized_taproot_input` closes over -/
def pkLeaf (x : Bytes) : Bytes := UInt8.ofNat Gen.Spend.PUSH_32 :: (x ++ [UInt8.ofNat Gen.Spend.OP_CHECKSIG])

/-! ## classification (`is_p2pkh`, `is_p2sh`, `is_p2wpkh`, `is_p2wsh`, `is_p2tr`, `p2ms_m_and_keys`) -/

def isP2pkh (s : Bytes) : Bool :=
  s.length == 25 && s.drop 23 == Gen.Spend.P2PKH_SUFFIX && s.take 2 == Gen.Spend.P2PKH_PREFIX.take 2 &&
    getB s 2 == 0x14
def isP2sh (s : Bytes) : Bool :=
  s.length == 23 && getB s 22 == 0x87 && getB s 0 == 0xa9 && getB s 1 == 0x14
def isP2wpkh (s : Bytes) : Bool := s.length == 22 && getB s 0 == 0 && getB s 1 == 0x14
def isP2wsh (s : Bytes) : Bool := s.length == 34 && getB s 0 == 0 && getB s 1 == 0x20
def isP2tr (s : Bytes) : Bool := s.length == 34 && getB s 0 == 0x51 && getB s 1 == 0x20

/-- `[var_bytes.parse(stream) for _ in range(n)]` on the keys region: one-byte lengths only (a longer
    "key" is refused by `pub_keyinfo_from_key` anyway); `(keys, unread)` -/
def readKeys : Nat → Bytes → Option (List Bytes × Bytes)
  | 0, s => some ([], s)
  | _ + 1, [] => none
  | n + 1, l :: rest =>
    if l.toNat ≥ 253 then none
    else if rest.length < l.toNat then none
    else (readKeys n (rest.drop l.toNat)).map fun (ks, r) => (rest.take l.toNat :: ks, r)

/-- `p2ms_m_and_keys(script)`; `none` is its BTClibValueError -/
def p2msMAndKeys (validKey : Bytes → Bool) (s : Bytes) : Option (Nat × List Bytes) :=
  if s.length < 37 then none
  else if getB s (s.length - 1) ≠ Gen.Spend.MS_LAST then none
  else
    let m : Int := (getB s 0 : Int) - Gen.Spend.MS_OP_BASE
    if ¬ (0 < m ∧ m < 17) then none
    else
      let n : Int := (getB s (s.length - 2) : Int) - Gen.Spend.MS_OP_BASE
      if ¬ (m ≤ n ∧ n < 17) then none
      else
        match readKeys n.toNat ((s.drop 1).take (s.length - 3)) with
        | none => none
        | some (keys, rest) =>
          if !rest.isEmpty then none
          else if keys.all validKey then some (m.toNat, keys) else none

def isP2ms (validKey : Bytes → Bool) (s : Bytes) : Bool := (p2msMAndKeys validKey s).isSome

/-! ## the Finalizer (ECDSA kinds) -/

inductive Err | value
  deriving DecidableEq, Repr

/-- the fields of a `PsbtIn` the finalizer reads -/
structure PsbtIn where
  /-- `_prev_out(psbt_in).script_pub_key.script`, `none` when the input carries no utxo -/
  prevSpk : Option Bytes
  redeemScript : Bytes := []
  witnessScript : Bytes := []
  /-- `partial_sigs` in insertion order: public key → signature (with its hash-type byte) -/
  partialSigs : List (Bytes × Bytes) := []
  deriving Repr

/-- `_spent_script` -/
def spentScript (pin : PsbtIn) : Bytes :=
  match pin.prevSpk with
  | none => []
  | some s => if isP2sh s then pin.redeemScript else s

/-- `_satisfied_script` -/
def satisfiedScript (pin : PsbtIn) : Bytes :=
  if pin.witnessScript.isEmpty then spentScript pin else pin.witnessScript

/-- `_single_key` (an empty `partial_sigs` never reaches it: `finalize` refuses first) -/
def singleKey (pin : PsbtIn) : Except Err Bytes :=
  if pin.partialSigs.length > 1 then .error .value
  else match pin.partialSigs with
    | (k, _) :: _ => .ok k
    | [] => .error .value

/-- `_bip147_dummy` -/
def bip147Dummy (validKey : Bytes → Bool) (pin : PsbtIn) : List Bytes :=
  let script := satisfiedScript pin
  if !script.isEmpty then (if isP2ms validKey script then [[]] else [])
  else if pin.partialSigs.length > 1 then [[]] else []

/-- `_pushed_sigs` -/
def pushedSigs (validKey : Bytes → Bool) (pin : PsbtIn) : Except Err (List Bytes) :=
  match p2msMAndKeys validKey (satisfiedScript pin) with
  | none => .ok (pin.partialSigs.map (·.2))
  | some (m, keys) =>
    let sigs := keys.filterMap fun k => pin.partialSigs.lookup k
    if sigs.length < m then .error .value else .ok (sigs.take m)

/-- `script.serialize` of a list of byte-string commands: each one a minimal-operator push -/
def serializePushes (cmds : List Bytes) : Bytes := cmds.flatMap pushData

/-- `_finalized_input`: (final script_sig, final witness stack, bottom first) -/
def finalizedInput (validKey : Bytes → Bool) (pin : PsbtIn) : Except Err (Bytes × List Bytes) := do
  let sigs ← pushedSigs validKey pin
  let cmds := bip147Dummy validKey pin ++ sigs
  let redeem : List Bytes := if pin.redeemScript.isEmpty then [] else [pin.redeemScript]
  let script := spentScript pin
  if !pin.witnessScript.isEmpty then do
    -- a pkh() wrapped in a wsh() is given its key as a p2pkh is
    let keys ← if isP2pkh pin.witnessScript then (singleKey pin).map fun k => [k] else pure []
    pure (serializePushes redeem, cmds ++ (keys ++ [pin.witnessScript]))
  else if isP2wpkh script then do
    let k ← singleKey pin
    pure (serializePushes redeem, sigs ++ [k])
  else if isP2pkh script then do
    let k ← singleKey pin
    -- the redeem script last, `script` being it for a pkh() in a sh()
    pure (serializePushes (sigs ++ (k :: redeem)), [])
  else pure (serializePushes (cmds ++ redeem), [])

/-! ## the Finalizer (taproot) -/

/-- the fields of a taproot `PsbtIn` the finalizer reads -/
structure TapIn where
  /-- `psbt_in.sig_hash_type` -/
  sigHashType : Option Nat := none
  /-- `taproot_key_spend_signature` (empty = absent) -/
  keySig : Bytes := []
  /-- `taproot_script_spend_signatures` in insertion order: x-only key ‖ tapleaf hash → signature -/
  scriptSigs : List (Bytes × Bytes) := []
  /-- `taproot_leaf_scripts` in insertion order: control block → (script, leaf version) -/
  leafScripts : List (Bytes × Bytes × Nat) := []
  deriving Repr

/-- `_assert_taproot_sig_hash_type` -/
def tapSigHashType (sig : Bytes) (sht : Option Nat) : Except Err Nat :=
  let ht := if sig.length == 65 then getB sig 64 else Gen.Spend.SIGHASH_DEFAULT
  -- `psbt_in.sig_hash_type or DEFAULT`
  if sht.getD Gen.Spend.SIGHASH_DEFAULT ≠ ht then .error .value else .ok ht

/-- `single_leaf_key` -/
def singleLeafKey (script : Bytes) : Except Err Bytes :=
  if script.length ≠ Gen.Spend.SINGLE_KEY_LEAF_SIZE ∨ getB script 0 ≠ Gen.Spend.PUSH_32 ∨
      getB script (script.length - 1) ≠ Gen.Spend.OP_CHECKSIG then .error .value
  else .ok ((script.drop 1).take (script.length - 2))

/-- `leaf_script(psbt_in, leaf_hash)`: first entry whose computed tapleaf hash is the one asked for -/
def leafScript (leafHash : Nat → Bytes → Bytes) (tin : TapIn) (lh : Bytes) : Except Err (Bytes × Bytes) :=
  match tin.leafScripts.find? (fun e => leafHash e.2.2 e.2.1 == lh) with
  | some (cb, script, _) => .ok (script, cb)
  | none => .error .value

/-- `_finalized_taproot_input`.  `verifyKey ht sig64` / `verifyLeaf ht leafHash key sig64` stand for the two
    `ssa.verify_` calls over `taproot_sig_hash` (C03 / C09's business). -/
def finalizedTaproot (leafHash : Nat → Bytes → Bytes) (verifyKey : Nat → Bytes → Bool)
    (verifyLeaf : Nat → Bytes → Bytes → Bytes → Bool) (tin : TapIn) : Except Err (Bytes × List Bytes) :=
  if !tin.keySig.isEmpty then do
    let ht ← tapSigHashType tin.keySig tin.sigHashType
    if !verifyKey ht (tin.keySig.take 64) then throw .value
    pure ([], [tin.keySig])
  else match tin.scriptSigs with
    | [] => .error .value
    | _ :: _ :: _ => .error .value
    | [(keyData, sig)] => do
      let pubKey := keyData.take Gen.Spend.LEAF_HASH_SIZE
      let lh := keyData.drop Gen.Spend.LEAF_HASH_SIZE
      let ht ← tapSigHashType sig tin.sigHashType
      -- `bytes_from_octets(leaf_hash, LEAF_HASH_SIZE)`
      if lh.length ≠ Gen.Spend.LEAF_HASH_SIZE then throw .value
      let (script, cb) ← leafScript leafHash tin lh
      let k ← singleLeafKey script
      if k ≠ pubKey then throw .value
      if !verifyLeaf ht lh pubKey (sig.take 64) then throw .value
      pure ([], [sig, script, cb])

/-! ## the Signer's digest choice -/

/-- `_sig_hash_from_psbt_in` + `_witness_v0_script_code`: which algorithm and which script code;
    `none` = "the input does not say" (or taproot) -/
def ecdsaScriptCode (pin : PsbtIn) : Option (SigVersion × Bytes) :=
  match pin.prevSpk with
  | none => none
  | some spk =>
    let script := if isP2sh spk then pin.redeemScript else spk
    if isP2wpkh script then some (.WITNESS_V0, p2pkh (script.drop 2))
    else if isP2wsh script then
      (if pin.witnessScript.isEmpty then none else some (.WITNESS_V0, pin.witnessScript))
    else if script.isEmpty || isP2tr script then none
    else some (.BASE, script)

/-- the message an ECDSA signer signs for input `i` (hash256 = `H`) -/
def ecdsaDigest (H : Bytes → Bytes) (pin : PsbtIn) (amount : Int) (tx : Tx) (i ht : Nat) : Option Bytes :=
  match ecdsaScriptCode pin with
  | some (.BASE, sc) => some (legacyDigest H sc tx i ht)
  | some (.WITNESS_V0, sc) => some (bip143Digest H sc tx i ht amount)
  | _ => none

/-- `_taproot_sig_hash`'s extension: tapleaf hash ‖ key version 0 ‖ `_NO_CODESEP` -/
def tapExt (leafHash : Bytes) : Option TapExt :=
  if leafHash.isEmpty then none else some ⟨leafHash, 0, Gen.Spend.NO_CODESEP⟩

/-- the message a taproot signer signs (no annex: no psbt field carries one) -/
def taprootDigest (S : Bytes → Bytes) (tx : Tx) (i : Nat) (spent : List TxOut) (ht : Nat) (leafHash : Bytes) : Bytes :=
  bip341Digest S tx i spent ht none (tapExt leafHash)

end Btc.Spend
