import Model.C10.Engine
/-
C10 — BIP322 (simple variant): `bip322.py: message_hash, to_spend, to_sign` and the verification of a witness / scriptSig
against the address's script, mirrored over the C09 transaction model and the composed engine of `Model/C10/Engine.lean`.
Core Lean only.
-/
namespace Btc.Spend.Bip322

open Btc Btc.Sighash Btc.Script.Core

/-- `bip322.TAG` -/
def TAG : Bytes := "BIP0322-signed-message".toUTF8.toList

/-- `message_hash(msg)`: BIP340-tagged hash under BIP322's tag -/
def messageHash (TH : Bytes → Bytes → Bytes) (msg : Bytes) : Bytes := TH TAG msg

/-- `to_spend(msg, script_pub_key)`: version 0, lock time 0, one input spending the null outpoint with scriptSig
    `OP_0 PUSH32 message_hash`, sequence 0, one output of value 0 to the challenge script -/
def toSpend (TH : Bytes → Bytes → Bytes) (msg spk : Bytes) : Tx :=
  ⟨0, [⟨⟨List.replicate 32 0, 0xFFFFFFFF⟩, 0x00 :: 0x20 :: messageHash TH msg, 0⟩], [⟨0, spk⟩], 0⟩

/-- the txid in WIRE order (C09's `OutPoint.txid` holds wire bytes): hash256 of the stripped serialization -/
def txidWire (H256 : Bytes → Bytes) (t : Tx) : Bytes := H256 (serTx t)

/-- `to_sign(to_spend_tx, script_sig, witness)` with the simple variant's version / lock time / sequence 0: one input
    spending output 0 of `to_spend`, one output `0, OP_RETURN` -/
def toSign (H256 : Bytes → Bytes) (spend : Tx) (scriptSig : Bytes) : Tx :=
  ⟨0, [⟨⟨txidWire H256 spend, 0⟩, scriptSig, 0⟩], [⟨0, [0x6a]⟩], 0⟩

variable {α : Type} (C : Crypto α)

/-- the engine run of `assert_as_valid` for a simple signature: `to_sign` built on the `to_spend` of THIS message and THIS
    script, input 0 verified against `to_spend`'s output -/
def verifySimple (flags : Nat) (msg spk scriptSig : Bytes) (witness : List Bytes) : R Unit :=
  let spend := toSpend C.prm.TH msg spk
  verifyInput C flags (toSign C.hash256 spend scriptSig) spend.vout 0 witness

/-- what the signer of a simple signature signs over: the context of input 0 of `to_sign` -/
def signCtx (msg spk : Bytes) : TxCtx :=
  let spend := toSpend C.prm.TH msg spk
  { tx := toSign C.hash256 spend [], nIn := 0, spent := spend.vout }

end Btc.Spend.Bip322
