import Model.Common.Py
import Generated.Taproot
/-
C12 — the tapscript codec on the way IN: `taproot.serialize(script)` (command list → leaf script octets) and what it
calls, mirrored function by function: `script._serialize_int_command` (→ the translated `utils.encode_num`),
`op_codes_tapscript._serialize_str_command`, `script._serialize_bytes_command` / `_pushdata`.  Core Lean only.

Every number and table is `Gen.Taproot.*`, regenerated from the source each run (push thresholds, OP_PUSHDATA bytes,
the name → byte table `OP_CODES`, the `OP_SUCCESS` list, the script-number range); the plugin also pins the shape of the
five functions line by line.  The refusals are `Py.PyErr.value` (BTClibValueError) / `Py.PyErr.type` (BTClibTypeError).

A `str` command is given by its ASCII octets: `strip()`, `upper()`, `int()` and `bytes.fromhex()` are modelled on ASCII
only (a str with a non-ASCII character, where Python follows the Unicode tables, is outside the model).
-/
namespace Btc.Taproot
open Btc Gen.Taproot

/-- what a script command can be, as far as `taproot.serialize` tells commands apart -/
inductive Cmd where
  | int (v : Int)      -- an `int` that is no `bool`
  | str (s : Bytes)    -- a `str`, by its ASCII octets
  | bytes (b : Bytes)  -- `bytes` / `bytearray` / `memoryview`
  | other              -- None, a float, a bool, a dict …: neither int, str nor bytes-like and no list / tuple
                       -- (a bool IS an int for `isinstance`, and `encode_num` refuses it as a non-integer: TypeError too)
  deriving Repr, DecidableEq

/-- `_serialize_bytes_command` (+ `_pushdata`): the minimal push OPERATOR for the length, never an op code for the value -/
def pushBytes (b : Bytes) : Except Py.PyErr Bytes :=
  let n := b.length
  if n < PUSH_DIRECT then .ok (leBytes 1 n ++ b)
  else if n < PUSH_1 then .ok (OP_PUSHDATA1 :: leBytes 1 n ++ b)
  else if n < PUSH_2 then .ok (OP_PUSHDATA2 :: leBytes 2 n ++ b)
  else if n < PUSH_4 then .ok (OP_PUSHDATA4 :: leBytes 4 n ++ b)
  else .error .value

/-- `_serialize_int_command`: the CScriptNum encoding of the number, pushed as data (for -1, 1..16 the library only
    WARNS that an op code is shorter); a number outside int64 is refused by `encode_num` -/
def intCmd (v : Int) : Except Py.PyErr Bytes :=
  match encode_num v with
  | .ok e => pushBytes e
  | .error e => .error e

/-- `str.isspace` on ASCII: TAB..CR, FS..US, space (what `str.strip()` strips) -/
def isSpaceStr (c : UInt8) : Bool := (9 ≤ c && c ≤ 13) || (28 ≤ c && c ≤ 32)
/-- `Py_ISSPACE`: TAB..CR and space (what `bytes.fromhex` skips between two-digit groups and `int()` strips around the
    literal: FS..US are NOT stripped by `int()`, observed on CPython 3.12 and streamed) -/
def isSpaceHex (c : UInt8) : Bool := (9 ≤ c && c ≤ 13) || c == 32
def upperByte (c : UInt8) : UInt8 := if 97 ≤ c && c ≤ 122 then c - 32 else c

/-- `s.strip()` -/
def stripStr (s : Bytes) : Bytes := ((s.dropWhile isSpaceStr).reverse.dropWhile isSpaceStr).reverse

def hexDigit? (c : UInt8) : Option Nat :=
  if 48 ≤ c && c ≤ 57 then some (c.toNat - 48)
  else if 65 ≤ c && c ≤ 70 then some (c.toNat - 55)
  else if 97 ≤ c && c ≤ 102 then some (c.toNat - 87)
  else none

/-- `bytes.fromhex(s)`: two-digit groups, ASCII whitespace skipped BETWEEN groups only (`hi` = a pending high digit) -/
def fromHexGo : Option Nat → Bytes → Option Bytes
  | none, [] => some []
  | some _, [] => none
  | none, c :: rest =>
    if isSpaceHex c then fromHexGo none rest else
    match hexDigit? c with
    | some a => fromHexGo (some a) rest
    | none => none
  | some a, c :: rest =>
    match hexDigit? c with
    | some b => (fromHexGo none rest).map (UInt8.ofNat (a * 16 + b) :: ·)
    | none => none

def fromHexPy (s : Bytes) : Option Bytes := fromHexGo none s

/-- the digits of a decimal literal: single underscores BETWEEN digits allowed; (value, number of digits) -/
def digitsGo : Bool → Nat → Nat → Bytes → Option (Nat × Nat)
  | pd, acc, k, [] => if pd then some (acc, k) else none
  | pd, acc, k, c :: rest =>
    if 48 ≤ c && c ≤ 57 then digitsGo true (acc * 10 + (c.toNat - 48)) (k + 1) rest
    else if c == 95 && pd then digitsGo false acc k rest
    else none

/-- the interpreter's bound on the digits `int(str)` reads (`sys.get_int_max_str_digits()`, CPython's default; the
    harness reads the running interpreter's value and refuses to run under another) -/
def PY_INT_MAX_STR_DIGITS : Nat := 4300

/-- `int(s)` on ASCII: surrounding whitespace (TAB..CR, space), one optional sign, decimal digits with single underscores between them;
    more than 4300 digits is a ValueError as well -/
def pyInt (s : Bytes) : Option Int :=
  let t := ((s.dropWhile isSpaceHex).reverse.dropWhile isSpaceHex).reverse
  let (neg, body) := match t with
    | 43 :: r => (false, r)
    | 45 :: r => (true, r)
    | r => (false, r)
  match digitsGo false 0 0 body with
  | none => none
  | some (v, k) => if k > PY_INT_MAX_STR_DIGITS then none else some (if neg then -(v : Int) else v)

def isPrefix : Bytes → Bytes → Bool
  | [], _ => true
  | _ :: _, [] => false
  | a :: as, b :: bs => a == b && isPrefix as bs

/-- `p in s` for strs -/
def hasSub (p : Bytes) : Bytes → Bool
  | [] => p.isEmpty
  | c :: rest => isPrefix p (c :: rest) || hasSub p rest

def lookupOp (s : Bytes) : List (Bytes × UInt8) → Option UInt8
  | [] => none
  | (k, b) :: rest => if k == s then some b else lookupOp s rest

/-- `op_codes_tapscript._serialize_str_command`: strip, upper-case; an op-code name is its byte; `OP_SUCCESS<int>` is that
    byte when the number is one of the OP_SUCCESSx; anything else must be hex and is pushed as data -/
def strCmd (raw : Bytes) : Except Py.PyErr Bytes :=
  let c := (stripStr raw).map upperByte
  match lookupOp c TAP_OP_CODES with
  | some b => .ok [b]
  | none =>
    if isPrefix OP_SUCCESS_PREFIX c then
      match pyInt (c.drop OP_SUCCESS_PREFIX.length) with
      | none => .error .value
      | some x => if OP_SUCCESS.contains x then .ok [UInt8.ofNat x.toNat] else .error .value
    else
      match fromHexPy c with
      | none => .error .value
      | some d => pushBytes d

/-- `taproot.serialize` below its `assert_type(script, list)`: the commands left to right, the first refusal wins; a str
    command that serialised AND contains `OP_SUCCESS` as written (the test is on the raw str: case-sensitive) must be
    followed by exactly one bytes-like command, appended RAW, and ends the script -/
def serializeTap : List Cmd → Except Py.PyErr Bytes
  | [] => .ok []
  | .int v :: rest =>
    match intCmd v with
    | .error e => .error e
    | .ok b => (serializeTap rest).map (b ++ ·)
  | .str s :: rest =>
    match strCmd s with
    | .error e => .error e
    | .ok b =>
      if hasSub OP_SUCCESS_PREFIX s then
        match rest with
        | [.bytes t] => .ok (b ++ t)
        | _ => .error .value
      else (serializeTap rest).map (b ++ ·)
  | .bytes d :: rest =>
    match pushBytes d with
    | .error e => .error e
    | .ok b => (serializeTap rest).map (b ++ ·)
  | .other :: _ => .error .type

end Btc.Taproot
