import Model.Common.GroupOps
import Model.Common.Py
import Generated.VarInt
import Generated.Taproot
import Model.C12.Script
/-
C12 — taproot output keys, script trees and control blocks (`btclib/script/taproot.py`), mirrored
function by function.  Core Lean only.

* the tagged hash is a PARAMETER `H : tag → message → digest` (executed with `Btc.taggedHash`);
* the group is a PARAMETER `o : GroupOps α` (executed with `Btc.EC.ops secp256k1`, reasoned about
  under `Btc.Lawful o G`);
* every constant (tags, 33/32 layout, masks, depth cap, NUMS point) is `Gen.Taproot.*`, regenerated
  from the source on every run; CompactSize is the translated `Gen.VarInt.serialize`.

A leaf script is its *serialized* bytes in `Tree` (what `leaf_hash` and `check_output_pubkey` take); the command-list →
bytes step (`taproot.serialize`, every command kind it accepts) is `serializeTap` of Model/C12/Script.lean, reached from
`PyVal.script`.
-/
namespace Btc.Taproot
open Btc Gen.Taproot

/-- every refusal below is a `BTClibValueError`; the kind says which guard answered -/
inductive Err
  | toolong   -- "control block too long"
  | badlen    -- "invalid control block length"
  | tweak     -- "Invalid script tree hash"  (t ≥ n)
  | key       -- internal key / x-coordinate that is no point, bad SEC octets
  | missing   -- "missing data"
  | index     -- "invalid leaf index"
  | prv       -- private key out of 1..n-1
  | version   -- "invalid leaf version"  (leaf_hash: outside 0..255)
  | node      -- "invalid script tree node: … instead of a leaf or two subtrees"  (tree_helper)
  | leaf      -- "invalid script tree leaf: not a (leaf version, script) pair"    (_tree_helper)
  | vtype     -- BTClibTypeError "invalid leaf version type"  (_tree_helper / leaf_hash: not an int, or a bool)
  | stype     -- BTClibTypeError "invalid tapscript type"     (taproot.serialize: the script is not a list)
  | deep      -- "a script tree supports at most 128 nesting levels"  (_subtree_helper: depth > MAX_TREE_DEPTH)
  | cmd       -- BTClibValueError of `taproot.serialize`: a str that is no op code / OP_SUCCESSx / hex, an OP_SUCCESSx not followed
              -- by exactly one bytes command, a number outside int64, a push of 2^32 octets or more
  | ctype     -- BTClibTypeError of `taproot.serialize`: a command that is neither int, str nor bytes-like (or a bool)
  | codec     -- a list in script position given as a TREE shape (`one` / `two` / `many` with isList) instead of as
              -- `PyVal.script` / `PyVal.cmds`: not judged under that spelling (the harness spells every such list as `script`)
  deriving DecidableEq, Repr

def Err.name : Err → String
  | .toolong => "toolong" | .badlen => "badlen" | .tweak => "tweak" | .key => "key"
  | .missing => "missing" | .index => "index" | .prv => "prv" | .version => "version"
  | .node => "node" | .leaf => "leaf" | .vtype => "vtype" | .stype => "stype" | .codec => "codec"
  | .deep => "deep" | .cmd => "cmd" | .ctype => "ctype"

/-- a script tree: `[(version, script)]` is a leaf, `[left, right]` a branch -/
inductive Tree where
  | leaf (version : Nat) (script : Bytes)
  | node (l r : Tree)
  deriving Repr

/-- tag → message → digest -/
abbrev TagHash := Bytes → Bytes → Bytes

/-- Python's `<` on `bytes`: lexicographic on unsigned octets, a proper prefix is smaller -/
def ltBytes : Bytes → Bytes → Bool
  | [], [] => false
  | [], _ :: _ => true
  | _ :: _, [] => false
  | a :: as, b :: bs => if a < b then true else if b < a then false else ltBytes as bs

/-- `var_bytes.serialize`: CompactSize(len) ‖ octets (the translated serializer; it answers for
    every length below 2^64) -/
def varBytes (s : Bytes) : Bytes :=
  match Gen.VarInt.serialize (s.length : Int) with
  | .ok pre => pre ++ s
  | .error _ => s

/-- the hash `leaf_hash` computes for a version byte `v < 256` (every internal caller masks with 0xFE first) -/
def leafHash (H : TagHash) (v : Nat) (script : Bytes) : Bytes :=
  H TAG_LEAF (UInt8.ofNat v :: varBytes script)

/-- the PUBLIC `leaf_hash(leaf_version, script)`: an integer version outside `0..255` is refused
    (`BTClibValueError("invalid leaf version")`), never wrapped -/
def leafHashPub (H : TagHash) (v : Int) (script : Bytes) : Except Err Bytes :=
  if ¬ (0 ≤ v ∧ v ≤ LEAF_VERSION_MAX) then .error .version else .ok (leafHash H v.toNat script)

/-- the branch hash of `tree_helper`: children sorted, `right < left` swaps -/
def branchHash (H : TagHash) (lh rh : Bytes) : Bytes :=
  if ltBytes rh lh then H TAG_BRANCH (rh ++ lh) else H TAG_BRANCH (lh ++ rh)

/-- one step of the fold in `check_output_pubkey`: `k < e` decides the order -/
def foldStep (H : TagHash) (k e : Bytes) : Bytes :=
  if ltBytes k e then H TAG_BRANCH (k ++ e) else H TAG_BRANCH (e ++ k)

abbrev LeafInfo := (Nat × Bytes) × Bytes

/-- `tree_helper` / `_tree_helper`: ([((masked version, script), merkle path)] in tree order, root) -/
def treeHelper (H : TagHash) : Tree → List LeafInfo × Bytes
  | .leaf v s =>
    let v' := v &&& LEAF_MASK
    ([((v', s), [])], leafHash H v' s)
  | .node l r =>
    let (li, lh) := treeHelper H l
    let (ri, rh) := treeHelper H r
    (li.map (fun (lf, c) => (lf, c ++ rh)) ++ ri.map (fun (lf, c) => (lf, c ++ lh)), branchHash H lh rh)

def leaves (H : TagHash) (t : Tree) : List LeafInfo := (treeHelper H t).1
def root (H : TagHash) (t : Tree) : Bytes := (treeHelper H t).2

def Tree.depth : Tree → Nat
  | .leaf _ _ => 0
  | .node l r => max l.depth r.depth + 1

def Tree.scripts : Tree → List Bytes
  | .leaf _ s => [s]
  | .node l r => l.scripts ++ r.scripts

/-! ### the tree, position by position (what `script_num` indexes, and the path `tree_helper` accumulates) -/

/-- the leaves `(masked version, script)` in tree order — what `script_num` indexes -/
def Tree.flatten : Tree → List (Nat × Bytes)
  | .leaf v s => [(v &&& LEAF_MASK, s)]
  | .node l r => l.flatten ++ r.flatten

/-- the positions of the leaves in tree order: `false` = into `script_tree[0]`, `true` = into `script_tree[1]` -/
def Tree.positions : Tree → List (List Bool)
  | .leaf _ _ => [[]]
  | .node l r => l.positions.map (false :: ·) ++ r.positions.map (true :: ·)

/-- the leaf at a position -/
def Tree.leafAt : Tree → List Bool → Option (Nat × Bytes)
  | .leaf v s, [] => some (v &&& LEAF_MASK, s)
  | .node l _, false :: p => l.leafAt p
  | .node _ r, true :: p => r.leafAt p
  | _, _ => none

/-- the merkle path of the leaf at a position: the sibling's root at every level, deepest first — what
    `tree_helper` accumulates with `c + right_h` / `c + left_h` on the way up -/
def pathOf (H : TagHash) : Tree → List Bool → Bytes
  | .node l r, false :: p => pathOf H l p ++ root H r
  | .node l r, true :: p => pathOf H r p ++ root H l
  | _, _ => []

section group
variable {α : Type} (o : GroupOps α) (H : TagHash)

/-- `_tap_tweak`: refuses `t ≥ n` -/
def tapTweak (pk h : Bytes) : Except Err Int :=
  let t : Int := (ofBE (H TAG_TWEAK (pk ++ h)) : Nat)
  if t ≥ o.n then .error .tweak else .ok t

/-- BIP341's lift wants the even-y point: `P_y = y_P if y_P % 2 == 0 else p - y_P` -/
def evenY (P : α) : α := if o.hasEvenY P then P else o.neg P

/-- `Q = P_even + t·G` -/
def tweakPoint (P : α) (t : Int) : α := o.add (evenY o P) (o.mul t o.gen)

/-- `(Q[0].to_bytes(32, "big"), Q[1] % 2)` -/
def outKey (Q : α) : Bytes × Nat := (beBytes 32 (o.x Q).toNat, (o.y Q % 2).toNat)

/-- `point_from_octets` on the 33/65-byte SEC forms (hybrid prefixes refused, as on the Python arm) -/
def pointFromOctets (sec : Bytes) : Except Err α :=
  match sec with
  | [] => .error .key
  | pre :: rest =>
    if pre = 2 ∨ pre = 3 then
      if rest.length ≠ 32 then .error .key else
      match o.liftX (ofBE rest : Nat) with
      | none => .error .key
      | some P => .ok (if pre = 2 then P else o.neg P)
    else if pre = 4 then
      if rest.length ≠ 64 then .error .key else
      let y : Int := (ofBE (rest.drop 32) : Nat)
      match o.liftX (ofBE (rest.take 32) : Nat) with
      | none => .error .key
      | some P =>
        if y = 0 then .error .key
        else if o.y P = y then .ok P
        else if o.y (o.neg P) = y then .ok (o.neg P)
        else .error .key
    else .error .key

/-- `sec[1:33]` -/
def xOnly (sec : Bytes) : Bytes := (sec.drop 1).take 32

/-- `_tweaked_pubkey(PubKeyData(sec), h)`: the tweak is computed (and may refuse) before the key is lifted -/
def tweakedPubkey (sec h : Bytes) : Except Err (Bytes × Nat) := do
  let t ← tapTweak o H (xOnly sec) h
  let P ← pointFromOctets o sec
  pure (outKey o (tweakPoint o P t))

/-- `_tweaked_prvkey(d, h)` for `0 < d < n` (Python arm) -/
def tweakedPrvkey (d : Int) (h : Bytes) : Except Err Int := do
  let P := o.mul d o.gen
  let d' := if o.hasEvenY P then d else o.n - d
  let t ← tapTweak o H (beBytes 32 (o.x P).toNat) h
  pure ((d' + t) % o.n)

/-- `output_prvkey` below `int_from_prv_key`: an integer key outside `1..n-1` is refused -/
def outputPrvkey (d : Int) (tree : Option Tree) : Except Err Int :=
  if ¬ (0 < d ∧ d < o.n) then .error .prv else
  tweakedPrvkey o H d (match tree with | some t => root H t | none => [])

def numsSec : Bytes := NUMS_PREFIX :: NUMS_X

/-- Python truthiness of the `internal_pubkey` argument as octets: `None` and `b""` are both "no key" -/
def truthyKey : Option Bytes → Option Bytes
  | some (b :: bs) => some (b :: bs)
  | _ => none

/-- `_output_pubkey_and_internal_key`: (output key, parity, x-only internal key).  `if not internal_pubkey and
    not script_tree` / `if internal_pubkey … else <NUMS>`: an EMPTY key is no key (falls back to the NUMS point),
    exactly like `None`. -/
def outputPubkeyAndInternalKey (sec : Option Bytes) (tree : Option Tree) :
    Except Err (Bytes × Nat × Bytes) :=
  match truthyKey sec, tree with
  | none, none => .error .missing
  | key, _ =>
    let s := key.getD numsSec
    let h := match tree with | some t => root H t | none => []
    match tweakedPubkey o H s h with
    | .error e => .error e
    | .ok (q, par) => .ok (q, par, xOnly s)

/-- `output_pubkey` -/
def outputPubkey (sec : Option Bytes) (tree : Option Tree) : Except Err (Bytes × Nat) :=
  (outputPubkeyAndInternalKey o H sec tree).map fun r => (r.1, r.2.1)

/-- the control block: `(parity + version) ‖ x-only internal key ‖ merkle path` -/
def controlBlock (parity v : Nat) (xonly path : Bytes) : Bytes :=
  UInt8.ofNat (parity + v) :: (xonly ++ path)

/-- `input_script_sig`: (leaf script, control block) of the leaf numbered `i` in tree order -/
def inputScriptSig (sec : Option Bytes) (tree : Tree) (i : Int) : Except Err (Bytes × Bytes) :=
  match outputPubkeyAndInternalKey o H sec (some tree) with
  | .error e => .error e
  | .ok (_, par, xonly) =>
    let ls := leaves H tree
    if ¬ (0 ≤ i ∧ i < ls.length) then .error .index else
    match ls[i.toNat]? with
    | none => .error .index
    | some ((v, s), path) => .ok (s, controlBlock par v xonly path)

/-- the two length guards of `check_output_pubkey`; answers `m` (Python's floor division) -/
def lengthGate (len : Nat) : Except Err Int :=
  if len > CONTROL_HEAD + NODE_SIZE * MAX_TREE_DEPTH then .error .toolong else
  let m := Py.div ((len : Int) - CONTROL_HEAD) NODE_SIZE
  if (len : Int) ≠ CONTROL_HEAD + NODE_SIZE * m then .error .badlen else .ok m

/-- `for j in range(m): e = control[33+32j : 65+32j]; k = …` on `path = control[33:]` -/
def foldPath (k : Bytes) (path : Bytes) : Nat → Bytes
  | 0 => k
  | j + 1 => foldPath (foldStep H k (path.take NODE_SIZE)) (path.drop NODE_SIZE) j

/-- `check_output_pubkey(q, script, control)` (Python arm: `q` of any length is read as an integer) -/
def checkOutputPubkey (q script control : Bytes) : Except Err Bool := do
  let m ← lengthGate control.length
  let c0 := (control.headD 0).toNat
  let k := foldPath H (leafHash H (c0 &&& LEAF_MASK) script) (control.drop CONTROL_HEAD) m.toNat
  let pBytes := (control.drop 1).take (CONTROL_HEAD - 1)
  let t ← tapTweak o H pBytes k
  match o.liftX (ofBE pBytes : Nat) with
  | none => .error .key
  | some P =>
    let Q := o.add P (o.mul t o.gen)
    pure (o.x Q == (ofBE q : Nat) && c0 &&& PARITY_MASK == (o.y Q % 2).toNat)

/-! ### p2tr glue: `ScriptPubKey.p2tr`, `assert_p2tr` / `is_p2tr`, the witness program -/

/-- `serialize(["OP_1", pub_key])` for a 32-byte key: version opcode, push marker, key -/
def p2trScript (q : Bytes) : Bytes := P2TR_VERSION_OP :: P2TR_PUSH :: q

/-- `assert_p2tr`: 34 octets (`bytes_from_octets(script_pub_key, 34)`), `OP_1`, a 32-byte push; `none` = accepted,
    `some 0 / 1 / 2` = refused by the length / version / push-marker guard -/
def assertP2tr (spk : Bytes) : Option Nat :=
  if spk.length ≠ P2TR_LEN then some 0
  else if spk.headD 0 ≠ P2TR_VERSION_OP then some 1
  else if (spk.drop 1).headD 0 ≠ P2TR_PUSH then some 2
  else none

/-- `is_p2tr` -/
def isP2tr (spk : Bytes) : Bool := (assertP2tr spk).isNone

/-- `ScriptPubKey.p2tr(internal_key, script_path).script` -/
def scriptPubKeyP2tr (sec : Option Bytes) (tree : Option Tree) : Except Err Bytes :=
  (outputPubkey o H sec tree).map fun r => p2trScript r.1

end group

/-! ## the Python values that reach `tree_helper` (the `TaprootScriptTree` alias is not enforced at run time)

`tree_helper` / `_tree_helper` read of a node only: is it a list or tuple, how many elements, and — for a
one-element node — is the element a 2-sequence `(leaf version, script)` whose first half is an `int` that is no
`bool`; `taproot.serialize` then wants the script to be a `list`.  `PyVal` has exactly that much structure.  One Python
object may have two spellings here (`[]` is `nil true` and `cmds 0 []`; `["OP_1"]` is `one true (atom true)` and
`cmds 1 [0x51]`): every function below answers both spellings alike. -/
inductive PyVal where
  | int (v : Int)                       -- an `int` that is not a `bool`
  | atom (truthy : Bool)                -- None, str, bytes, bool, float, …: neither list/tuple nor integer
  | cmds (n : Nat) (b : Bytes)          -- a LIST of `n` script commands, each a str or bytes (what `taproot.parse` returns:
                                        -- no int, no sequence), that `taproot.serialize` turns into `b`
  | script (cs : List Cmd)              -- a LIST of script commands of ANY kind (int, str, bytes-like, other object): what
                                        -- `taproot.serialize` makes of it is `serializeTap cs`
  | nil (isList : Bool)                 -- `[]` / `()`
  | one (isList : Bool) (x : PyVal)     -- `[x]` / `(x,)`
  | two (isList : Bool) (x y : PyVal)   -- `[x, y]` / `(x, y)`
  | many (isList : Bool) (k : Nat)      -- a list / tuple of `k + 3` elements (they are never read)
  deriving Repr

/-- `bool(value)`: what `if script_tree` / `if not script_tree` read -/
def PyVal.truthy : PyVal → Bool
  | .int v => v != 0
  | .atom b => b
  | .cmds n _ => n != 0
  | .script cs => !cs.isEmpty
  | .nil _ => false
  | _ => true

/-- `serialize(script)` seen from `_tree_helper`: `assert_type(script, list, "tapscript")`, then the codec -/
def PyVal.scriptBytes : PyVal → Except Err Bytes
  | .cmds _ b => .ok b
  | .script cs =>
    match serializeTap cs with
    | .ok b => .ok b
    | .error .type => .error .ctype
    | .error _ => .error .cmd
  | .nil true => .ok []
  | .one true _ | .two true _ _ | .many true _ => .error .codec
  | _ => .error .stype

/-- `_tree_helper` below `leaf = script_tree[0]`: the pair guard, the integer guard, `leaf_version &= 0xFE`
    (Python's `&` on a negative or oversize int is the `&` of its residue mod 256), `serialize(script)` -/
def PyVal.toLeaf : PyVal → Except Err Tree
  | .two _ (.int v) s => (s.scriptBytes).map (Tree.leaf (v % 256).toNat)
  | .two _ _ _ => .error .vtype
  | .cmds 2 _ => .error .vtype      -- `[["OP_1", "OP_2"]]`: a 2-sequence whose first half is a str
  | .script [.int _, _] => .error .stype   -- `[[0xC0, "OP_1"]]`: an int version, and a script that is no list
  | .script [_, _] => .error .vtype        -- a 2-sequence whose first half is a str / bytes / other object
  | _ => .error .leaf

/-- `_subtree_helper(script_tree, depth)`: the guards in the order the code meets them — the depth guard
    (`depth > MAX_TREE_DEPTH`) FIRST, then the node shapes, then the left subtree wholly before the right one, each one
    level down: the `Tree` a Python value is read as, or the first refusal -/
def PyVal.toTreeAt (d : Nat) : PyVal → Except Err Tree
  | .one _ x => if d > MAX_TREE_DEPTH then .error .deep else x.toLeaf
  | .two _ l r =>
    if d > MAX_TREE_DEPTH then .error .deep else
    match l.toTreeAt (d + 1) with
    | .error e => .error e
    | .ok tl =>
      match r.toTreeAt (d + 1) with
      | .error e => .error e
      | .ok tr => .ok (.node tl tr)
  | .cmds 1 _ => if d > MAX_TREE_DEPTH then .error .deep else .error .leaf   -- `["OP_1"]`: one element, and it is no pair
  | .script [_] => if d > MAX_TREE_DEPTH then .error .deep else .error .leaf
  -- two commands: a branch whose children (no list / tuple) are met ONE LEVEL DOWN, the depth guard first there too
  | .cmds 2 _ | .script [_, _] =>
    if d > MAX_TREE_DEPTH then .error .deep else if d + 1 > MAX_TREE_DEPTH then .error .deep else .error .node
  | _ => if d > MAX_TREE_DEPTH then .error .deep else .error .node
      -- not a list/tuple, or 0 / 3+ elements

/-- `tree_helper(script_tree) = _subtree_helper(script_tree, 0)` -/
def PyVal.toTree (v : PyVal) : Except Err Tree := v.toTreeAt 0

/-- a `Tree` as a Python value (nodes as lists or tuples, scripts as lists of `n` commands) -/
def Tree.toPy (l : Bool) (n : Nat) : Tree → PyVal
  | .leaf v s => .one l (.two (!l) (.int v) (.cmds n s))
  | .node x y => .two l (x.toPy l n) (y.toPy l n)

/-- the PUBLIC `tree_helper(script_tree)` -/
def treeHelperPy (H : TagHash) (v : PyVal) : Except Err (List LeafInfo × Bytes) :=
  v.toTree.map (treeHelper H)

section pygroup
variable {α : Type} (o : GroupOps α) (H : TagHash)

/-- `_sec_from_key` refuses octets that are neither 33 nor 65 long BEFORE the tree is walked (a 32-byte string is
    read as a private key there: outside this model, like every spelling beyond the SEC ones); what is wrong with
    33 / 65 octets is found by the tweak, AFTER the walk -/
def secLenBad (sec : Option Bytes) : Bool :=
  match truthyKey sec with
  | some s => s.length != 33 && s.length != 65
  | none => false

/-- `output_pubkey(internal_pubkey, script_tree)` on any Python value: `if script_tree: _, h = tree_helper(script_tree)
    else: h = b""` — a falsy tree (`None`, `[]`, `()`, `0`, `""`) is NO tree, a truthy one is walked (and may be refused) -/
def outputPubkeyPy (sec : Option Bytes) (tree : PyVal) : Except Err (Bytes × Nat) :=
  if !tree.truthy then outputPubkey o H sec none else
  if secLenBad sec then .error .key else
  match tree.toTree with
  | .error e => .error e
  | .ok t => outputPubkey o H sec (some t)

/-- `output_prvkey(prv_key, script_tree)`: the tree is walked (or skipped when falsy) BEFORE the key is read -/
def outputPrvkeyPy (d : Int) (tree : PyVal) : Except Err Int :=
  if !tree.truthy then outputPrvkey o H d none else
  match tree.toTree with
  | .error e => .error e
  | .ok t => outputPrvkey o H d (some t)

/-- `input_script_sig(internal_pubkey, script_tree, script_num)`: `_output_pubkey_and_internal_key` first (a falsy
    tree is skipped THERE, so a bad key is reported first), then `tree_helper(script_tree)` unconditionally — which
    refuses every falsy value as a node -/
def inputScriptSigPy (sec : Option Bytes) (tree : PyVal) (i : Int) : Except Err (Bytes × Bytes) :=
  if !tree.truthy then
    match outputPubkey o H sec none with
    | .error e => .error e
    | .ok _ => match tree.toTree with
      | .error e => .error e
      | .ok _ => .error .node      -- unreachable: a falsy value is never a tree (`toTree_falsy`)
  else
    if secLenBad sec then .error .key else
    match tree.toTree with
    | .error e => .error e
    | .ok t => inputScriptSig o H sec t i

end pygroup
end Btc.Taproot
