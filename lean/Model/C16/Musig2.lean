import Model.Common.GroupOps
import Model.Common.Bytes
import Model.Common.Py
import Generated.Interactive
/-
C16 — MuSig2 (btclib/ecc/musig2.py), a transcription of BIP327's algorithms, written ONCE over
`o : Btc.GroupOps α` and a tagged-hash parameter `H : tag → msg → digest`.

  driver:   `o := Btc.EC.ops Btc.EC.secp256k1`, `H := Btc.taggedHash`   (tied by correspondence)
  theorems: any `o` with `Btc.Lawful o G`, ANY `H`                      (Props/C16.lean)

Function by function: `_cbytes`, `_cbytes_ext`, `_cpoint`, `_cpoint_ext`, `key_sort` (driver),
`_hash_pub_keys`, `_second_pub_key`, `_key_agg_coeff_`, `key_agg`, `apply_tweak`,
`key_agg_and_tweak`, `nonce_gen_`, `nonce_agg`, `SessionContext.__init__`, `session_values`,
`sign`, `deterministic_sign`, `partial_sig_verify_`, `partial_sig_verify`, `_agg_s`,
`partial_sig_agg`, `partial_sig_agg_adaptor`, `adapt`, `extract_adaptor`; and the BIP340
verification equation (`ssa._assert_as_valid_`) the aggregate is checked against.
-/
namespace Btc.C16
open Btc Btc.Py

abbrev R := Except PyErr

def pkSize : Nat := Gen.Interactive.MUSIG_PK_SIZE
def scalarSize : Nat := Gen.Interactive.MUSIG_SCALAR_SIZE
def nonceSize : Nat := Gen.Interactive.MUSIG_NONCE_SIZE
def infBytes : Bytes := Gen.Interactive.MUSIG_INF_BYTES

/-- `x.to_bytes(32, "big")` of a coordinate / scalar already known to be in range -/
def sBytes (x : Int) : Bytes := beBytes scalarSize x.toNat

section
variable {α : Type} (o : GroupOps α) (H : Bytes → Bytes → Bytes)

def evenY (P : α) : Bool := o.y P % 2 == 0

/-- `_cbytes`: SEC compressed encoding of a non-zero point -/
def cbytes (P : α) : Bytes := (if evenY o P then (2 : UInt8) else 3) :: sBytes (o.x P)

/-- `_cbytes_ext` -/
def cbytesExt (P : α) : Bytes := if o.isZero P then infBytes else cbytes o P

/-- `_cpoint`: 33 bytes, prefix 02/03, x a coordinate (`point_from_octets` after the size check) -/
def cpoint (b : Bytes) : R α :=
  if b.length ≠ pkSize then .error .value else
  match b with
  | [] => .error .value
  | pre :: xs =>
    if pre = 2 ∨ pre = 3 then
      match o.liftX (ofBE xs) with
      | some Q => .ok (if pre = 2 then Q else o.neg Q)
      | none => .error .value
    else .error .value

/-- `_cpoint_ext` -/
def cpointExt (b : Bytes) : R α :=
  if b.length ≠ pkSize then .error .value
  else if b = infBytes then .ok o.zero else cpoint o b

/-- `scalar_from_prv_key` on an int: 1..n-1 -/
def scalarOk (q : Int) : Bool := decide (0 < q) && decide (q < o.n)

/-- `individual_pub_key` -/
def individualPubKey (d : Int) : Bytes := cbytes o (o.mul d o.gen)

/-! ## key aggregation -/

def hashPubKeys (pks : List Bytes) : Bytes := H Gen.Interactive.MUSIG_KEY_AGG_LIST_TAG pks.flatten

/-- `_second_pub_key` -/
def secondPubKey : List Bytes → Bytes
  | [] => infBytes
  | p0 :: rest => (rest.find? (fun pk => pk ≠ p0)).getD infBytes

/-- `_key_agg_coeff_` -/
def keyAggCoeff (L second pk : Bytes) : Int :=
  if pk = second then 1
  else fromBytesBE (H Gen.Interactive.MUSIG_KEY_AGG_COEFF_TAG (L ++ pk)) % o.n

structure KeyAggCtx (α : Type) where
  Q : α
  gacc : Int
  tacc : Int

/-- the sum `Σ aᵢ·Pᵢ` of `key_agg` (first unparsable key raises) -/
def keyAggSum (L second : Bytes) : List Bytes → R α
  | [] => .ok o.zero
  | pk :: rest =>
    match cpoint o pk with
    | .error _ => .error .runtime   -- InvalidContributionError(i, "pubkey") is a BTClibRuntimeError
    | .ok P =>
      match keyAggSum L second rest with
      | .error e => .error e
      | .ok S => .ok (o.add (o.mul (keyAggCoeff o H L second pk) P) S)

/-- `key_agg` (the list is non-empty: an empty one is refused by `multi_mult_var`) -/
def keyAgg (pks : List Bytes) : R (KeyAggCtx α) :=
  if pks.any (fun pk => pk.length ≠ pkSize) then .error .value else
  match keyAggSum o H (hashPubKeys H pks) (secondPubKey pks) pks with
  | .error e => .error e
  | .ok Q =>
    if pks.isEmpty then .error .value
    else if o.isZero Q then .error .runtime else .ok ⟨Q, 1, 0⟩

/-- `g` of `apply_tweak`: `n-1` iff the tweak is x-only and `Q` has odd y -/
def tweakG (c : KeyAggCtx α) (isXonly : Bool) : Int :=
  if isXonly && !(evenY o c.Q) then o.n - 1 else 1

/-- `_tweak_add_var(Q if g == 1 else negate(Q), t)` -/
def tweakQ (c : KeyAggCtx α) (t : Int) (isXonly : Bool) : α :=
  o.add (if tweakG o c isXonly = 1 then c.Q else o.neg c.Q) (o.mul t o.gen)

/-- `apply_tweak` -/
def applyTweak (c : KeyAggCtx α) (tweak : Bytes) (isXonly : Bool) : R (KeyAggCtx α) :=
  if tweak.length ≠ scalarSize then .error .value
  else if fromBytesBE tweak ≥ o.n then .error .value
  else if o.isZero (tweakQ o c (fromBytesBE tweak) isXonly) then .error .value
  else .ok ⟨tweakQ o c (fromBytesBE tweak) isXonly, tweakG o c isXonly * c.gacc % o.n,
            (fromBytesBE tweak + tweakG o c isXonly * c.tacc) % o.n⟩

def applyTweaks (c : KeyAggCtx α) : List (Bytes × Bool) → R (KeyAggCtx α)
  | [] => .ok c
  | (t, x) :: rest =>
    match applyTweak o c t x with
    | .error e => .error e
    | .ok c' => applyTweaks c' rest

/-- `key_agg_and_tweak` (tweaks and kinds already zipped: the length check is the caller's) -/
def keyAggAndTweak (pks : List Bytes) (tweaks : List (Bytes × Bool)) : R (KeyAggCtx α) :=
  match keyAgg o H pks with
  | .error e => .error e
  | .ok c => applyTweaks o c tweaks

def xOnlyPubKey (c : KeyAggCtx α) : Bytes := sBytes (o.x c.Q)

/-! ## nonces -/

def sumPoints : List α → α
  | [] => o.zero
  | P :: rest => o.add P (sumPoints rest)

def parseAll (f : Bytes → R α) : List Bytes → R (List α)
  | [] => .ok []
  | b :: rest =>
    match f b with
    | .error e => .error e
    | .ok P => match parseAll f rest with
      | .error e => .error e
      | .ok Ps => .ok (P :: Ps)

/-- `nonce_agg` -/
def nonceAgg (pubNonces : List Bytes) : R Bytes :=
  if pubNonces.any (fun pn => pn.length ≠ nonceSize) then .error .value else
  match parseAll (cpoint o) (pubNonces.map (·.take pkSize)) with
  | .error _ => .error .runtime   -- InvalidContributionError(i, "pubnonce")
  | .ok R1s =>
    match parseAll (cpoint o) (pubNonces.map (·.drop pkSize)) with
    | .error _ => .error .runtime
    | .ok R2s => .ok (cbytesExt o (sumPoints o R1s) ++ cbytesExt o (sumPoints o R2s))

def xorBytes : Bytes → Bytes → Bytes
  | a :: as, b :: bs => (a ^^^ b) :: xorBytes as bs
  | _, _ => []

/-- `_nonce_hash` -/
def nonceHash (rand pk aggPk : Bytes) (i : Nat) (msgPrefixed extra : Bytes) : Int :=
  fromBytesBE (H Gen.Interactive.MUSIG_NONCE_TAG
    (rand ++ beBytes 1 pk.length ++ pk ++ beBytes 1 aggPk.length ++ aggPk ++ msgPrefixed
      ++ beBytes 4 extra.length ++ extra ++ beBytes 1 i))

/-- `nonce_gen_`: (secnonce, pubnonce) -/
def nonceGen (rand' : Bytes) (prv : Option Int) (pk : Bytes) (aggPk msg extra : Option Bytes) :
    R (Bytes × Bytes) :=
  if rand'.length ≠ scalarSize then .error .value else
  match (match prv with
         | none => (.ok rand' : R Bytes)
         | some q => if scalarOk o q then .ok (xorBytes (sBytes q) (H Gen.Interactive.MUSIG_AUX_TAG rand'))
                     else .error .value) with
  | .error e => .error e
  | .ok rand =>
    if pk.length ≠ pkSize then .error .value else
    match (match aggPk with
           | none => (.ok [] : R Bytes)
           | some a => if a.length = scalarSize then .ok a else .error .value) with
    | .error e => .error e
    | .ok aggPk =>
      let msgPrefixed : Bytes := match msg with
        | none => [0]
        | some m => 1 :: (beBytes 8 m.length ++ m)
      let extra := extra.getD []
      let k1 := nonceHash H rand pk aggPk 0 msgPrefixed extra % o.n
      let k2 := nonceHash H rand pk aggPk 1 msgPrefixed extra % o.n
      if k1 = 0 ∨ k2 = 0 then .error .value else
      .ok (sBytes k1 ++ sBytes k2 ++ pk, cbytes o (o.mul k1 o.gen) ++ cbytes o (o.mul k2 o.gen))

/-! ## session -/

structure SessionCtx where
  aggNonce : Bytes
  pubKeys : List Bytes
  tweaks : List (Bytes × Bool)
  msg : Bytes
  adaptor : Option Bytes

/-- `SessionContext.__init__`: the size checks (tweak/kind lists already zipped) -/
def SessionCtx.wf (s : SessionCtx) : Bool :=
  s.aggNonce.length == nonceSize && s.pubKeys.all (fun pk => pk.length == pkSize)
    && (match s.adaptor with | none => true | some a => a.length == pkSize)

structure SessionValues (α : Type) where
  Q : α
  gacc : Int
  tacc : Int
  b : Int
  R : α
  e : Int
  L : Bytes
  second : Bytes

/-- `ssa.challenge_` on secp256k1/sha256 sizes (the zero check is the caller's here) -/
def challenge (xR xQ : Int) (msg : Bytes) : Int :=
  fromBytesBE (H Gen.Interactive.BIP340_CHALLENGE_TAG (sBytes xR ++ sBytes xQ ++ msg)) % o.n

/-- the fallible first half of `session_values`: key aggregation, tweaks, the two halves of the
    aggregate nonce, the adaptor folded into `R₁` -/
def sessionPoints (s : SessionCtx) : R (KeyAggCtx α × α × α) :=
  match keyAggAndTweak o H s.pubKeys s.tweaks with
  | .error e => .error e
  | .ok kc =>
    match cpointExt o (s.aggNonce.take pkSize) with
    | .error _ => .error .runtime   -- InvalidContributionError(None, "aggnonce")
    | .ok R1 =>
      match cpointExt o (s.aggNonce.drop pkSize) with
      | .error _ => .error .runtime
      | .ok R2 =>
        match s.adaptor with
        | none => .ok (kc, R1, R2)
        | some a =>
          match cpoint o a with
          | .error _ => .error .runtime   -- InvalidContributionError(None, "adaptor")
          | .ok T => .ok (kc, o.add R1 T, R2)

/-- nonce coefficient `b` -/
def nonceCoeff (kc : KeyAggCtx α) (R1 R2 : α) (msg : Bytes) : Int :=
  fromBytesBE (H Gen.Interactive.MUSIG_NONCE_COEFF_TAG
    (cbytesExt o R1 ++ cbytesExt o R2 ++ xOnlyPubKey o kc ++ msg)) % o.n

/-- final nonce: `R₁ + b·R₂`, the generator standing in for infinity -/
def finalNonce (b : Int) (R1 R2 : α) : α :=
  let R0 := o.add R1 (o.mul b R2)
  if o.isZero R0 then o.gen else R0

/-- `session_values` -/
def sessionValues (s : SessionCtx) : R (SessionValues α) :=
  match sessionPoints o H s with
  | .error e => .error e
  | .ok (kc, R1, R2) =>
    let b := nonceCoeff o H kc R1 R2 s.msg
    let Rf := finalNonce o b R1 R2
    let e := challenge o H (o.x Rf) (o.x kc.Q) s.msg
    if e = 0 then .error .runtime
    else .ok ⟨kc.Q, kc.gacc, kc.tacc, b, Rf, e, hashPubKeys H s.pubKeys, secondPubKey s.pubKeys⟩

/-- `g` of `sign` / `partial_sig_verify_` / `_agg_s` -/
def gOf (Q : α) : Int := if evenY o Q then 1 else o.n - 1

/-- `sign` on the three parts of the secnonce (k₁, k₂, the key it was made for) -/
def sign (k1 k2 : Int) (snPk : Bytes) (prv : Int) (s : SessionCtx) : R Int :=
  match sessionValues o H s with
  | .error e => .error e
  | .ok v =>
    if !(scalarOk o k1) then .error .value
    else if !(scalarOk o k2) then .error .value
    else
      let k1' := if evenY o v.R then k1 else o.n - k1
      let k2' := if evenY o v.R then k2 else o.n - k2
      if !(scalarOk o prv) then .error .value else
      let pk := individualPubKey o prv
      if pk ≠ snPk then .error .value
      else if !(s.pubKeys.contains pk) then .error .value
      else
        let a := keyAggCoeff o H v.L v.second pk
        let d := gOf o v.Q * v.gacc * prv % o.n
        .ok ((k1' + v.b * k2' + v.e * a * d) % o.n)

/-- `sign` on the 97-byte secnonce -/
def signBytes (secNonce : Bytes) (prv : Int) (s : SessionCtx) : R Bytes :=
  (sign o H (fromBytesBE (secNonce.take scalarSize))
    (fromBytesBE ((secNonce.drop scalarSize).take scalarSize)) (secNonce.drop (2 * scalarSize)) prv s).map sBytes

/-- `partial_sig_verify_` (the pure-Python arm; the delegated arm is compared by the harness) -/
def partialSigVerify (psig pubNonce pubKey : Bytes) (s : SessionCtx) : R Bool :=
  match sessionValues o H s with
  | .error e => .error e
  | .ok v =>
    if psig.length ≠ scalarSize then .error .value else
    let sI := fromBytesBE psig
    if sI ≥ o.n then .ok false
    else if pubNonce.length ≠ nonceSize then .error .value
    else if pubKey.length ≠ pkSize then .error .value
    else
      match cpoint o (pubNonce.take pkSize) with
      | .error e => .error e
      | .ok Rs1 =>
        match cpoint o (pubNonce.drop pkSize) with
        | .error e => .error e
        | .ok Rs2 =>
          let Rs0 := o.add Rs1 (o.mul v.b Rs2)
          let Rs := if evenY o v.R then Rs0 else o.neg Rs0
          match cpoint o pubKey with
          | .error e => .error e
          | .ok P =>
            if !(s.pubKeys.contains pubKey) then .error .value else
            let a := keyAggCoeff o H v.L v.second pubKey
            let g := gOf o v.Q * v.gacc % o.n
            .ok (o.eq (o.mul sI o.gen) (o.add Rs (o.mul (v.e * a * g % o.n) P)))

/-- sum of the partial signatures (`_agg_s`'s loop) -/
def sumPsigs (n : Int) : List Bytes → Int → R Int
  | [], acc => .ok acc
  | p :: rest, acc =>
    if p.length ≠ scalarSize then .error .value
    else if fromBytesBE p ≥ n then .error .runtime   -- InvalidContributionError(i, "psig")
    else sumPsigs n rest ((acc + fromBytesBE p) % n)

/-- `_agg_s`: `(x_R, s)` -/
def aggS (psigs : List Bytes) (s : SessionCtx) : R (Int × Int) :=
  match sessionValues o H s with
  | .error e => .error e
  | .ok v =>
    match sumPsigs o.n psigs 0 with
    | .error e => .error e
    | .ok sm => .ok (o.x v.R, (sm + v.e * gOf o v.Q * v.tacc) % o.n)

/-- `partial_sig_agg` -/
def partialSigAgg (psigs : List Bytes) (s : SessionCtx) : R (Int × Int) :=
  if s.adaptor.isSome then .error .value else aggS o H psigs s

/-- `partial_sig_agg_adaptor` -/
def partialSigAggAdaptor (psigs : List Bytes) (s : SessionCtx) : R (Int × Int) :=
  if s.adaptor.isNone then .error .value else aggS o H psigs s

/-- `adapt` -/
def adapt (pre : Int × Int) (t : Int) (s : SessionCtx) : R (Int × Int) :=
  match sessionValues o H s with
  | .error e => .error e
  | .ok v =>
    if !(scalarOk o t) then .error .value else
    let t' := if evenY o v.R then t else o.n - t
    -- `ssa.Sig(pre_sig.r, s, secp256k1)` validates: r must be an x-coordinate (s is in range)
    if (o.liftX pre.1).isNone then .error .value else
    .ok (pre.1, (pre.2 + t') % o.n)

/-- `extract_adaptor` (as an integer; the code renders it on 32 bytes) -/
def extractAdaptor (sig pre : Int × Int) (s : SessionCtx) : R Int :=
  match sessionValues o H s with
  | .error e => .error e
  | .ok v =>
    let t := (sig.2 - pre.2) % o.n
    .ok (if evenY o v.R then t else (-t) % o.n)

/-- `_det_nonce_hash` -/
def detNonceHash (sk aggOther aggPk msg : Bytes) (i : Nat) : Int :=
  fromBytesBE (H Gen.Interactive.MUSIG_DET_NONCE_TAG
    (sk ++ aggOther ++ aggPk ++ beBytes 8 msg.length ++ msg ++ beBytes 1 i))

/-- `deterministic_sign`: (pubnonce, partial signature) -/
def deterministicSign (prv : Int) (aggOther : Bytes) (pks : List Bytes) (tweaks : List (Bytes × Bool))
    (msg : Bytes) (rand : Option Bytes) : R (Bytes × Bytes) :=
  if !(scalarOk o prv) then .error .value else
  let sk0 := sBytes prv
  match (match rand with
         | none => (.ok sk0 : R Bytes)
         | some r =>
           let h := H Gen.Interactive.MUSIG_AUX_TAG r
           if h.length ≠ sk0.length then .error .foreign else .ok (xorBytes sk0 h)) with
  | .error e => .error e
  | .ok sk =>
    if aggOther.length ≠ nonceSize then .error .value else
    match keyAggAndTweak o H pks tweaks with
    | .error e => .error e
    | .ok kc =>
      let aggPk := xOnlyPubKey o kc
      let k1 := detNonceHash H sk aggOther aggPk msg 0 % o.n
      let k2 := detNonceHash H sk aggOther aggPk msg 1 % o.n
      if k1 = 0 ∨ k2 = 0 then .error .value else
      let pubNonce := cbytes o (o.mul k1 o.gen) ++ cbytes o (o.mul k2 o.gen)
      match nonceAgg o [pubNonce, aggOther] with
      | .error e => .error e
      | .ok aggNonce =>
        match sign o H k1 k2 (individualPubKey o prv) prv ⟨aggNonce, pks, tweaks, msg, none⟩ with
        | .error e => .error e
        | .ok s => .ok (pubNonce, sBytes s)

/-! ## BIP340 verification (`ssa.assert_as_valid_` → `_assert_as_valid_`), the equation the
aggregate signature is checked against -/

def bip340Verify (xQ : Int) (msg : Bytes) (r s : Int) : Bool :=
  match o.liftX r with
  | none => false
  | some _ =>
    if !(decide (0 ≤ s) && decide (s < o.n)) then false else
    match o.liftX xQ with
    | none => false
    | some P =>
      let e := challenge o H r xQ msg
      if e = 0 then false else
      let K := o.dmul (o.n - e) P s o.gen
      !(o.isZero K) && evenY o K && decide (o.x K = r)

end
end Btc.C16
