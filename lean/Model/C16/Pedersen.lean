import Model.C16.Musig2
/-
C16 — Pedersen commitments (btclib/ecc/pedersen.py): `commit`, `verify`, over `o : GroupOps α`;
the second generator `H` (`second_generator`, a hash-to-curve search) is a parameter.
-/
namespace Btc.C16
open Btc Btc.Py

section
variable {α : Type} (o : GroupOps α)

/-- `commit(r, v)` = `double_mult_var(v, H, r, G)`, refused at infinity -/
def pedersenCommit (Hp : α) (r v : Int) : R α :=
  if o.isZero (o.dmul v Hp r o.gen) then .error .runtime else .ok (o.dmul v Hp r o.gen)

/-- `verify(r, v, commitment)`: recompute and compare; a failing `commit` is `False` -/
def pedersenVerify (Hp : α) (r v : Int) (C : α) : Bool :=
  match pedersenCommit o Hp r v with
  | .ok Q => o.eq C Q
  | .error _ => false

end
end Btc.C16
