import Model.C16.Musig2
/-
C16 — BIP352 silent payments (btclib/silent_payments.py): the sender (`prv_key_sum`, `input_hash`,
`output_keys`) and the scanner (`scan_outputs`, `scan_transaction_outputs`, `_labelled`,
`prv_key_from_tweak`), over `o : GroupOps α` and a tagged hash `H`.  Addresses are already decoded
into their two points (the codec is C06's); the pure-Python arm is what is transcribed, the
delegated arm is compared by the harness.
-/
namespace Btc.C16
open Btc Btc.Py

section
variable {α : Type} (o : GroupOps α) (H : Bytes → Bytes → Bytes)

/-- `_scalar`: a hash read as a scalar, refused outside `1..n-1` -/
def spScalar (data : Bytes) : R Int :=
  if scalarOk o (fromBytesBE data) then .ok (fromBytesBE data) else .error .value

/-- `_x_only` (through `bytes_from_point`, which refuses infinity) -/
def xOnly (P : α) : R Bytes := if o.isZero P then .error .value else .ok (sBytes (o.x P))

/-- one input key as `prv_key_sum` adds it: negated when the input is taproot and its point has odd y -/
def spInputKey (a : Int) (taproot : Bool) : Int :=
  if taproot && !(evenY o (o.mul a o.gen)) then o.n - a else a

def prvKeySumAux : List (Int × Bool) → Int → R Int
  | [], total => .ok total
  | (a, tr) :: rest, total =>
    if !(scalarOk o a) then .error .value
    else prvKeySumAux rest ((total + spInputKey o a tr) % o.n)

/-- `prv_key_sum` -/
def prvKeySum (keys : List (Int × Bool)) : R Int :=
  match prvKeySumAux o keys 0 with
  | .error e => .error e
  | .ok total => if total = 0 then .error .value else .ok total

/-- `pub_key_sum` (points already validated by `point_from_pub_key`) -/
def pubKeySum (pts : List α) : R α :=
  if o.isZero (sumPoints o pts) then .error .value else .ok (sumPoints o pts)

def bytesLt : Bytes → Bytes → Bool
  | [], [] => false
  | [], _ :: _ => true
  | _ :: _, [] => false
  | a :: as, b :: bs => if a < b then true else if b < a then false else bytesLt as bs

/-- `min(outpoint.serialize() for …)`; an empty sequence is refused -/
def lowestOutpoint : List Bytes → R Bytes
  | [] => .error .value
  | x :: xs => .ok (xs.foldl (fun m y => if bytesLt y m then y else m) x)

/-- `_input_hash_` on the lowest outpoint -/
def inputHash (lowest : Bytes) (A : α) : R Int :=
  spScalar o (H Gen.Interactive.SP_INPUTS_TAG (lowest ++ cbytes o A))

/-- `_output_tweak` -/
def outputTweak (secret : α) (k : Nat) : R Int :=
  spScalar o (H Gen.Interactive.SP_SHARED_SECRET_TAG (cbytes o secret ++ beBytes Gen.Interactive.SP_LABEL_SIZE k))

/-- `label_tweak` -/
def labelTweak (bScan : Int) (m : Nat) : R Int :=
  if !(scalarOk o bScan) then .error .value
  else if m > Gen.Interactive.SP_MAX_LABEL then .error .value
  else spScalar o (H Gen.Interactive.SP_LABEL_TAG (sBytes bScan ++ beBytes Gen.Interactive.SP_LABEL_SIZE m))

/-- `output_key` on a secret already a point -/
def outputKey (secret Bm : α) (k : Nat) : R Bytes :=
  match outputTweak o H secret k with
  | .error e => .error e
  | .ok t => xOnly o (o.add Bm (o.mul t o.gen))

/-- the outputs of one group: `output_key(secret, B_m, k)` for k = k₀, k₀+1, … -/
def groupOutputs (secret : α) : List α → Nat → R (List Bytes)
  | [], _ => .ok []
  | Bm :: rest, k =>
    match outputKey o H secret Bm k with
    | .error e => .error e
    | .ok x =>
      match groupOutputs secret rest (k + 1) with
      | .error e => .error e
      | .ok xs => .ok (x :: xs)

/-- `groups.setdefault(B_scan, []).append(B_m)`: groups in order of first appearance -/
def insertGroup (Bs Bm : α) : List (α × List α) → List (α × List α)
  | [] => [(Bs, [Bm])]
  | (K, l) :: rest => if o.eq K Bs then (K, l ++ [Bm]) :: rest else (K, l) :: insertGroup Bs Bm rest

def groupsOf (recips : List (α × α)) : List (α × List α) :=
  recips.foldl (fun g r => insertGroup o r.1 r.2 g) []

def allGroupOutputs (ha : Int) : List (α × List α) → R (List Bytes)
  | [] => .ok []
  | (Bs, Bms) :: rest =>
    match groupOutputs o H (o.mul ha Bs) Bms 0 with
    | .error e => .error e
    | .ok xs =>
      match allGroupOutputs ha rest with
      | .error e => .error e
      | .ok ys => .ok (xs ++ ys)

/-- size of the group of `Bs` so far (`len(groups.setdefault(B_scan, []))`) -/
def groupLen (Bs : α) : List (α × List α) → Nat
  | [] => 0
  | (K, l) :: rest => if o.eq K Bs then l.length else groupLen Bs rest

/-- `positions`: each address's scan key and its index `k` inside that key's group -/
def positionsOf : List (α × α) → List (α × List α) → List (α × Nat)
  | [], _ => []
  | r :: rest, g => (r.1, groupLen o r.1 g) :: positionsOf rest (insertGroup o r.1 r.2 g)

/-- `first[B_scan]`: number of keys of the groups that come before `B_scan`'s -/
def groupOffset (Bs : α) : List (α × List α) → Nat
  | [] => 0
  | (K, l) :: rest => if o.eq K Bs then 0 else l.length + groupOffset Bs rest

/-- `output_keys` (Python arm): keys = (private key, spends-a-p2tr), outpoints = their 36-byte
serialisations, recipients = decoded addresses `(B_scan, B_m)`.  The keys are derived group by group
(groups by scan key, in order of first appearance, `k` counting inside a group) and handed back in
the order of the addresses. -/
def outputKeys (keys : List (Int × Bool)) (outpoints : List Bytes) (recips : List (α × α)) : R (List Bytes) :=
  match prvKeySum o keys with
  | .error e => .error e
  | .ok a =>
    match lowestOutpoint outpoints with
    | .error e => .error e
    | .ok lowest =>
      match inputHash o H lowest (o.mul a o.gen) with
      | .error e => .error e
      | .ok h =>
        if (groupsOf o recips).any (fun g => g.2.length > Gen.Interactive.SP_K_MAX) then .error .value
        else if !(scalarOk o (h * a % o.n)) then .error .value
        else
          match allGroupOutputs o H (h * a % o.n) (groupsOf o recips) with
          | .error e => .error e
          | .ok grouped =>
            .ok ((positionsOf o recips []).map fun pos =>
              grouped.getD (groupOffset o pos.1 (groupsOf o recips) + pos.2) [])

/-! ## scanning -/

def lookupLabel (key : Bytes) : List (Bytes × Int) → Option Int
  | [] => none
  | (k, v) :: rest => if k = key then some v else lookupLabel key rest

/-- `_labelled`: both parities of the candidate; `bytes_from_point` refuses a difference at infinity -/
def labelled (output : Bytes) (Pk : α) (labels : List (Bytes × Int)) : R (Option (α × Int)) :=
  match o.liftX (fromBytesBE output) with
  | none => .ok none
  | some cand =>
    let l1 := o.add cand (o.neg Pk)
    if o.isZero l1 then .error .value else
    match lookupLabel (cbytes o l1) labels with
    | some tw => .ok (some (o.add Pk l1, tw))
    | none =>
      let l2 := o.add (o.neg cand) (o.neg Pk)
      if o.isZero l2 then .error .value else
      match lookupLabel (cbytes o l2) labels with
      | some tw => .ok (some (o.add Pk l2, tw))
      | none => .ok none

/-- the inner `for output in remaining` of `scan_outputs`: the matched raw output and what is reported -/
def findMatch (Pk : α) (xPk : Bytes) (tk : Int) (labels : List (Bytes × Int)) :
    List Bytes → R (Option (Bytes × (Bytes × Int)))
  | [] => .ok none
  | out :: rest =>
    if xPk = out then .ok (some (out, (xPk, tk)))
    else if labels.isEmpty then findMatch Pk xPk tk labels rest
    else
      match labelled o out Pk labels with
      | .error e => .error e
      | .ok none => findMatch Pk xPk tk labels rest
      | .ok (some (Pkm, lab)) =>
        match xOnly o Pkm with
        | .error e => .error e
        | .ok x => .ok (some (out, (x, (tk + lab) % o.n)))

/-- the `for k in range(K_MAX)` loop -/
def scanLoop (secret Bspend : α) (labels : List (Bytes × Int)) : Nat → Nat → List Bytes → R (List (Bytes × Int))
  | 0, _, _ => .ok []
  | fuel + 1, k, remaining =>
    match outputTweak o H secret k with
    | .error e => .error e
    | .ok tk =>
      match xOnly o (o.add Bspend (o.mul tk o.gen)) with
      | .error e => .error e
      | .ok xPk =>
        match findMatch o (o.add Bspend (o.mul tk o.gen)) xPk tk labels remaining with
        | .error e => .error e
        | .ok none => .ok []
        | .ok (some (out, found)) =>
          match scanLoop secret Bspend labels fuel (k + 1) (remaining.erase out) with
          | .error e => .error e
          | .ok rest => .ok (found :: rest)

/-- `scan_outputs` (the light client's entry point) -/
def scanOutputs (bScan : Int) (Bspend tweak : α) (outputs : List Bytes) (labels : List (Bytes × Int)) :
    R (List (Bytes × Int)) :=
  if !(scalarOk o bScan) then .error .value
  else if outputs.any (fun x => x.length ≠ scalarSize) then .error .value
  else scanLoop o H (o.mul bScan tweak) Bspend labels Gen.Interactive.SP_K_MAX 0 outputs

/-- `scan_transaction_outputs` (Python arm) -/
def scanTransactionOutputs (bScan : Int) (Bspend : α) (outpoints : List Bytes) (pubKeys : List α)
    (outputs : List Bytes) (labels : List (Bytes × Int)) : R (List (Bytes × Int)) :=
  match pubKeySum o pubKeys with
  | .error e => .error e
  | .ok A =>
    match lowestOutpoint outpoints with
    | .error e => .error e
    | .ok lowest =>
      match inputHash o H lowest A with
      | .error e => .error e
      | .ok h => scanOutputs o H bScan Bspend (o.mul h A) outputs labels

/-- `prv_key_from_tweak` -/
def prvKeyFromTweak (bSpend tweak : Int) : R Int :=
  if !(scalarOk o bSpend) then .error .value
  else if !(scalarOk o tweak) then .error .value
  else if (bSpend + tweak) % o.n = 0 then .error .value
  else .ok ((bSpend + tweak) % o.n)


/-! ## BIP375: the PSBT roles (`psbt/silent_payments.py`) derive the outputs from ECDH shares -/

/-- the per-input shares `aᵢ•B_scan` of the eligible inputs, as `set_input_share` writes them — a LIST:
two inputs locked to one key contribute two equal shares, and both count -/
def inputShares (keys : List (Int × Bool)) (Bscan : α) : List α :=
  keys.map fun k => o.mul (spInputKey o k.1 k.2) Bscan

/-- the scalar of `set_global_share`: the signer's keys summed modulo n -/
def globalScalar : List (Int × Bool) → Int → Int
  | [], t => t
  | k :: rest, t => globalScalar rest ((t + spInputKey o k.1 k.2) % o.n)

/-- `_share_and_sum`'s share for one scan key: the global one, else the sum of the per-input ones -/
def shareOf (useGlobal : Bool) (keys : List (Int × Bool)) (Bscan : α) : R α :=
  if useGlobal then
    (if globalScalar o keys 0 = 0 then .error .value else .ok (o.mul (globalScalar o keys 0) Bscan))
  else pubKeySum o (inputShares o keys Bscan)

/-- number of earlier outputs with the same scan key (`counters[scan_key]`) -/
def countScan (Bs : α) : List (α × α) → Nat
  | [] => 0
  | r :: rest => (if o.eq r.1 Bs then 1 else 0) + countScan Bs rest

/-- `output_scripts`: walk the outputs in index order, `k` counted per scan key -/
def psbtWalk (useGlobal : Bool) (keys : List (Int × Bool)) (h : Int) : List (α × α) → List (α × α) → R (List Bytes)
  | _, [] => .ok []
  | before, r :: rest =>
    match shareOf o useGlobal keys r.1 with
    | .error e => .error e
    | .ok share =>
      match outputKey o H (o.mul h share) r.2 (countScan o r.1 before) with
      | .error e => .error e
      | .ok x =>
        match psbtWalk useGlobal keys h (before ++ [r]) rest with
        | .error e => .error e
        | .ok xs => .ok (x :: xs)

/-- the sender's walk in ADDRESS order: recipient `i` gets `output_key(secret(B_scan_i), B_m_i, k_i)` with `k_i` the
number of earlier recipients with the same scan key — BIP352's own statement of the derivation -/
def senderWalk (ha : Int) : List (α × α) → List (α × α) → R (List Bytes)
  | _, [] => .ok []
  | before, r :: rest =>
    match outputKey o H (o.mul ha r.1) r.2 (countScan o r.1 before) with
    | .error e => .error e
    | .ok x =>
      match senderWalk ha (before ++ [r]) rest with
      | .error e => .error e
      | .ok xs => .ok (x :: xs)

/-- `output_keys` in specification form: the same answers as `outputKeys` (which mirrors btclib's group-then-reorder
computation), computed by one walk over the addresses.  BOTH forms are served by the driver and compared with the real
`output_keys` on the same op lines (`sp.output_keys`, `sp.output_keys_walk`); the end-to-end theorem is about this one. -/
def outputKeysWalk (keys : List (Int × Bool)) (outpoints : List Bytes) (recips : List (α × α)) : R (List Bytes) :=
  match prvKeySum o keys with
  | .error e => .error e
  | .ok a =>
    match lowestOutpoint outpoints with
    | .error e => .error e
    | .ok lowest =>
      match inputHash o H lowest (o.mul a o.gen) with
      | .error e => .error e
      | .ok h =>
        if recips.any (fun r => countScan o r.1 recips > Gen.Interactive.SP_K_MAX) then .error .value
        else if !(scalarOk o (h * a % o.n)) then .error .value
        else senderWalk o H (h * a % o.n) [] recips

/-- the taproot output keys the BIP375 roles write (`set_*_share` … `set_output_scripts`), in output order -/
def psbtOutputKeys (useGlobal : Bool) (keys : List (Int × Bool)) (outpoints : List Bytes)
    (recips : List (α × α)) : R (List Bytes) :=
  if keys.any (fun k => !(scalarOk o k.1)) then .error .value else
  match pubKeySum o (keys.map fun k => (if k.2 && !(evenY o (o.mul k.1 o.gen)) then o.neg (o.mul k.1 o.gen)
                                       else o.mul k.1 o.gen)) with
  | .error e => .error e
  | .ok A =>
    match lowestOutpoint outpoints with
    | .error e => .error e
    | .ok lowest =>
      match inputHash o H lowest A with
      | .error e => .error e
      | .ok h => psbtWalk o H useGlobal keys h [] recips

end
end Btc.C16
