import Model.C16.Musig2
/-
C16 — ECIES / BIE1 (btclib/ecc/ecies.py): `derive_keys`, `Envelope` (assert_valid, from_ciphertext,
serialize, parse), `encrypt`, `decrypt` at the level of the envelope octets (the base64 armor is a
codec, not modelled), over `o : GroupOps α`.  Parameters: `h512` (sha512), `mac key msg`
(HMAC-SHA256), and the caller's cipher `encF / decF key iv data`.
-/
namespace Btc.C16
open Btc Btc.Py

def eMagicSize : Nat := Gen.Interactive.ECIES_MAGIC_SIZE
def eEphSize : Nat := Gen.Interactive.ECIES_EPH_PUB_KEY_SIZE
def eMacSize : Nat := Gen.Interactive.ECIES_MAC_SIZE
def eBlockSize : Nat := Gen.Interactive.ECIES_BLOCK_SIZE

section
variable {α : Type} (o : GroupOps α) (h512 : Bytes → Bytes) (mac : Bytes → Bytes → Bytes)

/-- `derive_keys`: sha512 of the compressed shared point, cut 16 | 16 | 32 → (iv, key_e, key_m) -/
def eciesKeys (q : Int) (P : α) : Bytes × Bytes × Bytes :=
  let d := h512 (cbytes o (o.mul q P))
  (d.take 16, (d.drop 16).take 16, d.drop 32)

/-- `Envelope.assert_valid`; answers the ephemeral point -/
def envelopeCheck (magic eph ct tag : Bytes) : R α :=
  if magic.length ≠ eMagicSize then .error .value
  else if eph.length ≠ eEphSize then .error .value
  else
    match cpoint o eph with
    | .error _ => .error .value
    | .ok E =>
      if ct.length < eBlockSize then .error .value
      else if ct.length % eBlockSize ≠ 0 then .error .value
      else if tag.length ≠ eMacSize then .error .value
      else .ok E

/-- `encrypt` (ephemeral key given), answering the serialized envelope
`magic ‖ eph_pub_key ‖ ciphertext ‖ mac` -/
def eciesEncrypt (encF : Bytes → Bytes → Bytes → R Bytes) (msg : Bytes) (P : α) (q : Int) (magic : Bytes) :
    R Bytes :=
  if !(scalarOk o q) then .error .value else
  match encF (eciesKeys o h512 q P).2.1 (eciesKeys o h512 q P).1 msg with
  | .error e => .error e
  | .ok ct =>
    if ct.length ≤ msg.length then .error .value else
    match envelopeCheck o magic (cbytes o (o.mul q o.gen)) ct
        (mac (eciesKeys o h512 q P).2.2 (magic ++ (cbytes o (o.mul q o.gen) ++ ct))) with
    | .error e => .error e
    | .ok _ =>
      .ok (magic ++ (cbytes o (o.mul q o.gen) ++ (ct ++
        mac (eciesKeys o h512 q P).2.2 (magic ++ (cbytes o (o.mul q o.gen) ++ ct)))))

/-- `decrypt` on the envelope octets: parse at BIE1's fixed offsets, validate, MAC first, then the cipher -/
def eciesDecrypt (decF : Bytes → Bytes → Bytes → R Bytes) (data : Bytes) (d : Int) (magic : Bytes) : R Bytes :=
  if data.length < eMagicSize + eEphSize + eBlockSize + eMacSize then .error .value
  else if data.take eMagicSize ≠ magic then .error .value
  else
    let rest1 := data.drop eMagicSize
    let eph := rest1.take eEphSize
    let rest2 := rest1.drop eEphSize
    let ct := rest2.take (rest2.length - eMacSize)
    let tag := rest2.drop (rest2.length - eMacSize)
    match envelopeCheck o (data.take eMagicSize) eph ct tag with
    | .error e => .error e
    | .ok E =>
      if !(scalarOk o d) then .error .value
      else if tag ≠ mac (eciesKeys o h512 d E).2.2 (data.take eMagicSize ++ (eph ++ ct)) then .error .runtime
      else decF (eciesKeys o h512 d E).2.1 (eciesKeys o h512 d E).1 ct

end
end Btc.C16
