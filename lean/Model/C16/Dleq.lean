import Model.C16.Musig2
/-
C16 — ECDH (btclib/ecc/dh.py + btclib/kdf.py) and DLEQ proofs (btclib/ecc/dleq.py, BIP374),
over `o : GroupOps α`; hashes are parameters.
-/
namespace Btc.C16
open Btc Btc.Py

/-! ## key derivation functions (`kdf.py`), `hf` with digest size `hfSize` as parameters -/

/-- `_assert_valid_keying_data_size` -/
def keyingSizeOk (size maxSize : Int) : R Unit :=
  if size ≤ 0 then .error .value else if size > maxSize then .error .value else .ok ()

/-- blocks `hf(z ‖ counter ‖ shared_info)` for counter = c, c+1, … (`cnt` of them) -/
def x963Blocks (hf : Bytes → Bytes) (z info : Bytes) : Nat → Nat → Bytes
  | 0, _ => []
  | cnt + 1, c => hf (z ++ beBytes 4 c ++ info) ++ x963Blocks hf z info cnt (c + 1)

/-- `ansi_x9_63_kdf` -/
def ansiX963Kdf (hf : Bytes → Bytes) (hfSize : Nat) (z : Bytes) (size : Int) (sharedInfo : Option Bytes) : R Bytes :=
  match keyingSizeOk size ((hfSize : Int) * (2 ^ 32 - 1)) with
  | .error e => .error e
  | .ok () =>
    let nBlocks := (size.toNat + hfSize - 1) / hfSize
    .ok ((x963Blocks hf z (sharedInfo.getD []) nBlocks 1).take size.toNat)

/-- `hkdf_extract` (`mac key msg` = HMAC under `hf`) -/
def hkdfExtract (mac : Bytes → Bytes → Bytes) (ikm : Bytes) (salt : Option Bytes) : Bytes :=
  mac (salt.getD []) ikm

def hkdfBlocks (mac : Bytes → Bytes → Bytes) (prk context : Bytes) : Nat → Nat → Bytes → Bytes
  | 0, _, _ => []
  | cnt + 1, c, block =>
    let b := mac prk (block ++ context ++ [UInt8.ofNat c])
    b ++ hkdfBlocks mac prk context cnt (c + 1) b

/-- `hkdf_expand` -/
def hkdfExpand (mac : Bytes → Bytes → Bytes) (hfSize : Nat) (prk : Bytes) (size : Int) (info : Option Bytes) :
    R Bytes :=
  match keyingSizeOk size (255 * (hfSize : Int)) with
  | .error e => .error e
  | .ok () =>
    if prk.length < hfSize then .error .value else
    let nBlocks := (size.toNat + hfSize - 1) / hfSize
    .ok ((hkdfBlocks mac prk (info.getD []) nBlocks 1 []).take size.toNat)

/-- `hkdf` -/
def hkdf (mac : Bytes → Bytes → Bytes) (hfSize : Nat) (ikm : Bytes) (size : Int) (salt info : Option Bytes) :
    R Bytes :=
  hkdfExpand mac hfSize (hkdfExtract mac ikm salt) size info

section
variable {α : Type} (o : GroupOps α)

/-- `ec.p_size` -/
def pSize : Nat := (natBitLength o.p.toNat + 7) / 8

/-- `diffie_hellman` for ANY key derivation `kdf` applied to the x-coordinate of the shared point -/
def diffieHellman (kdf : Bytes → R Bytes) (dU : Int) (QV : α) : R Bytes :=
  let S := o.mul dU QV
  if o.isZero S then .error .runtime else kdf (beBytes (pSize o) (o.x S).toNat)

/-! ## DLEQ (BIP374) -/

variable (H : Bytes → Bytes → Bytes)

/-- `_challenge` (not reduced modulo n) -/
def dleqChallenge (A B C R1 R2 Gp : α) (m : Bytes) : Int :=
  fromBytesBE (H Gen.Interactive.DLEQ_CHALLENGE_TAG
    (cbytes o A ++ cbytes o B ++ cbytes o C ++ cbytes o Gp ++ cbytes o R1 ++ cbytes o R2 ++ m))

/-- `_msg_bytes` -/
def dleqMsg (msg : Option Bytes) : R Bytes :=
  match msg with
  | none => .ok []
  | some m => if m.length = Gen.Interactive.DLEQ_SCALAR_SIZE then .ok m else .error .value

/-- `assert_proof_as_valid` on points already validated by `point_from_pub_key` (non-zero) -/
def dleqVerify (A B C : α) (proof : Bytes) (Gp : α) (msg : Option Bytes) : R Unit :=
  match dleqMsg msg with
  | .error e => .error e
  | .ok m =>
    if proof.length ≠ Gen.Interactive.DLEQ_PROOF_SIZE then .error .value else
    let e := fromBytesBE (proof.take Gen.Interactive.DLEQ_SCALAR_SIZE)
    let s := fromBytesBE (proof.drop Gen.Interactive.DLEQ_SCALAR_SIZE)
    if s ≥ o.n then .error .value
    else if o.isZero (o.dmul s Gp (-e) A) then .error .value
    else if o.isZero (o.dmul s B (-e) C) then .error .value
    else if e ≠ dleqChallenge o H A B C (o.dmul s Gp (-e) A) (o.dmul s B (-e) C) Gp m then .error .value
    else .ok ()

/-- the nonce `k` of `generate_proof` -/
def dleqNonce (a : Int) (A C : α) (aux m : Bytes) : Int :=
  fromBytesBE (H Gen.Interactive.DLEQ_NONCE_TAG
    (xorBytes (sBytes a) (H Gen.Interactive.DLEQ_AUX_TAG aux) ++ cbytes o A ++ cbytes o C ++ m)) % o.n

/-- the proof bytes for nonce `k` -/
def dleqProofOf (a k : Int) (B Gp : α) (m : Bytes) : Bytes :=
  let e := dleqChallenge o H (o.mul a Gp) B (o.mul a B) (o.mul k Gp) (o.mul k B) Gp m
  sBytes e ++ sBytes ((k + e * a) % o.n)

/-- `generate_proof` (aux given) -/
def dleqGenerate (a : Int) (B : α) (aux : Bytes) (Gp : α) (msg : Option Bytes) : R Bytes :=
  if !(scalarOk o a) then .error .value else
  match dleqMsg msg with
  | .error e => .error e
  | .ok m =>
    if aux.length ≠ Gen.Interactive.DLEQ_SCALAR_SIZE then .error .value else
    let k := dleqNonce o H a (o.mul a Gp) (o.mul a B) aux m
    if k = 0 then .error .runtime else
    let proof := dleqProofOf o H a k B Gp m
    match dleqVerify o H (o.mul a Gp) B (o.mul a B) proof Gp msg with
    | .ok () => .ok proof
    | .error _ => .error .runtime

end
end Btc.C16
