import Model.Common.EC
/-
C16 — ElligatorSwift (btclib/ecc/ellswift.py): `_constants`, `_try_sqrt`, `_xswiftec_var`,
`_xswiftec_inv_var` on a curve `y² = x³ + b` over `p ≡ 3 (mod 4)` — integer arithmetic modulo `p`,
exactly as the code computes it (which square root `mod_sqrt_var` answers matters).
-/
namespace Btc.C16.Swift
open Btc Btc.EC

structure Params where
  p : Int
  b : Int
  /-- `mod_sqrt_var(-3 % p, p)` -/
  c : Int
  /-- `mod_inv_var(2, p)` -/
  inv2 : Int

/-- `_constants` -/
def params (p b : Int) : Option Params := do
  let c ← modSqrt34 ((-3) % p) p
  let i ← modInv 2 p
  pure ⟨p, b, c, i⟩

/-- `_is_x_coordinate_var` (Python arm): in range and `x³ + b` not a non-residue -/
def isX (P : Params) (x : Int) : Bool :=
  decide (0 ≤ x) && decide (x < P.p) && (modSqrt34 ((x ^ 3 + P.b) % P.p) P.p).isSome

/-- the three candidates of the forward map, in the order they are tried -/
def candidates (P : Params) (u t : Int) : Option (Int × Int × Int) := do
  let p := P.p
  let X := (u ^ 3 % p + P.b - t * t) * (← modInv (2 * t) p) % p
  let Y := (X + t) * (← modInv (P.c * u % p) p) % p
  let invY ← modInv Y p
  pure ((u + 4 * Y * Y) % p, (-X * invY - u) * P.inv2 % p, (X * invY - u) * P.inv2 % p)

/-- `_xswiftec_var` -/
def xswiftec (P : Params) (u t : Int) : Option Int :=
  let p := P.p
  let u := u % p
  let t := t % p
  let u := if u = 0 then 1 else u
  let t := if t = 0 then 1 else t
  let t := if (u ^ 3 % p + t * t + P.b) % p = 0 then 2 * t % p else t
  match candidates P u t with
  | none => none
  | some (x1, x2, x3) =>
    if isX P x1 then some x1 else if isX P x2 then some x2 else if isX P x3 then some x3 else none

/-- the last step of `_xswiftec_inv_var`: the four sign patterns of `case & 5` -/
def invT (P : Params) (u v w : Int) (case : Nat) : Int :=
  let p := P.p
  if case &&& 5 = 0 then -w * (u * ((1 - P.c) % p) % p * P.inv2 + v) % p
  else if case &&& 5 = 1 then w * (u * ((1 + P.c) % p) % p * P.inv2 + v) % p
  else if case &&& 5 = 4 then w * (u * ((1 - P.c) % p) % p * P.inv2 + v) % p
  else -w * (u * ((1 + P.c) % p) % p * P.inv2 + v) % p

/-- `return t or None`: the forward map reads `t = 0` as 1, so 0 is never answered as a preimage -/
def tOrNone (t : Int) : Option Int := if t = 0 then none else some t

/-- `_xswiftec_inv_var`: `some none` = the case has no preimage, `none` = the code raises -/
def xswiftecInv (P : Params) (x u : Int) (case : Nat) : Option (Option Int) :=
  let p := P.p
  let x := x % p
  let u := u % p
  if case &&& 2 = 0 then
    if isX P ((-x - u) % p) then some none else
    match modInv ((u * u + u * x + x * x) % p) p with
    | none => none
    | some i =>
      let s := -(u ^ 3 % p + P.b) * i % p
      match modSqrt34 s p with
      | none => some none
      | some w => some (tOrNone (invT P u x w case))
  else
    let s := (x - u) % p
    if s = 0 then some none else
    match modSqrt34 (-s * (4 * (u ^ 3 % p + P.b) + 3 * s * u % p * u) % p) p with
    | none => some none
    | some r =>
      if case &&& 1 = 1 ∧ r = 0 then some none else
      match modInv s p with
      | none => none
      | some si =>
        let v := (-u + r * si) * P.inv2 % p
        match modSqrt34 s p with
        | none => some none
        | some w => some (tOrNone (invT P u v w case))

end Btc.C16.Swift
