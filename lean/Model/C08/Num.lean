import Model.Common.Bytes
import Model.Common.Py
/-
Script numbers and booleans (DESIGN §3 C08, T1).

btclib side (mirrors `btclib/utils.py: encode_num, decode_num` and
`btclib/script/engine/script_op_codes.py: _to_num, _to_bool`), and Bitcoin Core's side
(`CScriptNum::serialize`, `CScriptNum::set_vch`, the minimal-encoding test of the `CScriptNum`
constructor, `CastToBool`) transcribed independently.  The theorems of `Props/C08.lean` relate the two.
-/
namespace Btc.Script

open Btc

/-! ## btclib -/

def MIN_SCRIPT_NUM : Int := -(2 ^ 63)
def MAX_SCRIPT_NUM : Int := 2 ^ 63 - 1

/-- `encode_num` past its range check: sign-magnitude, little endian, sign in the top bit of the last byte. -/
def encodeNumRaw (i : Int) : Bytes :=
  if i = 0 then []
  else
    let nBits := Py.natBitLength i.natAbs + 1
    let nBytes := (nBits + 7) / 8
    -- `abs(i) | ((i < 0) << (n_bytes * 8 - 1))`: the bit is clear in abs(i), so `|` is `+`
    let encoded := i.natAbs + (if i < 0 then 2 ^ (nBytes * 8 - 1) else 0)
    leBytes nBytes encoded

/-- `utils.encode_num`: refuses what is not an int64 (BTClibValueError). -/
def encodeNum (i : Int) : Except Py.PyErr Bytes :=
  if MIN_SCRIPT_NUM ≤ i ∧ i ≤ MAX_SCRIPT_NUM then .ok (encodeNumRaw i) else .error .value

/-- last byte of a byte string, 0 for the empty one -/
def lastByte : Bytes → UInt8
  | [] => 0
  | [x] => x
  | _ :: y :: r => lastByte (y :: r)

/-- `utils.decode_num`. -/
def decodeNum (data : Bytes) : Int :=
  if data.length = 0 then 0
  else
    let i := ofLE data
    if (lastByte data).toNat ≥ 0x80 then
      -- `mask = (2 ** (length * 8) - 1) >> 1; i &= mask; i *= -1`
      - ((i % 2 ^ (data.length * 8 - 1) : Nat) : Int)
    else (i : Int)

/-- `_to_num(element, flags, max_size)` with `minimaldata = MINIMALDATA in flags`. -/
def toNum (element : Bytes) (minimaldata : Bool) (maxSize : Nat) : Except Py.PyErr Int :=
  if element.length > maxSize then .error .value
  else
    let x := decodeNum element
    if minimaldata then
      -- `encode_num(x) != element`: `encode_num` itself refuses a value outside int64 (an element of 9 bytes or more)
      match encodeNum x with
      | .error e => .error e
      | .ok b => if b ≠ element then .error .value else .ok x
    else .ok x

/-- `_to_bool`: `next((True for x in element[:-1] if x != 0), bool(element and element[-1] not in {0, 0x80}))`. -/
def toBool : Bytes → Bool
  | [] => false
  | [x] => x ≠ 0 && x ≠ 0x80
  | x :: y :: r => if x ≠ 0 then true else toBool (y :: r)

/-! ## Bitcoin Core (script.h / interpreter.cpp), transcribed -/
namespace Core

/-- `CastToBool`: any non-zero byte makes it true, except a sole `0x80` in last position. -/
def castToBoolAux : Bytes → Bool
  | [] => false
  | x :: rest =>
    if x ≠ 0 then
      -- "Can be negative zero": `if (i == vch.size()-1 && vch[i] == 0x80) return false; return true;`
      if rest.isEmpty && x = 0x80 then false else true
    else castToBoolAux rest

def castToBool (vch : Bytes) : Bool := castToBoolAux vch

/-- the loop `while (absvalue) { result.push_back(absvalue & 0xff); absvalue >>= 8; }` -/
def magnitudeBytes (fuel n : Nat) : Bytes :=
  match fuel with
  | 0 => []
  | fuel + 1 => if n = 0 then [] else UInt8.ofNat (n % 256) :: magnitudeBytes fuel (n / 256)

/-- replace the last byte -/
def setLast : Bytes → UInt8 → Bytes
  | [], _ => []
  | [_], v => [v]
  | x :: y :: r, v => x :: setLast (y :: r) v

/-- `CScriptNum::serialize(const int64_t& value)`. -/
def scriptNumSerialize (value : Int) : Bytes :=
  if value = 0 then []
  else
    let neg := value < 0
    let result := magnitudeBytes value.natAbs value.natAbs
    if (lastByte result).toNat ≥ 0x80 then result ++ [if neg then 0x80 else 0]
    else if neg then setLast result (UInt8.ofNat ((lastByte result).toNat + 0x80))
    else result

/-- the minimal-encoding test of `CScriptNum(vch, fRequireMinimal, nMaxNumSize)`:
    non-minimal iff the last byte carries no magnitude bits (`(vch.back() & 0x7f) == 0`) and it is not
    needed as a sign byte (`vch.size() <= 1 || (vch[vch.size() - 2] & 0x80) == 0`). -/
def isMinimallyEncoded : Bytes → Bool
  | [] => true
  | [x] => x.toNat % 128 ≠ 0
  | [x, y] => if y.toNat % 128 = 0 then x.toNat ≥ 0x80 else true
  | _ :: y :: z :: r => isMinimallyEncoded (y :: z :: r)

/-- `CScriptNum::set_vch`. -/
def setVch (vch : Bytes) : Int :=
  if vch.isEmpty then 0
  else
    let result := ofLE vch
    if (lastByte vch).toNat ≥ 0x80 then
      - ((result - 0x80 * 256 ^ (vch.length - 1) : Nat) : Int)
    else (result : Int)

inductive NumErr | overflow | nonminimal
  deriving DecidableEq, Repr

/-- the `CScriptNum(vch, fRequireMinimal, nMaxNumSize)` constructor: `scriptnum_error` or the value. -/
def scriptNum (vch : Bytes) (requireMinimal : Bool) (maxNumSize : Nat := 4) : Except NumErr Int :=
  if vch.length > maxNumSize then .error .overflow
  else if requireMinimal && !isMinimallyEncoded vch then .error .nonminimal
  else .ok (setVch vch)

end Core
end Btc.Script
