import Model.C08.Core
import Generated.Script
/-
The btclib-SHAPED model of the legacy / segwit-v0 interpreter loop: `btclib/script/engine/script.py: _run_ops,
verify_script` and the op-code functions of `engine/script_op_codes.py`, mirrored as they are written:

* the loop reads the *byte stream* (`s.read(1)`, `read_push_data`), not a parsed script;
* `*VERIFY` op codes are EXPANDED: the op code function returns `[OP_X, OP_VERIFY]`, the loop re-serializes the two in
  front of the unread stream and winds `script_index` and `op_code_num` back by two;
* the stack-size check sits at the TOP of every iteration and once more after the loop;
* the condition stack carries a sentinel `True`;
* numbers go through `_to_num` (decode, re-encode, compare), booleans through `_to_bool`, results through `encode_num`;
* a pop from a short stack (IndexError) and every BTClibValueError are one refusal (`none`).

Dispatch is by op-code byte here; `Props/C08.lean: btclib_dispatch_is_the_name_table` proves that it is the
if-chain of `_run_ops` over the name table and the OPERATIONS keys regenerated from the source.
The signature op codes are in the model as the loop has them (pop order, `assert_nullfail`, `encode_num(int(result))`,
the CHECKMULTISIG bookkeeping with its two counts, the key/signature walk, `assert_nulldummy`, the `[OP_CHECKSIG,
OP_VERIFY]` / `[OP_CHECKMULTISIG, OP_VERIFY]` expansions, `codesep_offset = op_code_stops[script_index]`); the function
they all end in, `op_checksig` (one signature against one key: `fix_signature`, `check_pub_key`,
`calculate_script_code`, the signature hash and `dsa_verify`), is a PARAMETER of the model (`Ctx.opChecksig`).
`sharedChecksig` below is Core's sequence for one signature and one key over a `Core.Checker`; with it for
`opChecksig` both evaluators call the same checker (`Props/C08.lean: btclib_eval_refines_core_partial`).
-/
namespace Btc.Script.Btclib

open Btc Btc.Script

structure Ctx where
  flags : Nat
  segwit : Bool
  hashes : Core.Hashes
  txLockTime : Nat := 0
  txSequence : Nat := 0xFFFFFFFF
  txVersion : Nat := 1
  /-- `op_checksig(signature, signatures, pub_key, script_bytes, codesep_offset, prevout_value, tx, i, flags, segwit, …)`
      of engine/script.py, arguments in the order (script_bytes, signature, signatures, pub_key, codesep_offset);
      `none` = it raises.  A parameter: see the header. -/
  opChecksig : Bytes → Bytes → List Bytes → Bytes → Nat → Option Bool := fun _ _ _ _ _ => some false
  /-- the signature checker (signature hash + verification) behind `opChecksig`; the loop never reads it — it is here so
      that `Refine.coreCx` hands Core's side the same one (`opChecksig = sharedChecksig checker flags segwit`) -/
  checker : Core.Checker := ⟨fun _ _ _ _ => .ok false, fun _ _ _ _ => some .SCHNORR_SIG⟩
  /-- `script_bytes` and `op_code_stops`, the two arguments of `_run_ops` the loop only reads (set by `eval`) -/
  scriptBytes : Bytes := []
  opCodeStops : List Nat := []

def minimaldata (cx : Ctx) : Bool := Core.has cx.flags Core.FLAG_MINIMALDATA

/-- `_to_num(element, flags, max_size)`; a refusal is `none` -/
def num (cx : Ctx) (v : Bytes) (maxSize : Nat := Gen.Script.MAX_NUM_SIZE) : Option Int :=
  (toNum v (minimaldata cx) maxSize).toOption

def enc (i : Int) : Bytes := encodeNumRaw i

def true_ : Bytes := [1]
def false_ : Bytes := []
def boolBytes (b : Bool) : Bytes := if b then true_ else false_

/-- what an `OPERATIONS` entry does: mutate the two stacks, or hand back the op codes it stands for -/
inductive OpRes
  | done (stack alt : List Bytes)
  | expand (stack alt : List Bytes) (r : List Nat)

def un (cx : Ctx) (stack alt : List Bytes) (f : Int → Bytes) : Option OpRes :=
  match stack with
  | a :: r => (num cx a).map fun x => .done (f x :: r) alt
  | [] => none

def bin (cx : Ctx) (stack alt : List Bytes) (f : Int → Int → Bytes) : Option OpRes :=
  match stack with
  | b :: a :: r => do
    let y ← num cx b
    let x ← num cx a
    pure (.done (f x y :: r) alt)
  | _ => none

/-- `OPERATIONS[op](stack, altstack, flags)` (engine/script_op_codes.py), stacks top first -/
def operation (cx : Ctx) (code : Nat) (stack alt : List Bytes) : Option OpRes :=
  match code with
  | 0x76 => match stack with | a :: r => some (.done (a :: a :: r) alt) | _ => none                 -- op_dup
  | 0x6e => match stack with | b :: a :: r => some (.done (b :: a :: b :: a :: r) alt) | _ => none  -- op_2dup
  | 0x75 => match stack with | _ :: r => some (.done r alt) | _ => none                              -- op_drop
  | 0x6d => match stack with | _ :: _ :: r => some (.done r alt) | _ => none                         -- op_2drop
  | 0x7c => match stack with | b :: a :: r => some (.done (a :: b :: r) alt) | _ => none             -- op_swap
  | 0x4f => some (.done (enc (-1) :: stack) alt)                                                     -- op_1negate
  | 0x69 => match stack with | a :: r => if toBool a then some (.done r alt) else none | _ => none   -- op_verify
  | 0x87 => match stack with | a :: b :: r => some (.done (boolBytes (a == b) :: r) alt) | _ => none -- op_equal
  | 0x88 => some (.expand stack alt [0x87, 0x69])                                                    -- op_equalverify
  | 0xad => some (.expand stack alt [0xac, 0x69])                                                    -- op_checksigverify
  | 0xaf => some (.expand stack alt [0xae, 0x69])                                                    -- op_checkmultisigverify
  | 0x6a => none                                                                                     -- op_return
  | 0x82 => match stack with | a :: r => some (.done (enc (a.length : Nat) :: a :: r) alt) | _ => none -- op_size
  | 0xa6 => match stack with | a :: r => some (.done (cx.hashes.ripemd160 a :: r) alt) | _ => none
  | 0xa7 => match stack with | a :: r => some (.done (cx.hashes.sha1 a :: r) alt) | _ => none
  | 0xa8 => match stack with | a :: r => some (.done (cx.hashes.sha256 a :: r) alt) | _ => none
  | 0xa9 => match stack with | a :: r => some (.done (cx.hashes.ripemd160 (cx.hashes.sha256 a) :: r) alt) | _ => none
  | 0xaa => match stack with | a :: r => some (.done (cx.hashes.sha256 (cx.hashes.sha256 a) :: r) alt) | _ => none
  | 0x8b => un cx stack alt fun a => enc (a + 1)
  | 0x8c => un cx stack alt fun a => enc (a - 1)
  | 0x8f => un cx stack alt fun a => enc (-a)
  | 0x90 => un cx stack alt fun a => enc (a.natAbs : Nat)
  | 0x91 => un cx stack alt fun a => boolBytes (a == 0)
  | 0x92 => un cx stack alt fun a => if a == 0 then false_ else true_
  | 0x93 => bin cx stack alt fun a b => enc (a + b)
  | 0x94 => bin cx stack alt fun a b => enc (a - b)
  | 0x9a => bin cx stack alt fun a b => boolBytes (a != 0 && b != 0)
  | 0x9b => bin cx stack alt fun a b => boolBytes (a != 0 || b != 0)
  | 0x9c => bin cx stack alt fun a b => boolBytes (a == b)
  | 0x9d => some (.expand stack alt [0x9c, 0x69])                                                    -- op_numequalverify
  | 0x9e => bin cx stack alt fun a b => boolBytes (a != b)
  | 0x9f => bin cx stack alt fun a b => boolBytes (decide (a < b))
  | 0xa0 => bin cx stack alt fun a b => boolBytes (decide (a > b))
  | 0xa1 => bin cx stack alt fun a b => boolBytes (decide (a ≤ b))
  | 0xa2 => bin cx stack alt fun a b => boolBytes (decide (a ≥ b))
  | 0xa3 => bin cx stack alt fun a b => enc (min a b)
  | 0xa4 => bin cx stack alt fun a b => enc (max a b)
  | 0xa5 =>                                                                                           -- op_within
    match stack with
    | c :: b :: a :: r => do
      let mx ← num cx c
      let mn ← num cx b
      let x ← num cx a
      pure (.done (boolBytes (decide (mn ≤ x) && decide (x < mx)) :: r) alt)
    | _ => none
  | 0x6b => match stack with | a :: r => some (.done r (a :: alt)) | _ => none                       -- op_toaltstack
  | 0x6c => match alt with | a :: r => some (.done (a :: stack) r) | _ => none                       -- op_fromaltstack
  | 0x73 => match stack with | a :: r => some (.done (if toBool a then a :: a :: r else a :: r) alt) | _ => none
  | 0x74 => some (.done (enc (stack.length : Nat) :: stack) alt)                                     -- op_depth
  | 0x77 => match stack with | x :: _ :: r => some (.done (x :: r) alt) | _ => none                  -- op_nip
  | 0x78 => match stack with | b :: a :: r => some (.done (a :: b :: a :: r) alt) | _ => none        -- op_over
  | 0x79 =>                                                                                           -- op_pick
    match stack with
    | top :: r => do
      let n ← num cx top
      if n < 0 then none
      else match r[n.toNat]? with
        | some v => pure (.done (v :: r) alt)
        | none => none
    | _ => none
  | 0x7a =>                                                                                           -- op_roll
    match stack with
    | top :: r => do
      let n ← num cx top
      if n < 0 then none
      else if (r.length : Int) < n + 1 then none
      else if n == 0 then pure (.done r alt)
      else pure (.done (r.getD n.toNat [] :: Core.eraseAt r n.toNat) alt)
    | _ => none
  | 0x7b => match stack with | x3 :: x2 :: x1 :: r => some (.done (x1 :: x3 :: x2 :: r) alt) | _ => none
  | 0x7d => match stack with | x2 :: x1 :: r => some (.done (x2 :: x1 :: x2 :: r) alt) | _ => none
  | 0x6f => match stack with | c :: b :: a :: r => some (.done (c :: b :: a :: c :: b :: a :: r) alt) | _ => none
  | 0x70 => match stack with | x4 :: x3 :: x2 :: x1 :: r => some (.done (x2 :: x1 :: x4 :: x3 :: x2 :: x1 :: r) alt) | _ => none
  | 0x71 =>
    match stack with
    | x6 :: x5 :: x4 :: x3 :: x2 :: x1 :: r => some (.done (x2 :: x1 :: x6 :: x5 :: x4 :: x3 :: r) alt)
    | _ => none
  | 0x72 => match stack with | x4 :: x3 :: x2 :: x1 :: r => some (.done (x2 :: x1 :: x4 :: x3 :: r) alt) | _ => none
  | _ => none

/-- `op_checklocktimeverify(stack, tx, i, flags)`: the stack is only read -/
def cltv (cx : Ctx) (stack : List Bytes) : Option Unit :=
  if !Core.has cx.flags Core.FLAG_CHECKLOCKTIMEVERIFY then some ()
  else match stack with
    | [] => none
    | top :: _ => do
      let lockTime ← num cx top Gen.Script.MAX_LOCK_TIME_NUM_SIZE
      let txl : Int := cx.txLockTime
      if lockTime < 0 then none
      else if txl ≥ 500000000 ∧ 500000000 > lockTime then none
      else if lockTime ≥ 500000000 ∧ 500000000 > txl then none
      else if lockTime > txl then none
      else if cx.txSequence = 0xFFFFFFFF then none
      else some ()

/-- `x & (1 << k)` on a non-negative integer -/
def bit (x k : Nat) : Nat := (x / 2 ^ k % 2) * 2 ^ k

/-- `op_checksequenceverify(stack, tx, i, flags)` -/
def csv (cx : Ctx) (stack : List Bytes) : Option Unit :=
  if !Core.has cx.flags Core.FLAG_CHECKSEQUENCEVERIFY then some ()
  else match stack with
    | [] => none
    | top :: _ => do
      let sequence ← num cx top Gen.Script.MAX_LOCK_TIME_NUM_SIZE
      if sequence < 0 then none
      else
        let sq := sequence.toNat
        if bit sq 31 ≠ 0 then some ()
        else if cx.txVersion < 2 then none
        else if bit cx.txSequence 31 ≠ 0 then none
        else if bit sq 22 ≠ bit cx.txSequence 22 then none
        else if sq % 2 ^ 16 > cx.txSequence % 2 ^ 16 then none
        else some ()

/-- how `_run_ops` treats a byte that is not a push (the if-chain over the op code's name) -/
inductive Kind
  | checksig | checkmultisig | cltv | csv | digit (n : Nat) | codesep | opIf | opNotif | opElse | opEndif
  | nop | nopN | operation | unknown
  deriving DecidableEq, Repr

def kind (t : Nat) : Kind :=
  if t = 0xac then .checksig
  else if t = 0xae then .checkmultisig
  else if t = 0xb1 then .cltv
  else if t = 0xb2 then .csv
  else if t = 0 then .digit 0
  else if 0x51 ≤ t ∧ t ≤ 0x60 then .digit (t - 0x50)
  else if t = 0xab then .codesep
  else if t = 0x63 then .opIf
  else if t = 0x64 then .opNotif
  else if t = 0x67 then .opElse
  else if t = 0x68 then .opEndif
  else if t = 0x61 then .nop
  else if t = 0xb0 ∨ (0xb3 ≤ t ∧ t ≤ 0xb9) then .nopN
  else if t = 0x4f ∨ (0x69 ≤ t ∧ t ≤ 0x7d) ∨ t = 0x82 ∨ t = 0x87 ∨ t = 0x88 ∨ t = 0x8b ∨ t = 0x8c ∨ t = 0x8f ∨ t = 0x90
      ∨ t = 0x91 ∨ t = 0x92 ∨ t = 0x93 ∨ t = 0x94 ∨ (0x9a ≤ t ∧ t ≤ 0xaa) ∨ t = 0xad ∨ t = 0xaf then .operation
  else .unknown

structure St where
  stack : List Bytes
  alt : List Bytes := []
  /-- `condition_stack`, innermost first; the sentinel `True` is its last element -/
  cond : List Bool := [true]
  opCodeNum : Int := 0
  scriptIndex : Int := -1
  /-- the unread stream `s` -/
  s : Bytes
  /-- `codesep_offset` -/
  codesepOffset : Nat := 0

/-- `read_push_data`'s reading: (data, what is left of the stream) -/
def readPushData (t : Nat) (s : Bytes) : Option (Bytes × Bytes) :=
  if t < 76 then
    let data := s.take t
    if data.length ≠ t then none
    else if t > Gen.Script.N_MAX_SCRIPT_ELEMENT_SIZE then none
    else some (data, s.drop t)
  else
    let size := 2 ^ (t - 76)
    let lengthBytes := s.take size
    if lengthBytes.length ≠ size then none
    else
      let dataLength := ofLE lengthBytes
      let s := s.drop size
      let data := s.take dataLength
      if data.length ≠ dataLength then none
      else if dataLength > Gen.Script.N_MAX_SCRIPT_ELEMENT_SIZE then none
      else some (data, s.drop dataLength)

/-- `assert_minimal_push(data, op_code, flags, serialize)` past its flag test: true = accepted -/
def minimalPush (data : Bytes) (opCode : Nat) : Bool :=
  if (data.length == 1 && (getB0 data == 129 || (0 < getB0 data && getB0 data ≤ 16))) || data.length == 0 then false
  else ((pushData data).headD 0).toNat == opCode
where getB0 (d : Bytes) : Nat := (d.headD 0).toNat

inductive Next | more (st : St) | finished (st : St) | unsupported

/-- the `for pub_key_index in range(pub_key_num)` walk of OP_CHECKMULTISIG over the keys and signatures still to
    try, both in pop order: the signatures left unmatched, or `none` where `op_checksig` raises -/
def multisigWalk (cx : Ctx) (codesepOffset : Nat) (signatures : List Bytes) : List Bytes → List Bytes → Option (List Bytes)
  | [], sigs => some sigs
  | key :: keys, sigs =>
    match sigs with
    | [] => some []                                              -- signature_index == signature_num: break
    | sig :: rest =>
      if keys.length + 1 < rest.length + 1 then some (sig :: rest)   -- fewer keys left than signatures: break
      else
        match cx.opChecksig cx.scriptBytes sig signatures key codesepOffset with
        | none => none
        | some ok => multisigWalk cx codesepOffset signatures keys (if ok then rest else sig :: rest)

/-- the `elif op == "OP_CHECKMULTISIG":` arm of `_run_ops` from `pub_keys = [stack.pop() …]` on: the stack it leaves -/
def checkMultisigRest (cx : Ctx) (r1 : List Bytes) (pubKeyNum : Int) (codesepOffset : Nat) : Option (List Bytes) :=
  if r1.length < pubKeyNum.toNat then none                -- pub_keys = [stack.pop() for _ in range(pub_key_num)]
  else
    match r1.drop pubKeyNum.toNat with
    | [] => none
    | ns :: r2 =>
      match num cx ns with                                -- signature_num = _to_num(stack.pop(), …)
      | none => none
      | some sigNum =>
        if !(decide (0 ≤ sigNum) && decide (sigNum ≤ pubKeyNum)) then none   -- assert_signature_num
        else if r2.length < sigNum.toNat then none        -- signatures = [stack.pop() for _ in range(signature_num)]
        else
          let signatures := r2.take sigNum.toNat
          match r2.drop sigNum.toNat with
          | [] => none
          | dummy :: r3 =>
            if !dummy.isEmpty && Core.has cx.flags Core.FLAG_NULLDUMMY then none   -- assert_nulldummy
            else
              match multisigWalk cx codesepOffset signatures (r1.take pubKeyNum.toNat) signatures with
              | none => none
              | some left =>
                if left.isEmpty then some ([1] :: r3)
                -- assert_nullfail(flags, False, signatures, …)
                else if Core.has cx.flags Core.FLAG_NULLFAIL && signatures.any (fun s => !s.isEmpty) then none
                else some ([] :: r3)

/-- the `elif op == "OP_CHECKMULTISIG":` arm of `_run_ops` on (stack, op_code_num, codesep_offset): the stack and the
    op count it leaves -/
def checkMultisigOn (cx : Ctx) (stack : List Bytes) (opCodeNum : Int) (codesepOffset : Nat) : Option (List Bytes × Int) :=
  match stack with
  | [] => none
  | nk :: r1 =>
    match num cx nk with                                          -- pub_key_num = _to_num(stack.pop(), …)
    | none => none
    | some pubKeyNum =>
      if !(decide (0 ≤ pubKeyNum) && decide (pubKeyNum ≤ (Gen.Script.N_MAX_PUBKEYS_PER_MULTISIG : Int))) then none   -- assert_pub_key_num
      else
        match (Gen.Script.script_op_count opCodeNum pubKeyNum).toOption with    -- op_code_num = script_op_count(…)
        | none => none
        | some cnt => (checkMultisigRest cx r1 pubKeyNum codesepOffset).map fun s => (s, cnt)

def checkMultisig (cx : Ctx) (st : St) : Option Next :=
  (checkMultisigOn cx st.stack st.opCodeNum st.codesepOffset).map fun p => .more { st with stack := p.1, opCodeNum := p.2 }

/-- the `if op == "OP_CHECKSIG":` arm on (stack, codesep_offset): the stack it leaves -/
def checksigOn (cx : Ctx) (stack : List Bytes) (codesepOffset : Nat) : Option (List Bytes) :=
  match stack with
  | pubKey :: signature :: r =>
    match cx.opChecksig cx.scriptBytes signature [signature] pubKey codesepOffset with
    | none => none
    | some result =>
      -- assert_nullfail(flags, result, [signature], "OP_CHECKSIG")
      if Core.has cx.flags Core.FLAG_NULLFAIL && !result && !signature.isEmpty then none
      else some (enc (if result then 1 else 0) :: r)
  | _ => none

/-- the if-chain of `_run_ops` on an op code that is not a push and is evaluated (executing branch, or OP_IF..OP_ENDIF);
    `st` already has the byte consumed, the index advanced and the op counted -/
def dispatch (cx : Ctx) (t : Nat) (st : St) : Option Next :=
  match kind t with
  | .checksig => (checksigOn cx st.stack st.codesepOffset).map fun s => .more { st with stack := s }
  | .checkmultisig => checkMultisig cx st
  | .cltv => (cltv cx st.stack).map fun _ => .more st
  | .csv => (csv cx st.stack).map fun _ => .more st
  | .digit n => some (.more { st with stack := enc (n : Nat) :: st.stack })
  | .codesep =>
    -- codesep_offset = op_code_stops[script_index]
    match cx.opCodeStops[st.scriptIndex.toNat]? with
    | none => none
    | some off => some (.more { st with codesepOffset := off })
  | .opIf | .opNotif =>
    -- op_if / op_notif
    if !(st.cond.all id) then some (.more { st with cond := false :: st.cond })
    else
      match st.stack with
      | [] => none
      | top :: r =>
        if cx.segwit && Core.has cx.flags Core.FLAG_MINIMALIF && !(top == [] || top == [1]) then none
        else
          let c := toBool top
          some (.more { st with stack := r, cond := (if t = 0x64 then !c else c) :: st.cond })
  | .opElse =>
    match st.cond with
    | c :: c2 :: r => some (.more { st with cond := (!c) :: c2 :: r })
    | _ => none
  | .opEndif =>
    match st.cond with
    | _ :: c2 :: r => some (.more { st with cond := c2 :: r })
    | _ => none
  | .nop => some (.more st)
  | .nopN =>
    if Core.has cx.flags Core.FLAG_DISCOURAGE_UPGRADABLE_NOPS then none else some (.more st)
  | .operation =>
    match operation cx t st.stack st.alt with
    | none => none
    | some (.done s a) => some (.more { st with stack := s, alt := a })
    | some (.expand s a r) =>
      some (.more { st with stack := s, alt := a, scriptIndex := st.scriptIndex - r.length,
                            opCodeNum := st.opCodeNum - r.length,
                            s := r.map UInt8.ofNat ++ st.s })
  | .unknown => none

/-- one pass through the `while True:` of `_run_ops` -/
def iter (cx : Ctx) (st : St) : Option Next :=
  let st := { st with scriptIndex := st.scriptIndex + 1 }
  if st.stack.length + st.alt.length > Gen.Script.N_MAX_STACK_SIZE then none
  else
    let skip := !(st.cond.all id)
    match st.s with
    | [] => some (.finished st)
    | b :: rest =>
      let t := b.toNat
      if 0 < t ∧ t ≤ 78 then
        match readPushData t rest with
        | none => none
        | some (data, rest') =>
          if skip then some (.more { st with s := rest' })
          else if minimaldata cx && !minimalPush data t then none
          else some (.more { st with s := rest', stack := data :: st.stack })
      else
        let counted : Option Int :=
          if t > 96 then (Gen.Script.script_op_count st.opCodeNum 1).toOption else some st.opCodeNum
        match counted with
        | none => none
        | some cnt =>
          let st := { st with s := rest, opCodeNum := cnt }
          if Gen.Script.DISABLED_OP_CODES.contains t then none
          else if skip && !(Gen.Script.EVALUATED_WHEN_UNEXECUTED_LO ≤ t && t < Gen.Script.EVALUATED_WHEN_UNEXECUTED_HI) then
            some (.more st)
          else dispatch cx t st

inductive Out | ok (stack : List Bytes) | refused | unsupported
  deriving DecidableEq, Repr

def loop (cx : Ctx) : Nat → St → Out
  | 0, _ => .refused
  | fuel + 1, st =>
    match iter cx st with
    | none => .refused
    | some .unsupported => .unsupported
    | some (.finished st') =>
      -- after the loop: assert_stack_size (again), assert_balanced_if
      if st'.stack.length + st'.alt.length > Gen.Script.N_MAX_STACK_SIZE then .refused
      else if st'.cond.length ≠ 1 then .refused
      else .ok st'.stack
    | some (.more st') => loop cx fuel st'

/-- `verify_script(script_bytes, stack, …, flags, segwit, final=False)`: the final stack, top first -/
def eval (cx : Ctx) (script : Bytes) (stack : List Bytes) : Out :=
  if script.length > Gen.Script.N_MAX_SCRIPT_SIZE then .refused
  -- prepare_script: "OP_CODESEPARATOR" in parse(script) and CONST_SCRIPTCODE and not segwit
  else if (Script.parse script).1.any (fun o => o.code == 0xab) && Core.has cx.flags Core.FLAG_CONST_SCRIPTCODE && !cx.segwit then
    .refused
  else
    -- op_code_stops = [stop for _, _, stop in op_code_spans(script_bytes)] if "OP_CODESEPARATOR" in script else []
    let stops := if (Script.parse script).1.any (fun o => o.code == 0xab) then (opCodeSpans script).map (·.2.2) else []
    loop { cx with scriptBytes := script, opCodeStops := stops } (3 * script.length + 2) { stack := stack, s := script }

/-- Core's sequence for ONE signature against ONE key (`EvalChecksigPreTapscript` without its NULLFAIL tail, which is the
    inner body of OP_CHECKMULTISIG's loop too), with the signature of btclib's `op_checksig`: the script code is the
    script from `codesep_offset` with every element of `signatures` removed by FindAndDelete (legacy only;
    SIG_FINDANDDELETE under CONST_SCRIPTCODE), then `CheckSignatureEncoding`, `CheckPubKeyEncoding`, and the checker.
    With this for `Ctx.opChecksig` the btclib-shaped loop and Core's transcription call the same `checker`. -/
def sharedChecksig (checker : Core.Checker) (flags : Nat) (segwit : Bool)
    (scriptBytes signature : Bytes) (signatures : List Bytes) (pubKey : Bytes) (codesepOffset : Nat) : Option Bool :=
  let cx : Core.Ctx := { flags := flags, sigversion := if segwit then .WITNESS_V0 else .BASE, hashes := ⟨id, id, id⟩,
                         checker := checker, script := scriptBytes }
  let r : Core.R Bool := do
    let sc ← Core.multisigScriptCode cx signatures (scriptBytes.drop codesepOffset)
    Core.checkSignatureEncoding flags signature
    Core.checkPubKeyEncoding flags cx.sigversion pubKey
    checker.checkECDSA signature pubKey sc cx.sigversion
  match r with
  | .ok b => some b
  | .error _ => none

end Btc.Script.Btclib

namespace Btc.Script.Btclib

/-- `"OP_NOP" in op` -/
def containsSub (hay needle : List Char) : Bool :=
  match hay with
  | [] => needle.isEmpty
  | c :: r => needle.isPrefixOf (c :: r) || containsSub r needle

/-- `op[3:].isdigit()` -/
def digitsAfterOp (name : String) : Option Nat :=
  let d := name.toList.drop 3
  if d.isEmpty || !d.all Char.isDigit then none else some (d.foldl (fun acc c => acc * 10 + (c.toNat - 48)) 0)

/-- the if-chain of `_run_ops` over the op code's NAME, read off the regenerated tables
    (`script.OP_CODE_NAME_FROM_INT`, `engine.script.OPERATIONS`) -/
def kindFromTables (t : Nat) : Kind :=
  match Gen.Script.OP_NAMES.lookup t with
  | none => .unknown                       -- op_code_name raises
  | some op =>
    if op == "OP_CHECKSIG" then .checksig
    else if op == "OP_CHECKMULTISIG" then .checkmultisig
    else if op == "OP_CHECKLOCKTIMEVERIFY" then .cltv
    else if op == "OP_CHECKSEQUENCEVERIFY" then .csv
    else match digitsAfterOp op with
      | some n => .digit n
      | none =>
        if op == "OP_CODESEPARATOR" then .codesep
        else if op == "OP_IF" then .opIf
        else if op == "OP_NOTIF" then .opNotif
        else if op == "OP_ELSE" then .opElse
        else if op == "OP_ENDIF" then .opEndif
        else if op == "OP_NOP" then .nop
        else if containsSub op.toList "OP_NOP".toList then .nopN
        else if Gen.Script.LEGACY_OPERATIONS.contains op then .operation
        else .unknown                      -- unknown_op_code


/-- what the arm `op == "<name>"` of `_run_ops` is in this model -/
def armOf (name : String) : Kind :=
  if name == "OP_CHECKSIG" then .checksig
  else if name == "OP_CHECKMULTISIG" then .checkmultisig
  else if name == "OP_CHECKLOCKTIMEVERIFY" then .cltv
  else if name == "OP_CHECKSEQUENCEVERIFY" then .csv
  else if name == "OP_CODESEPARATOR" then .codesep
  else if name == "OP_IF" then .opIf
  else if name == "OP_NOTIF" then .opNotif
  else if name == "OP_ELSE" then .opElse
  else if name == "OP_ENDIF" then .opEndif
  else if name == "OP_NOP" then .nop
  else .unknown

/-- `op[k:].isdigit()` -/
def digitsAfter (k : Nat) (name : String) : Option Nat :=
  let d := name.toList.drop k
  if d.isEmpty || !d.all Char.isDigit then none else some (d.foldl (fun acc c => acc * 10 + (c.toNat - 48)) 0)

/-- the if/elif chain REGENERATED from the AST of `_run_ops` (`Gen.Script.LEGACY_DISPATCH`: tests in source order),
    interpreted on an op code's name with Python's meaning of the tests; `ops` are the OPERATIONS keys -/
def chainKind (ops : List String) : List (String × String) → String → Kind
  | [], _ => .unknown
  | (test, lit) :: rest, op =>
    if test == "eq" then (if op == lit then armOf lit else chainKind ops rest op)
    else if test == "digits" then
      (match digitsAfter (lit.toList.foldl (fun acc c => acc * 10 + (c.toNat - 48)) 0) op with
       | some n => .digit n
       | none => chainKind ops rest op)
    else if test == "contains" then
      (if containsSub op.toList lit.toList then (if lit == "OP_NOP" then .nopN else .unknown) else chainKind ops rest op)
    else if test == "in" then
      (if lit == "OPERATIONS" && ops.contains op then .operation else chainKind ops rest op)
    else .unknown   -- the final `else: unknown_op_code(op)`

def kindFromChain (t : Nat) : Kind :=
  match Gen.Script.OP_NAMES.lookup t with
  | none => .unknown                       -- op_code_name raises
  | some op => chainKind Gen.Script.LEGACY_OPERATIONS Gen.Script.LEGACY_DISPATCH op

end Btc.Script.Btclib
