import Model.Common.Bytes
/-
Byte-level script parsing (DESIGN §3 C08, T2).

`getOp` is Bitcoin Core's `CScript::GetOp` / `GetScriptOp` on the unread suffix of a script;
`readOpCode` / `opCodeSpans` mirror `btclib/script/script.py: read_op_code, op_code_spans`
(offset based, Python slice semantics).  `Props/C08.lean` proves that they read the same spans.
-/
namespace Btc.Script

open Btc

/-- one instruction as read from the bytes -/
structure Op where
  /-- the op code byte -/
  code : Nat
  /-- the data of a push (empty for every other op code) -/
  data : Bytes
  /-- the bytes the instruction occupies: op code, length prefix, data -/
  raw : Bytes
  deriving DecidableEq, Repr

/-- Core's `GetScriptOp`: one instruction off the front, or `none` at the end of the script and where a
    push runs past it. -/
def getOp : Bytes → Option (Op × Bytes)
  | [] => none
  | c :: rest =>
    let n := c.toNat
    if n = 0 ∨ n > 78 then some (⟨n, [], [c]⟩, rest)
    else if n < 76 then
      if rest.length < n then none
      else some (⟨n, rest.take n, c :: rest.take n⟩, rest.drop n)
    else
      let w := 2 ^ (n - 76)
      if rest.length < w then none
      else
        let len := ofLE (rest.take w)
        let rest2 := rest.drop w
        if rest2.length < len then none
        else some (⟨n, rest2.take len, c :: (rest.take w ++ rest2.take len)⟩, rest2.drop len)

/-- read instructions until `getOp` refuses; returns them with the unread tail -/
def parseOps : Nat → Bytes → List Op × Bytes
  | 0, s => ([], s)
  | fuel + 1, s =>
    match getOp s with
    | none => ([], s)
    | some (op, rest) =>
      let r := parseOps fuel rest
      (op :: r.1, r.2)

/-- the whole walk: every instruction costs at least one byte, so `s.length` is fuel enough -/
def parse (s : Bytes) : List Op × Bytes := parseOps s.length s

/-- write instructions back -/
def serializeOps (ops : List Op) : Bytes := ops.flatMap (·.raw)

/-! ### btclib's offset-based reader -/

/-- `script.read_op_code(script, start)`: (op code, offset one past it and its data) -/
def readOpCode (script : Bytes) (start : Nat) : Option (Nat × Nat) :=
  if start ≥ script.length then none
  else
    let opCode := (script.getD start 0).toNat
    let stop := start + 1
    if 0 < opCode ∧ opCode ≤ 78 then
      if opCode > 75 then
        let size := 2 ^ (opCode - 76)
        if stop + size > script.length then none
        else
          let dataLength := ofLE ((script.drop stop).take size)
          let stop := stop + size + dataLength
          if stop > script.length then none else some (opCode, stop)
      else
        let stop := stop + opCode
        if stop > script.length then none else some (opCode, stop)
    else some (opCode, stop)

/-- `script.op_code_spans(script)`: (op code, first byte, one past last) -/
def opCodeSpansFrom : Nat → Bytes → Nat → List (Nat × Nat × Nat)
  | 0, _, _ => []
  | fuel + 1, script, start =>
    match readOpCode script start with
    | none => []
    | some (op, stop) => (op, start, stop) :: opCodeSpansFrom fuel script stop

def opCodeSpans (script : Bytes) : List (Nat × Nat × Nat) := opCodeSpansFrom script.length script 0

/-- `CScript() << data`: the push of a byte vector (`script._serialize_bytes_command`) -/
def pushData (d : Bytes) : Bytes :=
  if d.length < 76 then UInt8.ofNat d.length :: d
  else if d.length < 256 then 76 :: UInt8.ofNat d.length :: d
  else if d.length < 65536 then 77 :: (leBytes 2 d.length ++ d)
  else 78 :: (leBytes 4 d.length ++ d)

end Btc.Script
