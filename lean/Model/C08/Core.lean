import Model.C08.Num
import Model.C08.Parse
/-
`Core.eval`: a transcription of Bitcoin Core's `EvalScript` (src/script/interpreter.cpp) — the
specification C08 measures btclib's engine against (DESIGN §3 C08).

* hashes are parameters (`Hashes`), signature checks are an oracle (`Checker`);
* limits, flag bits and the disabled set are Core's own (script.h / interpreter.h), written out below;
  `Props/C08.lean` proves that the constants *generated* from btclib's source (`Gen.Script.*`) equal
  them, so a change of one of them in btclib breaks a proof obligation;
* the loop is `GetOp`-interleaved in Core; here the script is split into instructions first
  (`Script.parse`) and the unreadable tail is reported as `BAD_OPCODE` after the readable instructions
  ran, which is the same first error.
-/
namespace Btc.Script.Core

open Btc Btc.Script

/-- `ScriptError` of script_error.h -/
inductive ScriptError
  | UNKNOWN_ERROR | SCRIPTNUM | EVAL_FALSE | OP_RETURN
  | SCRIPT_SIZE | PUSH_SIZE | OP_COUNT | STACK_SIZE | SIG_COUNT | PUBKEY_COUNT
  | VERIFY | EQUALVERIFY | CHECKMULTISIGVERIFY | CHECKSIGVERIFY | NUMEQUALVERIFY
  | BAD_OPCODE | DISABLED_OPCODE | INVALID_STACK_OPERATION | INVALID_ALTSTACK_OPERATION
  | UNBALANCED_CONDITIONAL
  | NEGATIVE_LOCKTIME | UNSATISFIED_LOCKTIME
  | SIG_HASHTYPE | SIG_DER | MINIMALDATA | SIG_PUSHONLY | SIG_HIGH_S | SIG_NULLDUMMY | PUBKEYTYPE
  | CLEANSTACK | MINIMALIF | SIG_NULLFAIL
  | DISCOURAGE_UPGRADABLE_NOPS | DISCOURAGE_UPGRADABLE_WITNESS_PROGRAM
  | DISCOURAGE_UPGRADABLE_TAPROOT_VERSION | DISCOURAGE_OP_SUCCESS | DISCOURAGE_UPGRADABLE_PUBKEYTYPE
  | WITNESS_PROGRAM_WRONG_LENGTH | WITNESS_PROGRAM_WITNESS_EMPTY | WITNESS_PROGRAM_MISMATCH
  | WITNESS_MALLEATED | WITNESS_MALLEATED_P2SH | WITNESS_UNEXPECTED | WITNESS_PUBKEYTYPE
  | SCHNORR_SIG_SIZE | SCHNORR_SIG_HASHTYPE | SCHNORR_SIG
  | TAPROOT_WRONG_CONTROL_SIZE | TAPSCRIPT_VALIDATION_WEIGHT | TAPSCRIPT_CHECKMULTISIG
  | TAPSCRIPT_MINIMALIF | TAPSCRIPT_EMPTY_PUBKEY
  | OP_CODESEPARATOR | SIG_FINDANDDELETE
  /-- not one of Core's: the signature oracle has no answer for this query (driver artefact; no theorem
      distinguishes it from any other refusal) -/
  | NEED_ORACLE (query : String)
  deriving DecidableEq, Repr, Inhabited

inductive SigVersion | BASE | WITNESS_V0 | TAPROOT | TAPSCRIPT
  deriving DecidableEq, Repr, Inhabited


/-! ### script.h / interpreter.h constants -/
def MAX_SCRIPT_ELEMENT_SIZE : Nat := 520
def MAX_OPS_PER_SCRIPT : Nat := 201
def MAX_PUBKEYS_PER_MULTISIG : Nat := 20
def MAX_SCRIPT_SIZE : Nat := 10000
def MAX_STACK_SIZE : Nat := 1000
def DEFAULT_MAX_NUM_SIZE : Nat := 4
def LOCKTIME_MAX_NUM_SIZE : Nat := 5
def VALIDATION_WEIGHT_OFFSET : Nat := 50
def VALIDATION_WEIGHT_PER_SIGOP_PASSED : Int := 50

/-- `SCRIPT_VERIFY_*` bit values (interpreter.h) -/
def FLAG_P2SH : Nat := 2 ^ 0
def FLAG_STRICTENC : Nat := 2 ^ 1
def FLAG_DERSIG : Nat := 2 ^ 2
def FLAG_LOW_S : Nat := 2 ^ 3
def FLAG_NULLDUMMY : Nat := 2 ^ 4
def FLAG_SIGPUSHONLY : Nat := 2 ^ 5
def FLAG_MINIMALDATA : Nat := 2 ^ 6
def FLAG_DISCOURAGE_UPGRADABLE_NOPS : Nat := 2 ^ 7
def FLAG_CLEANSTACK : Nat := 2 ^ 8
def FLAG_CHECKLOCKTIMEVERIFY : Nat := 2 ^ 9
def FLAG_CHECKSEQUENCEVERIFY : Nat := 2 ^ 10
def FLAG_WITNESS : Nat := 2 ^ 11
def FLAG_DISCOURAGE_UPGRADABLE_WITNESS_PROGRAM : Nat := 2 ^ 12
def FLAG_MINIMALIF : Nat := 2 ^ 13
def FLAG_NULLFAIL : Nat := 2 ^ 14
def FLAG_WITNESS_PUBKEYTYPE : Nat := 2 ^ 15
def FLAG_CONST_SCRIPTCODE : Nat := 2 ^ 16
def FLAG_TAPROOT : Nat := 2 ^ 17
def FLAG_DISCOURAGE_UPGRADABLE_TAPROOT_VERSION : Nat := 2 ^ 18
def FLAG_DISCOURAGE_OP_SUCCESS : Nat := 2 ^ 19
def FLAG_DISCOURAGE_UPGRADABLE_PUBKEYTYPE : Nat := 2 ^ 20

/-- name → bit, for the drivers -/
def FLAG_NAMES : List (String × Nat) := [
  ("P2SH", FLAG_P2SH), ("STRICTENC", FLAG_STRICTENC), ("DERSIG", FLAG_DERSIG), ("LOW_S", FLAG_LOW_S),
  ("NULLDUMMY", FLAG_NULLDUMMY), ("SIGPUSHONLY", FLAG_SIGPUSHONLY), ("MINIMALDATA", FLAG_MINIMALDATA),
  ("DISCOURAGE_UPGRADABLE_NOPS", FLAG_DISCOURAGE_UPGRADABLE_NOPS), ("CLEANSTACK", FLAG_CLEANSTACK),
  ("CHECKLOCKTIMEVERIFY", FLAG_CHECKLOCKTIMEVERIFY), ("CHECKSEQUENCEVERIFY", FLAG_CHECKSEQUENCEVERIFY),
  ("WITNESS", FLAG_WITNESS), ("DISCOURAGE_UPGRADABLE_WITNESS_PROGRAM", FLAG_DISCOURAGE_UPGRADABLE_WITNESS_PROGRAM),
  ("MINIMALIF", FLAG_MINIMALIF), ("NULLFAIL", FLAG_NULLFAIL), ("WITNESS_PUBKEYTYPE", FLAG_WITNESS_PUBKEYTYPE),
  ("CONST_SCRIPTCODE", FLAG_CONST_SCRIPTCODE), ("TAPROOT", FLAG_TAPROOT),
  ("DISCOURAGE_UPGRADABLE_TAPROOT_VERSION", FLAG_DISCOURAGE_UPGRADABLE_TAPROOT_VERSION),
  ("DISCOURAGE_OP_SUCCESS", FLAG_DISCOURAGE_OP_SUCCESS),
  ("DISCOURAGE_UPGRADABLE_PUBKEYTYPE", FLAG_DISCOURAGE_UPGRADABLE_PUBKEYTYPE)]

/-- the op codes disabled for CVE-2010-5137: OP_CAT, OP_SUBSTR, OP_LEFT, OP_RIGHT, OP_INVERT, OP_AND, OP_OR,
    OP_XOR, OP_2MUL, OP_2DIV, OP_MUL, OP_DIV, OP_MOD, OP_LSHIFT, OP_RSHIFT -/
def DISABLED : List Nat :=
  [0x7e, 0x7f, 0x80, 0x81, 0x83, 0x84, 0x85, 0x86, 0x8d, 0x8e, 0x95, 0x96, 0x97, 0x98, 0x99]

/-- `enum opcodetype` of script.h, in its order: every named op code -/
def OPCODES : List (Nat × String) := [
  (0x00, "OP_0"), (0x4c, "OP_PUSHDATA1"), (0x4d, "OP_PUSHDATA2"), (0x4e, "OP_PUSHDATA4"),
  (0x4f, "OP_1NEGATE"), (0x50, "OP_RESERVED"), (0x51, "OP_1"), (0x52, "OP_2"),
  (0x53, "OP_3"), (0x54, "OP_4"), (0x55, "OP_5"), (0x56, "OP_6"),
  (0x57, "OP_7"), (0x58, "OP_8"), (0x59, "OP_9"), (0x5a, "OP_10"),
  (0x5b, "OP_11"), (0x5c, "OP_12"), (0x5d, "OP_13"), (0x5e, "OP_14"),
  (0x5f, "OP_15"), (0x60, "OP_16"), (0x61, "OP_NOP"), (0x62, "OP_VER"),
  (0x63, "OP_IF"), (0x64, "OP_NOTIF"), (0x65, "OP_VERIF"), (0x66, "OP_VERNOTIF"),
  (0x67, "OP_ELSE"), (0x68, "OP_ENDIF"), (0x69, "OP_VERIFY"), (0x6a, "OP_RETURN"),
  (0x6b, "OP_TOALTSTACK"), (0x6c, "OP_FROMALTSTACK"), (0x6d, "OP_2DROP"), (0x6e, "OP_2DUP"),
  (0x6f, "OP_3DUP"), (0x70, "OP_2OVER"), (0x71, "OP_2ROT"), (0x72, "OP_2SWAP"),
  (0x73, "OP_IFDUP"), (0x74, "OP_DEPTH"), (0x75, "OP_DROP"), (0x76, "OP_DUP"),
  (0x77, "OP_NIP"), (0x78, "OP_OVER"), (0x79, "OP_PICK"), (0x7a, "OP_ROLL"),
  (0x7b, "OP_ROT"), (0x7c, "OP_SWAP"), (0x7d, "OP_TUCK"), (0x7e, "OP_CAT"),
  (0x7f, "OP_SUBSTR"), (0x80, "OP_LEFT"), (0x81, "OP_RIGHT"), (0x82, "OP_SIZE"),
  (0x83, "OP_INVERT"), (0x84, "OP_AND"), (0x85, "OP_OR"), (0x86, "OP_XOR"),
  (0x87, "OP_EQUAL"), (0x88, "OP_EQUALVERIFY"), (0x89, "OP_RESERVED1"), (0x8a, "OP_RESERVED2"),
  (0x8b, "OP_1ADD"), (0x8c, "OP_1SUB"), (0x8d, "OP_2MUL"), (0x8e, "OP_2DIV"),
  (0x8f, "OP_NEGATE"), (0x90, "OP_ABS"), (0x91, "OP_NOT"), (0x92, "OP_0NOTEQUAL"),
  (0x93, "OP_ADD"), (0x94, "OP_SUB"), (0x95, "OP_MUL"), (0x96, "OP_DIV"),
  (0x97, "OP_MOD"), (0x98, "OP_LSHIFT"), (0x99, "OP_RSHIFT"), (0x9a, "OP_BOOLAND"),
  (0x9b, "OP_BOOLOR"), (0x9c, "OP_NUMEQUAL"), (0x9d, "OP_NUMEQUALVERIFY"), (0x9e, "OP_NUMNOTEQUAL"),
  (0x9f, "OP_LESSTHAN"), (0xa0, "OP_GREATERTHAN"), (0xa1, "OP_LESSTHANOREQUAL"), (0xa2, "OP_GREATERTHANOREQUAL"),
  (0xa3, "OP_MIN"), (0xa4, "OP_MAX"), (0xa5, "OP_WITHIN"), (0xa6, "OP_RIPEMD160"),
  (0xa7, "OP_SHA1"), (0xa8, "OP_SHA256"), (0xa9, "OP_HASH160"), (0xaa, "OP_HASH256"),
  (0xab, "OP_CODESEPARATOR"), (0xac, "OP_CHECKSIG"), (0xad, "OP_CHECKSIGVERIFY"), (0xae, "OP_CHECKMULTISIG"),
  (0xaf, "OP_CHECKMULTISIGVERIFY"), (0xb0, "OP_NOP1"), (0xb1, "OP_CHECKLOCKTIMEVERIFY"), (0xb2, "OP_CHECKSEQUENCEVERIFY"),
  (0xb3, "OP_NOP4"), (0xb4, "OP_NOP5"), (0xb5, "OP_NOP6"), (0xb6, "OP_NOP7"),
  (0xb7, "OP_NOP8"), (0xb8, "OP_NOP9"), (0xb9, "OP_NOP10"), (0xba, "OP_CHECKSIGADD")]

/-- flag test on the bit mask -/
def has (flags bit : Nat) : Bool := (flags / bit) % 2 == 1

structure Hashes where
  sha256 : Bytes → Bytes
  ripemd160 : Bytes → Bytes
  sha1 : Bytes → Bytes

/-- `BaseSignatureChecker`: the two signature oracles -/
structure Checker where
  /-- `CheckECDSASignature(vchSig, vchPubKey, scriptCode, sigversion)` -/
  checkECDSA : Bytes → Bytes → Bytes → SigVersion → Except ScriptError Bool
  /-- `CheckSchnorrSignature(sig, pubkey, sigversion, execdata)`: `none` is success; the execdata the
      script can influence is the position of the last executed OP_CODESEPARATOR -/
  checkSchnorr : Bytes → Bytes → SigVersion → Nat → Option ScriptError

structure Ctx where
  flags : Nat
  sigversion : SigVersion
  hashes : Hashes
  checker : Checker
  /-- the script under evaluation (script codes are slices of it) -/
  script : Bytes
  txLockTime : Nat := 0
  txSequence : Nat := 0xFFFFFFFF
  txVersion : Nat := 1

/-- what a non-conditional op code can change -/
structure Machine where
  /-- main stack, top first -/
  stack : List Bytes
  /-- alt stack, top first -/
  alt : List Bytes := []
  /-- `nOpCount` -/
  opCount : Nat := 0
  /-- `pbegincodehash` as an offset into the script -/
  codeStart : Nat := 0
  /-- `execdata.m_codeseparator_pos` -/
  codesepPos : Nat := 0xFFFFFFFF
  /-- `execdata.m_validation_weight_left` -/
  weightLeft : Int := 0
  deriving DecidableEq, Repr

structure State where
  m : Machine
  /-- `vfExec`, innermost first -/
  vfExec : List Bool := []
  /-- `pc` as an offset into the script (one past the instruction being executed) -/
  pos : Nat := 0
  /-- `opcode_pos` -/
  opcodePos : Nat := 0
  deriving DecidableEq, Repr

abbrev R := Except ScriptError

def vchFalse : Bytes := []
def vchTrue : Bytes := [1]
def ofBool (b : Bool) : Bytes := if b then vchTrue else vchFalse

/-- `CScriptNum(stacktop, fRequireMinimal, nMaxNumSize)`; a `scriptnum_error` is caught by
    `EvalScript`: `SCRIPT_ERR_SCRIPTNUM` (`SCRIPT_ERR_UNKNOWN_ERROR` before Core 28) -/
def num (cx : Ctx) (v : Bytes) (maxSize : Nat := DEFAULT_MAX_NUM_SIZE) : R Int :=
  match scriptNum v (has cx.flags FLAG_MINIMALDATA) maxSize with
  | .ok x => .ok x
  | .error _ => .error .SCRIPTNUM

def numBytes (i : Int) : Bytes := scriptNumSerialize i

/-- `CheckMinimalPush(data, opcode)` -/
def checkMinimalPush (data : Bytes) (opcode : Nat) : Bool :=
  match data with
  | [] => opcode == 0
  | [b] =>
    if 1 ≤ b.toNat ∧ b.toNat ≤ 16 then false
    else if b.toNat = 0x81 then false
    else opcode == 1
  | _ =>
    if data.length ≤ 75 then opcode == data.length
    else if data.length ≤ 255 then opcode == 76
    else if data.length ≤ 65535 then opcode == 77
    else true

/-! ### signature / public key encodings -/

def getB (s : Bytes) (i : Nat) : Nat := (s.getD i 0).toNat

/-- `IsValidSignatureEncoding` (BIP66) -/
def isValidSignatureEncoding (sig : Bytes) : Bool :=
  let n := sig.length
  if n < 9 then false else if n > 73 then false
  else if getB sig 0 ≠ 0x30 then false
  else if getB sig 1 ≠ n - 3 then false
  else
    let lenR := getB sig 3
    if 5 + lenR ≥ n then false
    else
      let lenS := getB sig (5 + lenR)
      if lenR + lenS + 7 ≠ n then false
      else if getB sig 2 ≠ 0x02 then false
      else if lenR = 0 then false
      else if getB sig 4 ≥ 0x80 then false
      else if lenR > 1 ∧ getB sig 4 = 0 ∧ getB sig 5 < 0x80 then false
      else if getB sig (lenR + 4) ≠ 0x02 then false
      else if lenS = 0 then false
      else if getB sig (lenR + 6) ≥ 0x80 then false
      else if lenS > 1 ∧ getB sig (lenR + 6) = 0 ∧ getB sig (lenR + 7) < 0x80 then false
      else true

/-- order of secp256k1 -/
def curveN : Nat := 0xFFFFFFFFFFFFFFFFFFFFFFFFFFFFFFFEBAAEDCE6AF48A03BBFD25E8CD0364141

/-- `CPubKey::CheckLowS` on a signature that passed `IsValidSignatureEncoding`: the lax parser turns an
    overflowing S into 0, which is low -/
def checkLowS (sig : Bytes) : Bool :=
  let lenR := getB sig 3
  let lenS := getB sig (5 + lenR)
  let s := ofBE ((sig.drop (6 + lenR)).take lenS)
  let r := ofBE ((sig.drop 4).take lenR)
  -- secp256k1_ecdsa_signature_parse_der_lax: overflow of either integer zeroes the whole signature
  if s ≥ curveN ∨ r ≥ curveN then true else s ≤ curveN / 2

/-- `IsDefinedHashtypeSignature` -/
def isDefinedHashtype (sig : Bytes) : Bool :=
  if sig.isEmpty then false
  else
    let ht := (lastByte sig).toNat % 128   -- `& ~SIGHASH_ANYONECANPAY`
    1 ≤ ht ∧ ht ≤ 3

/-- `CheckSignatureEncoding` -/
def checkSignatureEncoding (flags : Nat) (sig : Bytes) : R Unit :=
  if sig.isEmpty then .ok ()
  else if (has flags FLAG_DERSIG || has flags FLAG_LOW_S || has flags FLAG_STRICTENC)
      && !isValidSignatureEncoding sig then .error .SIG_DER
  else if has flags FLAG_LOW_S && !checkLowS sig then .error .SIG_HIGH_S
  else if has flags FLAG_STRICTENC && !isDefinedHashtype sig then .error .SIG_HASHTYPE
  else .ok ()

def isCompressedOrUncompressedPubKey (k : Bytes) : Bool :=
  if k.length < 33 then false
  else if getB k 0 = 4 then k.length == 65
  else if getB k 0 = 2 ∨ getB k 0 = 3 then k.length == 33
  else false

def isCompressedPubKey (k : Bytes) : Bool :=
  k.length == 33 && (getB k 0 == 2 || getB k 0 == 3)

/-- `CheckPubKeyEncoding` -/
def checkPubKeyEncoding (flags : Nat) (sv : SigVersion) (k : Bytes) : R Unit :=
  if has flags FLAG_STRICTENC && !isCompressedOrUncompressedPubKey k then .error .PUBKEYTYPE
  else if has flags FLAG_WITNESS_PUBKEYTYPE && sv == .WITNESS_V0 && !isCompressedPubKey k then
    .error .WITNESS_PUBKEYTYPE
  else .ok ()

/-! ### FindAndDelete -/

def isPrefix : Bytes → Bytes → Bool
  | [], _ => true
  | _ :: _, [] => false
  | a :: as, b :: bs => a == b && isPrefix as bs

/-- the inner `while (… std::equal(b.begin(), b.end(), pc)) { pc += b.size(); ++nFound; }` -/
def skipMatches (b : Bytes) : Nat → Bytes → Nat → Bytes × Nat
  | 0, s, found => (s, found)
  | fuel + 1, s, found =>
    if isPrefix b s then skipMatches b fuel (s.drop b.length) (found + 1) else (s, found)

/-- `FindAndDelete(script, b)`: (result, nFound) — the do/while over `GetOp` -/
def findAndDeleteAux (b : Bytes) : Nat → Bytes → Bytes × Nat
  | 0, s => (s, 0)
  | fuel + 1, s =>
    let (s1, found) := skipMatches b s.length s 0
    match getOp s1 with
    | none => (s1, found)
    | some (op, rest) =>
      let (r, f2) := findAndDeleteAux b fuel rest
      (op.raw ++ r, found + f2)

def findAndDelete (script b : Bytes) : Bytes × Nat :=
  if b.isEmpty then (script, 0)
  else findAndDeleteAux b (script.length + 1) script

/-! ### locktime -/

/-- `GenericTransactionSignatureChecker::CheckLockTime` -/
def checkLockTime (cx : Ctx) (n : Int) : Bool :=
  let thr : Int := 500000000
  let txl : Int := cx.txLockTime
  if !((txl < thr && n < thr) || (txl ≥ thr && n ≥ thr)) then false
  else if n > txl then false
  else if cx.txSequence = 0xFFFFFFFF then false
  else true

/-- `GenericTransactionSignatureChecker::CheckSequence` (n ≥ 0 here) -/
def checkSequence (cx : Ctx) (n : Int) : Bool :=
  let seq := cx.txSequence
  if cx.txVersion < 2 then false
  else if (seq / 2 ^ 31) % 2 = 1 then false
  else
    let mask (x : Nat) : Nat := (x / 2 ^ 22 % 2) * 2 ^ 22 + x % 2 ^ 16
    let a := mask seq
    let b := mask n.toNat
    if !((a < 2 ^ 22 && b < 2 ^ 22) || (a ≥ 2 ^ 22 && b ≥ 2 ^ 22)) then false
    else if b > a then false
    else true

/-! ### EvalChecksig -/

/-- `EvalChecksigPreTapscript`: the success flag, or the script error -/
def evalChecksigPreTapscript (cx : Ctx) (m : Machine) (sig pubkey : Bytes) : R Bool := do
  let scriptCode0 := cx.script.drop m.codeStart
  let scriptCode ←
    if cx.sigversion == .BASE then
      let (sc, found) := findAndDelete scriptCode0 (pushData sig)
      if found > 0 && has cx.flags FLAG_CONST_SCRIPTCODE then throw .SIG_FINDANDDELETE
      pure sc
    else pure scriptCode0
  checkSignatureEncoding cx.flags sig
  checkPubKeyEncoding cx.flags cx.sigversion pubkey
  let ok ← cx.checker.checkECDSA sig pubkey scriptCode cx.sigversion
  if !ok && has cx.flags FLAG_NULLFAIL && !sig.isEmpty then throw .SIG_NULLFAIL
  pure ok

/-- `EvalChecksigTapscript`: (success, new machine) -/
def evalChecksigTapscript (cx : Ctx) (m : Machine) (sig pubkey : Bytes) : R (Bool × Machine) :=
  -- The following validation sequence is consensus critical. Please note how --
  --   upgradable public key versions precede other rules;
  --   the script execution fails when using empty signature with invalid public key;
  --   the script execution fails when using non-empty invalid signature.
  let success := !sig.isEmpty
  let w := m.weightLeft - VALIDATION_WEIGHT_PER_SIGOP_PASSED
  if success && decide (w < 0) then .error .TAPSCRIPT_VALIDATION_WEIGHT
  else
    let m1 : Machine := if success then { m with weightLeft := w } else m
    if pubkey.length = 0 then .error .TAPSCRIPT_EMPTY_PUBKEY
    else if pubkey.length = 32 then
      if success then
        match cx.checker.checkSchnorr sig pubkey cx.sigversion m1.codesepPos with
        | some e => .error e
        | none => .ok (success, m1)
      else .ok (success, m1)
    else if has cx.flags FLAG_DISCOURAGE_UPGRADABLE_PUBKEYTYPE then .error .DISCOURAGE_UPGRADABLE_PUBKEYTYPE
    else .ok (success, m1)

def evalChecksig (cx : Ctx) (m : Machine) (sig pubkey : Bytes) : R (Bool × Machine) :=
  match cx.sigversion with
  | .BASE | .WITNESS_V0 => (evalChecksigPreTapscript cx m sig pubkey).map fun ok => (ok, m)
  | .TAPSCRIPT => evalChecksigTapscript cx m sig pubkey
  | .TAPROOT => .error .UNKNOWN_ERROR

/-! ### op codes that touch the two stacks only -/

def OP_IF : Nat := 0x63
def OP_NOTIF : Nat := 0x64
def OP_ELSE : Nat := 0x67
def OP_ENDIF : Nat := 0x68
def OP_CODESEPARATOR : Nat := 0xab
def OP_CHECKSIG : Nat := 0xac
def OP_CHECKSIGVERIFY : Nat := 0xad
def OP_CHECKMULTISIG : Nat := 0xae
def OP_CHECKMULTISIGVERIFY : Nat := 0xaf
def OP_CHECKSIGADD : Nat := 0xba

def unaryNum (cx : Ctx) (st : List Bytes) (f : Int → Int) : R (List Bytes) :=
  match st with
  | a :: r => do let x ← num cx a; pure (numBytes (f x) :: r)
  | _ => .error .INVALID_STACK_OPERATION

def binaryNum (cx : Ctx) (st : List Bytes) (f : Int → Int → Int) : R (List Bytes) :=
  match st with
  | b :: a :: r => do
    let x ← num cx a
    let y ← num cx b
    pure (numBytes (f x y) :: r)
  | _ => .error .INVALID_STACK_OPERATION

def b2i (b : Bool) : Int := if b then 1 else 0

def hashOp (st : List Bytes) (h : Bytes → Bytes) : R (List Bytes) :=
  match st with
  | a :: r => .ok (h a :: r)
  | _ => .error .INVALID_STACK_OPERATION

/-- remove the element at depth `n` (0 = top) -/
def eraseAt : List Bytes → Nat → List Bytes
  | [], _ => []
  | _ :: r, 0 => r
  | x :: r, n + 1 => x :: eraseAt r n

/-- `case OP_CHECKLOCKTIMEVERIFY` -/
def execCltv (cx : Ctx) (stack : List Bytes) : R (List Bytes) :=
  if !has cx.flags FLAG_CHECKLOCKTIMEVERIFY then .ok stack   -- not enabled; treat as a NOP2
  else match stack with
    | [] => .error .INVALID_STACK_OPERATION
    | top :: _ => do
      let n ← num cx top LOCKTIME_MAX_NUM_SIZE
      if n < 0 then throw .NEGATIVE_LOCKTIME
      if !checkLockTime cx n then throw .UNSATISFIED_LOCKTIME
      pure stack

/-- `case OP_CHECKSEQUENCEVERIFY` -/
def execCsv (cx : Ctx) (stack : List Bytes) : R (List Bytes) :=
  if !has cx.flags FLAG_CHECKSEQUENCEVERIFY then .ok stack
  else match stack with
    | [] => .error .INVALID_STACK_OPERATION
    | top :: _ => do
      let n ← num cx top LOCKTIME_MAX_NUM_SIZE
      if n < 0 then throw .NEGATIVE_LOCKTIME
      -- To provide for future soft-fork extensibility, if the operand has the disabled lock-time flag set,
      -- CHECKSEQUENCEVERIFY behaves as a NOP.
      if (n.toNat / 2 ^ 31) % 2 = 1 then pure stack
      else
        if !checkSequence cx n then throw .UNSATISFIED_LOCKTIME
        pure stack

/-- `case OP_PICK: case OP_ROLL` -/
def execPickRoll (cx : Ctx) (stack : List Bytes) (roll : Bool) : R (List Bytes) :=
  match stack with
  | top :: below :: r0 =>
    let r := below :: r0
    do
      let n ← num cx top
      if n < 0 ∨ n ≥ r.length then throw .INVALID_STACK_OPERATION
      let v := r.getD n.toNat []
      if roll then pure (v :: eraseAt r n.toNat) else pure (v :: r)
  | _ => .error .INVALID_STACK_OPERATION

/-- the `switch (opcode)` cases that read and write the stacks and nothing else;
    `none` = not one of them -/
def execStackOp (cx : Ctx) (stack alt : List Bytes) (opcode : Nat) : Option (R (List Bytes × List Bytes)) :=
  let inv : R (List Bytes × List Bytes) := .error .INVALID_STACK_OPERATION
  let st (r : R (List Bytes)) : Option (R (List Bytes × List Bytes)) := some (r.map fun s => (s, alt))
  match opcode with
  -- OP_1NEGATE, OP_1 .. OP_16
  | 0x4f => st (.ok (numBytes (-1) :: stack))
  | 0x51 | 0x52 | 0x53 | 0x54 | 0x55 | 0x56 | 0x57 | 0x58 | 0x59 | 0x5a | 0x5b | 0x5c | 0x5d | 0x5e
  | 0x5f | 0x60 => st (.ok (numBytes ((opcode : Int) - 0x50) :: stack))
  -- OP_NOP
  | 0x61 => st (.ok stack)
  -- OP_CHECKLOCKTIMEVERIFY
  | 0xb1 => st (execCltv cx stack)
  -- OP_CHECKSEQUENCEVERIFY
  | 0xb2 => st (execCsv cx stack)
  -- OP_NOP1, OP_NOP4 .. OP_NOP10
  | 0xb0 | 0xb3 | 0xb4 | 0xb5 | 0xb6 | 0xb7 | 0xb8 | 0xb9 =>
    if has cx.flags FLAG_DISCOURAGE_UPGRADABLE_NOPS then some (.error .DISCOURAGE_UPGRADABLE_NOPS)
    else st (.ok stack)
  -- OP_VERIFY
  | 0x69 =>
    match stack with
    | a :: r => if castToBool a then st (.ok r) else some (.error .VERIFY)
    | _ => some inv
  -- OP_RETURN
  | 0x6a => some (.error .OP_RETURN)
  -- OP_TOALTSTACK
  | 0x6b =>
    match stack with
    | a :: r => some (.ok (r, a :: alt))
    | _ => some inv
  -- OP_FROMALTSTACK
  | 0x6c =>
    match alt with
    | a :: r => some (.ok (a :: stack, r))
    | _ => some (.error .INVALID_ALTSTACK_OPERATION)
  -- OP_2DROP
  | 0x6d => match stack with | _ :: _ :: r => st (.ok r) | _ => some inv
  -- OP_2DUP
  | 0x6e => match stack with | x2 :: x1 :: r => st (.ok (x2 :: x1 :: x2 :: x1 :: r)) | _ => some inv
  -- OP_3DUP
  | 0x6f =>
    match stack with
    | x3 :: x2 :: x1 :: r => st (.ok (x3 :: x2 :: x1 :: x3 :: x2 :: x1 :: r))
    | _ => some inv
  -- OP_2OVER
  | 0x70 =>
    match stack with
    | x4 :: x3 :: x2 :: x1 :: r => st (.ok (x2 :: x1 :: x4 :: x3 :: x2 :: x1 :: r))
    | _ => some inv
  -- OP_2ROT
  | 0x71 =>
    match stack with
    | x6 :: x5 :: x4 :: x3 :: x2 :: x1 :: r => st (.ok (x2 :: x1 :: x6 :: x5 :: x4 :: x3 :: r))
    | _ => some inv
  -- OP_2SWAP
  | 0x72 =>
    match stack with
    | x4 :: x3 :: x2 :: x1 :: r => st (.ok (x2 :: x1 :: x4 :: x3 :: r))
    | _ => some inv
  -- OP_IFDUP
  | 0x73 =>
    match stack with
    | a :: r => st (.ok (if castToBool a then a :: a :: r else a :: r))
    | _ => some inv
  -- OP_DEPTH
  | 0x74 => st (.ok (numBytes (stack.length : Nat) :: stack))
  -- OP_DROP
  | 0x75 => match stack with | _ :: r => st (.ok r) | _ => some inv
  -- OP_DUP
  | 0x76 => match stack with | a :: r => st (.ok (a :: a :: r)) | _ => some inv
  -- OP_NIP
  | 0x77 => match stack with | x2 :: _ :: r => st (.ok (x2 :: r)) | _ => some inv
  -- OP_OVER
  | 0x78 => match stack with | x2 :: x1 :: r => st (.ok (x1 :: x2 :: x1 :: r)) | _ => some inv
  -- OP_PICK, OP_ROLL
  | 0x79 => st (execPickRoll cx stack false)
  | 0x7a => st (execPickRoll cx stack true)
  -- OP_ROT
  | 0x7b => match stack with | x3 :: x2 :: x1 :: r => st (.ok (x1 :: x3 :: x2 :: r)) | _ => some inv
  -- OP_SWAP
  | 0x7c => match stack with | x2 :: x1 :: r => st (.ok (x1 :: x2 :: r)) | _ => some inv
  -- OP_TUCK
  | 0x7d => match stack with | x2 :: x1 :: r => st (.ok (x2 :: x1 :: x2 :: r)) | _ => some inv
  -- OP_SIZE
  | 0x82 => match stack with | a :: r => st (.ok (numBytes (a.length : Nat) :: a :: r)) | _ => some inv
  -- OP_EQUAL
  | 0x87 => match stack with | b :: a :: r => st (.ok (ofBool (a == b) :: r)) | _ => some inv
  -- OP_EQUALVERIFY
  | 0x88 =>
    match stack with
    | b :: a :: r => if a == b then st (.ok r) else some (.error .EQUALVERIFY)
    | _ => some inv
  -- OP_1ADD .. OP_0NOTEQUAL
  | 0x8b => st (unaryNum cx stack (· + 1))
  | 0x8c => st (unaryNum cx stack (· - 1))
  | 0x8f => st (unaryNum cx stack (fun x => -x))
  | 0x90 => st (unaryNum cx stack (fun x => if x < 0 then -x else x))
  | 0x91 => st (unaryNum cx stack (fun x => b2i (x == 0)))
  | 0x92 => st (unaryNum cx stack (fun x => b2i (x != 0)))
  -- OP_ADD .. OP_MAX
  | 0x93 => st (binaryNum cx stack (· + ·))
  | 0x94 => st (binaryNum cx stack (· - ·))
  | 0x9a => st (binaryNum cx stack (fun a b => b2i (a != 0 && b != 0)))
  | 0x9b => st (binaryNum cx stack (fun a b => b2i (a != 0 || b != 0)))
  | 0x9c => st (binaryNum cx stack (fun a b => b2i (a == b)))
  | 0x9d =>
    -- OP_NUMEQUALVERIFY
    st do
      let s ← binaryNum cx stack (fun a b => b2i (a == b))
      match s with
      | t :: r => if castToBool t then pure r else throw .NUMEQUALVERIFY
      | [] => throw .INVALID_STACK_OPERATION
  | 0x9e => st (binaryNum cx stack (fun a b => b2i (a != b)))
  | 0x9f => st (binaryNum cx stack (fun a b => b2i (decide (a < b))))
  | 0xa0 => st (binaryNum cx stack (fun a b => b2i (decide (a > b))))
  | 0xa1 => st (binaryNum cx stack (fun a b => b2i (decide (a ≤ b))))
  | 0xa2 => st (binaryNum cx stack (fun a b => b2i (decide (a ≥ b))))
  | 0xa3 => st (binaryNum cx stack (fun a b => if a < b then a else b))
  | 0xa4 => st (binaryNum cx stack (fun a b => if a > b then a else b))
  -- OP_WITHIN
  | 0xa5 =>
    match stack with
    | c :: b :: a :: r => st do
      let x ← num cx a
      let mn ← num cx b
      let mx ← num cx c
      pure (ofBool (decide (mn ≤ x) && decide (x < mx)) :: r)
    | _ => some inv
  -- hashes
  | 0xa6 => st (hashOp stack cx.hashes.ripemd160)
  | 0xa7 => st (hashOp stack cx.hashes.sha1)
  | 0xa8 => st (hashOp stack cx.hashes.sha256)
  | 0xa9 => st (hashOp stack (fun x => cx.hashes.ripemd160 (cx.hashes.sha256 x)))
  | 0xaa => st (hashOp stack (fun x => cx.hashes.sha256 (cx.hashes.sha256 x)))
  | _ => none

/-! ### OP_CHECKMULTISIG -/

/-- the `while (fSuccess && nSigsCount > 0)` loop: sigs and keys in stack order (first to check first) -/
def multisigLoop (cx : Ctx) (scriptCode : Bytes) : Nat → List Bytes → List Bytes → R Bool
  | 0, _, _ => .ok false   -- out of fuel (unreachable: fuel = nKeys + nSigs + 1): refuse
  | _ + 1, [], _ => .ok true
  | _ + 1, _ :: _, [] => .ok false
  | fuel + 1, sig :: sigs, key :: keys => do
    checkSignatureEncoding cx.flags sig
    checkPubKeyEncoding cx.flags cx.sigversion key
    let ok ← cx.checker.checkECDSA sig key scriptCode cx.sigversion
    let sigs' := if ok then sigs else sig :: sigs
    if sigs'.length > keys.length then .ok false
    else multisigLoop cx scriptCode fuel sigs' keys

/-- the FindAndDelete pass over the signatures of a CHECKMULTISIG -/
def multisigScriptCode (cx : Ctx) : List Bytes → Bytes → R Bytes
  | [], sc => .ok sc
  | sig :: sigs, sc =>
    if cx.sigversion == .BASE then
      let (sc', found) := findAndDelete sc (pushData sig)
      if found > 0 && has cx.flags FLAG_CONST_SCRIPTCODE then .error .SIG_FINDANDDELETE
      else multisigScriptCode cx sigs sc'
    else multisigScriptCode cx sigs sc

/-- OP_CHECKMULTISIG / OP_CHECKMULTISIGVERIFY -/
def execMultisig (cx : Ctx) (m : Machine) (verify : Bool) : R Machine := do
  if cx.sigversion == .TAPSCRIPT then throw .TAPSCRIPT_CHECKMULTISIG
  match m.stack with
  | [] => throw .INVALID_STACK_OPERATION
  | nk :: r1 =>
    let nKeys ← num cx nk
    if nKeys < 0 ∨ nKeys > MAX_PUBKEYS_PER_MULTISIG then throw .PUBKEY_COUNT
    let nKeys := nKeys.toNat
    let opCount := m.opCount + nKeys
    if opCount > MAX_OPS_PER_SCRIPT then throw .OP_COUNT
    if r1.length < nKeys + 1 then throw .INVALID_STACK_OPERATION
    let keys := r1.take nKeys
    match r1.drop nKeys with
    | [] => throw .INVALID_STACK_OPERATION
    | ns :: r2 =>
      let nSigs ← num cx ns
      if nSigs < 0 ∨ nSigs > nKeys then throw .SIG_COUNT
      let nSigs := nSigs.toNat
      -- `i` counts the dummy element too
      if r2.length < nSigs + 1 then throw .INVALID_STACK_OPERATION
      let sigs := r2.take nSigs
      let r3 := r2.drop nSigs
      let scriptCode ← multisigScriptCode cx sigs (cx.script.drop m.codeStart)
      let success ← multisigLoop cx scriptCode (nKeys + nSigs + 1) sigs keys
      -- clean-up loop: with NULLFAIL a failed operation requires every signature to be empty
      if !success && has cx.flags FLAG_NULLFAIL && sigs.any (fun s => !s.isEmpty) then
        throw .SIG_NULLFAIL
      match r3 with
      | [] => throw .INVALID_STACK_OPERATION
      | dummy :: r4 =>
        if has cx.flags FLAG_NULLDUMMY && !dummy.isEmpty then throw .SIG_NULLDUMMY
        if verify then
          if success then pure { m with stack := r4, opCount := opCount }
          else throw .CHECKMULTISIGVERIFY
        else pure { m with stack := ofBool success :: r4, opCount := opCount }

/-- everything the `switch` does outside OP_IF..OP_ENDIF -/
def execPlain (cx : Ctx) (pos opcodePos : Nat) (m : Machine) (opcode : Nat) : R Machine :=
  match execStackOp cx m.stack m.alt opcode with
  | some r => r.map fun (s, a) => { m with stack := s, alt := a }
  | none =>
    if opcode = OP_CODESEPARATOR then
      .ok { m with codeStart := pos, codesepPos := opcodePos }
    else if opcode = OP_CHECKSIG ∨ opcode = OP_CHECKSIGVERIFY then
      match m.stack with
      | pubkey :: sig :: r => do
        let (ok, m') ← evalChecksig cx m sig pubkey
        if opcode = OP_CHECKSIGVERIFY then
          if ok then pure { m' with stack := r } else throw .CHECKSIGVERIFY
        else pure { m' with stack := ofBool ok :: r }
      | _ => .error .INVALID_STACK_OPERATION
    else if opcode = OP_CHECKSIGADD then
      if cx.sigversion == .BASE || cx.sigversion == .WITNESS_V0 then .error .BAD_OPCODE
      else
        match m.stack with
        | pubkey :: n :: sig :: r => do
          let nn ← num cx n
          let (ok, m') ← evalChecksig cx m sig pubkey
          pure { m' with stack := numBytes (nn + b2i ok) :: r }
        | _ => .error .INVALID_STACK_OPERATION
    else if opcode = OP_CHECKMULTISIG then execMultisig cx m false
    else if opcode = OP_CHECKMULTISIGVERIFY then execMultisig cx m true
    else .error .BAD_OPCODE

/-- OP_IF / OP_NOTIF / OP_ELSE / OP_ENDIF (and OP_VERIF / OP_VERNOTIF, which are in the range Core evaluates
    when not executing and have no case: BAD_OPCODE) -/
def execConditional (cx : Ctx) (st : State) (opcode : Nat) (fExec : Bool) : R State :=
  if opcode = OP_IF ∨ opcode = OP_NOTIF then
    if fExec then
      match st.m.stack with
      -- `SCRIPT_ERR_INVALID_STACK_OPERATION` in the Core release the vendored vectors come from
      -- (`SCRIPT_ERR_UNBALANCED_CONDITIONAL` in older releases); the verdict is the same
      | [] => .error .INVALID_STACK_OPERATION
      | vch :: r =>
        if cx.sigversion == .TAPSCRIPT && (vch.length > 1 || (vch.length == 1 && vch != [1])) then
          .error .TAPSCRIPT_MINIMALIF
        else if cx.sigversion == .WITNESS_V0 && has cx.flags FLAG_MINIMALIF
            && (vch.length > 1 || (vch.length == 1 && vch != [1])) then
          .error .MINIMALIF
        else
          let v := castToBool vch
          let v := if opcode = OP_NOTIF then !v else v
          .ok { st with m := { st.m with stack := r }, vfExec := v :: st.vfExec }
    else .ok { st with vfExec := false :: st.vfExec }
  else if opcode = OP_ELSE then
    match st.vfExec with
    | [] => .error .UNBALANCED_CONDITIONAL
    | b :: r => .ok { st with vfExec := (!b) :: r }
  else if opcode = OP_ENDIF then
    match st.vfExec with
    | [] => .error .UNBALANCED_CONDITIONAL
    | _ :: r => .ok { st with vfExec := r }
  else .error .BAD_OPCODE

def isDisabled (opcode : Nat) : Bool := DISABLED.contains opcode

def inConditionalRange (opcode : Nat) : Bool :=
  OP_IF ≤ opcode && opcode ≤ OP_ENDIF

/-- the checks at the top of the loop body, all made whether or not the branch executes: push size, op count,
    disabled op codes, OP_CODESEPARATOR under CONST_SCRIPTCODE; `pc` advances, `nOpCount` is incremented -/
def stepChecks (cx : Ctx) (st : State) (op : Op) : R State :=
  if op.data.length > MAX_SCRIPT_ELEMENT_SIZE then .error .PUSH_SIZE
  else
    let counted := (cx.sigversion == .BASE || cx.sigversion == .WITNESS_V0) && decide (op.code > 0x60)
    if counted && decide (st.m.opCount + 1 > MAX_OPS_PER_SCRIPT) then .error .OP_COUNT
    else if isDisabled op.code then .error .DISABLED_OPCODE
    else if op.code == OP_CODESEPARATOR && cx.sigversion == .BASE && has cx.flags FLAG_CONST_SCRIPTCODE then
      .error .OP_CODESEPARATOR
    else
      .ok { st with pos := st.pos + op.raw.length,
                    m := { st.m with opCount := if counted then st.m.opCount + 1 else st.m.opCount } }

/-- `if (fExec && opcode <= OP_PUSHDATA4) … else if (fExec || (OP_IF <= opcode && opcode <= OP_ENDIF)) switch …` -/
def stepExec (cx : Ctx) (st : State) (op : Op) (fExec : Bool) : R State :=
  if fExec && decide (op.code ≤ 0x4e) then
    if has cx.flags FLAG_MINIMALDATA && !checkMinimalPush op.data op.code then .error .MINIMALDATA
    else .ok { st with m := { st.m with stack := op.data :: st.m.stack } }
  else if inConditionalRange op.code then execConditional cx st op.code fExec
  else if fExec then (execPlain cx st.pos st.opcodePos st.m op.code).map fun m => { st with m := m }
  else .ok st

/-- the size limit at the bottom of the loop body, and `++opcode_pos` -/
def stepFinish (st : State) : R State :=
  if st.m.stack.length + st.m.alt.length > MAX_STACK_SIZE then .error .STACK_SIZE
  else .ok { st with opcodePos := st.opcodePos + 1 }

/-- one iteration of the `for (; pc < pend; ++opcode_pos)` loop, after `GetOp` succeeded -/
def step (cx : Ctx) (st : State) (op : Op) : R State :=
  (stepChecks cx st op).bind fun st1 => (stepExec cx st1 op (st.vfExec.all id)).bind stepFinish

def run (cx : Ctx) : List Op → State → R State
  | [], st => .ok st
  | op :: ops, st => (step cx st op).bind (run cx ops)

/-- `EvalScript(stack, script, flags, checker, sigversion, execdata, serror)`: the final stack (top first) -/
def evalWith (cx : Ctx) (stack : List Bytes) (weightLeft : Int := 0) : R (List Bytes) :=
  if (cx.sigversion == .BASE || cx.sigversion == .WITNESS_V0) && decide (cx.script.length > MAX_SCRIPT_SIZE) then
    .error .SCRIPT_SIZE
  else
    let p := parse cx.script
    match run cx p.1 { m := { stack := stack, weightLeft := weightLeft } } with
    | .error e => .error e
    | .ok st =>
      -- `GetOp` failing: reached after every readable instruction ran
      if !p.2.isEmpty then .error .BAD_OPCODE
      else if !st.vfExec.isEmpty then .error .UNBALANCED_CONDITIONAL
      else .ok st.m.stack

end Btc.Script.Core
