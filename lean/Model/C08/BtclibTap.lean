import Model.C08.Btclib
/-
The btclib-SHAPED model of the TAPSCRIPT interpreter: `btclib/script/engine/tapscript.py: _run_ops, op_checksig,
op_checksigadd, verify_script_path_vc0` and the pre-scan `btclib/script/taproot.py: parse(exit_on_op_success=True)`,
mirrored as they are written (what differs from the legacy loop of `Btclib.lean`):

* `verify_script_path_vc0` first walks the script (`parse`): a push running past the end refuses, an OP_SUCCESSx ends the
  walk with acceptance (refusal under DISCOURAGE_OP_SUCCESS) whatever precedes it, an element over 520 bytes refuses only
  when no OP_SUCCESSx is met, a byte without a name is only decoded (`OP_UNKNOWNx`);
* then the initial stack is measured (520 bytes per element);
* the loop has no op count and no disabled set; `skip_execution` is computed before the stack check; a byte that is not in
  `OP_CODE_NAMES` refuses when it is reached in an executing branch (after the skip test); pushes have no size limit;
* OP_IF / OP_NOTIF take `segwit_version = 1`: the minimal-condition rule always;
* OP_CODESEPARATOR sets `codesep_pos = script_index` (an op code INDEX, through the expansions' wind-back);
* OP_CHECKSIG is `tapscript.op_checksig` with the sigops budget; OP_CHECKSIGVERIFY and OP_CHECKSIGADD are expansions
  (`[OP_CHECKSIG, OP_VERIFY]`; `[OP_CHECKSIG, OP_ADD]` after swapping the second and third stack elements);
* after the loop: balanced conditionals, a non-empty stack, OP_VERIFY on its top, and nothing left.

The signature check proper (`get_hashtype`, the tapleaf hash, `sig_hash.taproot`, `ssa_verify`) is `checker.checkSchnorr`,
the same oracle Core's transcription calls.  Tied to the real engine by the `bt.tapscript` stream.  The refinement to
`Core.executeWitnessScript` is stated at op level for OP_CHECKSIG only (`Props/C08.lean: tapscript_checksig_refines_Core`).
-/
namespace Btc.Script.BtclibTap

open Btc Btc.Script Btclib

structure TSt where
  stack : List Bytes
  alt : List Bytes := []
  cond : List Bool := [true]
  scriptIndex : Int := -1
  s : Bytes
  /-- `codesep_pos` -/
  codesepPos : Nat := 0xFFFFFFFF
  /-- `sigops_budget` -/
  budget : Int

/-- `taproot._read_push_data` / `read_push_data(…, element_size_limit=None)`: (data, what is left of the stream) -/
def readPush (t : Nat) (s : Bytes) : Option (Bytes × Bytes) :=
  if t < 76 then
    let data := s.take t
    if data.length ≠ t then none else some (data, s.drop t)
  else
    let size := 2 ^ (t - 76)
    let lengthBytes := s.take size
    if lengthBytes.length ≠ size then none
    else
      let dataLength := ofLE lengthBytes
      let s := s.drop size
      let data := s.take dataLength
      if data.length ≠ dataLength then none else some (data, s.drop dataLength)

inductive Pre | success | refuse | run
  deriving DecidableEq, Repr

/-- `taproot.parse(script_bytes, exit_on_op_success=True)` as `verify_script_path_vc0` reads its answer -/
def preScan : Nat → Bytes → Bool → Pre
  | 0, _, _ => .refuse
  | _ + 1, [], invalid => if invalid then .refuse else .run
  | fuel + 1, b :: rest, invalid =>
    let i := b.toNat
    if 0 < i ∧ i ≤ 78 then
      match readPush i rest with
      | none => .refuse
      | some (data, rest') => preScan fuel rest' (invalid || decide (data.length > Gen.Script.N_MAX_SCRIPT_ELEMENT_SIZE))
    else if Gen.Script.OP_SUCCESS.contains i then .success
    else preScan fuel rest invalid

/-- `tapscript.op_checksig(stack, …, codesep_pos, …, budget, flags)`: the stack it leaves and the budget it returns -/
def opChecksig (flags : Nat) (checker : Core.Checker) (stack : List Bytes) (codesepPos : Nat) (budget : Int) :
    Option (List Bytes × Int) :=
  match stack with
  | pubKey :: signature :: r =>
    if pubKey.length = 0 then none
    else
      let budget' := if !signature.isEmpty then budget - 50 else budget
      if !signature.isEmpty && decide (budget' < 0) then none
      else if pubKey.length = 32 then
        if !signature.isEmpty then
          match checker.checkSchnorr signature pubKey .TAPSCRIPT codesepPos with
          | some _ => none
          | none => some (enc 1 :: r, budget')
        else some (enc 0 :: r, budget')
      else if Core.has flags Core.FLAG_DISCOURAGE_UPGRADABLE_PUBKEYTYPE then none
      else some (enc (if !signature.isEmpty then 1 else 0) :: r, budget')
  | _ => none

/-- the if-chain of tapscript's `_run_ops` on a byte that is in `OP_CODE_NAMES` -/
def kind (t : Nat) : Kind :=
  if !Gen.Script.TAPSCRIPT_NAMED.contains t then .unknown
  else if t = 0xba then .operation                       -- OP_CHECKSIGADD is in tapscript's OPERATIONS
  else if t = 0xae ∨ t = 0xaf then .unknown              -- named, but no arm and not in tapscript's OPERATIONS: unknown_op_code
  else Btclib.kind t

inductive Next | more (st : TSt) | finished (st : TSt)

def dispatch (cx : Btclib.Ctx) (t : Nat) (st : TSt) : Option Next :=
  match kind t with
  | .checksig =>
    (opChecksig cx.flags cx.checker st.stack st.codesepPos st.budget).map fun p => .more { st with stack := p.1, budget := p.2 }
  | .checkmultisig => none
  | .cltv => (cltv cx st.stack).map fun _ => .more st
  | .csv => (csv cx st.stack).map fun _ => .more st
  | .digit n => some (.more { st with stack := enc (n : Nat) :: st.stack })
  | .codesep => some (.more { st with codesepPos := st.scriptIndex.toNat })
  | .opIf | .opNotif =>
    if !(st.cond.all id) then some (.more { st with cond := false :: st.cond })
    else
      match st.stack with
      | [] => none
      | top :: r =>
        if !(top == [] || top == [1]) then none
        else
          let c := toBool top
          some (.more { st with stack := r, cond := (if t = 0x64 then !c else c) :: st.cond })
  | .opElse =>
    match st.cond with
    | c :: c2 :: r => some (.more { st with cond := (!c) :: c2 :: r })
    | _ => none
  | .opEndif =>
    match st.cond with
    | _ :: c2 :: r => some (.more { st with cond := c2 :: r })
    | _ => none
  | .nop => some (.more st)
  | .nopN =>
    if Core.has cx.flags Core.FLAG_DISCOURAGE_UPGRADABLE_NOPS then none else some (.more st)
  | .operation =>
    if t = 0xba then
      -- op_checksigadd: stack[-2], stack[-3] = stack[-3], stack[-2]; return ["OP_CHECKSIG", "OP_ADD"]
      match st.stack with
      | a :: b :: c :: r =>
        some (.more { st with stack := a :: c :: b :: r, scriptIndex := st.scriptIndex - 2, s := 0xac :: 0x93 :: st.s })
      | _ => none
    else
      match operation cx t st.stack st.alt with
      | none => none
      | some (.done s a) => some (.more { st with stack := s, alt := a })
      | some (.expand s a r) =>
        some (.more { st with stack := s, alt := a, scriptIndex := st.scriptIndex - r.length,
                              s := r.map UInt8.ofNat ++ st.s })
  | .unknown => none

/-- one pass through the `while True:` of tapscript's `_run_ops` -/
def iter (cx : Btclib.Ctx) (st : TSt) : Option Next :=
  let st := { st with scriptIndex := st.scriptIndex + 1 }
  let skip := !(st.cond.all id)
  if st.stack.length + st.alt.length > Gen.Script.N_MAX_STACK_SIZE then none
  else
    match st.s with
    | [] => some (.finished st)
    | b :: rest =>
      let t := b.toNat
      if 0 < t ∧ t ≤ 78 then
        match readPush t rest with
        | none => none
        | some (data, rest') =>
          if skip then some (.more { st with s := rest' })
          else if minimaldata cx && !minimalPush data t then none
          else some (.more { st with s := rest', stack := data :: st.stack })
      else
        let st := { st with s := rest }
        if skip && !(Gen.Script.EVALUATED_WHEN_UNEXECUTED_LO ≤ t && t < Gen.Script.EVALUATED_WHEN_UNEXECUTED_HI) then
          some (.more st)
        else dispatch cx t st

/-- the loop and what `verify_script_path_vc0` does after it: `true` = accepted -/
def loop (cx : Btclib.Ctx) : Nat → TSt → Bool
  | 0, _ => false
  | fuel + 1, st =>
    match iter cx st with
    | none => false
    | some (.finished st') =>
      -- assert_balanced_if; a non-empty stack; op_verify; nothing left
      if st'.cond.length ≠ 1 then false
      else match st'.stack with
        | [top] => toBool top
        | _ => false
    | some (.more st') => loop cx fuel st'

/-- `verify_script_path_vc0(script_bytes, stack, …, sigops_budget, flags)`: `true` = returns, `false` = raises -/
def verifyScriptPath (cx : Btclib.Ctx) (script : Bytes) (stack : List Bytes) (budget : Int) : Bool :=
  match preScan (script.length + 1) script false with
  | .refuse => false
  | .success => !Core.has cx.flags Core.FLAG_DISCOURAGE_OP_SUCCESS
  | .run =>
    if stack.any (fun x => decide (x.length > Gen.Script.N_MAX_SCRIPT_ELEMENT_SIZE)) then false
    else loop cx (3 * script.length + 2) { stack := stack, s := script, budget := budget }

end Btc.Script.BtclibTap
