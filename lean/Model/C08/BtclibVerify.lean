import Model.C08.Parse
/-
btclib-SHAPED models of the helpers of `btclib/script/engine/__init__.py` (the VerifyScript shell).

`validatePushOnly` mirrors `validate_push_only(script_sig)`: a walk over `op_code_spans(script_sig)` that raises
on the first op code above OP_16 (0x60) and, after the walk, when the last `stop` seen is not the length of the
script (an unreadable push).  `true` = the function returns, `false` = it raises BTClibValueError.
`Props/C08.lean: validate_push_only_is_IsPushOnly` proves it is Core's `CScript::IsPushOnly` on every byte string.

`taprootGetAnnex` mirrors `taproot_get_annex(witness)` on the wire-order stack (bottom first, as
`witness.stack`): `(annex, rest)`.
-/
namespace Btc.Script.Btclib

open Btc Btc.Script

/-- the `for op_code, start, stop in op_code_spans(script_sig)` loop of `validate_push_only`:
    `none` = raised inside the loop, `some consumed` = the value of `consumed` after it. -/
def pushOnlyLoop : List (Nat × Nat × Nat) → Nat → Option Nat
  | [], consumed => some consumed
  | (opCode, _start, stop) :: rest, _ =>
    if opCode > 0x60 then none            -- OP_16
    else pushOnlyLoop rest stop           -- consumed = stop

/-- `engine.validate_push_only(script_sig)`: `true` iff it returns without raising. -/
def validatePushOnly (scriptSig : Bytes) : Bool :=
  match pushOnlyLoop (opCodeSpans scriptSig) 0 with
  | none => false
  | some consumed => consumed == scriptSig.length   -- `if consumed != len(script_sig): raise`

/-- `engine.taproot_get_annex(witness)` on `witness.stack` (bottom first): (annex, the rest);
    `stack[-1][:1] == b"\x50"` is "the last element is non-empty and starts with 0x50". -/
def taprootGetAnnex (stack : List Bytes) : Bytes × List Bytes :=
  match stack.getLast? with
  | some last =>
    if stack.length ≥ 2 ∧ last.take 1 = [0x50] then (last, stack.dropLast) else ([], stack)
  | none => ([], stack)

end Btc.Script.Btclib
