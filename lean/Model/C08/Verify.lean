import Model.C08.Core
/-
`Core.verifyScript`: transcription of Bitcoin Core's `VerifyScript`, `VerifyWitnessProgram` and
`ExecuteWitnessScript` (interpreter.cpp): P2SH, witness v0, taproot dispatch, the malleation rules,
CLEANSTACK, SIGPUSHONLY (DESIGN §3 C08, layer 5).  The taproot commitment check (an elliptic-curve
tweak test) is an oracle parameter like the signature checks; tagged hashes are a hash parameter.
-/
namespace Btc.Script.Core

open Btc Btc.Script

structure VerifyEnv where
  flags : Nat
  hashes : Hashes
  checker : Checker
  /-- BIP340 tagged hash: tag → message → digest -/
  taggedHash : Bytes → Bytes → Bytes
  /-- `VerifyTaprootCommitment(control, program, tapleaf_hash)` -/
  commitment : Bytes → Bytes → Bytes → R Bool
  txLockTime : Nat := 0
  txSequence : Nat := 0xFFFFFFFF
  txVersion : Nat := 1

/-- `CScript::IsPushOnly()` -/
def isPushOnly (script : Bytes) : Bool :=
  let p := parse script
  p.2.isEmpty && p.1.all (fun op => op.code ≤ 0x60)

/-- `CScript::IsPayToScriptHash()` -/
def isPayToScriptHash (s : Bytes) : Bool :=
  s.length == 23 && getB s 0 == 0xa9 && getB s 1 == 0x14 && getB s 22 == 0x87

/-- `CScript::IsWitnessProgram(version, program)` -/
def isWitnessProgram (s : Bytes) : Option (Nat × Bytes) :=
  if s.length < 4 ∨ s.length > 42 then none
  else if getB s 0 ≠ 0 ∧ (getB s 0 < 0x51 ∨ getB s 0 > 0x60) then none
  else if getB s 1 + 2 = s.length then
    some (if getB s 0 = 0 then 0 else getB s 0 - 0x50, s.drop 2)
  else none

/-- `IsOpSuccess` (BIP342) -/
def isOpSuccess (opcode : Nat) : Bool :=
  opcode == 80 || opcode == 98 || (126 ≤ opcode && opcode ≤ 129) || (131 ≤ opcode && opcode ≤ 134) ||
  (137 ≤ opcode && opcode ≤ 138) || (141 ≤ opcode && opcode ≤ 142) || (149 ≤ opcode && opcode ≤ 153) ||
  (187 ≤ opcode && opcode ≤ 254)

/-- CompactSize -/
def compactSize (n : Nat) : Bytes :=
  if n < 253 then [UInt8.ofNat n]
  else if n ≤ 0xFFFF then 253 :: leBytes 2 n
  else if n ≤ 0xFFFFFFFF then 254 :: leBytes 4 n
  else 255 :: leBytes 8 n

/-- `GetSerializeSize(witness.stack)` -/
def witnessSerializeSize (stack : List Bytes) : Nat :=
  (compactSize stack.length).length + (stack.map fun e => (compactSize e.length).length + e.length).sum

def evalCtx (env : VerifyEnv) (sv : SigVersion) (script : Bytes) : Ctx :=
  { flags := env.flags, sigversion := sv, hashes := env.hashes, checker := env.checker, script := script,
    txLockTime := env.txLockTime, txSequence := env.txSequence, txVersion := env.txVersion }

/-- `ExecuteWitnessScript` (stack top first) -/
def executeWitnessScript (env : VerifyEnv) (stack : List Bytes) (script : Bytes) (sv : SigVersion)
    (weightLeft : Int) : R Unit := do
  let continue_ ←
    if sv == .TAPSCRIPT then
      -- OP_SUCCESSx processing overrides everything, including stack element size limits
      let p := parse script
      if p.1.any (fun op => isOpSuccess op.code) then
        if has env.flags FLAG_DISCOURAGE_OP_SUCCESS then throw .DISCOURAGE_OP_SUCCESS
        pure false
      else
        if !p.2.isEmpty then throw .BAD_OPCODE
        -- Tapscript enforces initial stack size limits (altstack is empty here)
        if stack.length > MAX_STACK_SIZE then throw .STACK_SIZE
        pure true
    else pure true
  if !continue_ then return ()
  -- Disallow stack item size > MAX_SCRIPT_ELEMENT_SIZE in witness stack
  if stack.any (fun e => e.length > MAX_SCRIPT_ELEMENT_SIZE) then throw .PUSH_SIZE
  let final ← evalWith (evalCtx env sv script) stack weightLeft
  -- Scripts inside witness implicitly require cleanstack behaviour
  match final with
  | [top] => if castToBool top then pure () else throw .EVAL_FALSE
  | _ => throw .CLEANSTACK

/-- the annex rule of `VerifyWitnessProgram`'s v1 arm (stack top first): with at least two elements and a
    non-empty top element whose first byte is ANNEX_TAG (0x50), drop the top -/
def stripAnnex (witness : List Bytes) : List Bytes :=
  match witness with
  | top :: rest => if witness.length ≥ 2 ∧ getB top 0 = 0x50 ∧ !top.isEmpty then rest else witness
  | [] => witness

/-- `VerifyWitnessProgram` (witness stack top first) -/
def verifyWitnessProgram (env : VerifyEnv) (witness : List Bytes) (version : Nat) (program : Bytes)
    (isP2sh : Bool) : R Unit := do
  if version = 0 then
    if program.length = 32 then
      -- BIP141 P2WSH: 32-byte witness v0 program (which encodes SHA256(script))
      match witness with
      | [] => throw .WITNESS_PROGRAM_WITNESS_EMPTY
      | script :: stack =>
        if env.hashes.sha256 script ≠ program then throw .WITNESS_PROGRAM_MISMATCH
        executeWitnessScript env stack script .WITNESS_V0 0
    else if program.length = 20 then
      -- BIP141 P2WPKH: 20-byte witness v0 program (which encodes Hash160(pubkey))
      if witness.length ≠ 2 then throw .WITNESS_PROGRAM_MISMATCH
      let script : Bytes := [0x76, 0xa9, 0x14] ++ program ++ [0x88, 0xac]
      executeWitnessScript env witness script .WITNESS_V0 0
    else throw .WITNESS_PROGRAM_WRONG_LENGTH
  else if version = 1 ∧ program.length = 32 ∧ !isP2sh then
    -- BIP341 Taproot: 32-byte non-P2SH witness v1 program (which encodes a P2C-tweaked pubkey)
    if !has env.flags FLAG_TAPROOT then return ()
    if witness.length = 0 then throw .WITNESS_PROGRAM_WITNESS_EMPTY
    let stack := stripAnnex witness
    match stack with
    | [sig] =>
      -- Key path spending (stack size is 1 after removing optional annex)
      match env.checker.checkSchnorr sig program .TAPROOT 0xFFFFFFFF with
      | some e => throw e
      | none => pure ()
    | control :: script :: rest =>
      if control.length < 33 ∨ control.length > 33 + 32 * 128 ∨ (control.length - 33) % 32 ≠ 0 then
        throw .TAPROOT_WRONG_CONTROL_SIZE
      let leafVersion := getB control 0 / 2 * 2
      let leafHash := env.taggedHash "TapLeaf".toUTF8.toList
        (UInt8.ofNat leafVersion :: (compactSize script.length ++ script))
      let ok ← env.commitment control program leafHash
      if !ok then throw .WITNESS_PROGRAM_MISMATCH
      if leafVersion = 0xc0 then
        -- Tapscript (leaf version 0xc0)
        let weight : Int := (witnessSerializeSize witness + VALIDATION_WEIGHT_OFFSET : Nat)
        executeWitnessScript env rest script .TAPSCRIPT weight
      else
        if has env.flags FLAG_DISCOURAGE_UPGRADABLE_TAPROOT_VERSION then
          throw .DISCOURAGE_UPGRADABLE_TAPROOT_VERSION
        pure ()
    | [] => throw .WITNESS_PROGRAM_WITNESS_EMPTY
  else if !isP2sh ∧ version = 1 ∧ program = [0x4e, 0x73] then
    -- `CScript::IsPayToAnchor`
    pure ()
  else
    if has env.flags FLAG_DISCOURAGE_UPGRADABLE_WITNESS_PROGRAM then
      throw .DISCOURAGE_UPGRADABLE_WITNESS_PROGRAM
    -- Other version/size/p2sh combinations return true for future softfork compatibility
    pure ()

def requireTrueTop (stack : List Bytes) : R Unit :=
  match stack with
  | [] => .error .EVAL_FALSE
  | top :: _ => if castToBool top then .ok () else .error .EVAL_FALSE

/-- `VerifyScript(scriptSig, scriptPubKey, witness, flags, checker, serror)`; witness bottom first as on
    the wire -/
def verifyScript (env : VerifyEnv) (scriptSig scriptPubKey : Bytes) (witnessWire : List Bytes) : R Unit := do
  let witness := witnessWire.reverse
  if has env.flags FLAG_SIGPUSHONLY && !isPushOnly scriptSig then throw .SIG_PUSHONLY
  -- scriptSig and scriptPubKey must be evaluated sequentially on the same stack rather than being simply
  -- concatenated (see CVE-2010-5141)
  let stack ← evalWith (evalCtx env .BASE scriptSig) []
  let stackCopy := stack
  let stack ← evalWith (evalCtx env .BASE scriptPubKey) stack
  requireTrueTop stack
  -- Bare witness programs
  let mut hadWitness := false
  let mut stack := stack
  if has env.flags FLAG_WITNESS then
    match isWitnessProgram scriptPubKey with
    | some (version, program) =>
      hadWitness := true
      if scriptSig.length ≠ 0 then
        -- The scriptSig must be _exactly_ CScript(), otherwise we reintroduce malleability.
        throw .WITNESS_MALLEATED
      verifyWitnessProgram env witness version program false
      -- Bypass the cleanstack check at the end. The actual stack is obviously not clean for witness programs.
      stack := stack.drop (stack.length - 1)
    | none => pure ()
  -- Additional validation for spend-to-script-hash transactions:
  if has env.flags FLAG_P2SH && isPayToScriptHash scriptPubKey then
    -- scriptSig must be literals-only or validation fails
    if !isPushOnly scriptSig then throw .SIG_PUSHONLY
    -- Restore stack.  stackCopy cannot be empty here, because if it was the P2SH HASH <> EQUAL scriptPubKey
    -- would be evaluated with an empty stack and the EvalScript above would return false.
    match stackCopy with
    | [] => throw .UNKNOWN_ERROR
    | pubKeySerialized :: rest =>
      let st ← evalWith (evalCtx env .BASE pubKeySerialized) rest
      requireTrueTop st
      stack := st
      -- P2SH witness program
      if has env.flags FLAG_WITNESS then
        match isWitnessProgram pubKeySerialized with
        | some (version, program) =>
          hadWitness := true
          if scriptSig ≠ pushData pubKeySerialized then
            -- The scriptSig must be _exactly_ a single push of the redeemScript. Otherwise we reintroduce
            -- malleability.
            throw .WITNESS_MALLEATED_P2SH
          verifyWitnessProgram env witness version program true
          stack := stack.drop (stack.length - 1)
        | none => pure ()
  -- The CLEANSTACK check is only performed after potential P2SH evaluation, as the non-P2SH evaluation of
  -- a P2SH script will obviously not result in a clean stack (the P2SH inputs remain).
  if has env.flags FLAG_CLEANSTACK then
    if stack.length ≠ 1 then throw .CLEANSTACK
  if has env.flags FLAG_WITNESS then
    -- We can't check for correct unexpected witness data if P2SH was off, so require that WITNESS implies P2SH.
    if !hadWitness && !witness.isEmpty then throw .WITNESS_UNEXPECTED
  pure ()

end Btc.Script.Core
