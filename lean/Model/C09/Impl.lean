import Model.C09.Sighash
/-
C09 part B — `btclib/script/sig_hash.py` mirrored function by function: the transaction copy and
its edits (`legacy`), `PrecomputedTxData`, the optional precomputed hashes of `segwit_v0` and
`taproot`, the width checks and the exceptions, `taproot_annex_and_ext`, `redeem_script`,
`from_tx`, and the PSBT-level dispatch of `psbt.py` (`_sig_hash_from_psbt_in`, `_ecdsa_sig_hash`,
`_taproot_sig_hash`).  `S` is SHA256 and `H160` is HASH160, parameters here and the executable
instances in the driver.  `Except PyErr`: `.value` is BTClibValueError; `.foreign` an exception from
outside the library (only where the code really raises one).
-/
namespace Btc.Sighash.Impl

open Btc Btc.Py Btc.Sighash

abbrev R := Except PyErr

/-- `tx._assert_valid_4_byte_field` -/
def assert4 (x : Int) : R Unit :=
  if 0 ≤ x ∧ x ≤ Gen.SigHash.FIELD4_MAX then pure () else throw .value
/-- `_assert_valid_camount` -/
def assertCAmount (x : Int) : R Unit :=
  if Gen.SigHash.CAMOUNT_LO ≤ x ∧ x < Gen.SigHash.CAMOUNT_HI then pure () else throw .value
/-- `_assert_valid_vin_i` (for an `int` argument) -/
def assertVin (tx : Tx) (i : Int) : R Nat :=
  if 0 ≤ i ∧ i < tx.vin.length then pure i.toNat else throw .value

def ser4 (x : Int) : R Bytes := do assert4 x; pure (le4 x)
def serCAmount (x : Int) : R Bytes := do assertCAmount x; pure (le8s x)
def serOutPointC (o : OutPoint) : R Bytes := do assert4 o.vout; pure (serOutPoint o)
def serOutputC (o : TxOut) : R Bytes := do assertCAmount o.value; pure (serTxOut o)

/-- `b"".join([f(x) for x in l])` with a fallible `f` -/
def joinM (f : α → R Bytes) : List α → R Bytes
  | [] => pure []
  | x :: xs => do
    let a ← f x
    let b ← joinM f xs
    pure (a ++ b)

def serializedPrevouts (tx : Tx) : R Bytes := joinM (fun i => serOutPointC i.prev) tx.vin
def serializedSequences (tx : Tx) : R Bytes := joinM (fun i => ser4 i.sequence) tx.vin
def serializedOutputs (tx : Tx) : R Bytes := joinM serOutputC tx.vout
def serializedAmounts (prevouts : List TxOut) : R Bytes := joinM (fun o => serCAmount o.value) prevouts

/-- the 32-bit word a hash type in `-2^31 ≤ ht < 2^32` stands for (Python's `&` reads a negative
    integer in two's complement, so `ht & m` is the word's `& m` for every mask below 2^32) -/
def word (ht : Int) : Nat := (ht % 4294967296).toNat

/-- `hash256` over the SHA256 parameter -/
def hash256 (S : Bytes → Bytes) (b : Bytes) : Bytes := S (S b)

/-! ### legacy -/

/-- `_legacy_tx_copy` -/
def legacyTxCopy (tx : Tx) (i : Nat) (sc : Bytes) : Tx :=
  let vin := tx.vin.map (fun t => { t with scriptSig := [] })
  { version := tx.version, lockTime := tx.lockTime, vout := tx.vout
    vin := vin.set i { (vin.getD i dfltIn) with scriptSig := sc } }

/-- `_zero_other_sequences` -/
def zeroOtherSequences (vin : List TxIn) (i : Nat) : List TxIn :=
  vin.mapIdx (fun j t => if j ≠ i then { t with sequence := 0 } else t)

def checkIn (t : TxIn) : R Unit := do assert4 t.sequence; assert4 t.prev.vout
def forAll (f : α → R Unit) : List α → R Unit
  | [] => pure ()
  | x :: xs => do f x; forAll f xs

/-- the copy after the NONE / SINGLE / ANYONECANPAY edits (`vin_i < len(vout)` under SINGLE) -/
def legacyEdited (sc : Bytes) (tx : Tx) (i w : Nat) : Tx :=
  let t0 := legacyTxCopy tx i (withoutCodeSeparators sc)
  let t1 : Tx := if baseType w = Gen.SigHash.NONE
    then { t0 with vout := [], vin := zeroOtherSequences t0.vin i } else t0
  let t2 : Tx := if baseType w = Gen.SigHash.SINGLE
    then { t1 with vout := List.replicate i blankOut ++ [t1.vout.getD i blankOut]
                   vin := zeroOtherSequences t1.vin i } else t1
  if w &&& Gen.SigHash.ACP_MASK ≠ 0 then { t2 with vin := [t2.vin.getD i dfltIn] } else t2

/-- `sig_hash.legacy` past the index check and the SIGHASH_SINGLE early return: the width checks of what is
    left of the copy, then hash256 of its serialization and the four hash-type bytes -/
def legacyChecked (S : Bytes → Bytes) (sc : Bytes) (tx : Tx) (i w : Nat) (sht : Bytes) : R Bytes := do
  let t := legacyEdited sc tx i w
  forAll checkIn t.vin
  forAll (fun o => assertCAmount o.value) t.vout
  assert4 t.version
  assert4 t.lockTime
  pure (hash256 S (serTx t ++ sht))

/-- `sig_hash.legacy` -/
def legacy (S : Bytes → Bytes) (sc : Bytes) (tx : Tx) (i ht : Int) : R Bytes := do
  let sht ← Gen.SigHash.serialized_hash_type ht
  let i ← assertVin tx i
  let w := word ht
  if baseType w = Gen.SigHash.SINGLE ∧ i ≥ tx.vout.length then
    -- the sig_hash single bug (NONE and SINGLE exclude each other, so the copy's vout is tx's)
    pure Gen.SigHash.SINGLE_BUG_DIGEST
  else legacyChecked S sc tx i w sht

/-! ### PrecomputedTxData -/

structure Precomputed where
  shaPrevouts : Bytes
  shaAmounts : Bytes
  shaScriptPubKeys : Bytes
  shaSequences : Bytes
  shaOutputs : Bytes
  deriving DecidableEq, Repr

/-- `PrecomputedTxData.__init__` -/
def precompute (S : Bytes → Bytes) (tx : Tx) (prevouts : List TxOut) : R Precomputed := do
  if prevouts.length ≠ tx.vin.length then throw .value
  let a ← serializedPrevouts tx
  let b ← serializedAmounts prevouts
  let d ← serializedSequences tx
  let e ← serializedOutputs tx
  pure ⟨S a, S b, S (serScriptPubKeys prevouts), S d, S e⟩

/-! ### segwit_v0 -/

def hashOrPre (S : Bytes → Bytes) (direct : R Bytes) (pre : Option Bytes) : R Bytes :=
  match pre with
  | none => do let b ← direct; pure (hash256 S b)
  | some sha => pure (S sha)

/-- `hash_prev_outs` of `segwit_v0` -/
def segHashPrevouts (S : Bytes → Bytes) (tx : Tx) (w : Nat) (pre : Option Precomputed) : R Bytes :=
  if !anyoneCanPay w then hashOrPre S (serializedPrevouts tx) (pre.map (·.shaPrevouts)) else pure zero32

/-- `hash_seqs` of `segwit_v0` -/
def segHashSequence (S : Bytes → Bytes) (tx : Tx) (w : Nat) (pre : Option Precomputed) : R Bytes :=
  if !anyoneCanPay w ∧ baseType w ≠ Gen.SigHash.SINGLE ∧ baseType w ≠ Gen.SigHash.NONE then
    hashOrPre S (serializedSequences tx) (pre.map (·.shaSequences)) else pure zero32

/-- `hash_outputs` of `segwit_v0` -/
def segHashOutputs (S : Bytes → Bytes) (tx : Tx) (i w : Nat) (pre : Option Precomputed) : R Bytes :=
  if baseType w ≠ Gen.SigHash.SINGLE ∧ baseType w ≠ Gen.SigHash.NONE then
    hashOrPre S (serializedOutputs tx) (pre.map (·.shaOutputs))
  else if baseType w = Gen.SigHash.SINGLE ∧ i < tx.vout.length then do
    let b ← serOutputC (tx.vout.getD i blankOut)
    pure (hash256 S b)
  else pure zero32

/-- `sig_hash.segwit_v0` -/
def segwitV0 (S : Bytes → Bytes) (sc : Bytes) (tx : Tx) (i ht amount : Int)
    (pre : Option Precomputed) : R Bytes := do
  assertCAmount amount
  let i ← assertVin tx i
  let w := word ht
  let hp ← segHashPrevouts S tx w pre
  let hs ← segHashSequence S tx w pre
  let ho ← segHashOutputs S tx i w pre
  let inp := tx.vin.getD i dfltIn
  let p1 ← ser4 tx.version
  let p4 ← serOutPointC inp.prev
  let p6 ← serCAmount amount
  let p7 ← ser4 inp.sequence
  let p9 ← ser4 tx.lockTime
  let p10 ← Gen.SigHash.serialized_hash_type ht
  pure (hash256 S (p1 ++ (hp ++ (hs ++ (p4 ++ (varBytes sc ++ (p6 ++ (p7 ++ (ho ++ (p9 ++ p10))))))))))

/-! ### taproot -/

def intMem (x : Int) (l : List Nat) : Bool := l.any (fun n => (n : Int) == x)

/-- the transaction-wide hashes of `taproot`: "only if this hash type commits to any of them" -/
def tapMid (S : Bytes → Bytes) (tx : Tx) (prevouts : List TxOut) (w : Nat) (pre : Option Precomputed) : R Bytes :=
  if !tapAcp w ∨ (!tapNone w && !tapSingle w) then do
    let p ← match pre with
      | some p => pure p
      | none => precompute S tx prevouts
    pure ((if !tapAcp w then p.shaPrevouts ++ (p.shaAmounts ++ (p.shaScriptPubKeys ++ p.shaSequences)) else [])
      ++ (if (!tapNone w && !tapSingle w) then p.shaOutputs else []))
  else pure []

/-- the data about this input: outpoint, spent amount and script, sequence under ANYONECANPAY, else the index -/
def tapOwn (tx : Tx) (i : Nat) (prevouts : List TxOut) (w : Nat) : R Bytes :=
  if tapAcp w then
    -- `prevouts[input_index]`: an IndexError were the list short (`taproot` has refused that already)
    match prevouts[i]? with
    | none => throw .foreign
    | some po => do
      let a ← serOutPointC (tx.vin.getD i dfltIn).prev
      let b ← serCAmount po.value
      let d ← ser4 (tx.vin.getD i dfltIn).sequence
      pure (a ++ (b ++ (varBytes po.spk ++ d)))
  else pure (le4 i)

/-- sha_single_output -/
def tapSgl (S : Bytes → Bytes) (tx : Tx) (i w : Nat) : R Bytes :=
  if tapSingle w then do
    let b ← serOutputC (tx.vout.getD i blankOut)
    pure (S b)
  else pure []

/-- `sig_hash.taproot` past its refusals: `i` an input of the transaction, `w` one of the seven types -/
def taprootChecked (S : Bytes → Bytes) (tx : Tx) (i : Nat) (prevouts : List TxOut) (w : Nat) (extFlag : Int)
    (annex msgExt : Bytes) (pre : Option Precomputed) : R Bytes := do
  let v ← ser4 tx.version
  let l ← ser4 tx.lockTime
  let mid ← tapMid S tx prevouts w pre
  let st ← Gen.SigHash.serialized_spend_type extFlag (if !annex.isEmpty then 1 else 0)
  let own ← tapOwn tx i prevouts w
  let sgl ← tapSgl S tx i w
  pure (taggedWith S Gen.SigHash.TAG_SIGHASH
    (Gen.SigHash.EPOCH ++ ([UInt8.ofNat w] ++ (v ++ (l ++ (mid ++ (st ++ (own ++
      ((if !annex.isEmpty then S (varBytes annex) else []) ++ (sgl ++ msgExt))))))))))

/-- `sig_hash.taproot` -/
def taproot (S : Bytes → Bytes) (tx : Tx) (i : Int) (prevouts : List TxOut) (ht extFlag : Int)
    (annex msgExt : Bytes) (pre : Option Precomputed) : R Bytes := do
  forAll (fun o => assertCAmount o.value) prevouts
  let i ← assertVin tx i
  -- one spent output per input, asked up front on every path (ANYONECANPAY with NONE or SINGLE builds no
  -- PrecomputedTxData and indexes prevouts directly)
  if prevouts.length ≠ tx.vin.length then throw .value
  else if !intMem ht Gen.SigHash.SIG_HASH_TYPES then throw .value
  else if tapSingle ht.toNat ∧ i ≥ tx.vout.length then throw .value
  else taprootChecked S tx i prevouts ht.toNat extFlag annex msgExt pre

/-! ### from_tx and its helpers -/

def byteAt (s : Bytes) (i : Nat) : Nat := (s.getD i 0).toNat

def isP2sh (s : Bytes) : Bool := s.length == 23 && byteAt s 0 == 0xA9 && byteAt s 1 == 0x14 && byteAt s 22 == 0x87
def isP2wpkh (s : Bytes) : Bool := s.length == 22 && byteAt s 0 == 0 && byteAt s 1 == 0x14
def isP2wsh (s : Bytes) : Bool := s.length == 34 && byteAt s 0 == 0 && byteAt s 1 == 0x20
def isP2tr (s : Bytes) : Bool := s.length == 34 && byteAt s 0 == 0x51 && byteAt s 1 == 0x20

/-- the data of a push operation chunk (op code 1..78), `none` for any other op -/
def pushData (c : Bytes) : Option Bytes :=
  match c with
  | [] => none
  | op :: rest =>
    let o := op.toNat
    if 0 < o ∧ o ≤ Gen.SigHash.PUSH_MAX then
      some (if o > Gen.SigHash.PUSH_DIRECT_MAX then rest.drop (2 ^ (o - Gen.SigHash.PUSHDATA1)) else rest)
    else none

/-- `sig_hash.redeem_script` -/
def redeemScript (H160 : Bytes → Bytes) (scriptSig spk : Bytes) : R Bytes :=
  let w := walk scriptSig
  if !w.2.isEmpty then throw .value   -- the parse ends in ERROR_COMMAND
  else match w.1.getLast? with
    | none => throw .value             -- empty script_sig
    | some c => match pushData c with
      | none => throw .value           -- the last command is an op code, not a push
      | some script =>
        -- p2sh payload: `script_pub_key[2:-1]`
        if H160 script ≠ (spk.drop 2).take 20 then throw .value else pure script

/-- `var_bytes.serialize` of a stack element -/
def leafHash (S : Bytes → Bytes) (leafVersion : Nat) (script : Bytes) : Bytes :=
  taggedWith S Gen.SigHash.TAG_LEAF (UInt8.ofNat leafVersion :: varBytes script)

/-- `sig_hash.taproot_annex_and_ext` on the witness stack of the input -/
def annexAndExt (S : Bytes → Bytes) (stack : List Bytes) : R (Bytes × Bytes) := do
  if stack.isEmpty then throw .value
  let hasAnnex := stack.length ≥ 2 ∧ (stack.getLast?.getD []).head? = some (UInt8.ofNat Gen.SigHash.ANNEX_TAG)
  let annex := if hasAnnex then stack.getLast?.getD [] else []
  let stack := if hasAnnex then stack.dropLast else stack
  if stack.length > 1 then
    let cb := stack.getLast?.getD []
    match cb with
    | [] => throw .value
    | b0 :: _ =>
      let lv := b0.toNat &&& Gen.SigHash.LEAF_VERSION_MASK
      let script := stack.getD (stack.length - 2) []
      pure (annex, leafHash S lv script ++ Gen.SigHash.EXT_SUFFIX)
  else pure (annex, [])

def optR (o : Option α) : R α := match o with | some x => pure x | none => throw .value

/-- the p2pkh script BIP143 signs a p2wpkh program against -/
def p2pkhScript (payload : Bytes) : Bytes := [0x76, 0xA9, 0x14] ++ payload ++ [0x88, 0xAC]

/-- `sig_hash.from_tx` -/
def fromTx (S H160 : Bytes → Bytes) (prevouts : List TxOut) (tx : Tx) (wits : List (List Bytes))
    (i ht : Int) (pre : Option Precomputed) (codesep : Int) : R Bytes := do
  forAll (fun o => assertCAmount o.value) prevouts
  let n ← assertVin tx i
  if prevouts.length ≠ tx.vin.length then throw .value
  let po := prevouts.getD n blankOut
  let stack := wits.getD n []
  let script := po.spk
  if isP2tr script then
    if codesep ≠ 0 then throw .value
    let (annex, ext) ← annexAndExt S stack
    return ← taproot S tx i prevouts ht (if ext.isEmpty then 0 else 1) annex ext pre
  let script ← if isP2sh script then redeemScript H160 (tx.vin.getD n dfltIn).scriptSig script else pure script
  if isP2wpkh script then
    if codesep ≠ 0 then throw .value
    return ← segwitV0 S (p2pkhScript (script.drop 2)) tx i ht po.value pre
  if isP2wsh script then
    match stack.getLast? with
    | none => throw .value
    | some ws =>
      let sc ← optR (scriptCodeFrom ws codesep)
      return ← segwitV0 S sc tx i ht po.value pre
  if isP2tr script then throw .value
  let sc ← optR (scriptCodeFrom script codesep)
  legacy S sc tx i ht

/-! ### PSBT-level dispatch (`btclib/psbt/psbt.py`) -/

/-- what `_prev_out`, the redeem / witness script fields and the two utxo fields say of one input -/
structure PsbtIn where
  prevOut : Option TxOut
  redeemScript : Bytes
  witnessScript : Bytes
  hasNonWitnessUtxo : Bool
  sigHashType : Option Int

/-- `_sig_hash_from_psbt_in`; `none` is the function's `None` -/
def sigHashFromPsbtIn (S : Bytes → Bytes) (p : PsbtIn) (tx : Tx) (i ht : Int) : R (Option Bytes) :=
  match p.prevOut with
  | none => pure none
  | some po => do
    let script := if isP2sh po.spk then p.redeemScript else po.spk
    if isP2wpkh script ∨ isP2wsh script then
      let sc := if isP2wpkh script then p2pkhScript (script.drop 2) else p.witnessScript
      if sc.isEmpty then return none
      let d ← segwitV0 S sc tx i ht po.value none
      return some d
    if script.isEmpty ∨ isP2tr script then return none
    if !p.hasNonWitnessUtxo then throw .value
    let d ← legacy S script tx i ht
    return some d

/-- `_ecdsa_sig_hash` -/
def ecdsaSigHash (S : Bytes → Bytes) (p : PsbtIn) (tx : Tx) (i : Int) (ht : Option Int) : R Bytes := do
  let ht := match ht with
    | some h => h
    | none => match p.sigHashType with | some h => h | none => (Gen.SigHash.ALL : Int)
  if !intMem ht Gen.SigHash.SIG_HASH_TYPES then throw .value
  if ht = (Gen.SigHash.DEFAULT : Int) then throw .value
  let spent := match p.prevOut with
    | none => []
    | some po => if isP2sh po.spk then p.redeemScript else po.spk
  if isP2tr spent then throw .value
  match ← sigHashFromPsbtIn S p tx i ht with
  | none => throw .value
  | some d => pure d

/-- the hash type `_taproot_sig_hash` settles on (`hash_type or DEFAULT`: an explicit 0 and an absent type are the same) -/
def taprootType (sigHashType ht : Option Int) : Int :=
  match ht with
  | some h => h
  | none => match sigHashType with | some h => h | none => (Gen.SigHash.DEFAULT : Int)

def taprootSigHash (S : Bytes → Bytes) (sigHashType : Option Int) (tx : Tx) (i : Int) (spent : List TxOut)
    (leafHash : Bytes) (ht : Option Int) (pre : Option Precomputed) : R Bytes :=
  let ht := taprootType sigHashType ht
  let ext := if leafHash.isEmpty then [] else leafHash ++ Gen.SigHash.EXT_SUFFIX
  taproot S tx i spent ht (if ext.isEmpty then 0 else 1) [] ext pre

/-! ### the PSBT maps: utxo lookup, input index, whole-psbt and streamed-view entry points -/

/-- the fields of one PSBT input map the digests read: PSBT_IN_WITNESS_UTXO, the outputs of
    PSBT_IN_NON_WITNESS_UTXO, the outpoint's index (`output_index`, a uint32 or absent), the two scripts and
    PSBT_IN_SIGHASH_TYPE -/
structure PsbtInput where
  witnessUtxo : Option TxOut
  nonWitnessUtxo : Option (List TxOut)
  outputIndex : Option Nat
  redeemScript : Bytes
  witnessScript : Bytes
  sigHashType : Option Int

def PsbtInput.empty : PsbtInput := ⟨none, none, none, [], [], none⟩

/-- `psbt._prev_out`: the witness utxo when there is one, else output `output_index or 0` of the previous
    transaction when it has that many, else `None` -/
def prevOutOf (p : PsbtInput) : Option TxOut :=
  match p.witnessUtxo with
  | some o => some o
  | none =>
    match p.nonWitnessUtxo with
    | some outs => outs[p.outputIndex.getD 0]?
    | none => none

/-- what `_sig_hash_from_psbt_in` / `_ecdsa_sig_hash` read of the map -/
def PsbtInput.view (p : PsbtInput) : PsbtIn :=
  ⟨prevOutOf p, p.redeemScript, p.witnessScript, p.nonWitnessUtxo.isSome, p.sigHashType⟩

/-- `psbt._assert_input_index` (= `psbt_view._assert_index`) for an `int` argument -/
def assertInputIndex (n : Nat) (i : Int) : R Nat :=
  if 0 ≤ i ∧ i < n then pure i.toNat else throw .value

/-- `psbt.ecdsa_sig_hash` past `Psbt.assert_valid` (= `PsbtView.ecdsa_sig_hash`: the same `_ecdsa_sig_hash` on the
    map read from the stream) -/
def psbtEcdsaSigHash (S : Bytes → Bytes) (inputs : List PsbtInput) (tx : Tx) (i : Int) (ht : Option Int) : R Bytes := do
  let n ← assertInputIndex inputs.length i
  ecdsaSigHash S (inputs.getD n PsbtInput.empty).view tx i ht

/-- `psbt._spent_outputs`: the output each input spends; an input carrying no utxo raises -/
def spentOutputs : List PsbtInput → R (List TxOut)
  | [] => pure []
  | p :: ps =>
    match prevOutOf p with
    | none => throw .value
    | some o => do
      let r ← spentOutputs ps
      pure (o :: r)

/-- `psbt.taproot_sig_hash` (past `Psbt.assert_valid`): no precomputed hashes -/
def psbtTaprootSigHash (S : Bytes → Bytes) (inputs : List PsbtInput) (tx : Tx) (i : Int) (leafHash : Bytes)
    (ht : Option Int) : R Bytes := do
  let n ← assertInputIndex inputs.length i
  let spent ← spentOutputs inputs
  taprootSigHash S (inputs.getD n PsbtInput.empty).sigHashType tx i spent leafHash ht none

/-- `PsbtView.taproot_sig_hash`: the spent outputs read once, the `PrecomputedTxData` of the built transaction
    and those outputs built once (`_precomputed`) and handed over -/
def viewTaprootSigHash (S : Bytes → Bytes) (inputs : List PsbtInput) (tx : Tx) (i : Int) (leafHash : Bytes)
    (ht : Option Int) : R Bytes := do
  let n ← assertInputIndex inputs.length i
  let spent ← spentOutputs inputs
  let p ← precompute S tx spent
  taprootSigHash S (inputs.getD n PsbtInput.empty).sigHashType tx i spent leafHash ht (some p)

/-! ### `script.engine.script.find_and_delete` / `calculate_script_code` (what hands `legacy` its script code) -/

/-- the `while True:` of `find_and_delete`, on the offsets `pc2`, `pc` into the script and the joined `kept`:
    `kept.append(script[pc2:pc])`, the inner `while script[pc : pc + len(target)] == target`, `pc2 = pc`,
    `read_op_code(script, pc)`, and after the `break` the `kept.append(script[pc2:])` -/
def fadIdx (s t : Bytes) : Nat → Nat → Nat → Bytes → Nat → Bytes × Nat
  | 0, pc2, _, kept, found => (kept ++ s.drop pc2, found)
  | fuel + 1, pc2, pc, kept, found =>
    let kept := kept ++ (s.drop pc2).take (pc - pc2)
    let k := matchCount t s.length (s.drop pc)
    let pc := pc + k * t.length
    match readOp (s.drop pc) with
    | none => (kept ++ s.drop pc, found + k)
    | some (_, n) => fadIdx s t fuel pc (pc + n) kept (found + k)

/-- `find_and_delete(script, target)` -/
def findAndDeleteImpl (s t : Bytes) : Bytes × Nat :=
  if t.isEmpty then (s, 0)
  else
    let r := fadIdx s t (s.length + 1) 0 0 [] 0
    if r.2 = 0 then (s, 0) else r

/-- `calculate_script_code(script_bytes, codesep_offset, signatures, const_scriptcode, segwit)`; `.value` is the
    library's refusal of a signature found under CONST_SCRIPTCODE -/
def calculateScriptCode (script : Bytes) (offset : Nat) (sigs : List Bytes) (constScriptcode segwit : Bool) : R Bytes :=
  if segwit then pure (script.drop offset)
  else sigs.foldlM (fun sc sig =>
    let r := findAndDeleteImpl sc (pushOf sig)
    if r.2 ≠ 0 ∧ constScriptcode then throw .value else pure r.1) (script.drop offset)

end Btc.Sighash.Impl
