import Model.Common.Bytes
import Model.Common.Py
import Generated.SigHash
/-
C09 — the three signature-hash preimages (DESIGN §3 C09).  Core Lean only.

Part A (specification): `legacyPreimage`, `bip143Preimage`, `bip341Preimage` written from Bitcoin
Core's `SignatureHash` / `CTransactionSignatureSerializer`, BIP143 and BIP341/342, returning the
PREIMAGE BYTES; every hash is a parameter.  Independent of btclib's helper structure.

Part B (btclib-shaped, `Model/C09/Impl.lean`): the same three computed the way
`btclib/script/sig_hash.py` computes them (transaction copy and edits, `PrecomputedTxData`, width
checks, exceptions), run by the driver against the real code.

The transaction structure is defined here: the C05 builder's `Model/C05/Codec.lean` has generic
codec combinators but no `Tx` yet (duplication to be folded when it lands).
-/
namespace Btc.Sighash

open Btc

/-! ## wire pieces -/

/-- Core `WriteCompactSize` (= `var_int.serialize` below 2^64, `Proofs/C09`: `compactSize_eq_gen`). -/
def compactSize (n : Nat) : Bytes :=
  if n < 253 then [UInt8.ofNat n]
  else if n ≤ 65535 then 253 :: leBytes 2 n
  else if n ≤ 4294967295 then 254 :: leBytes 4 n
  else 255 :: leBytes 8 n

/-- `var_bytes.serialize` -/
def varBytes (b : Bytes) : Bytes := compactSize b.length ++ b

/-- an unsigned 32-bit field, little-endian -/
def le4 (x : Int) : Bytes := leBytes 4 x.toNat

/-- a CAmount (`int64_t`), little-endian two's complement -/
def le8s (x : Int) : Bytes := leBytes 8 (x % 18446744073709551616).toNat

structure OutPoint where
  /-- the 32 bytes as they are on the wire (btclib stores them reversed) -/
  txid : Bytes
  vout : Int
  deriving DecidableEq, Repr

structure TxIn where
  prev : OutPoint
  scriptSig : Bytes
  sequence : Int
  deriving DecidableEq, Repr

structure TxOut where
  value : Int
  spk : Bytes
  deriving DecidableEq, Repr

structure Tx where
  version : Int
  vin : List TxIn
  vout : List TxOut
  lockTime : Int
  deriving DecidableEq, Repr

def serOutPoint (o : OutPoint) : Bytes := o.txid ++ le4 o.vout
def serTxOut (o : TxOut) : Bytes := le8s o.value ++ varBytes o.spk
/-- a transaction input without its witness -/
def serTxIn (i : TxIn) : Bytes := serOutPoint i.prev ++ (varBytes i.scriptSig ++ le4 i.sequence)
/-- the stripped (pre-segwit) serialization -/
def serTx (t : Tx) : Bytes :=
  le4 t.version ++ (compactSize t.vin.length ++ (t.vin.flatMap serTxIn ++
    (compactSize t.vout.length ++ (t.vout.flatMap serTxOut ++ le4 t.lockTime))))

/-! ## well-formedness: what the widths of the fields can hold -/

def U32 (x : Int) : Prop := 0 ≤ x ∧ x < 4294967296
def I64 (x : Int) : Prop := -9223372036854775808 ≤ x ∧ x < 9223372036854775808
instance (x : Int) : Decidable (U32 x) := by unfold U32; infer_instance
instance (x : Int) : Decidable (I64 x) := by unfold I64; infer_instance

/-- a byte string whose length a CompactSize can state -/
def Sized (b : Bytes) : Prop := b.length < 18446744073709551616

structure OutPoint.WF (o : OutPoint) : Prop where
  txid : o.txid.length = 32
  vout : U32 o.vout
structure TxIn.WF (i : TxIn) : Prop where
  prev : i.prev.WF
  script : Sized i.scriptSig
  sequence : U32 i.sequence
structure TxOut.WF (o : TxOut) : Prop where
  value : I64 o.value
  spk : Sized o.spk
structure Tx.WF (t : Tx) : Prop where
  version : U32 t.version
  lockTime : U32 t.lockTime
  vin : ∀ i ∈ t.vin, i.WF
  vout : ∀ o ∈ t.vout, o.WF
  nin : t.vin.length < 18446744073709551616
  nout : t.vout.length < 18446744073709551616

/-! ## scripts: Core's `GetOp` walk and OP_CODESEPARATOR -/

/-- Core `CScript::GetOp` / btclib `read_op_code` at the head of `s`: the op code and the number of
    bytes the whole operation occupies (op code, length bytes, pushed data); `none` at the end of
    the script or when a push runs past it. -/
def readOp : Bytes → Option (UInt8 × Nat)
  | [] => none
  | op :: rest =>
    let o := op.toNat
    if 0 < o ∧ o ≤ Gen.SigHash.PUSH_MAX then
      if o > Gen.SigHash.PUSH_DIRECT_MAX then
        let size := 2 ^ (o - Gen.SigHash.PUSHDATA1)
        if rest.length < size then none
        else
          let n := size + ofLE (rest.take size)
          if n > rest.length then none else some (op, 1 + n)
      else
        if o > rest.length then none else some (op, 1 + o)
    else some (op, 1)

def isSep (op : UInt8) : Bool := op.toNat == Gen.SigHash.OP_CODESEPARATOR

/-- the script cut into whole operations (raw bytes of each) and the tail no op could be read from
    (`script.op_code_spans`); `fuel` ≥ length is enough. -/
def walkAux : Nat → Bytes → List Bytes × Bytes
  | 0, s => ([], s)
  | fuel + 1, s =>
    match readOp s with
    | none => ([], s)
    | some (_, n) =>
      let r := walkAux fuel (s.drop n)
      (s.take n :: r.1, r.2)

def walk (s : Bytes) : List Bytes × Bytes := walkAux s.length s

/-- an operation chunk is an OP_CODESEPARATOR (its first byte is the op code) -/
def chunkIsSep (c : Bytes) : Bool :=
  match c with
  | [] => false
  | op :: _ => isSep op

/-- Core `SerializeScriptCode` / btclib `_without_op_codeseparators`: the script with its
    OP_CODESEPARATOR op codes dropped, every other byte range -- the unreadable tail included --
    copied verbatim. -/
def withoutCodeSeparators (s : Bytes) : Bytes :=
  let w := walk s
  (w.1.filter (fun c => !chunkIsSep c)).flatten ++ w.2

/-- `_script_code_from` for `k ≥ 1`: the bytes after the k-th OP_CODESEPARATOR occurrence. -/
def scriptCodeFromAux : Nat → Bytes → Nat → Option Bytes
  | 0, _, _ => none
  | fuel + 1, s, k =>
    match readOp s with
    | none => none
    | some (op, n) =>
      if isSep op then
        if k ≤ 1 then some (s.drop n) else scriptCodeFromAux fuel (s.drop n) (k - 1)
      else scriptCodeFromAux fuel (s.drop n) k

/-- `_script_code_from(script, codesep_index)`; `none` is the library's BTClibValueError. -/
def scriptCodeFrom (s : Bytes) (k : Int) : Option Bytes :=
  if k < 0 then none
  else if k = 0 then some s
  else scriptCodeFromAux s.length s k.toNat

/-! ## hash types -/

/-- `nHashType & 0x1f` -/
def baseType (ht : Nat) : Nat := ht &&& Gen.SigHash.BASE_MASK
/-- `nHashType & SIGHASH_ANYONECANPAY` -/
def anyoneCanPay (ht : Nat) : Bool := ht &&& Gen.SigHash.ACP_MASK != 0
def isNone (ht : Nat) : Bool := baseType ht == Gen.SigHash.NONE
def isSingle (ht : Nat) : Bool := baseType ht == Gen.SigHash.SINGLE

/-! ## A1. legacy: Core's `CTransactionSignatureSerializer` -/

def blankOut : TxOut := ⟨-1, []⟩
def dfltIn : TxIn := ⟨⟨[], 0⟩, [], 0⟩

/-- "In case of SIGHASH_ANYONECANPAY, only the input being signed is serialized" -/
def legacyIdx (nIn ht nInput : Nat) : Nat := if anyoneCanPay ht then nIn else nInput

/-- what `SerializeInput(nInput)` writes, as the input it is the serialization of -/
def legacyIn (sc : Bytes) (tx : Tx) (nIn ht nInput : Nat) : TxIn where
  prev := (tx.vin.getD (legacyIdx nIn ht nInput) dfltIn).prev
  -- "Serialize the script": blank for the others, the script code less its separators for ours
  scriptSig := if legacyIdx nIn ht nInput ≠ nIn then [] else withoutCodeSeparators sc
  -- "let the others update at will" under SINGLE and NONE
  sequence := if legacyIdx nIn ht nInput ≠ nIn ∧ (isSingle ht ∨ isNone ht) then 0
    else (tx.vin.getD (legacyIdx nIn ht nInput) dfltIn).sequence

/-- what `SerializeOutput(nOutput)` writes -/
def legacyOut (tx : Tx) (nIn ht nOutput : Nat) : TxOut :=
  if isSingle ht ∧ nOutput ≠ nIn then blankOut else tx.vout.getD nOutput blankOut

def legacyNIn (tx : Tx) (ht : Nat) : Nat := if anyoneCanPay ht then 1 else tx.vin.length
def legacyNOut (tx : Tx) (nIn ht : Nat) : Nat :=
  if isNone ht then 0 else if isSingle ht then nIn + 1 else tx.vout.length

/-- the transaction the serializer virtually writes (Satoshi's `txTmp`) -/
def legacyTx (sc : Bytes) (tx : Tx) (nIn ht : Nat) : Tx where
  version := tx.version
  vin := (List.range (legacyNIn tx ht)).map (legacyIn sc tx nIn ht)
  vout := (List.range (legacyNOut tx nIn ht)).map (legacyOut tx nIn ht)
  lockTime := tx.lockTime

/-- `ss << txTmp << nHashType` (`ht` is the 32-bit word the four bytes hold) -/
def legacyPreimage (sc : Bytes) (tx : Tx) (nIn ht : Nat) : Bytes :=
  serTx (legacyTx sc tx nIn ht) ++ le4 ht

/-- the SIGHASH_SINGLE bug: "nOut out of range" returns the constant one -/
def legacySingleBug (tx : Tx) (nIn ht : Nat) : Bool := isSingle ht && decide (nIn ≥ tx.vout.length)

/-- legacy digest for an input index inside the transaction; `H` stands for hash256 -/
def legacyDigest (H : Bytes → Bytes) (sc : Bytes) (tx : Tx) (nIn ht : Nat) : Bytes :=
  if legacySingleBug tx nIn ht then Gen.SigHash.SINGLE_BUG_DIGEST else H (legacyPreimage sc tx nIn ht)

/-! ## A2. BIP143 -/

def zero32 : Bytes := List.replicate 32 0

def serPrevouts (tx : Tx) : Bytes := tx.vin.flatMap (fun i => serOutPoint i.prev)
def serSequences (tx : Tx) : Bytes := tx.vin.flatMap (fun i => le4 i.sequence)
def serOutputs (tx : Tx) : Bytes := tx.vout.flatMap serTxOut

def bip143HashPrevouts (H : Bytes → Bytes) (tx : Tx) (ht : Nat) : Bytes :=
  if !anyoneCanPay ht then H (serPrevouts tx) else zero32
def bip143HashSequence (H : Bytes → Bytes) (tx : Tx) (ht : Nat) : Bytes :=
  if !anyoneCanPay ht ∧ !isSingle ht ∧ !isNone ht then H (serSequences tx) else zero32
def bip143HashOutputs (H : Bytes → Bytes) (tx : Tx) (nIn ht : Nat) : Bytes :=
  if !isSingle ht ∧ !isNone ht then H (serOutputs tx)
  else if isSingle ht ∧ nIn < tx.vout.length then H (serTxOut (tx.vout.getD nIn blankOut))
  else zero32

/-- BIP143's ten items; `H` stands for hash256 (the digest is `H` of this) -/
def bip143Preimage (H : Bytes → Bytes) (sc : Bytes) (tx : Tx) (nIn ht : Nat) (amount : Int) : Bytes :=
  let inp := tx.vin.getD nIn dfltIn
  le4 tx.version ++ (bip143HashPrevouts H tx ht ++ (bip143HashSequence H tx ht ++
    (serOutPoint inp.prev ++ (varBytes sc ++ (le8s amount ++ (le4 inp.sequence ++
      (bip143HashOutputs H tx nIn ht ++ (le4 tx.lockTime ++ le4 ht))))))))

def bip143Digest (H : Bytes → Bytes) (sc : Bytes) (tx : Tx) (nIn ht : Nat) (amount : Int) : Bytes :=
  H (bip143Preimage H sc tx nIn ht amount)

/-! ## A3. BIP341 / BIP342 -/

/-- BIP342's extension: tapleaf hash, key version, position of the last executed OP_CODESEPARATOR -/
structure TapExt where
  leafHash : Bytes
  keyVersion : Nat
  codesepPos : Int
  deriving DecidableEq, Repr

def TapExt.ser (e : TapExt) : Bytes := e.leafHash ++ (UInt8.ofNat e.keyVersion :: le4 e.codesepPos)

structure TapExt.WF (e : TapExt) : Prop where
  leaf : e.leafHash.length = 32
  key : e.keyVersion < 256
  pos : U32 e.codesepPos

def tapBase (ht : Nat) : Nat := ht &&& Gen.SigHash.TAP_BASE_MASK
def tapAcp (ht : Nat) : Bool := ht &&& Gen.SigHash.TAP_ACP_MASK == Gen.SigHash.ANYONECANPAY
def tapNone (ht : Nat) : Bool := tapBase ht == Gen.SigHash.NONE
def tapSingle (ht : Nat) : Bool := tapBase ht == Gen.SigHash.SINGLE

def serAmounts (spent : List TxOut) : Bytes := spent.flatMap (fun o => le8s o.value)
def serScriptPubKeys (spent : List TxOut) : Bytes := spent.flatMap (fun o => varBytes o.spk)

/-- the seven hash types BIP341 defines -/
def tapValidType (ht : Nat) : Bool := Gen.SigHash.SIG_HASH_TYPES.contains ht

/-- BIP341's errors: an undefined hash type, an input index outside the transaction, SIGHASH_SINGLE
    with no corresponding output; and one spent output per input. -/
def bip341Defined (tx : Tx) (nIn : Nat) (spent : List TxOut) (ht : Nat) : Bool :=
  tapValidType ht && decide (nIn < tx.vin.length) && decide (spent.length = tx.vin.length)
    && !(tapSingle ht && decide (nIn ≥ tx.vout.length))

/-- spend_type = ext_flag * 2 + annex_present -/
def spendType (ext : Option TapExt) (annex : Option Bytes) : UInt8 :=
  UInt8.ofNat ((if ext.isSome then 2 else 0) + (if annex.isSome then 1 else 0))

/-- sha_prevouts, sha_amounts, sha_scriptpubkeys, sha_sequences: "if hash_type & 0x80 ≠ ANYONECANPAY" -/
def tapTxHashes (S : Bytes → Bytes) (tx : Tx) (spent : List TxOut) (ht : Nat) : Bytes :=
  if !tapAcp ht then
    S (serPrevouts tx) ++ (S (serAmounts spent) ++ (S (serScriptPubKeys spent) ++ S (serSequences tx)))
  else []

/-- sha_outputs: "if hash_type & 3 is neither NONE nor SINGLE" -/
def tapOutputsHash (S : Bytes → Bytes) (tx : Tx) (ht : Nat) : Bytes :=
  if !tapNone ht ∧ !tapSingle ht then S (serOutputs tx) else []

/-- "data about this input": outpoint, amount, scriptPubKey, nSequence under ANYONECANPAY, else input_index -/
def tapInputData (tx : Tx) (nIn : Nat) (spent : List TxOut) (ht : Nat) : Bytes :=
  let inp := tx.vin.getD nIn dfltIn
  let own := spent.getD nIn blankOut
  if tapAcp ht then serOutPoint inp.prev ++ (le8s own.value ++ (varBytes own.spk ++ le4 inp.sequence))
  else le4 nIn

/-- sha_annex: "if an annex is present" -/
def tapAnnexHash (S : Bytes → Bytes) (annex : Option Bytes) : Bytes :=
  match annex with
  | some a => S (varBytes a)
  | none => []

/-- sha_single_output: "if hash_type & 3 equals SIGHASH_SINGLE" -/
def tapSingleHash (S : Bytes → Bytes) (tx : Tx) (nIn ht : Nat) : Bytes :=
  if tapSingle ht then S (serTxOut (tx.vout.getD nIn blankOut)) else []

def tapExtBytes (ext : Option TapExt) : Bytes :=
  match ext with
  | some e => e.ser
  | none => []

/-- BIP341 `SigMsg(hash_type, ext_flag)` preceded by the epoch and followed by BIP342's extension:
    the message whose tagged hash is signed.  `S` stands for SHA256. -/
def bip341Preimage (S : Bytes → Bytes) (tx : Tx) (nIn : Nat) (spent : List TxOut) (ht : Nat)
    (annex : Option Bytes) (ext : Option TapExt) : Bytes :=
  Gen.SigHash.EPOCH ++ ([UInt8.ofNat ht] ++ (le4 tx.version ++ (le4 tx.lockTime ++
    (tapTxHashes S tx spent ht ++ (tapOutputsHash S tx ht ++ ([spendType ext annex] ++
    (tapInputData tx nIn spent ht ++ (tapAnnexHash S annex ++ (tapSingleHash S tx nIn ht ++
    tapExtBytes ext)))))))))

/-- `hash_TapSighash(preimage)` with the tagged hash written out over a parameter `S` -/
def taggedWith (S : Bytes → Bytes) (tag msg : Bytes) : Bytes := S (S tag ++ (S tag ++ msg))

def bip341Digest (S : Bytes → Bytes) (tx : Tx) (nIn : Nat) (spent : List TxOut) (ht : Nat)
    (annex : Option Bytes) (ext : Option TapExt) : Bytes :=
  taggedWith S Gen.SigHash.TAG_SIGHASH (bip341Preimage S tx nIn spent ht annex ext)

/-! ## Core's `FindAndDelete` (the legacy script code has the checked signature's push removed before it is hashed) -/

/-- the inner `while (end - pc >= b.size() && std::equal(b.begin(), b.end(), pc)) { pc += b.size(); ++nFound; }`:
    how many copies of `b` stand at the head of `s`, one after the other (`fuel` ≥ length is enough for a
    non-empty `b`) -/
def matchCount (b : Bytes) : Nat → Bytes → Nat
  | 0, _ => 0
  | fuel + 1, s => if s.take b.length = b then 1 + matchCount b fuel (s.drop b.length) else 0

/-- the `do { copy what was passed over; skip the matches } while (script.GetOp(pc, opcode))` of Core's
    `FindAndDelete`, on the rest of the script: skip the copies of `b` standing here, read ONE operation and keep
    it whole (a copy of `b` inside its pushed data is never looked at), go on after it; where no operation can be
    read the rest is kept verbatim.  `F` is the fuel of the inner loop.  Answers (result, nFound). -/
def fadAux (b : Bytes) (F : Nat) : Nat → Bytes → Bytes × Nat
  | 0, s => (s, 0)
  | fuel + 1, s =>
    let k := matchCount b F s
    let s1 := s.drop (k * b.length)
    match readOp s1 with
    | none => (s1, k)
    | some (_, n) =>
      let r := fadAux b F fuel (s1.drop n)
      (s1.take n ++ r.1, k + r.2)

/-- Core `FindAndDelete(script, b)`: an empty `b` deletes nothing ("return nFound" up front), and the script is
    replaced only `if (nFound > 0)`. -/
def findAndDelete (script b : Bytes) : Bytes × Nat :=
  if b.isEmpty then (script, 0)
  else
    let r := fadAux b script.length (script.length + 1) script
    if r.2 = 0 then (script, 0) else r

/-- `CScript() << vchSig`: the push operation Core builds around the signature it searches for -/
def pushOf (d : Bytes) : Bytes :=
  if d.length < 76 then UInt8.ofNat d.length :: d
  else if d.length < 256 then 76 :: leBytes 1 d.length ++ d
  else if d.length < 65536 then 77 :: leBytes 2 d.length ++ d
  else 78 :: leBytes 4 d.length ++ d

/-- the script code of a pre-segwit signature check: the script from the last executed OP_CODESEPARATOR on
    (`offset`), with every signature under check removed by FindAndDelete, one after the other -/
def legacyScriptCode (script : Bytes) (offset : Nat) (sigs : List Bytes) : Bytes :=
  sigs.foldl (fun sc sig => (findAndDelete sc (pushOf sig)).1) (script.drop offset)

end Btc.Sighash
