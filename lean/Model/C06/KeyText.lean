import Model.C06.Address
import Model.C05.Misc
/-
Text forms of keys: WIF (`b58.wif_from_prv_key`, `to_prv_key._prv_keyinfo_from_wif`) and extended keys
(`BIP32KeyData.b58encode / b58decode`): a Base58Check envelope around a fixed payload layout. The 78-byte
xkey layout is the C05 codec `Btc.Wire.xkey`. Hash `H` and key size / group order are parameters.
-/
namespace Btc.KeyText
open Btc Gen.Net

inductive Err | base58 (e : Base58.Err) | notWif | size | flag | range | xkey
  deriving DecidableEq, Repr

/-- WIF payload: version prefix, key bytes, and the 0x01 flag for a compressed public key. -/
def wifPayload (pre key : Bytes) (compressed : Bool) : Bytes := pre ++ key ++ (if compressed then [1] else [])

/-- `b58.wif_from_prv_key` once the key is an integer in range. -/
def wifEncode (H : Bytes → Bytes) (net : Network) (nSize q : Nat) (compressed : Bool) : List Nat :=
  Base58.encode H (wifPayload (Address.ofNats net.wif) (beBytes nSize q) compressed)

/-- `_wif_prv_key_and_compression`: (key bytes, compressed). -/
def wifSplit (nSize : Nat) (payload : Bytes) : Except Err (Bytes × Bool) :=
  if payload.length = nSize + 2 then
    if payload.getLast? ≠ some 1 then .error .flag
    else .ok ((payload.drop 1).take nSize, true)
  else if payload.length = nSize + 1 then .ok (payload.drop 1, false)
  else .error .size

/-- `_prv_keyinfo_from_wif` (no network / compression requirement): (q, network name, compressed). -/
def wifDecode (H : Bytes → Bytes) (nSize n : Nat) (s : List Nat) : Except Err (Nat × String × Bool) :=
  match Base58.decode H (Address.strip s) none with
  | .error e => .error (.base58 e)
  | .ok payload =>
    match Address.networkFrom (·.wif) (Address.toNats (payload.take 1)) with
    | none => .error .notWif
    | some net =>
      match wifSplit nSize payload with
      | .error e => .error e
      | .ok (key, compr) =>
        let q := ofBE key
        if 0 < q ∧ q < n then .ok (q, net.name, compr) else .error .range

/-- `BIP32KeyData.b58encode` (the 78 bytes are C05's `xkey` serialization). -/
def xkeyEncode (H : Bytes → Bytes) (k : Wire.XKey) : List Nat := Base58.encode H (Wire.xkey.ser k)

/-- `BIP32KeyData.b58decode` without the semantic validity checks: Base58Check of exactly 78 bytes,
    then the fixed layout. -/
def xkeyDecode (H : Bytes → Bytes) (s : List Nat) : Except Err Wire.XKey :=
  match Base58.decode H (Address.strip s) (some Wire.XKEY_LENGTH) with
  | .error e => .error (.base58 e)
  | .ok payload =>
    match Wire.xkey.parseAll payload with
    | .error _ => .error .xkey
    | .ok k => .ok k

end Btc.KeyText

namespace Btc.KeyText
open Btc Gen.Net

/-- `network.XPRV_VERSIONS_ALL` / `XPUB_VERSIONS_ALL`: every private / public version of every network. -/
def XPRV_ALL : List (List Nat) := NETWORKS.flatMap (·.xprv)
def XPUB_ALL : List (List Nat) := NETWORKS.flatMap (·.xpub)

/-- `BIP32KeyData.assert_valid` after the field sizes: `_assert_valid_depth_and_index` (a root has no parent
    fingerprint and no index) and `_assert_valid_key` (the version says private or public; a private key is
    0x00 ‖ q with 0 < q < n, a public key 0x02/0x03 ‖ x with x an x-coordinate of the curve; an unknown version is
    refused). `n` and the x-coordinate predicate are parameters. -/
def xkeySemValid (n : Nat) (isX : Nat → Bool) (k : Wire.XKey) : Bool :=
  (k.depth != 0 || (k.parentFp == [0, 0, 0, 0] && k.index == 0)) &&
  (if XPRV_ALL.contains (Address.toNats k.version) then
     k.key.head? == some 0 && (decide (0 < ofBE (k.key.drop 1)) && decide (ofBE (k.key.drop 1) < n))
   else if XPUB_ALL.contains (Address.toNats k.version) then
     (k.key.head? == some 2 || k.key.head? == some 3) && isX (ofBE (k.key.drop 1))
   else false)

/-- `BIP32KeyData.b58decode` (validity checked). -/
def xkeyDecodeChecked (H : Bytes → Bytes) (n : Nat) (isX : Nat → Bool) (s : List Nat) : Except Err Wire.XKey :=
  match xkeyDecode H s with
  | .error e => .error e
  | .ok k => if xkeySemValid n isX k then .ok k else .error .xkey

end Btc.KeyText
