import Model.C06.Bech32
import Model.C06.BitRegroup
import Model.C06.Base58
import Generated.Segwit
import Generated.Net
/-
Address layer: `b32.witness_from_address / address_from_witness / is_segwit_prefixed`,
`b58.address_from_h160 / h160_from_address`, `network.network_from_key_value`,
`script_pub_key.address / ScriptPubKey.from_address` (classification restricted to the types that
have an address; p2pk / p2ms / nulldata / unknown are all `other`, answered "").
Network tables and program sizes are generated from the source.
-/
namespace Btc.Address
open Btc Gen.Net Gen.Segwit

inductive Err
  | bech32 (e : Bech32.Err) | regroup (e : BitRegroup.Err) | base58 (e : Base58.Err)
  | tooLong | witnessVersion | programSize | unknownHrp | unknownPrefix | scriptType | network
  deriving DecidableEq, Repr

def Err.cls : Err → String
  | .bech32 e => e.cls
  | _ => "value"

/-- Python `str.isspace` on code points below 256. -/
def isSpace (c : Nat) : Bool :=
  (9 ≤ c && c ≤ 13) || (28 ≤ c && c ≤ 32) || c == 0x85 || c == 0xa0

def lstrip : List Nat → List Nat
  | [] => []
  | c :: cs => if isSpace c then lstrip cs else c :: cs

/-- `str.strip()`. -/
def strip (s : List Nat) : List Nat := (lstrip (lstrip s).reverse).reverse

/-- `network_from_key_value(key, value)`: the FIRST network of NETWORKS carrying the value. -/
def networkFrom (field : Network → List Nat) (value : List Nat) : Option Network :=
  NETWORKS.find? fun n => field n = value

/-- `network_from_name`. -/
def networkNamed (name : String) : Option Network :=
  NETWORKS.find? fun n => n.name = (name.map Char.toLower)  -- `strip().lower()`; tokens carry no blanks

/-- `bytes_from_witness_program`: admissible (version, size), from the generated table. -/
def programOk (ver size : Nat) : Bool :=
  match PROGRAM_SIZES.lookup ver with
  | some sizes => sizes.contains size
  | none => false

def toNats (b : Bytes) : List Nat := b.map (·.toNat)
def ofNats (l : List Nat) : Bytes := l.map UInt8.ofNat

/-- `b32._address_from_witness`. -/
def addressFromWitness (ver : Int) (prog : Bytes) (hrp : List Nat) : Except Err (List Nat) :=
  if ver < 0 ∨ ¬ ver < 17 then .error .witnessVersion
  else if !programOk ver.toNat prog.length then
    (if PROGRAM_SIZES.lookup ver.toNat = none then .error .witnessVersion else .error .programSize)
  else
    match BitRegroup.convert (toNats prog) 8 5 true with
    | .error e => .error (.regroup e)
    | .ok d =>
      match Bech32.encodeNat hrp (ver.toNat :: d) none with
      | .error e => .error (.bech32 e)
      | .ok s => .ok s

/-- `b32.witness_from_address`: (version, program, network name). -/
def witnessFromAddress (addr : List Nat) : Except Err (Nat × Bytes × String) :=
  let addr := strip addr
  if addr.length > MAX_ADDR_LEN then .error .tooLong else
  match Bech32.decode addr none with
  | .error e => .error (.bech32 e)
  | .ok (hrp, data) =>
    match data with
    | [] => .error (.bech32 .emptyData)   -- unreachable: decode refuses empty data when m is None
    | ver :: rest =>
      match BitRegroup.convert rest 5 8 false with
      | .error e => .error (.regroup e)
      | .ok prog =>
        if !programOk ver prog.length then
          (if PROGRAM_SIZES.lookup ver = none then .error .witnessVersion else .error .programSize)
        else
          match networkFrom (·.hrp) hrp with
          | none => .error .unknownHrp
          | some net => .ok (ver, ofNats prog, net.name)

/-- `b32.is_segwit_prefixed`. -/
def isSegwitPrefixed (addr : List Nat) : Bool :=
  let s := Bech32.lower (strip addr)
  NETWORKS.any fun n => (n.hrp ++ [49]).isPrefixOf s

inductive Kind | p2pkh | p2sh | p2wpkh | p2wsh | p2tr | witnessUnknown | other
  deriving DecidableEq, Repr

def Kind.name : Kind → String
  | .p2pkh => "p2pkh" | .p2sh => "p2sh" | .p2wpkh => "p2wpkh" | .p2wsh => "p2wsh"
  | .p2tr => "p2tr" | .witnessUnknown => "witness_unknown" | .other => "other"

/-- `b58.address_from_h160`. -/
def addressFromH160 (H : Bytes → Bytes) (kind : Kind) (h160 : Bytes) (net : Network) : Except Err (List Nat) :=
  match (match kind with | .p2sh => some net.p2sh | .p2pkh => some net.p2pkh | _ => none) with
  | none => .error .scriptType
  | some pre =>
    if h160.length ≠ 20 then .error (.base58 .size)
    else .ok (Base58.encode H (ofNats pre ++ h160))

/-- `b58.h160_from_address`: (type, hash, network name); p2pkh is looked up before p2sh. -/
def h160FromAddress (H : Bytes → Bytes) (addr : List Nat) : Except Err (Kind × Bytes × String) :=
  match Base58.decode H (strip addr) (some 21) with
  | .error e => .error (.base58 e)
  | .ok payload =>
    let pre := toNats (payload.take 1)
    match networkFrom (·.p2pkh) pre with
    | some net => .ok (.p2pkh, payload.drop 1, net.name)
    | none =>
      match networkFrom (·.p2sh) pre with
      | some net => .ok (.p2sh, payload.drop 1, net.name)
      | none => .error .unknownPrefix

/-- `assert_segwit` as a predicate. -/
def isSegwit (s : Bytes) : Bool :=
  match s with
  | v :: l :: prog => (v == 0 || (0x51 ≤ v && v ≤ 0x60)) && (2 ≤ l && l ≤ 40) && prog.length == l.toNat
  | _ => false

/-- `type_and_payload` restricted to the address-bearing types (tested in btclib's order). -/
def typeAndPayload (s : Bytes) : Kind × Bytes :=
  if s.length = 25 ∧ s.take 3 = [0x76, 0xa9, 0x14] ∧ s.drop 23 = [0x88, 0xac] then (.p2pkh, (s.drop 3).take 20)
  else if s.length = 23 ∧ s.take 2 = [0xa9, 0x14] ∧ s.drop 22 = [0x87] then (.p2sh, (s.drop 2).take 20)
  else if s.length = 22 ∧ s.take 2 = [0x00, 0x14] then (.p2wpkh, s.drop 2)
  else if s.length = 34 ∧ s.take 2 = [0x00, 0x20] then (.p2wsh, s.drop 2)
  else if s.length = 34 ∧ s.take 2 = [0x51, 0x20] then (.p2tr, s.drop 2)
  else if isSegwit s ∧ s.head? ≠ some 0 then (.witnessUnknown, s.drop 2)
  else (.other, s)

/-- `script_pub_key.address(script, network)`; "" when the script has no address. -/
def address (H : Bytes → Bytes) (s : Bytes) (network : String) : Except Err (List Nat) :=
  match typeAndPayload s with
  | (.other, _) => .ok []
  | (kind, payload) =>
    match networkNamed network with
    | none => .error .network
    | some net =>
      match kind with
      | .p2pkh | .p2sh => addressFromH160 H kind payload net
      | .p2wpkh | .p2wsh => addressFromWitness 0 payload net.hrp
      | .p2tr => addressFromWitness 1 payload net.hrp
      | _ => addressFromWitness ((s.headD 0).toNat - 0x50 : Int) payload net.hrp

def opInt (v : Nat) : UInt8 := if v = 0 then 0 else UInt8.ofNat (0x50 + v)

/-- `ScriptPubKey.from_address`: (script bytes, network name). -/
def fromAddress (H : Bytes → Bytes) (addr : List Nat) : Except Err (Bytes × String) :=
  if isSegwitPrefixed addr then
    match witnessFromAddress addr with
    | .error e => .error e
    | .ok (ver, prog, net) => .ok (opInt ver :: UInt8.ofNat prog.length :: prog, net)
  else
    match h160FromAddress H addr with
    | .error e => .error e
    | .ok (.p2sh, h, net) => .ok ([0xa9, 0x14] ++ h ++ [0x87], net)
    | .ok (_, h, net) => .ok ([0x76, 0xa9, 0x14] ++ h ++ [0x88, 0xac], net)

end Btc.Address
