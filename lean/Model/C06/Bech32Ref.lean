import Model.Common.Bytes
/-
The BIP173 / BIP350 reference (`segwit_addr.py` of the BIPs), transcribed literally: its own
constants, its own five-generator loop, its own order of checks. Nothing here is generated from
btclib: this file is the *specification* the model (and, by correspondence, btclib) is compared to.
-/
namespace Btc.Bech32Ref

/-- CHARSET = "qpzry9x8gf2tvdw0s3jn54khce6mua7l" -/
def CHARSET : List Nat := "qpzry9x8gf2tvdw0s3jn54khce6mua7l".toList.map Char.toNat
def BECH32M_CONST : Nat := 0x2bc830a3
def generator : List Nat := [0x3b6a57b2, 0x26508e6d, 0x1ea119fa, 0x3d4233dd, 0x2a1462b3]

inductive Encoding | bech32 | bech32m
  deriving DecidableEq, Repr

/-- `for i in range(5): chk ^= generator[i] if ((top >> i) & 1) else 0` -/
def genLoop (top : Nat) : List Nat → Nat → Nat → Nat
  | [], _, chk => chk
  | g :: gs, i, chk => genLoop top gs (i + 1) (chk ^^^ (if (top >>> i) &&& 1 = 1 then g else 0))

/-- body of the loop of `bech32_polymod`. -/
def polymodStep (chk value : Nat) : Nat :=
  let top := chk >>> 25
  let chk := ((chk &&& 0x1ffffff) <<< 5) ^^^ value
  genLoop top generator 0 chk

def polymodFrom (chk : Nat) (values : List Nat) : Nat := values.foldl polymodStep chk

/-- `bech32_polymod`. -/
def polymod (values : List Nat) : Nat := polymodFrom 1 values

/-- `bech32_hrp_expand`. -/
def hrpExpand (hrp : List Nat) : List Nat := hrp.map (· >>> 5) ++ [0] ++ hrp.map (· &&& 31)

/-- `bech32_verify_checksum`. -/
def verifyChecksum (hrp : List Nat) (data : List Nat) : Option Encoding :=
  let c := polymod (hrpExpand hrp ++ data)
  if c = 1 then some .bech32 else if c = BECH32M_CONST then some .bech32m else none

/-- `bech32_create_checksum`. -/
def createChecksum (hrp : List Nat) (data : List Nat) (spec : Encoding) : List Nat :=
  let const := if spec = .bech32m then BECH32M_CONST else 1
  let pm := polymod (hrpExpand hrp ++ data ++ [0, 0, 0, 0, 0, 0]) ^^^ const
  [0, 1, 2, 3, 4, 5].map fun i => (pm >>> (5 * (5 - i))) &&& 31

/-- `bech32_encode`. -/
def encode (hrp : List Nat) (data : List Nat) (spec : Encoding) : List Nat :=
  let combined := data ++ createChecksum hrp data spec
  hrp ++ [49] ++ combined.map (CHARSET.getD · 0)

def lowerC (c : Nat) : Nat := if 65 ≤ c ∧ c ≤ 90 then c + 32 else c
def upperC (c : Nat) : Nat := if 97 ≤ c ∧ c ≤ 122 then c - 32 else c

/-- `bech.rfind('1')` as an index. -/
def rfind (c : Nat) : List Nat → Option Nat
  | [] => none
  | x :: xs =>
    match rfind c xs with
    | some i => some (i + 1)
    | none => if x = c then some 0 else none

def findAll : List Nat → Option (List Nat)
  | [] => some []
  | x :: xs =>
    match CHARSET.idxOf? x, findAll xs with
    | some d, some r => some (d :: r)
    | _, _ => none

/-- `bech32_decode`: (hrp, data without checksum, encoding). -/
def decode (bech : List Nat) : Option (List Nat × List Nat × Encoding) :=
  if bech.any (fun x => x < 33 || x > 126) ||
     (decide (bech.map lowerC ≠ bech) && decide (bech.map upperC ≠ bech)) then none else
  let bech := bech.map lowerC
  match rfind 49 bech with
  | none => none
  | some pos =>
    if pos < 1 ∨ pos + 7 > bech.length ∨ bech.length > 90 then none else
    match findAll (bech.drop (pos + 1)) with
    | none => none
    | some data =>
      let hrp := bech.take pos
      match verifyChecksum hrp data with
      | none => none
      | some spec => some (hrp, data.take (data.length - 6), spec)

/-- `convertbits(data, frombits, tobits, pad)`: general power-of-2 base conversion. -/
def convertLoop (frombits tobits : Nat) : List Nat → Nat → Nat → List Nat → Option (Nat × Nat × List Nat)
  | [], acc, bits, ret => some (acc, bits, ret)
  | value :: rest, acc, bits, ret =>
    if value >>> frombits ≠ 0 then none else
    let acc := ((acc <<< frombits) ||| value) &&& ((1 <<< (frombits + tobits - 1)) - 1)
    let bits := bits + frombits
    -- while bits >= tobits: bits -= tobits; ret.append((acc >> bits) & maxv)
    let rec drain : Nat → Nat → List Nat → Nat × List Nat
      | 0, bits, ret => (bits, ret)
      | fuel + 1, bits, ret =>
        if bits ≥ tobits then drain fuel (bits - tobits) (ret ++ [(acc >>> (bits - tobits)) &&& ((1 <<< tobits) - 1)])
        else (bits, ret)
    let (bits, ret) := drain (bits + 1) bits ret
    convertLoop frombits tobits rest acc bits ret

def convertbits (data : List Nat) (frombits tobits : Nat) (pad : Bool) : Option (List Nat) :=
  match convertLoop frombits tobits data 0 0 [] with
  | none => none
  | some (acc, bits, ret) =>
    let maxv := (1 <<< tobits) - 1
    if pad then
      if bits ≠ 0 then some (ret ++ [(acc <<< (tobits - bits)) &&& maxv]) else some ret
    else if bits ≥ frombits ∨ ((acc <<< (tobits - bits)) &&& maxv) ≠ 0 then none
    else some ret

/-- segwit `decode(hrp, addr)`: (witver, witprog). -/
def segwitDecode (hrp : List Nat) (addr : List Nat) : Option (Nat × List Nat) :=
  match decode addr with
  | none => none
  | some (hrpgot, data, spec) =>
    if hrpgot ≠ hrp then none else
    match convertbits (data.drop 1) 5 8 false with
    | none => none
    | some decoded =>
      if decoded.length < 2 ∨ decoded.length > 40 then none else
      match data with
      | [] => none
      | d0 :: _ =>
        if d0 > 16 then none
        else if d0 = 0 ∧ decoded.length ≠ 20 ∧ decoded.length ≠ 32 then none
        else if (d0 = 0 ∧ spec ≠ .bech32) ∨ (d0 ≠ 0 ∧ spec ≠ .bech32m) then none
        else some (d0, decoded)

/-- segwit `encode(hrp, witver, witprog)`. -/
def segwitEncode (hrp : List Nat) (witver : Nat) (witprog : List Nat) : Option (List Nat) :=
  let spec := if witver = 0 then Encoding.bech32 else Encoding.bech32m
  match convertbits witprog 8 5 true with
  | none => none
  | some d =>
    let ret := encode hrp (witver :: d) spec
    if segwitDecode hrp ret = none then none else some ret

end Btc.Bech32Ref
