import Model.Common.Bytes
import Model.Common.Py
import Generated.Base58
/-
Base58 / Base58Check (`btclib/base58.py`) mirrored function by function. Characters are byte values
(`List Nat`); the hash is a parameter `H` (hash256 in btclib).
-/
namespace Btc.Base58
open Gen.Base58 Btc

inductive Err | tooLong | badChar | short | checksum | size
  deriving DecidableEq, Repr

/-- `_CHUNK_BASE = __BASE ** _CHUNK`, for an arbitrary chunk size. -/
def chunkBase (chunk : Nat) : Nat := BASE ^ chunk

/-- `for _ in range(_CHUNK): chunk, digit = divmod(chunk, __BASE); digits.append(digit)` -/
def chunkDigits : Nat → Nat → List Nat
  | 0, _ => []
  | n + 1, c => (c % BASE) :: chunkDigits n (c / BASE)

/-- first loop of `_b58encode_from_int`: (digits least-significant first, what is left of i). -/
def encLoop1 (chunk : Nat) : Nat → Nat → List Nat × Nat
  | 0, i => ([], i)
  | fuel + 1, i =>
    if i ≥ chunkBase chunk then
      let r := encLoop1 chunk fuel (i / chunkBase chunk)
      (chunkDigits chunk (i % chunkBase chunk) ++ r.1, r.2)
    else ([], i)

/-- second loop: `while i or not digits`. -/
def encLoop2 : Nat → Nat → Bool → List Nat
  | 0, _, _ => []
  | fuel + 1, i, noDigits =>
    if i ≠ 0 ∨ noDigits then (i % BASE) :: encLoop2 fuel (i / BASE) false else []

/-- digits of `_b58encode_from_int(i)`, most significant first, for chunk size `chunk`. -/
def digitsOfIntC (chunk i : Nat) : List Nat :=
  let r := encLoop1 chunk (i + 1) i
  (r.1 ++ encLoop2 (i + 1) r.2 r.1.isEmpty).reverse

/-- with the generated `_CHUNK`. -/
def digitsOfInt (i : Nat) : List Nat := digitsOfIntC CHUNK i

def charOf (d : Nat) : Nat := ALPHABET.getD d 0
def digitOf (c : Nat) : Option Nat := ALPHABET.idxOf? c

def stripLeading {α} [DecidableEq α] (z : α) : List α → List α
  | [] => []
  | x :: xs => if x = z then stripLeading z xs else x :: xs

/-- `_b58encode`. -/
def b58encode (v : Bytes) : List Nat :=
  let w := stripLeading (0 : UInt8) v
  let nPad := v.length - w.length
  List.replicate nPad (charOf 0) ++ (if w.isEmpty then [] else (digitsOfInt (ofBE w)).map charOf)

/-- `encode(v)`: Base58Check. -/
def encode (H : Bytes → Bytes) (v : Bytes) : List Nat := b58encode (v ++ (H v).take CHECKSUM_LEN)

def chunkValue (ds : List Nat) : Nat := ds.foldl (fun v d => v * BASE + d) 0

/-- `_b58decode_to_int` on digits: one accumulator multiplication per chunk. -/
def decodeToInt (chunk : Nat) : Nat → List Nat → Nat → Nat
  | 0, _, i => i
  | fuel + 1, ds, i =>
    if ds.isEmpty then i else
    let c := ds.take chunk
    decodeToInt chunk fuel (ds.drop chunk) (i * BASE ^ c.length + chunkValue c)

def allDigits : List Nat → Option (List Nat)
  | [] => some []
  | c :: cs =>
    match digitOf c, allDigits cs with
    | some d, some r => some (d :: r)
    | _, _ => none

/-- minimal big-endian bytes of a positive integer: `i.to_bytes((i.bit_length() + 7) // 8, "big")`. -/
def minimalBE (i : Nat) : Bytes := beBytes ((Py.natBitLength i + 7) / 8) i

/-- `_b58decode`. -/
def b58decode (v : List Nat) : Except Err Bytes :=
  match allDigits v with
  | none => .error .badChar
  | some ds =>
    let w := stripLeading 0 ds
    let nPad := ds.length - w.length
    .ok (List.replicate nPad (0 : UInt8) ++ (if w.isEmpty then [] else minimalBE (decodeToInt CHUNK (w.length + 1) w 0)))

/-- `decode(v, out_size)`. -/
def decode (H : Bytes → Bytes) (v : List Nat) (outSize : Option Nat) : Except Err Bytes :=
  if v.length > MAX_LENGTH then .error .tooLong else
  match b58decode v with
  | .error e => .error e
  | .ok r =>
    if r.length < CHECKSUM_LEN then .error .short else
    let payload := r.take (r.length - CHECKSUM_LEN)
    let chk := r.drop (r.length - CHECKSUM_LEN)
    if chk ≠ (H payload).take CHECKSUM_LEN then .error .checksum else
    match outSize with
    | none => .ok payload
    | some n => if payload.length = n then .ok payload else .error .size

end Btc.Base58
