import Model.Common.Bytes
/-
BIP21 payment URIs (`btclib/bip21.py`): the query layer of `Bip21.parse` — element splitting, percent-decoding of
parameter names and values (`_decode`), the repeated-parameter rule — and the escaping `serialize` applies
(`urllib.parse.quote(text, safe=_SAFE)`). Text is a list of code points; the model is for ASCII text (an escape of
an octet ≥ 0x80 is answered `nonAscii`: UTF-8 reassembly is not modelled, the stream sends none). The `amount`
grammar / range and the address are not modelled here (real-code oracles).
-/
namespace Btc.Bip21
open Btc

inductive Err | malformedEscape | nonAscii | repeated
  deriving DecidableEq, Repr

def hexVal (c : Nat) : Option Nat :=
  if 48 ≤ c ∧ c ≤ 57 then some (c - 48)
  else if 65 ≤ c ∧ c ≤ 70 then some (c - 55)
  else if 97 ≤ c ∧ c ≤ 102 then some (c - 87)
  else none

/-- `_decode`: a `%` must start an escape of two hexadecimal digits; other characters stand for themselves. -/
def pctDecode : List Nat → Except Err (List Nat)
  | [] => .ok []
  | c :: rest =>
    if c = 37 then
      match rest with
      | a :: b :: rest' =>
        match hexVal a, hexVal b with
        | some x, some y =>
          if 16 * x + y < 128 then (pctDecode rest').map (fun r => (16 * x + y) :: r) else .error .nonAscii
        | _, _ => .error .malformedEscape
      | _ => .error .malformedEscape
    else (pctDecode rest).map (fun r => c :: r)

/-- `str.partition(sep)`: (before, after) — `after` is empty when the separator is absent. -/
def partition (sep : Nat) : List Nat → List Nat × List Nat
  | [] => ([], [])
  | c :: cs => if c = sep then ([], cs) else let r := partition sep cs; (c :: r.1, r.2)

/-- `str.split(sep)`. -/
def splitOn (sep : Nat) : List Nat → List (List Nat)
  | [] => [[]]
  | c :: cs =>
    match splitOn sep cs with
    | [] => [[c]]   -- unreachable
    | x :: xs => if c = sep then [] :: x :: xs else (c :: x) :: xs

/-- one `key=value` element: (decoded name, decoded value). -/
def decodeElement (e : List Nat) : Except Err (List Nat × List Nat) :=
  let kv := partition 61 e
  match pctDecode kv.1 with
  | .error err => .error err
  | .ok k =>
    match pctDecode kv.2 with
    | .error err => .error err
    | .ok v => .ok (k, v)

/-- the loop of `Bip21.parse` over `query.split("&")`: empty elements skipped, the name decoded FIRST, then looked up
    in `seen`; values decoded. Answers the parameters in order. (btclib decodes the value after the repeat check:
    a repeated name is reported before a bad escape in its value; both are one refusal class.) -/
def parseLoop : List (List Nat) → List (List Nat) → Except Err (List (List Nat × List Nat))
  | [], _ => .ok []
  | e :: es, seen =>
    if e = [] then parseLoop es seen else
    let kv := partition 61 e
    match pctDecode kv.1 with
    | .error err => .error err
    | .ok k =>
      if k ∈ seen then .error .repeated else
      match pctDecode kv.2 with
      | .error err => .error err
      | .ok v => (parseLoop es (k :: seen)).map (fun r => (k, v) :: r)

/-- the query of a URI remainder: up to the first `#`, split at `&` (an empty query has no element). -/
def parseQuery (query : List Nat) : Except Err (List (List Nat × List Nat)) :=
  let q := (partition 35 query).1
  parseLoop (if q = [] then [] else splitOn 38 q) []

/-- characters `quote(…, safe=_SAFE)` leaves alone: unreserved (letters, digits, `_.-~`) and `_SAFE`. -/
def SAFE : List Nat := [47, 58, 64, 33, 36, 39, 40, 41, 42, 43, 44, 59]   -- "/:@!$'()*+,;"
def isPlain (c : Nat) : Bool :=
  (48 ≤ c && c ≤ 57) || (65 ≤ c && c ≤ 90) || (97 ≤ c && c ≤ 122) || c == 95 || c == 46 || c == 45 || c == 126 ||
    SAFE.contains c

def hexDigit (d : Nat) : Nat := if d < 10 then 48 + d else 55 + d   -- upper case, as `quote` writes

/-- `quote(text, safe=_SAFE)` on ASCII text. -/
def pctEncode : List Nat → List Nat
  | [] => []
  | c :: cs => if isPlain c then c :: pctEncode cs else 37 :: hexDigit (c / 16) :: hexDigit (c % 16) :: pctEncode cs

end Btc.Bip21
