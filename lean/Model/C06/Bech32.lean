import Model.Common.Bytes
import Generated.Bech32
/-
Bech32 / Bech32m codec (`btclib/bech32.py`), mirrored function by function.
Text is a list of code points (`List Nat`); 5-bit values are naturals.
All tables and constants (`ALPHABET, TAPS, POLY_*, HRP_*, BECH32_*_CONST`) come from
`Generated/Bech32.lean`, i.e. from the current source.
-/
namespace Btc.Bech32
open Gen.Bech32

inductive Err
  | noSeparator | emptyHrp | shortChecksum | hrpRange | mixedCase | badChecksumChar | badDataChar
  | emptyData | checksum | badValue | nonAscii
  deriving DecidableEq, Repr

/-- canonical class on the line protocol: everything is a BTClibValueError, including the
    non-ascii HRP that `s.encode("ascii")` in `encode` refuses (re-raised as ValueError since 90be8f62). -/
def Err.cls : Err → String
  | _ => "value"

/-- `_TAPS[top]` (reachable arguments have `top < 32`, see `Proofs/C06/Polymod.lean`). -/
def tap (top : Nat) : Nat := TAPS.getD top 0

/-- loop body of `_polymod`. -/
def polymodStep (chk value : Nat) : Nat :=
  ((chk &&& POLY_MASK) <<< POLY_SHIFT) ^^^ value ^^^ tap (chk >>> POLY_TOP)

/-- `_polymod`, from an arbitrary start value. -/
def polymodFrom (chk : Nat) (values : List Nat) : Nat := values.foldl polymodStep chk

/-- `_polymod`. -/
def polymod (values : List Nat) : Nat := polymodFrom POLY_INIT values

/-- `_hrp_expand`. -/
def hrpExpand (hrp : List Nat) : List Nat :=
  hrp.map (· >>> 5) ++ [0] ++ hrp.map (· &&& 31)

/-- `_create_checksum`. -/
def createChecksum (hrp : List Nat) (data : List Nat) (m : Nat) : List Nat :=
  let pm := polymod (hrpExpand hrp ++ data ++ [0, 0, 0, 0, 0, 0]) ^^^ m
  [0, 1, 2, 3, 4, 5].map fun i => (pm >>> (5 * (5 - i))) &&& 31

/-- `_m_from_wit_ver`. -/
def mFromWitVer : List Nat → Except Err Nat
  | [] => .error .emptyData
  | v :: _ => .ok (if v = 0 then BECH32_1_CONST else BECH32_M_CONST)

/-- `m = _m_from_wit_ver(data) if m is None else m`. -/
def pickM (m : Option Nat) (data : List Nat) : Except Err Nat :=
  match m with
  | some m => .ok m
  | none => mFromWitVer data

/-- `_verify_checksum`. -/
def verifyChecksum (hrp : List Nat) (data : List Nat) (m : Nat) : Bool :=
  polymod (hrpExpand hrp ++ data) = m

def lowerC (c : Nat) : Nat := if 65 ≤ c ∧ c ≤ 90 then c + 32 else c
def upperC (c : Nat) : Nat := if 97 ≤ c ∧ c ≤ 122 then c - 32 else c
/-- `str.lower()` / `str.upper()` on ASCII (non-ASCII text is refused on every path, see harness). -/
def lower (s : List Nat) : List Nat := s.map lowerC
def upper (s : List Nat) : List Nat := s.map upperC

/-- split at the LAST occurrence of `c` (`text.rfind`): (before, after). -/
def splitLast (c : Nat) : List Nat → Option (List Nat × List Nat)
  | [] => none
  | x :: xs =>
    match splitLast c xs with
    | some (a, b) => some (x :: a, b)
    | none => if x = c then some ([], xs) else none

/-- `_INDEX_OF.get(x, -1)`. -/
def indexOf (c : Nat) : Option Nat := ALPHABET.idxOf? c

def allSome : List (Option Nat) → Option (List Nat)
  | [] => some []
  | none :: _ => none
  | some x :: xs => (allSome xs).map (x :: ·)

/-- `_decode`: (hrp, data, checksum). -/
def decodeRaw (text : List Nat) : Except Err (List Nat × List Nat × List Nat) :=
  match splitLast 49 text with
  | none => .error .noSeparator
  | some (pre, post) =>
    if pre = [] then .error .emptyHrp
    else if pre.length + SEP_CHK_LEN > text.length then .error .shortChecksum
    else if !(pre.all fun x => HRP_LO < x && x < HRP_HI) then .error .hrpRange
    else if lower text ≠ text ∧ upper text ≠ text then .error .mixedCase
    else
      let idx := (lower post).map indexOf
      match allSome (idx.drop (idx.length - 6)), allSome idx with
      | none, _ => .error .badChecksumChar
      | _, none => .error .badDataChar
      | _, some data => .ok (lower pre, data.take (data.length - 6), data.drop (data.length - 6))

/-- `decode(bech, m)`. -/
def decode (text : List Nat) (m : Option Nat) : Except Err (List Nat × List Nat) :=
  match decodeRaw text with
  | .error e => .error e
  | .ok (hrp, data, chk) =>
    match pickM m data with
    | .error e => .error e
    | .ok m => if verifyChecksum hrp (data ++ chk) m then .ok (hrp, data) else .error .checksum

/-- `encode(hrp, data, m)` once the digits are known to be naturals. -/
def encodeNat (hrp : List Nat) (data : List Nat) (m : Option Nat) : Except Err (List Nat) :=
  if !(data.all (· < 32)) then .error .badValue else
  match pickM m data with
  | .error e => .error e
  | .ok m =>
    let combined := data ++ createChecksum hrp data m
    let s := hrp ++ [49] ++ combined.map (ALPHABET.getD · 0)
    if s.all (· < 128) then .ok s else .error .nonAscii

/-- `encode(hrp, data, m)` on Python ints: a negative digit or one above 31 is a ValueError. -/
def encode (hrp : List Nat) (data : List Int) (m : Option Nat) : Except Err (List Nat) :=
  if data.all (fun d => 0 ≤ d && d < 32) then encodeNat hrp (data.map Int.toNat) m else .error .badValue

end Btc.Bech32
