import Model.C06.Address
/-
SLIP132: which address type an extended-key version commits to (`slip132.address_from_xpub`,
`p2pkh_xkey / p2wpkh_p2sh_xkey / p2wpkh_xkey`). The version table is generated from `network.py`.
-/
namespace Btc.Slip132
open Gen.Net

/-- (script type, private?, main?) of a version. -/
def info (version : List Nat) : Option (Nat × Bool × Bool) :=
  (SLIP132.find? fun r => r.1 = version).map (·.2)

/-- `slip132.address_from_xpub` dispatch: the address type written for a PUBLIC key of this version
    (0 p2pkh, 1 p2wpkh, 2 p2wpkh-p2sh); the p2wsh kinds have no single-key address. -/
def addressKind (version : List Nat) : Option Nat :=
  match info version with
  | some (k, false, _) => if k ≤ 2 then some k else none
  | _ => none

/-- `p2pkh_xkey / p2wpkh_xkey / p2wpkh_p2sh_xkey`: the version given to a child of `parent`'s network and
    privacy for script type `k`. -/
def versionFor (parent : List Nat) (k : Nat) : Option (List Nat) :=
  match info parent with
  | none => none
  | some (_, prv, main) => (SLIP132.find? fun r => r.2.1 = k ∧ r.2.2.1 = prv ∧ r.2.2.2 = main).map (·.1)

end Btc.Slip132
