import Model.C06.Address
/-
SLIP132 (`btclib/slip132.py`), mirrored function by function:
* `_helper_checks`: the network is `NETWORKS[network_from_xkeyversion(xkey.version)]` (first network carrying
  the version among its private or public versions);
* `p2pkh_xkey / p2wpkh_xkey / p2wpkh_p2sh_xkey`: `version = network.A if xkey.is_private else network.B` —
  which A and B each builder reads is REGENERATED from the source (`Gen.Net.SLIP132_BUILDERS`); the privacy
  is that of the KEY (`key[0] == 0`), a parameter here;
* `address_from_xpub`: the first (field, address function) of the regenerated `Gen.Net.SLIP132_ADDRESS` whose
  field of some network equals the version, with `network_from_key_value`'s first-match network.
The table `Gen.Net.SLIP132` (version ↦ script type, private?, main?) is read off the Network field NAMES.
-/
namespace Btc.Slip132
open Gen.Net

/-- (script type, private?, main?) of a version, by the NAME of the Network field that holds it. -/
def info (version : List Nat) : Option (Nat × Bool × Bool) :=
  (SLIP132.find? fun r => r.1 = version).map (·.2)

/-- a Network field named by (private list?, position). -/
def fieldOf (f : Bool × Nat) (n : Network) : List Nat := (if f.1 then n.xprv else n.xpub).getD f.2 []

/-- `network.network_from_xkeyversion`: first network (iteration order) carrying the version. -/
def networkFromXkeyVersion (version : List Nat) : Option Network :=
  NETWORKS.find? fun n => (n.xprv ++ n.xpub).contains version

/-- `p2pkh_xkey / p2wpkh_xkey / p2wpkh_p2sh_xkey` (by function name): the version handed to `derive` for a
    parent of this version whose key is private (`key[0] == 0`) or not. -/
def builderVersion (fn : String) (parent : List Nat) (isPrivate : Bool) : Option (List Nat) :=
  match SLIP132_BUILDERS.find? (fun r => r.1 = fn), networkFromXkeyVersion parent with
  | some (_, fprv, fpub), some net => some (fieldOf (if isPrivate then fprv else fpub) net)
  | _, _ => none

/-- `address_from_xpub` dispatch: (address function, network it writes with); `none` is "unknown xpub version". -/
def addressDispatch (version : List Nat) : Option (String × Network) :=
  SLIP132_ADDRESS.findSome? fun r => (Address.networkFrom (fieldOf r.1) version).map fun m => (r.2, m)

/-- the script type a builder is FOR (its name; 0 p2pkh, 1 p2wpkh, 2 p2wpkh-p2sh as in `Gen.Net.XKEY_KINDS`). -/
def builderKind : String → Option Nat
  | "p2pkh_xkey" => some 0 | "p2wpkh_xkey" => some 1 | "p2wpkh_p2sh_xkey" => some 2 | _ => none

/-- the script type an address function writes. -/
def functionKind : String → Option Nat
  | "b58.p2pkh" => some 0 | "b32.p2wpkh" => some 1 | "b58.p2wpkh_p2sh" => some 2 | _ => none

end Btc.Slip132
