import Model.Common.Bytes
/-
`b32.power_of_2_base_conversion(data, from_bits, to_bits, pad)` mirrored statement by statement:
the accumulator masked to `from_bits + to_bits - 1` bits, the `while bits >= to_bits` drain, and the
three BIP173 endings (pad / more than `from_bits - 1` bits of padding / non-zero padding).
-/
namespace Btc.BitRegroup

inductive Err | badValue | excessPadding | nonZeroPadding
  deriving DecidableEq, Repr

def maxv (t : Nat) : Nat := (1 <<< t) - 1
def maxAcc (f t : Nat) : Nat := (1 <<< (f + t - 1)) - 1

/-- `while bits >= to_bits: bits -= to_bits; ret.append((acc >> bits) & maxv)`; (bits left, emitted). -/
def drain (t acc : Nat) : Nat → Nat → Nat × List Nat
  | 0, bits => (bits, [])
  | fuel + 1, bits =>
    if bits ≥ t then
      let r := drain t acc fuel (bits - t)
      (r.1, ((acc >>> (bits - t)) &&& maxv t) :: r.2)
    else (bits, [])

/-- the `for value in data` loop from state (acc, bits): final (acc, bits) and everything emitted. -/
def loop (f t : Nat) : List Nat → Nat → Nat → Except Err (Nat × Nat × List Nat)
  | [], acc, bits => .ok (acc, bits, [])
  | v :: rest, acc, bits =>
    if v >>> f ≠ 0 then .error .badValue else
    let acc' := ((acc <<< f) ||| v) &&& maxAcc f t
    let d := drain t acc' (bits + f + 1) (bits + f)
    match loop f t rest acc' d.1 with
    | .error e => .error e
    | .ok (a, b, out) => .ok (a, b, d.2 ++ out)

/-- `power_of_2_base_conversion` on non-negative digits (`to_bits ≥ 1`). -/
def convert (data : List Nat) (f t : Nat) (pad : Bool) : Except Err (List Nat) :=
  match loop f t data 0 0 with
  | .error e => .error e
  | .ok (acc, bits, ret) =>
    if pad then
      if bits ≠ 0 then .ok (ret ++ [(acc <<< (t - bits)) &&& maxv t]) else .ok ret
    else if bits ≥ f then .error .excessPadding
    else if (acc <<< (t - bits)) &&& maxv t ≠ 0 then .error .nonZeroPadding
    else .ok ret

/-- on Python ints: a negative digit is refused like one that is too big. -/
def convertInt (data : List Int) (f t : Nat) (pad : Bool) : Except Err (List Nat) :=
  if data.all (0 ≤ ·) then convert (data.map Int.toNat) f t pad else .error .badValue

end Btc.BitRegroup
