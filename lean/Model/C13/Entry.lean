import Model.C13.Slip39
import Model.C13.Generate
/-
The two public SLIP39 entry points of btclib/mnemonic/slip39.py at word-index level, WITH their entry checks
(`_assert_valid_passphrase`, `_assert_valid_length`, the iteration-exponent range, the 1-of-N group refusal).
The round function is a parameter `RF iterationExponent identifier extendable : Nat → Bytes → Bytes` (the driver
instantiates it with `roundFunction passphrase`), every string the entropy source hands out is a parameter.
-/
namespace Btc.C13
open Gen.Slip39

/-- `_assert_valid_passphrase`: printable ASCII only (the passphrase as UTF-8 bytes: a non-ASCII character has
    every byte ≥ 128) -/
def validPassphrase (pw : Bytes) : Bool := pw.all fun c => 32 ≤ c.toNat ∧ c.toNat ≤ 126

/-- the loop `if member_threshold == 1 and member_count > 1: raise` of `mnemonics_from_master_secret` -/
def groupsAdmissible (groups : List (Nat × Nat)) : Bool := groups.all fun g => ¬ (g.1 = 1 ∧ g.2 > 1)

def fromGF (s : Share GF256) : ByteShare := { s with value := s.value.map GF256.toByte }

inductive EntryErr
  | passphrase | length | exponent | groups | slip (e : Slip39Err) | encode
  deriving DecidableEq, Repr

/-- `slip39.mnemonics_from_master_secret` up to the word lookup.  `idBytes` is the first `entropy_source(2)`. -/
def mnemonicsFromMasterSecret (hm : Bytes → Bytes → Bytes) (RF : Nat → Nat → Bool → Nat → Bytes → Bytes)
    (passphrase ms : Bytes) (groups : List (Nat × Nat)) (gt iterationExponent : Nat) (extendable : Bool)
    (idBytes : Bytes) (groupRnd : List (List GF256)) (groupRp : List GF256)
    (memberRnd : Nat → List (List GF256)) (memberRp : Nat → List GF256) :
    Except EntryErr (List (List (List Nat))) :=
  if ¬ validPassphrase passphrase then .error .passphrase
  else if ¬ validLength ms.length then .error .length
  else if ¬ iterationExponent < (1 <<< E_BITS) then .error .exponent
  else if ¬ groupsAdmissible groups then .error .groups
  else
    let identifier := ofBE idBytes &&& ((1 <<< ID_BITS) - 1)
    match feistel (RF iterationExponent identifier extendable) ms false with
    | none => .error (.slip .feistel)
    | some ems =>
      match makeShares gf256Ops (digestGF hm) identifier extendable iterationExponent gt groups
          (ems.map GF256.ofByte) groupRnd groupRp memberRnd memberRp with
      | .error e => .error (.slip (.shamir e))
      | .ok table =>
        match table.mapM (fun row => row.mapM fun sh => shareIndexes (fromGF sh)) with
        | none => .error .encode
        | some sentences => .ok sentences

/-- `slip39.master_secret_from_mnemonics` after the word lookup, passphrase check included -/
def masterSecretFromMnemonics (hm : Bytes → Bytes → Bytes) (RF : Nat → Nat → Bool → Nat → Bytes → Bytes)
    (passphrase : Bytes) (sentences : List (List Nat)) : Except EntryErr Bytes :=
  if ¬ validPassphrase passphrase then .error .passphrase
  else
    match masterSecret hm (fun first => RF first.iterationExponent first.identifier first.extendable) sentences with
    | .error e => .error (.slip e)
    | .ok ms => .ok ms

end Btc.C13
