import Model.C13.Shamir
/-
`slip39.mnemonics_from_master_secret` between encryption and the word codec: the two-level split of the encrypted
master secret into the table of decoded shares (one row per group).  Every random byte string the entropy source
hands out is a parameter: the `threshold - 2` free shares and the digest padding of the group-level split, and the
same for the member-level split of each group.
-/
namespace Btc.C13

variable {α : Type} [DecidableEq α]

/-- the header fields every share of one set carries -/
structure SetHeader where
  identifier : Nat
  extendable : Bool
  iterationExponent : Nat
  groupThreshold : Nat
  groupCount : Nat

/-- `_split_secret` with the digest share built as the code builds it: `_digest(random_part, secret) + random_part` -/
def splitWithDigest (o : FOps α) (digest : List α → List α → List α) (threshold count : Nat) (secret : List α)
    (rnd : List (List α)) (rp : List α) : Except ShamirErr (List (List α)) :=
  splitSecret o threshold count secret rnd (digest rp secret ++ rp)

/-- the shares of one group: `[Share(..., group_index, ..., member_index, member_threshold, value) for member_index, value in enumerate(values)]` -/
def groupRow (h : SetHeader) (gi mt : Nat) (values : List (List α)) : List (Share α) :=
  (List.zipIdx values).map fun p =>
    { identifier := h.identifier, extendable := h.extendable, iterationExponent := h.iterationExponent,
      groupIndex := gi, groupThreshold := h.groupThreshold, groupCount := h.groupCount,
      memberIndex := p.2, memberThreshold := mt, value := p.1 }

/-- the loop over `enumerate(zip(group_values, groups))`, from group index `gi` on -/
def memberRows (o : FOps α) (digest : List α → List α → List α) (h : SetHeader)
    (memberRnd : Nat → List (List α)) (memberRp : Nat → List α) :
    Nat → List (List α) → List (Nat × Nat) → Except ShamirErr (List (List (Share α)))
  | gi, gv :: gvs, (mt, mc) :: gs =>
    match splitWithDigest o digest mt mc gv (memberRnd gi) (memberRp gi) with
    | .error e => .error e
    | .ok values =>
      match memberRows o digest h memberRnd memberRp (gi + 1) gvs gs with
      | .error e => .error e
      | .ok rows => .ok (groupRow h gi mt values :: rows)
  | _, _, _ => .ok []

/-- the share table of `mnemonics_from_master_secret` for the encrypted master secret `ems`:
    `groups` is the list of (member threshold, member count), `gt` the group threshold. -/
def makeShares (o : FOps α) (digest : List α → List α → List α) (identifier : Nat) (extendable : Bool)
    (iterationExponent gt : Nat) (groups : List (Nat × Nat)) (ems : List α)
    (groupRnd : List (List α)) (groupRp : List α)
    (memberRnd : Nat → List (List α)) (memberRp : Nat → List α) : Except ShamirErr (List (List (Share α))) :=
  match splitWithDigest o digest gt groups.length ems groupRnd groupRp with
  | .error e => .error e
  | .ok groupValues =>
    memberRows o digest
      { identifier := identifier, extendable := extendable, iterationExponent := iterationExponent,
        groupThreshold := gt, groupCount := groups.length }
      memberRnd memberRp 0 groupValues groups

/-- share `(group, member)` of a table -/
def pick (table : List (List (Share α))) (p : Nat × Nat) : Option (Share α) :=
  (table.getD p.1 [])[p.2]?

end Btc.C13
