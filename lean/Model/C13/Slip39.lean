import Model.C13.Bits
import Model.C13.Shamir
import Model.Common.Pbkdf2
/-
The byte/word skin of btclib/mnemonic/slip39.py: RS1024 checksum, share ↔ word-index codec, Feistel
encryption (round function as a parameter), and the two public entry points at word-index level.
-/
namespace Btc.C13
open Gen.Slip39

/-! ### RS1024 -/

/-- `for i in range(10): chk ^= _RS1024_GEN[i] if ((b >> i) & 1) else 0`, as the xor of the selected generators -/
def genFold : List Nat → Nat → Nat → Nat
  | [], _, _ => 0
  | g :: gs, i, b => (if b.testBit i then g else 0) ^^^ genFold gs (i + 1) b

/-- one iteration of the loop of `_rs1024_polymod` -/
def rsStep (chk v : Nat) : Nat :=
  (((chk &&& POLY_MASK) <<< POLY_SHIFT) ^^^ v) ^^^ genFold (RS1024_GEN.take POLY_NGEN) 0 (chk >>> POLY_TOP)

/-- `_rs1024_polymod` from an arbitrary start value -/
def polymodFrom (chk : Nat) (values : List Nat) : Nat := values.foldl rsStep chk

/-- `slip39._rs1024_polymod` -/
def polymod (values : List Nat) : Nat := polymodFrom POLY_INIT values

def customization (extendable : Bool) : List Nat := if extendable then CS_EXT else CS_PLAIN

/-- `slip39._rs1024_checksum` -/
def rsChecksum (idx : List Nat) (extendable : Bool) : List Nat :=
  let pm := polymod (customization extendable ++ idx ++ [0, 0, 0]) ^^^ 1
  [(pm >>> 20) &&& 1023, (pm >>> 10) &&& 1023, pm &&& 1023]

/-- `slip39._rs1024_verify` -/
def rsVerify (idx : List Nat) (extendable : Bool) : Bool :=
  polymod (customization extendable ++ idx) = 1

/-! ### share codec -/

abbrev ByteShare := Share UInt8

/-- `_assert_valid_length` -/
def validLength (n : Nat) : Bool := ¬ (n < MIN_SECRET_BYTES ∨ n % 2 ≠ 0)

/-- `Share.assert_valid` -/
def shareValid (s : ByteShare) : Bool :=
  let top := MAX_SHARE_COUNT - 1
  s.identifier ≤ (1 <<< ID_BITS) - 1 ∧ s.iterationExponent ≤ (1 <<< E_BITS) - 1 ∧
  s.groupIndex ≤ top ∧ (1 ≤ s.groupThreshold ∧ s.groupThreshold ≤ MAX_SHARE_COUNT) ∧
  (1 ≤ s.groupCount ∧ s.groupCount ≤ MAX_SHARE_COUNT) ∧ s.memberIndex ≤ top ∧
  (1 ≤ s.memberThreshold ∧ s.memberThreshold ≤ MAX_SHARE_COUNT) ∧
  ¬ (s.groupCount < s.groupThreshold) ∧ validLength s.value.length

/-- the 40 header bits of `mnemonic_from_share` -/
def headerBits (s : ByteShare) : Bits :=
  natToBits ID_BITS s.identifier ++ [s.extendable] ++ natToBits E_BITS s.iterationExponent ++
  natToBits FIELD_BITS s.groupIndex ++ natToBits FIELD_BITS (s.groupThreshold - 1) ++
  natToBits FIELD_BITS (s.groupCount - 1) ++ natToBits FIELD_BITS s.memberIndex ++
  natToBits FIELD_BITS (s.memberThreshold - 1)

/-- the share value left-padded with zeros to a whole number of words -/
def paddedValue (value : Bytes) : Bits :=
  zfill ((8 * value.length + RADIX_BITS - 1) / RADIX_BITS * RADIX_BITS) (binStr (ofBE value))

/-- `slip39.mnemonic_from_share` up to the word lookup; `none` is the BTClibValueError of `assert_valid` -/
def shareIndexes (s : ByteShare) : Option (List Nat) :=
  if ¬ shareValid s then none else
  let idx := indexesFromBits (headerBits s ++ paddedValue s.value) (1 <<< RADIX_BITS)
  some (idx ++ rsChecksum idx s.extendable)

inductive CodecErr | length | index | checksum | padding | field
  deriving DecidableEq, Repr

/-- `slip39.share_from_mnemonic` after the word lookup -/
def shareFromIndexes (idx : List Nat) : Except CodecErr ByteShare :=
  if idx.length < MIN_WORDS then .error .length else
  match bitsFromIndexes idx (1 <<< RADIX_BITS) with
  | none => .error .index
  | some bits =>
    let extendable := bits.getD ID_BITS false
    if ¬ rsVerify idx extendable then .error .checksum else
    let paddedBits := bits.length - HEADER_BITS - CHECKSUM_BITS
    let padding := paddedBits % 16
    if padding > 8 then .error .length else
    let valueBits := (bits.take (bits.length - CHECKSUM_BITS)).drop HEADER_BITS
    if valueBits.take padding ≠ List.replicate padding false then .error .padding else
    let field := ID_BITS + EXT_BITS + E_BITS
    let sl (a b : Nat) : Nat := ofBits ((bits.take b).drop a)
    let s : ByteShare := {
      identifier := sl 0 ID_BITS
      extendable := extendable
      iterationExponent := sl (ID_BITS + EXT_BITS) field
      groupIndex := sl field (field + 4)
      groupThreshold := sl (field + 4) (field + 8) + 1
      groupCount := sl (field + 8) (field + 12) + 1
      memberIndex := sl (field + 12) (field + 16)
      memberThreshold := sl (field + 16) (field + 20) + 1
      value := beBytes ((valueBits.length - padding) / 8) (ofBits (valueBits.drop padding)) }
    if shareValid s then .ok s else .error .field

/-! ### Feistel -/

/-- `bytes(x ^ y for x, y in zip(left, f, strict=True))`; `none` is the ValueError of `strict=True` -/
def xorStrict : Bytes → Bytes → Option Bytes
  | [], [] => some []
  | a :: as, b :: bs => (xorStrict as bs).map ((a ^^^ b) :: ·)
  | _, _ => none

/-- the rounds of `_feistel` in the given order: `left, right = right, left ^ F(i, right)` -/
def feistelRounds (F : Nat → Bytes → Bytes) : List Nat → Bytes → Bytes → Option (Bytes × Bytes)
  | [], l, r => some (l, r)
  | i :: is, l, r =>
    match xorStrict l (F i r) with
    | none => none
    | some x => feistelRounds F is r x

/-- `slip39._feistel` with the round function `F i right` as a parameter -/
def feistel (F : Nat → Bytes → Bytes) (payload : Bytes) (decrypt : Bool) : Option Bytes :=
  let half := payload.length / 2
  let rounds := if decrypt then (List.range ROUNDS).reverse else List.range ROUNDS
  (feistelRounds F rounds (payload.take half) (payload.drop half)).map fun p => p.2 ++ p.1

/-- `_round_function` (and the salt rule of `_feistel`) with PBKDF2-HMAC-SHA256 -/
def roundFunction (passphrase : Bytes) (iterationExponent identifier : Nat) (extendable : Bool)
    (i : Nat) (right : Bytes) : Bytes :=
  let salt : Bytes := if extendable then [] else
    [115, 104, 97, 109, 105, 114] ++ beBytes 2 identifier      -- b"shamir" + identifier.to_bytes(2, "big")
  pbkdf2HmacSha256 (UInt8.ofNat i :: passphrase) (salt ++ right) (BASE_ITERATIONS <<< iterationExponent) right.length

/-- `_digest(random_part, shared_secret)` = first four bytes of HMAC-SHA256(random_part, shared_secret) -/
def digestWith (hm : Bytes → Bytes → Bytes) (randomPart secret : Bytes) : Bytes :=
  (hm randomPart secret).take DIGEST_BYTES

/-! ### entry points at word-index level -/

def toGF (s : ByteShare) : Share GF256 := { s with value := s.value.map GF256.ofByte }

inductive Slip39Err
  | codec (e : CodecErr) | shamir (e : ShamirErr) | feistel | noMnemonic
  deriving DecidableEq, Repr

/-- `digest` on field elements, through bytes -/
def digestGF (hm : Bytes → Bytes → Bytes) (rp secret : List GF256) : List GF256 :=
  (digestWith hm (rp.map GF256.toByte) (secret.map GF256.toByte)).map GF256.ofByte

/-- `slip39.master_secret_from_mnemonics` after the word lookup, the round function a parameter that may depend
    on the header fields of the first share (iteration exponent, identifier, extendable flag). -/
def masterSecret (hm : Bytes → Bytes → Bytes) (F : ByteShare → Nat → Bytes → Bytes)
    (sentences : List (List Nat)) : Except Slip39Err Bytes :=
  match sentences.mapM shareFromIndexes with
  | .error e => .error (.codec e)
  | .ok [] => .error .noMnemonic
  | .ok (first :: rest) =>
    match recoverEms gf256Ops (digestGF hm) ((first :: rest).map toGF) with
    | .error e => .error (.shamir e)
    | .ok ems =>
      match feistel (F first) (ems.map GF256.toByte) true with
      | none => .error .feistel
      | some ms => .ok ms

end Btc.C13
