import Generated.Slip39
/-
GF(256) as btclib/mnemonic/slip39.py computes in it.

* `expT` / `logT` read the GENERATED tables `Gen.Slip39.EXP` / `Gen.Slip39.LOG` (what `_gf256_tables()` built at
  import), `tmul` / `tdiv` are `_mul` / `_div` verbatim.
* `xtime` / `clmul` are the reference: carry-less multiplication modulo the Rijndael polynomial 0x11B, written
  structurally (eight shift-and-add steps) so that the kernel can evaluate it on all 65 536 pairs.
* `GF256` is the carrier the Shamir model is instantiated with in the driver and in the theorems alike.
-/
namespace Btc.C13

/-- `_EXP[i]` -/
def expT (i : Nat) : Nat := Gen.Slip39.EXP.getD i 0
/-- `_LOG[a]` -/
def logT (a : Nat) : Nat := Gen.Slip39.LOG.getD a 0

/-- `slip39._mul` -/
def tmul (a b : Nat) : Nat :=
  if a = 0 ∨ b = 0 then 0 else expT ((logT a + logT b) % Gen.Slip39.LOG_MOD)

/-- `slip39._div` (Python's `%` of a possibly negative difference: the modulus is added first) -/
def tdiv (a b : Nat) : Nat :=
  expT ((logT a + Gen.Slip39.LOG_MOD - logT b) % Gen.Slip39.LOG_MOD)

/-- multiplication by `x` modulo `x^8 + x^4 + x^3 + x + 1` (0x11B), branch-free on bytes: the carry `a / 128`
    selects the reduction -/
def xtime (a : Nat) : Nat := (2 * a) ^^^ ((a / 128) * 0x11B)

/-- `f n`, evaluating `n` first.  (The kernel substitutes arguments unevaluated; without this the eight nested
    `xtime`s of `clmulAux` are re-evaluated exponentially often when a `decide +kernel` runs it.) -/
def force (n : Nat) (f : Nat → Nat) : Nat :=
  match n with
  | 0 => f 0
  | k + 1 => f (k + 1)

/-- shift-and-add over the low `n` bits of `b`: `a·b = b₀·a ⊕ (x·a)·(b / 2)` -/
def clmulAux : Nat → Nat → Nat → Nat
  | 0, _, _ => 0
  | n + 1, a, b => force (xtime a) fun a' => force (b / 2) fun b' => ((b % 2) * a) ^^^ clmulAux n a' b'

/-- carry-less product of two bytes modulo 0x11B (structurally recursive: eight steps) -/
def clmul (a b : Nat) : Nat := clmulAux 8 a b

/-- the field element type: a byte -/
structure GF256 where
  val : Nat
  lt : val < 256
  deriving DecidableEq

namespace GF256

def ofNat (n : Nat) : GF256 := ⟨n % 256, Nat.mod_lt _ (by decide)⟩
def ofByte (b : UInt8) : GF256 := ⟨b.toNat, b.toNat_lt⟩
def toByte (a : GF256) : UInt8 := UInt8.ofNat a.val

/-- addition and subtraction are both XOR (`x ^ x_j`, `result[k] ^= …`) -/
def add (a b : GF256) : GF256 := ⟨a.val ^^^ b.val, Nat.xor_lt_two_pow (n := 8) a.lt b.lt⟩
/-- `_mul`; the `% 256` is the identity (`Proofs/C13/Gf256.lean: tmul_lt`), it only makes the bound definitional -/
def mul (a b : GF256) : GF256 := ofNat (tmul a.val b.val)
/-- `_div` -/
def div (a b : GF256) : GF256 := ofNat (tdiv a.val b.val)

end GF256
end Btc.C13
