import Model.C13.Bits
import Model.Common.Pbkdf2
import Generated.Mnemonic
/-
BIP39 (btclib/mnemonic/bip39.py), Electrum (electrum.py) and BIP85 (bip85.py) at word-INDEX level: the word
lists are an opaque bijection checked exhaustively by the harness.  Hashes are parameters.
-/
namespace Btc.C13

/-- `bin_str_entropy_from_str(s)` with the default bit sizes: more than the largest is truncated, any other
    length not in `_bits` is refused. -/
def binStrEntropyFromStr (bits : Bits) : Option Bits :=
  let top := Gen.Mnemonic.ENTROPY_BITS.foldl max 0
  if bits.length > top then some (bits.take top)
  else if Gen.Mnemonic.ENTROPY_BITS.contains bits.length then some bits
  else none

/-- `bip39._entropy_checksum` on a raw-entropy string: (entropy, leftmost `len(bytes)//4` bits of `H(bytes)`) -/
def entropyChecksum (H : Bytes → Bytes) (bits : Bits) : Option (Bits × Bits) :=
  match binStrEntropyFromStr bits with
  | none => none
  | some e =>
    let bytes := bytesOfBits e
    let cs := (zfill 256 (binStr (ofBE (H bytes)))).take (bytes.length / Gen.Mnemonic.CS_DIV)
    some (e, cs)

/-- `bip39.mnemonic_from_entropy` up to the word lookup -/
def bip39Indexes (H : Bytes → Bytes) (entropy : Bits) : Option (List Nat) :=
  match entropyChecksum H entropy with
  | none => none
  | some (e, cs) => some (indexesFromBits (e ++ cs) Gen.Mnemonic.BIP39_BASE)

/-- `bip39.entropy_from_mnemonic` after the word lookup -/
def bip39Entropy (H : Bytes → Bytes) (idx : List Nat) : Option Bits :=
  match bitsFromIndexes idx Gen.Mnemonic.BIP39_BASE with
  | none => none
  | some cse =>
    let bits := cse.length * Gen.Mnemonic.CS_NUM / Gen.Mnemonic.CS_DEN
    match entropyChecksum H (cse.take bits) with
    | none => none
    | some (e, cs) => if cse.drop bits ≠ cs then none else some e

def natsToBytes (l : List Nat) : Bytes := l.map UInt8.ofNat

/-- `bip39.seed_from_mnemonic` after normalisation: PBKDF2-HMAC-SHA512(sentence, "mnemonic" + passphrase) -/
def bip39Seed (sentence passphrase : Bytes) : Bytes :=
  pbkdf2HmacSha512 sentence (natsToBytes Gen.Mnemonic.BIP39_SALT ++ passphrase)
    Gen.Mnemonic.BIP39_ITERATIONS Gen.Mnemonic.BIP39_DKSIZE

/-- `electrum._seed_from_mnemonic` after normalisation -/
def electrumSeed (sentence passphrase : Bytes) : Bytes :=
  pbkdf2HmacSha512 sentence (natsToBytes Gen.Mnemonic.ELECTRUM_SALT ++ passphrase)
    Gen.Mnemonic.ELECTRUM_ITERATIONS Gen.Mnemonic.ELECTRUM_DKSIZE

/-- the hex digits of a byte string (`hexdigest()`), as values 0..15 -/
def hexDigits (b : Bytes) : List Nat := b.flatMap fun x => [x.toNat / 16, x.toNat % 16]

/-- `electrum._seed_version` on the normalised sentence: hex digits of HMAC-SHA512("Seed version", sentence) -/
def seedVersion (hm : Bytes → Bytes → Bytes) (sentence : Bytes) : List Nat :=
  hexDigits (hm (natsToBytes Gen.Mnemonic.SEED_VERSION_KEY) sentence)

/-- the loop of `electrum._mnemonic_type` over `_MNEMONIC_VERSIONS` -/
def versionLoop (digits : List Nat) (nwords : Nat) : List (String × List Nat) → String
  | [] => ""
  | (name, pre) :: rest =>
    if ¬ pre.isPrefixOf digits then versionLoop digits nwords rest
    else if name = "2fa" ∧ nwords ≠ Gen.Mnemonic.TWOFA_EXACT ∧ nwords < Gen.Mnemonic.TWOFA_MIN then
      versionLoop digits nwords rest
    else name

/-- `electrum._mnemonic_type`: `isOld` is `_is_old_mnemonic`, `digits` the seed version -/
def mnemonicType (isOld : Bool) (digits : List Nat) (nwords : Nat) : String :=
  if isOld then "old" else versionLoop digits nwords Gen.Mnemonic.MNEMONIC_VERSIONS

/-- `electrum._mnemonic_from_int_entropy` up to the word lookup: least significant word first -/
def electrumIndexes (v base : Nat) : List Nat := digitsLE base v v

/-- `electrum._bin_str_entropy_from_mnemonic` after the word lookup -/
def electrumBits (idx : List Nat) (base : Nat) : Option Bits := bitsFromIndexes idx.reverse base

/-- `bip85._entropy_from_der_path` after the derivation: HMAC-SHA512("bip-entropy-from-k", k) -/
def bip85Entropy (hm : Bytes → Bytes → Bytes) (key : Bytes) : Bytes :=
  hm (natsToBytes Gen.Mnemonic.BIP85_HMAC_KEY) key

/-- the derivation path of `bip85.mnemonic_from_root_key`, every level hardened:
    m / 83696968' / 39' / language' / words' / index' -/
def bip85Bip39Path (lang : String) (words index : Nat) : Option (List Nat) :=
  match Gen.Mnemonic.BIP85_LANGUAGES.lookup lang, Gen.Mnemonic.BIP85_ENTROPY_BYTES.lookup words with
  | some code, some _ => some [Gen.Mnemonic.BIP85_PURPOSE, 39, code, words, index]
  | _, _ => none

/-- `bip85.mnemonic_from_root_key` after the derivation, up to the word lookup -/
def bip85Bip39Indexes (hm : Bytes → Bytes → Bytes) (H : Bytes → Bytes) (key : Bytes) (words : Nat) :
    Option (List Nat) :=
  match Gen.Mnemonic.BIP85_ENTROPY_BYTES.lookup words with
  | none => none
  | some n => bip39Indexes H (bitsOfBytes ((bip85Entropy hm key).take n))

/-- `bip85.bytes_entropy_from_root_key` (application HEX, 128169') after the derivation: the bounds check of the
    generated `BIP85_BOUNDS`, then the leading `n` bytes of the HMAC -/
def bip85Hex (hm : Bytes → Bytes → Bytes) (key : Bytes) (n : Nat) : Option Bytes :=
  match Gen.Mnemonic.BIP85_BOUNDS.lookup "bytes_entropy_from_root_key" with
  | some (lo, hi) => if lo ≤ n ∧ n ≤ hi then some ((bip85Entropy hm key).take n) else none
  | none => none

/-- the derivation path of a sized application (HEX, PWD BASE64, PWD BASE85): m / 83696968' / app' / size' / index' -/
def bip85SizedPath (fn : String) (size index : Nat) : Option (List Nat) :=
  match Gen.Mnemonic.BIP85_APPLICATIONS.lookup fn, Gen.Mnemonic.BIP85_BOUNDS.lookup fn with
  | some app, some (lo, hi) =>
    if lo ≤ size ∧ size ≤ hi then some [Gen.Mnemonic.BIP85_PURPOSE, app, size, index] else none
  | _, _ => none

end Btc.C13
