import Model.C13.Bip39
/-
btclib/mnemonic/electrum.py: the candidate search of `mnemonic_from_entropy` at word-INDEX level.

  `_is_bip39_mnemonic(mnemonic, lang)`   = `electrumIsBip39`  (Electrum's bip39_is_checksum_valid arithmetic, the list's
                                                               own base even when it is not 2048)
  `_search_mnemonic(int_entropy, version, lang)` = `searchMnemonic`
  `mnemonic_from_entropy(type, entropy, lang)` after `int(bin_str_entropy_from_entropy(entropy), 2)` = `electrumGenerate`

What the words of a candidate spell is not modelled: the two facts about a candidate that depend on the TEXT of its
sentence — whether it is a pre-2.0 seed (`_is_old_mnemonic`) and the hex digits of HMAC-SHA512("Seed version",
normalised sentence) — are parameters `isOld digits : Nat → …` indexed by the candidate integer (the driver is handed
the sentences and computes the digits with the shared HMAC-SHA512).  `while True` is modelled with a fuel: `fuel`
is the number of candidates tried before giving up (`.error .fuel` is a model artefact, the code would go on).
-/
namespace Btc.C13
open Gen.Mnemonic

/-- `electrum._is_bip39_mnemonic` after the word lookup (`idx` in sentence order, all below `base`) -/
def electrumIsBip39 (H : Bytes → Bytes) (idx : List Nat) (base : Nat) : Bool :=
  if ¬ EL_BIP39_WORDS.contains idx.length then false else
  let v := idx.foldl (fun a i => a * base + i) 0
  let cs := EL_CS_NUM * idx.length / EL_CS_DEN
  let hashed := ofBE (H (beBytes (EL_CS_BYTES * cs) (v >>> cs)))
  v % (1 <<< cs) = hashed >>> (EL_HASH_BITS - cs)

inductive SearchErr | selfcheck | fuel | unknownType | readBack
  deriving DecidableEq, Repr

/-- the `candidate != int(_bin_str_entropy_from_mnemonic(mnemonic, lang), 2)` test of `_search_mnemonic` -/
def selfCheck (c base : Nat) : Bool :=
  match electrumBits (electrumIndexes c base) base with
  | some bits => ofBits bits = c
  | none => false

/-- what `_search_mnemonic` skips: a pre-2.0 seed, or a sentence that is also valid BIP39 -/
def searchSkips (H : Bytes → Bytes) (isOld : Nat → Bool) (base c : Nat) : Bool :=
  isOld c || electrumIsBip39 H (electrumIndexes c base) base

/-- a candidate `_search_mnemonic` returns: not skipped, and the version prefix matches -/
def searchQualifies (H : Bytes → Bytes) (isOld : Nat → Bool) (digits : Nat → List Nat) (base : Nat) (pre : List Nat)
    (c : Nat) : Bool :=
  !searchSkips H isOld base c && pre.isPrefixOf (digits c)

/-- the body of the `while True` of `_search_mnemonic`, from candidate `c` on -/
def searchLoop (H : Bytes → Bytes) (isOld : Nat → Bool) (digits : Nat → List Nat) (base : Nat) (pre : List Nat) :
    Nat → Nat → Except SearchErr Nat
  | 0, _ => .error .fuel
  | fuel + 1, c =>
    if ¬ selfCheck c base then .error .selfcheck
    else if searchSkips H isOld base c then searchLoop H isOld digits base pre fuel (c + SEARCH_STEP)
    else if pre.isPrefixOf (digits c) then .ok c
    else searchLoop H isOld digits base pre fuel (c + SEARCH_STEP)

/-- `electrum._search_mnemonic(int_entropy, version, lang)`: the candidate integer of the sentence returned -/
def searchMnemonic (H : Bytes → Bytes) (isOld : Nat → Bool) (digits : Nat → List Nat) (base : Nat) (pre : List Nat)
    (fuel intEntropy : Nat) : Except SearchErr Nat :=
  searchLoop H isOld digits base pre fuel (intEntropy + SEARCH_FIRST)

/-- `electrum.mnemonic_from_entropy(mnemonic_type, entropy, lang)` from the entropy integer on: the search, then the
    read-back `_mnemonic_type(mnemonic) == mnemonic_type` (the word count is that of the candidate's indexes) -/
def electrumGenerate (H : Bytes → Bytes) (isOld : Nat → Bool) (digits : Nat → List Nat) (base : Nat) (typ : String)
    (fuel intEntropy : Nat) : Except SearchErr Nat :=
  match MNEMONIC_VERSIONS.lookup typ with
  | none => .error .unknownType
  | some pre =>
    match searchMnemonic H isOld digits base pre fuel intEntropy with
    | .error e => .error e
    | .ok c =>
      if mnemonicType (isOld c) (digits c) (electrumIndexes c base).length = typ then .ok c else .error .readBack

end Btc.C13
