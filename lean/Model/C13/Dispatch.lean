import Model.C13.Bip39
/-
btclib/mnemonic/dispatch.py at word-index level.  `known` says whether every word of the sentence is in the word
list of the language the caller NAMED, `idx` are the indexes of the words in THAT list: the BIP39 verdict is about
the named language and nothing else (a sentence can be spelled from the words two lists share).
-/
namespace Btc.C13

/-- `dispatch._bip39_seed_type(mnemonic, lang)`; `nwords` is `len(mnemonic.split())` -/
def bip39SeedType (H : Bytes → Bytes) (nwords : Nat) (known : Bool) (idx : List Nat) : String :=
  if nwords = 0 then ""
  else if ¬ known then ""
  else if ¬ Gen.Mnemonic.BIP39_WORD_COUNTS.contains nwords then "bip39_wordlist"
  else match bip39Entropy H idx with
    | some _ => "bip39"
    | none => "bip39_wordlist"

/-- `dispatch.all_seed_types_from_mnemonic`: SLIP39 first, then Electrum's own answer, then BIP39 -/
def allSeedTypes (slip39 : Bool) (electrumVersion : Option String) (bip39Type : String) : List String :=
  (if slip39 then ["slip39"] else []) ++
  (match electrumVersion with | some v => ["electrum_" ++ v] | none => []) ++
  (if bip39Type = "" then [] else [bip39Type])

/-- `dispatch.seed_type_from_mnemonic` -/
def seedType (slip39 : Bool) (electrumVersion : Option String) (bip39Type : String) : String :=
  (allSeedTypes slip39 electrumVersion bip39Type).headD ""

end Btc.C13
