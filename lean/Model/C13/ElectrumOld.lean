import Model.C13.Bip39
/-
Electrum's pre-2.0 mnemonic codec (btclib/mnemonic/electrum.py: `old_mnemonic_from_hex_seed`,
`hex_seed_from_old_mnemonic`, Electrum's old_mnemonic.mn_encode / mn_decode) at word-INDEX level: each 32-bit group of
the hex seed becomes three indexes into the 1626-word list, the second and third being offsets from the one before.
-/
namespace Btc.C13

/-- one group of `old_mnemonic_from_hex_seed`: `first = x % n`, `second = (x // n + first) % n`,
    `third = (x // n // n + second) % n` -/
def oldEncodeGroup (base group : Nat) : List Nat :=
  let first := group % base
  let second := (group / base + first) % base
  let third := (group / base / base + second) % base
  [first, second, third]

/-- `old_mnemonic_from_hex_seed` after the hex parsing (`groups` are the `int(hex_seed[8*i : 8*i+8], 16)`), up to the
    word lookup -/
def oldMnemonicIndexes (base : Nat) (groups : List Nat) : List Nat := groups.flatMap (oldEncodeGroup base)

/-- one triple of `hex_seed_from_old_mnemonic`: `first + n * ((second - first) % n) + n * n * ((third - second) % n)`
    with Python's non-negative `%` -/
def oldDecodeGroup (base first second third : Nat) : Nat :=
  first + base * (((second : Int) - (first : Int)) % (base : Int)).toNat +
    base * base * (((third : Int) - (second : Int)) % (base : Int)).toNat

/-- the loop `for i in range(len(words) // 3)` over the looked-up indexes: a tail shorter than three is dropped -/
def oldSeedGroups (base : Nat) : List Nat → List Nat
  | a :: b :: c :: rest => oldDecodeGroup base a b c :: oldSeedGroups base rest
  | _ => []

/-- `hex_seed_from_old_mnemonic` after `_is_old_mnemonic` and the word lookup, for a sentence that is not itself a
    hex string: refused unless 12 or 24 words (generated `OLD_WORD_COUNTS`); the groups are printed `08x` each -/
def oldHexSeedGroups (base : Nat) (idx : List Nat) : Option (List Nat) :=
  if Gen.Mnemonic.OLD_WORD_COUNTS.contains idx.length then some (oldSeedGroups base idx) else none

/-- `f"{group:08x}"` -/
def hex08 (g : Nat) : String :=
  let d := Nat.toDigits 16 g
  String.ofList (List.replicate (8 - d.length) '0' ++ d)

end Btc.C13
