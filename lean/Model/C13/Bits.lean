import Model.Common.Bytes
/-
btclib/mnemonic/entropy.py at the level the mnemonic schemes use it: a raw entropy (`BinStr`, a '0'/'1' string)
is a `List Bool`, most significant bit first; a sentence is its list of word indexes.

  `wordlist_indexes_from_bin_str_entropy(entropy, base)`  = `indexesFromBits`
  `bin_str_entropy_from_wordlist_indexes(indexes, base)`  = `bitsFromIndexes`
-/
namespace Btc.C13

abbrev Bits := List Bool

/-- `int(s, 2)` -/
def ofBits (l : Bits) : Nat := l.foldl (fun a b => 2 * a + b.toNat) 0

/-- the `w` low bits of `v`, most significant first (`f"{v:0{w}b}"` when `v < 2^w`) -/
def natToBits : Nat → Nat → Bits
  | 0, _ => []
  | w + 1, v => natToBits w (v / 2) ++ [v.testBit 0]

/-- `int.bit_length()` -/
def bitLen (n : Nat) : Nat := if n = 0 then 0 else Nat.log2 n + 1

/-- `f"{v:b}"`: no leading zeros, but "0" for zero -/
def binStr (v : Nat) : Bits := if v = 0 then [false] else natToBits (bitLen v) v

/-- `s.zfill(w)` -/
def zfill (w : Nat) (s : Bits) : Bits := List.replicate (w - s.length) false ++ s

/-- `while v: v, index = divmod(v, base); indexes.append(index)` — least significant digit first; the fuel is
    the value itself, which bounds the number of iterations for `base ≥ 2`. -/
def digitsLE (base : Nat) : Nat → Nat → List Nat
  | 0, _ => []
  | fuel + 1, v => if v = 0 then [] else (v % base) :: digitsLE base fuel (v / base)

/-- `entropy._bits_per_digit(base)` -/
def bitsPerDigit (base : Nat) : Nat := bitLen base - 1

/-- `wordlist_indexes_from_bin_str_entropy(entropy, base)` for `base ≥ 2` -/
def indexesFromBits (bits : Bits) (base : Nat) : List Nat :=
  let v := ofBits bits
  let idx := digitsLE base v v
  let bpd := bitsPerDigit base
  let nwords := (bits.length + bpd - 1) / bpd
  (idx ++ List.replicate (nwords - idx.length) 0).reverse

/-- `bin_str_entropy_from_wordlist_indexes(indexes, base)`; `none` is the BTClibValueError for an index the word
    list has no word for. -/
def bitsFromIndexes (idx : List Nat) (base : Nat) : Option Bits :=
  if idx.all (· < base) then
    some (zfill (bitLen (base ^ idx.length - 1)) (binStr (idx.foldl (fun e i => e * base + i) 0)))
  else none

/-- `int_entropy.to_bytes((n_bits + 7) // 8, "big")` of a bit string -/
def bytesOfBits (bits : Bits) : Bytes := beBytes ((bits.length + 7) / 8) (ofBits bits)

/-- the bits of a byte string, eight per byte -/
def bitsOfBytes (b : Bytes) : Bits := natToBits (8 * b.length) (ofBE b)

end Btc.C13
