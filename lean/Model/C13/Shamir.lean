import Model.C13.Gf256
/-
Shamir's scheme of btclib/mnemonic/slip39.py (`_interpolate`, `_split_secret`, `_recover_secret`, `_grouped`,
`_common_field`, the body of `master_secret_from_mnemonics` after the shares are decoded), written once over an
operation record `FOps α`.  The driver instantiates it with `gf256Ops` (table arithmetic on bytes); the theorems
are proved for every `o` that is `FLawful` over a field (`Proofs/C13/Shamir.lean`), and `gf256Ops` is shown to be
one (`Proofs/C13/Gf256.lean`).  The random shares and the digest function are parameters.
-/
namespace Btc.C13

/-- the arithmetic `_interpolate` uses: `x ^ x_j` is `sub`, `result[k] ^= …` is `add`, `_mul`, `_div`;
    `x` embeds an integer x-coordinate (member / group index, 254, 255). -/
structure FOps (α : Type) where
  zero : α
  one : α
  add : α → α → α
  sub : α → α → α
  mul : α → α → α
  div : α → α → α
  x : Nat → α

def gf256Ops : FOps GF256 where
  zero := GF256.ofNat 0
  one := GF256.ofNat 1
  add := GF256.add
  sub := GF256.add
  mul := GF256.mul
  div := GF256.div
  x := GF256.ofNat

variable {α : Type} [DecidableEq α]

/-- the inner loop of `_interpolate`: `for x_j, _ in points: if x_j != x_i: basis = _mul(basis, _div(x ^ x_j, x_i ^ x_j))` -/
def basisAux (o : FOps α) (xi x : α) : List α → α → α
  | [], b => b
  | xj :: rest, b =>
    basisAux o xi x rest (if xj ≠ xi then o.mul b (o.div (o.sub x xj) (o.sub xi xj)) else b)

def basis (o : FOps α) (xs : List α) (xi x : α) : α := basisAux o xi x xs o.one

/-- `for k, y in enumerate(y_i): result[k] ^= _mul(y, basis)`.  A `y_i` longer than `result` is an IndexError in
    Python; every caller passes vectors of one length (`_common_field`, `entropy_source(n)`), the model truncates. -/
def accum (o : FOps α) (b : α) : List α → List α → List α
  | r :: rs, y :: ys => o.add r (o.mul y b) :: accum o b rs ys
  | rs, [] => rs
  | [], _ :: _ => []

def interpAux (o : FOps α) (xs : List α) (x : α) : List (α × List α) → List α → List α
  | [], res => res
  | p :: rest, res => interpAux o xs x rest (accum o (basis o xs p.1 x) res p.2)

/-- `slip39._interpolate(points, x)` -/
def interpolate (o : FOps α) (points : List (α × List α)) (x : α) : List α :=
  interpAux o (points.map (·.1)) x points
    (List.replicate (match points with | [] => 0 | p :: _ => p.2.length) o.zero)

inductive ShamirErr
  | badThreshold | digest | memberThresholds | duplicateMembers | memberCount | groupCount | commonField | empty
  deriving DecidableEq, Repr

/-- the points `_split_secret` interpolates through: the `threshold - 2` random shares at 0, 1, …, then the
    digest share at `DIGEST_X` and the secret at `SECRET_X`. -/
def basePoints (o : FOps α) (secret : List α) (rnd : List (List α)) (digestShare : List α) : List (α × List α) :=
  (List.zipIdx rnd).map (fun p => (o.x p.2, p.1)) ++
    [(o.x Gen.Slip39.DIGEST_X, digestShare), (o.x Gen.Slip39.SECRET_X, secret)]

/-- `slip39._split_secret(threshold, share_count, secret, entropy_source)`; `rnd` is what the entropy source
    returned for the `threshold - 2` free shares (so `rnd.length = threshold - 2`) and `digestShare` is
    `_digest(random_part, secret) + random_part`. -/
def splitSecret (o : FOps α) (threshold count : Nat) (secret : List α) (rnd : List (List α))
    (digestShare : List α) : Except ShamirErr (List (List α)) :=
  if ¬ (0 < threshold ∧ threshold ≤ count ∧ count ≤ Gen.Slip39.MAX_SHARE_COUNT) then .error .badThreshold
  else if threshold = 1 then .ok (List.replicate count secret)
  else
    let points := basePoints o secret rnd digestShare
    .ok (rnd ++ (List.range' (threshold - 2) (count - (threshold - 2))).map
      (fun i => interpolate o points (o.x i)))

/-- `slip39._recover_secret(threshold, shares)`; `digest random_part secret` is `_digest`. -/
def recoverSecret (o : FOps α) (digest : List α → List α → List α) (threshold : Nat)
    (shares : List (α × List α)) : Except ShamirErr (List α) :=
  if threshold = 1 then
    match shares with
    | [] => .error .empty
    | s :: _ => .ok s.2
  else
    let secret := interpolate o shares (o.x Gen.Slip39.SECRET_X)
    let digestShare := interpolate o shares (o.x Gen.Slip39.DIGEST_X)
    let randomPart := digestShare.drop Gen.Slip39.DIGEST_BYTES
    if digestShare.take Gen.Slip39.DIGEST_BYTES ≠ digest randomPart secret then .error .digest
    else .ok secret

/-- a decoded share (`slip39.Share`), value over `α` -/
structure Share (α : Type) where
  identifier : Nat
  extendable : Bool
  iterationExponent : Nat
  groupIndex : Nat
  groupThreshold : Nat
  groupCount : Nat
  memberIndex : Nat
  memberThreshold : Nat
  value : List α

/-- the group indexes in order of first appearance (`groups.setdefault(...)` on an insertion-ordered dict) -/
def groupKeys (shares : List (Share α)) : List Nat := (shares.map (·.groupIndex)).eraseDups

/-- one iteration of the loop of `_grouped` -/
def recoverGroup (o : FOps α) (digest : List α → List α → List α) (shares : List (Share α)) (g : Nat) :
    Except ShamirErr (α × List α) :=
  let members := shares.filter (·.groupIndex = g)
  match (members.map (·.memberThreshold)).eraseDups with
  | [t] =>
    let idx := members.map (·.memberIndex)
    if idx.eraseDups.length ≠ idx.length then .error .duplicateMembers
    else if members.length ≠ t then .error .memberCount
    else
      match recoverSecret o digest t (members.map fun m => (o.x m.memberIndex, m.value)) with
      | .ok v => .ok (o.x g, v)
      | .error e => .error e
  | _ => .error .memberThresholds

/-- `slip39._grouped` -/
def grouped (o : FOps α) (digest : List α → List α → List α) (shares : List (Share α)) :
    Except ShamirErr (List (α × List α)) :=
  (groupKeys shares).mapM (recoverGroup o digest shares)

/-- `slip39._common_field`: all shares agree on identifier, flag, exponent, group threshold / count, value length -/
def commonField (shares : List (Share α)) : Bool :=
  match shares with
  | [] => false
  | f :: _ => shares.all fun s =>
      s.identifier = f.identifier ∧ s.extendable = f.extendable ∧ s.iterationExponent = f.iterationExponent ∧
      s.groupThreshold = f.groupThreshold ∧ s.groupCount = f.groupCount ∧ s.value.length = f.value.length

/-- `master_secret_from_mnemonics` between decoding and decryption: the encrypted master secret of a share set -/
def recoverEms (o : FOps α) (digest : List α → List α → List α) (shares : List (Share α)) :
    Except ShamirErr (List α) :=
  match shares with
  | [] => .error .empty
  | first :: _ =>
    if ¬ commonField shares then .error .commonField else
    match grouped o digest shares with
    | .error e => .error e
    | .ok groupShares =>
      if groupShares.length ≠ first.groupThreshold then .error .groupCount
      else recoverSecret o digest first.groupThreshold groupShares

end Btc.C13
