import Model.C19.Fuel
import Generated.Limits
/-
C19 — `script.taproot.tree_helper` / `_subtree_helper` as the source reads since the depth guard landed:

    def tree_helper(script_tree):           return _subtree_helper(script_tree, 0)
    def _subtree_helper(script_tree, depth):
        if depth > MAX_TREE_DEPTH: raise BTClibValueError          -- BEFORE the node is looked at
        if not list/tuple or len not in {1, 2}: raise BTClibValueError
        if len == 1: return _tree_helper(script_tree)              -- the leaf guards
        left  = _subtree_helper(script_tree[0], depth + 1)
        right = _subtree_helper(script_tree[1], depth + 1)

over `PyVal`, exactly the structure these functions read of a Python value (the same shape as C12's `Btc.Taproot.PyVal`;
kept here so that this property's driver does not depend on another property's generated module).  What the walk
returns is the SHAPE of the tree (leaf versions); hashes and merkle paths are C12's business.  The recursion is
structural in the value: Lean's termination checker is the proof that the MODEL terminates on every value; the depth
guard is what bounds the Python stack.  Core Lean only.
-/
namespace Btc.TapTree
open Btc

inductive PyVal where
  | int (v : Int)                       -- an `int` that is not a `bool`
  | atom                                -- None, str, bytes, bool, float, …: neither list/tuple nor integer
  | script (isList : Bool)              -- a sequence of script commands (str / bytes): `taproot.serialize` wants a list
  | nil (isList : Bool)                 -- `[]` / `()`
  | one (isList : Bool) (x : PyVal)     -- `[x]` / `(x,)`
  | two (isList : Bool) (x y : PyVal)   -- `[x, y]` / `(x, y)`
  | many (isList : Bool) (k : Nat)      -- a list / tuple of `k + 3` elements (they are never read)
  deriving Repr

inductive Refusal
  | deep       -- `depth > MAX_TREE_DEPTH`
  | node       -- not a list / tuple, or neither one nor two elements
  | leaf       -- the one element is no `(leaf version, script)` pair
  | vtype      -- the leaf version is no integer (BTClibTypeError)
  | stype      -- the script is no list (BTClibTypeError out of `serialize`)
  deriving DecidableEq, Repr

/-- `_tree_helper` below `leaf = script_tree[0]`: the pair guard, the integer guard, `leaf_version &= 0xFE`, the script -/
def toLeaf : PyVal → Except Refusal (Fuel.Tree Nat)
  | .two _ (.int v) (.script true) => .ok (.leaf ((v % 256).toNat / 2 * 2))
  | .two _ (.int v) (.nil true) => .ok (.leaf ((v % 256).toNat / 2 * 2))
  | .two _ (.int _) _ => .error .stype
  | .two _ _ _ => .error .vtype
  | _ => .error .leaf

/-- `_subtree_helper(script_tree, depth)` up to the shape of the tree it walks -/
def subtree (maxDepth : Nat) : Nat → PyVal → Except Refusal (Fuel.Tree Nat)
  | depth, v =>
    if depth > maxDepth then .error .deep
    else match v with
      | .one _ x => toLeaf x
      | .two _ l r =>
        match subtree maxDepth (depth + 1) l with
        | .error e => .error e
        | .ok tl =>
          match subtree maxDepth (depth + 1) r with
          | .error e => .error e
          | .ok tr => .ok (.node tl tr)
      | _ => .error .node

/-- the public `tree_helper(script_tree)`, with the generated bound -/
def treeHelper (v : PyVal) : Except Refusal (Fuel.Tree Nat) := subtree Gen.Limits.MAX_TREE_DEPTH 0 v

/-- nesting of a Python value along its two-element nodes -/
def nesting : PyVal → Nat
  | .two _ l r => max (nesting l) (nesting r) + 1
  | _ => 0

/-- the Python value the harness builds for a letter tree: leaf `a` is `[(0xC0, ["OP_1"])]`, and the letters say which
    malformed leaf to build instead (`x`: `[(0xC0, "OP_1")]`, `y`: `[("c0", ["OP_1"])]`, `z`: `["OP_1"]`, `w`: `[]`);
    a branch is `[left, right]` -/
def ofLetters : Fuel.Tree Char → PyVal
  | .leaf 'x' => .one true (.two false (.int 0xC0) .atom)
  | .leaf 'y' => .one true (.two false .atom (.script true))
  | .leaf 'z' => .one true .atom
  | .leaf 'w' => .nil true
  | .leaf _ => .one true (.two false (.int 0xC0) (.script true))
  | .node l r => .two true (ofLetters l) (ofLetters r)

def Refusal.name : Refusal → String
  | .deep => "deep" | .node => "node" | .leaf => "leaf" | .vtype => "vtype" | .stype => "stype"

end Btc.TapTree
