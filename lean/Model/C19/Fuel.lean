import Model.Common.Bytes
import Model.C05.VarInt
import Generated.Limits
/-
C19 — the three shapes a hostile input can stretch, as small generic models (DESIGN §3 C19).

  `many`      the loop `while stream: item = parse(stream)` (script decode, PSBT map records, p2p
              payload items): iterated parsing with fuel;
  `counted`   a CompactSize count checked against its cap BEFORE the items are read, then that many
              items (`Tx.parse` inputs/outputs, `Witness.parse`, `Addr.parse`, …);
  `parseTree` a nested grammar by recursive descent with fuel and a depth bound: the skeleton of
              `descriptors._parse_tree` (BIP386 TREE: a leaf, or `{TREE,TREE}`), whose depth guard is
              `Gen.Limits.MAX_TREE_DEPTH`.

Everything is over an arbitrary alphabet `σ` where that makes sense.  The fuel is the length of the
input; `Proofs/C19/Fuel.lean` proves it always suffices (more fuel never changes an answer), so
the functions are the total, terminating functions the fuel-free grammar defines.
Core Lean only.
-/
namespace Btc.Fuel

open Btc

/-- one item off the front of the input, with the unread rest; `none` is a refusal. -/
abbrev Step (σ α : Type) := List σ → Option (α × List σ)

/-- a step that reads at least one symbol whenever it answers. -/
def Consuming (p : Step σ α) : Prop := ∀ s x rest, p s = some (x, rest) → rest.length < s.length

/-- a step that reads no more than it returns: the rest is a suffix of the input. -/
def Suffixing (p : Step σ α) : Prop := ∀ s x rest, p s = some (x, rest) → ∃ pre, s = pre ++ rest

/-- iterated parsing: items until the step refuses (or the fuel is spent). -/
def many (p : Step σ α) : Nat → List σ → List α × List σ
  | 0, s => ([], s)
  | fuel + 1, s =>
    match p s with
    | none => ([], s)
    | some (x, rest) =>
      let r := many p fuel rest
      (x :: r.1, r.2)

/-- the loop with the fuel the input provides. -/
def manyAll (p : Step σ α) (s : List σ) : List α × List σ := many p s.length s

/-- exactly `n` items, one after the other. -/
def times (p : Step σ α) : Nat → List σ → Option (List α × List σ)
  | 0, s => some ([], s)
  | n + 1, s =>
    match p s with
    | none => none
    | some (x, rest) =>
      match times p n rest with
      | none => none
      | some (xs, r) => some (x :: xs, r)

/-- refusals of a count-prefixed list. -/
inductive CountErr
  | count (e : VarInt.Err)   -- the CompactSize itself (short, non-canonical, above `MAX_SIZE`)
  | tooMany                  -- the count is above the cap of the call site
  | item                     -- an item was refused
  deriving DecidableEq, Repr

/-- a CompactSize count, refused above `cap` BEFORE any item is read, then that many items. -/
def counted (cap : Nat) (item : Step UInt8 α) (b : Bytes) : Except CountErr (List α × Bytes) :=
  match VarInt.parse b Gen.Limits.MAX_SIZE with
  | .error e => .error (.count e)
  | .ok (n, rest) =>
    if n > cap then .error .tooMany
    else match times item n rest with
      | none => .error .item
      | some r => .ok r

/-! ### the nested grammar -/

inductive Tree (α : Type)
  | leaf (x : α)
  | node (l r : Tree α)
  deriving DecidableEq, Repr

def Tree.depth : Tree α → Nat
  | .leaf _ => 0
  | .node l r => max l.depth r.depth + 1

def Tree.leaves : Tree α → Nat
  | .leaf _ => 1
  | .node l r => l.leaves + r.leaves

/-- the delimiters of the grammar. -/
structure Delims (σ : Type) where
  opn : σ
  sep : σ
  cls : σ

/-- `_parse_tree(expression, depth)`: at most `maxDepth` enclosing braces; a branch is
    `{ TREE , TREE }`; anything that does not open a brace is a leaf. -/
def parseTree [DecidableEq σ] (d : Delims σ) (maxDepth : Nat) (leaf : Step σ α) :
    Nat → Nat → List σ → Option (Tree α × List σ)
  | 0, _, _ => none
  | fuel + 1, depth, s =>
    if depth > maxDepth then none
    else match s with
      | [] => none
      | c :: r =>
        if c = d.opn then
          match parseTree d maxDepth leaf fuel (depth + 1) r with
          | none => none
          | some (l, r1) =>
            match r1 with
            | [] => none
            | c1 :: r2 =>
              if c1 = d.sep then
                match parseTree d maxDepth leaf fuel (depth + 1) r2 with
                | none => none
                | some (rt, r3) =>
                  match r3 with
                  | [] => none
                  | c2 :: r4 => if c2 = d.cls then some (.node l rt, r4) else none
              else none
        else match leaf (c :: r) with
          | none => none
          | some (x, rest) => some (.leaf x, rest)

/-- the whole text is one tree; fuel: its length (every level costs a symbol). -/
def parseTreeAll [DecidableEq σ] (d : Delims σ) (maxDepth : Nat) (leaf : Step σ α) (s : List σ) :
    Option (Tree α) :=
  match parseTree d maxDepth leaf (s.length + 1) 0 s with
  | some (t, []) => some t
  | _ => none

/-- writer of the same grammar. -/
def printTree (d : Delims σ) (pl : α → List σ) : Tree α → List σ
  | .leaf x => pl x
  | .node l r => d.opn :: (printTree d pl l ++ d.sep :: (printTree d pl r ++ [d.cls]))

/-! ### the instance the driver serves: braces, comma, one-letter leaves -/

def braces : Delims Char := ⟨'{', ',', '}'⟩

/-- a leaf of the test grammar: one lower-case letter (the harness writes `pk(KEY_letter)` for it). -/
def letterLeaf : Step Char Char
  | c :: r => if c.isLower then some (c, r) else none
  | [] => none

def parseLetters (s : List Char) : Option (Tree Char) :=
  parseTreeAll braces Gen.Limits.MAX_TREE_DEPTH letterLeaf s

def showTree : Tree Char → String
  | .leaf c => c.toString
  | .node l r => "(" ++ showTree l ++ "," ++ showTree r ++ ")"

end Btc.Fuel
