import Model.Common.Bytes
import Generated.VarInt
/-
CompactSize parser (`btclib/var_int.py: parse, _parse_number`), hand-modelled; the
branch table (prefix, width, minimum) and MAX_SIZE come from `Generated/VarInt.lean`.
The serializer and `_size` are not modelled by hand at all: they are translated
(`Gen.VarInt.serialize`, `Gen.VarInt.size`).
-/
namespace Btc.VarInt

open Btc

inductive Err | short | noncanonical | toobig
  deriving DecidableEq, Repr

def Err.name : Err → String
  | .short => "short" | .noncanonical => "noncanonical" | .toobig => "toobig"

def parseNumber (rest : Bytes) (size minimum : Nat) : Except Err (Nat × Bytes) :=
  if rest.length < size then .error .short
  else
    let i := ofLE (rest.take size)
    if i < minimum then .error .noncanonical else .ok (i, rest.drop size)

def checkMax (maxSize : Nat) (r : Nat × Bytes) : Except Err (Nat × Bytes) :=
  if r.1 > maxSize then .error .toobig else .ok r

/-- `var_int.parse`: returns the value and the unconsumed rest. -/
def parseWith (table : List (Nat × Nat × Nat)) (b : Bytes) (maxSize : Nat) : Except Err (Nat × Bytes) :=
  match b with
  | [] => .error .short
  | x :: rest =>
    match table.find? (fun r => r.1 == x.toNat) with
    | some (_, size, minimum) => (parseNumber rest size minimum).bind (checkMax maxSize)
    | none => checkMax maxSize (x.toNat, rest)

def parse (b : Bytes) (maxSize : Nat := Gen.VarInt.MAX_SIZE) : Except Err (Nat × Bytes) :=
  parseWith Gen.VarInt.parseTable b maxSize

end Btc.VarInt
