import Model.C05.Codec
import Generated.Wire
/-
The transaction family and the block, as codecs (DESIGN §3 C05).  Each definition mirrors the
btclib function named beside it; caps, the segwit marker and the header length come from
`Generated/Wire.lean` (read off the current source on every run).

What `valid` means here is the *structural* half of `assert_valid`: the widths of the fields (what
decides whether `to_bytes` / `var_int.serialize` can write them and `parse` reads them back).  The
semantic half (MoneyRange, coinbase rules, duplicate outpoints, proof of work …) is not part of the
wire format and is not modelled: the parsers are modelled with `check_validity=False`.
-/
namespace Btc.Wire
open Btc

/-- `guard`: a fixed-size object is read whole first (`stream.read(n)`, "invalid decoded length"). -/
def Codec.guardLen (c : Codec α) (n : Nat) (e : Err) : Codec α :=
  { c with parse := fun b => if (b.take n).length < n then .error e else c.parse b }

-- ------------------------------------------------------------------ OutPoint (tx/out_point.py)
structure OutPoint where
  txId : Bytes
  vout : Nat
  deriving DecidableEq, Repr

/-- `OutPoint.serialize / parse / _serialized_size` -/
def outPoint : Codec OutPoint :=
  (pair (revBytesN 32) (uintLE 4)).map (fun p => ⟨p.1, p.2⟩) (fun o => (o.txId, o.vout))

-- ------------------------------------------------------------------ Witness (script/witness.py)
/-- `Witness.serialize / parse / _serialized_size` -/
def witness : Codec (List Bytes) := listOf Gen.Wire.MAX_WITNESS_STACK_ITEMS varBytes

-- ------------------------------------------------------------------ TxIn (tx/tx_in.py)
structure TxIn where
  prevOut : OutPoint
  scriptSig : Bytes
  sequence : Nat
  witness : List Bytes
  deriving DecidableEq, Repr

def TxIn.strip (i : TxIn) : TxIn := { i with witness := [] }

/-- `TxIn.serialize / parse / _serialized_size`: the witness is not part of the input's own
    encoding; `parse` answers with an empty one. -/
def txIn : Codec TxIn :=
  (pair outPoint (pair varBytes (uintLE 4))).map
    (fun p => ⟨p.1, p.2.1, p.2.2, []⟩) (fun i => (i.prevOut, i.scriptSig, i.sequence))

-- ------------------------------------------------------------------ TxOut (tx/tx_out.py)
structure TxOut where
  value : Int
  script : Bytes
  deriving DecidableEq, Repr

/-- `TxOut.serialize / parse / _serialized_size` (the amount is an 8-byte *signed* field) -/
def txOut : Codec TxOut :=
  (pair (intLE 8) varBytes).map (fun p => ⟨p.1, p.2⟩) (fun o => (o.value, o.script))

-- ------------------------------------------------------------------ Tx (tx/tx.py)
structure Tx where
  version : Nat
  lockTime : Nat
  vin : List TxIn
  vout : List TxOut
  deriving DecidableEq, Repr

def vinC : Codec (List TxIn) := listOf Gen.Wire.MAX_TX_IN_COUNT txIn
def voutC : Codec (List TxOut) := listOf Gen.Wire.MAX_TX_OUT_COUNT txOut

/-- `TxIn.is_segwit` -/
def TxIn.isSegwit (i : TxIn) : Bool := !i.witness.isEmpty
/-- `Tx.is_segwit` -/
def Tx.isSegwit (t : Tx) : Bool := t.vin.any TxIn.isSegwit
def Tx.witnesses (t : Tx) : List (List Bytes) := t.vin.map (·.witness)
def Tx.strip (t : Tx) : Tx := { t with vin := t.vin.map TxIn.strip }

/-- `Tx.serialize(include_witness)` -/
def Tx.ser (includeWitness : Bool) (t : Tx) : Bytes :=
  let segwit := includeWitness && t.isSegwit
  leBytes 4 t.version
    ++ (if segwit then Gen.Wire.SEGWIT_MARKER else [])
    ++ vinC.ser t.vin
    ++ voutC.ser t.vout
    ++ (if segwit then serList witness t.witnesses else [])
    ++ leBytes 4 t.lockTime

/-- `Tx._serialized_size(include_witness)` -/
def Tx.size (includeWitness : Bool) (t : Tx) : Nat :=
  let segwit := includeWitness && t.isSegwit
  4 + 4 + (if segwit then Gen.Wire.SEGWIT_MARKER.length else 0)
    + vinC.size t.vin + voutC.size t.vout
    + (if segwit then sizeList witness t.witnesses else 0)

def setWitnesses : List TxIn → List (List Bytes) → List TxIn
  | i :: is, w :: ws => { i with witness := w } :: setWitnesses is ws
  | _, _ => []

/-- the witness section of `Tx.parse`: one `Witness.parse` per input, then the refusal of a
    "superfluous witness record" (marker present, every witness empty). -/
def parseWitnesses (vin : List TxIn) (b : Bytes) : Res (List TxIn) :=
  match parseN witness vin.length b with
  | .error e => .error e
  | .ok (ws, r) =>
    if ws.all List.isEmpty then .error .superfluous else .ok (setWitnesses vin ws, r)

/-- `Tx.parse` (check_validity=False) -/
def Tx.parse (b : Bytes) : Res Tx :=
  match (uintLE 4).parse b with
  | .error e => .error e
  | .ok (version, b1) =>
    let segwit := b1.take 2 == Gen.Wire.SEGWIT_MARKER
    let b2 := if segwit then b1.drop 2 else b1
    match vinC.parse b2 with
    | .error e => .error e
    | .ok (vin, b3) =>
      match voutC.parse b3 with
      | .error e => .error e
      | .ok (vout, b4) =>
        match (if segwit then parseWitnesses vin b4 else .ok (vin, b4)) with
        | .error e => .error e
        | .ok (vin', b5) =>
          match (uintLE 4).parse b5 with
          | .error e => .error e
          | .ok (lockTime, b6) => .ok (⟨version, lockTime, vin', vout⟩, b6)

/-- the width-deciding half of `Tx.assert_valid` -/
def Tx.StructValid (t : Tx) : Prop :=
  t.version < 256 ^ 4 ∧ t.lockTime < 256 ^ 4
    ∧ vinC.valid (t.vin.map TxIn.strip) ∧ voutC.valid t.vout
    ∧ (∀ i ∈ t.vin, witness.valid i.witness)

/-- `StructValid` and not the shape `Tx.parse` cannot read back (NOT a btclib rule: btclib serializes that
    shape and then misreads it -- known finding `psbt.v0.noinputs.marker`) -/
def Tx.Valid (t : Tx) : Prop :=
  t.version < 256 ^ 4 ∧ t.lockTime < 256 ^ 4
    ∧ vinC.valid (t.vin.map TxIn.strip) ∧ voutC.valid t.vout
    ∧ (∀ i ∈ t.vin, witness.valid i.witness)
    ∧ ¬ (t.vin = [] ∧ t.vout.length = 1)

/-- the transaction with its witnesses (`include_witness=True`) -/
def tx : Codec Tx := ⟨Tx.ser true, Tx.parse, Tx.Valid, Tx.size true⟩

/-- `Tx.weight` -/
def Tx.weight (t : Tx) : Nat := 3 * t.size false + t.size true
/-- `Tx.vsize` = ceil(weight / 4) -/
def Tx.vsize (t : Tx) : Nat := (t.weight + 3) / 4
/-- `Tx.id` over a hash parameter (`hash256` in the code) -/
def Tx.id (H : Bytes → Bytes) (t : Tx) : Bytes := (H (t.ser false)).reverse
/-- `Tx.hash` (wtxid) over a hash parameter -/
def Tx.wid (H : Bytes → Bytes) (t : Tx) : Bytes := (H (t.ser true)).reverse

-- ------------------------------------------------------------------ BlockHeader (block/block_header.py)
structure BlockHeader where
  version : Int
  prevHash : Bytes
  merkleRoot : Bytes
  time : Nat        -- `int(self.time.timestamp())`
  bits : Bytes
  nonce : Nat
  deriving DecidableEq, Repr

def headerFields : Codec (Int × Bytes × Bytes × Nat × Bytes × Nat) :=
  pair (intLE 4) (pair (revBytesN Gen.Wire.HEADER_HASH_LEN) (pair (revBytesN 32)
    (pair (uintLE 4) (pair (revBytesN 4) (uintLE 4)))))

/-- `BlockHeader.serialize / parse / _serialized_size`: read whole, then sliced. -/
def blockHeader : Codec BlockHeader :=
  (headerFields.map
    (fun p => (⟨p.1, p.2.1, p.2.2.1, p.2.2.2.1, p.2.2.2.2.1, p.2.2.2.2.2⟩ : BlockHeader))
    (fun h => (h.version, h.prevHash, h.merkleRoot, h.time, h.bits, h.nonce))).guardLen
      Gen.Wire.HEADER_LENGTH .badLength

def BlockHeader.hash (H : Bytes → Bytes) (h : BlockHeader) : Bytes := (H (blockHeader.ser h)).reverse

-- ------------------------------------------------------------------ Block (block/block.py)
structure Block where
  header : BlockHeader
  txs : List Tx
  deriving DecidableEq, Repr

/-- `Block.serialize(include_witness=True) / parse / size` -/
def block : Codec Block :=
  (pair blockHeader (listOf Gen.Wire.MAX_BLOCK_TX_COUNT tx)).map
    (fun p => ⟨p.1, p.2⟩) (fun b => (b.header, b.txs))

/-- `Block._serialized_size(include_witness)` -/
def Block.size (w : Bool) (b : Block) : Nat :=
  blockHeader.size b.header + (varInt Gen.Wire.MAX_BLOCK_TX_COUNT).size b.txs.length
    + ((b.txs.map (Tx.size w)).sum)
def Block.serW (w : Bool) (b : Block) : Bytes :=
  blockHeader.ser b.header ++ VarInt.ser b.txs.length ++ b.txs.flatMap (Tx.ser w)
/-- `Block.is_segwit` -/
def Block.isSegwit (b : Block) : Bool := b.txs.any Tx.isSegwit
def Block.weight (b : Block) : Nat := b.size false * 3 + b.size true

end Btc.Wire
