import Model.C05.TxValid
/-
The JSON form (`to_dict` / `from_dict`) of OutPoint, Witness, TxIn, TxOut, Tx
(tx/out_point.py, script/witness.py, tx/tx_in.py, tx/tx_out.py, tx/tx.py, utils.py: fields_from_json_object,
list_from_json_array, bytes_from_octets; script/script.py: script_to_dict / script_from_dict).

`J` is the value a json document decodes to (floats left out).  The objects are the Python objects: integer
fields are unbounded `Int`s until `assert_valid` has looked at them (`check_validity`), octet fields any length.
`toDict` mirrors `to_dict(check_validity=False)` after the `assert_valid()` the flag asks for; `fromDict cv`
mirrors `from_dict(check_validity=cv)`: the json-boundary checks (an object, its fields present, an array, a
hex string, `null` value refused) run whatever `cv` says, the constructor's `assert_valid` under `cv`.

Four things the dict carries are computed by code that is not this property's and are PARAMETERS here
(`Env`): the `asm` rendering of a script, the BTC-decimal text of an amount and its reading
(`amount.btc_from_sats / sats_from_btc`: C18), the `type`/`addresses` a script is classified as, the hash of
the ids.  The theorems say which law of them they use.  Core Lean only.
-/
namespace Btc.Json
open Btc Btc.Wire

inductive J where
  | null
  | bool (b : Bool)
  | num (i : Int)
  | str (s : List Char)
  | arr (l : List J)
  | obj (l : List (List Char × J))

inductive Err | value | type
  deriving DecidableEq, Repr

/-- `dict_[key]` on a `_JsonObject`: a missing field is a BTClibValueError -/
def J.field (kvs : List (List Char × J)) (k : List Char) : Except Err J :=
  match kvs.lookup k with
  | some v => .ok v
  | none => .error .value

/-- `fields_from_json_object`: a Mapping or a BTClibTypeError -/
def J.fields : J → Except Err (List (List Char × J))
  | .obj l => .ok l
  | _ => .error .type

/-- `list_from_json_array`: a str and a mapping are not arrays -/
def J.items : J → Except Err (List J)
  | .arr l => .ok l
  | _ => .error .type

-- ------------------------------------------------------------------ hex (`bytes.hex` / `bytes.fromhex`)
def hexChar (n : Nat) : Char := if n < 10 then Char.ofNat (48 + n) else Char.ofNat (87 + n)

/-- `bytes.hex()` -/
def hexOf (b : Bytes) : List Char := b.flatMap (fun x => [hexChar (x.toNat / 16), hexChar (x.toNat % 16)])

def hexVal? (c : Char) : Option Nat :=
  if 48 ≤ c.toNat ∧ c.toNat ≤ 57 then some (c.toNat - 48)
  else if 97 ≤ c.toNat ∧ c.toNat ≤ 102 then some (c.toNat - 87)
  else if 65 ≤ c.toNat ∧ c.toNat ≤ 70 then some (c.toNat - 55)
  else none

/-- ASCII whitespace `bytes.fromhex` skips between octets -/
def isSpace (c : Char) : Bool := c.toNat == 32 || (9 ≤ c.toNat && c.toNat ≤ 13)

/-- `bytes.fromhex`: either case, whitespace between octets, never inside one -/
def unhex : List Char → Option Bytes
  | [] => some []
  | c :: tl =>
    if isSpace c then unhex tl
    else match tl with
      | [] => none
      | d :: r =>
        match hexVal? c, hexVal? d, unhex r with
        | some x, some y, some bs => some (UInt8.ofNat (16 * x + y) :: bs)
        | _, _, _ => none

/-- `bytes_from_octets` on a json value: a hex string, or a TypeError / ValueError -/
def octets : J → Except Err Bytes
  | .str s => match unhex s with
    | some b => .ok b
    | none => .error .value
  | _ => .error .type

/-- an int field as `assert_valid` wants it (`is_integer`: a bool is not one), in `lo ≤ · ≤ hi` -/
def intField (cv : Bool) (lo hi : Int) : J → Except Err Int
  | .num i => if cv && !(decide (lo ≤ i) && decide (i ≤ hi)) then .error .value else .ok i
  | _ => .error .type

-- ------------------------------------------------------------------ what is computed elsewhere
structure Env where
  asm : Bytes → List Char                  -- `" ".join(parse(script))`
  btcText : Int → List Char                -- `str(btc_from_sats(value))`
  satsOf : J → Option Int                  -- `sats_from_btc(dict_["value"])`, `none` = refused
  scriptType : Bytes → List Char → J       -- `ScriptPubKey.type`
  addresses : Bytes → List Char → J        -- `ScriptPubKey.addresses`
  H : Bytes → Bytes                        -- `hash256`

-- ------------------------------------------------------------------ scripts
/-- `script_to_dict` -/
def scriptToDict (e : Env) (s : Bytes) : J := .obj [(['a', 's', 'm'], .str (e.asm s)), (['h', 'e', 'x'], .str (hexOf s))]

/-- `script_from_dict`: a bare hex string, or the `hex` of a dict whose `asm`, if any, is the one `hex` gives -/
def scriptFromDict (e : Env) : J → Except Err Bytes
  | .obj kvs => do
    let s ← octets (← J.field kvs ['h', 'e', 'x'])
    match kvs.lookup ['a', 's', 'm'] with
    | none | some .null => pure s
    | some (.str a) => if a = e.asm s then pure s else .error .value
    | some _ => .error .type
  | j => octets j

-- ------------------------------------------------------------------ OutPoint
structure OutPoint where
  txId : Bytes
  vout : Int
  deriving DecidableEq, Repr

def OutPoint.Valid (o : OutPoint) : Prop := o.txId.length = 32 ∧ 0 ≤ o.vout ∧ o.vout ≤ 0xFFFFFFFF
instance (o : OutPoint) : Decidable o.Valid := by unfold OutPoint.Valid; infer_instance

def OutPoint.toDict (o : OutPoint) : J := .obj [(['t', 'x', 'i', 'd'], .str (hexOf o.txId)), (['v', 'o', 'u', 't'], .num o.vout)]

def OutPoint.fromDict (cv : Bool) (j : J) : Except Err OutPoint := do
  let kvs ← j.fields
  let txid ← octets (← J.field kvs ['t', 'x', 'i', 'd'])
  let vout ← intField false 0 0 (← J.field kvs ['v', 'o', 'u', 't'])
  let o : OutPoint := ⟨txid, vout⟩
  if cv && !decide o.Valid then .error .value else pure o

-- ------------------------------------------------------------------ Witness
def witnessToDict (w : List Bytes) : J := .obj [(['s', 't', 'a', 'c', 'k'], .arr (w.map (fun x => .str (hexOf x))))]

def witnessFromDict (j : J) : Except Err (List Bytes) := do
  let kvs ← j.fields
  let items ← (← J.field kvs ['s', 't', 'a', 'c', 'k']).items
  items.mapM octets

-- ------------------------------------------------------------------ TxIn
structure TxIn where
  prevOut : OutPoint
  scriptSig : Bytes
  sequence : Int
  witness : List Bytes
  deriving DecidableEq, Repr

def TxIn.Valid (i : TxIn) : Prop := i.prevOut.Valid ∧ 0 ≤ i.sequence ∧ i.sequence ≤ 0xFFFFFFFF
instance (i : TxIn) : Decidable i.Valid := by unfold TxIn.Valid; infer_instance

def TxIn.toDict (e : Env) (i : TxIn) : J :=
  .obj [(['p', 'r', 'e', 'v', '_', 'o', 'u', 't'], i.prevOut.toDict), (['s', 'c', 'r', 'i', 'p', 't', 'S', 'i', 'g'], scriptToDict e i.scriptSig),
        (['s', 'e', 'q', 'u', 'e', 'n', 'c', 'e'], .num i.sequence), (['t', 'x', 'i', 'n', 'w', 'i', 't', 'n', 'e', 's', 's'], witnessToDict i.witness)]

def TxIn.fromDict (e : Env) (cv : Bool) (j : J) : Except Err TxIn := do
  let kvs ← j.fields
  let po ← OutPoint.fromDict false (← J.field kvs ['p', 'r', 'e', 'v', '_', 'o', 'u', 't'])
  let sg ← scriptFromDict e (← J.field kvs ['s', 'c', 'r', 'i', 'p', 't', 'S', 'i', 'g'])
  let sq ← intField false 0 0 (← J.field kvs ['s', 'e', 'q', 'u', 'e', 'n', 'c', 'e'])
  let w ← witnessFromDict (← J.field kvs ['t', 'x', 'i', 'n', 'w', 'i', 't', 'n', 'e', 's', 's'])
  let i : TxIn := ⟨po, sg, sq, w⟩
  if cv && !decide i.Valid then .error .value else pure i

-- ------------------------------------------------------------------ TxOut
structure TxOut where
  value : Int
  script : Bytes
  network : List Char
  deriving DecidableEq, Repr

def networks : List (List Char) := Gen.Wire.NETWORK_NAMES.map String.toList

def TxOut.Valid (o : TxOut) : Prop := moneyRange o.value = true ∧ o.network ∈ networks
instance (o : TxOut) : Decidable o.Valid := by unfold TxOut.Valid; infer_instance

def TxOut.toDict (e : Env) (o : TxOut) : J :=
  .obj [(['v', 'a', 'l', 'u', 'e'], .str (e.btcText o.value)), (['s', 'c', 'r', 'i', 'p', 't', 'P', 'u', 'b', 'K', 'e', 'y'], scriptToDict e o.script),
        (['t', 'y', 'p', 'e'], e.scriptType o.script o.network), (['a', 'd', 'd', 'r', 'e', 's', 's', 'e', 's'], e.addresses o.script o.network),
        (['n', 'e', 't', 'w', 'o', 'r', 'k'], .str o.network)]

def TxOut.fromDict (e : Env) (cv : Bool) (j : J) : Except Err TxOut := do
  let kvs ← j.fields
  let v ← match (← J.field kvs ['v', 'a', 'l', 'u', 'e']) with
    | .null => .error .value                       -- "null transaction output value"
    | jv => match e.satsOf jv with
      | some v => pure v
      | none => .error .value
  let s ← scriptFromDict e (← J.field kvs ['s', 'c', 'r', 'i', 'p', 't', 'P', 'u', 'b', 'K', 'e', 'y'])
  let n ← match kvs.lookup ['n', 'e', 't', 'w', 'o', 'r', 'k'] with       -- `.get("network", "mainnet")`; ScriptPubKey checks it always
    | none => pure ['m', 'a', 'i', 'n', 'n', 'e', 't']
    | some (.str n) => if n ∈ networks then pure n else .error .value
    | some _ => .error .type
  let o : TxOut := ⟨v, s, n⟩
  if cv && !decide o.Valid then .error .value else pure o

-- ------------------------------------------------------------------ Tx
structure Tx where
  version : Int
  lockTime : Int
  vin : List TxIn
  vout : List TxOut
  deriving DecidableEq, Repr

/-- the wire object of a transaction whose fields the wire can hold -/
def Tx.toWire (t : Tx) : Wire.Tx :=
  ⟨t.version.toNat, t.lockTime.toNat,
   t.vin.map (fun i => ⟨⟨i.prevOut.txId, i.prevOut.vout.toNat⟩, i.scriptSig, i.sequence.toNat, i.witness⟩),
   t.vout.map (fun o => ⟨o.value, o.script⟩)⟩

/-- `Tx.assert_valid()`: field ranges, each input and output, and the transaction-level rules of
    `Model/C05/TxValid.lean` -/
def Tx.Valid (t : Tx) : Prop :=
  (0 ≤ t.version ∧ t.version ≤ 0xFFFFFFFF) ∧ (0 ≤ t.lockTime ∧ t.lockTime ≤ 0xFFFFFFFF) ∧
    (∀ i ∈ t.vin, i.Valid) ∧ (∀ o ∈ t.vout, o.Valid) ∧ t.toWire.assertValid false = true
instance (t : Tx) : Decidable t.Valid := by unfold Tx.Valid; infer_instance

def Tx.toDict (e : Env) (t : Tx) : J :=
  let w := t.toWire
  .obj [(['t', 'x', 'i', 'd'], .str (hexOf (w.id e.H))), (['h', 'a', 's', 'h'], .str (hexOf (w.wid e.H))),
        (['v', 'e', 'r', 's', 'i', 'o', 'n'], .num t.version), (['s', 'i', 'z', 'e'], .num (w.size true)), (['v', 's', 'i', 'z', 'e'], .num w.vsize),
        (['w', 'e', 'i', 'g', 'h', 't'], .num w.weight), (['l', 'o', 'c', 'k', 't', 'i', 'm', 'e'], .num t.lockTime),
        (['v', 'i', 'n'], .arr (t.vin.map (TxIn.toDict e))), (['v', 'o', 'u', 't'], .arr (t.vout.map (TxOut.toDict e)))]

def Tx.fromDict (e : Env) (cv : Bool) (j : J) : Except Err Tx := do
  let kvs ← j.fields
  let ver ← intField false 0 0 (← J.field kvs ['v', 'e', 'r', 's', 'i', 'o', 'n'])
  let lt ← intField false 0 0 (← J.field kvs ['l', 'o', 'c', 'k', 't', 'i', 'm', 'e'])
  let vin ← (← (← J.field kvs ['v', 'i', 'n']).items).mapM (TxIn.fromDict e false)
  let vout ← (← (← J.field kvs ['v', 'o', 'u', 't']).items).mapM (TxOut.fromDict e false)
  let t : Tx := ⟨ver, lt, vin, vout⟩
  if cv && !decide t.Valid then .error .value else pure t

/-- keys of a json object, in order -/
def J.keys : J → List (List Char)
  | .obj l => l.map (·.1)
  | _ => []

end Btc.Json
