import Model.C05.Tx
/-
The semantic half of `Tx.assert_valid` / `TxOut.assert_valid` (tx/tx.py, tx/tx_out.py, amount.py), as far as
it can bite on an object that came out of `parse` (types and field widths hold by construction there):
coinbase rule, at least one input / output (unless `unsigned_template`), no outpoint spent twice, MoneyRange
of every output and of their sum.  Needed by the typed PSBT layer, whose value deserializers call
`assert_valid` whatever `check_validity` says (`deserialize_tx`, `TxOut.parse(v)`).
Constants regenerated from the source (`Gen.Wire.MAX_SATOSHI`, `COINBASE_SCRIPT_MIN/MAX`).  Core Lean only.
-/
namespace Btc.Wire
open Btc

/-- `OutPoint.is_coinbase` -/
def OutPoint.isCoinbase (o : OutPoint) : Bool := o.txId == List.replicate 32 0 && o.vout == 0xFFFFFFFF

/-- `Tx.is_coinbase`: one input, and it is the null outpoint -/
def Tx.isCoinbase (t : Tx) : Bool :=
  match t.vin with
  | [i] => i.prevOut.isCoinbase
  | _ => false

/-- `valid_sats_amount` with the default dust of 0 (MoneyRange) -/
def moneyRange (v : Int) : Bool := decide (0 ≤ v) && decide (v ≤ (Gen.Wire.MAX_SATOSHI : Int))

/-- `_assert_valid_coinbase` -/
def Tx.coinbaseOk (t : Tx) : Bool :=
  if t.isCoinbase then
    match t.vin with
    | i :: _ => decide (Gen.Wire.COINBASE_SCRIPT_MIN ≤ i.scriptSig.length) &&
        decide (i.scriptSig.length ≤ Gen.Wire.COINBASE_SCRIPT_MAX)
    | [] => true
  else t.vin.all (fun i => !i.prevOut.isCoinbase)

/-- `Tx.assert_valid(unsigned_template=template)` on a parsed transaction -/
def Tx.assertValid (template : Bool) (t : Tx) : Bool :=
  t.coinbaseOk
    && (template || !t.vin.isEmpty)
    && decide ((t.vin.map (·.prevOut)).Nodup)
    && (template || !t.vout.isEmpty)
    && t.vout.all (fun o => moneyRange o.value)
    && decide ((t.vout.map (·.value)).sum ≤ (Gen.Wire.MAX_SATOSHI : Int))

end Btc.Wire
