import Model.C05.PsbtMap
import Model.C05.Misc
import Model.C05.TxValid
/-
Typed layer of the PSBT maps (`psbt/psbt_in.py`, `psbt_out.py`, `psbt.py`: parse / serialize).

The typed object is modelled the way the code builds it: `fromRecs` is the dispatch loop of `parse`
(`fields[field] = value` for a whole-value field, `fields[field][k[1:]] = value` for a key-data field,
`unknown[k] = v` for the rest) and `toRecs` is the loop of `serialize` over the emission table
(`_SERIALIZED_FIELDS`): skip a field this version does not write, skip a field dropped once finalized,
skip a falsy value, write one record for a whole-value field and `sorted(dict.items())` for a dict.
`Proofs/C05/PsbtTyped.lean` proves that this loop equals "sort by (field rank, key) what is left after an
explicit drop predicate".

`PsbtIn.parse` reads the map (map layer), then sends every record through the deserializer of its
field type: whole-value fields (`_WHOLE_VALUE_FIELDS`, the key must be the type byte alone) and
key-data fields (`_KEY_DATA_FIELDS`), everything else going to `unknown`.  Every one of those
deserializers is *canonical*: what it accepts re-serializes to the very same value octets (that is T2
of the value codecs: Tx, TxOut, Witness, key origin, fixed-size integers; the rest are kept as bytes),
so the typed object is the record list with every value checked, and `PsbtIn.serialize` is:
the records in emission order (map layer `sortRecs inRank`), minus
  * a whole-value field whose value is falsy (`if not value`): empty octets, the empty witness --
    unless the field is in `_PRESENT_IF_NOT_NONE`;
  * once the input is finalized (a truthy final scriptSig or final witness): every field of
    `_DROPPED_ONCE_FINALIZED`.
ALL the tables are regenerated from the source (`Generated/Wire.lean`): emission order, whole / key-data
fields, version tables, `_PRESENT_IF_NOT_NONE`, `_DROPPED_ONCE_FINALIZED`, the finalizing fields, and the
`(type, value kind, size)` tables `PSBT_*_KINDS` that say which deserializer reads each value -- the value
check (`valueOkBy`), the never-falsy objects (`objectsOf`) and the non-empty falsy values (`emptyIsOf`) are
computed from those.  What the deserializers check whatever `check_validity` says is modelled too:
`Tx.assert_valid` behind `deserialize_tx`, MoneyRange behind `TxOut.parse(v)`, and
`assert_valid_hd_key_paths` behind `decode_hd_key_paths` in the constructors (key length, pairwise
distinct key origins: `Spec.distinctOk`).  Core Lean only.
-/
namespace Btc.Psbt
open Btc Btc.Wire

def tyOf (k : Bytes) : Nat := match k with | [] => 256 | t :: _ => t.toNat
def keyData (k : Bytes) : Bytes := k.drop 1

def isOk {ε α : Type} : Except ε α → Bool
  | .ok _ => true
  | .error _ => false

/-- `BIP32KeyOrigin.parse(v)` with the default check_validity: at most `KEYORIGIN_MAX_PATH` path elements -/
def keyOriginOk (v : Bytes) : Bool :=
  match keyOriginParseAll v with
  | .ok k => decide (k.2.length ≤ Gen.Wire.KEYORIGIN_MAX_PATH)
  | .error _ => false

/-- `assert_valid_hd_key_paths`: a derivation is keyed by a 33/65-byte public key or a 78-byte xpub -/
def hdKeyLenOk (kd : Bytes) : Bool := Gen.Wire.HD_KEY_LENGTHS.contains kd.length

/-- `parse_taproot_bip32` -/
def tapBip32Ok (v : Bytes) : Bool :=
  match VarInt.parse v Gen.VarInt.MAX_SIZE with
  | .error _ => false
  | .ok (n, rest) =>
    if n * Gen.Wire.LEAF_HASH_SIZE + Gen.Wire.FINGERPRINT_SIZE > rest.length then false
    else keyOriginOk (rest.drop (n * Gen.Wire.LEAF_HASH_SIZE))

/-- `parse_taproot_tree`: (depth, leaf version, var_bytes script)* up to the end of the value -/
def tapTreeOk : Nat → Bytes → Bool
  | _, [] => true
  | 0, _ :: _ => false
  | _ + 1, [_] => false
  | fuel + 1, _ :: _ :: rest =>
    match varBytes.parse rest with
    | .error _ => false
    | .ok (_, r) => tapTreeOk fuel r

/-- `deserialize_count`: one canonical CompactSize and nothing else -/
def countOk (v : Bytes) : Bool :=
  match VarInt.parse v Gen.VarInt.MAX_SIZE with
  | .ok (_, []) => true
  | _ => false

/-- the unsigned transaction of a version 0 psbt: `deserialize_tx(…, False, unsigned_template=True)` (the
    stripped serialization must give the value back: no marker; `Tx.assert_valid` of a template), then
    `_assert_unsigned` ("non empty script_sig or witness") -/
def unsignedTxOk (v : Bytes) : Bool :=
  match tx.parseAll v with
  | .ok t => !t.isSegwit && t.assertValid true && t.vin.all (fun i => i.scriptSig.isEmpty)
  | .error _ => false

/-- the deserializer of value kind `kind` (codes `Gen.Wire.VK_*`, read off the parse tables of the source)
    on value `v`: does it answer? -/
def valueOkKind (kind size : Nat) (v : Bytes) : Bool :=
  if kind = Gen.Wire.VK_UINT ∨ kind = Gen.Wire.VK_SINT ∨ kind = Gen.Wire.VK_FIXED then v.length == size
  else if kind = Gen.Wire.VK_TX then                      -- `deserialize_tx`: parse, then `assert_valid()`
    match tx.parseAll v with
    | .ok t => t.assertValid false
    | .error _ => false
  else if kind = Gen.Wire.VK_UNSIGNED_TX then unsignedTxOk v
  else if kind = Gen.Wire.VK_TXOUT then                   -- `TxOut.parse(v)`, validity checked
    match txOut.parseAll v with
    | .ok o => moneyRange o.value
    | .error _ => false
  else if kind = Gen.Wire.VK_WITNESS then isOk (witness.parseAll v)
  else if kind = Gen.Wire.VK_KEYORIGIN then keyOriginOk v
  else if kind = Gen.Wire.VK_LEAF then !v.isEmpty           -- script ‖ leaf version
  else if kind = Gen.Wire.VK_TAPBIP32 then tapBip32Ok v
  else if kind = Gen.Wire.VK_MUSIG then !v.isEmpty && v.length % Gen.Wire.MUSIG2_PUB_KEY_SIZE == 0
  else if kind = Gen.Wire.VK_TAPTREE then tapTreeOk v.length v
  else if kind = Gen.Wire.VK_COUNT then countOk v
  else true

/-- value check of field type `ty` under a generated `(type, kind, size)` table -/
def valueOkBy (kinds : List (Nat × Nat × Nat)) (ty : Nat) (v : Bytes) : Bool :=
  match kinds.lookup ty with
  | some (k, sz) => valueOkKind k sz v
  | none => true

/-- field types whose value decodes to an object that is never falsy (a transaction, an output) -/
def objectsOf (kinds : List (Nat × Nat × Nat)) : List Nat :=
  (kinds.filter (fun e => e.2.1 == Gen.Wire.VK_TX || e.2.1 == Gen.Wire.VK_UNSIGNED_TX
    || e.2.1 == Gen.Wire.VK_TXOUT)).map (·.1)

/-- field types whose falsy value is not the empty octet string, with that value: the empty witness stack
    `00`, the integer zero in its width; fields written under `is not None` (`pin`) have no falsy value -/
def emptyIsOf (kinds : List (Nat × Nat × Nat)) (pin : List Nat) : List (Nat × Bytes) :=
  kinds.filterMap (fun e =>
    if pin.contains e.1 then none
    else if e.2.1 == Gen.Wire.VK_WITNESS || e.2.1 == Gen.Wire.VK_COUNT then some (e.1, [0])
    else if e.2.1 == Gen.Wire.VK_UINT || e.2.1 == Gen.Wire.VK_SINT then some (e.1, List.replicate e.2.2 0)
    else none)

/-- `assert_valid_psbt_version`: the versions `parse` and `serialize` take -/
def admitsVersion (ver : Nat) : Bool := Gen.Wire.PSBT_VERSIONS.contains ver

/-- the tables one map kind is parsed and serialized by -/
structure Spec where
  order : List Nat              -- emission order of the field types; 256 = the `unknown` records
  whole : List Nat              -- whole-value fields (key = the type byte alone)
  keyed : List Nat              -- key-data fields
  v2 : List Nat                 -- refused when parsing at version 0
  v2only : List Nat             -- not written when serializing at version 0 (`_V2_ONLY`)
  v0only : List Nat             -- refused when parsing, and not written, at version 2
  presentIfNotNone : List Nat   -- written whenever present, whatever the value
  objects : List Nat            -- decode to objects that are never falsy (transactions, outputs)
  emptyIs : List (Nat × Bytes)  -- fields whose falsy value is not the empty octet string
  finals : List Nat             -- a truthy value here makes the map "finalized"
  droppedOnceFinal : List Nat
  hd : List Nat                 -- dicts `decode_hd_key_paths` checks: key length, pairwise distinct key origins
  valueOk : Nat → Bytes → Bool
  keyOk : Nat → Bytes → Bool    -- check on the key data of a key-data field

namespace Spec
variable (s : Spec)

def known (ty : Nat) : Bool := s.whole.contains ty || s.keyed.contains ty
/-- class of a key: its type byte when the parser knows it, 256 (`unknown`) otherwise -/
def cls (k : Bytes) : Nat := if s.known (tyOf k) then tyOf k else 256
/-- position in the emission order -/
def rank (k : Bytes) : Nat := s.order.idxOf (s.cls k)

/-- fields the loop of `serialize` passes over at this version -/
def gated (ver : Nat) (ty : Nat) : Bool :=
  (ver == 0 && s.v2only.contains ty) || (ver != 0 && s.v0only.contains ty)

/-- one record through the dispatch of `parse` -/
def recordOk (ver : Nat) (r : Rec) : Bool :=
  let ty := tyOf r.1
  if ver = 0 && s.v2.contains ty then false
  else if ver != 0 && s.v0only.contains ty then false
  else if s.whole.contains ty then (keyData r.1).isEmpty && s.valueOk ty r.2
  else if s.keyed.contains ty then s.keyOk ty (keyData r.1) && s.valueOk ty r.2
  else true

/-- `not value` for the value a whole-value field decodes to -/
def falsy (ty : Nat) (v : Bytes) : Bool :=
  if s.presentIfNotNone.contains ty || s.objects.contains ty then false
  else match s.emptyIs.lookup ty with
    | some e => v == e
    | none => v.isEmpty

def finalRec (r : Rec) : Bool :=
  s.finals.contains (tyOf r.1) && s.whole.contains (tyOf r.1) && !s.falsy (tyOf r.1) r.2
def finalized (recs : List Rec) : Bool := recs.any s.finalRec

/-- the record is one `serialize` does not write back -/
def dropped (fin : Bool) (r : Rec) : Bool :=
  (s.whole.contains (tyOf r.1) && s.falsy (tyOf r.1) r.2)
    || (fin && s.known (tyOf r.1) && s.droppedOnceFinal.contains (tyOf r.1))

def kept (recs : List Rec) : List Rec := recs.filter (fun r => !s.dropped (s.finalized recs) r)

/-- `assert_valid_hd_key_paths` ("Duplicated key origin values"), reached through `decode_hd_key_paths` in
    the constructor whatever `check_validity` says: inside each dict of `hd` the values are pairwise distinct -/
def distinctOk (recs : List Rec) : Bool :=
  s.hd.all (fun ty => decide (((recs.filter (fun r => tyOf r.1 == ty)).map (·.2)).Nodup))

end Spec

/-- the typed object: the fields `parse` fills -/
structure Typed where
  whole : List (Nat × Bytes)            -- field type ↦ value
  keyed : List (Nat × Bytes × Bytes)    -- field type ↦ {key data ↦ value}
  unknown : List Rec
  deriving Repr

/-- the dispatch loop of `parse` -/
def fromRecs (s : Spec) (recs : List Rec) : Typed where
  whole := (recs.filter (fun r => s.whole.contains (tyOf r.1))).map (fun r => (tyOf r.1, r.2))
  keyed := (recs.filter (fun r => !s.whole.contains (tyOf r.1) && s.keyed.contains (tyOf r.1))).map
    (fun r => (tyOf r.1, keyData r.1, r.2))
  unknown := recs.filter (fun r => !s.known (tyOf r.1))

/-- `bool(self.final_script_sig or self.final_script_witness)` -/
def Typed.finalized (s : Spec) (t : Typed) : Bool :=
  t.whole.any (fun e => s.finals.contains e.1 && !s.falsy e.1 e.2)

/-- `sorted(d.items())` -/
def sortKeys (l : List Rec) : List Rec := l.mergeSort (fun a b => bytesLe a.1 b.1)

/-- one turn of the loop of `serialize` -/
def emit (s : Spec) (ver : Nat) (t : Typed) (fin : Bool) (ty : Nat) : List Rec :=
  if ty = 256 then sortKeys t.unknown
  else if s.gated ver ty then []
  else if fin && s.droppedOnceFinal.contains ty then []
  else if s.whole.contains ty then
    (t.whole.filter (fun e => e.1 == ty && !s.falsy ty e.2)).map (fun e => ([UInt8.ofNat ty], e.2))
  else sortKeys ((t.keyed.filter (fun e => e.1 == ty)).map (fun e => (UInt8.ofNat ty :: e.2.1, e.2.2)))

/-- `serialize` -/
def toRecs (s : Spec) (ver : Nat) (t : Typed) : List Rec := s.order.flatMap (emit s ver t (t.finalized s))

/-- `X(**fields, check_validity=False).serialize(psbt_version=ver, check_validity=False)` on a typed object
    given field by field (the `*.torecs` streams: objects built by the constructors, no parser involved) -/
def serTyped (s : Spec) (ver : Nat) (t : Typed) : Except Err Bytes :=
  if !admitsVersion ver then .error .invalid else .ok (serMap (toRecs s ver t))

/-- `X.parse(b, psbt_version=ver).serialize(psbt_version=ver)` on the octets of one map -/
def reser (s : Spec) (ver : Nat) (b : Bytes) : Except Err Bytes :=
  match parseMap b with
  | .error e => .error e
  | .ok (recs, rest) =>
    if !admitsVersion ver then .error .invalid
    else if !rest.isEmpty then .error .trailing
    else if recs.all (s.recordOk ver) && s.distinctOk recs then .ok (serMap (toRecs s ver (fromRecs s recs)))
    else .error .invalid

def runReser (s : Spec) (ver : Nat) (b : Bytes) : String :=
  match reser s ver b with
  | .error _ => "err refused"
  | .ok out => s!"ok {toHex out}"

-- ------------------------------------------------------------------ input maps (tables generated)
def specIn : Spec where
  order := Gen.Wire.PSBT_IN_ORDER
  whole := Gen.Wire.PSBT_IN_WHOLE
  keyed := Gen.Wire.PSBT_IN_KEYED
  v2 := Gen.Wire.PSBT_IN_V2
  v2only := Gen.Wire.PSBT_IN_V2_ONLY
  v0only := []
  presentIfNotNone := Gen.Wire.PSBT_IN_PRESENT_IF_NOT_NONE
  objects := objectsOf Gen.Wire.PSBT_IN_KINDS
  emptyIs := emptyIsOf Gen.Wire.PSBT_IN_KINDS Gen.Wire.PSBT_IN_PRESENT_IF_NOT_NONE   -- the empty witness stack
  finals := Gen.Wire.PSBT_IN_FINALS
  droppedOnceFinal := Gen.Wire.PSBT_IN_DROPPED_ONCE_FINALIZED
  hd := Gen.Wire.PSBT_IN_HD
  valueOk := valueOkBy Gen.Wire.PSBT_IN_KINDS
  keyOk := fun ty kd => !Gen.Wire.PSBT_IN_HD.contains ty || hdKeyLenOk kd

-- ------------------------------------------------------------------ output maps (psbt/psbt_out.py)
/- `PsbtOut.parse / serialize` are written out field by field; their tables are read off the syntax
   tree of those functions by `tools/specs/wire.py` (`Gen.Wire.PSBT_OUT_*`). -/
def specOut : Spec where
  order := Gen.Wire.PSBT_OUT_ORDER
  whole := Gen.Wire.PSBT_OUT_WHOLE
  keyed := Gen.Wire.PSBT_OUT_KEYED
  v2 := Gen.Wire.PSBT_OUT_V2
  v2only := Gen.Wire.PSBT_OUT_V2_ONLY
  v0only := []
  presentIfNotNone := Gen.Wire.PSBT_OUT_PRESENT_IF_NOT_NONE
  objects := objectsOf Gen.Wire.PSBT_OUT_KINDS
  emptyIs := emptyIsOf Gen.Wire.PSBT_OUT_KINDS Gen.Wire.PSBT_OUT_PRESENT_IF_NOT_NONE
  finals := []                    -- `PsbtOut.serialize` has no finalizer rule
  droppedOnceFinal := []
  hd := Gen.Wire.PSBT_OUT_HD
  valueOk := valueOkBy Gen.Wire.PSBT_OUT_KINDS
  keyOk := fun ty kd => !Gen.Wire.PSBT_OUT_HD.contains ty || hdKeyLenOk kd

-- ------------------------------------------------------------------ global map (psbt/psbt.py)
def specGlobal : Spec where
  order := Gen.Wire.PSBT_GLOBAL_ORDER
  whole := Gen.Wire.PSBT_GLOBAL_WHOLE
  keyed := Gen.Wire.PSBT_GLOBAL_KEYED
  v2 := Gen.Wire.PSBT_GLOBAL_V2
  v2only := Gen.Wire.PSBT_GLOBAL_V2_ONLY
  v0only := Gen.Wire.PSBT_GLOBAL_V0_ONLY
  presentIfNotNone := Gen.Wire.PSBT_GLOBAL_PRESENT_IF_NOT_NONE
  objects := objectsOf Gen.Wire.PSBT_GLOBAL_KINDS
  -- `if self.version:` — version 0 is not written
  emptyIs := emptyIsOf Gen.Wire.PSBT_GLOBAL_KINDS Gen.Wire.PSBT_GLOBAL_PRESENT_IF_NOT_NONE
  finals := []                    -- `Psbt.serialize` has no finalizer rule for the global map
  droppedOnceFinal := []
  hd := Gen.Wire.PSBT_GLOBAL_HD
  valueOk := valueOkBy Gen.Wire.PSBT_GLOBAL_KINDS
  keyOk := fun ty kd => !Gen.Wire.PSBT_GLOBAL_HD.contains ty || hdKeyLenOk kd

/-- `_global_version`: the value of the version record, 0 when there is none -/
def globalVersion (recs : List Rec) : Nat :=
  match recs.find? (fun r => tyOf r.1 == Gen.Wire.PSBT_GLOBAL_VERSION) with
  | some r => ofLE r.2
  | none => 0

def hasType (recs : List Rec) (ty : Nat) : Bool := recs.any (fun r => tyOf r.1 == ty)

/-- `_settle_globals`: what each version requires -/
def requiredOk (ver : Nat) (recs : List Rec) : Bool :=
  if ver = 0 then hasType recs Gen.Wire.PSBT_GLOBAL_UNSIGNED_TX
  else Gen.Wire.PSBT_GLOBAL_REQUIRED_V2.all (hasType recs)

/-- the global map through `Psbt.parse` / `Psbt.serialize` -/
def reserGlobal (b : Bytes) : Except Err Bytes :=
  match parseMap b with
  | .error e => .error e
  | .ok (recs, _) =>
    let ver := globalVersion recs
    if !admitsVersion ver then .error .invalid
    else if !requiredOk ver recs then .error .invalid
    else reser specGlobal ver b

def runReserGlobal (b : Bytes) : String :=
  match reserGlobal b with
  | .error _ => "err refused"
  | .ok out => s!"ok {toHex out}"

/-- a typed object given as three record lists: whole-value fields (key = the type byte), key-data fields
    (key = type byte ‖ key data), unknown records -/
def typedOf (w k u : List Rec) : Typed where
  whole := w.map (fun r => (tyOf r.1, r.2))
  keyed := k.map (fun r => (tyOf r.1, keyData r.1, r.2))
  unknown := u

/-- `<map>.torecs <ver> <whole>,<keyed>,<unknown>` (each a serialized record list) -/
def runSerTyped (s : Spec) (ver : Nat) (w k u : Bytes) : String :=
  match parseMap w, parseMap k, parseMap u with
  | .ok (rw, []), .ok (rk, []), .ok (ru, []) =>
    match serTyped s ver (typedOf rw rk ru) with
    | .error _ => "err refused"
    | .ok out => s!"ok {toHex out}"
  | _, _, _ => "bad-op"

end Btc.Psbt
