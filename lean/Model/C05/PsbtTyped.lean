import Model.C05.PsbtMap
import Model.C05.Misc
/-
Typed layer of the PSBT maps (`psbt/psbt_in.py`, `psbt_out.py`, `psbt.py`: parse / serialize).

The typed object is modelled the way the code builds it: `fromRecs` is the dispatch loop of `parse`
(`fields[field] = value` for a whole-value field, `fields[field][k[1:]] = value` for a key-data field,
`unknown[k] = v` for the rest) and `toRecs` is the loop of `serialize` over the emission table
(`_SERIALIZED_FIELDS`): skip a field dropped once finalized, skip a falsy value, write one record for a
whole-value field and `sorted(dict.items())` for a dict.  `Proofs/C05/PsbtTyped.lean` proves that this
loop equals "sort by (field rank, key) what is left after an explicit drop predicate".

`PsbtIn.parse` reads the map (map layer), then sends every record through the deserializer of its
field type: whole-value fields (`_WHOLE_VALUE_FIELDS`, the key must be the type byte alone) and
key-data fields (`_KEY_DATA_FIELDS`), everything else going to `unknown`.  Every one of those
deserializers is *canonical*: what it accepts re-serializes to the very same value octets (that is T2
of the value codecs: Tx, TxOut, Witness, key origin, fixed-size integers; the rest are kept as bytes),
so the typed object is the record list with every value checked, and `PsbtIn.serialize` is:
the records in emission order (map layer `sortRecs inRank`), minus
  * a whole-value field whose value is falsy (`if not value`): empty octets, the empty witness --
    unless the field is in `_PRESENT_IF_NOT_NONE`;
  * once the input is finalized (a truthy final scriptSig or final witness): every field of
    `_DROPPED_ONCE_FINALIZED`.
The four tables and the emission order are regenerated from the source (`Generated/Wire.lean`).
Semantic checks (`Tx.assert_valid`, MoneyRange, duplicate key origins, curve points …) are not
modelled: the correspondence is one-sided there (what the model refuses, btclib refuses; what btclib
accepts, the model accepts with the same octets).  Core Lean only.
-/
namespace Btc.Psbt
open Btc Btc.Wire

def tyOf (k : Bytes) : Nat := match k with | [] => 256 | t :: _ => t.toNat
def keyData (k : Bytes) : Bytes := k.drop 1

def isOk {ε α : Type} : Except ε α → Bool
  | .ok _ => true
  | .error _ => false

/-- `BIP32KeyOrigin.parse(v)` with the default check_validity: at most 255 path elements -/
def keyOriginOk (v : Bytes) : Bool :=
  match keyOriginParseAll v with
  | .ok k => decide (k.2.length ≤ 255)
  | .error _ => false

/-- `assert_valid_hd_key_paths`: a derivation is keyed by a 33/65-byte public key or a 78-byte xpub -/
def hdKeyLenOk (kd : Bytes) : Bool := kd.length == 33 || kd.length == 65 || kd.length == 78

/-- `parse_taproot_bip32` -/
def tapBip32Ok (v : Bytes) : Bool :=
  match VarInt.parse v Gen.VarInt.MAX_SIZE with
  | .error _ => false
  | .ok (n, rest) => if n * 32 + 4 > rest.length then false else keyOriginOk (rest.drop (n * 32))

/-- the structural part of the deserializer of field type `ty` on value `v` -/
def valueOkIn (ty : Nat) (v : Bytes) : Bool :=
  if ty = Gen.Wire.PSBT_IN_NON_WITNESS_UTXO then isOk (tx.parseAll v)
  else if ty = Gen.Wire.PSBT_IN_WITNESS_UTXO then isOk (txOut.parseAll v)
  else if ty = Gen.Wire.PSBT_IN_FINAL_SCRIPTWITNESS then isOk (witness.parseAll v)
  else if Gen.Wire.PSBT_IN_UINT32.contains ty then v.length = 4
  else if Gen.Wire.PSBT_IN_TXID.contains ty then v.length = 32
  else if Gen.Wire.PSBT_IN_KEYORIGIN.contains ty then keyOriginOk v
  else if Gen.Wire.PSBT_IN_LEAF.contains ty then !v.isEmpty                       -- script ‖ leaf version
  else if Gen.Wire.PSBT_IN_TAPBIP32.contains ty then tapBip32Ok v
  else if Gen.Wire.PSBT_IN_MUSIG.contains ty then !v.isEmpty && v.length % 33 == 0
  else true


/-- `assert_valid_psbt_version`: the versions `parse` and `serialize` take -/
def admitsVersion (ver : Nat) : Bool := ver == 0 || ver == 2

/-- the tables one map kind is parsed and serialized by -/
structure Spec where
  order : List Nat              -- emission order of the field types; 256 = the `unknown` records
  whole : List Nat              -- whole-value fields (key = the type byte alone)
  keyed : List Nat              -- key-data fields
  v2 : List Nat                 -- refused when parsing at version 0
  v2only : List Nat             -- not written when serializing at version 0 (`_V2_ONLY`)
  v0only : List Nat             -- refused when parsing, and not written, at version 2
  presentIfNotNone : List Nat   -- written whenever present, whatever the value
  objects : List Nat            -- decode to objects that are never falsy (transactions, outputs)
  emptyIs : List (Nat × Bytes)  -- fields whose falsy value is not the empty octet string
  finals : List Nat             -- a truthy value here makes the map "finalized"
  droppedOnceFinal : List Nat
  valueOk : Nat → Bytes → Bool
  keyOk : Nat → Bytes → Bool    -- check on the key data of a key-data field

namespace Spec
variable (s : Spec)

def known (ty : Nat) : Bool := s.whole.contains ty || s.keyed.contains ty
/-- class of a key: its type byte when the parser knows it, 256 (`unknown`) otherwise -/
def cls (k : Bytes) : Nat := if s.known (tyOf k) then tyOf k else 256
/-- position in the emission order -/
def rank (k : Bytes) : Nat := s.order.idxOf (s.cls k)

/-- fields the loop of `serialize` passes over at this version -/
def gated (ver : Nat) (ty : Nat) : Bool :=
  (ver == 0 && s.v2only.contains ty) || (ver != 0 && s.v0only.contains ty)

/-- one record through the dispatch of `parse` -/
def recordOk (ver : Nat) (r : Rec) : Bool :=
  let ty := tyOf r.1
  if ver = 0 && s.v2.contains ty then false
  else if ver != 0 && s.v0only.contains ty then false
  else if s.whole.contains ty then (keyData r.1).isEmpty && s.valueOk ty r.2
  else if s.keyed.contains ty then s.keyOk ty (keyData r.1) && s.valueOk ty r.2
  else true

/-- `not value` for the value a whole-value field decodes to -/
def falsy (ty : Nat) (v : Bytes) : Bool :=
  if s.presentIfNotNone.contains ty || s.objects.contains ty then false
  else match s.emptyIs.lookup ty with
    | some e => v == e
    | none => v.isEmpty

def finalRec (r : Rec) : Bool :=
  s.finals.contains (tyOf r.1) && s.whole.contains (tyOf r.1) && !s.falsy (tyOf r.1) r.2
def finalized (recs : List Rec) : Bool := recs.any s.finalRec

/-- the record is one `serialize` does not write back -/
def dropped (fin : Bool) (r : Rec) : Bool :=
  (s.whole.contains (tyOf r.1) && s.falsy (tyOf r.1) r.2)
    || (fin && s.known (tyOf r.1) && s.droppedOnceFinal.contains (tyOf r.1))

def kept (recs : List Rec) : List Rec := recs.filter (fun r => !s.dropped (s.finalized recs) r)

end Spec

/-- the typed object: the fields `parse` fills -/
structure Typed where
  whole : List (Nat × Bytes)            -- field type ↦ value
  keyed : List (Nat × Bytes × Bytes)    -- field type ↦ {key data ↦ value}
  unknown : List Rec
  deriving Repr

/-- the dispatch loop of `parse` -/
def fromRecs (s : Spec) (recs : List Rec) : Typed where
  whole := (recs.filter (fun r => s.whole.contains (tyOf r.1))).map (fun r => (tyOf r.1, r.2))
  keyed := (recs.filter (fun r => !s.whole.contains (tyOf r.1) && s.keyed.contains (tyOf r.1))).map
    (fun r => (tyOf r.1, keyData r.1, r.2))
  unknown := recs.filter (fun r => !s.known (tyOf r.1))

/-- `bool(self.final_script_sig or self.final_script_witness)` -/
def Typed.finalized (s : Spec) (t : Typed) : Bool :=
  t.whole.any (fun e => s.finals.contains e.1 && !s.falsy e.1 e.2)

/-- `sorted(d.items())` -/
def sortKeys (l : List Rec) : List Rec := l.mergeSort (fun a b => bytesLe a.1 b.1)

/-- one turn of the loop of `serialize` -/
def emit (s : Spec) (ver : Nat) (t : Typed) (fin : Bool) (ty : Nat) : List Rec :=
  if ty = 256 then sortKeys t.unknown
  else if s.gated ver ty then []
  else if fin && s.droppedOnceFinal.contains ty then []
  else if s.whole.contains ty then
    (t.whole.filter (fun e => e.1 == ty && !s.falsy ty e.2)).map (fun e => ([UInt8.ofNat ty], e.2))
  else sortKeys ((t.keyed.filter (fun e => e.1 == ty)).map (fun e => (UInt8.ofNat ty :: e.2.1, e.2.2)))

/-- `serialize` -/
def toRecs (s : Spec) (ver : Nat) (t : Typed) : List Rec := s.order.flatMap (emit s ver t (t.finalized s))

/-- `X.parse(b, psbt_version=ver).serialize(psbt_version=ver)` on the octets of one map -/
def reser (s : Spec) (ver : Nat) (b : Bytes) : Except Err Bytes :=
  match parseMap b with
  | .error e => .error e
  | .ok (recs, rest) =>
    if !admitsVersion ver then .error .invalid
    else if !rest.isEmpty then .error .trailing
    else if recs.all (s.recordOk ver) then .ok (serMap (toRecs s ver (fromRecs s recs)))
    else .error .invalid

def runReser (s : Spec) (ver : Nat) (b : Bytes) : String :=
  match reser s ver b with
  | .error _ => "err refused"
  | .ok out => s!"ok {toHex out}"

-- ------------------------------------------------------------------ input maps (tables generated)
def specIn : Spec where
  order := Gen.Wire.PSBT_IN_ORDER
  whole := Gen.Wire.PSBT_IN_WHOLE
  keyed := Gen.Wire.PSBT_IN_KEYED
  v2 := Gen.Wire.PSBT_IN_V2
  v2only := Gen.Wire.PSBT_IN_V2_ONLY
  v0only := []
  presentIfNotNone := Gen.Wire.PSBT_IN_PRESENT_IF_NOT_NONE
  objects := [Gen.Wire.PSBT_IN_NON_WITNESS_UTXO, Gen.Wire.PSBT_IN_WITNESS_UTXO]
  emptyIs := [(Gen.Wire.PSBT_IN_FINAL_SCRIPTWITNESS, [0])]     -- the empty witness stack
  finals := Gen.Wire.PSBT_IN_FINALS
  droppedOnceFinal := Gen.Wire.PSBT_IN_DROPPED_ONCE_FINALIZED
  valueOk := valueOkIn
  keyOk := fun ty kd => !Gen.Wire.PSBT_IN_KEYORIGIN.contains ty || hdKeyLenOk kd

-- ------------------------------------------------------------------ output maps (psbt/psbt_out.py)
/- `PsbtOut.parse / serialize` are written out field by field; their tables are read off the syntax
   tree of those functions by `tools/specs/wire.py` (`Gen.Wire.PSBT_OUT_*`). -/

/-- `parse_taproot_tree`: (depth, leaf version, var_bytes script)* up to the end of the value -/
def tapTreeOk : Nat → Bytes → Bool
  | _, [] => true
  | 0, _ :: _ => false
  | _ + 1, [_] => false
  | fuel + 1, _ :: _ :: rest =>
    match varBytes.parse rest with
    | .error _ => false
    | .ok (_, r) => tapTreeOk fuel r

def valueOkOut (ty : Nat) (v : Bytes) : Bool :=
  if ty = 3 then v.length = 8
  else if ty = 10 then v.length = 4
  else if ty = 6 then tapTreeOk v.length v
  else if ty = 2 then keyOriginOk v
  else if ty = 7 then tapBip32Ok v
  else if ty = 8 then !v.isEmpty && v.length % 33 == 0
  else true

def specOut : Spec where
  order := Gen.Wire.PSBT_OUT_ORDER
  whole := Gen.Wire.PSBT_OUT_WHOLE
  keyed := Gen.Wire.PSBT_OUT_KEYED
  v2 := Gen.Wire.PSBT_OUT_V2
  v2only := Gen.Wire.PSBT_OUT_V2
  v0only := []
  presentIfNotNone := Gen.Wire.PSBT_OUT_PRESENT_IF_NOT_NONE
  objects := []
  emptyIs := []
  finals := []
  droppedOnceFinal := []
  valueOk := valueOkOut
  keyOk := fun ty kd => ty != 2 || hdKeyLenOk kd

-- ------------------------------------------------------------------ global map (psbt/psbt.py)
/-- `deserialize_count`: one canonical CompactSize and nothing else -/
def countOk (v : Bytes) : Bool :=
  match VarInt.parse v Gen.VarInt.MAX_SIZE with
  | .ok (_, []) => true
  | _ => false

/-- the unsigned transaction of a version 0 psbt: `deserialize_tx(…, include_witness=False)` -/
def unsignedTxOk (v : Bytes) : Bool :=
  match tx.parseAll v with
  | .ok t => !t.isSegwit && t.vin.all (fun i => i.scriptSig.isEmpty)   -- "non empty script_sig or witness"
  | .error _ => false

def valueOkGlobal (ty : Nat) (v : Bytes) : Bool :=
  if ty = Gen.Wire.PSBT_GLOBAL_UNSIGNED_TX then unsignedTxOk v
  else if Gen.Wire.PSBT_GLOBAL_UINT32.contains ty then v.length = 4
  else if Gen.Wire.PSBT_GLOBAL_COUNTS.contains ty then countOk v
  else if ty = Gen.Wire.PSBT_GLOBAL_TX_MODIFIABLE then v.length = 1
  else if ty = Gen.Wire.PSBT_GLOBAL_XPUB then keyOriginOk v
  else true

def specGlobal : Spec where
  order := Gen.Wire.PSBT_GLOBAL_ORDER
  whole := Gen.Wire.PSBT_GLOBAL_WHOLE
  keyed := Gen.Wire.PSBT_GLOBAL_KEYED
  v2 := Gen.Wire.PSBT_GLOBAL_V2
  v2only := Gen.Wire.PSBT_GLOBAL_V2
  v0only := [Gen.Wire.PSBT_GLOBAL_UNSIGNED_TX]
  presentIfNotNone := Gen.Wire.PSBT_GLOBAL_PRESENT_IF_NOT_NONE
  objects := [Gen.Wire.PSBT_GLOBAL_UNSIGNED_TX]
  emptyIs := [(Gen.Wire.PSBT_GLOBAL_VERSION, [0, 0, 0, 0])]   -- `if self.version:` — version 0 is not written
  finals := []
  droppedOnceFinal := []
  valueOk := valueOkGlobal
  keyOk := fun ty kd => ty != Gen.Wire.PSBT_GLOBAL_XPUB || hdKeyLenOk kd

/-- `_global_version`: the value of the version record, 0 when there is none -/
def globalVersion (recs : List Rec) : Nat :=
  match recs.find? (fun r => tyOf r.1 == Gen.Wire.PSBT_GLOBAL_VERSION) with
  | some r => ofLE r.2
  | none => 0

def hasType (recs : List Rec) (ty : Nat) : Bool := recs.any (fun r => tyOf r.1 == ty)

/-- `_settle_globals`: what each version requires -/
def requiredOk (ver : Nat) (recs : List Rec) : Bool :=
  if ver = 0 then hasType recs Gen.Wire.PSBT_GLOBAL_UNSIGNED_TX
  else Gen.Wire.PSBT_GLOBAL_REQUIRED_V2.all (hasType recs)

/-- the global map through `Psbt.parse` / `Psbt.serialize` -/
def reserGlobal (b : Bytes) : Except Err Bytes :=
  match parseMap b with
  | .error e => .error e
  | .ok (recs, _) =>
    let ver := globalVersion recs
    if ver != 0 && ver != 2 then .error .invalid
    else if !requiredOk ver recs then .error .invalid
    else reser specGlobal ver b

def runReserGlobal (b : Bytes) : String :=
  match reserGlobal b with
  | .error _ => "err refused"
  | .ok out => s!"ok {toHex out}"

end Btc.Psbt
