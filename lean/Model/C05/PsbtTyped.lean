import Model.C05.PsbtMap
import Model.C05.Misc
/-
Typed layer of a PSBT input map (`psbt/psbt_in.py: PsbtIn.parse / serialize`), at record granularity.

`PsbtIn.parse` reads the map (map layer), then sends every record through the deserializer of its
field type: whole-value fields (`_WHOLE_VALUE_FIELDS`, the key must be the type byte alone) and
key-data fields (`_KEY_DATA_FIELDS`), everything else going to `unknown`.  Every one of those
deserializers is *canonical*: what it accepts re-serializes to the very same value octets (that is T2
of the value codecs: Tx, TxOut, Witness, key origin, fixed-size integers; the rest are kept as bytes),
so the typed object is the record list with every value checked, and `PsbtIn.serialize` is:
the records in emission order (map layer `sortRecs inRank`), minus
  * a whole-value field whose value is falsy (`if not value`): empty octets, the empty witness --
    unless the field is in `_PRESENT_IF_NOT_NONE`;
  * once the input is finalized (a truthy final scriptSig or final witness): every field of
    `_DROPPED_ONCE_FINALIZED`.
The four tables and the emission order are regenerated from the source (`Generated/Wire.lean`).
Semantic checks (`Tx.assert_valid`, MoneyRange, duplicate key origins, curve points …) are not
modelled: the correspondence is one-sided there (what the model refuses, btclib refuses; what btclib
accepts, the model accepts with the same octets).  Core Lean only.
-/
namespace Btc.Psbt
open Btc Btc.Wire

def tyOf (k : Bytes) : Nat := match k with | [] => 256 | t :: _ => t.toNat
def keyData (k : Bytes) : Bytes := k.drop 1

def isOk {ε α : Type} : Except ε α → Bool
  | .ok _ => true
  | .error _ => false

/-- `BIP32KeyOrigin.parse(v)` with the default check_validity: at most 255 path elements -/
def keyOriginOk (v : Bytes) : Bool :=
  match keyOriginParseAll v with
  | .ok k => decide (k.2.length ≤ 255)
  | .error _ => false

/-- `parse_taproot_bip32` -/
def tapBip32Ok (v : Bytes) : Bool :=
  match VarInt.parse v Gen.VarInt.MAX_SIZE with
  | .error _ => false
  | .ok (n, rest) => if n * 32 + 4 > rest.length then false else keyOriginOk (rest.drop (n * 32))

/-- the structural part of the deserializer of field type `ty` on value `v` -/
def valueOkIn (ty : Nat) (v : Bytes) : Bool :=
  if ty = Gen.Wire.PSBT_IN_NON_WITNESS_UTXO then isOk (tx.parseAll v)
  else if ty = Gen.Wire.PSBT_IN_WITNESS_UTXO then isOk (txOut.parseAll v)
  else if ty = Gen.Wire.PSBT_IN_FINAL_SCRIPTWITNESS then isOk (witness.parseAll v)
  else if Gen.Wire.PSBT_IN_UINT32.contains ty then v.length = 4
  else if Gen.Wire.PSBT_IN_TXID.contains ty then v.length = 32
  else if Gen.Wire.PSBT_IN_KEYORIGIN.contains ty then keyOriginOk v
  else if Gen.Wire.PSBT_IN_LEAF.contains ty then !v.isEmpty                       -- script ‖ leaf version
  else if Gen.Wire.PSBT_IN_TAPBIP32.contains ty then tapBip32Ok v
  else if Gen.Wire.PSBT_IN_MUSIG.contains ty then !v.isEmpty && v.length % 33 == 0
  else true

/-- one record through `PsbtIn.parse`'s dispatch -/
def recordOkIn (ver : Nat) (r : Rec) : Bool :=
  let ty := tyOf r.1
  if ver = 0 && Gen.Wire.PSBT_IN_V2.contains ty then false
  else if Gen.Wire.PSBT_IN_WHOLE.contains ty then (keyData r.1).isEmpty && valueOkIn ty r.2
  else if Gen.Wire.PSBT_IN_KEYED.contains ty then valueOkIn ty r.2
  else true

/-- `not value` for the value a whole-value field decodes to -/
def falsyIn (ty : Nat) (v : Bytes) : Bool :=
  if Gen.Wire.PSBT_IN_PRESENT_IF_NOT_NONE.contains ty then false
  else if ty = Gen.Wire.PSBT_IN_NON_WITNESS_UTXO ∨ ty = Gen.Wire.PSBT_IN_WITNESS_UTXO then false
  else if ty = Gen.Wire.PSBT_IN_FINAL_SCRIPTWITNESS then v == [0]
  else v.isEmpty

def isWholeRec (r : Rec) : Bool := Gen.Wire.PSBT_IN_WHOLE.contains (tyOf r.1) && (keyData r.1).isEmpty

/-- a truthy final scriptSig or final witness -/
def finalRec (r : Rec) : Bool :=
  isWholeRec r && (tyOf r.1 == Gen.Wire.PSBT_IN_FINAL_SCRIPTSIG || tyOf r.1 == Gen.Wire.PSBT_IN_FINAL_SCRIPTWITNESS)
    && !falsyIn (tyOf r.1) r.2
def finalized (recs : List Rec) : Bool := recs.any finalRec

def knownTy (k : Bytes) : Bool :=
  Gen.Wire.PSBT_IN_WHOLE.contains (tyOf k) || Gen.Wire.PSBT_IN_KEYED.contains (tyOf k)

/-- the record is one `PsbtIn.serialize` does not write back -/
def droppedIn (fin : Bool) (r : Rec) : Bool :=
  (isWholeRec r && falsyIn (tyOf r.1) r.2)
    || (fin && knownTy r.1 && Gen.Wire.PSBT_IN_DROPPED_ONCE_FINALIZED.contains (tyOf r.1))

def keptIn (recs : List Rec) : List Rec := recs.filter (fun r => !droppedIn (finalized recs) r)

/-- `PsbtIn.parse(b, psbt_version=ver).serialize(psbt_version=ver)` on octets -/
def reserIn (ver : Nat) (b : Bytes) : Except Err Bytes :=
  match parseMap b with
  | .error e => .error e
  | .ok (recs, rest) =>
    if !rest.isEmpty then .error .trailing
    else if recs.all (recordOkIn ver) then .ok (serMap (sortRecs inRank (keptIn recs)))
    else .error .invalid

def runReserIn (ver : Nat) (b : Bytes) : String :=
  match reserIn ver b with
  | .error _ => "err refused"
  | .ok out => s!"ok {toHex out}"

-- ------------------------------------------------------------------ output maps (psbt/psbt_out.py)
/- `PsbtOut.parse / serialize` are written out field by field (no tables to regenerate); the lists
   below are read off that code and tied by the `psbtout.reser*` stream. -/
def OUT_ORDER : List Nat := [0, 1, 2, 3, 4, 5, 6, 7, 8, 9, 10, 256]
def OUT_WHOLE : List Nat := [0, 1, 3, 4, 5, 6, 9, 10]
def OUT_KEYED : List Nat := [2, 7, 8]
def OUT_V2 : List Nat := [3, 4, 9, 10]
/-- `amount`, `sp_v0_label`: written whenever not None -/
def OUT_PRESENT_IF_NOT_NONE : List Nat := [3, 10]

/-- `parse_taproot_tree`: (depth, leaf version, var_bytes script)* up to the end of the value -/
def tapTreeOk : Nat → Bytes → Bool
  | _, [] => true
  | 0, _ :: _ => false
  | _ + 1, [_] => false
  | fuel + 1, _ :: _ :: rest =>
    match varBytes.parse rest with
    | .error _ => false
    | .ok (_, r) => tapTreeOk fuel r

def valueOkOut (ty : Nat) (v : Bytes) : Bool :=
  if ty = 3 then v.length = 8
  else if ty = 10 then v.length = 4
  else if ty = 6 then tapTreeOk v.length v
  else if ty = 2 then keyOriginOk v
  else if ty = 7 then tapBip32Ok v
  else if ty = 8 then !v.isEmpty && v.length % 33 == 0
  else true

def recordOkOut (ver : Nat) (r : Rec) : Bool :=
  let ty := tyOf r.1
  if ver = 0 && OUT_V2.contains ty then false
  else if OUT_WHOLE.contains ty then (keyData r.1).isEmpty && valueOkOut ty r.2
  else if OUT_KEYED.contains ty then valueOkOut ty r.2
  else true

def outRank (k : Bytes) : Nat := rankOf OUT_ORDER (OUT_ORDER.filter (· < 256)) k

/-- a whole-value output field whose value is empty (and is not amount / label) is not written back -/
def droppedOut (r : Rec) : Bool :=
  OUT_WHOLE.contains (tyOf r.1) && (keyData r.1).isEmpty
    && !OUT_PRESENT_IF_NOT_NONE.contains (tyOf r.1) && r.2.isEmpty

def keptOut (recs : List Rec) : List Rec := recs.filter (fun r => !droppedOut r)

/-- `PsbtOut.parse(b, psbt_version=ver).serialize(psbt_version=ver)` on octets -/
def reserOut (ver : Nat) (b : Bytes) : Except Err Bytes :=
  match parseMap b with
  | .error e => .error e
  | .ok (recs, rest) =>
    if !rest.isEmpty then .error .trailing
    else if recs.all (recordOkOut ver) then .ok (serMap (sortRecs outRank (keptOut recs)))
    else .error .invalid

def runReserOut (ver : Nat) (b : Bytes) : String :=
  match reserOut ver b with
  | .error _ => "err refused"
  | .ok out => s!"ok {toHex out}"

end Btc.Psbt
