import Model.C05.Codec
import Generated.Wire
/-
PSBT map layer (`psbt/psbt_utils.py: deserialize_map`, and the sorted emission every
`serialize_*` helper uses): a map is `⟨keylen, key, vallen, value⟩*` closed by one `00` byte;
a duplicated key is refused; the serializers emit the records grouped by field type in a fixed
order (`_SERIALIZED_FIELDS`, unknown records at their own place in it) and, inside a group,
`sorted(dict.items())`, i.e. by the key's octets.
Core Lean only.
-/
namespace Btc.Psbt
open Btc Btc.Wire

abbrev Rec := Bytes × Bytes

/-- `read_exactly(stream, var_int.parse(stream), what)`: here a short read is a ValueError. -/
def lenBytes : Codec Bytes :=
  prefixed (varInt Gen.VarInt.MAX_SIZE) (fun n => bytesN n .short) List.length

def record : Codec Rec := pair lenBytes lenBytes

/-- the loop of `deserialize_map`; `seen` are the keys read so far. The fuel is the number of bytes
    available (every turn consumes at least one). -/
def parseRecs : Nat → Bytes → List Bytes → Res (List Rec)
  | 0, _, _ => .error .unterminated
  | _ + 1, [], _ => .error .unterminated
  | fuel + 1, x :: xs, seen =>
    if x = 0 then .ok ([], xs)
    else match record.parse (x :: xs) with
      | .error e => .error e
      | .ok ((k, v), r) =>
        if seen.contains k then .error .dupKey
        else match parseRecs fuel r (k :: seen) with
          | .error e => .error e
          | .ok (recs, r') => .ok ((k, v) :: recs, r')

/-- `deserialize_map` -/
def parseMap (b : Bytes) : Res (List Rec) :=
  if b.isEmpty then .error .noMap else parseRecs (b.length + 1) b []

def serMap (recs : List Rec) : Bytes := serList record recs ++ [0]

/-- Python's order on `bytes` -/
def bytesLe : Bytes → Bytes → Bool
  | [], _ => true
  | _ :: _, [] => false
  | x :: xs, y :: ys => x.toNat < y.toNat || (x == y && bytesLe xs ys)

/-- position of a record's field type in the emission order; `256` stands for "unknown" -/
def rankOf (order : List Nat) (known : List Nat) (k : Bytes) : Nat :=
  let ty := match k with | [] => 256 | t :: _ => if known.contains t.toNat then t.toNat else 256
  order.idxOf ty

/-- emission order of records: by field type rank, then by key octets -/
def recLe (rank : Bytes → Nat) (a b : Rec) : Bool :=
  rank a.1 < rank b.1 || (rank a.1 == rank b.1 && bytesLe a.1 b.1)

def sortRecs (rank : Bytes → Nat) (recs : List Rec) : List Rec := recs.mergeSort (recLe rank)

/-- parse, then emit sorted: what `X.parse(b).serialize()` does to one map when every record is kept -/
def norm (rank : Bytes → Nat) (b : Bytes) : Res Bytes :=
  match parseMap b with
  | .error e => .error e
  | .ok (recs, rest) => .ok (serMap (sortRecs rank recs), rest)

/-- `PsbtIn.serialize` order (generated) -/
def inRank (k : Bytes) : Nat :=
  rankOf Gen.Wire.PSBT_IN_ORDER (Gen.Wire.PSBT_IN_ORDER.filter (· < 256)) k

def ValidRecs (recs : List Rec) : Prop :=
  (∀ r ∈ recs, r.1 ≠ [] ∧ record.valid r) ∧ (recs.map (·.1)).Nodup

def rRec (r : Rec) : String := s!"{toHex r.1}={toHex r.2}"

def runMap (mode : String) (b : Bytes) : String :=
  match parseMap b with
  | .error e => s!"err {e.name}"
  | .ok (recs, rest) =>
    if mode == "o" && !rest.isEmpty then "err trailing"
    else s!"ok [{";".intercalate (recs.map rRec)}] rest={toHex rest} ser={toHex (serMap recs)}"

def runNorm (mode : String) (b : Bytes) : String :=
  match norm inRank b with
  | .error e => s!"err {e.name}"
  | .ok (out, rest) =>
    if mode == "o" && !rest.isEmpty then "err trailing" else s!"ok {toHex out} rest={toHex rest}"

end Btc.Psbt
