import Model.Common.Bytes
import Model.C05.VarInt
/-
Generic wire codecs (DESIGN §3 C05).  A `Codec α` is the pair of functions every btclib wire
class has -- `serialize` and `parse` -- where `parse` returns the value *and the unconsumed rest*
(a `BytesIO` left "on the byte after the object"), plus `valid` (what `assert_valid` asks of the
fields that decide the width of the encoding) and `size` (`_serialized_size`).

Combinators mirror the code's building blocks:
  `bytesN`    `read_exactly(stream, n, …)`
  `uintLE/BE` `int.from_bytes(read_exactly(…), "little"/"big", signed=False)` / `to_bytes`
  `intLE`     the same with `signed=True`
  `varInt`    `var_int.parse / serialize / _size`
  `varBytes`  `var_bytes.parse / serialize / _size`
  `pair`      two fields one after the other
  `listN`     `[X.parse(stream) for _ in range(n)]` / `b"".join(x.serialize() …)`
  `listOf`    a CompactSize count, then that many items
  `prefixed`  a count/length, then a body that depends on it
  `map`       packing the fields into the dataclass and back
Core Lean only.
-/
namespace Btc.Wire

open Btc

/-- Refusals of the wire parsers, by the check that raises them. -/
inductive Err
  | short          -- read_exactly / var_int: "not enough data" (BTClibValueError)
  | noncanonical   -- var_int: non-minimal encoding
  | toobig         -- var_int: above the cap of the call site
  | shortBytes     -- var_bytes: "not enough binary data" (BTClibRuntimeError)
  | superfluous    -- Tx: segwit marker with no witness
  | trailing       -- assert_no_trailing
  | badLength      -- fixed-size object: "invalid decoded length"
  | noMap | unterminated | dupKey   -- psbt map layer
  | badMagic | badCommand | badChecksum  -- p2p envelope
  | incomplete     -- p2p envelope: IncompleteMessageError (BTClibRuntimeError)
  | badCount       -- a count above the cap of the payload class / a non-zero headers tx count
  | badFlag        -- version relay flag above 1
  | invalid        -- a semantic check of the class
  deriving DecidableEq, Repr

def Err.name : Err → String
  | .short => "short" | .noncanonical => "noncanonical" | .toobig => "toobig"
  | .shortBytes => "shortbytes" | .superfluous => "superfluous" | .trailing => "trailing"
  | .badLength => "badlength" | .noMap => "nomap" | .unterminated => "unterminated"
  | .dupKey => "dupkey" | .badMagic => "badmagic" | .badCommand => "badcommand"
  | .badChecksum => "badchecksum" | .invalid => "invalid" | .incomplete => "incomplete"
  | .badCount => "badcount" | .badFlag => "badflag"

def Err.ofVarInt : VarInt.Err → Err
  | .short => .short | .noncanonical => .noncanonical | .toobig => .toobig

abbrev Res (α : Type) := Except Err (α × Bytes)

structure Codec (α : Type) where
  ser : α → Bytes
  parse : Bytes → Res α
  valid : α → Prop
  size : α → Nat

/-- Octets (not a caller's stream) are one whole object: `assert_no_trailing`. -/
def Codec.parseAll (c : Codec α) (b : Bytes) : Except Err α :=
  match c.parse b with
  | .error e => .error e
  | .ok (t, []) => .ok t
  | .ok (_, _ :: _) => .error .trailing

/-- `read_exactly(stream, n, what)`; `e` is the refusal of a short read (`len(data) != size`, asked of
    the octets read and not of the whole stream, which keeps a long list of items linear). -/
def bytesN (n : Nat) (e : Err := .short) : Codec Bytes where
  ser b := b
  parse b := if (b.take n).length < n then .error e else .ok (b.take n, b.drop n)
  valid b := b.length = n
  size _ := n

/-- repack the parsed value (`f`) / unpack the object (`g`). -/
def Codec.map (c : Codec α) (f : α → β) (g : β → α) : Codec β where
  ser b := c.ser (g b)
  parse bs := match c.parse bs with
    | .error e => .error e
    | .ok (a, r) => .ok (f a, r)
  valid b := c.valid (g b) ∧ f (g b) = b
  size b := c.size (g b)

def uintLE (n : Nat) : Codec Nat := (bytesN n).map ofLE (leBytes n)
def uintBE (n : Nat) : Codec Nat := (bytesN n).map ofBE (beBytes n)

/-- two's complement reading of an unsigned `u < 256^n`. -/
def toSigned (n : Nat) (u : Nat) : Int :=
  if 2 * u < 256 ^ n then (u : Int) else (u : Int) - (256 ^ n : Nat)
def ofSigned (n : Nat) (i : Int) : Nat := (i % ((256 ^ n : Nat) : Int)).toNat

/-- `int.from_bytes(…, "little", signed=True)` / `to_bytes(n, "little", signed=True)`. -/
def intLE (n : Nat) : Codec Int := (uintLE n).map (toSigned n) (ofSigned n)

/-- a hash shown reversed (`tx_id[::-1]`), `n` bytes. -/
def revBytesN (n : Nat) : Codec Bytes := (bytesN n).map List.reverse List.reverse

def pair (a : Codec α) (b : Codec β) : Codec (α × β) where
  ser p := a.ser p.1 ++ b.ser p.2
  parse bs := match a.parse bs with
    | .error e => .error e
    | .ok (x, r) => match b.parse r with
      | .error e => .error e
      | .ok (y, r') => .ok ((x, y), r')
  valid p := a.valid p.1 ∧ b.valid p.2
  size p := a.size p.1 + b.size p.2

def serList (c : Codec α) (l : List α) : Bytes := l.flatMap c.ser

def parseN (c : Codec α) : Nat → Bytes → Res (List α)
  | 0, bs => .ok ([], bs)
  | n + 1, bs => match c.parse bs with
    | .error e => .error e
    | .ok (x, r) => match parseN c n r with
      | .error e => .error e
      | .ok (xs, r') => .ok (x :: xs, r')

def sizeList (c : Codec α) (l : List α) : Nat := (l.map c.size).sum

/-- exactly `n` items, one after the other. -/
def listN (c : Codec α) (n : Nat) : Codec (List α) where
  ser := serList c
  parse := parseN c n
  valid l := l.length = n ∧ ∀ x ∈ l, c.valid x
  size := sizeList c

/-- a count/length field, then a body whose shape depends on it. -/
def prefixed (cnt : Codec Nat) (body : Nat → Codec α) (len : α → Nat) : Codec α where
  ser x := cnt.ser (len x) ++ (body (len x)).ser x
  parse bs := match cnt.parse bs with
    | .error e => .error e
    | .ok (n, r) => (body n).parse r
  valid x := cnt.valid (len x) ∧ (body (len x)).valid x
  size x := cnt.size (len x) + (body (len x)).size x

/-- a head field (of any type), then a body whose shape depends on it. -/
def prefixedBy (hd : Codec κ) (body : κ → Codec α) (key : α → κ) : Codec α where
  ser x := hd.ser (key x) ++ (body (key x)).ser x
  parse bs := match hd.parse bs with
    | .error e => .error e
    | .ok (k, r) => (body k).parse r
  valid x := hd.valid (key x) ∧ (body (key x)).valid x
  size x := hd.size (key x) + (body (key x)).size x

/-- a check on the parsed value (`if count > MAX: raise`), refused with `e`. -/
def Codec.refine (c : Codec α) (p : α → Bool) (e : Err) : Codec α where
  ser := c.ser
  parse bs := match c.parse bs with
    | .error e' => .error e'
    | .ok (a, r) => if p a then .ok (a, r) else .error e
  valid a := c.valid a ∧ p a = true
  size := c.size

/-- no field at all (`verack`, `getaddr`, …). -/
def empty : Codec Unit where
  ser _ := []
  parse bs := .ok ((), bs)
  valid _ := True
  size _ := 0

end Btc.Wire

namespace Btc.VarInt
open Btc

/-- `var_int.serialize` on naturals, total (the translated `Gen.VarInt.serialize` answers exactly
    this below 2^64: `Proofs/C05/Codec.lean: serialize_eq_ser`). -/
def ser (n : Nat) : Bytes :=
  if n < 253 then [UInt8.ofNat n]
  else if n ≤ 65535 then 253 :: leBytes 2 n
  else if n ≤ 4294967295 then 254 :: leBytes 4 n
  else 255 :: leBytes 8 n

end Btc.VarInt

namespace Btc.Wire
open Btc

/-- CompactSize with the cap `m` of the call site. -/
def varInt (m : Nat) : Codec Nat where
  ser := VarInt.ser
  parse b := match VarInt.parse b m with
    | .error e => .error (Err.ofVarInt e)
    | .ok r => .ok r
  valid n := n ≤ m ∧ n < 2 ^ 64
  size n := (Gen.VarInt.size (n : Int)).toNat

/-- `var_bytes`: CompactSize length (cap `var_int.MAX_SIZE`), then the octets; a short read of the
    octets is the one BTClibRuntimeError of the wire layer. -/
def varBytes : Codec Bytes :=
  prefixed (varInt Gen.VarInt.MAX_SIZE) (fun n => bytesN n .shortBytes) List.length

/-- CompactSize count (cap `m`), then that many items. -/
def listOf (m : Nat) (c : Codec α) : Codec (List α) :=
  prefixed (varInt m) (listN c) List.length

end Btc.Wire
