import Model.C05.Tx
/-
p2p message envelope (`p2p/message.py`) and the payload classes that are compositions of the generic
codecs (`p2p/keepalive.py, negotiation.py, handshake.py, address.py, inventory.py`).
The checksum hash is a parameter (`hash256` in the code).  Core Lean only.
-/
namespace Btc.Wire
open Btc

-- ------------------------------------------------------------------ envelope
def printable (c : UInt8) : Bool :=
  decide (Gen.Wire.MSG_FIRST_PRINTABLE ≤ c.toNat) && decide (c.toNat ≤ Gen.Wire.MSG_LAST_PRINTABLE)

/-- `command.encode("ascii").ljust(12, b"\0")` -/
def padCommand (c : Bytes) : Bytes := c ++ List.replicate (Gen.Wire.MSG_COMMAND_SIZE - c.length) 0

/-- `_command_from_bytes` -/
def commandFromBytes (o : Bytes) : Except Err Bytes :=
  let cmd := o.takeWhile (· != 0)
  let pad := o.dropWhile (· != 0)
  if pad.any (· != 0) then .error .badCommand
  else if cmd.any (fun c => !printable c) then .error .badCommand
  else .ok cmd

/-- the 12-byte command field -/
def command12 : Codec Bytes where
  ser := padCommand
  parse b :=
    if b.length < Gen.Wire.MSG_COMMAND_SIZE then .error .incomplete
    else match commandFromBytes (b.take Gen.Wire.MSG_COMMAND_SIZE) with
      | .error e => .error e
      | .ok c => .ok (c, b.drop Gen.Wire.MSG_COMMAND_SIZE)
  valid c := c.length ≤ Gen.Wire.MSG_COMMAND_SIZE ∧ c.all printable = true
  size _ := Gen.Wire.MSG_COMMAND_SIZE

structure MsgHead where
  magic : Bytes
  command : Bytes
  length : Nat
  checksum : Bytes
  deriving DecidableEq, Repr

structure Msg where
  magic : Bytes
  command : Bytes
  payload : Bytes
  deriving DecidableEq, Repr

def MSG_HEADER_SIZE : Nat :=
  Gen.Wire.MSG_MAGIC_SIZE + Gen.Wire.MSG_COMMAND_SIZE + Gen.Wire.MSG_LENGTH_SIZE + Gen.Wire.MSG_CHECKSUM_SIZE

/-- the 24-byte header, read whole first ("incomplete message header") -/
def msgHead : Codec MsgHead :=
  ((pair (bytesN Gen.Wire.MSG_MAGIC_SIZE .incomplete) (pair command12
      (pair ((uintLE Gen.Wire.MSG_LENGTH_SIZE).refine (fun n => decide (n ≤ Gen.Wire.MAX_PROTOCOL_MESSAGE_LENGTH)) .toobig)
        (bytesN Gen.Wire.MSG_CHECKSUM_SIZE .incomplete)))).map
    (fun p => (⟨p.1, p.2.1, p.2.2.1, p.2.2.2⟩ : MsgHead))
    (fun h => (h.magic, h.command, h.length, h.checksum))).guardLen MSG_HEADER_SIZE .incomplete

def Msg.head (H : Bytes → Bytes) (m : Msg) : MsgHead :=
  ⟨m.magic, m.command, m.payload.length, (H m.payload).take Gen.Wire.MSG_CHECKSUM_SIZE⟩

/-- `Message.serialize / parse`: header, then `length` octets whose `hash256[:4]` is the checksum -/
def msg (H : Bytes → Bytes) : Codec Msg :=
  prefixedBy msgHead
    (fun h => ((bytesN h.length .incomplete).refine
        (fun p => h.checksum == (H p).take Gen.Wire.MSG_CHECKSUM_SIZE) .badChecksum).map
      (fun p => (⟨h.magic, h.command, p⟩ : Msg)) (fun m => m.payload))
    (Msg.head H)

-- ------------------------------------------------------------------ payloads
/-- `Ping`, `Pong` -/
def nonce8 : Codec Nat := uintLE 8
/-- `FeeFilter` -/
def feeFilter : Codec Int := intLE 8

structure NetAddr where
  services : Nat
  ip : Bytes
  port : Nat
  deriving DecidableEq, Repr

/-- `NetworkAddress` -/
def netAddr : Codec NetAddr :=
  (pair (uintLE 8) (pair (bytesN 16) (uintBE 2))).map (fun p => ⟨p.1, p.2.1, p.2.2⟩)
    (fun a => (a.services, a.ip, a.port))

/-- `TimestampedNetworkAddress` -/
def timedAddr : Codec (Nat × NetAddr) := pair (uintLE 4) netAddr

/-- a CompactSize read under the default cap, then checked against the cap of the payload class -/
def countUpTo (m : Nat) : Codec Nat :=
  (varInt Gen.VarInt.MAX_SIZE).refine (fun n => decide (n ≤ m)) .badCount

def listUpTo (m : Nat) (c : Codec α) : Codec (List α) := prefixed (countUpTo m) (listN c) List.length

/-- `Addr` -/
def addr : Codec (List (Nat × NetAddr)) := listUpTo Gen.Wire.MAX_ADDR_TO_SEND timedAddr

/-- `Inventory` -/
def inventory : Codec (Nat × Bytes) := pair (uintLE 4) (revBytesN 32)
/-- `Inv`, `GetData`, `NotFound` -/
def inv : Codec (List (Nat × Bytes)) := listUpTo Gen.Wire.MAX_INV_SZ inventory

/-- `GetBlocks`, `GetHeaders`: version, locator hashes, stop hash -/
def locator : Codec (Int × List Bytes × Bytes) :=
  pair (intLE 4) (pair (listUpTo Gen.Wire.MAX_LOCATOR_SZ (revBytesN 32)) (revBytesN 32))

/-- the transaction count after each header of `Headers`: must be zero -/
def zeroCount : Codec Unit :=
  ((varInt Gen.VarInt.MAX_SIZE).refine (fun n => n == 0) .badCount).map (fun _ => ()) (fun _ => 0)

/-- `Headers` -/
def headers : Codec (List (BlockHeader × Unit)) :=
  listUpTo Gen.Wire.MAX_HEADERS_RESULTS (pair blockHeader zeroCount)

/-- `SendCmpct`: announce octet (0/1), version -/
def sendCmpct : Codec (Nat × Nat) := pair ((uintLE 1).refine (fun a => decide (a ≤ 1)) .badFlag) (uintLE 8)
/-- `GetCFilters`, `GetCFHeaders`: filter type, start height, stop hash -/
def filterRange : Codec (Nat × Nat × Bytes) := pair (uintLE 1) (pair (uintLE 4) (revBytesN 32))
/-- `CFilter`: filter type, block hash, filter octets -/
def cfilter : Codec (Nat × Bytes × Bytes) := pair (uintLE 1) (pair (revBytesN 32) varBytes)
/-- `CFHeaders`: filter type, stop hash, previous filter header, filter hashes -/
def cfheaders : Codec (Nat × Bytes × Bytes × List Bytes) :=
  pair (uintLE 1) (pair (revBytesN 32) (pair (revBytesN 32) (listUpTo Gen.Wire.MAX_GETCFHEADERS_SIZE (revBytesN 32))))
/-- `GetCFCheckpt` -/
def getcfcheckpt : Codec (Nat × Bytes) := pair (uintLE 1) (revBytesN 32)
/-- `CFCheckpt`: filter type, stop hash, filter headers (count under the default cap only) -/
def cfcheckpt : Codec (Nat × Bytes × List Bytes) :=
  pair (uintLE 1) (pair (revBytesN 32) (listOf Gen.VarInt.MAX_SIZE (revBytesN 32)))

structure Version where
  version : Int
  services : Nat
  timestamp : Int
  addrRecv : NetAddr
  addrFrom : NetAddr
  nonce : Nat
  userAgent : Bytes
  startHeight : Int
  deriving DecidableEq, Repr

/-- the fixed part of `Version` (everything before the optional relay flag) -/
def versionBody : Codec Version :=
  (pair (intLE 4) (pair (uintLE 8) (pair (intLE 8) (pair netAddr (pair netAddr (pair (uintLE 8)
      (pair varBytes (intLE 4)))))))).map
    (fun p => ⟨p.1, p.2.1, p.2.2.1, p.2.2.2.1, p.2.2.2.2.1, p.2.2.2.2.2.1, p.2.2.2.2.2.2.1, p.2.2.2.2.2.2.2⟩)
    (fun v => (v.version, v.services, v.timestamp, v.addrRecv, v.addrFrom, v.nonce, v.userAgent, v.startHeight))

/-- the optional relay flag closes the payload: absent, `00` or `01`; octets only (no stream form) -/
def serRelay : Option Bool → Bytes
  | none => []
  | some false => [0]
  | some true => [1]

def parseRelay : Bytes → Except Err (Option Bool)
  | [] => .ok none
  | [x] => if x.toNat > 1 then .error .badFlag else .ok (some (x == 1))
  | x :: _ :: _ => if x.toNat > 1 then .error .badFlag else .error .trailing

/-- `Version.serialize` -/
def Version.serAll (v : Version × Option Bool) : Bytes := versionBody.ser v.1 ++ serRelay v.2
/-- `Version.parse` (octets) -/
def Version.parseAll (b : Bytes) : Except Err (Version × Option Bool) :=
  match versionBody.parse b with
  | .error e => .error e
  | .ok (v, r) => match parseRelay r with
    | .error e => .error e
    | .ok f => .ok (v, f)

end Btc.Wire
