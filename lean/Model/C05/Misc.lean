import Model.C05.Tx
/-
BIP32 extended key data (`bip32/bip32.py: BIP32KeyData.serialize / parse`): 78 bytes read whole,
then sliced: version(4) depth(1) parent_fingerprint(4) index(4, big-endian) chain_code(32) key(33).
Core Lean only.
-/
namespace Btc.Wire
open Btc

structure XKey where
  version : Bytes
  depth : Nat
  parentFp : Bytes
  index : Nat
  chainCode : Bytes
  key : Bytes
  deriving DecidableEq, Repr

def XKEY_LENGTH : Nat := 78

def xkeyFields : Codec (Bytes × Nat × Bytes × Nat × Bytes × Bytes) :=
  pair (bytesN 4) (pair (uintBE 1) (pair (bytesN 4) (pair (uintBE 4) (pair (bytesN 32) (bytesN 33)))))

def xkey : Codec XKey :=
  (xkeyFields.map
    (fun p => (⟨p.1, p.2.1, p.2.2.1, p.2.2.2.1, p.2.2.2.2.1, p.2.2.2.2.2⟩ : XKey))
    (fun k => (k.version, k.depth, k.parentFp, k.index, k.chainCode, k.key))).guardLen XKEY_LENGTH .badLength

/-- BIP340 signature (`ecc/ssa.py: Sig.serialize / parse`): 64 bytes read whole, r ‖ s big-endian -/
def ssaSig : Codec (Nat × Nat) := (pair (uintBE 32) (uintBE 32)).guardLen 64 .badLength

/-- compact recoverable signature (`ecc/bms.py: Sig.serialize / parse`): 65 bytes, rf ‖ r ‖ s -/
def bmsSig : Codec (Nat × Nat × Nat) :=
  (pair (uintBE 1) (pair (uintBE 32) (uintBE 32))).guardLen 65 .badLength

/-- key origin with exactly `n` path elements: fingerprint, then little-endian 4-byte indexes -/
def keyOriginN (n : Nat) : Codec (Bytes × List Nat) := pair (bytesN 4) (listN (uintLE 4) n)

/-- `BIP32KeyOrigin.parse` (octets only: the path is whatever follows the fingerprint, and must be a
    whole number of 4-byte indexes) / `serialize` -/
def keyOriginParseAll (b : Bytes) : Except Err (Bytes × List Nat) :=
  if b.length < 4 then .error .short
  else if (b.length - 4) % 4 ≠ 0 then .error .invalid
  else (keyOriginN ((b.length - 4) / 4)).parseAll b

def keyOriginSer (k : Bytes × List Nat) : Bytes := (keyOriginN k.2.length).ser k

def rXKey (k : XKey) : String :=
  s!"{toHex k.version}/{k.depth}/{toHex k.parentFp}/{k.index}/{toHex k.chainCode}/{toHex k.key}"

end Btc.Wire
