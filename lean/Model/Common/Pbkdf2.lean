import Model.Common.Hmac
/-
PBKDF2 (RFC 8018 §5.2) over any PRF `prf key msg` with output length `hLen`.
`pbkdf2HmacSha512` / `pbkdf2HmacSha256` are hashlib.pbkdf2_hmac('sha512'|'sha256', pw, salt, iters, dkLen).
(hashlib refuses iters = 0 and dkLen = 0; here iters = 0 gives all-zero blocks and dkLen = 0 gives [].)
-/
namespace Btc

def xorBytes : Bytes → Bytes → Bytes
  | a :: as, b :: bs => (a ^^^ b) :: xorBytes as bs
  | _, _ => []

/-- `U_{k+1} = prf pw U_k`, accumulating the xor: returns `acc ⊕ U_2 ⊕ … ` for `n` further steps -/
def pbkdf2Loop (prf : Bytes → Bytes) : Nat → Bytes → Bytes → Bytes
  | 0, _, acc => acc
  | n + 1, u, acc =>
    let u' := prf u
    pbkdf2Loop prf n u' (xorBytes acc u')

/-- block `T_i = U_1 ⊕ … ⊕ U_iters`, `U_1 = prf pw (salt ‖ INT_32_BE(i))` -/
def pbkdf2Block (prf : Bytes → Bytes → Bytes) (hLen : Nat) (pw salt : Bytes) (iters i : Nat) : Bytes :=
  match iters with
  | 0 => List.replicate hLen 0
  | n + 1 =>
    let u1 := prf pw (salt ++ beBytes 4 i)
    pbkdf2Loop (prf pw) n u1 u1

def pbkdf2 (prf : Bytes → Bytes → Bytes) (hLen : Nat) (pw salt : Bytes) (iters dkLen : Nat) : Bytes :=
  let nblocks := (dkLen + hLen - 1) / hLen
  ((List.range nblocks).flatMap fun k => pbkdf2Block prf hLen pw salt iters (k + 1)).take dkLen

def pbkdf2HmacSha512 (pw salt : Bytes) (iters dkLen : Nat) : Bytes :=
  pbkdf2 hmacSha512 64 pw salt iters dkLen

def pbkdf2HmacSha256 (pw salt : Bytes) (iters dkLen : Nat) : Bytes :=
  pbkdf2 hmacSha256 32 pw salt iters dkLen

end Btc
