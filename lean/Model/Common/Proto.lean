/-
Line protocol: one operation per line on stdin, one canonical line on stdout.
Every driver is `Btc.runLoop handle`.
-/
namespace Btc

partial def runLoop (handle : List String → String) : IO Unit := do
  let stdin ← IO.getStdin
  let stdout ← IO.getStdout
  let rec loop : IO Unit := do
    let line ← stdin.getLine
    if line.isEmpty then return ()
    let toks := (line.trimAscii.toString.splitOn " ").filter (· ≠ "")
    stdout.putStrLn (handle toks)
    loop
  loop
  stdout.flush

end Btc
