import Model.Common.HashUtil
/-
SipHash-2-4 keyed by two 64-bit words (k0, k1), as btclib.hashes.siphash (BIP152 short ids, BIP158 filters):
little-endian 8-byte words, two SipRounds per word, last word carries `len mod 256` in its top byte,
`v2 ^= 0xff`, four finalisation rounds, result `v0^v1^v2^v3`.
Interface: `Btc.siphash : UInt64 → UInt64 → Bytes → UInt64`.  Structural (no arrays/loops).
-/
namespace Btc
open HashUtil

namespace SipHash

structure V where
  (v0 v1 v2 v3 : UInt64)

/-- one SipRound, statement for statement `_siphash_round` of btclib/hashes.py -/
def round (s : V) : V :=
  let v0 := s.v0 + s.v1
  let v1 := rotl64 s.v1 13
  let v1 := v1 ^^^ v0
  let v0 := rotl64 v0 32
  let v2 := s.v2 + s.v3
  let v3 := rotl64 s.v3 16
  let v3 := v3 ^^^ v2
  let v0 := v0 + v3
  let v3 := rotl64 v3 21
  let v3 := v3 ^^^ v0
  let v2 := v2 + v1
  let v1 := rotl64 v1 17
  let v1 := v1 ^^^ v2
  let v2 := rotl64 v2 32
  ⟨v0, v1, v2, v3⟩

/-- absorb one 64-bit word -/
def absorb (s : V) (m : UInt64) : V :=
  let s := round (round { s with v3 := s.v3 ^^^ m })
  { s with v0 := s.v0 ^^^ m }

/-- the byte loop: `pending` collects bytes little-endian, `count` is the length so far mod 256 -/
def feed : Bytes → V → UInt64 → UInt64 → V × UInt64 × UInt64
  | [], s, pending, count => (s, pending, count)
  | b :: bs, s, pending, count =>
    let pending := pending ||| (b.toUInt64 <<< (8 * (count % 8)))
    let count := (count + 1) &&& 0xff
    if count &&& 7 == 0 then feed bs (absorb s pending) 0 count
    else feed bs s pending count

end SipHash

open SipHash in
def siphash (k0 k1 : UInt64) (data : Bytes) : UInt64 :=
  let s : V := ⟨0x736f6d6570736575 ^^^ k0, 0x646f72616e646f6d ^^^ k1,
                0x6c7967656e657261 ^^^ k0, 0x7465646279746573 ^^^ k1⟩
  let (s, pending, count) := feed data s 0 0
  let s := absorb s (pending ||| (count <<< 56))
  let s := { s with v2 := s.v2 ^^^ 0xff }
  let s := round (round (round (round s)))
  s.v0 ^^^ s.v1 ^^^ s.v2 ^^^ s.v3

end Btc
