import Model.Common.Bytes
/-
Helpers shared by the executable hash primitives (Merkle–Damgård padding, word readers/writers).
These files are compiled into the drivers and validated against hashlib on every run
(harness/shared.py); they are *modelled, not verified* (DESIGN §1) and never fed to `decide`.
-/
namespace Btc.HashUtil

def pushZeros : Nat → ByteArray → ByteArray
  | 0, b => b
  | n + 1, b => pushZeros n (b.push 0)

def pushList (b : ByteArray) (l : List UInt8) : ByteArray := l.foldl ByteArray.push b

/-- Merkle–Damgård strengthening: `msg ‖ 0x80 ‖ 0… ‖ bitlen` with the bit length on `lenBytes`
bytes (big-endian when `be`), total length a multiple of `blockSize`. -/
def mdPad (msg : ByteArray) (blockSize lenBytes : Nat) (be : Bool) : ByteArray :=
  let r := (msg.size + 1) % blockSize
  let z := if r ≤ blockSize - lenBytes then blockSize - lenBytes - r else 2 * blockSize - lenBytes - r
  let bits := 8 * msg.size
  let len := if be then Btc.beBytes lenBytes bits else Btc.leBytes lenBytes bits
  pushList (pushZeros z (msg.push 0x80)) len

@[inline] def be32 (b : ByteArray) (i : Nat) : UInt32 :=
  ((b.get! i).toUInt32 <<< 24) ||| ((b.get! (i+1)).toUInt32 <<< 16) |||
  ((b.get! (i+2)).toUInt32 <<< 8) ||| (b.get! (i+3)).toUInt32

@[inline] def le32 (b : ByteArray) (i : Nat) : UInt32 :=
  ((b.get! (i+3)).toUInt32 <<< 24) ||| ((b.get! (i+2)).toUInt32 <<< 16) |||
  ((b.get! (i+1)).toUInt32 <<< 8) ||| (b.get! i).toUInt32

@[inline] def be64 (b : ByteArray) (i : Nat) : UInt64 :=
  ((be32 b i).toUInt64 <<< 32) ||| (be32 b (i+4)).toUInt64

def be32Bytes (x : UInt32) : List UInt8 :=
  [(x >>> 24).toUInt8, (x >>> 16).toUInt8, (x >>> 8).toUInt8, x.toUInt8]

def le32Bytes (x : UInt32) : List UInt8 :=
  [x.toUInt8, (x >>> 8).toUInt8, (x >>> 16).toUInt8, (x >>> 24).toUInt8]

def be64Bytes (x : UInt64) : List UInt8 :=
  be32Bytes (x >>> 32).toUInt32 ++ be32Bytes x.toUInt32

@[inline] def rotr32 (x : UInt32) (n : UInt32) : UInt32 := (x >>> n) ||| (x <<< (32 - n))
@[inline] def rotl32 (x : UInt32) (n : UInt32) : UInt32 := (x <<< n) ||| (x >>> (32 - n))
@[inline] def rotr64 (x : UInt64) (n : UInt64) : UInt64 := (x >>> n) ||| (x <<< (64 - n))
@[inline] def rotl64 (x : UInt64) (n : UInt64) : UInt64 := (x <<< n) ||| (x >>> (64 - n))

end Btc.HashUtil
