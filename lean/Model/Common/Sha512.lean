import Model.Common.HashUtil
/-
SHA-512 (FIPS 180-4), executable.  Interface: `Btc.sha512 : Bytes → Bytes`.
Modelled, not verified: validated against hashlib by harness/shared.py.
-/
namespace Btc
open HashUtil

namespace Sha512

structure State where
  (a b c d e f g h : UInt64)

def K : Array UInt64 := #[
  0x428a2f98d728ae22, 0x7137449123ef65cd, 0xb5c0fbcfec4d3b2f, 0xe9b5dba58189dbbc,
  0x3956c25bf348b538, 0x59f111f1b605d019, 0x923f82a4af194f9b, 0xab1c5ed5da6d8118,
  0xd807aa98a3030242, 0x12835b0145706fbe, 0x243185be4ee4b28c, 0x550c7dc3d5ffb4e2,
  0x72be5d74f27b896f, 0x80deb1fe3b1696b1, 0x9bdc06a725c71235, 0xc19bf174cf692694,
  0xe49b69c19ef14ad2, 0xefbe4786384f25e3, 0x0fc19dc68b8cd5b5, 0x240ca1cc77ac9c65,
  0x2de92c6f592b0275, 0x4a7484aa6ea6e483, 0x5cb0a9dcbd41fbd4, 0x76f988da831153b5,
  0x983e5152ee66dfab, 0xa831c66d2db43210, 0xb00327c898fb213f, 0xbf597fc7beef0ee4,
  0xc6e00bf33da88fc2, 0xd5a79147930aa725, 0x06ca6351e003826f, 0x142929670a0e6e70,
  0x27b70a8546d22ffc, 0x2e1b21385c26c926, 0x4d2c6dfc5ac42aed, 0x53380d139d95b3df,
  0x650a73548baf63de, 0x766a0abb3c77b2a8, 0x81c2c92e47edaee6, 0x92722c851482353b,
  0xa2bfe8a14cf10364, 0xa81a664bbc423001, 0xc24b8b70d0f89791, 0xc76c51a30654be30,
  0xd192e819d6ef5218, 0xd69906245565a910, 0xf40e35855771202a, 0x106aa07032bbd1b8,
  0x19a4c116b8d2d0c8, 0x1e376c085141ab53, 0x2748774cdf8eeb99, 0x34b0bcb5e19b48a8,
  0x391c0cb3c5c95a63, 0x4ed8aa4ae3418acb, 0x5b9cca4f7763e373, 0x682e6ff3d6b2b8a3,
  0x748f82ee5defb2fc, 0x78a5636f43172f60, 0x84c87814a1f0ab72, 0x8cc702081a6439ec,
  0x90befffa23631e28, 0xa4506cebde82bde9, 0xbef9a3f7b2c67915, 0xc67178f2e372532b,
  0xca273eceea26619c, 0xd186b8c721c0c207, 0xeada7dd6cde0eb1e, 0xf57d4f7fee6ed178,
  0x06f067aa72176fba, 0x0a637dc5a2c898a6, 0x113f9804bef90dae, 0x1b710b35131c471b,
  0x28db77f523047d84, 0x32caab7b40c72493, 0x3c9ebe0a15c9bebc, 0x431d67c49c100d4c,
  0x4cc5d4becb3e42b6, 0x597f299cfc657e2a, 0x5fcb6fab3ad6faec, 0x6c44198c4a475817]

def init : State :=
  ⟨0x6a09e667f3bcc908, 0xbb67ae8584caa73b, 0x3c6ef372fe94f82b, 0xa54ff53a5f1d36f1,
   0x510e527fade682d1, 0x9b05688c2b3e6c1f, 0x1f83d9abfb41bd6b, 0x5be0cd19137e2179⟩

/-- message schedule of the 128-byte block at offset `off` -/
def schedule (m : ByteArray) (off : Nat) : Array UInt64 := Id.run do
  let mut w : Array UInt64 := Array.mkEmpty 80
  for i in [0:16] do
    w := w.push (be64 m (off + 8 * i))
  for i in [16:80] do
    let x := w[i - 15]!
    let y := w[i - 2]!
    let s0 := rotr64 x 1 ^^^ rotr64 x 8 ^^^ (x >>> 7)
    let s1 := rotr64 y 19 ^^^ rotr64 y 61 ^^^ (y >>> 6)
    w := w.push (w[i - 16]! + s0 + w[i - 7]! + s1)
  return w

def rounds (w : Array UInt64) (i : Nat) (a b c d e f g h : UInt64) : State :=
  if i < 80 then
    let s1 := rotr64 e 14 ^^^ rotr64 e 18 ^^^ rotr64 e 41
    let ch := (e &&& f) ^^^ (~~~e &&& g)
    let t1 := h + s1 + ch + K[i]! + w[i]!
    let s0 := rotr64 a 28 ^^^ rotr64 a 34 ^^^ rotr64 a 39
    let maj := (a &&& b) ^^^ (a &&& c) ^^^ (b &&& c)
    let t2 := s0 + maj
    rounds w (i + 1) (t1 + t2) a b c (d + t1) e f g
  else ⟨a, b, c, d, e, f, g, h⟩
termination_by 80 - i

def compress (s : State) (m : ByteArray) (off : Nat) : State :=
  let r := rounds (schedule m off) 0 s.a s.b s.c s.d s.e s.f s.g s.h
  ⟨s.a + r.a, s.b + r.b, s.c + r.c, s.d + r.d, s.e + r.e, s.f + r.f, s.g + r.g, s.h + r.h⟩

def State.bytes (s : State) : Bytes :=
  [s.a, s.b, s.c, s.d, s.e, s.f, s.g, s.h].flatMap be64Bytes

/-- SHA-512 of a packed byte array -/
def digest (msg : ByteArray) : Bytes := Id.run do
  let m := mdPad msg 128 16 true
  let mut s := init
  for k in [0:m.size / 128] do
    s := compress s m (128 * k)
  return s.bytes

end Sha512

/-- SHA-512 -/
def sha512 (msg : Bytes) : Bytes := Sha512.digest msg.toByteArray

end Btc
