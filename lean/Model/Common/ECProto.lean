import Model.Common.EC
import Model.Common.Bytes
/- Line-protocol access to the shared EC model: `ecOp`. -/
namespace Btc.EC
open Btc

/-- curve token: a catalogue name, or `toy:p:a:b:gx:gy:n:h` -/
def curveOfToken (t : String) : Option Curve :=
  match Gen.Curves.catalogue.find? (fun d => d.name == t) with
  | some d => some (Curve.ofData d)
  | none =>
    match t.splitOn ":" with
    | ["toy", p, a, b, gx, gy, n, h] => do
      pure { p := ← parseInt? p, a := ← parseInt? a, b := ← parseInt? b, gx := ← parseInt? gx,
             gy := ← parseInt? gy, n := ← parseInt? n, h := ← parseInt? h }
    | _ => none

def renderJac (Q : JacPoint) : String := s!"ok {Q.1} {Q.2.1} {Q.2.2}"

def ecOp : List String → Option String
  | ["ec.mult", c, m, x, y] => do
    let c ← curveOfToken c
    pure (renderPoint (mult c (← parseInt? m) (← parseInt? x, ← parseInt? y)))
  | ["ec.dmult", c, u, hx, hy, v, qx, qy] => do
    let c ← curveOfToken c
    pure (renderPoint (doubleMult c (← parseInt? u) (← parseInt? hx, ← parseInt? hy) (← parseInt? v) (← parseInt? qx, ← parseInt? qy)))
  | ["ec.addjac", c, x1, y1, z1, x2, y2, z2] => do
    let c ← curveOfToken c
    pure (renderJac (addJac c.toCurveGroup (← parseInt? x1, ← parseInt? y1, ← parseInt? z1) (← parseInt? x2, ← parseInt? y2, ← parseInt? z2)))
  | ["ec.addjacaff", c, x1, y1, z1, x2, y2] => do
    let c ← curveOfToken c
    pure (renderJac (addJacAff c.toCurveGroup (← parseInt? x1, ← parseInt? y1, ← parseInt? z1) (← parseInt? x2, ← parseInt? y2)))
  | ["ec.dbljac", c, x1, y1, z1] => do
    let c ← curveOfToken c
    pure (renderJac (doubleJac c.toCurveGroup (← parseInt? x1, ← parseInt? y1, ← parseInt? z1)))
  | ["ec.aff", c, x1, y1, z1] => do
    let c ← curveOfToken c
    pure (renderPoint (affFromJac c.toCurveGroup (← parseInt? x1, ← parseInt? y1, ← parseInt? z1)))
  | ["ec.addaff", c, x1, y1, x2, y2] => do
    let c ← curveOfToken c
    pure (renderPoint (addAff c.toCurveGroup (← parseInt? x1, ← parseInt? y1) (← parseInt? x2, ← parseInt? y2)))
  | ["ec.oncurve", c, x, y] => do
    let c ← curveOfToken c
    pure (match isOnCurve c.toCurveGroup (← parseInt? x, ← parseInt? y) with
          | none => "err value" | some b => if b then "ok True" else "ok False")
  | ["ec.yeven", c, x] => do
    let c ← curveOfToken c
    pure (match yEven c.toCurveGroup (← parseInt? x) with | none => "err value" | some y => s!"ok {y}")
  | ["nt.inv", a, m] => do
    pure (match modInv (← parseInt? a) (← parseInt? m) with | none => "err value" | some y => s!"ok {y}")
  | _ => none

end Btc.EC
