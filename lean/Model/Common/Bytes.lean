/-
Byte-level vocabulary shared by every model (L0 of DESIGN §1). Core Lean only.
-/
namespace Btc

abbrev Bytes := List UInt8

deriving instance DecidableEq for Except

/-- little-endian rendering of `n` on exactly `len` bytes (high part dropped, as `n % 256^len`). -/
def leBytes : Nat → Nat → Bytes
  | 0, _ => []
  | len + 1, n => UInt8.ofNat (n % 256) :: leBytes len (n / 256)

/-- little-endian value of a byte string. -/
def ofLE : Bytes → Nat
  | [] => 0
  | b :: bs => b.toNat + 256 * ofLE bs

/-- big-endian value of a byte string. -/
def ofBE (bs : Bytes) : Nat := bs.foldl (fun acc b => acc * 256 + b.toNat) 0

/-- big-endian rendering of `n` on exactly `len` bytes. -/
def beBytes (len n : Nat) : Bytes := (leBytes len n).reverse

def hexChar (n : Nat) : Char :=
  if n < 10 then Char.ofNat (48 + n) else Char.ofNat (87 + n)

def hexVal? (c : Char) : Option Nat :=
  if '0' ≤ c ∧ c ≤ '9' then some (c.toNat - 48)
  else if 'a' ≤ c ∧ c ≤ 'f' then some (c.toNat - 87)
  else if 'A' ≤ c ∧ c ≤ 'F' then some (c.toNat - 55)
  else none

/-- hex rendering; the empty string is rendered `_` so that it is a token. -/
def toHex (b : Bytes) : String :=
  if b.isEmpty then "_" else
  String.ofList (b.flatMap fun x => [hexChar (x.toNat / 16), hexChar (x.toNat % 16)])

def fromHexChars : List Char → Option Bytes
  | [] => some []
  | [_] => none
  | a :: b :: rest => do
    let x ← hexVal? a
    let y ← hexVal? b
    let r ← fromHexChars rest
    pure (UInt8.ofNat (16 * x + y) :: r)

def fromHex? (s : String) : Option Bytes :=
  if s == "_" then some [] else fromHexChars s.toList

/-- decimal integer token, optional leading `-`. -/
def parseInt? (s : String) : Option Int :=
  match s.toList with
  | '-' :: rest => (String.ofList rest).toNat?.map fun n => - (n : Int)
  | _ => s.toNat?.map fun n => (n : Int)

end Btc
