import Model.Common.Sha256
import Model.Common.Sha512
import Model.Common.Sha1
/-
HMAC (RFC 2104) over any hash `H : Bytes → Bytes` with block size `blockSize` (bytes).
Structural (List) definition: usable both compiled and in statements.
-/
namespace Btc

/-- the key brought to exactly one block: hashed when longer, then zero-padded -/
def hmacKey (H : Bytes → Bytes) (blockSize : Nat) (key : Bytes) : Bytes :=
  let k := if key.length > blockSize then H key else key
  k ++ List.replicate (blockSize - k.length) 0

/-- `HMAC_H(key, msg) = H((K ⊕ opad) ‖ H((K ⊕ ipad) ‖ msg))` -/
def hmac (H : Bytes → Bytes) (blockSize : Nat) (key msg : Bytes) : Bytes :=
  let k := hmacKey H blockSize key
  H (k.map (· ^^^ 0x5c) ++ H (k.map (· ^^^ 0x36) ++ msg))

def hmacSha256 (key msg : Bytes) : Bytes := hmac sha256 64 key msg
def hmacSha512 (key msg : Bytes) : Bytes := hmac sha512 128 key msg
def hmacSha1 (key msg : Bytes) : Bytes := hmac sha1 64 key msg

end Btc
