import Model.Common.HashUtil
/-
SHA-1 (FIPS 180-4), executable (OP_SHA1).  Interface: `Btc.sha1 : Bytes → Bytes`.
Modelled, not verified: validated against hashlib by harness/shared.py.
-/
namespace Btc
open HashUtil

namespace Sha1

structure State where
  (a b c d e : UInt32)

def init : State := ⟨0x67452301, 0xefcdab89, 0x98badcfe, 0x10325476, 0xc3d2e1f0⟩

def schedule (m : ByteArray) (off : Nat) : Array UInt32 := Id.run do
  let mut w : Array UInt32 := Array.mkEmpty 80
  for i in [0:16] do
    w := w.push (be32 m (off + 4 * i))
  for i in [16:80] do
    w := w.push (rotl32 (w[i - 3]! ^^^ w[i - 8]! ^^^ w[i - 14]! ^^^ w[i - 16]!) 1)
  return w

def rounds (w : Array UInt32) (i : Nat) (a b c d e : UInt32) : State :=
  if i < 80 then
    let f : UInt32 :=
      if i < 20 then (b &&& c) ||| (~~~b &&& d)
      else if i < 40 then b ^^^ c ^^^ d
      else if i < 60 then (b &&& c) ||| (b &&& d) ||| (c &&& d)
      else b ^^^ c ^^^ d
    let k : UInt32 :=
      if i < 20 then 0x5a827999 else if i < 40 then 0x6ed9eba1
      else if i < 60 then 0x8f1bbcdc else 0xca62c1d6
    let t := rotl32 a 5 + f + e + k + w[i]!
    rounds w (i + 1) t a (rotl32 b 30) c d
  else ⟨a, b, c, d, e⟩
termination_by 80 - i

def compress (s : State) (m : ByteArray) (off : Nat) : State :=
  let r := rounds (schedule m off) 0 s.a s.b s.c s.d s.e
  ⟨s.a + r.a, s.b + r.b, s.c + r.c, s.d + r.d, s.e + r.e⟩

def State.bytes (s : State) : Bytes := [s.a, s.b, s.c, s.d, s.e].flatMap be32Bytes

def digest (msg : ByteArray) : Bytes := Id.run do
  let m := mdPad msg 64 8 true
  let mut s := init
  for k in [0:m.size / 64] do
    s := compress s m (64 * k)
  return s.bytes

end Sha1

/-- SHA-1 -/
def sha1 (msg : Bytes) : Bytes := Sha1.digest msg.toByteArray

end Btc
