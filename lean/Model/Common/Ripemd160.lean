import Model.Common.Sha256
/-
RIPEMD-160, executable, laid out like /repo/btclib/_ripemd160.py (tables ML/MR/RL/RR/KL/KR).
Interface: `Btc.ripemd160 : Bytes → Bytes`, `Btc.hash160 = ripemd160 ∘ sha256`.
Modelled, not verified: validated against hashlib and btclib's pure-python one by harness/shared.py.
-/
namespace Btc
open HashUtil

namespace Ripemd160

structure State where
  (h0 h1 h2 h3 h4 : UInt32)

def init : State := ⟨0x67452301, 0xefcdab89, 0x98badcfe, 0x10325476, 0xc3d2e1f0⟩

def ML : Array Nat := #[
  0, 1, 2, 3, 4, 5, 6, 7, 8, 9, 10, 11, 12, 13, 14, 15,
  7, 4, 13, 1, 10, 6, 15, 3, 12, 0, 9, 5, 2, 14, 11, 8,
  3, 10, 14, 4, 9, 15, 8, 1, 2, 7, 0, 6, 13, 11, 5, 12,
  1, 9, 11, 10, 0, 8, 12, 4, 13, 3, 7, 15, 14, 5, 6, 2,
  4, 0, 5, 9, 7, 12, 2, 10, 14, 1, 3, 8, 11, 6, 15, 13]

def MR : Array Nat := #[
  5, 14, 7, 0, 9, 2, 11, 4, 13, 6, 15, 8, 1, 10, 3, 12,
  6, 11, 3, 7, 0, 13, 5, 10, 14, 15, 8, 12, 4, 9, 1, 2,
  15, 5, 1, 3, 7, 14, 6, 9, 11, 8, 12, 2, 10, 0, 4, 13,
  8, 6, 4, 1, 3, 11, 15, 0, 5, 12, 2, 13, 9, 7, 10, 14,
  12, 15, 10, 4, 1, 5, 8, 7, 6, 2, 13, 14, 0, 3, 9, 11]

def RL : Array UInt32 := #[
  11, 14, 15, 12, 5, 8, 7, 9, 11, 13, 14, 15, 6, 7, 9, 8,
  7, 6, 8, 13, 11, 9, 7, 15, 7, 12, 15, 9, 11, 7, 13, 12,
  11, 13, 6, 7, 14, 9, 13, 15, 14, 8, 13, 6, 5, 12, 7, 5,
  11, 12, 14, 15, 14, 15, 9, 8, 9, 14, 5, 6, 8, 6, 5, 12,
  9, 15, 5, 11, 6, 8, 13, 12, 5, 12, 13, 14, 11, 8, 5, 6]

def RR : Array UInt32 := #[
  8, 9, 9, 11, 13, 15, 15, 5, 7, 7, 8, 11, 14, 14, 12, 6,
  9, 13, 15, 7, 12, 8, 9, 11, 7, 7, 12, 7, 6, 15, 13, 11,
  9, 7, 15, 11, 8, 6, 6, 14, 12, 13, 5, 14, 13, 13, 7, 5,
  15, 5, 8, 11, 14, 14, 6, 14, 6, 9, 12, 9, 12, 5, 15, 8,
  8, 5, 12, 9, 12, 5, 14, 6, 8, 13, 6, 5, 15, 13, 11, 11]

def KL : Array UInt32 := #[0, 0x5a827999, 0x6ed9eba1, 0x8f1bbcdc, 0xa953fd4e]
def KR : Array UInt32 := #[0x50a28be6, 0x5c4dd124, 0x6d703ef3, 0x7a6d76e9, 0]

@[inline] def fi (x y z : UInt32) (i : Nat) : UInt32 :=
  if i == 0 then x ^^^ y ^^^ z
  else if i == 1 then (x &&& y) ||| (~~~x &&& z)
  else if i == 2 then (x ||| ~~~y) ^^^ z
  else if i == 3 then (x &&& z) ||| (y &&& ~~~z)
  else x ^^^ (y ||| ~~~z)

structure Lanes where
  (al bl cl dl el ar br cr dr er : UInt32)

def rounds (x : Array UInt32) (j : Nat) (al bl cl dl el ar br cr dr er : UInt32) : Lanes :=
  if j < 80 then
    let rnd := j / 16
    let al' := rotl32 (al + fi bl cl dl rnd + x[ML[j]!]! + KL[rnd]!) RL[j]! + el
    let ar' := rotl32 (ar + fi br cr dr (4 - rnd) + x[MR[j]!]! + KR[rnd]!) RR[j]! + er
    rounds x (j + 1) el al' bl (rotl32 cl 10) dl er ar' br (rotl32 cr 10) dr
  else ⟨al, bl, cl, dl, el, ar, br, cr, dr, er⟩
termination_by 80 - j

def compress (s : State) (m : ByteArray) (off : Nat) : State :=
  let x : Array UInt32 := Id.run do
    let mut x : Array UInt32 := Array.mkEmpty 16
    for i in [0:16] do
      x := x.push (le32 m (off + 4 * i))
    return x
  let r := rounds x 0 s.h0 s.h1 s.h2 s.h3 s.h4 s.h0 s.h1 s.h2 s.h3 s.h4
  ⟨s.h1 + r.cl + r.dr, s.h2 + r.dl + r.er, s.h3 + r.el + r.ar, s.h4 + r.al + r.br, s.h0 + r.bl + r.cr⟩

def State.bytes (s : State) : Bytes := [s.h0, s.h1, s.h2, s.h3, s.h4].flatMap le32Bytes

def digest (msg : ByteArray) : Bytes := Id.run do
  let m := mdPad msg 64 8 false
  let mut s := init
  for k in [0:m.size / 64] do
    s := compress s m (64 * k)
  return s.bytes

end Ripemd160

/-- RIPEMD-160 -/
def ripemd160 (msg : Bytes) : Bytes := Ripemd160.digest msg.toByteArray

/-- Bitcoin's HASH160 = RIPEMD160(SHA256(·)) -/
def hash160 (msg : Bytes) : Bytes := ripemd160 (sha256 msg)

end Btc
