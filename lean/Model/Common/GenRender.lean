import Model.Common.Py
/- Canonical rendering of results of generated functions on the line protocol. -/
namespace Gen
open Btc Btc.Py

class Render (α : Type) where
  render : α → String

instance : Render Int := ⟨fun v => toString v⟩
instance : Render Bool := ⟨fun v => if v then "True" else "False"⟩
instance : Render Bytes := ⟨fun v => toHex v⟩
instance [Render α] [Render β] : Render (α × β) := ⟨fun v => Render.render v.1 ++ " " ++ Render.render v.2⟩

def render [Render α] (r : Except PyErr α) : String :=
  match r with
  | .ok v => "ok " ++ Render.render v
  | .error e => "err " ++ e.name

end Gen
