import Model.Common.Bytes
/-
Python-semantics helpers used by the code that `tools/pyfun2lean.py` emits into
`Generated/*.lean`.  Python `int` is `Int`; `bytes` is `List UInt8`; an exception
is `Except PyErr`.
-/
namespace Btc.Py

open Btc

/-- Exception classes as the harness canonicalises them (DESIGN §2.3). `foreign` is any
    non-library exception (OverflowError, IndexError, …): reaching it is itself a C19 violation. -/
inductive PyErr | value | type | runtime | script | foreign
  deriving DecidableEq, Repr, Inhabited

def PyErr.name : PyErr → String
  | .value => "value" | .type => "type" | .runtime => "runtime"
  | .script => "script" | .foreign => "foreign"

/-- Python `//` (floor division). -/
def div (a b : Int) : Int := Int.fdiv a b
/-- Python `%` (sign of the divisor). -/
def mod (a b : Int) : Int := Int.fmod a b
/-- Python `<<` for a non-negative shift. -/
def shl (a s : Int) : Int := a * 2 ^ s.toNat
/-- Python `>>` for a non-negative shift (floor). -/
def shr (a s : Int) : Int := Int.fdiv a (2 ^ s.toNat)

/-- `int.bit_length()` on naturals, structurally on a fuel equal to the value. -/
def natBitLengthAux : Nat → Nat → Nat
  | 0, _ => 0
  | fuel + 1, n => if n = 0 then 0 else 1 + natBitLengthAux fuel (n / 2)
def natBitLength (n : Nat) : Nat := natBitLengthAux n n
/-- Python `int.bit_length()`. -/
def bitLength (a : Int) : Int := (natBitLength a.natAbs : Nat)

/-- `int.from_bytes(b, "big", signed=False)`. -/
def fromBytesBE (b : Bytes) : Int := (ofBE b : Nat)
/-- `int.from_bytes(b, "little", signed=False)`. -/
def fromBytesLE (b : Bytes) : Int := (ofLE b : Nat)

/-- `i.to_bytes(n, "big", signed=False)`: OverflowError when negative or too big. -/
def toBytesBE (i n : Int) : Except PyErr Bytes :=
  if i < 0 ∨ n < 0 then .error .foreign
  else if i.toNat ≥ 256 ^ n.toNat then .error .foreign
  else .ok (beBytes n.toNat i.toNat)
def toBytesLE (i n : Int) : Except PyErr Bytes :=
  if i < 0 ∨ n < 0 then .error .foreign
  else if i.toNat ≥ 256 ^ n.toNat then .error .foreign
  else .ok (leBytes n.toNat i.toNat)

/-- `bytes([i])`: ValueError (foreign) outside 0..255. -/
def byteOf (i : Int) : Except PyErr Bytes :=
  if 0 ≤ i ∧ i < 256 then .ok [UInt8.ofNat i.toNat] else .error .foreign

/-- Python slice index normalisation for a sequence of length `len`. -/
def normIdx (len : Nat) (i : Int) : Nat :=
  if i < 0 then (len + i).toNat else min i.toNat len
/-- `b[lo:hi]`. -/
def slice (b : Bytes) (lo hi : Option Int) : Bytes :=
  let l := match lo with | none => 0 | some i => normIdx b.length i
  let h := match hi with | none => b.length | some i => normIdx b.length i
  (b.take h).drop l
/-- `b[i]` : IndexError (foreign) when out of range. -/
def index (b : Bytes) (i : Int) : Except PyErr Int :=
  let j : Int := if i < 0 then b.length + i else i
  if j < 0 then .error .foreign else
  match b[j.toNat]? with
  | some x => .ok (x.toNat : Int)
  | none => .error .foreign

def len (b : Bytes) : Int := (b.length : Nat)

/-- `bytes_from_octets(x, n)`: the length check. -/
def bytesFromOctets (b : Bytes) (n : Option Int) : Except PyErr Bytes :=
  match n with
  | none => .ok b
  | some k => if (b.length : Int) = k then .ok b else .error .value

/-- Python `&`, `|`, `^` on integers (two's complement semantics, arbitrary sign). -/
def land (a b : Int) : Int :=
  match a, b with
  | .ofNat x, .ofNat y => ((x &&& y : Nat) : Int)
  | .ofNat x, .negSucc m => ((x ^^^ (x &&& m) : Nat) : Int)
  | .negSucc m, .ofNat y => ((y ^^^ (y &&& m) : Nat) : Int)
  | .negSucc m, .negSucc k => .negSucc (m ||| k)
def lor (a b : Int) : Int :=
  match a, b with
  | .ofNat x, .ofNat y => ((x ||| y : Nat) : Int)
  | .ofNat x, .negSucc m => .negSucc (m ^^^ (m &&& x))
  | .negSucc m, .ofNat y => .negSucc (m ^^^ (m &&& y))
  | .negSucc m, .negSucc k => .negSucc (m &&& k)
def lxor (a b : Int) : Int :=
  match a, b with
  | .ofNat x, .ofNat y => ((x ^^^ y : Nat) : Int)
  | .ofNat x, .negSucc m => .negSucc (x ^^^ m)
  | .negSucc m, .ofNat y => .negSucc (m ^^^ y)
  | .negSucc m, .negSucc k => ((m ^^^ k : Nat) : Int)

def renderInt (r : Except PyErr Int) : String :=
  match r with | .ok v => s!"ok {v}" | .error e => s!"err {e.name}"
def renderBool (r : Except PyErr Bool) : String :=
  match r with | .ok v => (if v then "ok True" else "ok False") | .error e => s!"err {e.name}"
def renderBytes (r : Except PyErr Bytes) : String :=
  match r with | .ok v => s!"ok {toHex v}" | .error e => s!"err {e.name}"

end Btc.Py
