import Model.Common.EC
/-
L2' interface (DESIGN §1): every scheme-level model (ECDSA, BIP340, BIP32, taproot tweak,
MuSig2, DLEQ, ECDH, silent payments, …) is written ONCE, generically over `GroupOps α`.
The same definition is then (a) executed in the drivers with the concrete instance
`Btc.EC.ops c` below (tied to btclib by correspondence) and (b) reasoned about in `Proofs/`
under `Btc.Lawful ops` (Proofs/Common/Lawful.lean), which says the operations are those of a
group of prime order `n` with an x-coordinate map.  That the concrete instance is lawful is
property C01 (Jacobian arithmetic refines the elliptic-curve group law).
-/
namespace Btc

structure GroupOps (α : Type) where
  /-- prime order of the group -/
  n : Int
  /-- size of the coordinate field -/
  p : Int
  zero : α
  add : α → α → α
  neg : α → α
  /-- `m • P` for any integer `m` -/
  mul : Int → α → α
  gen : α
  isZero : α → Bool
  /-- affine coordinates of a non-zero element (unspecified on zero) -/
  x : α → Int
  y : α → Int
  /-- the element with this x-coordinate and even y, if any (`lift_x`) -/
  liftX : Int → Option α
  /-- decidable equality of elements, as the code's `==` on affine points -/
  eq : α → α → Bool

namespace GroupOps
variable {α : Type} (o : GroupOps α)
def sub (P Q : α) : α := o.add P (o.neg Q)
/-- `u•H + v•Q` -/
def dmul (u : Int) (H : α) (v : Int) (Q : α) : α := o.add (o.mul u H) (o.mul v Q)
def hasEvenY (P : α) : Bool := o.y P % 2 == 0
end GroupOps

namespace EC

/-- the concrete instance: affine points of a catalogued / toy curve, computed by the shared
    transcription of btclib's Jacobian arithmetic. -/
def ops (c : Curve) : GroupOps Point where
  n := c.n
  p := c.p
  zero := INF
  add P Q := (addAff c.toCurveGroup P Q).getD INF
  neg P := if P.2 = 0 then P else negate c.toCurveGroup P
  mul m P := (mult c m P).getD INF
  gen := c.G
  isZero P := P.2 == 0
  x P := P.1
  y P := P.2
  liftX x := (yEven c.toCurveGroup x).map fun y => (x, y)
  eq P Q := if P.2 = 0 then Q.2 == 0 else P == Q

end EC
end Btc
