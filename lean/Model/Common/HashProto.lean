import Model.Common.Ripemd160
import Model.Common.Pbkdf2
import Model.Common.SipHash
/-
Protocol lines for the shared hash primitives (served by every driver that wants them:
`match Btc.hashOp toks with | some r => r | none => …`).  Validated by harness/shared.py.

  hash.sha256|sha512|sha1|ripemd160|hash160|hash256 <hex>        → ok <hex>
  hash.rep <sha256|sha512|sha1|ripemd160|hash160|hash256> <hex> <n>   (the pattern repeated n times) → ok <hex>
  hash.tagged <taghex> <msghex>                                  → ok <hex>
  hash.hmac256|hmac512|hmac1 <keyhex> <msghex>                   → ok <hex>
  hash.pbkdf2_512|pbkdf2_256 <pwhex> <salthex> <iters> <dklen>   → ok <hex>
  hash.siphash <k0> <k1> <msghex>   (decimal words)              → ok <decimal> | err value (word ≥ 2^64)
A `hash.*` line that does not parse answers `err parse`; any other line answers `none`.
-/
namespace Btc

private def un (f : Bytes → Bytes) (a : String) : String :=
  match fromHex? a with
  | some x => "ok " ++ toHex (f x)
  | none => "err parse"

private def bin (f : Bytes → Bytes → Bytes) (a b : String) : String :=
  match fromHex? a, fromHex? b with
  | some x, some y => "ok " ++ toHex (f x y)
  | _, _ => "err parse"

private def kdf (f : Bytes → Bytes → Nat → Nat → Bytes) (a b c d : String) : String :=
  match fromHex? a, fromHex? b, c.toNat?, d.toNat? with
  | some pw, some salt, some iters, some dk => "ok " ++ toHex (f pw salt iters dk)
  | _, _, _, _ => "err parse"

private def unary? : String → Option (Bytes → Bytes)
  | "sha256" => some sha256
  | "sha512" => some sha512
  | "sha1" => some sha1
  | "ripemd160" => some ripemd160
  | "hash160" => some hash160
  | "hash256" => some hash256
  | _ => none

def hashOp : List String → Option String
  | ["hash.sha256", a] => some (un sha256 a)
  | ["hash.sha512", a] => some (un sha512 a)
  | ["hash.sha1", a] => some (un sha1 a)
  | ["hash.ripemd160", a] => some (un ripemd160 a)
  | ["hash.hash160", a] => some (un hash160 a)
  | ["hash.hash256", a] => some (un hash256 a)
  | ["hash.rep", name, a, n] =>
    some <| match unary? name, fromHex? a, n.toNat? with
    | some f, some x, some n => "ok " ++ toHex (f ((List.replicate n x).flatten))
    | _, _, _ => "err parse"
  | ["hash.tagged", t, m] => some (bin taggedHash t m)
  | ["hash.hmac256", k, m] => some (bin hmacSha256 k m)
  | ["hash.hmac512", k, m] => some (bin hmacSha512 k m)
  | ["hash.hmac1", k, m] => some (bin hmacSha1 k m)
  | ["hash.pbkdf2_512", a, b, c, d] => some (kdf pbkdf2HmacSha512 a b c d)
  | ["hash.pbkdf2_256", a, b, c, d] => some (kdf pbkdf2HmacSha256 a b c d)
  | ["hash.siphash", k0, k1, m] =>
    some <| match k0.toNat?, k1.toNat?, fromHex? m with
    | some k0, some k1, some m =>
      if k0 < 2 ^ 64 ∧ k1 < 2 ^ 64 then
        "ok " ++ toString (siphash (UInt64.ofNat k0) (UInt64.ofNat k1) m).toNat
      else "err value"
    | _, _, _ => "err parse"
  | op :: _ => if op.startsWith "hash." then some "err parse" else none
  | [] => none

end Btc
