import Generated.Curves
/-
Shared executable model of btclib's curve arithmetic (`btclib/curves/curve_group.py`,
`btclib/number_theory.py`), over `Int` with Python's `%` (positive modulus ⇒ `Int.emod`).
Mirrors the code function by function; core Lean only.  Infinity is spelled as the code
spells it: affine `(x, 0)` (`INF`), Jacobian `(X, Y, 0)` (`INFJ`).
-/
namespace Btc.EC

abbrev Point := Int × Int
abbrev JacPoint := Int × Int × Int

def INF : Point := Gen.Curves.INF
def INFJ : JacPoint := Gen.Curves.INFJ

/-- the three parameters `CurveGroup` arithmetic depends on -/
structure CurveGroup where
  p : Int
  a : Int
  b : Int
  deriving Repr, DecidableEq

/-- `Curve`: group parameters plus generator, order, cofactor -/
structure Curve extends CurveGroup where
  gx : Int
  gy : Int
  n : Int
  h : Int
  deriving Repr, DecidableEq

def Curve.ofData (d : Gen.Curves.CurveData) : Curve :=
  { p := d.p, a := d.a, b := d.b, gx := d.gx, gy := d.gy, n := d.n, h := d.h }

def secp256k1 : Curve := Curve.ofData Gen.Curves.secp256k1

def Curve.G (c : Curve) : Point := (c.gx, c.gy)
def Curve.GJ (c : Curve) : JacPoint := (c.gx, c.gy, 1)

/-! ## number theory -/

/-- extended Euclid on naturals with explicit fuel: returns `(g, x)` with `a*x ≡ g (mod m)` -/
def xgcdAux : Nat → Int → Int → Int → Int → Int × Int
  | 0, r0, _, x0, _ => (r0, x0)
  | fuel + 1, r0, r1, x0, x1 =>
    if r1 = 0 then (r0, x0)
    else
      let q := r0 / r1
      xgcdAux fuel r1 (r0 - q * r1) x1 (x0 - q * x1)

/-- `mod_inv_var a m` = `pow(a, -1, m)`; `none` when not invertible (the code's ValueError). -/
def modInv (a m : Int) : Option Int :=
  if m < 1 then none else
  let a' := a % m
  let (g, x) := xgcdAux (m.toNat + 2) a' m 1 0
  if g = 1 then some (x % m) else if m = 1 then some 0 else none

/-- `pow(b, e, m)` for `e ≥ 0`, square-and-multiply on the binary expansion (fuel = e). -/
def modPowAux : Nat → Int → Nat → Int → Int → Int
  | 0, _, _, _, acc => acc
  | fuel + 1, b, e, m, acc =>
    if e = 0 then acc
    else
      let acc' := if e % 2 = 1 then acc * b % m else acc
      modPowAux fuel (b * b % m) (e / 2) m acc'

def modPow (b : Int) (e : Nat) (m : Int) : Int := modPowAux (e + 1) (b % m) e m (1 % m)

/-- `mod_sqrt_var` for `p ≡ 3 (mod 4)` and `p ≡ 5 (mod 8)`; Tonelli–Shanks is in Model/C01. -/
def modSqrt34 (a p : Int) : Option Int :=
  let a := a % p
  if p % 4 = 3 then
    let r := modPow a ((p.toNat / 4) + 1) p
    if r * r % p = a then some r else none
  else if p % 8 = 5 then
    let r := modPow a ((p.toNat / 8) + 1) p
    if r * r % p = a then some r
    else
      let r := r * modPow 2 (p.toNat / 4) p % p
      if r * r % p = a then some r else none
  else none

/-! ## group arithmetic (`CurveGroup` methods) -/

def standInQ (c : CurveGroup) : JacPoint := (c.p / 3, c.p / 5, c.p / 7)
def standInR (c : CurveGroup) : JacPoint := (c.p / 11, c.p / 13, c.p / 17)

def jacFromAff (Q : Point) : JacPoint := (Q.1, Q.2, if Q.2 ≠ 0 then 1 else 0)

def negate (c : CurveGroup) (Q : Point) : Point := (Q.1, (c.p - Q.2) % c.p)
def negateJac (c : CurveGroup) (Q : JacPoint) : JacPoint := (Q.1, (c.p - Q.2.1) % c.p, Q.2.2)

/-- `_double_jac_helper`, the three spellings of `a·Z⁴` selected as the constructor does. -/
def doubleJacHelper (c : CurveGroup) (Q : JacPoint) (QZ2 : Int) : JacPoint :=
  let p := c.p
  let (X1, Y1, Z1) := Q
  let QY2 := Y1 * Y1 % p
  let W :=
    if c.a = 0 then 3 * X1 * X1 % p
    else if c.a = p - 3 then 3 * (X1 - QZ2) * (X1 + QZ2) % p
    else (3 * X1 * X1 + c.a * QZ2 * QZ2) % p
  let V := 4 * X1 * QY2 % p
  let X := (W * W - 2 * V) % p
  let Y := (W * (V - X) - 8 * QY2 * QY2) % p
  let Z := 2 * Y1 * Z1 % p
  (X, Y, Z)

def doubleJac (c : CurveGroup) (Q : JacPoint) : JacPoint :=
  let QZ2 := if c.a = 0 then 0 else Q.2.2 * Q.2.2 % c.p
  doubleJacHelper c Q QZ2

/-- `CurveGroup.add_jac` -/
def addJac (c : CurveGroup) (Q R : JacPoint) : JacPoint :=
  let p := c.p
  let QS := if Q.2.2 = 0 then standInQ c else Q
  let RS := if R.2.2 = 0 then standInR c else R
  let RZ2 := RS.2.2 * RS.2.2 % p
  let RZ3 := RZ2 * RS.2.2 % p
  let QZ2 := QS.2.2 * QS.2.2 % p
  let QZ3 := QZ2 * QS.2.2 % p
  let M := QS.1 * RZ2 % p
  let T := QS.2.1 * RZ3 % p
  let V := (RS.1 * QZ2 - M) % p
  let W := (RS.2.1 * QZ3 - T) % p
  if V = 0 ∧ Q.2.2 ≠ 0 ∧ R.2.2 ≠ 0 then
    if W = 0 then doubleJacHelper c Q QZ2 else INFJ
  else
    let V2 := V * V % p
    let V3 := V2 * V % p
    let MV2 := M * V2 % p
    let X := (W * W - V3 - 2 * MV2) % p
    let Y := (W * (MV2 - X) - T * V3) % p
    let Z := V * QS.2.2 % p * RS.2.2 % p
    if Q.2.2 = 0 then (if R.2.2 = 0 then INFJ else R)
    else if R.2.2 = 0 then Q else (X, Y, Z)

/-- `CurveGroup.add_jac_aff` (second operand affine, infinity spelled `y = 0`) -/
def addJacAff (c : CurveGroup) (Q : JacPoint) (R : Point) : JacPoint :=
  let p := c.p
  let QS := if Q.2.2 = 0 then standInQ c else Q
  let RS : JacPoint := if R.2 = 0 then standInR c else (R.1, R.2, 1)
  let QZ2 := QS.2.2 * QS.2.2 % p
  let QZ3 := QZ2 * QS.2.2 % p
  let M := QS.1
  let T := QS.2.1
  let V := (RS.1 * QZ2 - M) % p
  let W := (RS.2.1 * QZ3 - T) % p
  if V = 0 ∧ Q.2.2 ≠ 0 ∧ R.2 ≠ 0 then
    if W = 0 then doubleJacHelper c Q QZ2 else INFJ
  else
    let V2 := V * V % p
    let V3 := V2 * V % p
    let MV2 := M * V2 % p
    let X := (W * W - V3 - 2 * MV2) % p
    let Y := (W * (MV2 - X) - T * V3) % p
    let Z := V * QS.2.2 % p
    if Q.2.2 = 0 then (if R.2 = 0 then INFJ else (R.1, R.2, 1))
    else if R.2 = 0 then Q else (X, Y, Z)

def affFromZInv (c : CurveGroup) (Q : JacPoint) (zInv : Int) : Point :=
  let p := c.p
  let zInv2 := zInv * zInv % p
  (Q.1 * zInv2 % p, Q.2.1 * zInv2 % p * zInv % p)

/-- `aff_from_jac_var`; `none` = the inverse does not exist (cannot happen for prime `p`). -/
def affFromJac (c : CurveGroup) (Q : JacPoint) : Option Point :=
  if Q.2.2 = 0 then some INF
  else (modInv Q.2.2 c.p).map (affFromZInv c Q)

def isJacEqual (c : CurveGroup) (QJ PJ : JacPoint) : Bool :=
  let p := c.p
  let PJ2 := PJ.2.2 * PJ.2.2
  let QJ2 := QJ.2.2 * QJ.2.2
  if QJ.1 * PJ2 % p ≠ PJ.1 * QJ2 % p then false
  else
    let PJ3 := PJ2 * PJ.2.2
    let QJ3 := QJ2 * QJ.2.2
    QJ.2.1 * PJ3 % p == PJ.2.1 * QJ3 % p

def y2 (c : CurveGroup) (x : Int) : Int := ((x ^ 2 + c.a) * x + c.b) % c.p

/-- `is_on_curve`: `none` = the code raises (y outside 1..p-1). -/
def isOnCurve (c : CurveGroup) (Q : Point) : Option Bool :=
  if Q.2 = 0 then some true
  else if ¬ (0 < Q.2 ∧ Q.2 < c.p) then none
  else some (y2 c Q.1 == Q.2 * Q.2 % c.p)

def doubleAff (c : CurveGroup) (Q : Point) : Option Point :=
  if Q.2 = 0 then some INF else
  let p := c.p
  (modInv (2 * Q.2) p).map fun inv =>
    let lam := (3 * Q.1 * Q.1 + c.a) * inv % p
    let x := (lam * lam - Q.1 - Q.1) % p
    let y := (lam * (Q.1 - x) - Q.2) % p
    (x, y)

def addAff (c : CurveGroup) (Q R : Point) : Option Point :=
  if R.2 = 0 then some Q
  else if Q.2 = 0 then some R
  else if R.1 = Q.1 then (if R.2 = Q.2 then doubleAff c R else some INF)
  else
    let p := c.p
    (modInv (R.1 - Q.1) p).map fun inv =>
      let lam := (R.2 - Q.2) * inv % p
      let x := (lam * lam - Q.1 - R.1) % p
      let y := (lam * (Q.1 - x) - Q.2) % p
      (x, y)

/-! ## the reference multiplication used by every scheme-level driver -/

/-- `_mult_jac_var`-shaped right-to-left double-and-add (fuel = m). -/
def multJacAux (c : CurveGroup) : Nat → Nat → JacPoint → JacPoint → JacPoint
  | 0, _, _, acc => acc
  | fuel + 1, m, Q, acc =>
    if m = 0 then acc
    else
      let acc' := if m % 2 = 1 then addJac c acc Q else acc
      multJacAux c fuel (m / 2) (doubleJac c Q) acc'

def multJac (c : CurveGroup) (m : Nat) (Q : JacPoint) : JacPoint := multJacAux c (m + 1) m Q INFJ

/-- `m·Q` in affine coordinates for an integer `m` reduced mod `n` (as `mult` does). -/
def mult (c : Curve) (m : Int) (Q : Point) : Option Point :=
  affFromJac c.toCurveGroup (multJac c.toCurveGroup (m % c.n).toNat (jacFromAff Q))

/-- `u·H + v·Q` -/
def doubleMult (c : Curve) (u : Int) (H : Point) (v : Int) (Q : Point) : Option Point :=
  let g := c.toCurveGroup
  affFromJac g (addJac g (multJac g (u % c.n).toNat (jacFromAff H)) (multJac g (v % c.n).toNat (jacFromAff Q)))

/-- even-y lift of an x coordinate (`y_even_var`), for `p ≡ 3 (mod 4)` or `5 (mod 8)` -/
def yEven (c : CurveGroup) (x : Int) : Option Int :=
  if ¬ (0 ≤ x ∧ x < c.p) then none else
  (modSqrt34 (y2 c x) c.p).map fun r => if r % 2 = 1 then c.p - r else r

def renderPoint (r : Option Point) : String :=
  match r with
  | none => "err value"
  | some (x, y) => if y = 0 then "inf" else s!"ok {x} {y}"

end Btc.EC
