import Model.Common.HashUtil
/-
SHA-256 (FIPS 180-4), executable.  Interface: `Btc.sha256 : Bytes → Bytes`, `Btc.hash256`,
`Btc.taggedHash`.  Modelled, not verified: validated against hashlib by harness/shared.py.
-/
namespace Btc
open HashUtil

namespace Sha256

structure State where
  (a b c d e f g h : UInt32)

def K : Array UInt32 := #[
  0x428a2f98, 0x71374491, 0xb5c0fbcf, 0xe9b5dba5, 0x3956c25b, 0x59f111f1, 0x923f82a4, 0xab1c5ed5,
  0xd807aa98, 0x12835b01, 0x243185be, 0x550c7dc3, 0x72be5d74, 0x80deb1fe, 0x9bdc06a7, 0xc19bf174,
  0xe49b69c1, 0xefbe4786, 0x0fc19dc6, 0x240ca1cc, 0x2de92c6f, 0x4a7484aa, 0x5cb0a9dc, 0x76f988da,
  0x983e5152, 0xa831c66d, 0xb00327c8, 0xbf597fc7, 0xc6e00bf3, 0xd5a79147, 0x06ca6351, 0x14292967,
  0x27b70a85, 0x2e1b2138, 0x4d2c6dfc, 0x53380d13, 0x650a7354, 0x766a0abb, 0x81c2c92e, 0x92722c85,
  0xa2bfe8a1, 0xa81a664b, 0xc24b8b70, 0xc76c51a3, 0xd192e819, 0xd6990624, 0xf40e3585, 0x106aa070,
  0x19a4c116, 0x1e376c08, 0x2748774c, 0x34b0bcb5, 0x391c0cb3, 0x4ed8aa4a, 0x5b9cca4f, 0x682e6ff3,
  0x748f82ee, 0x78a5636f, 0x84c87814, 0x8cc70208, 0x90befffa, 0xa4506ceb, 0xbef9a3f7, 0xc67178f2]

def init : State :=
  ⟨0x6a09e667, 0xbb67ae85, 0x3c6ef372, 0xa54ff53a, 0x510e527f, 0x9b05688c, 0x1f83d9ab, 0x5be0cd19⟩

/-- message schedule of the 64-byte block at offset `off` -/
def schedule (m : ByteArray) (off : Nat) : Array UInt32 := Id.run do
  let mut w : Array UInt32 := Array.mkEmpty 64
  for i in [0:16] do
    w := w.push (be32 m (off + 4 * i))
  for i in [16:64] do
    let x := w[i - 15]!
    let y := w[i - 2]!
    let s0 := rotr32 x 7 ^^^ rotr32 x 18 ^^^ (x >>> 3)
    let s1 := rotr32 y 17 ^^^ rotr32 y 19 ^^^ (y >>> 10)
    w := w.push (w[i - 16]! + s0 + w[i - 7]! + s1)
  return w

def rounds (w : Array UInt32) (i : Nat) (a b c d e f g h : UInt32) : State :=
  if i < 64 then
    let s1 := rotr32 e 6 ^^^ rotr32 e 11 ^^^ rotr32 e 25
    let ch := (e &&& f) ^^^ (~~~e &&& g)
    let t1 := h + s1 + ch + K[i]! + w[i]!
    let s0 := rotr32 a 2 ^^^ rotr32 a 13 ^^^ rotr32 a 22
    let maj := (a &&& b) ^^^ (a &&& c) ^^^ (b &&& c)
    let t2 := s0 + maj
    rounds w (i + 1) (t1 + t2) a b c (d + t1) e f g
  else ⟨a, b, c, d, e, f, g, h⟩
termination_by 64 - i

def compress (s : State) (m : ByteArray) (off : Nat) : State :=
  let r := rounds (schedule m off) 0 s.a s.b s.c s.d s.e s.f s.g s.h
  ⟨s.a + r.a, s.b + r.b, s.c + r.c, s.d + r.d, s.e + r.e, s.f + r.f, s.g + r.g, s.h + r.h⟩

def State.bytes (s : State) : Bytes :=
  [s.a, s.b, s.c, s.d, s.e, s.f, s.g, s.h].flatMap be32Bytes

/-- SHA-256 of a packed byte array -/
def digest (msg : ByteArray) : Bytes := Id.run do
  let m := mdPad msg 64 8 true
  let mut s := init
  for k in [0:m.size / 64] do
    s := compress s m (64 * k)
  return s.bytes

end Sha256

/-- SHA-256 -/
def sha256 (msg : Bytes) : Bytes := Sha256.digest msg.toByteArray

/-- Bitcoin's double SHA-256 -/
def hash256 (msg : Bytes) : Bytes := sha256 (sha256 msg)

/-- BIP340 tagged hash: `SHA256(SHA256(tag) ‖ SHA256(tag) ‖ msg)` -/
def taggedHash (tag msg : Bytes) : Bytes :=
  let t := sha256 tag
  sha256 (t ++ t ++ msg)

end Btc
