import Model.Common.Py
/-
The one float computation the translator admits: `math.ceil(i / 2**k)` on Python ints.

CPython's `int / int` (`long_true_divide`) returns the IEEE-754 double nearest to the exact
quotient (ties to even) or raises OverflowError when that is not finite.  Dividing by a power
of two only shifts the exponent, so the double is `round53 |i| / 2^k` exactly (no subnormals can
arise from an integer numerator and k < 1000), and `math.ceil` of a double is the exact integer
ceiling.  `round53` is the rounding of a natural to 53 significant bits, ties to even.
What is *assumed* here is that description of CPython/IEEE-754; it is validated on every run by
the `gen.*` streams of the functions that use it (arguments straddling 2^53 and 2^1024).
-/
namespace Btc.PyFloat
open Btc.Py

/-- the integer value of `float(n)`: `n` rounded to 53 significant bits, ties to even. -/
def round53 (n : Nat) : Nat :=
  if n < 2 ^ 53 then n
  else
    let sh := natBitLength n - 53
    let q := n / 2 ^ sh
    let r := n % 2 ^ sh
    let half := 2 ^ (sh - 1)
    (if r > half ∨ (r = half ∧ q % 2 = 1) then q + 1 else q) * 2 ^ sh

/-- `math.ceil(a / 2**k)` with `/` the float division of two Python ints. -/
def ceilTrueDivPow2 (a : Int) (k : Nat) : Except PyErr Int :=
  let m := round53 a.natAbs
  if natBitLength m > 1024 + k then .error .foreign    -- m ≥ 2^(1024+k): OverflowError
  else if a < 0 then .ok (-((m : Int) / (2 ^ k : Int)))  -- ceil(-x) = -floor(x)
  else .ok (((m : Int) + (2 ^ k - 1)) / (2 ^ k : Int))

end Btc.PyFloat
