import Model.C01.Curve
import Model.C01.NumberTheory
import Model.Common.Bytes
/-
C01 model, SEC 1 point codec (`btclib/curves/sec_point.py`): `bytes_from_point`, `point_from_octets` (compressed,
uncompressed and — under `hybrid=True` — hybrid `06/07` forms), mirroring the code's checks in the code's order.
-/
namespace Btc.C01
open Btc Btc.EC

/-- `ec.y_even_var(x)` on any prime (`mod_sqrt_var` with all three branches) -/
def yEvenVar (g : CurveGroup) (x : Int) : Option Int :=
  if ¬ (0 ≤ x ∧ x < g.p) then none
  else (NT.modSqrtVar (y2 g x) g.p).map fun r => if r % 2 = 1 then g.p - r else r

/-- which check of `point_from_octets` refused (every one of them is a BTClibValueError) -/
inductive SecErr
  | length | pfx | size | xInvalid | inf | parity | range | offCurve
  deriving Repr, DecidableEq

def SecErr.name : SecErr → String
  | .length => "length" | .pfx => "prefix" | .size => "size" | .xInvalid => "xinvalid" | .inf => "inf"
  | .parity => "parity" | .range => "range" | .offCurve => "offcurve"

/-- `point_from_octets(pub_key, ec, hybrid=…)` -/
def pointFromOctets (g : CurveGroup) (pSize : Nat) (hybrid : Bool) (b : Bytes) : Except SecErr Point :=
  if b.length ≠ pSize + 1 ∧ b.length ≠ 2 * pSize + 1 then .error .length else
  match b with
  | [] => .error .length
  | pfxB :: body =>
    let pfx := pfxB.toNat
    if pfx = 2 ∨ pfx = 3 then
      if b.length ≠ pSize + 1 then .error .size else
      let x : Int := ofBE body
      match yEvenVar g x with
      | none => .error .xInvalid
      | some y =>
        -- since btclib d2e5d5eb: a lifted `y = 0` (the x of a point of order two) is refused, not answered
        if y = 0 then .error .inf else .ok (x, if pfx = 2 then y else g.p - y)
    else if pfx = 4 ∨ (hybrid ∧ (pfx = 6 ∨ pfx = 7)) then
      if b.length ≠ 2 * pSize + 1 then .error .size else
      let x : Int := ofBE (body.take pSize)
      let y : Int := ofBE (body.drop pSize)
      if y = 0 then .error .inf
      else if pfx ≠ 4 ∧ y % 2 ≠ (pfx : Int) - 6 then .error .parity
      else match isOnCurveX g (x, y) with
        | none => .error .range
        | some false => .error .offCurve
        | some true => .ok (x, y)
    else .error .pfx

/-- `bytes_from_point(Q, ec, compressed)`; `none` = refused (off the curve, out of range, infinity) -/
def bytesFromPoint (g : CurveGroup) (pSize : Nat) (Q : Point) (compressed : Bool) : Option Bytes :=
  if isOnCurveX g Q ≠ some true then none
  else if Q.2 = 0 then none
  else
    let xb := beBytes pSize Q.1.toNat
    if compressed then some ((if Q.2 % 2 = 1 then (3 : UInt8) else 2) :: xb)
    else some ((4 : UInt8) :: (xb ++ beBytes pSize Q.2.toNat))

/-- `ec.p_size` -/
def pSizeOf (g : CurveGroup) : Nat := (bitLength g.p.toNat + 7) / 8

end Btc.C01
