import Model.C01.Curve
import Model.C01.NumberTheory
import Model.C01.Sec
import Model.Common.ECProto
/- Line protocol of property C01 (see harness/c01.py). -/
namespace Btc.C01
open Btc Btc.EC

def parseInts? (s : String) : Option (List Int) :=
  if s == "_" then some [] else (s.splitOn ",").mapM parseInt?

def parseNats? (s : String) : Option (List Nat) := do
  let l ← parseInts? s
  if l.any (· < 0) then none else pure (l.map Int.toNat)

def parseJac? (s : String) : Option JacPoint :=
  match s.splitOn ":" with
  | [x, y, z] => do pure (← parseInt? x, ← parseInt? y, ← parseInt? z)
  | _ => none

def parseAff? (s : String) : Option Point :=
  match s.splitOn ":" with
  | [x, y] => do pure (← parseInt? x, ← parseInt? y)
  | _ => none

def parseList? {γ : Type} (f : String → Option γ) (s : String) : Option (List γ) :=
  if s == "_" then some [] else (s.splitOn ",").mapM f

def renderInts (l : List Int) : String := if l.isEmpty then "ok _" else "ok " ++ ",".intercalate (l.map toString)

def rJ (r : Option JacPoint) : String :=
  match r with | some Q => renderJac Q | none => "err value"

def rA (r : Option Point) : String :=
  match r with | some Q => s!"ok {Q.1} {Q.2}" | none => "err value"

def rI (r : Option Int) : String := match r with | some x => s!"ok {x}" | none => "err value"

/-- single-scalar ladders: `lad.<name> C w m X:Y:Z extra` -/
def ladder (name : String) (c : Curve) (w : Nat) (m : Int) (Q : JacPoint) (extra : Int) : String :=
  let g := c.toCurveGroup
  let o := ecOps g
  let ctx := ctxOf c
  if m < 0 then "err value" else
  let m := m.toNat
  let needW := ["fw", "fwc", "fwpos", "reg", "fb", "slide", "wnaf"].contains name
  if needW && w = 0 then "err value" else
  match name with
  | "rec" => rJ (some (multRecursiveJac o m Q))
  | "jacvar" => rJ (some (multJacVar o m Q))
  | "mont" => rJ (some (multMontLadder o m Q))
  | "base3" => rJ (some (multBase3 o m Q))
  | "fw" => rJ (some (multFixedWindow o m Q w))
  | "fwc" => rJ (some (multFixedWindowCached o Gen.Curves.MAX_W m Q w))
  | "fwpos" =>
    match multFixedWindowCachedPos o ((bitLength g.p.toNat + 7) / 8) m Q w with
    | some r => renderJac r | none => "err foreign"
  | "reg" => rJ (multRegularWindow o ctx.scalarLen m Q w)
  | "mult" => rJ (multRegularWindow o ctx.scalarLen m Q Gen.Curves.MULT_W)
  | "fb" => rJ (multFixedBase o ctx.scalarLen extra m Q w)
  | "slide" => rJ (some (multSlidingWindow o m Q w))
  | "wnaf" => rJ (some (multWNAF o m Q w))
  | "endo" => if w = 0 then "err value" else rJ (multEndomorphism o ctx.halfLen m Q w)
  | "endovar" => rJ (multEndomorphismVar o ctx.isFixed ctx.fixedW m Q w)
  | _ => "bad-op"

def c01Op : List String → Option String
  | ["lad", name, c, w, m, q, extra] => do
    let c ← curveOfToken c
    pure (ladder name c (← parseInt? w).toNat (← parseInt? m) (← parseJac? q) (← parseInt? extra))
  | ["lad.dmult", c, u, h, v, q] => do
    let c ← curveOfToken c
    let (u, v) := (← parseInt? u, ← parseInt? v)
    if u < 0 ∨ v < 0 then pure "err value" else
    pure (rJ (some (doubleMultVar (ecOps c.toCurveGroup) u.toNat (← parseJac? h) v.toNat (← parseJac? q))))
  | ["lad.dreg", c, w, slen, u, h, v, q] => do
    let c ← curveOfToken c
    let (u, v, w, slen) := (← parseInt? u, ← parseInt? v, ← parseInt? w, ← parseInt? slen)
    if u < 0 ∨ v < 0 ∨ w ≤ 0 then pure "err value" else
    let sl := if slen = 0 then (ctxOf c).scalarLen else slen.toNat
    pure (rJ (doubleMultRegularWindow (ecOps c.toCurveGroup) sl u.toNat (← parseJac? h) v.toNat (← parseJac? q) w.toNat))
  | ["lad.dwnaf", c, w, u, h, v, q] => do
    let c ← curveOfToken c
    let ctx := ctxOf c
    let (u, v, w) := (← parseInt? u, ← parseInt? v, ← parseInt? w)
    if u < 0 ∨ v < 0 ∨ w ≤ 0 then pure "err value" else
    pure (rJ (multiMultWNAF ctx.o ctx.isFixed ctx.fixedW [u.toNat, v.toNat] [← parseJac? h, ← parseJac? q] w.toNat))
  | ["lad.dendo", c, w, u, h, v, q] => do
    let c ← curveOfToken c
    let ctx := ctxOf c
    let (u, v, w) := (← parseInt? u, ← parseInt? v, ← parseInt? w)
    if u < 0 ∨ v < 0 then pure "err value" else
    pure (rJ (doubleMultEndomorphismVar ctx.o ctx.isFixed ctx.eqJac ctx.fixedW u.toNat (← parseJac? h) v.toNat (← parseJac? q) w.toNat))
  | ["lad.mwnaf", c, w, ss, ps] => do
    let c ← curveOfToken c
    let ctx := ctxOf c
    let w ← parseInt? w
    let ss ← parseInts? ss
    let ps ← parseList? parseJac? ps
    if w ≤ 0 then pure "err value" else
    if ss.length = ps.length ∧ ss.length ≥ 2 ∧ ss.any (· < 0) then pure "err value" else
    pure (rJ (multiMultWNAF ctx.o ctx.isFixed ctx.fixedW (ss.map Int.toNat) ps w.toNat))
  | ["lad.mbc", c, ss, ps] => do
    let c ← curveOfToken c
    let ctx := ctxOf c
    let ss ← parseInts? ss
    let ps ← parseList? parseJac? ps
    if ss.length = ps.length ∧ ss.length ≥ 2 ∧ ss.any (· < 0) then pure "err value" else
    pure (rJ (multiMultBosCoster ctx.o ctx.sel ctx.scalarLen ctx.multW (ss.map Int.toNat) ps))
  | ["lad.mmv", c, thr, ss, ps] => do
    let c ← curveOfToken c
    let ctx := ctxOf c
    let ss ← parseInts? ss
    let ps ← parseList? parseJac? ps
    let thr ← parseInt? thr
    if ss.length = ps.length ∧ ss.length ≥ 2 ∧ ss.any (· < 0) then pure "err value" else
    pure (rJ (multiMultVar ctx.o ctx.sel ctx.isFixed ctx.fixedW ctx.scalarLen ctx.multW ctx.multiW thr.toNat
      (ss.map Int.toNat) ps))
  -- recodings
  | ["rec.sod", m, w, size] => do
    let (m, w, size) := (← parseInt? m, ← parseInt? w, ← parseInt? size)
    if w ≤ 0 ∨ size < 1 then pure "err value" else
    pure (match signedOddDigits m w.toNat size.toNat with | some l => renderInts l | none => "err value")
  | ["rec.wnaf", m, w] => do
    let (m, w) := (← parseInt? m, ← parseInt? w)
    pure (renderInts (wnaf w.toNat m.toNat))
  | ["rec.mods", m, w] => do pure s!"ok {mods (← parseInt? m) (← parseInt? w).toNat}"
  | ["rec.base", m, b] => do
    pure (renderInts ((toBase (← parseInt? b).toNat (← parseInt? m).toNat).map Int.ofNat))
  | ["rec.glv", m] => do let r := multiplierDecomposer (← parseInt? m); pure s!"ok {r.1} {r.2}"
  -- entry points (Python path)
  | ["curve.mult", c, lam, m, q] => do
    pure (rA (multEntry (ctxOf (← curveOfToken c)) (← parseInt? lam) (← parseInt? m) (← parseAff? q)))
  | ["curve.prepared", c, lam, m, q] => do
    pure (rA (preparedMult (ctxOf (← curveOfToken c)) (← parseInt? lam) (← parseAff? q) (← parseInt? m)))
  | ["curve.dmult", c, u, h, v, q] => do
    pure (rA (doubleMultEntry (ctxOf (← curveOfToken c)) (← parseInt? u) (← parseAff? h) (← parseInt? v) (← parseAff? q)))
  | ["curve.mmult", c, ss, ps] => do
    pure (rA (multiMultEntry (ctxOf (← curveOfToken c)) (← parseInts? ss) (← parseList? parseAff? ps)))
  | ["curve.sum", c, ps] => do
    pure (rA (sumEntry (ctxOf (← curveOfToken c)) (← parseList? parseAff? ps)))
  | ["curve.tweak", c, lam, p, t] => do
    pure (rA (tweakAddEntry (ctxOf (← curveOfToken c)) (← parseInt? lam) (← parseAff? p) (← parseInt? t)))
  | ["curve.delegates", kind, serves, ms, infs] => do
    let ms ← parseNats? ms
    let infs : List Bool := (← parseInts? infs).map (fun x => decide (x ≠ 0))
    let sv := serves == "1"
    match kind, ms, infs with
    | "mult", [m], [isG, isInf] => pure (toString (multDelegates sv m isG isInf))
    | "dmult", [u, v], [hi, qi] => pure (toString (doubleMultDelegates sv u v hi qi))
    | "mmult", ms, infs => pure (toString (multiMultDelegates sv ms infs))
    | _, _, _ => none
  | ["curve.newgroup", p, a, b] => do
    pure (match newCurveGroup (← parseInt? p) (← parseInt? a) (← parseInt? b) with
          | .ok _ => "ok" | .error e => s!"err value {e.name}")
  | ["curve.new", p, a, b, gx, gy, n, h, weak, ord] => do
    pure (match newCurve (← parseInt? p) (← parseInt? a) (← parseInt? b) (← parseInt? gx) (← parseInt? gy)
            (← parseInt? n) (← parseInt? h) (weak == "1") (ord == "1") with
          | .ok _ => "ok" | .error e => s!"err value {e.name}")
  -- SEC 1 codec
  | ["sec.dec", c, hyb, hex] => do
    let c ← curveOfToken c
    let b ← if hex == "_" then some [] else fromHex? hex
    pure (match pointFromOctets c.toCurveGroup (pSizeOf c.toCurveGroup) (hyb == "1") b with
          | .ok Q => s!"ok {Q.1} {Q.2}" | .error e => s!"err value {e.name}")
  | ["sec.enc", c, comp, q] => do
    let c ← curveOfToken c
    pure (match bytesFromPoint c.toCurveGroup (pSizeOf c.toCurveGroup) (← parseAff? q) (comp == "1") with
          | some b => s!"ok {toHex b}" | none => "err value")
  -- number theory
  | ["nt.xgcd", a, b] => do let r := NT.xgcdVar (← parseInt? a) (← parseInt? b); pure s!"ok {r.1} {r.2.1} {r.2.2}"
  | ["nt.invblind", a, m, b] => do pure (rI (NT.modInvBlind (← parseInt? a) (← parseInt? m) (← parseInt? b)))
  | ["nt.invbatch", m, as] => do
    pure (match NT.modInvBatchVar (← parseInts? as) (← parseInt? m) with | some l => renderInts l | none => "err value")
  | ["nt.invbatchblind", m, as, bs] => do
    pure (match NT.modInvBatchBlind (← parseInts? as) (← parseInts? bs) (← parseInt? m) with
          | some l => renderInts l | none => "err value")
  | ["nt.jacobi", a, p] => do pure (rI (NT.legendreSymbolVar (← parseInt? a) (← parseInt? p)))
  | ["nt.sqrt", a, p] => do pure (rI (NT.modSqrtVar (← parseInt? a) (← parseInt? p)))
  | ["nt.tonelli", a, p] => do pure (rI (NT.tonelliVar (← parseInt? a) (← parseInt? p)))
  | ["nt.isprime", x] => do pure (toString (isPrimeFermat (← parseInt? x)))
  | _ => none

end Btc.C01
