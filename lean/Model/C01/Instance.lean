import Model.C01.Ladders
/-
The executable instance of `JacOps`: btclib's `CurveGroup` arithmetic as transcribed in
`Model/Common/EC.lean` (tied to the real `add_jac`, `add_jac_aff`, `double_jac`, `negate(_jac)`,
`aff_from_jac_var` by the `jac.*` correspondence streams; proved to be the group law in
`Proofs/C01/JacRefine.lean`).
-/
namespace Btc.C01
open Btc.EC

/-- `_blinded_jac(Q, ec)` with `lam` explicit -/
def blindedJac (c : CurveGroup) (lam : Int) (Q : JacPoint) : JacPoint :=
  let p := c.p
  let lam2 := lam * lam % p
  (Q.1 * lam2 % p, Q.2.1 * lam2 % p * lam % p, Q.2.2 * lam % p)

/-- `K = ((Q[0] * _BETA) % ec.p), Q[1], Q[2]` -/
def endoJac (c : CurveGroup) (Q : JacPoint) : JacPoint := (Q.1 * Gen.Curves.glv_BETA % c.p, Q.2.1, Q.2.2)

def ecOps (c : CurveGroup) : JacOps JacPoint Point where
  zero := INFJ
  zeroAff := INF
  add := addJac c
  addAff := addJacAff c
  dbl := doubleJac c
  neg := negateJac c
  negAff := negate c
  jacFromAff := jacFromAff
  toAff Q := (affFromJac c Q).getD INF
  rescale := blindedJac c
  endo := endoJac c

/-- lexicographic `<` on Jacobian triples (Python tuple comparison) -/
def jacLt (P Q : JacPoint) : Bool :=
  if P.1 ≠ Q.1 then P.1 < Q.1 else if P.2.1 ≠ Q.2.1 then P.2.1 < Q.2.1 else P.2.2 < Q.2.2

/-- `heapq.heappop` on `(-n, PJ)` tuples returns the least tuple: largest `n`, then least point -/
def heapBefore (x y : Nat × JacPoint) : Bool := x.1 > y.1 || (x.1 == y.1 && jacLt x.2 y.2)

def removeFirst (x : Nat × JacPoint) : List (Nat × JacPoint) → List (Nat × JacPoint)
  | [] => []
  | y :: ys => if y = x then ys else y :: removeFirst x ys

/-- the heap of `_multi_mult_bos_coster_var`, as a selection function -/
def heapSelect : Select JacPoint
  | [] => none
  | x :: xs =>
    let best := xs.foldl (fun b y => if heapBefore y b then y else b) x
    some (best, removeFirst best (x :: xs))

end Btc.C01
