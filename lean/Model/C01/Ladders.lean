import Model.Common.EC
/-
C01 model, part (a): every scalar-multiplication algorithm of `btclib/curves/curve_group.py` and
`curve_group_2.py`, written ONCE, generically over a structure `JacOps α β` of Jacobian operations
(α = Jacobian points, β = affine points).  The driver instantiates it with `Btc.C01.ecOps c`
(`Model/C01/Instance.lean`: the shared transcription of `add_jac`, `add_jac_aff`, `double_jac`, …) and is
compared with the real private functions op by op (Jacobian triples, exactly); the theorems
(`Proofs/C01/Ladders.lean`, `Props/C01.lean`) are proved about THE SAME definitions under the hypothesis
that the operations represent an additive commutative group (`JacRel`).

Loops are rendered as structural recursions that perform the same operations in the same order as the
Python loops (so the Jacobian representative is the same, not just the point).
Core Lean only.
-/
namespace Btc.C01

/-- the operations of `CurveGroup` a multiplication is built from -/
structure JacOps (α β : Type) where
  /-- `INFJ` -/
  zero : α
  /-- `INF` -/
  zeroAff : β
  /-- `ec.add_jac` -/
  add : α → α → α
  /-- `ec.add_jac_aff` -/
  addAff : α → β → α
  /-- `ec.double_jac` -/
  dbl : α → α
  /-- `ec.negate_jac` -/
  neg : α → α
  /-- `ec.negate` -/
  negAff : β → β
  /-- `_jac_from_aff` -/
  jacFromAff : β → α
  /-- `ec.aff_from_jac_var` (and, pointwise, `aff_from_jac_batch_var`) -/
  toAff : α → β
  /-- `_blinded_jac` with the random `lam` as an explicit argument -/
  rescale : Int → α → α
  /-- secp256k1's endomorphism `(X, Y, Z) ↦ (β·X mod p, Y, Z)` -/
  endo : α → α

variable {α β : Type} (o : JacOps α β)

/-- `for _ in range(w): R = ec.double_jac(R)` -/
def dblN : Nat → α → α
  | 0, x => x
  | k + 1, x => dblN k (o.dbl x)

/-! ## integer recodings (plain integer functions) -/

/-- least-significant-first base-`b` digits of `m` (empty for 0) -/
def digitsLE (b : Nat) (m : Nat) : List Nat :=
  if h : m = 0 ∨ b < 2 then [] else (m % b) :: digitsLE b (m / b)
termination_by m
decreasing_by exact Nat.div_lt_self (by omega) (by omega)

/-- `_convert_number_to_base(i, base)`: most significant first, `[0]` for 0.  Also `f"{m:b}"` for base 2. -/
def toBase (b m : Nat) : List Nat := if m = 0 then [0] else (digitsLE b m).reverse

/-- value of a most-significant-first digit list, continuing from `k` -/
def evalMSB (b : Nat) (k : Nat) (ds : List Nat) : Nat := ds.foldl (fun k d => k * b + d) k

/-- `_mods(m, w)` -/
def mods (m : Int) (w : Nat) : Int :=
  let w2 : Int := 2 ^ w
  let M := m % w2
  if w2 / 2 ≤ M then M - w2 else M

/-- `_wNAF_of_m(m, w)` (least significant first); fuel = `m` is always enough for `w ≥ 1`. -/
def wnafAux (w : Nat) : Nat → Nat → List Int
  | 0, _ => []
  | fuel + 1, m =>
    if m = 0 then []
    else if m % 2 = 1 then
      let d : Int := if w = 1 then 2 - ((m : Int) % 4) else mods m w
      d :: wnafAux w fuel (((m : Int) - d) / 2).toNat
    else 0 :: wnafAux w fuel (m / 2)

def wnaf (w : Nat) (m : Nat) : List Int := wnafAux w m m

/-- value of a least-significant-first signed digit list in base `2^w` -/
def evalLE (w : Nat) : List Int → Int
  | [] => 0
  | d :: ds => d + 2 ^ w * evalLE w ds

/-- the loop of `signed_odd_digits`: `k` reduced digits, then what is left -/
def sodLoop (w : Nat) : Nat → Int → List Int
  | 0, m => [m]
  | k + 1, m =>
    let d := m % (2 * 2 ^ w) - 2 ^ w
    d :: sodLoop w k ((m - d) / 2 ^ w)

/-- `signed_odd_digits(m, w, size)`; `none` = BTClibValueError -/
def signedOddDigits (m : Int) (w : Nat) (size : Nat) : Option (List Int) :=
  if m < 0 then none
  else if w = 0 then none
  else if m % 2 = 0 then none
  else if size < 1 then none
  else if m / 2 ^ (w * size) ≠ 0 then none
  else some (sodLoop w (size - 1) m)

/-- `m | 1`: `m` for an odd `m`, `m + 1` for an even one -/
def orOne (m : Nat) : Nat := if m % 2 = 0 then m + 1 else m

/-- `ceil(a / w)` for naturals -/
def ceilDiv (a w : Nat) : Nat := (a + w - 1) / w

/-- `int.bit_length()` -/
def bitLength (m : Nat) : Nat := Nat.log2 m + (if m = 0 then 0 else 1)

/-! ## tables -/

/-- body of `_multiples` / `_cached_multiples`: `n` iterations each appending `2·T[len/2]` and that plus `Q` -/
def multiplesLoop (Q : α) : Nat → List α → List α
  | 0, T => T
  | n + 1, T =>
    let D := o.dbl (T.getD (T.length / 2) o.zero)
    multiplesLoop Q n (T ++ [D, o.add D Q])

/-- `_multiples(Q, size, ec)` : `[0·Q, 1·Q, …, (size-1)·Q]` -/
def multiples (Q : α) (size : Nat) : List α :=
  let T := multiplesLoop o Q (size / 2 - 1) [o.zero, Q]
  if size % 2 = 1 then T ++ [o.dbl (T.getD ((size - 1) / 2) o.zero)] else T

/-- tail of `_odd_multiples`: `n` more entries, each the previous plus `Q2` -/
def oddMultLoop (Q2 : α) : Nat → α → List α
  | 0, _ => []
  | n + 1, last => let nx := o.add last Q2; nx :: oddMultLoop Q2 n nx

/-- `_odd_multiples(Q, ec, w)` : `[1·Q, 3·Q, …, (2^(w-1) - 1)·Q]` -/
def oddMultiples (Q : α) (w : Nat) : List α :=
  Q :: (if w > 2 then oddMultLoop o (o.dbl Q) (2 ^ (w - 2) - 1) Q else [])

/-- `_odd_multiples_aff` -/
def oddMultiplesAff (Q : α) (w : Nat) : List β := (oddMultiples o Q w).map o.toAff

/-- `_signed_odd_multiples_aff(Q, ec, w)` : entry `j` is `(2j + 1 - 2^w)·Q` -/
def signedOddMultiplesAff (Q : α) (w : Nat) : List β :=
  let T := oddMultiplesAff o Q (w + 1)
  T.reverse.map o.negAff ++ T

/-- table index of a signed odd digit: `T[(d + offset) // 2]`, `offset = 2^w - 1` -/
def sodPick (w : Nat) (T : List β) (d : Int) : β := T.getD ((d + (2 ^ w - 1)) / 2).toNat o.zeroAff

/-- table index of a wNAF digit into `_odd_multiples_aff`: `T[(d-1)//2]` or `negate(T[(-d-1)//2])` -/
def nafPickAff (T : List β) (d : Int) : β :=
  if d > 0 then T.getD ((d - 1) / 2).toNat o.zeroAff else o.negAff (T.getD ((-d - 1) / 2).toNat o.zeroAff)

/-! ## single-scalar multiplications -/

/-- `_mult_recursive_jac_var` -/
def multRecursiveJac (m : Nat) (Q : α) : α :=
  if h : m = 0 then o.zero
  else if m % 2 = 1 then o.add Q (multRecursiveJac (m - 1) Q)
  else multRecursiveJac (m / 2) (o.dbl Q)
termination_by m
decreasing_by all_goals omega

/-- loop of `_mult_jac_var` after the first bit -/
def multJacLoop (m : Nat) (Q : α) (R0 : α) : α :=
  if h : m = 0 then R0
  else
    let Q' := o.dbl Q
    let S := o.add R0 Q'
    multJacLoop (m / 2) Q' (if m % 2 = 1 then S else R0)
termination_by m
decreasing_by omega

/-- `_mult_jac_var` -/
def multJacVar (m : Nat) (Q : α) : α :=
  multJacLoop o (m / 2) Q (if m % 2 = 1 then Q else o.zero)

/-- `_mult_mont_ladder_var` -/
def multMontLadder (m : Nat) (Q : α) : α :=
  ((toBase 2 m).foldl (fun (R : α × α) i =>
    if i = 0 then (o.dbl R.1, o.add R.1 R.2) else (o.add R.2 R.1, o.dbl R.2)) (o.zero, Q)).1

/-- `_mult_base_3_var` -/
def multBase3 (m : Nat) (Q : α) : α :=
  let T := [o.zero, Q, o.dbl Q]
  match toBase 3 m with
  | [] => o.zero
  | d0 :: ds => ds.foldl (fun R i => let R2 := o.dbl R; let R3 := o.add R2 R; o.add R3 (T.getD i o.zero))
      (T.getD d0 o.zero)

/-- the shared loop of the fixed-window variants -/
def fixedWindowLoop (w : Nat) (T : List α) (m : Nat) : α :=
  match toBase (2 ^ w) m with
  | [] => o.zero
  | d0 :: ds => ds.foldl (fun R i => o.add (dblN o w R) (T.getD i o.zero)) (T.getD d0 o.zero)

/-- `_mult_fixed_window_var(m, Q, ec, w, cached=False)` -/
def multFixedWindow (m : Nat) (Q : α) (w : Nat) : α := fixedWindowLoop o w (multiples o Q (2 ^ w)) m

/-- `_cached_multiples(Q, ec)` : multiples `0 .. 2^maxW - 1` -/
def cachedMultiples (maxW : Nat) (Q : α) : List α := multiplesLoop o Q (2 ^ maxW / 2 - 1) [o.zero, Q]

/-- `_mult_fixed_window_var(m, Q, ec, w, cached=True)` (`w ≤ MAX_W`, else Python indexes out of range) -/
def multFixedWindowCached (maxW : Nat) (m : Nat) (Q : α) (w : Nat) : α :=
  fixedWindowLoop o w (cachedMultiples o maxW Q) m

/-- `_cached_multiples_fixwind(Q, ec, w)` : `positions` tables, table `i` of `2^(w·i)·Q` -/
def fixwindTables (w : Nat) : Nat → α → List (List α)
  | 0, _ => []
  | n + 1, K =>
    let sub := multiplesLoop o K (2 ^ w / 2 - 1) [o.zero, K]
    sub :: fixwindTables w n (o.dbl (sub.getD (2 ^ (w - 1)) o.zero))

/-- `_mult_fixed_window_cached_var`; `none` = the scalar has more digits than tables (IndexError) -/
def multFixedWindowCachedPos (pSize : Nat) (m : Nat) (Q : α) (w : Nat) : Option α :=
  let T := fixwindTables o w ((pSize * 8) / w + 1) Q
  let digits := toBase (2 ^ w) m
  if digits.length > T.length then none else
  -- digit `i` (most significant first) uses table `len - 1 - i`
  match digits with
  | [] => some o.zero
  | d0 :: ds =>
    let pick := fun (k : Nat) (d : Nat) => (T.getD k []).getD d o.zero
    some ((ds.foldl (fun (st : α × Nat) d => (o.add st.1 (pick (st.2 - 1) d), st.2 - 1))
      (pick ds.length d0, ds.length)).1)

/-- the window loop of `_mult_regular_window` on least-significant-first digits -/
def regLoop (w : Nat) (T : List β) : List Int → α
  | [] => o.zero
  | [d] => o.jacFromAff (sodPick o w T d)
  | d :: ds => o.addAff (dblN o w (regLoop w T ds)) (sodPick o w T d)

/-- `_mult_regular_window(m, Q, ec, w)` (= `_mult` at `w = _MULT_W`); `scalarLen = ec.scalar_len` -/
def multRegularWindow (scalarLen : Nat) (m : Nat) (Q : α) (w : Nat) : Option α :=
  if w = 0 then none else
  let size := ceilDiv (max scalarLen (bitLength m)) w
  match signedOddDigits ((orOne m : Nat) : Int) w size with
  | none => none
  | some digits =>
    let T := signedOddMultiplesAff o Q w
    let R := regLoop o w T digits
    some (o.add R (if m % 2 = 0 then o.neg Q else o.zero))

/-- `_cached_fixed_base_multiples(Q, ec, w)` -/
def fixedBaseTables (w : Nat) : Nat → α → List (List β)
  | 0, _ => []
  | n + 1, K => signedOddMultiplesAff o K w :: fixedBaseTables w n (dblN o w K)

/-- the loop of `_mult_fixed_base` on least-significant-first (digit, table) pairs, `lam` the blind -/
def fixedBaseLoop (w : Nat) (lam : Int) : List (Int × List β) → α
  | [] => o.zero
  | [(d, T)] => o.rescale lam (o.jacFromAff (sodPick o w T d))
  | (d, T) :: rest => o.addAff (fixedBaseLoop w lam rest) (sodPick o w T d)

/-- `_mult_fixed_base(m, Q, ec, w)` with blind `lam` -/
def multFixedBase (scalarLen : Nat) (lam : Int) (m : Nat) (Q : α) (w : Nat) : Option α :=
  if w = 0 then none else
  let T := fixedBaseTables o w (ceilDiv scalarLen w) Q
  match signedOddDigits ((orOne m : Nat) : Int) w T.length with
  | none => none
  | some digits =>
    let R := fixedBaseLoop o w lam (digits.zip T)
    some (o.add R (if m % 2 = 0 then o.neg Q else o.zero))

/-- `_double_and_add` -/
def doubleAndAdd (Q : α) (R : α) (digits : List Nat) : α :=
  digits.foldl (fun R d => let R := o.dbl R; if d = 1 then o.add R Q else R) R

/-- `_sliding_window_table` -/
def slidingTable (Q : α) (w : Nat) : List α :=
  let P := dblN o (w - 1) Q
  P :: oddMultLoop o Q (2 ^ (w - 1) - 1) P

/-- the `while` loop of `_mult_sliding_window_var` on the remaining (most-significant-first) bits -/
def slidingLoop (Q : α) (w : Nat) (T : List α) : Nat → List Nat → α → α
  | 0, _, R => R
  | _ + 1, [], R => R
  | fuel + 1, d :: ds, R =>
    if d = 0 then slidingLoop Q w T fuel ds (o.dbl R)
    else if (d :: ds).length < w then doubleAndAdd o Q R (d :: ds)
    else
      let t := evalMSB 2 0 ((d :: ds).take w)
      let R := o.add (dblN o w R) (T.getD (t - 2 ^ (w - 1)) o.zero)
      slidingLoop Q w T fuel ((d :: ds).drop w) R

/-- `_mult_sliding_window_var` -/
def multSlidingWindow (m : Nat) (Q : α) (w : Nat) : α :=
  let digits := toBase 2 m
  slidingLoop o Q w (slidingTable o Q w) digits.length digits o.zero

/-- the right-to-left loop of `_mult_w_NAF_var` on least-significant-first digits -/
def wnafLoop (pick : Int → α) : List Int → α
  | [] => o.zero
  | d :: ds => let R := o.dbl (wnafLoop pick ds); if d ≠ 0 then o.add R (pick d) else R

/-- `_mult_w_NAF_var` -/
def multWNAF (m : Nat) (Q : α) (w : Nat) : α :=
  let odd := oddMultiples o Q w
  let T := odd ++ odd.map o.neg
  let b4 : Int := (2 ^ w / 4 : Nat)
  let pick := fun (d : Int) =>
    if d > 0 then T.getD ((d - 1) / 2).toNat o.zero
    else if w = 1 then T.getD 1 o.zero
    else T.getD (b4 - (d + 1) / 2).toNat o.zero
  wnafLoop o pick (wnaf w m)

/-! ## double and multi-scalar multiplications -/

def padLeft (n : Nat) (l : List Nat) : List Nat := List.replicate (n - l.length) 0 ++ l

/-- `_double_mult_var` (Shamir–Strauss) -/
def doubleMultVar (u : Nat) (H : α) (v : Nat) (Q : α) : α :=
  let T := [o.zero, H, Q, o.add H Q]
  let ui := toBase 2 u
  let vi := padLeft ui.length (toBase 2 v)
  let ui := padLeft vi.length ui
  match List.zipWith (fun j k => j + 2 * k) ui vi with
  | [] => o.zero
  | d0 :: ds => ds.foldl (fun R i => o.add (o.dbl R) (T.getD i o.zero)) (T.getD d0 o.zero)

/-- `_multi_mult_pairs`: `none` = refused (length mismatch / fewer than two); zero scalars dropped -/
def multiMultPairs (scalars : List Nat) (points : List α) : Option (List (Nat × α)) :=
  if scalars.length ≠ points.length then none
  else if scalars.length < 2 then none
  else some ((scalars.zip points).filter (fun np => np.1 ≠ 0))

/-- the interleaved loop of `_multi_mult_w_NAF_var` (`_additions_by_position` folded in): one doubling per
position, then the table entry of every wNAF with a non-zero digit there, in pair order -/
def interleaveLoop : Nat → List (List Int × List β) → α
  | 0, _ => o.zero
  | k + 1, ps =>
    let R := o.dbl (interleaveLoop k (ps.map fun nt => (nt.1.tail, nt.2)))
    ps.foldl (fun R nt =>
      match nt.1 with
      | [] => R
      | d :: _ => if d ≠ 0 then o.addAff R (nafPickAff o nt.2 d) else R) R

/-- `_multi_mult_w_NAF_var(scalars, jac_points, ec, w, fixed)`; `isFixed` = membership in `fixed`,
`fixedW = min(_FIXED_POINT_W, ec.scalar_len)`.  (The memoised table of a fixed point is the same function
of the point: the cache is property C20's business.) -/
def multiMultWNAF (isFixed : α → Bool) (fixedW : Nat) (scalars : List Nat) (points : List α) (w : Nat) :
    Option α :=
  if w = 0 then none else
  match multiMultPairs scalars points with
  | none => none
  | some pairs =>
    let nts := pairs.map fun np =>
      let width := if isFixed np.2 then fixedW else w
      (wnaf width np.1, oddMultiplesAff o np.2 width)
    let maxLen := nts.foldl (fun k nt => max k nt.1.length) 0
    some (interleaveLoop o maxLen nts)

/-- what the heap of Bos–Coster is asked: remove a pair (a largest one) from the collection -/
abbrev Select (α : Type) := List (Nat × α) → Option ((Nat × α) × List (Nat × α))

/-- the `while len(x) > 1` loop of `_multi_mult_bos_coster_var`; `none` = out of fuel.
Returns the last pair left. -/
def bosCosterLoop (sel : Select α) : Nat → List (Nat × α) → Option (Nat × α)
  | 0, _ => none
  | fuel + 1, xs =>
    match sel xs with
    | none => none
    | some (np1, rest) =>
      match sel rest with
      | none => some np1
      | some (np2, rest2) =>
        let q := np1.1 / np2.1
        let r := np1.1 % np2.1
        let p2 := o.add (multJacVar o q np1.2) np2.2
        let rest3 := if r > 0 then (r, np1.2) :: rest2 else rest2
        bosCosterLoop sel fuel ((np2.1, p2) :: rest3)

/-- `_multi_mult_bos_coster_var` -/
def multiMultBosCoster (sel : Select α) (scalarLen multW : Nat) (scalars : List Nat) (points : List α) :
    Option α :=
  match multiMultPairs scalars points with
  | none => none
  | some [] => some o.zero
  | some pairs =>
    match bosCosterLoop o sel ((pairs.foldl (fun s np => s + np.1) 0) + 1) pairs with
    | none => none
    | some (n1, p1) => multRegularWindow o scalarLen n1 p1 multW

/-- `_multi_mult_var`: the dispatch on the number of non-zero scalars -/
def multiMultVar (sel : Select α) (isFixed : α → Bool) (fixedW scalarLen multW multiW threshold : Nat)
    (scalars : List Nat) (points : List α) : Option α :=
  if (scalars.filter (· ≠ 0)).length < threshold then multiMultWNAF o isFixed fixedW scalars points multiW
  else multiMultBosCoster o sel scalarLen multW scalars points

/-- the two-coefficient window loop of `_double_mult_regular_window` on least-significant-first digit pairs -/
def regLoop2 (w : Nat) (TH TQ : List β) : List (Int × Int) → α
  | [] => o.zero
  | [(du, dv)] => o.addAff (o.jacFromAff (sodPick o w TH du)) (sodPick o w TQ dv)
  | (du, dv) :: ds =>
    o.addAff (o.addAff (dblN o w (regLoop2 w TH TQ ds)) (sodPick o w TH du)) (sodPick o w TQ dv)

/-- `_double_mult_regular_window(u, HJ, v, QJ, ec, w, scalar_len)` (`scalar_len or ec.scalar_len` resolved by the caller) -/
def doubleMultRegularWindow (scalarLen : Nat) (u : Nat) (H : α) (v : Nat) (Q : α) (w : Nat) : Option α :=
  if w = 0 then none else
  let bits := max scalarLen (max (bitLength u) (bitLength v))
  let size := ceilDiv bits w
  match signedOddDigits ((orOne u : Nat) : Int) w size, signedOddDigits ((orOne v : Nat) : Int) w size with
  | some us, some vs =>
    let TH := signedOddMultiplesAff o H w
    let TQ := signedOddMultiplesAff o Q w
    let R := regLoop2 o w TH TQ (us.zip vs)
    let R := o.add R (if u % 2 = 0 then o.neg H else o.zero)
    some (o.add R (if v % 2 = 0 then o.neg Q else o.zero))
  | _, _ => none

/-! ## GLV (secp256k1) -/

/-- `_multiplier_decomposer(m)` with the GENERATED constants -/
def multiplierDecomposer (m : Int) : Int × Int :=
  let N := Gen.Curves.glv_N
  let m := m % N
  let c1 := (Gen.Curves.glv_B2 * m + N / 2) / N
  let c2 := (-Gen.Curves.glv_B1 * m + N / 2) / N
  let m1 := m - c1 * Gen.Curves.glv_A1 - c2 * Gen.Curves.glv_A2
  let m2 := -c1 * Gen.Curves.glv_B1 - c2 * Gen.Curves.glv_B2
  (m1, m2)

/-- `_endomorphism_split_secp256k1(m, Q, ec)` -/
def endomorphismSplit (m : Nat) (Q : α) : Nat × α × Nat × α :=
  let (m1, m2) := multiplierDecomposer m
  let K := o.endo Q
  let P := if m1 < 0 then o.neg Q else Q
  let K := if m2 < 0 then o.neg K else K
  (m1.natAbs, P, m2.natAbs, K)

/-- `_mult_endomorphism_secp256k1(m, Q, ec, w)` -/
def multEndomorphism (halfLen : Nat) (m : Nat) (Q : α) (w : Nat) : Option α :=
  let (m1, P, m2, K) := endomorphismSplit o m Q
  doubleMultRegularWindow o halfLen m1 P m2 K w

/-- `_mult_endomorphism_secp256k1_var(m, Q, ec, w)` -/
def multEndomorphismVar (isFixed : α → Bool) (fixedW : Nat) (m : Nat) (Q : α) (w : Nat) : Option α :=
  let (m1, P, m2, K) := endomorphismSplit o m Q
  multiMultWNAF o isFixed fixedW [m1, m2] [P, K] w

/-- `_double_mult_endomorphism_secp256k1_var(u, HJ, v, QJ, ec, w, fixed)`; the images of a fixed point are
fixed too: `isFixed'` is the grown set -/
def doubleMultEndomorphismVar (isFixed : α → Bool) (eqv : α → α → Bool) (fixedW : Nat)
    (u : Nat) (H : α) (v : Nat) (Q : α) (w : Nat) : Option α :=
  let (u1, U1, u2, U2) := endomorphismSplit o u H
  let (v1, V1, v2, V2) := endomorphismSplit o v Q
  let f1 : α → Bool := fun x => isFixed x || (isFixed H && (eqv x U1 || eqv x U2))
  let f2 : α → Bool := fun x => f1 x || (f1 Q && (eqv x V1 || eqv x V2))
  multiMultWNAF o f2 fixedW [u1, u2, v1, v2] [U1, U2, V1, V2] w

end Btc.C01
