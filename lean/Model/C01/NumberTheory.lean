import Model.Common.EC
/-
C01 model, part (c): `btclib/number_theory.py`, function by function.  `mod_inv_var` (= `pow(a, -1, m)`)
and `pow(b, e, m)` are the shared `Btc.EC.modInv` / `Btc.EC.modPow`.  `none` = BTClibValueError.
-/
namespace Btc.C01.NT
open Btc.EC

/-- `xgcd_var(a, b)`: Python's floor `//`, `%` -/
def xgcdLoop : Nat → Int → Int → Int → Int → Int → Int → Int × Int × Int
  | 0, _, b, x0, _, y0, _ => (b, x0, y0)
  | fuel + 1, a, b, x0, x1, y0, y1 =>
    if a = 0 then (b, x0, y0)
    else
      let q := Int.fdiv b a
      xgcdLoop fuel (Int.fmod b a) a x1 (x0 - q * x1) y1 (y0 - q * y1)

def xgcdVar (a b : Int) : Int × Int × Int := xgcdLoop (a.natAbs + 1) a b 0 1 1 0

/-- `mod_inv_var` -/
def modInvVar (a m : Int) : Option Int := modInv a m

/-- `mod_inv(a, m)` with the blind `b` explicit (`1 ≤ b < m`, or `b = 1` when `m = 1`) -/
def modInvBlind (a m b : Int) : Option Int :=
  if m < 1 then none else
  match modInv (a * b % m) m with
  | some x => some (x * b % m)
  | none => modInv a m

/-- prefix products of `mod_inv_batch_var`: `acc[i] = a₀·…·aᵢ mod m` -/
def prefixProducts (m : Int) : Int → List Int → List Int
  | _, [] => []
  | prod, x :: xs => let p := prod * x % m; p :: prefixProducts m p xs

/-- the backward pass of Montgomery's trick on the reversed lists: `as` and `acc` reversed, `inv` the
running inverse; produces the inverses in reverse order -/
def batchBackward (m : Int) : Int → List Int → List Int → List Int
  | inv, [_], _ => [inv]
  | inv, a :: as, _ :: (accPrev :: accs) => (inv * accPrev % m) :: batchBackward m (inv * a % m) as (accPrev :: accs)
  | _, _, _ => []

/-- `mod_inv_batch_var(a, m)` -/
def modInvBatchVar (as : List Int) (m : Int) : Option (List Int) :=
  if m < 1 then none
  else if as.isEmpty then some []
  else
    let acc := prefixProducts m 1 as
    match modInv (acc.getLastD 1) m with
    | none => as.mapM (modInv · m)
    | some inv => some (batchBackward m inv as.reverse acc.reverse).reverse

/-- `mod_inv_batch(a, m)` with the blinds explicit -/
def modInvBatchBlind (as bs : List Int) (m : Int) : Option (List Int) :=
  if m < 1 then none
  else if as.isEmpty then some []
  else
    let blinded := List.zipWith (fun x b => x * b % m) as bs
    match modInvBatchVar blinded m with
    | none => (as.zip bs).mapM fun xb => modInvBlind xb.1 m xb.2
    | some invs => some (List.zipWith (fun i b => i * b % m) invs bs)

/-- number of trailing zero bits of `a > 0` and the odd part -/
def stripTwos : Nat → Nat → Nat → Nat × Nat
  | 0, a, k => (k, a)
  | fuel + 1, a, k => if a % 2 = 0 ∧ a ≠ 0 then stripTwos fuel (a / 2) (k + 1) else (k, a)

/-- the loop of `legendre_symbol_var` (binary Jacobi recursion) -/
def legendreLoop : Nat → Int → Int → Int → Int
  | 0, _, p, r => if p = 1 then r else 0
  | fuel + 1, a, p, r =>
    if a = 0 then (if p = 1 then r else 0)
    else
      let (twos, a') := stripTwos a.toNat a.toNat 0
      let a : Int := a'
      let r := if twos % 2 = 1 ∧ (p % 8 = 3 ∨ p % 8 = 5) then -r else r
      let r := if a % 4 = 3 ∧ p % 4 = 3 then -r else r
      legendreLoop fuel (p % a) a r

/-- `legendre_symbol_var(a, p)` -/
def legendreSymbolVar (a p : Int) : Option Int :=
  if p < 1 then none else some (legendreLoop (p.toNat + 2) (a % p) p 1)

/-- repeated squaring `t^(2^i)`, looking for the least `i` in `1 .. s-1` with value 1 -/
def leastI (p : Int) : Nat → Nat → Int → Option Nat
  | 0, _, _ => none
  | k + 1, i, t2i =>
    let t2i := t2i * t2i % p
    if t2i = 1 then some i else leastI p k (i + 1) t2i

/-- main loop of `tonelli_var` -/
def tonelliLoop (p : Int) : Nat → Nat → Int → Int → Int → Option Int
  | 0, _, _, _, _ => none
  | fuel + 1, s, c, r, t =>
    if t = 1 then some r
    else
      match leastI p (s - 1) 1 t with
      | none => none
      | some i =>
        let b := modPow c (2 ^ (s - i - 1)) p
        let r := r * b % p
        let c := b * b % p
        let t := t * c % p
        tonelliLoop p fuel i c r t

/-- first `z ≥ 2` with `legendre_symbol_var(z, p) = -1` -/
def findNonResidue (p : Int) : Nat → Int → Option Int
  | 0, _ => none
  | fuel + 1, z => if legendreSymbolVar z p = some (-1) then some z else findNonResidue p fuel (z + 1)

/-- `tonelli_var(a, p)`; `none` = BTClibValueError (or, for a composite `p`, a loop that never ends) -/
def tonelliVar (a p : Int) : Option Int :=
  if p < 1 then none else
  let a := a % p
  if a = 0 ∨ p = 2 then some a
  else if legendreSymbolVar a p ≠ some 1 then none
  else
    let (s, q) := stripTwos (p - 1).toNat (p - 1).toNat 0
    if s = 1 then some (modPow a ((p + 1) / 4).toNat p)
    else
      match findNonResidue p p.toNat 2 with
      | none => none
      | some z =>
        let c := modPow z q p
        let r := modPow a ((q + 1) / 2) p
        let t := modPow a q p
        tonelliLoop p (s + 1) s c r t

/-- `mod_sqrt_var(a, p)` -/
def modSqrtVar (a p : Int) : Option Int :=
  if p < 1 then none else
  let a := a % p
  if p % 4 = 3 then
    let r := modPow a ((p.toNat / 4) + 1) p
    if r * r % p = a then some r else none
  else if p % 8 = 5 then
    let r := modPow a ((p.toNat / 8) + 1) p
    if r * r % p = a then some r
    else
      let r := r * modPow 2 (p.toNat / 4) p % p
      if r * r % p = a then some r else none
  else tonelliVar a p

end Btc.C01.NT
