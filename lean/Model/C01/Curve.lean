import Model.C01.Instance
/-
C01 model, part (d): the public entry points of `btclib/curves/curve.py` on the pure-Python path
(`mult`, `_mult_checked`, `PreparedPoint.mult`, `double_mult_var`, `multi_mult_var`, `_sum_var`,
`_tweak_add_var`) generically over a curve context, the libsecp256k1 delegation guards, and the
constructor checks of `CurveGroup.__init__` / `Curve.__init__` in the code's order.
-/
namespace Btc.C01
open Btc.EC

/-- what an entry point reads off `ec` -/
structure CurveCtx (α β : Type) where
  o : JacOps α β
  /-- `ec.n` -/
  n : Nat
  /-- `ec.G`, `ec.GJ` -/
  G : β
  GJ : α
  /-- `==` on affine points -/
  eqAff : β → β → Bool
  /-- `Q[1] == 0` -/
  isInf : β → Bool
  /-- `ec.is_on_curve(Q)`: `none` = raises (y outside 1..p-1) -/
  onCurve : β → Option Bool
  /-- `ec == secp256k1` -/
  isSecp : Bool
  /-- `ec.scalar_len` -/
  scalarLen : Nat
  /-- membership in `ec._fixed_points`, `==` on Jacobian triples -/
  isFixed : α → Bool
  eqJac : α → α → Bool
  /-- `ec.add_aff_var`; `none` = an inverse did not exist -/
  addAffVar : β → β → Option β
  /-- the heap order of Bos–Coster -/
  sel : Select α
  /-- window constants (generated) -/
  multW : Nat
  multiW : Nat
  fixedPointW : Nat
  fixedBaseW : Nat
  endoW : Nat
  doubleW : Nat
  halfLen : Nat
  threshold : Nat

variable {α β : Type} (c : CurveCtx α β)

/-- `ec.require_on_curve(Q)`: `true` = passes, `false` = BTClibValueError -/
def CurveCtx.requireOnCurve (Q : β) : Bool := c.onCurve Q == some true

def CurveCtx.fixedW : Nat := min c.fixedPointW c.scalarLen

/-- `_mult_checked(m, Q, ec, prepared)` on the Python path (`m` already reduced); `lam` = the blind -/
def multChecked (lam : Int) (m : Nat) (Q : β) (prepared : Bool) : Option β :=
  if c.eqAff Q c.G then
    (multFixedBase c.o c.scalarLen lam m c.GJ c.fixedBaseW).map c.o.toAff
  else
    let QJ := c.o.jacFromAff Q
    if prepared then (multFixedBase c.o c.scalarLen lam m QJ c.fixedBaseW).map c.o.toAff
    else
      let QJ := c.o.rescale lam QJ
      let R := if c.isSecp then multEndomorphism c.o c.halfLen m QJ c.endoW
               else multRegularWindow c.o c.scalarLen m QJ c.multW
      R.map c.o.toAff

/-- `mult(m_int, Q, ec)` (`Q = None` is `Q = ec.G`) -/
def multEntry (lam : Int) (m : Int) (Q : β) : Option β :=
  let m := (m % (c.n : Int)).toNat
  if !c.eqAff Q c.G && !c.requireOnCurve Q then none
  else multChecked c lam m Q false

/-- `PreparedPoint(point, ec).mult(m_int)` -/
def preparedMult (lam : Int) (point : β) (m : Int) : Option β :=
  if !c.requireOnCurve point then none
  else if c.isInf point then none
  else multChecked c lam (m % (c.n : Int)).toNat point true

/-- `_double_mult_python` -/
def doubleMultPython (u : Nat) (H : α) (v : Nat) (Q : α) : Option α :=
  if c.isSecp then doubleMultEndomorphismVar c.o c.isFixed c.eqJac c.fixedW u H v Q c.endoW
  else multiMultWNAF c.o c.isFixed c.fixedW [u, v] [H, Q] c.doubleW

/-- `double_mult_var(u, H, v, Q, ec)` on the Python path -/
def doubleMultEntry (u : Int) (H : β) (v : Int) (Q : β) : Option β :=
  if !c.requireOnCurve H then none
  else if !c.requireOnCurve Q then none
  else
    let u := (u % (c.n : Int)).toNat
    let v := (v % (c.n : Int)).toNat
    (doubleMultPython c u (c.o.jacFromAff H) v (c.o.jacFromAff Q)).map c.o.toAff

/-- `multi_mult_var(scalars, points, ec)` on the Python path -/
def multiMultEntry (scalars : List Int) (points : List β) : Option β :=
  if scalars.length ≠ points.length then none
  else if !points.all c.requireOnCurve then none
  else
    let ints := scalars.map fun s => (s % (c.n : Int)).toNat
    (multiMultVar c.o c.sel c.isFixed c.fixedW c.scalarLen c.multW c.multiW c.threshold ints
      (points.map c.o.jacFromAff)).map c.o.toAff

/-- `_sum_var(points, ec)` on the Python path -/
def sumEntry (points : List β) : Option β :=
  if !points.all c.requireOnCurve then none
  else points.foldl (fun acc Q => acc.bind fun t => c.addAffVar t Q) (some c.o.zeroAff)

/-- `_tweak_add_var(P, t, ec)` on the Python path -/
def tweakAddEntry (lam : Int) (P : β) (t : Int) : Option β :=
  if !c.requireOnCurve P then none
  else
    match multEntry c lam (t % (c.n : Int)) c.G with
    | none => none
    | some T => if !c.requireOnCurve T then none else c.addAffVar P T

/-! ### the libsecp256k1 delegation guards (what is sent to the bindings) -/

/-- `_mult_checked`: the bindings are asked iff `m ≠ 0` and (`Q` is the generator or `Q ≠ INF`) -/
def multDelegates (serves : Bool) (m : Nat) (isG isInf : Bool) : Bool := m ≠ 0 && serves && (isG || !isInf)
/-- `double_mult_var`: `u and v and H[1] and Q[1] and serves` -/
def doubleMultDelegates (serves : Bool) (u v : Nat) (hInf qInf : Bool) : Bool :=
  u ≠ 0 && v ≠ 0 && !hInf && !qInf && serves
/-- `multi_mult_var`: more than one point, serving, and no zero scalar and no infinity -/
def multiMultDelegates (serves : Bool) (ms : List Nat) (infs : List Bool) : Bool :=
  decide (infs.length > 1) && serves && (ms.zip infs).all fun mi => mi.1 ≠ 0 && !mi.2

/-! ### the concrete context of a `Curve` -/

/-- `ec.is_on_curve(Q)` as the code stands: infinity first, then `x` in `0..p-1`, then `y` in `1..p-1`
(`none` = raises), then the equation.  (`Btc.EC.isOnCurve` is the same without the x-range refusal.) -/
def isOnCurveX (g : CurveGroup) (Q : Point) : Option Bool :=
  if Q.2 = 0 then some true
  else if ¬ (0 ≤ Q.1 ∧ Q.1 < g.p) then none
  else isOnCurve g Q

def ctxOf (c : Curve) : CurveCtx JacPoint Point where
  o := ecOps c.toCurveGroup
  n := c.n.toNat
  G := c.G
  GJ := c.GJ
  eqAff P Q := P == Q
  isInf Q := Q.2 == 0
  onCurve := isOnCurveX c.toCurveGroup
  isSecp := c == secp256k1
  scalarLen := bitLength c.n.toNat
  isFixed Q := Q == c.GJ || Q == negateJac c.toCurveGroup c.GJ
  eqJac P Q := P == Q
  addAffVar := addAff c.toCurveGroup
  sel := heapSelect
  multW := Gen.Curves.MULT_W
  multiW := Gen.Curves.MULTI_MULT_W
  fixedPointW := Gen.Curves.FIXED_POINT_W
  fixedBaseW := Gen.Curves.FIXED_BASE_W
  endoW := Gen.Curves.ENDOMORPHISM_W
  doubleW := Gen.Curves.DOUBLE_MULT_W
  halfLen := Gen.Curves.glv_HALF_LEN.toNat
  threshold := Gen.Curves.BOS_COSTER_THRESHOLD

/-! ### constructors -/

/-- `_is_prime(x)`: a Fermat base-2 test (so base-2 pseudoprimes such as 341 pass) -/
def isPrimeFermat (x : Int) : Bool := decide (x ≥ 2) && decide (x % 2 ≠ 0) && modPow 2 (x - 1).toNat x == 1

/-- which check refused the parameters (every one of them is a BTClibValueError) -/
inductive NewErr
  | pNotPrime | aNeg | aGe | bNeg | bGe | disc | genX | genY | genOff | nNotPrime | hasse | infGen | order
  | cofactor | nEqP | mov
  deriving Repr, DecidableEq

def NewErr.name : NewErr → String
  | .pNotPrime => "pprime" | .aNeg => "aneg" | .aGe => "age" | .bNeg => "bneg" | .bGe => "bge"
  | .disc => "disc" | .genX => "genx" | .genY => "geny" | .genOff => "genoff" | .nNotPrime => "nprime" | .hasse => "hasse"
  | .infGen => "infgen" | .order => "order" | .cofactor => "cofactor" | .nEqP => "neqp" | .mov => "mov"

/-- `CurveGroup.__init__(p, a, b)` -/
def newCurveGroup (p a b : Int) : Except NewErr CurveGroup :=
  if !isPrimeFermat p then .error .pNotPrime
  else if a < 0 then .error .aNeg
  else if p ≤ a then .error .aGe
  else if b < 0 then .error .bNeg
  else if p ≤ b then .error .bGe
  else if (4 * a * a * a + 27 * b * b) % p = 0 then .error .disc
  else .ok { p := p, a := a, b := b }

/-- `_assert_mov_resistant(p, n)`: `true` = an embedding degree below 100 exists -/
def movWeak (p n : Int) : Bool := (List.range 99).any fun i => modPow p (i + 1) n == 1

/-- `Curve.__init__(p, a, b, G, n, cofactor, weakness_check, order_check)` -/
def newCurve (p a b gx gy n h : Int) (weaknessCheck orderCheck : Bool) : Except NewErr Curve := do
  let g ← newCurveGroup p a b
  if gy ≠ 0 ∧ ¬ (0 ≤ gx ∧ gx < p) then .error .genX else
  match isOnCurve g (gx, gy) with
  | none => .error .genY
  | some false => .error .genOff
  | some true =>
    let c : Curve := { g with gx := gx, gy := gy, n := n, h := h }
    if !isPrimeFermat n then .error .nNotPrime else
    let delta : Int := Nat.sqrt (4 * p).toNat
    if h < 2 && !(p + 1 - delta ≤ n && n ≤ p + 1 + delta) then .error .hasse else
    if gy = 0 then .error .infGen else
    -- `_mult_jac_var(n, GJ)[2] != 0`: the Jacobian double-and-add, where `Z == 0` is infinity and nothing else
    let ordOk := !orderCheck || (multJacVar (ecOps g) n.toNat c.GJ).2.2 == 0
    if !ordOk then .error .order else
    if h ≠ (1 + delta + p) / n then .error .cofactor else
    if n = p then .error .nEqP else
    if weaknessCheck && movWeak p n then .error .mov else
    .ok c

end Btc.C01
