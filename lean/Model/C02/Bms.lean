import Generated.Ecdsa
/-
Bitcoin message signatures (`btclib/ecc/bms.py`): recovery-flag arithmetic.
`flag` is what `bms.sign` writes for an address of the given type that matches the key;
`keyIdOf`/`compressedOf` are what `bms.assert_as_valid` reads back; `accepts` is the guard of the
`_assert_<type>` helper (regenerated table `Gen.Ecdsa.BMS_GUARDS`) under `Sig.assert_valid`'s range.
-/
namespace Btc.Bms

inductive AddrType | p2pkh | p2sh | p2wpkh
  deriving DecidableEq, Repr

/-- `bms.sign`: the flag for key_id, key compression and the type of the (matching) address;
    `none` = "mismatch between private key and address" (segwit needs a compressed key) -/
def flag (keyId : Nat) (compressed : Bool) : AddrType → Option Nat
  | .p2pkh => some (keyId + 27 + (if compressed then 4 else 0))
  | .p2sh => if compressed then some (keyId + 35) else none
  | .p2wpkh => if compressed then some (keyId + 39) else none

/-- `key_id = sig.rf - 27 & 0b11` -/
def keyIdOf (rf : Nat) : Nat := (rf - 27) % 4
/-- `compressed = sig.rf > 30` -/
def compressedOf (rf : Nat) : Bool := rf > 30

def inRange (rf : Nat) : Bool := Gen.Ecdsa.BMS_RF_MIN ≤ rf && rf ≤ Gen.Ecdsa.BMS_RF_MAX

/-- does `assert_as_valid` let flag `rf` speak for an address of type `t`? -/
def accepts (t : AddrType) (rf : Nat) : Bool :=
  inRange rf &&
  match Gen.Ecdsa.BMS_GUARDS.find? (fun row => row.1 == rf) with
  | none => false
  | some (_, a, b, c) => match t with | .p2pkh => a | .p2sh => b | .p2wpkh => c

end Btc.Bms
