import Model.Common.GroupOps
/-
ECDSA over an abstract group (`btclib/ecc/dsa.py`), written once over `o : GroupOps α`:
executed by the driver with `Btc.EC.ops c`, reasoned about under `Btc.Lawful o G`.

  signRecoverable  = dsa._sign_recoverable_      (K = k·G, r = x_K mod n, s = k⁻¹(c + r q), key_id, low-s flip)
  verifyCore       = dsa._assert_as_valid_       (w = s⁻¹, u = c w, v = r w, K = v Q + u G, K ≠ ∞, r = x_K mod n)
  sigValid         = dsa.Sig.assert_valid        (ranges + "r is congruent to an x-coordinate")
  verifyFull       = dsa.verify_ on (c, Q, r, s) (refusals turned into False)
  verify           = the SEC 1 acceptance predicate the theorems speak about (ranges + equation)
  recover          = dsa._recover_pub_key_       recoverAll = dsa._recover_pub_keys_
  crack            = dsa.crack_prv_key_var_      (arithmetic part)

Exceptions are the two library classes the code raises here.
-/
namespace Btc.Ecdsa
open Btc

inductive Err | value | runtime
  deriving DecidableEq, Repr

def Err.name : Err → String
  | .value => "value" | .runtime => "runtime"

variable {α : Type} (o : GroupOps α)

/-- `key_id ^= 1` -/
def flipBit0 (k : Int) : Int := if k % 2 = 0 then k + 1 else k - 1

/-- `dsa._sign_recoverable_(c, q, nonce, lower_s, ec)` → `(r, s, key_id)` -/
def signRecoverable (c q k : Int) (lowerS : Bool) : Except Err (Int × Int × Int) :=
  let K := o.mul k o.gen
  let xK := o.x K
  let r := xK % o.n
  if r = 0 then .error .runtime else
  match EC.modInv k o.n with
  | none => .error .value
  | some ki =>
    let s := ki * (c + r * q) % o.n
    if s = 0 then .error .runtime else
    let keyId := 2 * (xK / o.n) + o.y K % 2
    if lowerS = true ∧ s > o.n / 2 then .ok (r, o.n - s, flipBit0 keyId) else .ok (r, s, keyId)

/-- `dsa._sign_` -/
def sign (c q k : Int) (lowerS : Bool) : Except Err (Int × Int) :=
  (signRecoverable o c q k lowerS).map fun t => (t.1, t.2.1)

/-- the point `K = v·Q + u·G` verification recomputes, given `w = s⁻¹` -/
def verifyPoint (c : Int) (Q : α) (r w : Int) : α :=
  o.dmul (r * w % o.n) Q (c * w % o.n) o.gen

/-- `dsa._assert_as_valid_(c, QJ, r, s, ec, fixed, lower_s=…)` -/
def verifyCore (c : Int) (Q : α) (r s : Int) (lowerS : Bool) : Except Err Unit :=
  if lowerS = true ∧ s > o.n / 2 then .error .value else
  match EC.modInv s o.n with
  | none => .error .value
  | some w =>
    let K := verifyPoint o c Q r w
    if o.isZero K then .error .runtime
    else if r ≠ o.x K % o.n then .error .runtime
    else .ok ()

/-- the loop of `Sig.assert_valid`: is some `x = r + j·n < p` an x-coordinate? -/
def congruent (isX : Int → Bool) : Nat → Int → Bool
  | 0, _ => false
  | fuel + 1, x => if x < o.p then (if isX x then true else congruent isX fuel (x + o.n)) else false

/-- `dsa.Sig.assert_valid` (`isX` = `_is_x_coordinate_var`) -/
def sigValid (isX : Int → Bool) (r s : Int) : Except Err Unit :=
  if ¬ (0 < r ∧ r < o.n) then .error .value
  else if congruent o isX (o.p / o.n + 1).toNat r = false then .error .value
  else if ¬ (0 < s ∧ s < o.n) then .error .value
  else .ok ()

/-- `dsa.verify_` once the challenge is computed and the key parsed: every refusal is `False`. -/
def verifyFull (isX : Int → Bool) (c : Int) (Q : α) (r s : Int) : Bool :=
  match sigValid o isX r s with
  | .error _ => false
  | .ok _ =>
    match verifyCore o c Q r s false with
    | .error _ => false
    | .ok _ => true

/-- SEC 1 v2 §4.1.4 as a predicate: range checks, then the equation. -/
def verify (c : Int) (Q : α) (r s : Int) : Bool :=
  decide (0 < r ∧ r < o.n) && decide (0 < s ∧ s < o.n) &&
    (match verifyCore o c Q r s false with | .ok _ => true | .error _ => false)

/-- `dsa._recover_pub_key_(key_id, c, r, s, ec, lower_s=…)`; `primeOrder` = `ec.cofactor == 1` -/
def recover (primeOrder : Bool) (keyId c r s : Int) (lowerS : Bool) : Except Err α :=
  if lowerS = true ∧ s > o.n / 2 then .error .value else
  let j := keyId / 2
  let xK0 := r + j * o.n
  if primeOrder = true ∧ ¬ (0 ≤ xK0 ∧ xK0 < o.p) then .error .value else
  let xK := if primeOrder then xK0 else xK0 % o.p
  match EC.modInv r o.n with
  | none => .error .value
  | some r1 =>
    let r1s := r1 * s % o.n
    let r1e := -r1 * c % o.n
    match o.liftX xK with
    | none => .error .value
    | some Ke =>
      let K := if keyId % 2 = 1 then o.neg Ke else Ke
      let Q := o.dmul r1s K r1e o.gen
      if o.isZero Q then .error .runtime
      else if primeOrder then .ok Q
      else match verifyCore o c Q r s false with
        | .error e => .error e
        | .ok _ => .ok Q

/-- `dsa._recover_pub_keys_`: candidates `key_id = 0 .. 2(h+1)-1`, refusals dropped -/
def recoverAll (h : Nat) (c r s : Int) (lowerS : Bool) : List α :=
  (List.range (2 * (h + 1))).filterMap fun keyId =>
    match recover o (h == 1) (keyId : Nat) c r s lowerS with
    | .ok Q => some Q
    | .error _ => none

/-- `dsa.crack_prv_key_var_` after the challenges are computed: `(q, nonce)` -/
def crack (c1 r1 s1 c2 r2 s2 : Int) : Except Err (Int × Int) :=
  if r1 ≠ r2 then .error .value
  else if s1 = s2 then .error .value
  else
    match EC.modInv (s1 - s2) o.n with
    | none => .error .value
    | some d =>
      let k := (c1 - c2) * d % o.n
      match EC.modInv r1 o.n with
      | none => .error .value
      | some ri => .ok ((s2 * k - c2) * ri % o.n, k)

/-! ## glue of the public entry points on btclib's own curves (`Btc.EC.Curve`) -/

/-- `_is_x_coordinate_var` (Python arm): `0 ≤ x < p` and the Legendre symbol of `y²(x)` is not −1
    (Euler's criterion with the shared `modPow`) -/
def isXCoord (c : EC.Curve) (x : Int) : Bool :=
  decide (0 ≤ x ∧ x < c.p) &&
    (EC.modPow (EC.y2 c.toCurveGroup x) ((c.p.toNat - 1) / 2) c.p != c.p - 1)

/-- a public key given as a tuple: `point_from_pub_key` refuses what is not on the curve or has y = 0;
    `is_on_curve` refuses (raises on) an x outside `0..p-1` (/repo d8821600) as it does a y outside `1..p-1` -/
def pubKeyOk (c : EC.Curve) (Q : EC.Point) : Bool :=
  decide (0 ≤ Q.1 ∧ Q.1 < c.p) &&
  match EC.isOnCurve c.toCurveGroup Q with
  | some true => Q.2 != 0
  | _ => false

end Btc.Ecdsa
