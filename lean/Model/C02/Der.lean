import Model.C05.VarInt
import Generated.Ecdsa
/-
DER signature codec of `btclib/ecc/dsa.py` (`Sig.parse`, `Sig.serialize`, `_deserialize_scalar`,
`_parse_der_value`).  The code writes and reads DER lengths with CompactSize (`var_bytes`), so the
model does too: the length reader is the C05 model `Btc.VarInt.parse`, the writer is the translated
source (`Gen.Ecdsa.serialize_scalar`, `Gen.Ecdsa.varBytesSerialize`).  Every refusal of the parser is
a `BTClibValueError` (`_parse_der_value` re-raises var_bytes' runtime errors as such), hence `Option`.
-/
namespace Btc.Der
open Btc

/-- `_parse_der_value` = `var_bytes.parse(stream, forbid_zero_size=True)`: `(value, rest)` -/
def parseValue (b : Bytes) : Option (Bytes × Bytes) :=
  match VarInt.parse b with
  | .error _ => none
  | .ok (len, rest) =>
    if len = 0 then none
    else if rest.length < len then none
    else some (rest.take len, rest.drop len)

/-- the two strict-mode guards of `_deserialize_scalar` on the value octets -/
def strictOk : Bytes → Bool
  | [] => true
  | [a] => a < 0x80
  | a :: b :: _ => !(a == 0 && b < 0x80) && a < 0x80

/-- `_deserialize_scalar(stream, strict)`: `(scalar, rest)` -/
def deserializeScalar (strict : Bool) (b : Bytes) : Option (Nat × Bytes) :=
  match b with
  | [] => none
  | m :: rest =>
    if m ≠ Gen.Ecdsa.derScalarTag then none else
    match parseValue rest with
    | none => none
    | some (sb, rest') =>
      if strict && !strictOk sb then none else some (ofBE sb, rest')

/-- `Sig.parse(data, check_validity=False, strict=…)` -/
def parse (strict : Bool) (b : Bytes) : Option (Nat × Nat) :=
  match b with
  | [] => none
  | m :: rest =>
    if m ≠ Gen.Ecdsa.derSigTag then none else
    match parseValue rest with
    | none => none
    | some (data, tail) =>
      match deserializeScalar strict data with
      | none => none
      | some (r, d1) =>
        match deserializeScalar strict d1 with
        | none => none
        | some (s, d2) =>
          if !d2.isEmpty then none
          else if strict && !tail.isEmpty then none
          else some (r, s)

def parseStrict (b : Bytes) : Option (Nat × Nat) := parse true b
def parseLax (b : Bytes) : Option (Nat × Nat) := parse false b

/-- `Sig.serialize(check_validity=False)`: the translated writers, composed as the method does -/
def serialize (r s : Int) : Except Py.PyErr Bytes := do
  let a ← Gen.Ecdsa.serialize_scalar r
  let b ← Gen.Ecdsa.serialize_scalar s
  let body ← Gen.Ecdsa.varBytesSerialize (a ++ b)
  pure (Gen.Ecdsa.derSigTag :: body)

end Btc.Der
