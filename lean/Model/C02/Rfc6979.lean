import Model.C02.Ecdsa
import Model.Common.Py
import Generated.Ecdsa
/-
RFC 6979 nonce (`btclib/ecc/rfc6979_nonce.py`), the challenge (bits2int), the low-R grinding loop
and the signing entry points of `dsa.py` above the core (`sign_`, `sign_recoverable_`).
HMAC is a parameter; bits2int is the *translated* `utils.int_from_bits` (`Gen.Ecdsa.int_from_bits`).
`while True` loops carry explicit fuel: `none` = fuel exhausted (the code would loop on).
-/
namespace Btc.Rfc6979
open Btc

/-- a hash function as the nonce derivation sees it: `hmac key msg`, and the digest size -/
structure HashSpec where
  hmac : Bytes → Bytes → Bytes
  hlen : Nat

/-- `ec.nlen` -/
def nlenOf (n : Int) : Int := Py.bitLength n
/-- `ec.n_size` -/
def nsizeOf (n : Int) : Nat := ((nlenOf n).toNat + 7) / 8

/-- `challenge_` once the digest has the right length: leftmost `nlen` bits, mod n -/
def challenge (n : Int) (msgHash : Bytes) : Int :=
  Gen.Ecdsa.int_from_bits msgHash (nlenOf n) % n

/-- 3.2.h.2: `while len(t) < n_size: v = hmac(k, v); t += v` → `(t, v)` -/
def fill (H : HashSpec) (nsize : Nat) (k : Bytes) : Nat → Bytes → Bytes → Bytes × Bytes
  | 0, v, t => (t, v)
  | fuel + 1, v, t =>
    if t.length < nsize then
      let v' := H.hmac k v
      fill H nsize k fuel v' (t ++ v')
    else (t, v)

/-- 3.2.h: the candidate loop -/
def loop (H : HashSpec) (n : Int) : Nat → Bytes → Bytes → Option Int
  | 0, _, _ => none
  | fuel + 1, k, v =>
    let (t, v) := fill H (nsizeOf n) k (nsizeOf n + 1) v []
    let cand := Gen.Ecdsa.int_from_bits t (nlenOf n)
    if 0 < cand ∧ cand < n then some cand
    else
      let k' := H.hmac k (v ++ [0])
      loop H n fuel k' (H.hmac k' v)

/-- `_rfc6979_nonce_(c, q, ec, hf, extra_entropy)`; `extra = []` for `None` -/
def nonce (H : HashSpec) (n c q : Int) (extra : Bytes) (fuel : Nat) : Option Int :=
  let nsize := nsizeOf n
  let bprvbm := beBytes nsize q.toNat ++ beBytes nsize c.toNat ++ extra
  let v := List.replicate H.hlen (1 : UInt8)
  let k := List.replicate H.hlen (0 : UInt8)
  let k := H.hmac k (v ++ [0] ++ bprvbm)
  let v := H.hmac k v
  let k := H.hmac k (v ++ [1] ++ bprvbm)
  let v := H.hmac k v
  loop H n fuel k v

/-- `_grind_entropy(counter)` (`None` is the empty string for the nonce derivation) -/
def grindEntropy (counter : Nat) : Bytes := if counter = 0 then [] else leBytes 32 counter

/-- `_grind_low_r(attempt, grind, ec)` over an arbitrary attempt oracle (`none` = the attempt raised
    or the fuel ran out); returns the first counter whose signature has a low r, and that signature -/
def grindFrom {σ : Type} (attempt : Nat → Option σ) (isLow : σ → Bool) : Nat → Nat → Option (Nat × σ)
  | 0, _ => none
  | fuel + 1, counter =>
    match attempt counter with
    | none => none
    | some sig => if isLow sig then some (counter, sig) else grindFrom attempt isLow fuel (counter + 1)

def grindLowR {σ : Type} (attempt : Nat → Option σ) (isLow : σ → Bool) (grind : Bool) (fuel : Nat) :
    Option (Nat × σ) :=
  if grind then grindFrom attempt isLow fuel 0 else (attempt 0).map fun s => (0, s)

section
variable {α : Type} (o : GroupOps α)

inductive Out (β : Type) | ok (v : β) | err (e : Ecdsa.Err) | fuel
  deriving Repr

/-- `scalar_from_prv_key` on an integer: 1..n-1 or BTClibValueError -/
def scalarOk (n x : Int) : Bool := decide (0 < x ∧ x < n)

/-- one deterministic attempt of `sign_`: RFC 6979 nonce with the counter's entropy, then `_sign_` -/
def attempt (H : HashSpec) (c q : Int) (lowerS : Bool) (fuel : Nat) (counter : Nat) :
    Option (Except Ecdsa.Err (Int × Int)) :=
  (nonce H o.n c q (grindEntropy counter) fuel).map fun k => Ecdsa.sign o c q k lowerS

/-- `dsa.sign_(msg_hash, q, nonce, lower_s, ec, hf, grind=…)` (no commitment), Python arm.
    The final self-check (`verify=True`) is not modelled: by completeness it never refuses. -/
def signMsg (H : HashSpec) (msgHash : Bytes) (q : Int) (k? : Option Int) (lowerS grind : Bool)
    (fuel : Nat) : Out (Int × Int) :=
  if msgHash.length ≠ H.hlen then .err .value
  else if ¬ scalarOk o.n q then .err .value
  else if grind = true ∧ k?.isSome then .err .value
  else
    let c := challenge o.n msgHash
    match k? with
    | some k =>
      if ¬ scalarOk o.n k then .err .value
      else match Ecdsa.sign o c q k lowerS with | .ok σ => .ok σ | .error e => .err e
    | none =>
      let att := fun counter => attempt o H c q lowerS fuel counter
      let isLow : Except Ecdsa.Err (Int × Int) → Bool
        | .ok σ => Gen.Ecdsa.is_low_r σ.1 (nsizeOf o.n)
        | .error _ => true   -- an attempt that raises ends the loop with that exception
      match grindLowR att isLow grind fuel with
      | none => .fuel
      | some (_, .ok σ) => .ok σ
      | some (_, .error e) => .err e

/-- `dsa.sign_recoverable_(msg_hash, q, nonce, lower_s, ec, hf)`, Python arm -/
def signRecMsg (H : HashSpec) (msgHash : Bytes) (q : Int) (k? : Option Int) (lowerS : Bool)
    (fuel : Nat) : Out (Int × Int × Int) :=
  if msgHash.length ≠ H.hlen then .err .value
  else if ¬ scalarOk o.n q then .err .value
  else
    let c := challenge o.n msgHash
    let fin := fun (k : Int) =>
      match Ecdsa.signRecoverable o c q k lowerS with | .ok σ => Out.ok σ | .error e => .err e
    match k? with
    | some k => if ¬ scalarOk o.n k then .err .value else fin k
    | none =>
      match nonce H o.n c q [] fuel with
      | none => .fuel
      | some k => fin k
end

end Btc.Rfc6979
