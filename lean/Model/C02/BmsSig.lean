import Model.C02.Rfc6979
import Model.C02.Bms
/-
Bitcoin message signatures (`btclib/ecc/bms.py`), the scheme above the flag arithmetic of Model/C02/Bms.lean:

  sign          = bms.sign(msg, prv_key, addr)          after `magic_message` (digest `mm`) and key parsing (q, compressed)
  assertAsValid = bms.assert_as_valid(msg, addr, sig)   Python arm (dsa.recover_pub_key → `_recover_pub_key_`, cofactor-1 arm)

Written over `o : GroupOps α` like the rest of the slice.  An address is what bms reads out of it: its type and the
20-octet hash it commits to (base58 / bech32 text is C06's).  The SEC serialization of a point and hash160 are the two
parameters `Env.ser`, `Env.h160` (the driver instantiates them with `Bms.secSer` and `Btc.hash160`).
-/
namespace Btc.Bms
open Btc

structure Env (α : Type) where
  /-- `bytes_from_point(Q, compressed=…)` -/
  ser : α → Bool → Bytes
  /-- `hash160` -/
  h160 : Bytes → Bytes

/-- an address as `assert_as_valid` reads it: (type, 20-octet payload) -/
abbrev Addr := AddrType × Bytes

/-- `p2pkh(pub_key)`, `p2wpkh_p2sh(pub_key)`, `p2wpkh(pub_key)`: the payload each type commits to -/
def addrOf {α : Type} (E : Env α) (t : AddrType) (pk : Bytes) : Addr :=
  match t with
  | .p2pkh => (.p2pkh, E.h160 pk)
  | .p2sh => (.p2sh, E.h160 ([0x00, 0x14] ++ E.h160 pk))
  | .p2wpkh => (.p2wpkh, E.h160 pk)

variable {α : Type} (o : GroupOps α) (E : Env α)

/-- which of the key's addresses `addr` is, in the order `bms.sign` asks (`None`: the p2pkh one) -/
def ownType (pk : Bytes) (compressed : Bool) : Option Addr → Option AddrType
  | none => some .p2pkh
  | some a =>
    if a = addrOf E .p2pkh pk then some .p2pkh
    else if compressed = true ∧ a = addrOf E .p2sh pk then some .p2sh
    else if compressed = true ∧ a = addrOf E .p2wpkh pk then some .p2wpkh
    else none

/-- `bms.sign`: `dsa.sign_recoverable(magic_msg, q)` (RFC 6979 nonce, low-s), the flag for the address, `Sig(rf, …)`'s
    own range check.  Answers `(rf, r, s)`. -/
def sign (H : Rfc6979.HashSpec) (mm : Bytes) (q : Int) (compressed : Bool) (addr : Option Addr) (fuel : Nat) :
    Rfc6979.Out (Nat × Int × Int) :=
  match Rfc6979.signRecMsg o H mm q none true fuel with
  | .err e => .err e
  | .fuel => .fuel
  | .ok (r, s, kid) =>
    let pk := E.ser (o.mul q o.gen) compressed
    match ownType E pk compressed addr with
    | none => .err .value                     -- "mismatch between private key and address"
    | some t =>
      match flag kid.toNat compressed t with
      | none => .err .value
      | some rf => if kid < 0 ∨ inRange rf = false then .err .value else .ok (rf, r, s)

/-- `bms.assert_as_valid` (Python arm) on a `Sig(rf, (r, s))`, `c` the challenge of the magic digest -/
def assertAsValid (isX : Int → Bool) (c : Int) (addr : Addr) (rf : Nat) (r s : Int) : Except Ecdsa.Err Unit :=
  if inRange rf = false then .error .value else
  match Ecdsa.sigValid o isX r s with
  | .error e => .error e
  | .ok _ =>
    match Ecdsa.recover o true ((keyIdOf rf : Nat) : Int) c r s false with
    | .error e => .error e
    | .ok Q =>
      let pk := E.ser Q (compressedOf rf)
      if accepts addr.1 rf = false then .error .value
      else if addrOf E addr.1 pk ≠ addr then .error .value
      else .ok ()

/-- `bms.verify` -/
def verify (isX : Int → Bool) (c : Int) (addr : Addr) (rf : Nat) (r s : Int) : Bool :=
  match assertAsValid o E isX c addr rf r s with
  | .ok _ => true
  | .error _ => false

/-- `bytes_from_point(Q, compressed)` on a field of `psize` octets (the driver's `Env.ser`) -/
def secSer (psize : Nat) (Q : Int × Int) (compressed : Bool) : Bytes :=
  if compressed then (if Q.2 % 2 = 0 then 0x02 else 0x03) :: beBytes psize Q.1.toNat
  else 0x04 :: (beBytes psize Q.1.toNat ++ beBytes psize Q.2.toNat)

end Btc.Bms

deriving instance DecidableEq for Btc.Rfc6979.Out
