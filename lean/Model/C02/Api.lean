import Model.C02.Rfc6979
import Model.C02.Der
/-
The verify ENTRY POINT of `dsa.py` as a total function of raw inputs (octets of any length for the digest and the
signature, any integers for the key pair): `dsa.verify_` = `assert_as_valid_` with every `ValueError` /
`BTClibRuntimeError` turned into `False`.  The order of the refusals inside (`Sig` validity, digest size, key) does not
matter for the boolean.  The driver serves these (`ecdsa.verify_`, `ecdsa.verifyder`).
-/
namespace Btc.Ecdsa
open Btc

/-- `dsa.verify_(msg_hash, (x, y), Sig(r, s, ec), hf)` (Python arm): digest of the wrong size, a pair that is no public
    key, an invalid `Sig`, a failed equation — all `False` -/
def verifyApi (C : EC.Curve) (hlen : Nat) (m : Bytes) (Q : EC.Point) (r s : Int) : Bool :=
  if m.length ≠ hlen ∨ pubKeyOk C Q = false then false
  else verifyFull (EC.ops C) (isXCoord C) (Rfc6979.challenge C.n m) Q r s

/-- `dsa.verify_(msg_hash, (x, y), der_octets, hf)`: `Sig.parse` first (strict DER, a secp256k1 signature) -/
def verifyDer (hlen : Nat) (m : Bytes) (Q : EC.Point) (sig : Bytes) : Bool :=
  match Der.parse true sig with
  | none => false
  | some (r, s) => verifyApi EC.secp256k1 hlen m Q (r : Int) (s : Int)

end Btc.Ecdsa

namespace Btc.Der
open Btc

/-- BIP66 / DER short form as an explicit predicate on octets: `30 L 02 lr R 02 ls S`, nothing after; `R`, `S` non-empty,
    without sign bit and without a leading zero octet they do not need (`strictOk`); `r`, `s` their big-endian values -/
def Bip66 (b : Bytes) (r s : Nat) : Prop :=
  ∃ R S : Bytes, R ≠ [] ∧ S ≠ [] ∧ strictOk R = true ∧ strictOk S = true ∧ ofBE R = r ∧ ofBE S = s ∧
    b = 0x30 :: UInt8.ofNat (4 + R.length + S.length) :: 0x02 :: UInt8.ofNat R.length ::
      (R ++ 0x02 :: UInt8.ofNat S.length :: S)

end Btc.Der
