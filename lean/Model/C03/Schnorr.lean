import Model.Common.GroupOps
import Model.Common.Py
import Generated.Schnorr
/-
C03 — BIP340 Schnorr signatures as btclib implements them (`btclib/ecc/ssa.py`,
`bip340_nonce.py`, `commit_nonce.py`), function by function, generically over a group
interface `o : GroupOps α` and a tagged hash `prm.TH`.

For secp256k1 + SHA-256 (`Params.bip340`) the definitions below are BIP340's reference
algorithms: `lift_x` is `o.liftX`, the three tagged hashes are "BIP0340/aux", "BIP0340/nonce",
"BIP0340/challenge" (tags regenerated from the source into `Gen.Schnorr`), signing masks the
key with the hashed aux, normalises `d` and `k` to the even-y point, verification computes
`s•G − e•P` and checks `not infinite`, `has_even_y`, `x = r`.

btclib's generalisation to other curves / hash functions is modelled as written:
* the masked key is padded to `max(n_size, hf_len)`; field elements to `p_size`;
* hash output is cut to the leftmost `nlen` bits (`int_from_bits`, translated from the source);
* nonce (and the sign-to-contract tweak) retry `while True` until `0 < v < n` — here with an
  explicit `fuel` and the distinguished error `Err.fuel` (never reached on secp256k1 short of a
  2⁻¹²⁸ event; toy curves are driven with fuel 10 000);
* `challenge_` refuses `c = 0` with a RuntimeError.
Core Lean only.
-/
namespace Btc.Schnorr
open Btc

/-- exception classes of the modelled functions (`fuel`: the model's retry budget ran out) -/
inductive Err | value | runtime | fuel | type
  deriving DecidableEq, Repr, Inhabited

def Err.name : Err → String
  | .value => "value" | .runtime => "runtime" | .fuel => "fuel" | .type => "type"

/-- what the scheme needs to know beside the group: byte sizes and the tagged hash -/
structure Params where
  /-- `ec.p_size` -/
  pSize : Nat
  /-- `ec.n_size` -/
  nSize : Nat
  /-- `ec.nlen` -/
  nlen : Nat
  /-- `hf().digest_size` -/
  hfLen : Nat
  /-- `tagged_hash(tag, m, hf)` -/
  TH : Bytes → Bytes → Bytes

/-- the sizes btclib derives from a curve (`CurveGroup.p_size = ceil(p.bit_length()/8)`, `Curve.nlen`,
    `Curve.n_size`) with a hash of digest size `hfLen`: what the driver runs every op line with -/
def Params.ofCurve (c : EC.Curve) (hfLen : Nat) (TH : Bytes → Bytes → Bytes) : Params :=
  let nlen := Py.natBitLength c.n.toNat
  { pSize := (Py.natBitLength c.p.toNat + 7) / 8, nSize := (nlen + 7) / 8, nlen := nlen, hfLen := hfLen, TH := TH }

/-- `ssa.Sig` (the curve is the ambient `o`) -/
structure Sig where
  r : Int
  s : Int
  deriving DecidableEq, Repr, Inhabited

section
variable {α : Type} (o : GroupOps α) (prm : Params)

/-- `x.to_bytes(size, "big")` for an `x` already known to fit -/
def intBE (size : Nat) (x : Int) : Bytes := beBytes size x.toNat

/-- `_is_x_coordinate_var` -/
def isXCoord (x : Int) : Bool := decide (0 ≤ x) && decide (x < o.p) && (o.liftX x).isSome

/-- `Sig.assert_valid` -/
def sigValid (sg : Sig) : Except Err Unit :=
  if isXCoord o sg.r = false then .error .value
  else if ¬ (0 ≤ sg.s ∧ sg.s < o.n) then .error .value
  else .ok ()

/-- `challenge_`: `int(TaggedHash("BIP0340/challenge", bytes(x_K) ‖ bytes(x_Q) ‖ msg)) mod n`,
    zero refused -/
def challengeInt (msg : Bytes) (xQ xK : Int) : Int :=
  let t := prm.TH Gen.Schnorr.TAG_CHALLENGE (intBE prm.pSize xK ++ intBE prm.pSize xQ ++ msg)
  Gen.Schnorr.int_from_bits t prm.nlen % o.n

def challenge (msg : Bytes) (xQ xK : Int) : Except Err Int :=
  let c := challengeInt o prm msg xQ xK
  if c = 0 then .error .runtime else .ok c

/-- the loop shared by `_bip340_nonce_` and `commit_nonce._tweak`:
    `while True: t = tagged_hash(tag, t); v = int_from_bits(t, nlen); if 0 < v < n: return v` -/
def hashToScalar (tag : Bytes) : Nat → Bytes → Except Err Int
  | 0, _ => .error .fuel
  | fuel + 1, t =>
    let t' := prm.TH tag t
    let v := Gen.Schnorr.int_from_bits t' prm.nlen
    if 0 < v ∧ v < o.n then .ok v else hashToScalar tag fuel t'

/-- `_bip340_nonce_`: `t = bytes(d xor TaggedHash("BIP0340/aux", a))`, then
    `TaggedHash("BIP0340/nonce", t ‖ bytes(P) ‖ m)` -/
def nonceRaw (fuel : Nat) (msg : Bytes) (q xQ : Int) (aux : Bytes) : Except Err Int :=
  let randomizer := prm.TH Gen.Schnorr.TAG_AUX aux
  let xor := Py.lxor q (ofBE randomizer : Nat)
  let maxLen := max prm.nSize prm.hfLen
  hashToScalar o prm Gen.Schnorr.TAG_NONCE fuel (intBE maxLen xor ++ intBE prm.pSize xQ ++ msg)

/-- `n − q` when `q•G` has odd y (`if y_Q % 2: q = ec.n - q`) -/
def evenScalar (q : Int) : Int := if o.hasEvenY (o.mul q o.gen) then q else o.n - q

/-- `gen_keys(prv_key)`: the normalised private key and the x-only public key -/
def genKeys (q : Int) : Except Err (Int × Int) :=
  if ¬ (0 < q ∧ q < o.n) then .error .value
  else .ok (evenScalar o q, o.x (o.mul q o.gen))

/-- `bip340_nonce_`: returns `(k, x_K, q, x_Q)` with `q` and `k` normalised to even y -/
def nonce (fuel : Nat) (msg : Bytes) (q : Int) (aux : Bytes) : Except Err (Int × Int × Int × Int) :=
  if ¬ (0 < q ∧ q < o.n) then .error .value
  else
    let xQ := o.x (o.mul q o.gen)
    let q' := evenScalar o q
    match nonceRaw o prm fuel msg q' xQ aux with
    | .error e => .error e
    | .ok k0 => .ok (evenScalar o k0, o.x (o.mul k0 o.gen), q', xQ)

/-- `_sign_`: `s = (k + c·q) mod n` -/
def signCore (c q k r : Int) : Except Err Sig :=
  if c = 0 then .error .runtime
  else
    let sg : Sig := ⟨r, (k + c * q) % o.n⟩
    match sigValid o sg with
    | .error e => .error e
    | .ok _ => .ok sg

/-- `_assert_as_valid_`: `K = (n−c)•Q + s•G`; fail if infinite, if odd y, if `x(K) ≠ r mod p`
    (`KJ[0] != KJ[2]*KJ[2]*r % ec.p`: the private function reads `r` modulo `p`; every public caller has
    put `r` through `Sig.assert_valid`, i.e. `0 ≤ r < p`, first) -/
def assertCore (c : Int) (Q : α) (r s : Int) : Except Err Unit :=
  let K := o.dmul (o.n - c) Q s o.gen
  if o.isZero K then .error .value
  else if o.hasEvenY K = false then .error .runtime
  else if o.x K ≠ r % o.p then .error .runtime
  else .ok ()

/-- `assert_as_valid_` (Python arm, no commitment) -/
def assertAsValid (msg : Bytes) (xQ : Int) (sg : Sig) : Except Err Unit :=
  match sigValid o sg with
  | .error e => .error e
  | .ok _ =>
    match o.liftX xQ with
    | none => .error .value
    | some Q =>
      match challenge o prm msg xQ sg.r with
      | .error e => .error e
      | .ok c => assertCore o c Q sg.r sg.s

/-- `verify_`: every refusal is `False` -/
def verify (msg : Bytes) (xQ : Int) (sg : Sig) : Bool :=
  match assertAsValid o prm msg xQ sg with
  | .ok _ => true
  | .error _ => false

/-- `sign_` (Python arm, `verify=False`, no commitment) -/
def sign (fuel : Nat) (msg : Bytes) (q : Int) (aux : Bytes) : Except Err Sig :=
  if aux.length ≠ prm.hfLen then .error .value
  else
    match nonce o prm fuel msg q aux with
    | .error e => .error e
    | .ok (k, xK, q', xQ) =>
      match challenge o prm msg xQ xK with
      | .error e => .error e
      | .ok c => signCore o c q' k xK

/-- `sign_`'s inner `_checked`: lift the key, re-verify, translate any refusal to RuntimeError -/
def selfCheck (c xQ : Int) (sg : Sig) : Except Err Sig :=
  match o.liftX xQ with
  | none => .error .value
  | some Q =>
    match assertCore o c Q sg.r sg.s with
    | .ok _ => .ok sg
    | .error _ => .error .runtime

/-- `sign_` (Python arm, `verify=True`, no commitment) -/
def signChecked (fuel : Nat) (msg : Bytes) (q : Int) (aux : Bytes) : Except Err Sig :=
  if aux.length ≠ prm.hfLen then .error .value
  else
    match nonce o prm fuel msg q aux with
    | .error e => .error e
    | .ok (k, xK, q', xQ) =>
      match challenge o prm msg xQ xK with
      | .error e => .error e
      | .ok c =>
        match signCore o c q' k xK with
        | .error e => .error e
        | .ok sg => selfCheck o c xQ sg

/-! ## 64-byte codec (`Sig.serialize`, `Sig.parse`) -/

/-- `Sig.serialize` -/
def serialize (sg : Sig) : Except Err Bytes :=
  match sigValid o sg with
  | .error e => .error e
  | .ok _ => .ok (intBE prm.pSize sg.r ++ intBE prm.nSize sg.s)

/-- `Sig.parse`: exactly `_REQUIRED_LENGTH` octets, `r` the first `p_size`, `s` the rest -/
def parse (b : Bytes) : Except Err Sig :=
  if b.length ≠ Gen.Schnorr.REQUIRED_LENGTH then .error .value
  else
    let sg : Sig := ⟨(ofBE (b.take prm.pSize) : Nat), (ofBE (b.drop prm.pSize) : Nat)⟩
    match sigValid o sg with
    | .error e => .error e
    | .ok _ => .ok sg

/-! ## sign-to-contract (`commit_nonce.py`, `sign_(…, commit_hash=…)`) -/

/-- `bytes_from_point(P)` compressed: `02|03 ‖ x` -/
def secCompressed (P : α) : Bytes :=
  (if o.hasEvenY P then (2 : UInt8) else 3) :: intBE prm.pSize (o.x P)

/-- `commit_nonce._tweak` -/
def tweak (fuel : Nat) (commitHash : Bytes) (R : α) : Except Err Int :=
  hashToScalar o prm Gen.Schnorr.S2C_POINT_TAG fuel (secCompressed o prm R ++ commitHash)

/-- `commit_nonce_`: tweaked nonce and the receipt `R = k•G` -/
def commitNonce (fuel : Nat) (commitHash : Bytes) (k : Int) : Except Err (Int × α) :=
  if ¬ (0 < k ∧ k < o.n) then .error .value
  else
    let R := o.mul k o.gen
    match tweak o prm fuel commitHash R with
    | .error e => .error e
    | .ok e =>
      let k' := (k + e) % o.n
      if k' = 0 then .error .runtime else .ok (k', R)

/-- `commit_point_`: `W = R + hash(R ‖ commit_hash)•G` -/
def commitPoint (fuel : Nat) (commitHash : Bytes) (R : α) : Except Err α :=
  match tweak o prm fuel commitHash R with
  | .error e => .error e
  | .ok e => .ok (o.add R (o.mul e o.gen))

/-- `sign_(…, commit_hash=…, verify=False)`: signature and receipt -/
def signCommit (fuel : Nat) (msg : Bytes) (q : Int) (aux commitHash : Bytes) : Except Err (Sig × α) :=
  if aux.length ≠ prm.hfLen then .error .value
  else
    let aux' := prm.TH Gen.Schnorr.S2C_DATA_TAG (aux ++ commitHash)
    match nonce o prm fuel msg q aux' with
    | .error e => .error e
    | .ok (k, _, q', xQ) =>
      match commitNonce o prm fuel commitHash k with
      | .error e => .error e
      | .ok (k1, R) =>
        let xK := o.x (o.mul k1 o.gen)
        let k2 := evenScalar o k1
        match challenge o prm msg xQ xK with
        | .error e => .error e
        | .ok c =>
          match signCore o c q' k2 xK with
          | .error e => .error e
          | .ok sg => .ok (sg, R)

/-- `_assert_commitment_` with both arguments present -/
def assertCommitment (fuel : Nat) (commitHash : Bytes) (R : α) (sg : Sig) : Except Err Unit :=
  match commitPoint o prm fuel commitHash R with
  | .error e => .error e
  | .ok W => if sg.r ≠ o.x W then .error .runtime else .ok ()

/-- `verify_(…, commit_hash=…, receipt=…)` for a receipt that is a point of the curve -/
def verifyCommit (fuel : Nat) (msg : Bytes) (xQ : Int) (sg : Sig) (commitHash : Bytes) (R : α) : Bool :=
  match sigValid o sg with
  | .error _ => false
  | .ok _ =>
    match assertCommitment o prm fuel commitHash R sg with
    | .error _ => false
    | .ok _ => verify o prm msg xQ sg

/-! ## the optional arguments of the public API: `None` is `none`, a present-but-empty value
(`commit_hash = b""`) is `some []` and is a commitment like any other -/

/-- `sign_(msg, q, aux, ec, hf, verify=False, commit_hash=…)`: a bare signature without a commitment,
    signature and receipt with one -/
def signOpt (fuel : Nat) (msg : Bytes) (q : Int) (aux : Bytes) (commitHash : Option Bytes) :
    Except Err (Sig × Option α) :=
  match commitHash with
  | none =>
    match sign o prm fuel msg q aux with
    | .error e => .error e
    | .ok sg => .ok (sg, none)
  | some c =>
    match signCommit o prm fuel msg q aux c with
    | .error e => .error e
    | .ok (sg, R) => .ok (sg, some R)

/-- `verify_(msg, Q, sig, hf, commit_hash=…, receipt=…)`: what is no signature is `False`
    (`Sig.assert_valid` runs first); then a commitment without its receipt, or a receipt without its
    commitment, is the caller's TypeError; otherwise the verdict -/
def verifyOpt (fuel : Nat) (msg : Bytes) (xQ : Int) (sg : Sig) (commitHash : Option Bytes)
    (receipt : Option α) : Except Err Bool :=
  match sigValid o sg with
  | .error _ => .ok false
  | .ok _ =>
    match commitHash, receipt with
    | none, none => .ok (verify o prm msg xQ sg)
    | none, some _ => .error .type
    | some _, none => .error .type
    | some c, some R => .ok (verifyCommit o prm fuel msg xQ sg c R)

/-- `sign(msg, q, aux, ec, hf, commit=…)`: message and commitment reduced by `hf` first
    (`commit_hash = None if commit is None else reduce_to_hlen(commit, hf)`) -/
def signHashed (H : Bytes → Bytes) (fuel : Nat) (msg : Bytes) (q : Int) (aux : Bytes)
    (commit : Option Bytes) : Except Err (Sig × Option α) :=
  signOpt o prm fuel (H msg) q aux (commit.map H)

/-- `verify(msg, Q, sig, hf, commit=…, receipt=…)` -/
def verifyHashed (H : Bytes → Bytes) (fuel : Nat) (msg : Bytes) (xQ : Int) (sg : Sig)
    (commit : Option Bytes) (receipt : Option α) : Except Err Bool :=
  verifyOpt o prm fuel (H msg) xQ sg (commit.map H) receipt

end
end Btc.Schnorr
