import Model.C03.Schnorr
/-
C03 — BIP340 batch verification as `ssa.assert_batch_as_valid_` writes it, with the random
coefficients an explicit argument `coef : Nat → Int` (`coef i` is what `1 + secrets.randbelow(n-1)`
answered for member `i ≥ 1`; member 0 always gets coefficient 1, as in the code and in the BIP).
-/
namespace Btc.Schnorr
open Btc

/-- one member of a batch: message, x-only key, signature -/
structure Item where
  msg : Bytes
  xQ : Int
  sg : Sig
  deriving Repr, Inhabited

section
variable {α : Type} (o : GroupOps α) (prm : Params)

/-- `rand = 1 if i == 0 else 1 + secrets.randbelow(ec.n - 1)`: the statement itself is TRANSLATED from the source
    (`Gen.Schnorr.batch_rand i draw`, `draw` standing for what `secrets.randbelow` answered); `coef i` is the
    coefficient of member `i ≥ 1`, i.e. `1 + draw`.  `Proofs/C03/Batch.lean: coefAt_eq` shows this is
    `if i = 0 then 1 else coef i` — an edit of the statement in ssa.py breaks that lemma. -/
def coefAt (coef : Nat → Int) (i : Nat) : Int := Gen.Schnorr.batch_rand (i : Int) (coef i - 1)

/-- `for sig in sigs: sig.assert_valid()` -/
def allSigValid : List Item → Except Err Unit
  | [] => .ok ()
  | it :: rest =>
    match sigValid o it.sg with
    | .error e => .error e
    | .ok _ => allSigValid rest

/-- the main loop: returns `t = Σ aᵢ·sᵢ` (not reduced, as in the code) and the interleaved
    `(scalar, x-coordinate)` terms `[(aᵢ, rᵢ), (aᵢ·cᵢ mod n, x_Qᵢ)]` -/
def batchTerms (coef : Nat → Int) : Nat → List Item → Except Err (Int × List (Int × Int))
  | _, [] => .ok (0, [])
  | i, it :: rest =>
    if ¬ (0 ≤ it.xQ ∧ it.xQ < o.p) then .error .value      -- `_x_only_bytes`
    else
      match challenge o prm it.msg it.xQ it.sg.r with
      | .error e => .error e
      | .ok c =>
        match batchTerms coef (i + 1) rest with
        | .error e => .error e
        | .ok (t, terms) =>
          let a := coefAt coef i
          .ok (a * it.sg.s + t, (a, it.sg.r) :: (a * c % o.n, it.xQ) :: terms)

/-- `points = [(x, _y_even_var(x, ec)) for x in x_coords]` -/
def liftAll : List (Int × Int) → Except Err (List (Int × α))
  | [] => .ok []
  | (a, x) :: rest =>
    match o.liftX x with
    | none => .error .value
    | some P =>
      match liftAll rest with
      | .error e => .error e
      | .ok ps => .ok ((a, P) :: ps)

/-- `multi_mult_var(scalars, points)`: `Σ aᵢ•Pᵢ` -/
def multiMult : List (Int × α) → α
  | [] => o.zero
  | (a, P) :: rest => o.add (o.mul a P) (multiMult rest)

/-- `assert_batch_as_valid_` -/
def assertBatch (coef : Nat → Int) (items : List Item) : Except Err Unit :=
  match items with
  | [] => .error .value
  | [it] => assertAsValid o prm it.msg it.xQ it.sg
  | _ =>
    match allSigValid o items with
    | .error e => .error e
    | .ok _ =>
      match batchTerms o prm coef 0 items with
      | .error e => .error e
      | .ok (t, terms) =>
        match liftAll o terms with
        | .error e => .error e
        | .ok pts =>
          if o.eq (o.mul t o.gen) (multiMult o pts) then .ok () else .error .runtime

/-- `batch_verify_` -/
def batchVerify (coef : Nat → Int) (items : List Item) : Bool :=
  match assertBatch o prm coef items with
  | .ok _ => true
  | .error _ => false

end
end Btc.Schnorr
