import Generated.Backend
import Generated.BackendSites
/-!
# C04 — the documented domain of the libsecp256k1 bindings, per delegation site

`Gen.BackendSites` holds, for every call into `btclib._libsecp256k1` found in the source, the GENERATED path
condition (`guard`), the facts the preceding validating statements establish, and whether the call stands inside a
`ValueError` handler.  This file states what the bindings require of each call (libsecp256k1's documented domain:
scalars in `1..n-1`, public keys that are valid finite points, fixed-size byte fields, curve secp256k1, SHA-256) as a
predicate over the same abstract input-class record.
-/
namespace Btc.C04
open Gen.Backend

/-- the bindings only exist for secp256k1, and only while the switch is on -/
def served (x : Atoms) : Bool := x.flag && x.ec_is_secp256k1

/-- first scalar is in `1..n-1`: either it came through `scalar_from_prv_key`, or it is a reduced non-zero value -/
def scalar1 (x : Atoms) : Bool := x.s1_in_1_n || (x.s1_reduced && x.s1_nonzero)
def scalar2 (x : Atoms) : Bool := x.s2_reduced && x.s2_nonzero
/-- first point is a valid public key: on the curve and not infinity -/
def point1 (x : Atoms) : Bool := x.p1_on_curve && x.p1_finite
def point2 (x : Atoms) : Bool := x.p2_on_curve && x.p2_finite

/-- the domain of the binding called at each site, by the generated guard's name.
`flagOnly` marks calls whose arguments the bindings themselves judge (a verdict or a parse), so that the only
requirement on btclib's side is that the bindings serve at all. -/
def pre (site : Gen.BackendSites.SiteId) (x : Atoms) : Bool :=
  match site with
  -- curve.py
  | .x_octets__return => served x && x.x_in_field
  | .is_x_coordinate__libsecp256k1_xonly_pubkey_verify => served x && x.x_in_field
  | .y_even__libsecp256k1_xonly_to_pubkey => served x && x.x_in_field
  | .multi_mult_x_only__libsecp256k1_multi_mult => served x && x.all_terms_nonzero_finite
  | .mult_checked__libsecp256k1_pubkey_from_prvkey => served x && scalar1 x
  | .mult_checked__libsecp256k1_multi_mult => served x && scalar1 x && point1 x
  | .double_mult__libsecp256k1_multi_mult => served x && scalar1 x && scalar2 x && point1 x && point2 x
  | .sum__libsecp256k1_pubkey_sum => served x && x.all_on_curve && !x.n_finite_lt_2
  | .tweak_add__libsecp256k1_pubkey_tweak_add => served x && point1 x && x.s1_reduced
  | .tweak_chain_init__Libsecp256k1PubkeyTweakChain => served x && point1 x
  | .tweak_chain_point__tweak_add => x.chain_held && x.s1_reduced
  -- `_jac_double_mult` asks the predicate and hands over to `double_mult_var`, a site with its own guard: served is all it owes
  | .jac_double_mult__double_mult_var => served x
  | .multi_mult__libsecp256k1_multi_mult =>
      served x && x.all_scalars_reduced && x.all_on_curve && x.all_terms_nonzero_finite && x.n_terms_gt_1
  -- sec_point.py
  | .bytes_from_prv_key_int__libsecp256k1_pubkey_from_prvkey => served x && scalar1 x
  | .mult_sec__libsecp256k1_pubkey_tweak_mul => served x && scalar1 x && point1 x
  | .sec_from_octets__libsecp256k1_pubkey_verify => served x && x.compressed_len
  -- dsa.py / ssa.py / bms.py
  -- `pub_key=` is handed over as UNPROVEN octets (`_sec_from_pub_key`): the domain needs it proved, the guard does not say so
  | .dsa_sign__libsecp256k1_sign => served x && x.hf_none_or_sha256 && scalar1 x && x.msg_sized && x.pub_key_proved
  | .dsa_sign_recoverable__sign => served x && x.hf_none_or_sha256 && scalar1 x && x.msg_sized
  | .dsa_assert_as_valid__verify => served x && x.hf_none_or_sha256 && x.sig_valid && x.msg_sized && point1 x
  | .dsa_recover_pub_keys__libsecp256k1_recover_point => served x && x.hf_none_or_sha256 && x.sig_valid && x.msg_sized
  | .dsa_recover_pub_key__libsecp256k1_recover_point => served x && x.hf_none_or_sha256 && x.sig_valid && x.msg_sized && x.key_id_0_3
  | .dsa_signer_init__sec_from_pub_key => served x && x.hf_none_or_sha256 && scalar1 x && x.p1_on_curve
  | .dsa_signer_init__new => served x && x.hf_none_or_sha256 && scalar1 x
  | .dsa_signer_sign__delegated_sign => x.signer_held && x.msg_sized
  | .ssa_signer_init__Signer => served x && x.hf_none_or_sha256 && scalar1 x
  | .ssa_signer_sign__sign_custom => x.signer_held
  | .ssa_sign__sign_custom => served x && x.hf_none_or_sha256 && scalar1 x
  | .ssa_assert_as_valid__verify => served x && x.hf_none_or_sha256 && x.sig_valid && x.fields_sized && point1 x
  | .bms_assert_as_valid__libsecp256k1_recover_sec => x.flag && x.sig_valid
  -- dh / commit_nonce / ellswift / musig2
  | .dh__pubkey_tweak_mul => served x && scalar1 x && point1 x
  | .commit_nonce__prvkey_tweak_add => served x && scalar1 x
  | .ellswift_create__create => served x && scalar1 x
  | .ellswift_encode__encode => served x && x.p1_on_curve
  | .ellswift_decode__decode => served x
  | .ellswift_xdh__xdh => served x && scalar1 x
  | .musig_partial_sig_verify__bindings_session =>
      x.flag && x.msg_len_32 && x.no_adaptor && x.session_validated && x.fields_sized
  -- bip32 / taproot / engine / silent payments
  | .bip32_prv_derivation__prvkey_tweak_add => x.flag && x.offset_lt_n
  | .bip32_pub_chain__PubkeyTweakChain => x.flag
  | .taproot_tweaked_pubkey__tweak_add => x.flag && point1 x
  | .taproot_tweaked_prvkey__prvkey_tweak_add => x.flag && scalar1 x
  | .taproot_check_output_pubkey__tweak_add_check => x.flag && x.q_len_32 && x.fields_sized && point1 x
  | .engine_dsa_verify__libsecp256k1_dsa_verify => x.flag && x.msg_sized && x.sig_valid && point1 x
  | .engine_ssa_verify__libsecp256k1_ssa_verify => x.flag && x.fields_sized && x.sig_valid && point1 x
  | .sp_output_keys__delegated_output_keys => x.flag && x.groups_nonempty && scalar1 x
  | .sp_scan_transaction_outputs__delegated_scan_outputs => x.flag && point1 x && x.fields_sized
  | .sp_delegated_scan_outputs__prevouts_summary => point1 x && x.fields_sized
  | .sp_delegated_scan_outputs__scan_outputs => x.outputs_nonempty && x.fields_sized && point1 x

/-- the obligation of T1 for one site: under the established facts, the generated guard gives the bindings'
domain, or the call stands inside a handler that translates the bindings' refusal -/
def siteOK (s : Gen.BackendSites.SiteId) (x : Atoms) : Bool :=
  !(s.established x && s.guard x) || pre s x || s.catches

/-- the same with the handler ignored: sites where the GUARD ALONE (with the established facts) gives the domain -/
def siteStrict (s : Gen.BackendSites.SiteId) (x : Atoms) : Bool :=
  !(s.established x && s.guard x) || pre s x

open Gen.BackendSites in
/-- the sites where the domain does NOT follow from the guard and the established facts: the octets / terms are handed
over unproven on purpose (issue 887: the bindings' own parse is the proof) and the handler around the call is what
answers outside the domain -/
def handlerNeeded : List SiteId := [.multi_mult_x_only__libsecp256k1_multi_mult, .mult_sec__libsecp256k1_pubkey_tweak_mul,
  .dsa_sign__libsecp256k1_sign, .dsa_assert_as_valid__verify, .ssa_assert_as_valid__verify, .taproot_tweaked_pubkey__tweak_add,
  .taproot_check_output_pubkey__tweak_add_check, .engine_dsa_verify__libsecp256k1_dsa_verify,
  .engine_ssa_verify__libsecp256k1_ssa_verify, .sp_output_keys__delegated_output_keys,
  .sp_scan_transaction_outputs__delegated_scan_outputs, .sp_delegated_scan_outputs__prevouts_summary,
  .sp_delegated_scan_outputs__scan_outputs]

/-- coverage report (evidence): where each site's domain comes from -/
def domainFrom (s : Gen.BackendSites.SiteId) : String :=
  if handlerNeeded.contains s then "handler" else if s.catches then "guard (handler present too)" else "guard"

/-- the atom vector with every field true but the listed positions -/
def allTrueBut (is : List Nat) : Atoms := Atoms.ofBits ((List.range 48).map fun i => !is.contains i)

/-- inputs outside the domain that the guard lets through (one unproven fact at a time: key not proved on the curve,
scalar not range-checked, fields not sized, terms not screened, signature / digest not validated) -/
def outsideDomain : List Atoms :=
  let idx (n : String) : List Nat := (Gen.Backend.atomNames.idxOf? n).toList
  [allTrueBut (idx "p1_on_curve"), allTrueBut (idx "s1_in_1_n" ++ idx "s1_reduced"), allTrueBut (idx "fields_sized"),
   allTrueBut (idx "all_terms_nonzero_finite"), allTrueBut (idx "sig_valid"), allTrueBut (idx "msg_sized"),
   allTrueBut (idx "pub_key_proved")]

/-- sites that dispatch on an OBJECT built earlier (a tweak chain, a Signer) instead of asking the predicate again.
ONE direction only is captured at construction: an object built while the bindings served HOLDS a bindings-side object
and keeps delegating after `set_libsecp256k1_serving(serving=False)` (a `_TweakChain` until a cancelling tweak makes it
drop its chain).  An object built while NOT serving holds nothing, and its use goes through code that asks the flag
again (`ssa.Signer.sign_` → the free `sign_`; `_TweakChain.point` → `_tweak_add_var`; `dsa.Signer.sign_` → `mult`), so
after `serving=True` it DOES reach the bindings.  Answers must not depend on any of this: harness oracle `held_object`
(which also observes these dispatch facts through spies on the bindings entry points). -/
def heldObjectSites : List Gen.BackendSites.SiteId :=
  [.tweak_chain_point__tweak_add, .dsa_signer_sign__delegated_sign, .ssa_signer_sign__sign_custom]

/-- calls made INSIDE a delegation already decided (the dispatching caller asked the predicate) -/
def insideSites : List Gen.BackendSites.SiteId :=
  [.sp_delegated_scan_outputs__prevouts_summary, .sp_delegated_scan_outputs__scan_outputs]

end Btc.C04
