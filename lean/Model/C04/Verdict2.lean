import Model.C04.Verdict
/-!
# C04 — T2 verdict tables, second batch (taproot, BIP32, MuSig2, ElligatorSwift, nonce commitment, silent-payment
output creation, the engine's BIP340 wrapper, whole-transaction verdicts)

Same convention as `Verdict.lean`: `py` / `bind` follow the check order of the Python arm / the bindings arm in the
source; the `verdict.*` streams run one representative input per class on each arm of the real code.
-/
namespace Btc.C04

/-! ## taproot: `output_pubkey_from_merkle_root(x32, root)` → `_tweaked_pubkey` -/
namespace TapOutRoot
/-- both: `bytes_from_octets(internal_pubkey, 32)` first.  Python arm: `PubKeyData.point` (the lift) refuses;
bindings arm: `xonly.tweak_add`'s ValueError is re-raised as BTClibValueError -/
def py : XKey → Outcome
  | .valid => .value
  | _ => .errValue
def bind : XKey → Outcome
  | .valid => .value
  | .wrongLength => .errValue      -- before the dispatch
  | .notX | .geP => .errValue      -- translated refusal of the bindings
end TapOutRoot

/-! ## taproot: `output_pubkey(key)` for a key given as SEC octets (`_sec_from_key`: unproven, hybrid refused as octets).
`wrongLength` is a length that is no private-key spelling either (32 octets would be read as a private key). -/
namespace TapOutPub
def py : Sec → Outcome
  | .compressed | .uncompressed => .value
  | _ => .errValue
def bind : Sec → Outcome
  | .compressed | .uncompressed => .value
  | .hybrid | .hybridWrongParity | .badPrefix | .wrongLength => .errValue   -- `_sec_from_key`, or the bindings' parse
  | .xNotOnCurve | .xGeP | .uncOffCurve | .uncYZero => .errValue           -- translated refusal
end TapOutPub

/-! ## taproot: `output_prvkey_from_merkle_root(prv, root)` → `_tweaked_prvkey` -/
namespace TapPrv
def py (q : Scalar) : Outcome := if q.isPrvKey then .value else .errValue     -- int_from_prv_key, before the dispatch
def bind (q : Scalar) : Outcome := if q.isPrvKey then .value else .errValue
end TapPrv

/-! ## taproot: `check_output_pubkey(q, script, control)` -/
inductive Control where
  | valid            -- proves q
  | parityFlipped    -- right key and path, wrong parity bit
  | otherKey         -- well-formed, commits to another output key
  | pNotX | pGeP     -- the internal key inside the block is no x-coordinate / not a field element
  | badLength        -- not 33 + 32m
  | tooLong          -- more than 33 + 32·128 bytes
  deriving DecidableEq, Repr
def Control.all : List Control := [.valid, .parityFlipped, .otherKey, .pNotX, .pGeP, .badLength, .tooLong]
/-- the output key as the caller passes it.  `check_output_pubkey` compares it AS AN INTEGER with the computed x
(`Q[0] == int.from_bytes(q, "big")`), so the class of "another length" is not homogeneous: a zero-padded spelling of the
same integer is accepted (tests/script/taproot_test.py pins that), any other spelling of another length is not. -/
inductive QKey where
  | len32
  | zeroPadded      -- 00…00 ‖ q (33, 34 … bytes), or q without its leading zero bytes: the same integer
  | otherValue      -- another length and another integer (02 ‖ q, a truncated q)
  deriving DecidableEq, Repr
def QKey.all : List QKey := [.len32, .zeroPadded, .otherValue]
/-- the integer the octets spell is the output key's x -/
def QKey.sameInteger : QKey → Bool
  | .len32 | .zeroPadded => true
  | .otherValue => false
namespace TapCheck
def lengthCheck : Control → Option Outcome
  | .badLength | .tooLong => some .errValue
  | _ => none
/-- Python arm: length checks, lift `p` (`_y_even_var` raises), add, compare x (as integers) and parity -/
def py (q : QKey) (c : Control) : Outcome :=
  match lengthCheck c with
  | some e => e
  | none =>
    match c with
    | .pNotX | .pGeP => .errValue
    | .valid => if q.sameInteger then .true_ else .false_
    | _ => .false_
/-- bindings arm: the same length checks; `len(q) == 32` is part of the guard, `tweak_add_check`'s ValueError (p) is
translated; any other q goes to the Python arm -/
def bind (q : QKey) (c : Control) : Outcome :=
  match lengthCheck c with
  | some e => e
  | none =>
    match q with
    | .zeroPadded | .otherValue => py q c
    | .len32 =>
      match c with
      | .pNotX | .pGeP => .errValue
      | .valid => .true_
      | _ => .false_
end TapCheck

/-! ## BIP32: one derivation step of `derive(xkey, path)`; `IL` is the left half of the HMAC -/
inductive Chain where
  | prv | pub
  deriving DecidableEq, Repr
def Chain.all : List Chain := [.prv, .pub]
inductive ChildIndex where
  | normal | hardened
  deriving DecidableEq, Repr
def ChildIndex.all : List ChildIndex := [.normal, .hardened]
inductive IL where
  | ok
  | geN          -- IL ≥ n
  | cancels      -- k + IL ≡ 0 (private) / P + IL·G = ∞ (public)
  deriving DecidableEq, Repr
def IL.all : List IL := [.ok, .geN, .cancels]
namespace Bip32
/-- Python arm: hardened-from-public refused for the whole path first; `offset >= n` refused; then `(k + IL) % n == 0`
(private) or `_PythonPubKeyTweakChain.tweak_add` raising ValueError for infinity (public) -/
def py (ch : Chain) (i : ChildIndex) (il : IL) : Outcome :=
  match ch, i with
  | .pub, .hardened => .errValue
  | _, _ => (match il with | .ok => .value | .geN => .errValue | .cancels => .errValue)
/-- bindings arm: same two refusals before the dispatch; `prvkey_tweak_add` / `PubkeyTweakChain.tweak_add` raise
ValueError for the zero key / infinity, translated by `_invalid_child` -/
def bind (ch : Chain) (i : ChildIndex) (il : IL) : Outcome :=
  match ch, i with
  | .pub, .hardened => .errValue
  | _, _ => (match il with | .ok => .value | .geN => .errValue | .cancels => .errValue)
end Bip32

/-! ## MuSig2: `partial_sig_verify_(psig, pub_nonce, pub_key, session_ctx)` for a valid session -/
inductive PSig where
  | valid | wrong | geN | wrongLength
  deriving DecidableEq, Repr
def PSig.all : List PSig := [.valid, .wrong, .geN, .wrongLength]
inductive PubNonce where
  | valid | other      -- `other`: another signer's (well-formed) nonce
  | notPoint | wrongLength
  deriving DecidableEq, Repr
def PubNonce.all : List PubNonce := [.valid, .other, .notPoint, .wrongLength]
inductive SignerKey where
  | member | foreign | notPoint | wrongLength
  deriving DecidableEq, Repr
def SignerKey.all : List SignerKey := [.member, .foreign, .notPoint, .wrongLength]
namespace Musig
/-- shared prefix (both arms, before the dispatch): psig size, `s >= n → False`, nonce size, key size -/
def pre (s : PSig) (r : PubNonce) (k : SignerKey) : Option Outcome :=
  match s with
  | .wrongLength => some .errValue
  | .geN => some .false_
  | _ =>
    match r with
    | .wrongLength => some .errValue
    | _ => (match k with | .wrongLength => some .errValue | _ => none)
/-- Python arm (any message length, adaptor sessions): parse the two nonce points, parse the key, membership, equation -/
def py (s : PSig) (r : PubNonce) (k : SignerKey) : Outcome :=
  match pre s r k with
  | some o => o
  | none =>
    match r with
    | .notPoint => .errValue
    | _ =>
      match k with
      | .notPoint | .foreign => .errValue
      | _ => (match s, r with | .valid, .valid => .true_ | _, _ => .false_)
/-- bindings arm (32-byte message, no adaptor): the C call parses nonce and key (ValueError → BTClibValueError), THEN
the membership test, then the verdict -/
def bind (msg : MsgLen) (s : PSig) (r : PubNonce) (k : SignerKey) : Outcome :=
  match msg with
  | .other => py s r k                         -- guard declines: Python arm
  | .len32 =>
    match pre s r k with
    | some o => o
    | none =>
      match r, k with
      | .notPoint, _ | _, .notPoint => .errValue
      | _, .foreign => .errValue
      | _, _ => (match s, r with | .valid, .valid => .true_ | _, _ => .false_)
end Musig

/-! ## ElligatorSwift -/
inductive EllLen where
  | len64 | other
  deriving DecidableEq, Repr
def EllLen.all : List EllLen := [.len64, .other]
inductive Party where
  | zeroOrOne | outside
  deriving DecidableEq, Repr
def Party.all : List Party := [.zeroOrOne, .outside]
namespace Ell
def createPy (q : Scalar) : Outcome := if q.isPrvKey then .value else .errValue
def createBind (q : Scalar) : Outcome := if q.isPrvKey then .value else .errValue   -- scalar_from_prv_key precedes the dispatch
def decodePy : EllLen → Outcome | .len64 => .value | .other => .errValue
def decodeBind : EllLen → Outcome | .len64 => .value | .other => .errValue          -- `_ell_from_octets` precedes the dispatch
/-- `xdh`: both encodings sized, then the party, then the key — all before the dispatch -/
def xdhPy (a b : EllLen) (p : Party) (q : Scalar) : Outcome :=
  match a, b, p with
  | .len64, .len64, .zeroOrOne => if q.isPrvKey then .value else .errValue
  | _, _, _ => .errValue
def xdhBind (a b : EllLen) (p : Party) (q : Scalar) : Outcome :=
  match a, b, p with
  | .len64, .len64, .zeroOrOne => if q.isPrvKey then .value else .errValue
  | _, _, _ => .errValue
/-- `encode_var(pub_key)`: `point_from_pub_key` precedes the dispatch -/
def encodePy : Sec → Outcome | .compressed | .uncompressed => .value | _ => .errValue
def encodeBind : Sec → Outcome | .compressed | .uncompressed => .value | _ => .errValue
end Ell

/-! ## `commit_nonce_(commit_hash, nonce, tag)`; `tweakCancels`: nonce + tweak ≡ 0 (reached with a stubbed `_tweak`) -/
namespace Commit
def py (k : Scalar) (tweakCancels : Bool) : Outcome :=
  if k.isPrvKey then (if tweakCancels then .errRuntime else .value) else .errValue
def bind (k : Scalar) (tweakCancels : Bool) : Outcome :=
  if k.isPrvKey then (if tweakCancels then .errRuntime else .value)   -- prvkey_tweak_add's ValueError → RuntimeError
  else .errValue
end Commit

/-! ## silent payments: `output_keys(prv_keys, outpoints, addresses)` -/
inductive KeySum where
  | ok | zero        -- the input private keys sum to 0 mod n (a single 0 / n included)
  deriving DecidableEq, Repr
def KeySum.all : List KeySum := [.ok, .zero]
inductive Addresses where
  | none_ | valid | malformed
  deriving DecidableEq, Repr
def Addresses.all : List Addresses := [.none_, .valid, .malformed]
namespace SpOut
/-- everything but the last step precedes the dispatch: key sum, input hash, address parsing, the empty answer -/
def py (k : KeySum) (a : Addresses) : Outcome :=
  match k with
  | .zero => .errValue
  | .ok => (match a with | .malformed => .errValue | _ => .value)
def bind (k : KeySum) (a : Addresses) : Outcome :=
  match k with
  | .zero => .errValue
  | .ok => (match a with | .malformed => .errValue | .none_ => .value | .valid => .value)
end SpOut

/-! ## the engine's BIP340 wrapper `engine.tapscript.ssa_verify(msg, key, sig)`: every refusal is False -/
namespace EngineSsa
def py (k : XKey) (s : SsaSig) : Outcome :=
  match k, s with | .valid, .valid => .true_ | _, _ => .false_
def bind (k : XKey) (s : SsaSig) : Outcome :=
  match k, s with | .valid, .valid => .true_ | _, _ => .false_
end EngineSsa

/-! ## whole transactions: `verify_transaction` on Core's vectors — the arm must not change the verdict -/
inductive TxVector where
  | coreValid | coreInvalid
  deriving DecidableEq, Repr
def TxVector.all : List TxVector := [.coreValid, .coreInvalid]
namespace TxVerdict
/-- `refused` is rendered `err value` (ScriptError and the parse / CheckTransaction refusals are BTClibValueErrors) -/
def py : TxVector → Outcome | .coreValid => .value | .coreInvalid => .errValue
def bind : TxVector → Outcome | .coreValid => .value | .coreInvalid => .errValue
end TxVerdict

end Btc.C04
