import Model.C04.Domain
import Model.C04.Verdict
import Model.C04.Verdict2
/-!
# C04 — what the bindings arm answers when the C call REFUSES, computed from the generated handlers

`Gen.BackendSites.SiteId.handlers` lists, for every delegation site, what each `except ValueError` /
`contextlib.suppress(ValueError)` between the C call and the site's caller DOES with the refusal (read off the AST by
tools/specs/backend.py: raise one btclib class, `return False`, run the Python arm's own validation and re-raise, or
fall through to the Python arm).  `refusalOutcome` folds them, innermost first, the way Python unwinds:

* `BTClibValueError` IS a `ValueError`, so what an inner handler translated is caught again by an outer one;
* `BTClibRuntimeError` / `BTClibTypeError` / `return False` leave the chain;
* falling through hands the input to the Python arm, which answers `pyc`;
* with no handler left, a refusal that was never translated leaves btclib as a bare `ValueError` (`errForeign`).

`refusalTable` names, per site and per way its input can be outside the C entry point's domain (the atoms of
`outsideDomain`, plus `result`: the arithmetic itself ends in zero / infinity), the class of the T2 lattice that IS such an
input and what the PYTHON arm answers on it (the `py` tables of Verdict*.lean, tied to the real code by `verdict.*`; the
four entries without a verdict table carry their outcome here).  `Props/C04.lean` proves the two equal on every entry but
the recorded silent-payment one.  Tie: stream `refusal.*` (each entry's representative on each arm of the real code; the
bindings side is answered by `refusalOutcome`, i.e. by the GENERATED handlers).
-/
namespace Btc.C04
open Gen.BackendSites

def Outcome.isErr : Outcome → Bool
  | .errValue | .errRuntime | .errType | .errForeign => true
  | _ => false

/-- unwind through the handlers, innermost first; `inflight`: the class the exception has if nothing else catches it -/
def escape (pyc : Outcome) : List HandlerAction → Outcome → Outcome
  | [], inflight => inflight
  | .fallThrough :: _, _ => pyc
  | .returnsFalse :: _, _ => .false_
  | .raisesValue :: rest, _ => escape pyc rest .errValue      -- still a ValueError: an outer handler sees it
  | .raisesRuntime :: _, _ => .errRuntime
  | .raisesType :: _, _ => .errType
  | .pythonThenReraise :: rest, inflight => if pyc.isErr then pyc else escape pyc rest inflight

/-- the bindings arm's answer at site `s` when the C call raises `ValueError`, the Python arm answering `pyc` on the same
input (`SiteId.handlers` is outermost first) -/
def refusalOutcome (s : SiteId) (pyc : Outcome) : Outcome := escape pyc s.handlers.reverse .errForeign

structure RefusalCase where
  site : SiteId
  /-- which requirement of the C entry point fails: an atom of `outsideDomain`, or `result` -/
  atom : String
  /-- the class of the T2 lattice (key of the harness's representative: `<api> <class tokens>`) -/
  cls : String
  /-- the Python arm's answer on it -/
  py : Outcome
  deriving Repr

/-- names of the seven `outsideDomain` vectors, in order -/
def outsideNames : List String :=
  ["p1_on_curve", "s1", "fields_sized", "all_terms_nonzero_finite", "sig_valid", "msg_sized", "pub_key_proved"]

def refusalTable : List RefusalCase := [
  -- x-only multi-scalar sum: an x that is no x-coordinate (the term the bindings cannot read)
  ⟨.multi_mult_x_only__libsecp256k1_multi_mult, "all_terms_nonzero_finite", "mmultx notX", .errValue⟩,
  -- `_mult_sec_var`: unproven octets; a scalar nobody reduced (the Python arm reduces it and answers)
  ⟨.mult_sec__libsecp256k1_pubkey_tweak_mul, "p1_on_curve", "multsec xNotOnCurve", .errValue⟩,
  ⟨.mult_sec__libsecp256k1_pubkey_tweak_mul, "s1", "multsec gtN", .value⟩,
  ⟨.dsa_sign__libsecp256k1_sign, "pub_key_proved", "dsa.sign inRange len32 notOnCurve", DsaSign.py .inRange .len32 .notOnCurve⟩,
  ⟨.dsa_assert_as_valid__verify, "p1_on_curve", "dsa.assert len32 notOnCurve valid", DsaAssert.py .len32 .notOnCurve .valid⟩,
  ⟨.ssa_assert_as_valid__verify, "p1_on_curve", "ssa.assert notX valid", SsaAssert.py .notX .valid⟩,
  ⟨.taproot_tweaked_pubkey__tweak_add, "p1_on_curve", "tap.outroot notX", TapOutRoot.py .notX⟩,
  ⟨.taproot_tweaked_pubkey__tweak_add, "p1_on_curve", "tap.outpub xNotOnCurve", TapOutPub.py .xNotOnCurve⟩,
  ⟨.taproot_check_output_pubkey__tweak_add_check, "p1_on_curve", "tap.check len32 pNotX 0", TapCheck.py .len32 .pNotX⟩,
  ⟨.engine_dsa_verify__libsecp256k1_dsa_verify, "p1_on_curve", "eng.dsa len32 notOnCurve valid", EngineDsa.py .len32 .notOnCurve .valid⟩,
  ⟨.engine_dsa_verify__libsecp256k1_dsa_verify, "sig_valid", "eng.dsa len32 valid outOfRange", EngineDsa.py .len32 .valid .outOfRange⟩,
  ⟨.engine_dsa_verify__libsecp256k1_dsa_verify, "sig_valid", "eng.dsa len32 valid unparsable", EngineDsa.py .len32 .valid .unparsable⟩,
  ⟨.engine_dsa_verify__libsecp256k1_dsa_verify, "msg_sized", "eng.dsa other valid valid", EngineDsa.py .other .valid .valid⟩,
  ⟨.engine_ssa_verify__libsecp256k1_ssa_verify, "p1_on_curve", "eng.ssa notX valid", EngineSsa.py .notX .valid⟩,
  ⟨.engine_ssa_verify__libsecp256k1_ssa_verify, "fields_sized", "eng.ssa wrongLength valid", EngineSsa.py .wrongLength .valid⟩,
  ⟨.engine_ssa_verify__libsecp256k1_ssa_verify, "sig_valid", "eng.ssa valid outOfRange", EngineSsa.py .valid .outOfRange⟩,
  ⟨.sp_output_keys__delegated_output_keys, "s1", "sp.out zero valid", SpOut.py .zero .valid⟩,
  -- silent-payment scanning: an output entry that is no x-coordinate — THE recorded divergence (Python arm: skipped)
  ⟨.sp_scan_transaction_outputs__delegated_scan_outputs, "p1_on_curve", "sp.scan notX", SpScan.py .notX⟩,
  ⟨.sp_delegated_scan_outputs__prevouts_summary, "p1_on_curve", "sp.scan notX", SpScan.py .notX⟩,
  ⟨.sp_delegated_scan_outputs__scan_outputs, "p1_on_curve", "sp.scan notX", SpScan.py .notX⟩,
  ⟨.sp_scan_transaction_outputs__delegated_scan_outputs, "fields_sized", "sp.scan wrongLength", SpScan.py .wrongLength⟩,
  ⟨.sp_delegated_scan_outputs__prevouts_summary, "fields_sized", "sp.scan wrongLength", SpScan.py .wrongLength⟩,
  ⟨.sp_delegated_scan_outputs__scan_outputs, "fields_sized", "sp.scan wrongLength", SpScan.py .wrongLength⟩,
  -- `result`: every argument is inside the domain and the arithmetic ends at zero / infinity / a non-point
  ⟨.y_even__libsecp256k1_xonly_to_pubkey, "result", "yeven notX", .errValue⟩,
  ⟨.tweak_add__libsecp256k1_pubkey_tweak_add, "result", "tweakadd cancels valid", TweakAdd.py .cancels .valid⟩,
  ⟨.commit_nonce__prvkey_tweak_add, "result", "commit inRange 1", Commit.py .inRange true⟩,
  ⟨.bip32_prv_derivation__prvkey_tweak_add, "result", "bip32 prv normal cancels", Bip32.py .prv .normal .cancels⟩,
  ⟨.bip32_prv_derivation__prvkey_tweak_add, "result", "bip32 prv hardened cancels", Bip32.py .prv .hardened .cancels⟩,
  ⟨.dsa_recover_pub_key__libsecp256k1_recover_point, "result", "dsa.recover high len32 valid", Recover.py .high .len32 .valid⟩]

/-- the recorded divergence: silent-payment scanning of an output entry that is no x-coordinate -/
def RefusalCase.isSpScanNotX (e : RefusalCase) : Bool := e.cls == "sp.scan notX"

/-- line protocol: `refusal <i> py|bind` -/
def refusalOp : List String → Option String
  | [i, arm] => do
    let e ← refusalTable[i.toNat!]?
    pure (if arm == "py" then e.py else refusalOutcome e.site e.py).token
  | _ => none

end Btc.C04
