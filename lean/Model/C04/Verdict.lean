/-!
# C04 — T2 verdict tables

For each dual-path API: the finite lattice of input classes (one constructor per branch condition met on either arm)
and two decision functions, `py` and `bind`, read off the CHECK ORDER of the Python arm and of the bindings arm in
btclib's source.  The table is tied to the real code by the `verdict.*` streams of harness/c04.py (one representative
input per class, each arm run separately and compared with its own function).

Class completeness is argued per API in the comments: every `if` / `except` of the delegation site and of the
validation that precedes it maps to a boundary between two constructors.
-/
namespace Btc.C04

inductive Outcome where
  | value        -- a value is returned (for predicates: the verdict is part of the class, see `true_`/`false_`)
  | true_ | false_
  | errValue | errRuntime | errType
  | errForeign   -- an exception outside btclib.exceptions (itself a C19 violation)
  deriving DecidableEq, Repr

def Outcome.token : Outcome → String
  | .value => "value" | .true_ => "True" | .false_ => "False" | .errValue => "err value"
  | .errRuntime => "err runtime" | .errType => "err type" | .errForeign => "err foreign"

/-- scalar argument, as the caller passes it -/
inductive Scalar where
  | zero | inRange | eqN | gtN | negative      -- n+q and −q with 0 < q < n: both reduce to a non-zero residue
  deriving DecidableEq, Repr
def Scalar.all : List Scalar := [.zero, .inRange, .eqN, .gtN, .negative]
/-- `% ec.n` leaves a non-zero residue -/
def Scalar.reducedNonzero : Scalar → Bool
  | .zero | .eqN => false
  | _ => true
/-- `scalar_from_prv_key` accepts: 0 < q < n -/
def Scalar.isPrvKey : Scalar → Bool
  | .inRange => true
  | _ => false

/-- affine point argument -/
inductive Point where
  | generator | valid | infinity | offCurve | yOutOfRange
  | xOutOfRange   -- x = x₀ + k·p with (x₀, y) on the curve: refused by `is_on_curve` since fix d8821600 (it used to
                  -- range-check y only, and the bindings arm then left through a foreign OverflowError)
  deriving DecidableEq, Repr
def Point.all : List Point := [.generator, .valid, .infinity, .offCurve, .yOutOfRange, .xOutOfRange]

/-- `ec.require_on_curve(Q)`: common to both arms, before any dispatch -/
def Point.requireOnCurve : Point → Option Outcome
  | .offCurve | .yOutOfRange | .xOutOfRange => some .errValue
  | _ => none

/-! ## `curve.mult(m, Q)` and `PreparedPoint(Q).mult(m)` -/
namespace Mult
def py (_ : Scalar) (q : Point) : Outcome :=
  match q.requireOnCurve with
  | some e => e
  | none => .value            -- the Python ladders reduce x modulo p silently
def bind (m : Scalar) (q : Point) : Outcome :=
  match q.requireOnCurve with
  | some e => e
  | none =>
    if m.reducedNonzero then
      match q with
      | .generator => .value                 -- pubkey_from_prvkey
      | .infinity => .value                  -- `if Q[1]` declines: Python arm
      | .xOutOfRange => .errForeign          -- `_sec_from_point`: `Q[0].to_bytes(32)` would overflow (unreachable: refused above)
      | _ => .value
    else .value
end Mult

/-! ## `curve._tweak_add_var(P, t)` — `cancels`: P + t·G is the point at infinity -/
inductive Tweak where
  | zero | inRange | cancels
  deriving DecidableEq, Repr
def Tweak.all : List Tweak := [.zero, .inRange, .cancels]
namespace TweakAdd
def py (_ : Tweak) (p : Point) : Outcome :=
  match p.requireOnCurve with
  | some e => e
  | none => .value
def bind (_ : Tweak) (p : Point) : Outcome :=
  match p.requireOnCurve with
  | some e => e
  | none =>
    match p with
    | .infinity => .value                    -- `if P[1]` declines
    | .xOutOfRange => .errForeign
    | _ => .value                            -- `cancels`: ValueError suppressed, the Python pair answers INF
end TweakAdd

/-! ## `sec_point.bytes_from_prv_key_int(q)` -/
namespace PubKey
def py (q : Scalar) : Outcome := if q.reducedNonzero then .value else .errValue   -- bytes_from_point(INF)
def bind (q : Scalar) : Outcome := if q.reducedNonzero then .value else .errValue -- `if q` declines: same path
end PubKey

/-! ## `dh.diffie_hellman(d, QV, size)` -/
namespace Dh
def py (d : Scalar) (q : Point) : Outcome :=
  match q.requireOnCurve with       -- inside `mult`
  | some e => e
  | none =>
    match q with
    | .infinity => .errRuntime               -- "invalid (INF) key"
    | _ => if d.reducedNonzero then .value else .errRuntime   -- 0·Q = INF
def bind (d : Scalar) (q : Point) : Outcome :=
  if d.reducedNonzero then
    match q with
    | .infinity => .errRuntime               -- `QV[1]` in the guard (fix 89eda414): Python arm
    | .offCurve | .yOutOfRange | .xOutOfRange => .errValue  -- bytes_from_point → require_on_curve
    | _ => .value
  else py d q
end Dh

/-! ## SEC octets: `point_from_octets(octets, hybrid)` and `_sec_from_octets` -/
inductive Sec where
  | compressed | uncompressed | hybrid | hybridWrongParity
  | xNotOnCurve      -- 02/03 ‖ x, x < p no x-coordinate
  | xGeP             -- 02/03 ‖ x, x ≥ p
  | uncOffCurve | uncYZero | badPrefix | wrongLength
  deriving DecidableEq, Repr
def Sec.all : List Sec := [.compressed, .uncompressed, .hybrid, .hybridWrongParity, .xNotOnCurve, .xGeP, .uncOffCurve,
  .uncYZero, .badPrefix, .wrongLength]
namespace PointFromOctets
def py (hybridAsked : Bool) : Sec → Outcome
  | .compressed | .uncompressed => .value
  | .hybrid => if hybridAsked then .value else .errValue
  | _ => .errValue
/-- the only delegation is the lift `_y_even_var`: `_x_octets` declines x ≥ p, `to_pubkey`'s refusal is suppressed and the
Python lift raises -/
def bind (hybridAsked : Bool) : Sec → Outcome
  | .compressed | .uncompressed => .value
  | .hybrid => if hybridAsked then .value else .errValue
  | _ => .errValue
end PointFromOctets

/-! ## ECDSA verification: `dsa.assert_as_valid_(msg_hash, key, sig)` -/
inductive DsaSig where
  | valid | highS          -- verifies (highS: s > n/2, the other valid form)
  | wrong                  -- in range, r an x-coordinate, does not verify
  | outOfRange             -- r or s is 0 / ≥ n / negative, or r no x-coordinate: refused by Sig.assert_valid
  | unparsable             -- octets strict DER refuses
  deriving DecidableEq, Repr
def DsaSig.all : List DsaSig := [.valid, .highS, .wrong, .outOfRange, .unparsable]
inductive Key where
  | valid | hybrid | notOnCurve | wrongLength
  deriving DecidableEq, Repr
def Key.all : List Key := [.valid, .hybrid, .notOnCurve, .wrongLength]
inductive MsgLen where
  | len32 | other
  deriving DecidableEq, Repr
def MsgLen.all : List MsgLen := [.len32, .other]

namespace DsaAssert
def sigCheck : DsaSig → Option Outcome
  | .outOfRange | .unparsable => some .errValue
  | _ => none
/-- Python arm: Sig → challenge_(msg) → point_from_pub_key(key) → `_assert_as_valid_(lower_s=False)` -/
def py (m : MsgLen) (k : Key) (s : DsaSig) : Outcome :=
  match sigCheck s with
  | some e => e
  | none =>
    match m with
    | .other => .errValue
    | .len32 =>
      match k with
      | .valid => (match s with | .wrong => .errRuntime | _ => .value)
      | _ => .errValue                       -- hybrid included: point_from_octets(hybrid=False)
/-- bindings arm: Sig → bytes_from_octets(msg, 32) → `_sec_from_pub_key` (length, and since fix 8f6c8cd5 the 04 prefix of a
65-byte key: `ec_pubkey_parse` would take 06/07) → `dsa.verify(normalize=True)`; ValueError → "not a public key";
False → RuntimeError -/
def bind (m : MsgLen) (k : Key) (s : DsaSig) : Outcome :=
  match sigCheck s with
  | some e => e
  | none =>
    match m with
    | .other => .errValue
    | .len32 =>
      match k with
      | .valid => (match s with | .wrong => .errRuntime | _ => .value)
      | .hybrid => .errValue                 -- refused as octets by `_pub_keyinfo_from_pub_key`
      | _ => .errValue
end DsaAssert

/-! ## ECDSA signing: `dsa.sign_(msg_hash, prv_key, pub_key=…)` (RFC6979 nonce, lower s: the delegated shape) -/
inductive PubArg where
  | none_ | own | foreign | notOnCurve | hybrid | wrongLength
  deriving DecidableEq, Repr
def PubArg.all : List PubArg := [.none_, .own, .foreign, .notOnCurve, .hybrid, .wrongLength]
namespace DsaSign
/-- common prefix of both arms, before the dispatch: digest size, then `scalar_from_prv_key` -/
def pre (q : Scalar) (m : MsgLen) : Option Outcome :=
  match m with
  | .other => some .errValue
  | .len32 => if q.isPrvKey then none else some .errValue
/-- Python arm: `_python_key(pub_key)` parses and proves the key before anything is signed; the check under a key that is
not the signer's is refused as a ValueError by `_abort_unless_checked` -/
def py (q : Scalar) (m : MsgLen) (k : PubArg) : Outcome :=
  match pre q m with
  | some e => e
  | none => (match k with | .none_ | .own => .value | _ => .errValue)
/-- bindings arm: `_sec_from_pub_key` (length, 04 prefix of a 65-byte key), then `dsa.sign(…, pubkey=sec)`; its ValueError
is "not a public key" when `point_from_pub_key` refuses the key too, and the bindings' own message otherwise -/
def bind (q : Scalar) (m : MsgLen) (k : PubArg) : Outcome :=
  match pre q m with
  | some e => e
  | none => (match k with | .none_ | .own => .value | _ => .errValue)
end DsaSign

/-! ## BIP340 signing: `ssa.sign_(msg, prv_key, aux)` — any message length; aux must be 32 bytes -/
namespace SsaSign
def py (q : Scalar) (aux : MsgLen) : Outcome :=
  match aux with
  | .other => .errValue
  | .len32 => if q.isPrvKey then .value else .errValue
def bind (q : Scalar) (aux : MsgLen) : Outcome :=
  match aux with
  | .other => .errValue                     -- bytes_from_octets(aux, hf_len) precedes the dispatch
  | .len32 => if q.isPrvKey then .value else .errValue   -- scalar_from_prv_key inside the delegated branch
end SsaSign

/-! ## the script engine's wrapper `engine.script.dsa_verify(msg_hash, pub_key, sig)` (DER octets) -/
namespace EngineDsa
inductive EKey where
  | valid | hybrid | hybridWrongParity | notOnCurve | wrongLength
  deriving DecidableEq, Repr
def EKey.all : List EKey := [.valid, .hybrid, .hybridWrongParity, .notOnCurve, .wrongLength]
/-- Python arm: `dsa.verify_(msg, point_from_octets(key, hybrid=True), sig)`; every ValueError is False -/
def py (m : MsgLen) (k : EKey) (s : DsaSig) : Outcome :=
  match m, k, s with
  | .len32, .valid, .valid | .len32, .valid, .highS | .len32, .hybrid, .valid | .len32, .hybrid, .highS => .true_
  | _, _, _ => .false_
/-- bindings arm: `dsa_verify(msg, key, sig, normalize=True)` (fix 6426fb77; without it a high s did not verify) -/
def bind (m : MsgLen) (k : EKey) (s : DsaSig) : Outcome :=
  match m, k, s with
  | .len32, .valid, .valid | .len32, .valid, .highS | .len32, .hybrid, .valid | .len32, .hybrid, .highS => .true_
  | _, _, _ => .false_
end EngineDsa

/-! ## `dsa.recover_pub_key_(key_id, msg_hash, sig)` (r + n ≥ p, the generic case) -/
inductive KeyId where
  | low        -- 0, 1
  | high       -- 2, 3: x = r + n is no field element for a generic r
  | outside    -- < 0 or > 3
  deriving DecidableEq, Repr
def KeyId.all : List KeyId := [.low, .high, .outside]
namespace Recover
def py (kid : KeyId) (m : MsgLen) (s : DsaSig) : Outcome :=
  match DsaAssert.sigCheck s with
  | some e => e
  | none =>
    match m with
    | .other => .errValue
    | .len32 => (match kid with | .low => .value | _ => .errValue)
def bind (kid : KeyId) (m : MsgLen) (s : DsaSig) : Outcome :=
  match DsaAssert.sigCheck s with
  | some e => e
  | none =>
    match m with
    | .other => .errValue
    | .len32 =>
      match kid with
      | .low => .value
      | .high => .errValue          -- bindings ValueError → "invalid key_id or signature"
      | .outside => .errValue       -- guard `0 <= key_id <= 3` declines: the Python arm refuses
end Recover

/-! ## BIP340 verification: `ssa.assert_as_valid_(msg, x_only_key, sig)` -/
inductive XKey where
  | valid | notX | geP | wrongLength
  deriving DecidableEq, Repr
def XKey.all : List XKey := [.valid, .notX, .geP, .wrongLength]
inductive SsaSig where
  | valid | wrong | outOfRange | wrongLength
  deriving DecidableEq, Repr
def SsaSig.all : List SsaSig := [.valid, .wrong, .outOfRange, .wrongLength]
namespace SsaAssert
def py (k : XKey) (s : SsaSig) : Outcome :=
  match s with
  | .outOfRange | .wrongLength => .errValue
  | _ =>
    match k with
    | .valid => (match s with | .wrong => .errRuntime | _ => .value)
    | _ => .errValue
def bind (k : XKey) (s : SsaSig) : Outcome :=
  match s with
  | .outOfRange | .wrongLength => .errValue
  | _ =>
    match k with
    | .wrongLength | .geP => .errValue       -- `_x_from_bip340pub_key` / `_x_only_bytes`, before the call
    | .notX => .errValue                     -- bindings ValueError → invalid x
    | .valid => (match s with | .wrong => .errRuntime | _ => .value)
end SsaAssert

/-! ## silent payments: `scan_transaction_outputs(…, outputs_to_check)` for one output entry -/
inductive SpOutput where
  | none_          -- empty outputs_to_check
  | foreignX       -- an x-coordinate that pays someone else
  | ours           -- an output of this wallet
  | notX           -- 32 bytes that are no x-coordinate of the curve
  | wrongLength
  deriving DecidableEq, Repr
def SpOutput.all : List SpOutput := [.none_, .foreignX, .ours, .notX, .wrongLength]
namespace SpScan
/-- Python arm: `scan_outputs` compares candidate keys with the listed octets; an entry that is no point is never equal -/
def py : SpOutput → Outcome
  | .wrongLength => .errValue
  | _ => .value
/-- bindings arm: `silentpayments.scan_outputs` parses every entry as an x-only key; its refusal is re-raised -/
def bind : SpOutput → Outcome
  | .wrongLength => .errValue
  | .notX => .errValue
  | _ => .value
end SpScan

end Btc.C04
