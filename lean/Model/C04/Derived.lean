import Model.C04.Domain
import Model.C04.Verdict
/-!
# C04 — bindings-arm tables DERIVED from the generated guards

The `bind` functions of `Verdict.lean` are written by hand.  For the curve-level entry points whose whole dispatch is
one or two generated guards, this file computes the bindings-arm outcome instead from

* the GENERATED guard of the site (`Gen.BackendSites`, read off the source each run),
* the interpretation of an input class as an atom vector (what the guard's atomic tests evaluate to on that class,
  and which facts the preceding statements establish), and
* the documented contract of the C entry point: inside its domain (`Btc.C04.pre`) it answers the group-law value, outside
  it raises (a bare `ValueError` or worse — `errForeign` unless the site has a handler),

and `Props/C04.lean` proves the derived function equal to the Python arm's table on every class.  For THREE of the four
(`mult`, `bytes_from_prv_key_int`, `diffie_hellman`: no handler around the call) widening the guard, or no longer
establishing a fact, changes the generated definitions and the equality fails on the class let through (confirmed by
seeded edits of the generated file).  For `_tweak_add_var` it does NOT: the call stands inside `suppress(ValueError)`,
and `tweak_add_any_guard_agrees` says so explicitly — the agreement there is the handler's doing, for every guard; only
the established `require_on_curve` matters (a coordinate outside the field would overflow outside the handler).
-/
namespace Btc.C04
open Gen.Backend Gen.BackendSites

/-- the C entry point: its value on its domain; a refusal outside it -/
def cCall (inDomain : Bool) : Outcome := if inDomain then .value else .errForeign

/-- the facts the GENERATED `.established` of a site demands: atom `i` is set iff `established` fails without it.
(So `s1_reduced`, `p1_on_curve` … below are read off the translator's output, not typed here: if the source stops
establishing one, the atom is false, the domain fails and the derived outcome becomes `errForeign`.) -/
def factsOf (s : SiteId) : Atoms :=
  Atoms.ofBits ((List.range atomNames.length).map fun i => !(s.established (allTrueBut [i])))

/-- atoms of `mult(m, Q)` / `diffie_hellman(d, Q)` / `_tweak_add_var(Q, t)` at site `s`, on secp256k1 with the bindings
serving: the established facts come from `factsOf s`; the rest is what the guard's atomic tests evaluate to on the class -/
def atomsScalarPoint (s : SiteId) (nonzero : Bool) (q : Point) : Atoms :=
  let f := factsOf s
  { f with
    flag := true, ec_is_secp256k1 := true, hf_none_or_sha256 := true,
    s1_nonzero := nonzero,
    p1_is_generator := q == .generator,
    p1_finite := q != .infinity,
    -- `require_on_curve` precedes the dispatch IF the generated facts say so; then it holds of what was not refused
    p1_on_curve := f.p1_on_curve && q.requireOnCurve == none }

namespace Mult
/-- `_mult_checked` as its two generated guards dispatch it -/
def bindDerived (m : Scalar) (q : Point) : Outcome :=
  match q.requireOnCurve with
  | some e => e
  | none =>
    let x1 := atomsScalarPoint .mult_checked__libsecp256k1_pubkey_from_prvkey m.reducedNonzero q
    let x := atomsScalarPoint .mult_checked__libsecp256k1_multi_mult m.reducedNonzero q
    if mult_checked__libsecp256k1_pubkey_from_prvkey x1 then cCall (pre .mult_checked__libsecp256k1_pubkey_from_prvkey x1)
    else if mult_checked__libsecp256k1_multi_mult x then cCall (pre .mult_checked__libsecp256k1_multi_mult x)
    else py m q
end Mult

namespace PubKey
def bindDerived (q : Scalar) : Outcome :=
  let x := atomsScalarPoint .bytes_from_prv_key_int__libsecp256k1_pubkey_from_prvkey q.reducedNonzero .generator
  if bytes_from_prv_key_int__libsecp256k1_pubkey_from_prvkey x
  then cCall (pre .bytes_from_prv_key_int__libsecp256k1_pubkey_from_prvkey x) else py q
end PubKey

namespace Dh
/-- `diffie_hellman`: `bytes_from_point(QV)` is evaluated as the call's argument (it refuses what is off the curve) -/
def bindDerived (d : Scalar) (q : Point) : Outcome :=
  let x := atomsScalarPoint .dh__pubkey_tweak_mul d.reducedNonzero q
  if dh__pubkey_tweak_mul x then
    (match q.requireOnCurve with
     | some e => e
     | none => cCall (pre .dh__pubkey_tweak_mul x))
  else py d q
end Dh

namespace TweakAdd
/-- `_tweak_add_var` dispatched by an ARBITRARY guard `g`: the call stands inside `suppress(ValueError)`, so whatever the
guard lets through that the bindings refuse (a key that is no finite point, a sum at infinity) falls to the Python pair.
What is NOT handled is an exception that is no ValueError: `_sec_from_point` overflowing on a coordinate outside the
field, which the established `require_on_curve` rules out (read off `factsOf`). -/
def bindWith (g : Atoms → Bool) (t : Tweak) (p : Point) : Outcome :=
  match p.requireOnCurve with
  | some e => e
  | none =>
    let x := atomsScalarPoint .tweak_add__libsecp256k1_pubkey_tweak_add (t != .zero) p
    if g x then
      (if !x.p1_on_curve && p != .infinity then .errForeign     -- coordinates never range-checked: OverflowError
       else if pre .tweak_add__libsecp256k1_pubkey_tweak_add x then (if t == .cancels then py t p else .value)
       else py t p)          -- handled refusal: Python arm
    else py t p
/-- with the generated guard -/
def bindDerived (t : Tweak) (p : Point) : Outcome := bindWith tweak_add__libsecp256k1_pubkey_tweak_add t p
end TweakAdd

end Btc.C04
