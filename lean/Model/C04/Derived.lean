import Model.C04.Domain
import Model.C04.Verdict
/-!
# C04 — bindings-arm tables DERIVED from the generated guards

The `bind` functions of `Verdict.lean` are written by hand.  For the curve-level entry points whose whole dispatch is
one or two generated guards, this file computes the bindings-arm outcome instead from

* the GENERATED guard of the site (`Gen.BackendSites`, read off the source each run),
* the interpretation of an input class as an atom vector (what the guard's atomic tests evaluate to on that class,
  and which facts the preceding statements establish), and
* the documented contract of the C entry point: inside its domain (`Btc.C04.pre`) it answers the group-law value, outside
  it raises (a bare `ValueError` or worse — `errForeign` unless the site has a handler),

and `Props/C04.lean` proves the derived function equal to the Python arm's table on every class.  Widening a guard in
the source changes the generated definition and the equality fails on the class let through.
-/
namespace Btc.C04
open Gen.Backend Gen.BackendSites

/-- the C entry point: its value on its domain; a refusal outside it -/
def cCall (inDomain : Bool) : Outcome := if inDomain then .value else .errForeign

/-- atoms of `mult(m, Q)` / `diffie_hellman(d, Q)` / `_tweak_add_var(Q, t)` on secp256k1 with the bindings serving -/
def atomsScalarPoint (nonzero : Bool) (q : Point) : Atoms :=
  { Atoms.ofBits [] with
    flag := true, ec_is_secp256k1 := true, hf_none_or_sha256 := true,
    s1_nonzero := nonzero,
    s1_reduced := true,                                  -- `% ec.n` precedes the dispatch (established fact)
    p1_is_generator := q == .generator,
    p1_finite := q != .infinity,
    p1_on_curve := q.requireOnCurve == none }            -- `require_on_curve` precedes the dispatch

namespace Mult
/-- `_mult_checked` as its two generated guards dispatch it -/
def bindDerived (m : Scalar) (q : Point) : Outcome :=
  match q.requireOnCurve with
  | some e => e
  | none =>
    let x := atomsScalarPoint m.reducedNonzero q
    if mult_checked__libsecp256k1_pubkey_from_prvkey x then cCall (pre .mult_checked__libsecp256k1_pubkey_from_prvkey x)
    else if mult_checked__libsecp256k1_multi_mult x then cCall (pre .mult_checked__libsecp256k1_multi_mult x)
    else py m q
end Mult

namespace PubKey
def bindDerived (q : Scalar) : Outcome :=
  let x := atomsScalarPoint q.reducedNonzero .generator
  if bytes_from_prv_key_int__libsecp256k1_pubkey_from_prvkey x
  then cCall (pre .bytes_from_prv_key_int__libsecp256k1_pubkey_from_prvkey x) else py q
end PubKey

namespace Dh
/-- `diffie_hellman`: `bytes_from_point(QV)` is evaluated as the call's argument (it refuses what is off the curve) -/
def bindDerived (d : Scalar) (q : Point) : Outcome :=
  let x := atomsScalarPoint d.reducedNonzero q
  if dh__pubkey_tweak_mul x then
    (match q.requireOnCurve with
     | some e => e
     | none => cCall (pre .dh__pubkey_tweak_mul x))
  else py d q
end Dh

namespace TweakAdd
/-- `_tweak_add_var`: the call stands inside `suppress(ValueError)`; a sum at infinity is the one refusal inside the
domain, and it falls through to the Python pair -/
def bindDerived (t : Tweak) (p : Point) : Outcome :=
  match p.requireOnCurve with
  | some e => e
  | none =>
    let x := atomsScalarPoint (t != .zero) p
    if tweak_add__libsecp256k1_pubkey_tweak_add x then
      (if pre .tweak_add__libsecp256k1_pubkey_tweak_add x then (if t == .cancels then py t p else .value)
       else py t p)          -- handled refusal: Python arm
    else py t p
end TweakAdd

end Btc.C04
