import Generated.Backend
/-!
# C04 — T3: the backend switch as a state machine

`curve.set_libsecp256k1_serving(serving=…)`: `assert_type; refuse True when the bindings are not installed; global;
assign` (the statement shape is checked by tools/specs/backend.py, which also emits the names the function declares
`global` and the targets it assigns).  The state of the package is the flag plus everything else (`rest`).
-/
namespace Btc.C04

structure PkgState (ρ : Type) where
  /-- `curve._libsecp256k1_available` -/
  available : Bool
  /-- every other module global of the package -/
  rest : ρ

inductive SwitchErr where
  | value
  deriving DecidableEq, Repr

/-- `set_libsecp256k1_serving(serving=b)` with `INSTALLED = installed` -/
def setServing {ρ : Type} (installed : Bool) (b : Bool) (st : PkgState ρ) : Except SwitchErr (PkgState ρ) :=
  if b && !installed then .error .value else .ok { st with available := b }

/-- `is_libsecp256k1_serving()` -/
def isServing {ρ : Type} (st : PkgState ρ) : Bool := st.available

/-- a history of switch requests; a refused request leaves the state as it was -/
def runHistory {ρ : Type} (installed : Bool) (st : PkgState ρ) : List Bool → PkgState ρ
  | [] => st
  | b :: bs =>
    match setServing installed b st with
    | .ok st' => runHistory installed st' bs
    | .error _ => runHistory installed st bs

/-- the dispatch predicate reads the state through the flag alone -/
def serves {ρ : Type} (st : PkgState ρ) (ecIsNotSecp256k1 hfOk : Bool) : Bool :=
  Gen.Backend.libsecp256k1_serves st.available ecIsNotSecp256k1 hfOk

end Btc.C04
