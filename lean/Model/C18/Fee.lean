import Generated.Fee
/-
C18 fee layer.  The arithmetic is NOT written here: `fee_from_vsize`, `package_fee`,
`dust_threshold`, `valid_sats_amount`, `Tx.weight`, `Tx.vsize`, … are the translated source
(`Gen.Fee.*`, regenerated from /repo on every run).  What is hand-written:

* `feeRate`      — the guard of `FeeRate.__post_init__` (int field, never negative): the object the
                   translated functions receive as the integer `rate`;
* `isSegwit`     — `script_pub_key.is_segwit` = `assert_segwit` under `_is_funct` (shape test only);
* public entry points = guard, then the translated function (the order in which the real call
  evaluates them: the FeeRate is constructed before the function is entered);
* `Core.*`       — a transcription of Bitcoin Core's `GetDustThreshold` (policy/policy.cpp),
                   `CScript::IsUnspendable`, `CScript::IsWitnessProgram`, `GetSizeOfCompactSize`
                   and `CFeeRate::GetFee` (ceiling), the specification `dust_threshold` is proved equal to.
-/
namespace Btc.C18
open Btc Btc.Py

/-- `FeeRate(sats_per_kvbyte=r)`: refused when negative. -/
def feeRate (r : Int) : Except PyErr Int :=
  if r < 0 then .error .value else .ok r

/-- `assert_segwit` as a predicate (`is_segwit`): version opcode OP_0 / OP_1..OP_16, one push of
    2..40 bytes, and nothing else. -/
def isSegwit (s : Bytes) : Bool :=
  match s with
  | [] => false
  | v :: rest =>
    if ¬ (v.toNat = 0 ∨ (0x51 ≤ v.toNat ∧ v.toNat ≤ 0x60)) then false
    else match rest with
      | [] => false
      | p :: _ =>
        if ¬ (2 ≤ p.toNat ∧ p.toNat ≤ 40) then false
        else s.length == p.toNat + 2

/-- `fee_from_vsize(vsize, FeeRate(sats_per_kvbyte=rate))` -/
def feeFromVsize (vsize rate : Int) : Except PyErr Int := do
  let r ← feeRate rate
  Gen.Fee.fee_from_vsize vsize r

/-- `package_fee(vsize, FeeRate(rate), ancestor_vsize=…, ancestor_fee=…)` -/
def packageFee (vsize rate ancestorVsize ancestorFee : Int) : Except PyErr Int := do
  let r ← feeRate rate
  Gen.Fee.package_fee vsize ancestorVsize ancestorFee r

/-- `dust_threshold(script_pub_key, FeeRate(rate))` -/
def dustThreshold (spk : Bytes) (rate : Int) : Except PyErr Int := do
  let r ← feeRate rate
  Gen.Fee.dust_threshold spk r (isSegwit spk)

namespace Core

/-- serialize.h `GetSizeOfCompactSize` -/
def sizeOfCompactSize (n : Nat) : Nat :=
  if n < 253 then 1 else if n ≤ 0xFFFF then 3 else if n ≤ 0xFFFFFFFF then 5 else 9

/-- script.h `CScript::IsUnspendable`: `(size() > 0 && *begin() == OP_RETURN) || size() > MAX_SCRIPT_SIZE` -/
def beginsWith (s : Bytes) (op : Nat) : Bool :=
  match s with | [] => false | b :: _ => b.toNat == op
def isUnspendable (s : Bytes) : Bool :=
  beginsWith s 0x6a || decide (s.length > 10000)

/-- script.cpp `CScript::IsWitnessProgram` -/
def isWitnessProgram (s : Bytes) : Bool :=
  if s.length < 4 ∨ s.length > 42 then false
  else match s with
    | v :: p :: _ =>
      if v.toNat ≠ 0 ∧ (v.toNat < 0x51 ∨ v.toNat > 0x60) then false
      else p.toNat + 2 == s.length
    | _ => false

/-- feerate.cpp `CFeeRate::GetFee` for a non-negative rate: the fee rounded up. -/
def getFee (satPerKvB size : Nat) : Nat := (satPerKvB * size + 999) / 1000

/-- policy.cpp `GetDustThreshold(txout, dustRelayFee)` -/
def getDustThreshold (spk : Bytes) (dustRelayFee : Nat) : Nat :=
  if isUnspendable spk then 0
  else
    let nSize := 8 + sizeOfCompactSize spk.length + spk.length          -- GetSerializeSize(txout)
    let nSize := if isWitnessProgram spk then nSize + (32 + 4 + 1 + (107 / 4) + 4)
                 else nSize + (32 + 4 + 1 + 107 + 4)
    getFee dustRelayFee nSize

end Core
end Btc.C18
