import Model.C10.Spend
import Model.C18.Fee
/-
`psbt/psbt_size.py` (what a signed input will push, per script type) and the weight arithmetic of
`Psbt.weight_estimate` / `Tx.weight` over sizes.  Function by function:
  _pub_key_size, _solution_sizes, _asked, _taproot_sig_size (translated: Gen.Fee.taproot_sig_size),
  _p2wsh_witness_sizes, _taproot_witness_sizes, estimated_input_sizes.
`type_and_payload` is a PARAMETER `tp` (script classification is C06/C08/C10's subject); the driver
instantiates it with `typeAndPayload` below, built from C10's predicates, for the correspondence stream.
`H` is hash160; `sizer` is what the caller's SolutionSizer would answer for this input (none = no
sizer, or a sizer answering None).  The finalized layouts the estimates are compared with are C10's
(`Btc.Spend.finalizedInput`, `finalizedTaproot`).
-/
namespace Btc.C18
open Btc Btc.Script Btc.Spend

inductive Ty | p2pk | p2ms | p2pkh | p2sh | p2wpkh | p2wsh | p2tr | other
  deriving DecidableEq, Repr

/-- the fields of a `PsbtIn` (and of the spent output) `estimated_input_sizes` reads -/
structure SizeIn where
  /-- `_script_pub_key(psbt_in, tx_in)`; none = "no utxo" -/
  spk : Option Bytes
  redeemScript : Bytes := []
  witnessScript : Bytes := []
  /-- keys of `hd_key_paths`, insertion order -/
  hdKeys : List Bytes := []
  sigHashType : Option Nat := none
  hasLeafScripts : Bool := false
  finalScriptSig : Bytes := []
  finalWitness : List Bytes := []

def SIG : Nat := Gen.Fee.SIG_SIZE.toNat
def KEY : Nat := Gen.Fee.COMPRESSED_PUB_KEY_SIZE.toNat

def zeros (n : Nat) : Bytes := List.replicate n 0

/-- `_pub_key_size` (translated: `Gen.Fee.pub_key_size`) on the fields of the input -/
def pubKeySize (H : Bytes → Bytes) (pin : SizeIn) (payload : Bytes) : Nat :=
  (Gen.Fee.pub_key_size H pin.hdKeys payload).toNat

/-- the `m` of `_solution_sizes`' p2ms branch: the translated source expression on the first byte of the payload -/
def p2msM (payload : Bytes) : Nat := (Gen.Fee.p2ms_threshold ((Btc.Script.Core.getB payload 0 : Nat) : Int)).toNat

/-- `_solution_sizes` -/
def solutionSizes (H : Bytes → Bytes) (ty : Ty) (payload : Bytes) (pin : SizeIn) : Option (List Nat) :=
  match ty with
  | .p2pkh => some [SIG, pubKeySize H pin payload]
  | .p2pk => some [SIG]
  | .p2wpkh => some [SIG, KEY]
  | .p2ms => some (0 :: List.replicate (p2msM payload) SIG)
  | _ => none

/-- `_asked` -/
def asked (sizer : Option (List Nat)) : Except Err (List Nat) :=
  match sizer with | some s => .ok s | none => .error .value

/-- `_taproot_sig_size` (translated) on the optional field: `None` and 0 are both falsy -/
def taprootSigSize (pin : SizeIn) : Nat := (Gen.Fee.taproot_sig_size (pin.sigHashType.getD 0 : Nat)).toNat

/-- `_p2wsh_witness_sizes` -/
def p2wshWitnessSizes (tp : Bytes → Ty × Bytes) (H : Bytes → Bytes) (sizer : Option (List Nat)) (pin : SizeIn) :
    Except Err (List Nat) :=
  if pin.witnessScript.isEmpty then .error .value
  else
    let (ity, ipl) := tp pin.witnessScript
    match solutionSizes H ity ipl pin with
    | none => asked sizer
    | some sizes => .ok (sizes ++ [pin.witnessScript.length])

/-- `_taproot_witness_sizes` -/
def taprootWitnessSizes (sizer : Option (List Nat)) (pin : SizeIn) : Except Err (List Nat) :=
  if pin.hasLeafScripts then asked sizer else .ok [taprootSigSize pin]

/-- `estimated_input_sizes`: (script_sig size, size of each witness stack element) -/
def estimatedInputSizes (tp : Bytes → Ty × Bytes) (H : Bytes → Bytes) (sizer : Option (List Nat)) (pin : SizeIn) :
    Except Err (Nat × List Nat) :=
  if !pin.finalScriptSig.isEmpty || !pin.finalWitness.isEmpty then
    .ok (pin.finalScriptSig.length, pin.finalWitness.map List.length)
  else match pin.spk with
  | none => .error .value
  | some spk =>
    let (ty0, pl0) := tp spk
    if ty0 = .p2sh ∧ pin.redeemScript.isEmpty then .error .value
    else
      let redeem : Bytes := if ty0 = .p2sh then pin.redeemScript else []
      let (ty, payload) := if ty0 = .p2sh then tp pin.redeemScript else (ty0, pl0)
      let wrapper : List Bytes := if redeem.isEmpty then [] else [redeem]
      if ty = .p2wsh then
        (p2wshWitnessSizes tp H sizer pin).map fun w => ((serializePushes wrapper).length, w)
      else if ty = .p2tr then
        (taprootWitnessSizes sizer pin).map fun w => ((serializePushes wrapper).length, w)
      else
        let sizes? : Except Err (List Nat) :=
          match solutionSizes H ty payload pin with
          | some s => .ok s
          | none => asked sizer
        sizes?.map fun sizes =>
          if ty = Ty.p2wpkh then ((serializePushes wrapper).length, sizes)
          else ((serializePushes (sizes.map zeros ++ wrapper)).length, [])

/-! ## weight over sizes (`TxIn._serialized_size`, `Witness._serialized_size`, `Tx._serialized_size`, `Tx.weight`) -/

abbrev cs := Core.sizeOfCompactSize

/-- `TxIn._serialized_size`: outpoint, script_sig behind its length, sequence -/
def txInSize (scriptSig : Nat) : Nat := 36 + (cs scriptSig + scriptSig) + 4
/-- `Witness._serialized_size` -/
def witnessSize (stack : List Nat) : Nat := cs stack.length + (stack.map fun n => cs n + n).sum

/-- `Tx._serialized_size(include_witness)` from the sizes of its parts; an input is (script_sig size,
    witness element sizes); `outs` = Σ TxOut sizes -/
def txSize (includeWitness : Bool) (ins : List (Nat × List Nat)) (nOut outs : Nat) : Nat :=
  let segwit := includeWitness && ins.any fun i => !i.2.isEmpty
  8 + (if segwit then 2 else 0) + cs ins.length + (ins.map fun i => txInSize i.1).sum + cs nOut + outs +
    (if segwit then (ins.map fun i => witnessSize i.2).sum else 0)

/-- `Tx.weight` (translated formula) over `txSize` -/
def txWeight (ins : List (Nat × List Nat)) (nOut outs : Nat) : Int :=
  Gen.Fee.tx_weight (txSize false ins nOut outs) (txSize true ins nOut outs)

/-- the sizes of a finalized input as C10's finalizer lays it out -/
def sizesOf (fin : Bytes × List Bytes) : Nat × List Nat := (fin.1.length, fin.2.map List.length)

/-! ## a concrete `type_and_payload` for the driver (C10's predicates; p2pk by shape + key validity) -/

def isP2pk (validKey : Bytes → Bool) (s : Bytes) : Bool :=
  (s.length == 35 || s.length == 67) && Core.getB s 0 + 2 == s.length && Core.getB s (s.length - 1) == 0xac &&
    validKey ((s.drop 1).take (s.length - 2))

def typeAndPayload (validKey : Bytes → Bool) (s : Bytes) : Ty × Bytes :=
  if isP2pk validKey s then (.p2pk, (s.drop 1).take (s.length - 2))
  else if isP2ms validKey s then (.p2ms, s.take (s.length - 1))
  else if isP2pkh s then (.p2pkh, (s.drop 3).take 20)
  else if isP2sh s then (.p2sh, (s.drop 2).take 20)
  else if isP2wpkh s then (.p2wpkh, s.drop 2)
  else if isP2wsh s then (.p2wsh, s.drop 2)
  else if isP2tr s then (.p2tr, s.drop 2)
  else (.other, s)

end Btc.C18
