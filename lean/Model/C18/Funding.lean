import Model.C18.Fee
/-
`tx_builder.build_psbt`: the change-or-fee decision, with the size estimator as a parameter.

Everything object-shaped is abstracted to the numbers the decision reads:
  nIn       = len(inputs)  ("no inputs" is refused before anything else is read)
  totalIn   = Σ prevouts(psbt).value            totalOut = Σ outputs.value
  nOut      = len(outputs)                      change   = change_script_pub_key (None | bytes)
  rate, dustRate = the two FeeRates (already constructed, so ≥ 0 in every real call)
  est b     = psbt.vsize_estimate(sizer) of the psbt *with* (b = true) / *without* (b = false) the
              change output — any function, it may raise (an input whose type the psbt does not determine)
The arithmetic it calls is the translated source (`Gen.Fee.fee_from_vsize`, `Gen.Fee.dust_threshold`).
`psbt.assert_valid()` on the change branch is the amount rule it can still trip: an output above
MAX_MONEY or outputs summing above it.  `prevouts(psbt)` has already refused `totalOut > MAX_MONEY`.
-/
namespace Btc.C18
open Btc Btc.Py

structure FundArgs where
  /-- `len(inputs)` -/
  nIn : Nat
  totalIn : Int
  totalOut : Int
  nOut : Nat
  rate : Int
  change : Option Bytes
  dustRate : Int

/-- what `FundedPsbt` says: the fee, and the amount of the change output when there is one
    (`change_index = nOut`), `none` when `change_index is None`. -/
structure Funded where
  fee : Int
  change : Option Int
  deriving DecidableEq, Repr

/-- the exit every path without a change output takes -/
def fundNoChange (a : FundArgs) (est : Bool → Except PyErr Int) : Except PyErr Funded := do
  if a.nOut = 0 then throw .value                       -- "no outputs"
  let v ← est false
  let owed ← Gen.Fee.fee_from_vsize v a.rate
  if a.totalIn - a.totalOut < owed then throw .value    -- "the inputs are worth …"
  return ⟨a.totalIn - a.totalOut, none⟩

def fund (a : FundArgs) (est : Bool → Except PyErr Int) : Except PyErr Funded := do
  if a.nIn = 0 then throw .value                        -- "no inputs"
  if a.totalOut > Gen.Fee.MAX_SATOSHI then throw .value -- prevouts(psbt) → Tx.assert_valid
  match a.change with
  | none => fundNoChange a est
  | some script =>
    let v ← est true
    let fee ← Gen.Fee.fee_from_vsize v a.rate
    let change := a.totalIn - a.totalOut - fee
    let dust ← dustThreshold script a.dustRate
    if change ≥ dust then
      if a.totalOut + change > Gen.Fee.MAX_SATOSHI then throw .value   -- psbt.assert_valid()
      return ⟨fee, some change⟩
    else fundNoChange a est

end Btc.C18
