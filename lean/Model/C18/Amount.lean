import Model.C18.Fee
/-
`amount.py` and the `FeeRate` unit conversions, with Python's `Decimal` modelled as the exact
rational it denotes: sign, coefficient, exponent (value = ±coeff·10^exp), or NaN / ±Infinity.
Parsing a string into a Decimal is Python's (the harness hands the model `Decimal(str(x)).as_tuple()`);
what is modelled is every decision taken on the parsed value.  The Decimal arithmetic of the source
is modelled as EXACT: the source pins a sufficient precision in a local context for each product /
quantize / normalize, so NO field of the caller's decimal context enters (the source works in a context of its own: precision, exponent
range, traps); harness oracles `amount.context`, `amount.traps`, `amount.anycontext`, `feerate.context` check exactly that
on the real code, varying every field of decimal.Context.
-/
namespace Btc.C18
open Btc Btc.Py

inductive Dec
  | nan
  | inf (neg : Bool)
  | fin (neg : Bool) (coeff : Nat) (exp : Int)
  deriving DecidableEq, Repr

/-- value · 10^k when that is a whole number (of absolute value `n`), else none -/
def scaled (k : Nat) (coeff : Nat) (exp : Int) : Option Nat :=
  let e := exp + k
  if coeff = 0 then some 0          -- zero at any exponent (no power of ten is built for it)
  else if e ≥ 0 then some (coeff * 10 ^ e.toNat)
  else
    let d := 10 ^ (-e).toNat
    if coeff % d = 0 then some (coeff / d) else none

/-- |value| ≤ m, for a natural m -/
def absLe (coeff : Nat) (exp : Int) (m : Nat) : Bool :=
  if coeff = 0 then true
  else if exp ≥ 0 then coeff * 10 ^ exp.toNat ≤ m else coeff ≤ m * 10 ^ (-exp).toNat

/-- `Decimal.normalize()`: trailing zeros of the coefficient moved into the exponent; zero is `0E0`. -/
def stripZeros : Nat → Nat → Int → Nat × Int
  | 0, c, e => (c, e)
  | fuel + 1, c, e => if c = 0 then (0, 0) else if c % 10 = 0 then stripZeros fuel (c / 10) (e + 1) else (c, e)
def normalize (c : Nat) (e : Int) : Nat × Int := stripZeros (c + 1) c e

/-- `valid_btc_amount(amount)` (dust = 0) on the parsed Decimal: finite, 0 ≤ btc ≤ _MAX_BITCOIN,
    and `btc == btc.quantize(_BITCOIN_PER_SATOSHI)` — no fraction of a satoshi. -/
def validBtcAmount (d : Dec) : Except PyErr (Bool × Nat × Int) :=
  match d with
  | .nan => .error .value
  | .inf _ => .error .value
  | .fin neg c e =>
    if ¬ ((¬ neg ∨ c = 0) ∧ absLe c e Gen.Fee.MAX_BITCOIN.toNat) then .error .value
    else if (scaled Gen.Fee.BTC_DECIMALS.toNat c e).isNone then .error .value
    else .ok (neg, c, e)

/-- `sats_from_btc`: `int(btc * _SATOSHI_PER_BITCOIN)` -/
def satsFromBtc (d : Dec) : Except PyErr Int := do
  let (_, c, e) ← validBtcAmount d
  -- btc·10^8 with 10^8 = _SATOSHI_PER_BITCOIN (Props.C18.amount_constants): a whole number here
  return ((scaled Gen.Fee.BTC_DECIMALS.toNat c e).getD 0 : Nat)

/-- `btc_from_sats`: `(sats * _BITCOIN_PER_SATOSHI).normalize()` after `valid_sats_amount` -/
def btcFromSats (s : Int) : Except PyErr (Nat × Int) := do
  let v ← Gen.Fee.valid_sats_amount s 0
  return normalize v.toNat (-Gen.Fee.BTC_DECIMALS)

/-- number of decimal digits of a non-zero coefficient (0 for 0; Python never asks: `rate and …`) -/
def decDigitsAux : Nat → Nat → Nat
  | 0, _ => 0
  | fuel + 1, n => if n = 0 then 0 else 1 + decDigitsAux fuel (n / 10)
def decDigits (n : Nat) : Nat := decDigitsAux n n

/-- `Decimal.adjusted()`: the exponent of the most significant digit -/
def adjusted (c : Nat) (e : Int) : Int := (decDigits c : Int) + e - 1

/-- `FeeRate.from_sats_per_vbyte`: a non-zero quote whose leading digit sits above 10^15 sat/vB
    (more than MAX_MONEY for one virtual byte) or below 10^-3 is refused *before* the ratio is taken
    (no 10^huge is ever built); then exact ratio × 1000, refused when not whole; then FeeRate's guard -/
def feeRateFromSatsPerVbyte (d : Dec) : Except PyErr Int :=
  match d with
  | .nan => .error .value
  | .inf _ => .error .value
  | .fin neg c e =>
    if c ≠ 0 ∧ adjusted c e > 15 then .error .value
    else if c ≠ 0 ∧ adjusted c e < -3 then .error .value
    else match scaled 3 c e with
    | none => .error .value                       -- finer than a millisatoshi per vbyte
    | some n => feeRate (if neg then -(n : Int) else n)

/-- `FeeRate.sats_per_vbyte`: `Decimal(f"{whole}.{milli:03d}").normalize()` -/
def satsPerVbyte (kvb : Int) : Nat × Int := normalize kvb.toNat (-3)

/-- `FeeRate.from_btc_per_kvbyte` (None is refused before; the harness never sends it to the model) -/
def feeRateFromBtcPerKvbyte (d : Dec) : Except PyErr Int := do
  let s ← satsFromBtc d
  feeRate s

end Btc.C18
