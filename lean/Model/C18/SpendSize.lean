import Model.C18.Fee
/-
What a signature weighs (`psbt_size`: SIG_SIZE, SCHNORR_SIG_SIZE): the length of a DER-encoded ECDSA
signature `30 len 02 len(r) r 02 len(s) s`, integers minimal big-endian with a zero byte in front when
the top bit is set.  Tied to `dsa.Sig.serialize` by the `der.len` stream.
-/
namespace Btc.C18
open Btc Btc.Py

/-- bytes of a DER INTEGER holding the natural x -/
def derIntLen (x : Nat) : Nat := natBitLength x / 8 + 1

/-- length of the DER signature (without the sighash byte) -/
def derSigLen (r s : Nat) : Nat := 6 + derIntLen r + derIntLen s

end Btc.C18
