import Model.C18.PsbtSize
/-
`Tx._serialized_size` and `Block._serialized_size` as sums: the translated source
(`Gen.Fee.tx_serialized_size`, `Gen.Fee.block_serialized_size`: the fixed fields, the CompactSize of every
count — `Gen.VarInt.size`, the translated `var_int._size` — and the sum of the items' own sizes) applied to
the numbers a transaction / a block is read for.  `Tx.weight` / `Block.weight` are the translated formulas
over these.
-/
namespace Btc.C18
open Btc

/-- what `Tx._serialized_size` reads of a transaction: `is_segwit`, the two counts, Σ `TxIn._serialized_size`,
    Σ `TxOut._serialized_size`, Σ `Witness._serialized_size` -/
structure TxParts where
  isSegwit : Bool
  nIn : Nat
  nOut : Nat
  ins : Nat
  outs : Nat
  wits : Nat
  deriving Repr, DecidableEq

/-- `Tx._serialized_size(include_witness)` (translated) -/
def txSer (iw : Bool) (t : TxParts) : Int :=
  Gen.Fee.tx_serialized_size iw t.isSegwit t.nIn t.nOut t.ins t.outs t.wits

/-- `Tx.weight` (translated) -/
def txW (t : TxParts) : Int := Gen.Fee.tx_weight (txSer false t) (txSer true t)

/-- `Block._serialized_size(include_witness)` (translated); `hdr` is `BlockHeader._serialized_size()` (80) -/
def blockSer (hdr : Int) (iw : Bool) (txs : List TxParts) : Int :=
  Gen.Fee.block_serialized_size hdr txs.length (txs.map (txSer iw)).sum

/-- `Block.weight` (translated) -/
def blockW (hdr : Int) (txs : List TxParts) : Int :=
  Gen.Fee.block_weight (blockSer hdr false txs) (blockSer hdr true txs)

/-- the parts of the placeholder transaction `Psbt.weight_estimate` builds from per-input sizes -/
def partsOf (ins : List (Nat × List Nat)) (nOut outs : Nat) : TxParts :=
  ⟨ins.any fun i => !i.2.isEmpty, ins.length, nOut, (ins.map fun i => txInSize i.1).sum, outs,
   (ins.map fun i => witnessSize i.2).sum⟩

end Btc.C18
