import Model.C08.Parse
import Generated.Fee
/-
`script/sig_ops.py: sig_op_count` — Core's `GetSigOpCount(false)`: walk the op codes
(`op_code_spans`, C08's `opCodeSpans`), one per CHECKSIG(VERIFY), MAX_PUBKEYS_PER_MULTISIG per
CHECKMULTISIG(VERIFY), stop silently where the script stops parsing.
-/
namespace Btc.C18
open Btc Btc.Script

def sigOpCost (op : Nat) : Nat :=
  if op ∈ Gen.Fee.SIGOPS_CHECKSIG then 1
  else if op ∈ Gen.Fee.SIGOPS_CHECKMULTISIG then Gen.Fee.SIGOPS_MULTISIG_COST else 0

def sigOpCount (script : Bytes) : Nat := ((opCodeSpans script).map fun sp => sigOpCost sp.1).sum

/-- `Tx.sig_op_count`: every input's script_sig and every output's script_pub_key -/
def txSigOpCount (scriptSigs scriptPubKeys : List Bytes) : Nat :=
  (scriptSigs.map sigOpCount).sum + (scriptPubKeys.map sigOpCount).sum

end Btc.C18
