import Model.C14.Derive
import Model.C14.Scan
/-
C14 — the four wallet kinds (`btclib/wallet/{key_wallet,descriptor_wallet,script_wallet,wallet}.py`) on top
of the derivation model: what each pays to at a position, and `position_of` as the find-first scan of
`Model/C14/Scan.lean` over that function.
-/
namespace Btc.Desc
open Btc Gen.Descriptor

/-- `bip44`'s four script types. -/
inductive KeyScriptType | p2pkh | p2wpkhP2sh | p2wpkh | p2tr
  deriving DecidableEq, Repr

/-- how a `ScriptWallet` turns its script into an output. -/
inductive EmbedType | p2sh | p2wsh | p2shP2wsh
  deriving DecidableEq, Repr

inductive KeyOrder | none | account | derived
  deriving DecidableEq, Repr

/-- `KeyGroup`: threshold, account keys, `verify`. -/
structure Group where
  threshold : Nat
  keys : List Bip32.XKey
  verify : Bool

/-- a template command: serialized bytes of an ordinary command, or a key group. -/
inductive Cmd
  | bytes (b : Bytes)
  | group (g : Group)

section
variable {α : Type} (E : DEnv α)

/-- the output of one public key under a BIP44 script type (`_ADDRESS_FROM_SCRIPT_TYPE`, read back as a
    script): what `KeyWallet.add` and `BIP32KeyWallet._script_pub_key` pay to. -/
def keyScript (t : KeyScriptType) (sec : Bytes) : Option Bytes :=
  match t with
  | .p2pkh => some (p2pkh E sec)
  | .p2wpkh => p2wpkh E sec
  | .p2wpkhP2sh => (p2wpkh E sec).map (p2sh E)
  | .p2tr => p2tr E sec none

def pubOf (x : Bip32.XKey) : Bytes := if x.isPrivate then Bip32.pubOfPrv E.bip x.prvInt else x.key

/-- `derive_from_account_(xkey, branch, index)` then the public key. -/
def accountSec (x : Bip32.XKey) (b i : Nat) : Option Bytes :=
  match Bip32.deriveFromAccount E.bip x b i true 0xFFFF with
  | .ok y => some (pubOf E y)
  | .error _ => none

/-- `BIP32KeyWallet._script_pub_key(branch, index)` -/
def bip32WalletSpk (t : KeyScriptType) (acct : Bip32.XKey) (b i : Nat) : Option Bytes :=
  (accountSec E acct b i).bind (keyScript E t)

def insertBy {β : Type} (key : β → Bytes) (x : β) : List β → List β
  | [] => [x]
  | y :: ys => if Taproot.ltBytes (key y) (key x) then y :: insertBy key x ys else x :: y :: ys

def sortBy {β : Type} (key : β → Bytes) : List β → List β
  | [] => []
  | x :: xs => insertBy key x (sortBy key xs)

/-- `ScriptWallet._quorum` serialized -/
def quorum (order : KeyOrder) (g : Group) (b i : Nat) : Option Bytes :=
  let keys := if order = .account then sortBy (pubOf E) g.keys else g.keys
  match mapO (fun k => accountSec E k b i) keys with
  | none => none
  | some secs =>
    let secs := if order = .derived then sortBytesBy id secs else secs
    some (opInt g.threshold :: (secs.flatMap push ++ [opInt secs.length, if g.verify then 0xaf else OP_CHECKMULTISIG]))

/-- `ScriptWallet._script(branch, index)` -/
def templateScript (order : KeyOrder) (b i : Nat) : List Cmd → Option Bytes
  | [] => some []
  | .bytes x :: rest => (templateScript order b i rest).map (x ++ ·)
  | .group g :: rest =>
    match quorum E order g b i, templateScript order b i rest with
    | some q, some r => some (q ++ r)
    | _, _ => none

/-- `ScriptWallet._script_pub_key(branch, index)` -/
def scriptWalletSpk (t : EmbedType) (order : KeyOrder) (tmpl : List Cmd) (b i : Nat) : Option Bytes :=
  (templateScript E order b i tmpl).map fun s =>
    match t with
    | .p2sh => p2sh E s
    | .p2wsh => p2wsh E s
    | .p2shP2wsh => p2sh E (p2wsh E s)

/-- `RangedWallet.position_of` over a wallet's own derivation: the scan of `Model/C14/Scan.lean` with the
    raise mirrored (outer `none` = the BTClibValueError of a position the wallet cannot derive, reached
    before any match). -/
def walletPositionOf (spk : Nat → Nat → Option Bytes) (branches : List Nat) (s : Bytes) (last : Nat) :
    Option (Option (Nat × Nat)) :=
  Scan.scanE (fun b i => (spk b i).map fun t => decide (t = s)) (fun _ => last) branches

/-- `DescriptorWallet.position_of`: one `index_of` per chain (index 0 only for a chain that is not ranged). -/
def descWalletPositionOf (net : String) (prv : PrvKeys) (chains : List D) (s : Bytes) (last : Nat) :
    Option (Option (Nat × Nat)) :=
  Scan.scanE (fun (b : Nat) i => match chains[b]? with
      | some d => (scriptPubKeys E net prv d i).map fun l => decide (s ∈ l)
      | none => some false)
    (fun b => match chains[b]? with | some d => (if d.isRanged then last else 0) | none => 0)
    (List.range chains.length)

end
end Btc.Desc
