import Model.C14.Derive
import Model.C14.Scan
/-
C14 — the four wallet kinds (`btclib/wallet/{key_wallet,descriptor_wallet,script_wallet,wallet}.py`) on top
of the derivation model: what each pays to at a position, and `position_of` as the find-first scan of
`Model/C14/Scan.lean` over that function.
-/
namespace Btc.Desc
open Btc Gen.Descriptor

/-- `bip44`'s four script types. -/
inductive KeyScriptType | p2pkh | p2wpkhP2sh | p2wpkh | p2tr
  deriving DecidableEq, Repr

/-- how a `ScriptWallet` turns its script into an output. -/
inductive EmbedType | p2sh | p2wsh | p2shP2wsh
  deriving DecidableEq, Repr

inductive KeyOrder | none | account | derived
  deriving DecidableEq, Repr

/-- `KeyGroup`: threshold, account keys, `verify`. -/
structure Group where
  threshold : Nat
  keys : List Bip32.XKey
  verify : Bool

/-- a template command: serialized bytes of an ordinary command, or a key group. -/
inductive Cmd
  | bytes (b : Bytes)
  | group (g : Group)

section
variable {α : Type} (E : DEnv α)

/-- the output of one public key under a BIP44 script type (`_ADDRESS_FROM_SCRIPT_TYPE`, read back as a
    script): what `KeyWallet.add` and `BIP32KeyWallet._script_pub_key` pay to. -/
def keyScript (t : KeyScriptType) (sec : Bytes) : Option Bytes :=
  match t with
  | .p2pkh => some (p2pkh E sec)
  | .p2wpkh => p2wpkh E sec
  | .p2wpkhP2sh => (p2wpkh E sec).map (p2sh E)
  | .p2tr => p2tr E sec none

def pubOf (x : Bip32.XKey) : Bytes := if x.isPrivate then Bip32.pubOfPrv E.bip x.prvInt else x.key

/-- `derive_from_account_(xkey, branch, index)` then the public key. -/
def accountSec (x : Bip32.XKey) (b i : Nat) : Option Bytes :=
  match Bip32.deriveFromAccount E.bip x b i true 0xFFFF with
  | .ok y => some (pubOf E y)
  | .error _ => none

/-- `BIP32KeyWallet._script_pub_key(branch, index)` -/
def bip32WalletSpk (t : KeyScriptType) (acct : Bip32.XKey) (b i : Nat) : Option Bytes :=
  (accountSec E acct b i).bind (keyScript E t)

def insertBy {β : Type} (key : β → Bytes) (x : β) : List β → List β
  | [] => [x]
  | y :: ys => if Taproot.ltBytes (key y) (key x) then y :: insertBy key x ys else x :: y :: ys

def sortBy {β : Type} (key : β → Bytes) : List β → List β
  | [] => []
  | x :: xs => insertBy key x (sortBy key xs)

/-- `ScriptWallet._quorum` serialized -/
def quorum (order : KeyOrder) (g : Group) (b i : Nat) : Option Bytes :=
  let keys := if order = .account then sortBy (pubOf E) g.keys else g.keys
  match mapO (fun k => accountSec E k b i) keys with
  | none => none
  | some secs =>
    let secs := if order = .derived then sortBytesBy id secs else secs
    some (opInt g.threshold :: (secs.flatMap push ++ [opInt secs.length, if g.verify then 0xaf else OP_CHECKMULTISIG]))

/-- `ScriptWallet._script(branch, index)` -/
def templateScript (order : KeyOrder) (b i : Nat) : List Cmd → Option Bytes
  | [] => some []
  | .bytes x :: rest => (templateScript order b i rest).map (x ++ ·)
  | .group g :: rest =>
    match quorum E order g b i, templateScript order b i rest with
    | some q, some r => some (q ++ r)
    | _, _ => none

/-- `ScriptWallet._script_pub_key(branch, index)` -/
def scriptWalletSpk (t : EmbedType) (order : KeyOrder) (tmpl : List Cmd) (b i : Nat) : Option Bytes :=
  (templateScript E order b i tmpl).map fun s =>
    match t with
    | .p2sh => p2sh E s
    | .p2wsh => p2wsh E s
    | .p2shP2wsh => p2sh E (p2wsh E s)

/-- `RangedWallet.position_of` over a wallet's own derivation: the scan of `Model/C14/Scan.lean` with the
    raise mirrored (outer `none` = the BTClibValueError of a position the wallet cannot derive, reached
    before any match). -/
def walletPositionOf (spk : Nat → Nat → Option Bytes) (branches : List Nat) (s : Bytes) (last : Nat) :
    Option (Option (Nat × Nat)) :=
  Scan.scanE (fun b i => (spk b i).map fun t => decide (t = s)) (fun _ => last) branches

/-! ### `DescriptorWallet`: chains under LABELS

`DescriptorWallet.__init__` takes one descriptor (label 0), a sequence (labels `0 … n-1`, `dict(enumerate(…))`)
or a `Mapping[int, Descriptor]` with any non-negative labels; it keeps `dict(sorted(by_branch.items()))`, so
`branches` is ascending whatever order the mapping was written in, and `position_of` answers the LABEL. -/

/-- one step of `dict(sorted(dict(items).items()))`: a label already present is overwritten (a later item
    wins), a new one goes to its place in ascending order. -/
def insertChain (x : Nat × D) : List (Nat × D) → List (Nat × D)
  | [] => [x]
  | y :: ys => if y.1 < x.1 then y :: insertChain x ys else if y.1 = x.1 then x :: ys else x :: y :: ys

/-- `self._descriptors`: the items of the mapping, one per label, labels ascending. -/
def walletChains (items : List (Nat × D)) : List (Nat × D) := items.foldl (fun acc x => insertChain x acc) []

/-- `dict(enumerate(descriptors))`: a sequence is the chains in order. -/
def enumerateFrom (n : Nat) : List D → List (Nat × D)
  | [] => []
  | d :: ds => (n, d) :: enumerateFrom (n + 1) ds

def D.isCombo : D → Bool
  | .combo _ => true
  | _ => false

/-- `DescriptorWallet.__init__(by_branch, prv_keys)`: an item is (label, the network its descriptor was parsed
    for, the descriptor).  `none` is the BTClibValueError of: no descriptor, a negative label, a `combo()`,
    descriptors of different networks (`addr()` has the network of its address), a first chain that does not
    describe exactly one script at index 0 (`self.script_pub_key(self.branches[0]).type`).  Otherwise the
    wallet's network and its chains. -/
def descWalletNew (prv : PrvKeys) (items : List (Int × String × D)) : Option (String × List (Nat × D)) :=
  match items with
  | [] => none
  | (_, net0, d0) :: _ =>
    if items.any (fun x => decide (x.1 < 0) || x.2.2.isCombo) then none
    else if items.any (fun x => descNetwork E x.2.1 x.2.2 != descNetwork E net0 d0) then none
    else
      let net := descNetwork E net0 d0
      let chains := walletChains (items.map fun x => (x.1.toNat, x.2.2))
      match chains with
      | [] => none
      | (_, d) :: _ => (scriptPubKey E net prv d 0).map fun _ => (net, chains)

/-- the scan of `DescriptorWallet.position_of` over the wallet's chains (`self._descriptors.items()`):
    `Descriptor.index_of` per chain — index 0 only for a chain that is not ranged — the answer is the LABEL. -/
def chainsPositionOf (net : String) (prv : PrvKeys) (chains : List (Nat × D)) (s : Bytes) (last : Nat) :
    Option (Option (Nat × Nat)) :=
  (Scan.scanE (fun (c : Nat × D) i => (scriptPubKeys E net prv c.2 i).map fun l => decide (s ∈ l))
    (fun c => if c.2.isRanged then last else 0) chains).map fun r => r.map fun (c, i) => (c.1, i)

/-- `DescriptorWallet(descriptors as a sequence).position_of`: labels are the positions in the sequence. -/
def descWalletPositionOf (net : String) (prv : PrvKeys) (chains : List D) (s : Bytes) (last : Nat) :
    Option (Option (Nat × Nat)) :=
  chainsPositionOf E net prv (walletChains (enumerateFrom 0 chains)) s last

/-- `DescriptorWallet(mapping, prv_keys).position_of(script, last)`, construction included. -/
def descWalletMappingPositionOf (prv : PrvKeys) (items : List (Int × String × D)) (s : Bytes) (last : Nat) :
    Option (Option (Nat × Nat)) :=
  match descWalletNew E prv items with
  | none => none
  | some (net, chains) => chainsPositionOf E net prv chains s last

/-- `DescriptorWallet.script_pub_key(branch, index)`: `_assert_position` (the label is one of `branches`),
    then the chain's one script. -/
def chainsScriptPubKey (net : String) (prv : PrvKeys) (chains : List (Nat × D)) (b i : Nat) : Option Bytes :=
  match chains.lookup b with
  | none => none
  | some d => scriptPubKey E net prv d i

end
end Btc.Desc
