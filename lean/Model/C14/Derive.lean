import Model.C14.Descriptor
import Model.C07.Bip32
import Model.C12.Taproot
import Model.C06.Base58
import Model.C06.Address
/-
C14 — T3: what a descriptor describes at an index (`Descriptor.script_pub_keys`, `*Descriptor._scripts`,
`KeyExpression.sec`, `MultiDescriptor._pub_keys`, `MultiA._pub_keys/_script`, `_leaf_script`,
`_taproot_script_tree`), built on the BIP32 model of C07 (`Btc.Bip32`, generic over `GroupOps`) and
the taproot model of C12 (`Btc.Taproot`).  Hashes are parameters of the environment.  Every refusal
is a BTClibValueError (`none`).
-/
namespace Btc.Desc
open Btc Gen.Descriptor

/-- what derivation is parameterised by: the BIP32 environment (group, HMAC, HASH160, version
    tables), SHA-256, the tagged hash, the Base58Check hash. -/
structure DEnv (α : Type) where
  bip : Bip32.Env α
  sha256 : Bytes → Bytes
  tag : Taproot.TagHash
  hash256 : Bytes → Bytes

/-- `prv_keys`: public spelling → private spelling. -/
abbrev PrvKeys := List (List Char × List Char)

section
variable {α : Type} (E : DEnv α)

def textNats (t : List Char) : List Nat := t.map Char.toNat

/-- `BIP32KeyData.b58decode(text)` then `parse`: the six fields of the 78 octets. -/
def decodeXkey (t : List Char) : Option Bip32.XKey :=
  match Base58.decode E.hash256 (Address.strip (textNats t)) (some 78) with
  | .error _ => none
  | .ok b =>
    some { version := b.take 4, depth := ((b.drop 4).take 1).foldl (fun _ x => x.toNat) 0,
           parentFp := (b.drop 5).take 4, index := ofBE ((b.drop 9).take 4),
           chain := (b.drop 13).take 32, key := (b.drop 45).take 33 }

def networkOf (net : String) : Option Gen.Net.Network := Address.networkNamed net

def versionNats (v : Bytes) : List Nat := v.map (·.toNat)

/-- the derivation path at an index: the written steps, then the wildcard step. -/
def Key.fullPath (k : Key) (i : Nat) : List Nat :=
  k.path ++ (match k.wildcard with
    | none => []
    | some hd => [(if hd then HARDENED_OFFSET else 0) + i])

/-- `KeyExpression.sec(index, network, prv_keys)` -/
def Key.sec (net : String) (prv : PrvKeys) (k : Key) (i : Nat) : Option Bytes :=
  match k.atom with
  | .pub sec _ => some sec
  | .xkey t =>
    let text := (prv.lookup t).getD t          -- `prv_keys.get(self.xkey, self.xkey)`
    match decodeXkey E text, networkOf net with
    | some x, some n =>
      match Bip32.derive E.bip x (k.fullPath i) none with
      | .error _ => none
      | .ok y =>
        -- `pub_keyinfo_from_key(<BIP32KeyData>, network)`: the version must be one of the network's
        if y.isPrivate then
          (if n.xprv.contains (versionNats y.version) then some (Bip32.pubOfPrv E.bip y.prvInt) else none)
        else (if n.xpub.contains (versionNats y.version) then some y.key else none)
    | _, _ => none

/-! ### script assembly (`script.serialize` of the standard command lists) -/

/-- `_serialize_bytes_command` for the sizes that occur (below 65536). -/
def push (d : Bytes) : Bytes :=
  if d.length < 76 then UInt8.ofNat d.length :: d
  else if d.length < 256 then 0x4c :: UInt8.ofNat d.length :: d
  else 0x4d :: UInt8.ofNat (d.length % 256) :: UInt8.ofNat (d.length / 256) :: d

/-- `op_int(n)` for 1..16 -/
def opInt (n : Nat) : UInt8 := UInt8.ofNat (0x50 + n)

/-- a positive script number, as `serialize` writes an `int` command above 16 -/
def pushNum (n : Nat) : Bytes :=
  let rec le : Nat → Nat → Bytes
    | 0, _ => []
    | f + 1, v => if v = 0 then [] else UInt8.ofNat (v % 256) :: le f (v / 256)
  let b := le 9 n
  let b := if (b.getLast?.map (·.toNat)).getD 0 ≥ 128 then b ++ [0] else b
  push b

def OP_CHECKSIG : UInt8 := 0xac
def OP_CHECKSIGADD : UInt8 := 0xba
def OP_NUMEQUAL : UInt8 := 0x9c
def OP_CHECKMULTISIG : UInt8 := 0xae

def p2pk (sec : Bytes) : Bytes := push sec ++ [OP_CHECKSIG]
def p2pkh (sec : Bytes) : Bytes := [0x76, 0xa9] ++ push (E.bip.h160 sec) ++ [0x88, OP_CHECKSIG]
/-- `ScriptPubKey.p2wpkh`: the key must be compressed -/
def p2wpkh (sec : Bytes) : Option Bytes := if sec.length = 33 then some (0x00 :: push (E.bip.h160 sec)) else none
def p2sh (script : Bytes) : Bytes := [0xa9] ++ push (E.bip.h160 script) ++ [0x87]
def p2wsh (script : Bytes) : Bytes := 0x00 :: push (E.sha256 script)

/-- `sorted(pub_keys)`: bytewise, by insertion. -/
def insertBytes (key : Bytes → Bytes) (x : Bytes) : List Bytes → List Bytes
  | [] => [x]
  | y :: ys => if Taproot.ltBytes (key y) (key x) then y :: insertBytes key x ys else x :: y :: ys

def sortBytesBy (key : Bytes → Bytes) : List Bytes → List Bytes
  | [] => []
  | x :: xs => insertBytes key x (sortBytesBy key xs)

def mapO {β γ : Type} (f : β → Option γ) : List β → Option (List γ)
  | [] => some []
  | a :: as =>
    match f a with
    | none => none
    | some b => (mapO f as).map (b :: ·)

/-- `ScriptPubKey.p2ms(m, keys, lexicographic_sorting=False)` -/
def p2ms (m : Nat) (keys : List Bytes) : Option Bytes :=
  if keys.length = 0 ∨ keys.length ≥ 17 then none
  else if m = 0 ∨ m > keys.length then none
  else some (opInt m :: (keys.flatMap push ++ [opInt keys.length, OP_CHECKMULTISIG]))

/-- `MultiDescriptor._pub_keys`: derive every key, THEN sort when `sortedmulti`. -/
def multiKeys (net : String) (prv : PrvKeys) (ks : List Key) (sort : Bool) (i : Nat) : Option (List Bytes) :=
  (mapO (fun k => Key.sec E net prv k i) ks).map fun secs => if sort then sortBytesBy id secs else secs

/-- `MultiA._script` serialized -/
def multiAScript (thr : Nat) (secs : List Bytes) : Option Bytes :=
  if thr = 0 ∨ thr > secs.length then none
  else if secs.length > MAX_MULTI_A_KEYS then none
  else match secs with
    | [] => none
    | k0 :: rest =>
      some (push (k0.drop 1) ++ [OP_CHECKSIG] ++ rest.flatMap (fun k => push (k.drop 1) ++ [OP_CHECKSIGADD]) ++
        (if thr ≤ 16 then [opInt thr] else pushNum thr) ++ [OP_NUMEQUAL])

/-- `_taproot_script_tree`: leaves are tapscripts of version 0xC0. -/
def tapTree (net : String) (prv : PrvKeys) (i : Nat) : Tree → Option Taproot.Tree
  | .pk k => (Key.sec E net prv k i).map fun s => .leaf 0xC0 (push (s.drop 1) ++ [OP_CHECKSIG])
  | .multiA thr ks sort =>
    match mapO (fun k => Key.sec E net prv k i) ks with
    | none => none
    | some secs =>
      (multiAScript thr (if sort then sortBytesBy (·.drop 1) secs else secs)).map fun s => .leaf 0xC0 s
  | .branch l r =>
    match tapTree net prv i l, tapTree net prv i r with
    | some a, some b => some (.node a b)
    | _, _ => none
  | .ms n => (Miniscript.script .tapscript E.bip.h160 n).map fun s => .leaf 0xC0 s

/-- `ScriptPubKey.p2tr(internal_key, script_tree)`: OP_1 and the C12 output key. -/
def p2tr (sec : Bytes) (tree : Option Taproot.Tree) : Option Bytes :=
  match Taproot.outputPubkey E.bip.o E.tag (some sec) tree with
  | .ok (q, _) => some (0x51 :: push q)
  | .error _ => none

/-- `*Descriptor._scripts(index, prv_keys)` -/
def scripts (net : String) (prv : PrvKeys) (i : Nat) : D → Option (List Bytes)
  | .pk k => (Key.sec E net prv k i).map fun s => [p2pk s]
  | .pkh k => (Key.sec E net prv k i).map fun s => [p2pkh E s]
  | .wpkh k => (Key.sec E net prv k i).bind fun s => (p2wpkh E s).map fun w => [w]
  | .combo k =>
    (Key.sec E net prv k i).map fun s =>
      [p2pk s, p2pkh E s] ++ (match p2wpkh E s with | some w => [w, p2sh E w] | none => [])
  | .sh d => match scripts net prv i d with | some [s] => some [p2sh E s] | _ => none
  | .wsh d => match scripts net prv i d with | some [s] => some [p2wsh E s] | _ => none
  | .multi thr ks sort => (multiKeys E net prv ks sort i).bind fun keys => (p2ms thr keys).map fun s => [s]
  | .tr k none => (Key.sec E net prv k i).bind fun s => (p2tr E s none).map fun x => [x]
  | .tr k (some t) =>
    match tapTree E net prv i t, Key.sec E net prv k i with
    | some tt, some s => (p2tr E s (some tt)).map fun x => [x]
    | _, _ => none
  | .rawtr k => (Key.sec E net prv k i).map fun s => [0x51 :: push (s.drop 1)]
  | .addr a =>
    match Address.fromAddress E.hash256 (textNats a) with
    | .ok (s, _) => some [s]
    | .error _ => none
  | .raw s => some [s]
  | .ms n => (Miniscript.script .p2wsh E.bip.h160 n).map fun s => [s]

/-- `Descriptor.script_pub_keys(index, prv_keys)`: `_assert_index`, then the scripts. -/
def scriptPubKeys (net : String) (prv : PrvKeys) (d : D) (i : Nat) : Option (List Bytes) :=
  if i ≥ INDEX_BOUND then none
  else if i ≠ 0 ∧ !d.isRanged then none
  else scripts E net prv i d

/-- `Descriptor.network`: the one `parse` was given, except for `addr()`, whose network is the
    address's own (`_parse_addr`). -/
def descNetwork (net : String) : D → String
  | .addr a =>
    match Address.fromAddress E.hash256 (textNats a) with
    | .ok (_, n) => n
    | .error _ => net
  | _ => net

/-- `Descriptor.script_pub_key`: exactly one script. -/
def scriptPubKey (net : String) (prv : PrvKeys) (d : D) (i : Nat) : Option Bytes :=
  match scriptPubKeys E net prv d i with
  | some [s] => some s
  | _ => none

end
end Btc.Desc
