import Model.Common.Bytes
import Generated.Descsum
/-
C14 — BIP380 descriptor checksum (`btclib/descriptors/descriptors.py`: `__descsum_polymod`,
`__descsum_expand`, `checksum`, `strip_checksum`, `add_checksum`), mirrored function by function over
the generated tables and loop constants (`Generated/Descsum.lean`), and beside it (`Ref`) a literal
transcription of the reference code printed in BIP380.  Text is `List Char`.
-/
namespace Btc.Descsum
open Gen.Descsum

/-! ## btclib -/

/-- `for i in range(5): chk ^= GENERATOR[i] if ((top >> i) & 1) else 0` -/
def genLoop (top : Nat) : List Nat → Nat → Nat → Nat
  | [], _, chk => chk
  | g :: gs, i, chk => genLoop top gs (i + 1) (chk ^^^ (if (top >>> i) &&& 1 = 1 then g else 0))

/-- loop body of `__descsum_polymod`. -/
def polymodStep (chk value : Nat) : Nat :=
  genLoop (chk >>> POLY_TOP) GENERATOR 0 (((chk &&& POLY_MASK) <<< POLY_SHIFT) ^^^ value)

def polymodFrom (chk : Nat) (symbols : List Nat) : Nat := symbols.foldl polymodStep chk

/-- `__descsum_polymod`. -/
def polymod (symbols : List Nat) : Nat := polymodFrom POLY_INIT symbols

/-- `_INPUT_INDEX.get(char, -1)`; `none` is the `-1`. -/
def inputIndex (c : Char) : Option Nat := (INPUT_INDEX.find? (·.1 == c)).map (·.2)

/-- the reachable values of the list `groups` in `__descsum_expand`: zero, one or two pending digits. -/
inductive Grp
  | g0 | g1 (a : Nat) | g2 (a b : Nat)
  deriving DecidableEq, Repr

/-- the loop of `__descsum_expand` with `groups` as its state, then the tail rule. -/
def expandFrom : Grp → List Char → Option (List Nat)
  | .g0, [] => some []
  | .g1 a, [] => some [a]
  | .g2 a b, [] => some [a * TAIL_W + b]
  | g, c :: cs =>
    match inputIndex c with
    | none => none
    | some v =>
      match g with
      | .g0 => (expandFrom (.g1 (v >>> GROUP_SHIFT)) cs).map fun r => (v &&& SYM_MASK) :: r
      | .g1 a => (expandFrom (.g2 a (v >>> GROUP_SHIFT)) cs).map fun r => (v &&& SYM_MASK) :: r
      | .g2 a b =>
        (expandFrom .g0 cs).map fun r =>
          (v &&& SYM_MASK) :: (a * GROUP_W0 + b * GROUP_W1 + (v >>> GROUP_SHIFT)) :: r

/-- `__descsum_expand`; `none` is its BTClibValueError. -/
def expand (s : List Char) : Option (List Nat) := expandFrom .g0 s

/-- `(polymod >> (5 * (7 - i))) & 31 for i in range(8)` -/
def digits (pm : Nat) : List Nat :=
  (List.range CHK_LEN).map fun i => (pm >>> (CHK_BITS * (CHK_LEN - 1 - i))) &&& CHK_MASK

/-- the eight checksum symbols of an expansion. -/
def checksumSymbols (syms : List Nat) : List Nat :=
  digits (polymod (syms ++ List.replicate CHK_LEN 0) ^^^ CHK_FINAL)

def checksumChar (d : Nat) : Char := CHECKSUM_CHARSET.getD d '?'

/-- `checksum(descriptor)`; `none` is the BTClibValueError of a character outside INPUT_CHARSET. -/
def checksum (body : List Char) : Option (List Char) :=
  (expand body).map fun syms => (checksumSymbols syms).map checksumChar

/-- `str.partition(sep)`: (before, separator found, after). -/
def partition (sep : Char) : List Char → List Char × Bool × List Char
  | [] => ([], false, [])
  | c :: cs =>
    if c = sep then ([], true, cs)
    else
      let r := partition sep cs
      (c :: r.1, r.2.1, r.2.2)

inductive Err
  | twoSeparators | badChar | mismatch
  deriving DecidableEq, Repr

/-- `strip_checksum`. -/
def stripChecksum (d : List Char) : Except Err (List Char) :=
  let p := partition '#' d
  if p.2.2.contains '#' then .error .twoSeparators
  else match checksum p.1 with
    | none => .error .badChar
    | some expected => if p.2.1 && p.2.2 != expected then .error .mismatch else .ok p.1

/-- `add_checksum`. -/
def addChecksum (d : List Char) : Except Err (List Char) :=
  match stripChecksum d with
  | .error e => .error e
  | .ok body =>
    match checksum body with
    | none => .error .badChar
    | some c => .ok (body ++ '#' :: c)

/-! ## BIP380 reference, transcribed -/
namespace Ref

/-- "0123456789()[],'/*abcdefgh@:$%{}IJKLMNOPQRSTUVWXYZ&+-.;<=>?!^_|~ijklmnopqrstuvwxyzABCDEFGH`#\"\\ " (BIP380), one literal per character -/
def INPUT_CHARSET : List Char :=
  ['0', '1', '2', '3', '4', '5', '6', '7', '8', '9', '(', ')', '[', ']', ',', '\'', '/', '*', 'a', 'b', 'c', 'd', 'e', 'f', 'g', 'h', '@', ':', '$', '%', '{', '}', 'I', 'J', 'K', 'L', 'M', 'N', 'O', 'P', 'Q', 'R', 'S', 'T', 'U', 'V', 'W', 'X', 'Y', 'Z', '&', '+', '-', '.', ';', '<', '=', '>', '?', '!', '^', '_', '|', '~', 'i', 'j', 'k', 'l', 'm', 'n', 'o', 'p', 'q', 'r', 's', 't', 'u', 'v', 'w', 'x', 'y', 'z', 'A', 'B', 'C', 'D', 'E', 'F', 'G', 'H', '`', '#', '"', '\\', ' ']
/-- "qpzry9x8gf2tvdw0s3jn54khce6mua7l" -/
def CHECKSUM_CHARSET : List Char :=
  ['q', 'p', 'z', 'r', 'y', '9', 'x', '8', 'g', 'f', '2', 't', 'v', 'd', 'w', '0', 's', '3', 'j', 'n', '5', '4', 'k', 'h', 'c', 'e', '6', 'm', 'u', 'a', '7', 'l']
def GENERATOR : List Nat := [0xf5dee51989, 0xa9fdca3312, 0x1bab10e32d, 0x3706b1677a, 0x644d626ffd]

/-- `descsum_polymod(symbols)` -/
def descsumPolymod (symbols : List Nat) : Nat :=
  symbols.foldl (fun chk value =>
    let top := chk >>> 35
    let chk := ((chk &&& 0x7ffffffff) <<< 5) ^^^ value
    [0, 1, 2, 3, 4].foldl (fun chk i => chk ^^^ (if (top >>> i) &&& 1 = 1 then GENERATOR.getD i 0 else 0)) chk) 1

/-- `descsum_expand(s)`; `none` is `return None`. -/
def expandFrom : List Nat → List Char → Option (List Nat)
  | [a], [] => some [a]
  | [a, b], [] => some [a * 3 + b]
  | _, [] => some []
  | g, c :: cs =>
    match INPUT_CHARSET.idxOf? c with          -- `if not c in INPUT_CHARSET: return None`, `find(c)`
    | none => none
    | some v =>
      match g ++ [v >>> 5] with
      | [a, b, d] => (expandFrom [] cs).map fun r => (v &&& 31) :: (a * 9 + b * 3 + d) :: r
      | g' => (expandFrom g' cs).map fun r => (v &&& 31) :: r

def descsumExpand (s : List Char) : Option (List Nat) := expandFrom [] s

/-- `descsum_create(s)`; `none` where the reference would fail on `None + [...]`. -/
def descsumCreate (s : List Char) : Option (List Char) :=
  (descsumExpand s).map fun e =>
    let checksum := descsumPolymod (e ++ [0, 0, 0, 0, 0, 0, 0, 0]) ^^^ 1
    s ++ '#' :: [0, 1, 2, 3, 4, 5, 6, 7].map fun i => CHECKSUM_CHARSET.getD ((checksum >>> (5 * (7 - i))) &&& 31) '?'

/-- `descsum_check(s)`; a string too short for `s[-9]`, or whose body does not expand, is `false`. -/
def descsumCheck (s : List Char) : Bool :=
  if s.length < 9 then false else
  let body := s.take (s.length - 9)
  let tail := s.drop (s.length - 8)
  if s.getD (s.length - 9) ' ' ≠ '#' then false
  else if !(tail.all fun x => CHECKSUM_CHARSET.contains x) then false
  else match descsumExpand body with
    | none => false
    | some e => descsumPolymod (e ++ tail.map fun x => CHECKSUM_CHARSET.idxOf x) == 1

end Ref
end Btc.Descsum
