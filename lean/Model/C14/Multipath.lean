import Model.C14.Descriptor
/-
C14 — BIP389 multipath expansion (`descriptors.multipath_descriptors`): textual, as the BIP defines it.

    pieces = re.split(r"(<[^<>]*>)", strip_checksum(descriptor))
    steps = [piece[1:-1].split(";") for piece in pieces[1::2]]
    … one descriptor per alternative index, `add_checksum("".join(pieces))` with pieces[1::2] = [step[i] …]

`pieces` is the regex split: a `<`, then characters other than `<` `>`, then `>` is a step; everything
else is text.  It is written right to left (structurally): the result for the rest of the string is
known, and a `<` that opens a step takes the step's inner text off the front of it.
-/
namespace Btc.Desc
open Btc

/-- after a `<`: the run of non-angle characters, if a `>` ends it: `[^<>]*>`. -/
def scanStep : List Char → Option (List Char × List Char)
  | [] => none
  | c :: cs =>
    if c = '>' then some ([], cs)
    else if c = '<' then none
    else (scanStep cs).map fun r => (c :: r.1, r.2)

/-- `re.split(r"(<[^<>]*>)", s)`: the text before the first step, then (step inner text, text after it). -/
def pieces : List Char → List Char × List (List Char × List Char)
  | [] => ([], [])
  | c :: cs =>
    let r := pieces cs
    if c = '<' then
      match scanStep cs with
      | some (inner, _) => ([], (inner, r.1.drop (inner.length + 1)) :: r.2)
      | none => (c :: r.1, r.2)
    else (c :: r.1, r.2)

/-- `"".join(pieces)` with the `i`-th element of every step. -/
def chooseAlt (first : List Char) (steps : List (List (List Char) × List Char)) (i : Nat) : List Char :=
  first ++ steps.flatMap fun s => s.1.getD i [] ++ s.2

/-- the textual expansion, before the checksums: `none` is the BTClibValueError of steps of different
    lengths or of a step with fewer than two elements. -/
def expandText (body : List Char) : Option (List (List Char)) :=
  let p := pieces body
  let steps := p.2.map fun s => (splitOn ';' s.1, s.2)
  match steps with
  | [] => some [p.1]
  | s :: _ =>
    let n := s.1.length
    if !(steps.all fun x => x.1.length == n) then none
    else if n < 2 then none
    else some ((List.range n).map (chooseAlt p.1 steps))

def mapE {α β ε : Type} (f : α → Except ε β) : List α → Except ε (List β)
  | [] => .ok []
  | a :: as =>
    match f a with
    | .error e => .error e
    | .ok b =>
      match mapE f as with
      | .error e => .error e
      | .ok bs => .ok (b :: bs)

/-- `multipath_descriptors(descriptor)`; `none` is a BTClibValueError. -/
def multipath (s : List Char) : Option (List (List Char)) :=
  match Descsum.stripChecksum s with
  | .error _ => none
  | .ok body =>
    match expandText body with
    | none => none
    | some l =>
      match mapE Descsum.addChecksum l with
      | .ok r => some r
      | .error _ => none

end Btc.Desc
