import Model.C14.Descsum
import Model.C15.Text
import Model.C15.Bounds
import Generated.Descriptor
/-
C14 — output descriptors as text: the AST `parse` builds, the writer (`Descriptor.__str__`,
`KeyExpression.__str__`, `_tree_expression`, `_expression`, `str_from_index_int`,
`str_from_der_path`) and the reader (`parse`, `_parse_expression`, `_parse_tree`, `_parse_multi*`,
`_parse_key`, `_origin_and_rest`, `_key_origin`, `_split_wildcard`, `_fixed_pub_key`,
`_pub_key_from_hex`, `_split_arguments`, `_split_function`, `indexes_from_der_path(bip380_enforced)`),
mirrored function by function.  Text is `List Char`; by the time the reader runs every character
is one of `INPUT_CHARSET` (`strip_checksum` comes first), so `str.strip()` strips spaces.

What a key atom IS is not this model's business: whether a run of characters is an extended key
(Base58Check + BIP32 validation, C06/C07), a point on the curve (C01) or a WIF is answered by a
`KeyOracle`; the grammar around the atoms is what is modelled.  A miniscript body (inside `wsh()`, or a
`tr()` leaf) is read and written by C15's model (`Btc.Miniscript.parse / toText`, raw hex keys); `musig()`
and miniscripts over other key expressions are answered `unsupported`.
-/
namespace Btc.Desc
open Btc Gen.Descriptor

/-! ## AST -/

/-- the symbol hardened steps are written with (`KeyExpression.hardening`). -/
inductive Hard | h | apos
  deriving DecidableEq, Repr

def Hard.char : Hard → Char
  | .h => 'h' | .apos => '\''

/-- `BIP32KeyOrigin`: master fingerprint, path. -/
structure Origin where
  fp : Bytes
  path : List Nat
  deriving DecidableEq, Repr

/-- the key proper: SEC bytes (an x-only key is held in its even-y SEC form, `xonly` remembers the
    spelling) or the text of an extended public key. -/
inductive Atom
  | pub (sec : Bytes) (xonly : Bool)
  | xkey (text : List Char)
  deriving DecidableEq, Repr

/-- `KeyExpression` without participants.  `wildcard`: none, `some false` = `/*`, `some true` = `/*h`. -/
structure Key where
  origin : Option Origin
  atom : Atom
  path : List Nat
  wildcard : Option Bool
  hard : Hard
  deriving DecidableEq, Repr

/-- `DescriptorTree` with `pk()` and `multi_a()` / `sortedmulti_a()` leaves. -/
inductive Tree
  | pk (k : Key)
  | multiA (thr : Nat) (keys : List Key) (sort : Bool)
  | branch (l r : Tree)
  /-- a tapscript miniscript leaf (C15's AST, raw x-only keys) -/
  | ms (n : Miniscript.Ms)
  deriving DecidableEq

/-- the fragment classes. -/
inductive D
  | pk (k : Key) | pkh (k : Key) | wpkh (k : Key) | combo (k : Key)
  | sh (d : D) | wsh (d : D)
  | multi (thr : Nat) (keys : List Key) (sort : Bool)
  | tr (k : Key) (tree : Option Tree) | rawtr (k : Key)
  | addr (a : List Char) | raw (script : Bytes)
  /-- `MiniscriptDescriptor`: a P2WSH miniscript (C15's AST, raw compressed keys), inside `wsh()` -/
  | ms (n : Miniscript.Ms)
  deriving DecidableEq

/-! ## writer -/

def decChars (n : Nat) : List Char := Nat.toDigits 10 n

def hexChars (b : Bytes) : List Char :=
  b.flatMap fun x => [hexChar (x.toNat / 16), hexChar (x.toNat % 16)]

/-- `str_from_index_int(i, hardening)` -/
def strIndex (hd : Hard) (i : Nat) : List Char :=
  if i < HARDENED_OFFSET then decChars i else decChars (i - HARDENED_OFFSET) ++ [hd.char]

/-- `"/" + step` for every step. -/
def strSteps (hd : Hard) (path : List Nat) : List Char := path.flatMap fun i => '/' :: strIndex hd i

def strWildcard (hd : Hard) : Option Bool → List Char
  | none => []
  | some false => ['/', '*']
  | some true => ['/', '*', hd.char]

/-- `KeyExpression.__str__` -/
def strKey (k : Key) : List Char :=
  (match k.origin with
    | none => []
    | some o => '[' :: (hexChars o.fp ++ strSteps k.hard o.path ++ [']'])) ++
  match k.atom with
  | .pub sec xonly => hexChars (if xonly then sec.drop 1 else sec)
  | .xkey t => t ++ strSteps k.hard k.path ++ strWildcard k.hard k.wildcard

/-- the `,`-joined arguments, each preceded by a comma except the first. -/
def joinArgs : List (List Char) → List Char
  | [] => []
  | [a] => a
  | a :: b :: rest => a ++ ',' :: joinArgs (b :: rest)

/-- `_expression(name, *args)` -/
def call (name : List Char) (args : List (List Char)) : List Char :=
  name ++ '(' :: (joinArgs args ++ [')'])

def nPk : List Char := ['p', 'k']
def nPkh : List Char := ['p', 'k', 'h']
def nWpkh : List Char := ['w', 'p', 'k', 'h']
def nCombo : List Char := ['c', 'o', 'm', 'b', 'o']
def nSh : List Char := ['s', 'h']
def nWsh : List Char := ['w', 's', 'h']
def nMulti : List Char := ['m', 'u', 'l', 't', 'i']
def nSortedmulti : List Char := ['s', 'o', 'r', 't', 'e', 'd', 'm', 'u', 'l', 't', 'i']
def nTr : List Char := ['t', 'r']
def nRawtr : List Char := ['r', 'a', 'w', 't', 'r']
def nAddr : List Char := ['a', 'd', 'd', 'r']
def nRaw : List Char := ['r', 'a', 'w']
def nMultiA : List Char := ['m', 'u', 'l', 't', 'i', '_', 'a']
def nSortedmultiA : List Char := ['s', 'o', 'r', 't', 'e', 'd', 'm', 'u', 'l', 't', 'i', '_', 'a']
def nMusig : List Char := ['m', 'u', 's', 'i', 'g']

/-- `_tree_expression` -/
def strTree : Tree → List Char
  | .pk k => call nPk [strKey k]
  | .multiA t ks sort => call (if sort then nSortedmultiA else nMultiA) (decChars t :: ks.map strKey)
  | .branch l r => '{' :: (strTree l ++ ',' :: (strTree r ++ ['}']))
  | .ms n => Miniscript.toText n

/-- `Descriptor.__str__` -/
def strD : D → List Char
  | .pk k => call nPk [strKey k]
  | .pkh k => call nPkh [strKey k]
  | .wpkh k => call nWpkh [strKey k]
  | .combo k => call nCombo [strKey k]
  | .sh d => call nSh [strD d]
  | .wsh d => call nWsh [strD d]
  | .multi t ks sort => call (if sort then nSortedmulti else nMulti) (decChars t :: ks.map strKey)
  | .tr k none => call nTr [strKey k]
  | .tr k (some t) => call nTr [strKey k, strTree t]
  | .rawtr k => call nRawtr [strKey k]
  | .addr a => call nAddr [a]
  | .raw s => call nRaw [hexChars s]
  | .ms n => Miniscript.toText n

/-! ## reader -/

/-- `value` is a BTClibValueError; `unsupported` marks a `musig()` or a miniscript body. -/
inductive PErr | value | unsupported
  deriving DecidableEq, Repr

abbrev P := Except PErr

/-- what the reader asks about a key atom (answered by C06/C07/C01 code, not modelled here). -/
structure KeyOracle where
  /-- `_is_extended_key(key)`, and then `_neutered(key)`: the public spelling kept -/
  xkey : List Char → Option (List Char)
  /-- `point_from_pub_key` accepts these SEC bytes -/
  validPub : Bytes → Bool
  /-- `pub_keyinfo_from_key(key)[0]` on what is not hex: the SEC bytes of a WIF -/
  wif : List Char → Option Bytes
  /-- `ScriptPubKey.from_address(address)` succeeds -/
  validAddr : List Char → Bool

/-- the position a SCRIPT expression sits in: `_TOP`, `_P2SH`, `_P2WSH`, `_P2TR`. -/
inductive Ctx | top | sh | wsh | tr
  deriving DecidableEq, Repr

def Ctx.name : Ctx → String
  | .top => "top" | .sh => "sh" | .wsh => "wsh" | .tr => "tr"

/-- the keys of `_PARSERS`. -/
inductive Fn | pk | pkh | wpkh | combo | sh | wsh | multi | sortedmulti | tr | rawtr | addr | raw
  deriving DecidableEq, Repr

def Fn.all : List Fn := [.pk, .pkh, .wpkh, .combo, .sh, .wsh, .multi, .sortedmulti, .tr, .rawtr, .addr, .raw]

def Fn.chars : Fn → List Char
  | .pk => nPk | .pkh => nPkh | .wpkh => nWpkh | .combo => nCombo | .sh => nSh | .wsh => nWsh
  | .multi => nMulti | .sortedmulti => nSortedmulti | .tr => nTr | .rawtr => nRawtr | .addr => nAddr
  | .raw => nRaw

/-- `name in _PARSERS` -/
def fnOf (name : List Char) : Option Fn := Fn.all.find? fun f => f.chars == name

/-- the position rule of `_PARSERS` (tied to the generated table in `Props/C14.lean`). -/
def Fn.allowed : Fn → Ctx → Bool
  | .pk, _ => true
  | .pkh, c => c != .tr
  | .wpkh, c => c == .top || c == .sh
  | .wsh, c => c == .top || c == .sh
  | .multi, c => c != .tr
  | .sortedmulti, c => c != .tr
  | _, c => c == .top

def isTreeFn (name : List Char) : Bool := name == nMultiA || name == nSortedmultiA

/-- `_no_uncompressed(context)` -/
def noUncompressed (c : Ctx) : Bool := c == .wsh || c == .tr

def startsWith (pre s : List Char) : Bool := pre.isPrefixOf s

/-- `str.partition(sep)` -/
abbrev partition := Descsum.partition

/-- `str.split(sep)` -/
def splitOn (sep : Char) : List Char → List (List Char)
  | [] => [[]]
  | c :: cs =>
    if c = sep then [] :: splitOn sep cs
    else match splitOn sep cs with
      | h :: t => (c :: h) :: t
      | [] => [[c]]

/-- `str.strip()` on text over `INPUT_CHARSET`, whose only whitespace is the space. -/
def stripSp (s : List Char) : List Char :=
  ((s.dropWhile (· == ' ')).reverse.dropWhile (· == ' ')).reverse

def isDigit (c : Char) : Bool := c.isDigit
def isHexDigit (c : Char) : Bool := (hexVal? c).isSome

/-- `[0-9]+` then `int()` -/
def parseDec (s : List Char) : Option Nat :=
  if s.isEmpty || !s.all isDigit then none else some (Nat.ofDigitChars 10 s 0)

/-- `_THRESHOLD.fullmatch` (`[0-9]{1,10}`) then `int()` -/
def parseThreshold (s : List Char) : Option Nat :=
  if s.length > THRESHOLD_MAX_DIGITS then none else parseDec s

def hardOf (c : Char) : Option Hard :=
  if c = 'h' then some .h else if c = '\'' then some .apos else none

/-- `_index_and_hardening_from_str(s, bip380_enforced=True)` -/
def stepOf (s : List Char) : P (Nat × Option Hard) :=
  let hd := s.getLast?.bind hardOf
  let number := if hd.isSome then s.dropLast else s
  -- `int(number)` inside `try … except ValueError`: CPython refuses more than 4300 digits, zeros included
  if number.length > INT_MAX_STR_DIGITS then .error .value else
  match parseDec number with
  | none => .error .value
  | some v =>
    if v < HARDENED_OFFSET then .ok (v + (if hd.isSome then HARDENED_OFFSET else 0), hd) else .error .value

/-- a list comprehension whose body may raise. -/
def mapP {α β : Type} (f : α → P β) : List α → P (List β)
  | [] => .ok []
  | a :: as =>
    match f a with
    | .error e => .error e
    | .ok b =>
      match mapP f as with
      | .error e => .error e
      | .ok bs => .ok (b :: bs)

/-- the last non-empty hardening symbol (`_hardening`). -/
def lastHard : List (Option Hard) → Option Hard
  | [] => none
  | x :: xs => match lastHard xs with | some s => some s | none => x

/-- `_pairs_from_der_path_str(steps, bip380_enforced=True)` on the already split steps. -/
def stepsPath (steps : List (List Char)) : P (List Nat × Option Hard) :=
  match mapP stepOf (steps.map stripSp) with
  | .error e => .error e
  | .ok pairs =>
    if pairs.length > MAX_PATH_STEPS then .error .value
    else .ok (pairs.map (·.1), lastHard (pairs.map (·.2)))

/-- `_der_path(path)` together with `_hardening(path)`. -/
def derPath (path : List Char) : P (List Nat × Option Hard) :=
  if path.isEmpty then .ok ([], none) else stepsPath (splitOn '/' path)

/-- `"/".join(steps)` read back by `_der_path`: `[]` and `[""]` join to the empty path, anything
    else splits back into the same steps. -/
def joinedPath (steps : List (List Char)) : P (List Nat × Option Hard) :=
  if steps = [] ∨ steps = [[]] then .ok ([], none) else stepsPath steps

/-- `bytes.fromhex` on a string of hex digits only -/
def hexBytes (s : List Char) : Option Bytes := fromHexChars s

/-- `_key_origin(description)` -/
def keyOrigin (desc : List Char) : P (Origin × Option Hard) :=
  let p := partition '/' desc
  if p.1.length ≠ 8 ∨ !p.1.all isHexDigit then .error .value else
  match hexBytes p.1, derPath p.2.2 with
  | some fp, .ok (idx, hd) => .ok ({ fp := fp, path := idx }, hd)
  | _, .error e => .error e
  | none, _ => .error .value

/-- `_origin_and_rest(expression)` -/
def originAndRest (e : List Char) : P (Option Origin × Option Hard × List Char) :=
  match e with
  | '[' :: tl =>
    let p := partition ']' tl
    if !p.2.1 then .error .value else
    match keyOrigin p.1 with
    | .error x => .error x
    | .ok (o, hd) => .ok (some o, hd, p.2.2)
  | _ => if e.contains ']' then .error .value else .ok (none, none, e)

/-- `_split_wildcard(steps)` -/
def splitWildcard (steps : List (List Char)) : List (List Char) × Option Bool × Option Hard :=
  match steps.getLast? with
  | some ['*'] => (steps.dropLast, some false, none)
  | some ['*', '\''] => (steps.dropLast, some true, some .apos)
  | some ['*', 'h'] => (steps.dropLast, some true, some .h)
  | _ => (steps, none, none)

/-- `_pub_key_from_hex(key, x_only)` -/
def pubKeyFromHex (o : KeyOracle) (xOnly : Bool) (key : List Char) : P (Bytes × Bool) :=
  match hexBytes key with
  | none => .error .value
  | some b =>
    let n := key.length
    if n = 64 then
      if !xOnly then .error .value
      else if o.validPub (2 :: b) then .ok (2 :: b, true) else .error .value
    else if n = 66 then
      if key.take 2 = ['0', '2'] ∨ key.take 2 = ['0', '3'] then
        (if o.validPub b then .ok (b, false) else .error .value)
      else .error .value
    else if n = 130 then
      if key.take 2 = ['0', '4'] then (if o.validPub b then .ok (b, false) else .error .value)
      else .error .value
    else .error .value

/-- `_fixed_pub_key(key, x_only)` -/
def fixedPubKey (o : KeyOracle) (xOnly : Bool) (key : List Char) : P (Bytes × Bool) :=
  if key.all isHexDigit then pubKeyFromHex o xOnly key
  else match o.wif key with
    | some sec =>
      -- an x-only key is held as its even-y SEC form, whatever the y of the WIF's point
      .ok (if xOnly && sec.length == 33 then 2 :: sec.drop 1 else sec, xOnly)
    | none => .error .value

/-- `_parse_key(expression, prv_keys, x_only=, compressed=, musig_allowed=)` -/
def parseKey (o : KeyOracle) (xOnly compressed musigOk : Bool) (e : List Char) : P Key :=
  if startsWith (nMusig ++ ['(']) e then (if musigOk then .error .unsupported else .error .value) else
  match originAndRest e with
  | .error x => .error x
  | .ok (origin, ohard, rest) =>
    if rest.contains ']' || rest.contains '<' || rest.contains '(' then .error .value else
    let p := partition '/' rest
    match o.xkey p.1 with
    | some pubText =>
      let w := splitWildcard (if p.2.1 then splitOn '/' p.2.2 else [])
      match joinedPath w.1 with
      | .error x => .error x
      | .ok (idx, phard) =>
        let hard := match w.2.2, phard, ohard with
          | some s, _, _ => s
          | none, some s, _ => s
          | none, none, some s => s
          | none, none, none => .h
        .ok { origin := origin, atom := .xkey pubText, path := idx, wildcard := w.2.1, hard := hard }
    | none =>
      if p.2.1 then .error .value else
      match fixedPubKey o xOnly p.1 with
      | .error x => .error x
      | .ok (sec, wasX) =>
        if compressed && sec.length != 33 then .error .value
        else .ok { origin := origin, atom := .pub sec wasX, path := [], wildcard := none,
                   hard := ohard.getD .h }

def consHead (c : Char) : List (List Char) → List (List Char)
  | h :: t => (c :: h) :: t
  | [] => [[c]]

/-- `_split_arguments(arguments)`: split at the commas of nesting depth zero (`(`/`{` open, `)`/`}`
    close, whichever closes whichever); `none` is "unbalanced brackets". -/
def splitArgsFrom : Nat → List Char → Option (List (List Char))
  | depth, [] => if depth = 0 then some [[]] else none
  | depth, c :: cs =>
    if c = '(' ∨ c = '{' then (splitArgsFrom (depth + 1) cs).map (consHead c)
    else if c = ')' ∨ c = '}' then
      (if depth = 0 then none else (splitArgsFrom (depth - 1) cs).map (consHead c))
    else if c = ',' ∧ depth = 0 then (splitArgsFrom 0 cs).map ([] :: ·)
    else (splitArgsFrom depth cs).map (consHead c)

def splitArgs (s : List Char) : P (List (List Char)) :=
  match splitArgsFrom 0 s with
  | some l => .ok l
  | none => .error .value

/-- `_split_function(expression)`: the text between the first `(` and the final `)`. -/
def splitFunction (e : List Char) : P (List Char × List Char) :=
  let name := e.takeWhile (· != '(')
  if name.length = e.length ∨ name.isEmpty ∨ e.getLast? ≠ some ')' then .error .value
  else .ok (name, (e.drop (name.length + 1)).dropLast)

/-- `_one_argument` -/
def oneArg : List (List Char) → P (List Char)
  | [a] => .ok a
  | _ => .error .value

/-- threshold and keys of `multi`, `sortedmulti`, `multi_a`, `sortedmulti_a`. -/
def parseMultiArgs (o : KeyOracle) (xOnly compressed musigOk : Bool) (args : List (List Char)) : P (Nat × List Key) :=
  match args with
  | t :: k :: ks =>
    match parseThreshold t with
    | none => .error .value
    | some thr =>
      match mapP (parseKey o xOnly compressed musigOk) (k :: ks) with
      | .error e => .error e
      | .ok keys => .ok (thr, keys)
  | _ => .error .value

/-- `_parse_miniscript_expression` / `_parse_leaf_miniscript`: `miniscript.parse` in the position's dialect
    (C15's reader, which knows raw hex keys: anything else it cannot read is `unsupported`), every key a
    point of the size the dialect takes, then `_assert_sane` (sane and satisfiable). -/
def parseMs (o : KeyOracle) (ctx : Miniscript.Ctx) (e : List Char) : P Miniscript.Ms :=
  match Miniscript.parse ctx e with
  | none => .error .unsupported
  | some n =>
    let keyOk (k : Bytes) : Bool :=
      match ctx with
      | .p2wsh => k.length == 33 && (k.head? == some 2 || k.head? == some 3) && o.validPub k
      | .tapscript => k.length == 32 && o.validPub (2 :: k)
    if !(Miniscript.keysOf n).all keyOk then .error .value
    else if Miniscript.isSane ctx n && (Miniscript.maxStackItems ctx n).isSome then .ok n
    else .error .value

/-- `expression[len(name) + 1 : -1]` -/
def inner (name e : List Char) : List Char := (e.drop (name.length + 1)).dropLast

/-- `_parse_tree(expression, prv_keys, depth)`; `fuel` bounds the recursion (the text gets shorter). -/
def parseTree (o : KeyOracle) : Nat → Nat → List Char → P Tree
  | 0, _, _ => .error .value
  | fuel + 1, depth, e =>
    if depth > MAX_TREE_DEPTH then .error .value
    else if e.head? = some '{' then
      if e.getLast? ≠ some '}' then .error .value else
      match splitArgs (e.drop 1).dropLast with
      | .error x => .error x
      | .ok [l, r] =>
        match parseTree o fuel (depth + 1) l with
        | .error x => .error x
        | .ok l =>
          match parseTree o fuel (depth + 1) r with
          | .error x => .error x
          | .ok r => .ok (.branch l r)
      | .ok _ => .error .value
    else
      let name := e.takeWhile (· != '(')
      -- a leaf that has a `(` ends with `)`: `_split_arguments` counts `}` as it counts `)`
      if e.contains '(' && e.getLast? != some ')' then .error .value
      else if isTreeFn name then
        match splitArgs (inner name e) with
        | .error x => .error x
        | .ok args =>
          match parseMultiArgs o true true true args with
          | .error x => .error x
          | .ok (thr, keys) => .ok (.multiA thr keys (name == nSortedmultiA))
      else if name == nMusig then .error .value
      else match fnOf name with
        | some .pk =>
          match splitArgs (inner name e) with
          | .error x => .error x
          | .ok args =>
            match oneArg args with
            | .error x => .error x
            | .ok a => (parseKey o true true true a).map .pk
        | some _ => .error .value          -- `_assert_position(name, _P2TR, …)`: only pk() allows tr()
        | none => (parseMs o .tapscript e).map .ms      -- a tapscript miniscript leaf

/-- `bytes.fromhex` allows spaces only between two-digit groups. -/
def pairsAligned : List Char → Bool
  | [] => true
  | ' ' :: rest => pairsAligned rest
  | _ :: ' ' :: _ => false
  | _ :: _ :: rest => pairsAligned rest
  | [_] => false

/-- the readers `_PARSERS` points at (`_parse_pk` … `_parse_raw`); `pe` / `pt` are
    `_parse_expression` / `_parse_tree` for the nested calls. -/
def parseFn (o : KeyOracle) (pe : Ctx → List Char → P D) (pt : List Char → P Tree) (fn : Fn) (ctx : Ctx)
    (args : List (List Char)) : P D :=
  match fn with
  | .pk => (oneArg args).bind fun a => (parseKey o (ctx == .tr) (noUncompressed ctx) false a).map .pk
  | .pkh => (oneArg args).bind fun a => (parseKey o false (noUncompressed ctx) false a).map .pkh
  | .wpkh => (oneArg args).bind fun a => (parseKey o false true false a).map .wpkh
  | .combo => (oneArg args).bind fun a => (parseKey o false false false a).map .combo
  | .sh => (oneArg args).bind fun a => (pe .sh a).map .sh
  | .wsh => (oneArg args).bind fun a => (pe .wsh a).map .wsh
  | .multi => (parseMultiArgs o false (noUncompressed ctx) false args).map fun r => .multi r.1 r.2 false
  | .sortedmulti => (parseMultiArgs o false (noUncompressed ctx) false args).map fun r => .multi r.1 r.2 true
  | .tr =>
    match args with
    | [k] => (parseKey o true true true k).map fun k => .tr k none
    | [k, t] => (parseKey o true true true k).bind fun k => (pt t).map fun t => .tr k (some t)
    | _ => .error .value
  | .rawtr => (oneArg args).bind fun a => (parseKey o true true true a).map .rawtr
  | .addr => (oneArg args).bind fun a => if o.validAddr a then .ok (.addr a) else .error .value
  | .raw => (oneArg args).bind fun a =>
      -- `bytes.fromhex` also skips ASCII whitespace between bytes; over INPUT_CHARSET that is the space
      match hexBytes (a.filter (· != ' ')) with
      | some b => if pairsAligned a then .ok (.raw b) else .error .value
      | none => .error .value

/-- `_parse_expression(expression, context, network, prv_keys)` -/
def parseExpr (o : KeyOracle) : Nat → Ctx → List Char → P D
  | 0, _, _ => .error .value
  | fuel + 1, ctx, e =>
    let name := e.takeWhile (· != '(')
    if name == nMusig then .error .value
    else if isTreeFn name && ctx != .tr then .error .value
    else match fnOf name with
      | none => if ctx == .wsh then (parseMs o .p2wsh e).map .ms else .error .value
      | some fn =>
        match splitFunction e with
        | .error x => .error x
        | .ok (_, arguments) =>
          if !fn.allowed ctx then .error .value else
          match splitArgs arguments with
          | .error x => .error x
          | .ok args => parseFn o (parseExpr o fuel) (parseTree o fuel 0) fn ctx args

/-- `parse(descriptor, network, prv_keys)` after its type checks. -/
def parse (o : KeyOracle) (s : List Char) : P D :=
  match Descsum.stripChecksum s with
  | .error _ => .error .value
  | .ok body => parseExpr o (body.length + 1) .top body

/-! ## `at_index`, `is_ranged` -/

def Key.isRanged (k : Key) : Bool := k.wildcard.isSome

/-- `fixed(key)` of `at_index` -/
def Key.atIndex (i : Nat) (k : Key) : Key :=
  match k.wildcard with
  | none => k
  | some hd => { k with path := k.path ++ [(if hd then HARDENED_OFFSET else 0) + i], wildcard := none }

def Tree.mapKeys (f : Key → Key) : Tree → Tree
  | .pk k => .pk (f k)
  | .multiA t ks s => .multiA t (ks.map f) s
  | .branch l r => .branch (l.mapKeys f) (r.mapKeys f)
  | .ms n => .ms n

def Tree.keys : Tree → List Key
  | .pk k => [k]
  | .multiA _ ks _ => ks
  | .branch l r => l.keys ++ r.keys
  | .ms _ => []

/-- `_mapped_keys(descriptor, key_map)` -/
def D.mapKeys (f : Key → Key) : D → D
  | .pk k => .pk (f k) | .pkh k => .pkh (f k) | .wpkh k => .wpkh (f k) | .combo k => .combo (f k)
  | .sh d => .sh (d.mapKeys f) | .wsh d => .wsh (d.mapKeys f)
  | .multi t ks s => .multi t (ks.map f) s
  | .tr k t => .tr (f k) (t.map (·.mapKeys f)) | .rawtr k => .rawtr (f k)
  | .addr a => .addr a | .raw s => .raw s
  | .ms n => .ms n

/-- `Descriptor.key_expressions` -/
def D.keys : D → List Key
  | .pk k | .pkh k | .wpkh k | .combo k | .rawtr k => [k]
  | .sh d | .wsh d => d.keys
  | .multi _ ks _ => ks
  | .tr k none => [k]
  | .tr k (some t) => k :: t.keys
  | .addr _ | .raw _ | .ms _ => []

def D.isRanged (d : D) : Bool := d.keys.any Key.isRanged

/-- `at_index(descriptor, index)`; `none` is the refusal of `_assert_index`. -/
def atIndex (d : D) (i : Nat) : Option D :=
  if i ≥ INDEX_BOUND then none
  else if i ≠ 0 ∧ !d.isRanged then none
  else some (d.mapKeys (Key.atIndex i))

end Btc.Desc
