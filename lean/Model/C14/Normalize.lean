import Model.C14.Derive
import Model.C07.Serial
/-
C14 — `normalized(descriptor, prv_keys)` (descriptors.py: `normalized`, `_normalized_key`, `_mapped_keys`):
every key expression re-rooted at its last hardened step (Bitcoin Core's `ToNormalizedString`), the hardening
symbol `_HARDENING` throughout.  Built on C07's `deriveB` / `neuter` / `serialize` and C06's Base58Check.
`musig()` participants are outside `Key` (Model/C14/Musig.lean) and answered `unsupported` by the driver.
A refusal (`none`) is a BTClibValueError.
-/
namespace Btc.Desc
open Btc Gen.Descriptor

/-- `_HARDENING` (generated) as a symbol of the AST -/
def hardOfChar (c : Char) : Hard := if c = '\'' then .apos else .h

def NORMAL_HARD : Hard := hardOfChar HARDENING

/-- `hardened[-1] + 1` where `hardened = [i for i, step in enumerate(der_path) if step >= _HARDENED_OFFSET]`;
    `none` when the list is empty. -/
def rerootAt : List Nat → Option Nat
  | [] => none
  | s :: rest =>
    match rerootAt rest with
    | some n => some (n + 1)
    | none => if s ≥ HARDENED_OFFSET then some 1 else none

section
variable {α : Type} (E : DEnv α)

/-- `BIP32KeyData.b58encode()`: `serialize` (with `assert_valid`), Base58Check, as text. -/
def encodeXkey (x : Bip32.XKey) : Option (List Char) :=
  match Bip32.serialize E.bip x with
  | .ok b => some ((Base58.encode E.hash256 b).map Char.ofNat)
  | .error _ => none

/-- `_xpub_from_xprv(_derive(_key_data_from_bip32_key(xprv), prefix, None))`: the text is decoded AND validated,
    walked along the prefix, neutered. -/
def rerootedXpub (xprv : List Char) (pre : List Nat) : Option Bip32.XKey :=
  match decodeXkey E xprv with
  | none => none
  | some x =>
    match ((Bip32.assertValid E.bip x).bind fun _ => Bip32.deriveB E.bip x pre none).bind (Bip32.neuter E.bip) with
    | .ok y => some y
    | .error _ => none

/-- the master fingerprint and path the new origin starts from.  `key.origin` is tested for TRUTH and
    `BIP32KeyOrigin.__len__` is the length of its path: an origin written with a fingerprint and no step
    (`[d34db33f]xpub…`) counts as absent, its fingerprint is replaced by `fingerprint(key.xkey)`. -/
def originBase (k : Key) (t : List Char) : Option (Bytes × List Nat) :=
  match k.origin with
  | some o => if o.path.isEmpty then
      (match decodeXkey E t with
       | some x => (match Bip32.fingerprint E.bip x with | .ok f => some (f, []) | .error _ => none)
       | none => none)
    else some (o.fp, o.path)
  | none =>
    match decodeXkey E t with
    | some x => (match Bip32.fingerprint E.bip x with | .ok f => some (f, []) | .error _ => none)
    | none => none

/-- `_normalized_key(key, prv_keys)` (a key without participants) -/
def Key.normalize (prv : PrvKeys) (k : Key) : Option Key :=
  match k.atom with
  | .pub _ _ => some { k with hard := NORMAL_HARD }
  | .xkey t =>
    if k.wildcard = some true then some { k with hard := NORMAL_HARD } else
    match rerootAt k.path with
    | none => some { k with hard := NORMAL_HARD }
    | some last =>
      match prv.lookup t with            -- `prv_keys.get(key.xkey) if prv_keys else None`
      | none => none
      | some xprv =>
        match originBase E k t, (rerootedXpub E xprv (k.path.take last)).bind (encodeXkey E) with
        | some (fp, op), some text =>
          some { origin := some ⟨fp, op ++ k.path.take last⟩, atom := .xkey text, path := k.path.drop last,
                 wildcard := k.wildcard, hard := NORMAL_HARD }
        | _, _ => none

def Tree.mapKeysO (f : Key → Option Key) : Tree → Option Tree
  | .pk k => (f k).map .pk
  | .multiA t ks s => (mapO f ks).map fun ks' => .multiA t ks' s
  | .branch l r =>
    match l.mapKeysO f, r.mapKeysO f with
    | some a, some b => some (.branch a b)
    | _, _ => none
  | .ms n => some (.ms n)

/-- `_mapped_keys(descriptor, key_map)` for a key map that may raise -/
def D.mapKeysO (f : Key → Option Key) : D → Option D
  | .pk k => (f k).map .pk | .pkh k => (f k).map .pkh | .wpkh k => (f k).map .wpkh
  | .combo k => (f k).map .combo
  | .sh d => (d.mapKeysO f).map .sh | .wsh d => (d.mapKeysO f).map .wsh
  | .multi t ks s => (mapO f ks).map fun ks' => .multi t ks' s
  | .tr k none => (f k).map fun k' => .tr k' none
  | .tr k (some t) =>
    match f k, t.mapKeysO f with
    | some k', some t' => some (.tr k' (some t'))
    | _, _ => none
  | .rawtr k => (f k).map .rawtr
  | .addr a => some (.addr a) | .raw s => some (.raw s)
  | .ms n => some (.ms n)

/-- `normalized(descriptor, prv_keys)` -/
def normalized (prv : PrvKeys) (d : D) : Option D := d.mapKeysO (Key.normalize E prv)

end
end Btc.Desc
