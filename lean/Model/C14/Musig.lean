import Model.C14.Descriptor
/-
C14 — BIP390 `musig()` KEY expressions as text (`key_expression._parse_musig`, `_musig_der_path`, the
`participants` branch of `KeyExpression.__str__`): the participants are ordinary KEY expressions, the
aggregate may carry an unhardened path and an unhardened wildcard.  Aggregation itself is C16's.
-/
namespace Btc.Desc
open Btc Gen.Descriptor

/-- a `KeyExpression` with participants. -/
structure Musig where
  participants : List Key
  path : List Nat
  wildcard : Bool
  deriving DecidableEq

/-- `KeyExpression.__str__`, participants branch. -/
def strMusig (m : Musig) : List Char :=
  call nMusig (m.participants.map strKey) ++ strSteps .h m.path ++ (if m.wildcard then ['/', '*'] else [])

/-- split at the LAST occurrence of `c` (`str.rfind`). -/
def splitLastC (c : Char) : List Char → Option (List Char × List Char)
  | [] => none
  | x :: xs =>
    match splitLastC c xs with
    | some (a, b) => some (x :: a, b)
    | none => if x = c then some ([], xs) else none

/-- `_musig_der_path(suffix)` -/
def musigDerPath (suffix : List Char) : P (List Nat × Bool) :=
  match suffix with
  | [] => .ok ([], false)
  | '/' :: rest =>
    let w := splitWildcard (splitOn '/' rest)
    if w.2.2.isSome then .error .value else
    match joinedPath w.1 with
    | .error e => .error e
    | .ok (idx, _) =>
      if idx.any (fun i => decide (HARDENED_OFFSET ≤ i)) then .error .value else .ok (idx, w.2.1.isSome)
  | _ => .error .value

def Key.isXkey (k : Key) : Bool := match k.atom with | .xkey _ => true | .pub _ _ => false

/-- `_parse_musig(expression, prv_keys)` (the caller has checked that it starts with `musig(`). -/
def parseMusig (o : KeyOracle) (e : List Char) : P Musig :=
  match splitLastC ')' e with
  | none => .error .value
  | some (before, after) =>
    match splitArgs (before.drop (nMusig.length + 1)) with
    | .error x => .error x
    | .ok args =>
      if args = [[]] then .error .value else
      match mapP (parseKey o false true false) args with
      | .error x => .error x
      | .ok ps =>
        match musigDerPath after with
        | .error x => .error x
        | .ok (idx, wild) =>
          if (!idx.isEmpty || wild) && (ps.any (fun k => !k.isXkey) || ps.any Key.isRanged) then .error .value
          else .ok { participants := ps, path := idx, wildcard := wild }

end Btc.Desc
