import Model.C14.Descriptor
/-
C14 — `btclib/core_import.py`: the ranges of `importdescriptors` requests and of `listdescriptors` replies
(`_assert_key_range`, `_range_fields`, the guards of `import_request`, `_comparable`, `watched_range`,
`widened_range`, `assert_imported`).  JSON typing of a reply is not modelled (checked on the real code
with hostile replies); the integers and the texts are.
-/
namespace Btc.CoreImport
open Btc Gen.Descriptor

abbrev Range := Int × Int

/-- `_assert_key_range(start, end)`: `true` = accepted. -/
def keyRangeOk (r : Range) : Bool :=
  decide (0 ≤ r.1) && decide (r.1 ≤ r.2) && decide (r.2 < 2 ^ CORE_END_SHIFT) && decide (r.2 - r.1 < CORE_MAX_RANGE_SPAN)

/-- `widened_range(wanted, watched)`; `none` is the BTClibValueError of `_assert_key_range(wanted)`. -/
def widenedRange (wanted : Range) (watched : Option Range) : Option Range :=
  if !keyRangeOk wanted then none else
  let w := watched.getD CORE_DEFAULT_RANGE
  some (min wanted.1 w.1, max wanted.2 w.2)

/-- `_comparable(text)`: the expression without its checksum, every `'` spelled `h`. -/
def comparable (text : List Char) : List Char :=
  (Descsum.partition '#' text).1.map fun c => if c = '\'' then 'h' else c

/-- one `listdescriptors` entry: its `desc`, and its `range` when it has one. -/
structure Entry where
  desc : List Char
  range : Option Range

/-- the ranges of the entries holding the same expression. -/
def matching (d : List Char) (es : List Entry) : List Range :=
  es.filterMap fun e => if comparable e.desc = comparable d then e.range else none

/-- `watched_range(descriptor, reply)` on a well-typed reply: the union of the matching ranged entries. -/
def watchedRange (d : List Char) (es : List Entry) : Option Range :=
  match matching d es with
  | [] => none
  | r :: rest => some (rest.foldl (fun a x => min a x.1) r.1, rest.foldl (fun a x => max a x.2) r.2)

/-- `_range_fields(key_range, next_index)`: `true` = accepted. -/
def rangeFieldsOk (keyRange : Option Range) (next : Option Int) : Bool :=
  match keyRange, next with
  | none, none => true
  | none, some _ => false
  | some r, none => keyRangeOk r
  | some r, some n => keyRangeOk r && decide (r.1 ≤ n) && decide (n ≤ r.2)

/-- the guards of `import_request` after the descriptor text and the timestamp were accepted. -/
def importRequestOk (ranged active internal hasLabel : Bool) (keyRange : Option Range) (next : Option Int) : Bool :=
  !(active && !ranged) && !(keyRange.isSome && !ranged) && !(internal && hasLabel) && !(ranged && hasLabel) &&
    rangeFieldsOk keyRange next

/-- `assert_imported(requests, answers)` on well-typed arguments: `true` = every request honoured. -/
def importedOk (nRequests : Nat) (successes : List Bool) : Bool :=
  nRequests == successes.length && successes.all id

end Btc.CoreImport
