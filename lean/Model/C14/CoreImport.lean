import Model.C14.Descriptor
/-
C14 — `btclib/core_import.py`: the ranges of `importdescriptors` requests and of `listdescriptors` replies
(`_assert_key_range`, `_range_fields`, the guards of `import_request`, `_comparable`, `watched_range`,
`widened_range`, `assert_imported`).  JSON typing of a reply is not modelled (checked on the real code
with hostile replies); the integers and the texts are.
-/
namespace Btc.CoreImport
open Btc Gen.Descriptor

abbrev Range := Int × Int

/-- `_assert_key_range(start, end)`: `true` = accepted. -/
def keyRangeOk (r : Range) : Bool :=
  decide (0 ≤ r.1) && decide (r.1 ≤ r.2) && decide (r.2 < 2 ^ CORE_END_SHIFT) && decide (r.2 - r.1 < CORE_MAX_RANGE_SPAN)

/-- `widened_range(wanted, watched)`; `none` is the BTClibValueError of `_assert_key_range(wanted)`. -/
def widenedRange (wanted : Range) (watched : Option Range) : Option Range :=
  if !keyRangeOk wanted then none else
  let w := watched.getD CORE_DEFAULT_RANGE
  some (min wanted.1 w.1, max wanted.2 w.2)

/-- `_comparable(text)`: the expression without its checksum, every `'` spelled `h`. -/
def comparable (text : List Char) : List Char :=
  (Descsum.partition '#' text).1.map fun c => if c = '\'' then 'h' else c

/-- one `listdescriptors` entry: its `desc`, and its `range` when it has one. -/
structure Entry where
  desc : List Char
  range : Option Range

/-- the ranges of the entries holding the same expression. -/
def matching (d : List Char) (es : List Entry) : List Range :=
  es.filterMap fun e => if comparable e.desc = comparable d then e.range else none

/-- `watched_range(descriptor, reply)` on a well-typed reply: the union of the matching ranged entries. -/
def watchedRange (d : List Char) (es : List Entry) : Option Range :=
  match matching d es with
  | [] => none
  | r :: rest => some (rest.foldl (fun a x => min a x.1) r.1, rest.foldl (fun a x => max a x.2) r.2)

/-- `_range_fields(key_range, next_index)`: `true` = accepted. -/
def rangeFieldsOk (keyRange : Option Range) (next : Option Int) : Bool :=
  match keyRange, next with
  | none, none => true
  | none, some _ => false
  | some r, none => keyRangeOk r
  | some r, some n => keyRangeOk r && decide (r.1 ≤ n) && decide (n ≤ r.2)

/-- the guards of `import_request` after the descriptor text and the timestamp were accepted. -/
def importRequestOk (ranged active internal hasLabel : Bool) (keyRange : Option Range) (next : Option Int) : Bool :=
  !(active && !ranged) && !(keyRange.isSome && !ranged) && !(internal && hasLabel) && !(ranged && hasLabel) &&
    rangeFieldsOk keyRange next

/-- `assert_imported(requests, answers)` on well-typed arguments: `true` = every request honoured. -/
def importedOk (nRequests : Nat) (successes : List Bool) : Bool :=
  nRequests == successes.length && successes.all id

/-! ### a node's replies as JSON values (`fields_from_json_object`, `list_from_json_array`, `int_from_json_number`)

`watched_range` and `assert_imported` read what a node answered; since /repo 085a2201 every access goes through the json
guards of `btclib/utils.py`, so a reply of another shape is refused with a BTClibTypeError / BTClibValueError instead of
leaving through KeyError / IndexError / AttributeError / OverflowError / a bare ValueError. -/

/-- a decoded JSON value.  A float is `some n` when it is whole (`float.is_integer()`), `none` otherwise (1.5, nan, inf). -/
inductive J
  | null
  | bool (b : Bool)
  | int (n : Int)
  | float (whole : Option Int)
  | str (s : List Char)
  | arr (l : List J)
  | obj (kv : List (List Char × J))

/-- the exception classes: BTClibValueError, BTClibTypeError, BTClibRuntimeError. -/
inductive JErr | value | type | runtime
  deriving DecidableEq, Repr

abbrev R := Except JErr

/-- `fields_from_json_object`: a Mapping, or BTClibTypeError. -/
def J.fields : J → R (List (List Char × J))
  | .obj kv => .ok kv
  | _ => .error .type

/-- `dict_[key]` on a `_JsonObject`: a missing field is a BTClibValueError. -/
def getField (kv : List (List Char × J)) (k : String) : R J :=
  match kv.lookup k.toList with
  | some v => .ok v
  | none => .error .value

/-- `list_from_json_array`: a list, or BTClibTypeError (a str, a Mapping, a number, null). -/
def J.list : J → R (List J)
  | .arr l => .ok l
  | _ => .error .type

/-- `int(text)` for the spellings the check generates: an optional sign and one or more ASCII digits, at most
    `INT_MAX_STR_DIGITS` of them (CPython's limit); anything else is a ValueError.  (White space, `_` separators and
    non-ASCII digits, which `int()` also reads, are not modelled and not generated.) -/
def intOfText (s : List Char) : Option Int :=
  let (neg, ds) := match s with
    | '-' :: r => (true, r)
    | '+' :: r => (false, r)
    | r => (false, r)
  if ds.isEmpty || !ds.all Char.isDigit || ds.length > INT_MAX_STR_DIGITS then none
  else
    let v : Nat := ds.foldl (fun a c => 10 * a + (c.toNat - 48)) 0
    some (if neg then -(v : Int) else v)

/-- `int_from_json_number` -/
def J.toInt : J → R Int
  | .bool _ => .error .type
  | .float none => .error .value
  | .float (some n) => .ok n
  | .int n => .ok n
  | .str s => match intOfText s with | some n => .ok n | none => .error .value
  | .null | .arr _ | .obj _ => .error .type

/-- the loop of `watched_range` over the entries: the ranges of the entries holding the same expression, or the first
    refusal in reading order. -/
def collectRanges (wanted : List Char) : List J → R (List Range)
  | [] => .ok []
  | e :: es => do
    let kv ← e.fields
    let desc ← getField kv "desc"
    let text ← (match desc with | .str t => .ok t | _ => .error .type : R (List Char))
    let here ← (if comparable text = wanted then
        match kv.lookup "range".toList with
        | none => .ok []
        | some r => do
          let l ← r.list
          match l with
          | [a, b] => do
            let s ← a.toInt
            let e ← b.toInt
            pure [(s, e)]
          | _ => .error .value
      else .ok [] : R (List Range))
    let rest ← collectRanges wanted es
    pure (here ++ rest)

/-- the union of a list of ranges, `None` for none. -/
def unionOf : List Range → Option Range
  | [] => none
  | r :: rest => some (rest.foldl (fun a x => min a x.1) r.1, rest.foldl (fun a x => max a x.2) r.2)

/-- `watched_range(descriptor, reply)` on ANY decoded reply. -/
def watchedRangeJ (d : List Char) (reply : J) : R (Option Range) := do
  let kv ← reply.fields
  let ds ← getField kv "descriptors"
  let l ← ds.list
  let rs ← collectRanges (comparable d) l
  pure (unionOf rs)

/-- Python truthiness of a decoded JSON value (`not answer.get("success")`). -/
def J.truthy : J → Bool
  | .null => false
  | .bool b => b
  | .int n => n != 0
  | .float (some n) => n != 0
  | .float none => true
  | .str s => !s.isEmpty
  | .arr l => !l.isEmpty
  | .obj kv => !kv.isEmpty

/-- the loop of `assert_imported` over `zip(requests, answers)`. -/
def importedLoop : List J → List J → R Unit
  | rq :: rqs, an :: ans => do
    let _ ← rq.fields
    let kv ← an.fields
    if !((kv.lookup "success".toList).map J.truthy).getD false then .error .runtime
    else importedLoop rqs ans
  | _, _ => .ok ()

/-- `assert_imported(requests, answers)` on ANY decoded arguments. -/
def assertImportedJ (requests answers : J) : R Unit := do
  let rq ← requests.list
  let an ← answers.list
  if rq.length ≠ an.length then .error .runtime else importedLoop rq an

/-- a well-typed `listdescriptors` reply: what a node that follows the rpc documentation answers. -/
def Entry.toJ (e : Entry) : J :=
  .obj (("desc".toList, .str e.desc) ::
    (match e.range with | some r => [("range".toList, .arr [.int r.1, .int r.2])] | none => []))

def replyOf (es : List Entry) : J := .obj [("wallet_name".toList, .str []), ("descriptors".toList, .arr (es.map Entry.toJ))]

end Btc.CoreImport
