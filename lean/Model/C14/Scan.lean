/-
C14 — "is this output mine": the scans of `Descriptor.index_of` (descriptors.py) and
`RangedWallet.position_of` (wallet/wallet.py) over an abstract derivation function.

    for index in range(last + 1):                     for branch in self.branches:
        if any(c.script == script for c in                for index in range(last_index + 1):
               self.script_pub_keys(index, prv_keys)):        if self._script_pub_key(branch, index).script == script:
            return index                                          return branch, index
    return None                                       return None

`findFirst` / `positionOf` / `positionOfDesc` take derivation as a total function.  `scanE` is the same
scan with the raise mirrored: a position the wallet cannot derive (`hit = none`: index past 65535 of an
account wallet, a hardened step without the private key, an index past 2^31-1) is an exception that
LEAVES the scan at that position — unless a match came first.
-/
namespace Btc.Scan

/-- `for index in range(start, start + count): if hit(index): return index`; `none` is `return None`. -/
def findFrom (hit : Nat → Bool) : Nat → Nat → Option Nat
  | _, 0 => none
  | i, n + 1 => if hit i then some i else findFrom hit (i + 1) n

/-- the loop of `Descriptor.index_of`: indexes `0 … last`, both ends included. -/
def findFirst (hit : Nat → Bool) (last : Nat) : Option Nat := findFrom hit 0 (last + 1)

/-- `Descriptor.index_of`: `spks i` are the scripts the descriptor describes at `i` (one, or the
    four of a `combo()`); a descriptor that is not ranged is searched at index 0 only. -/
def indexOf {σ : Type} [DecidableEq σ] (spks : Nat → List σ) (ranged : Bool) (s : σ) (last : Nat) : Option Nat :=
  findFirst (fun i => decide (s ∈ spks i)) (if ranged then last else 0)

/-- `RangedWallet.position_of`: branches in `branches` order, one whole branch before the next. -/
def positionOf {β σ : Type} [DecidableEq σ] (spk : β → Nat → σ) (s : σ) (last : Nat) : List β → Option (β × Nat)
  | [] => none
  | b :: bs =>
    match findFirst (fun i => decide (spk b i = s)) last with
    | some i => some (b, i)
    | none => positionOf spk s last bs

/-- `DescriptorWallet.position_of`: `Descriptor.index_of` per chain, in `branches` order. -/
def positionOfDesc {β σ : Type} [DecidableEq σ] (spks : β → Nat → List σ) (ranged : β → Bool) (s : σ) (last : Nat) :
    List β → Option (β × Nat)
  | [] => none
  | b :: bs =>
    match indexOf (spks b) (ranged b) s last with
    | some i => some (b, i)
    | none => positionOfDesc spks ranged s last bs

/-- the inner loop with the raise: `none` = the exception, `some none` = ran to the end, `some (some i)` = hit. -/
def findFromE (hit : Nat → Option Bool) : Nat → Nat → Option (Option Nat)
  | _, 0 => some none
  | i, n + 1 =>
    match hit i with
    | none => none
    | some true => some (some i)
    | some false => findFromE hit (i + 1) n

/-- `position_of` with the raise: branches in order, indexes `0 … lastOf b` per branch
    (`lastOf` is `last_index`, or 0 for a chain that is not ranged). -/
def scanE {β : Type} (hit : β → Nat → Option Bool) (lastOf : β → Nat) : List β → Option (Option (β × Nat))
  | [] => some none
  | b :: bs =>
    match findFromE (hit b) 0 (lastOf b + 1) with
    | none => none
    | some (some i) => some (some (b, i))
    | some none => scanE hit lastOf bs

end Btc.Scan
