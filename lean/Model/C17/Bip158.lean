import Model.Common.SipHash
import Model.C17.Golomb
import Generated.Filter
/-
BIP158 basic filter of btclib/block/block_filter.py on top of the Golomb-Rice model:
`_key_from_block_hash`, `_hash_to_range`, the contents rule and construction of `from_block`,
`element_hashes`, `match_any`.  `P`, `M`, the OP_RETURN byte come from `Generated/Filter.lean`.
Core Lean only.
-/
namespace Btc.Bip158
open Btc

def P : Nat := Gen.Filter.BASIC_FILTER_P
def M : Nat := Gen.Filter.BASIC_FILTER_M

/-- `_key_from_block_hash`: the hash is held in display order; the key is read off the internal order. -/
def keyFromBlockHash (blockHash : Bytes) : UInt64 × UInt64 :=
  let internal := blockHash.reverse
  (UInt64.ofNat (ofLE (internal.take 8)), UInt64.ofNat (ofLE ((internal.drop 8).take 8)))

/-- `_hash_to_range`: `(siphash(k0, k1, element) * upper_bound) >> 64` -/
def hashToRange (k0 k1 : UInt64) (element : Bytes) (upper : Nat) : Nat :=
  ((siphash k0 k1 element).toNat * upper) >>> 64

/-- contents rule of `from_block`: output scripts that are non-empty and do not start with OP_RETURN,
    previous output scripts that are non-empty; a set. -/
def elements (outScripts prevScripts : List Bytes) : List Bytes :=
  ((outScripts.filter fun s => match s with
      | [] => false
      | x :: _ => x.toNat != Gen.Filter.OP_RETURN) ++ prevScripts.filter (· ≠ [])).eraseDups

/-- the sorted hashed values of a set of elements -/
def hashedSorted (k0 k1 : UInt64) (upper : Nat) (es : List Bytes) : List Nat :=
  (es.map (hashToRange k0 k1 · upper)).mergeSort (· ≤ ·)

/-- `from_block` after the scripts are collected: (element_count, encoded_set). -/
def build (blockHash : Bytes) (outScripts prevScripts : List Bytes) : Nat × Bytes :=
  let es := elements outScripts prevScripts
  let (k0, k1) := keyFromBlockHash blockHash
  let upper := es.length * M
  (es.length, Golomb.encodeSet P (hashedSorted k0 k1 upper es))

/-- `element_hashes` -/
def elementHashes (n : Nat) (data : Bytes) : Except Golomb.Err (List Nat) :=
  Golomb.decodeSet P (n * M) n data

/-- `match_any`: targets hashed into the filter's range, as a sorted set -/
def matchAnyElems (blockHash : Bytes) (n : Nat) (data : Bytes) (elems : List Bytes) :
    Except Golomb.Err Bool :=
  let (k0, k1) := keyFromBlockHash blockHash
  let upper := n * M
  let targets := ((elems.map (hashToRange k0 k1 · upper)).eraseDups).mergeSort (· ≤ ·)
  Golomb.matchAny P upper n data targets

end Btc.Bip158
