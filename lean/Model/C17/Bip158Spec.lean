import Model.Common.SipHash
/-!
BIP158's construction, written from the text of the BIP (sections "Hashing Data Objects", "Golomb-Rice Coding",
"Set Construction"), not from btclib: `hash_to_range`, `hashed_set_construct`, `golomb_encode` (unary quotient as a
run of 1s closed by a 0, then the P low bits big-endian), `construct_gcs` (sort, deltas from 0).  The bit stream is
packed into octets most significant bit first, zero padded (`Golomb.pack`, shared).
-/
namespace Btc.Bip158.Spec
open Btc

/-- `write_bits_big_endian(stream, x, P)`: the `P` low bits of `x`, most significant first -/
def writeBitsBE (x p : Nat) : List Bool := (List.range p).reverse.map fun j => x.testBit j

/-- `golomb_encode(stream, x, P)`: `q = x >> P; while q > 0: write 1; q--`, `write 0`, then the remainder -/
def golombEncode (x p : Nat) : List Bool := List.replicate (x >>> p) true ++ [false] ++ writeBitsBE x p

/-- `hash_to_range(item, F, k) = (siphash(k, item) * F) >> 64` over `F = N * M` -/
def hashedSetConstruct (k0 k1 : UInt64) (items : List Bytes) (m : Nat) : List Nat :=
  items.map fun it => (siphash k0 k1 it).toNat * (items.length * m) / 2 ^ 64

/-- `delta = item - last_value; last_value = item` -/
def deltas : Nat → List Nat → List Nat
  | _, [] => []
  | last, v :: vs => (v - last) :: deltas v vs

/-- `construct_gcs(L, P, k, M)`: the bit stream -/
def constructGcs (items : List Bytes) (p : Nat) (k0 k1 : UInt64) (m : Nat) : List Bool :=
  ((deltas 0 ((hashedSetConstruct k0 k1 items m).mergeSort (· ≤ ·))).map (golombEncode · p)).flatten

end Btc.Bip158.Spec

